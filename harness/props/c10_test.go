package props

import (
	"math/rand"
	"os"
	"path/filepath"
	"strings"
	"testing"
	"time"

	"verifharness/hist"
)

func c10Run(c *Case) []hist.Obs {
	w := hist.NewWorld()
	if sp, ok := c.Meta["savepath"].(func(string) string); ok {
		w.SavePath = sp
	}
	return w.Exec(c.Hist)
}

func c10HasTag(c *Case, tag string) bool {
	for _, t := range c.Tags {
		if t == tag {
			return true
		}
	}
	return false
}

func c10HasTagPrefix(c *Case, pre string) bool {
	for _, t := range c.Tags {
		if strings.HasPrefix(t, pre) {
			return true
		}
	}
	return false
}

// The oracle accepts what the unchanged implementation does on a whole quick run, the
// construction of the cases is sound (a case tagged with a failure cause really fails in
// that way, a case of a constructed tree without cause succeeds), and the temp root is gone
// once the last save case has been judged.
func TestC10CleanAndSound(t *testing.T) {
	p := &c10{}
	defer p.Close()
	cases := p.Generate(rand.New(rand.NewSource(7)), "quick")
	var root string
	if len(p.roots) == 1 {
		root = p.roots[0]
	} else {
		t.Fatalf("want one temp root, have %v", p.roots)
	}
	outcomes := map[string]int{}
	for _, c := range cases {
		got := c10Run(c)
		if d := p.Oracle(c, got); d != "" {
			t.Fatalf("oracle rejects the unchanged implementation: %s\n%s\n%v", d, c.Hist.Sexp(), got)
		}
		if d := p.Oracle(c, got); d != "" { // idempotent (the post-state is kept)
			t.Fatalf("second oracle call differs: %s", d)
		}
		last := got[len(got)-1]
		if c.Stream == "save-write-fails" {
			if !c10HasTagPrefix(c, "cause=target:w") || !c10HasTag(c, "open-succeeds-write-fails") {
				t.Fatalf("save-write-fails: tags %v", c.Tags)
			}
			if c10HasTag(c, "then=render") {
				// the operation under test is the save; the File still renders after a failed Save
				last = got[len(got)-2]
				if after := got[len(got)-1]; last.Kind == "save" && (after.Kind != "write" || after.Failed) {
					t.Fatalf("save-write-fails: render after the failed save shows %s", after)
				}
			}
			if last.Kind == "save" && last.Failed {
				outcomes["write-fails:"+c10TargetKind(c.Hist[len(c.Hist)-1].A)+c10TargetKind(c.Hist[len(c.Hist)-2].A)]++
			}
		}
		switch c.Stream {
		case "after-failed-render":
			// construction: exactly the operations named in skip fail, all others succeed
			info := c.Meta["c10"].(*c10info)
			oi, failed, succeeded := 0, 0, 0
			for i, op := range c.Hist {
				switch op.Kind {
				case "render", "rcode", "rplain", "save", "imports":
				default:
					continue
				}
				o := got[oi]
				oi++
				isFail := o.Kind == "panic" || o.Kind == "fmterr"
				if isFail != (info.skip[i] != "") {
					t.Fatalf("after-failed-render: op %d (%s) shows %s, designed failure: %q\n%s", i, op.Kind, o, info.skip[i], c.Hist.Sexp())
				}
				if isFail {
					failed++
					want := "fmterr"
					if c10HasTag(c, "failed=rcode-panic") || c10HasTag(c, "failed=filerender-panic") {
						want = "panic"
					}
					if o.Kind != want {
						t.Fatalf("after-failed-render: tags %v promise %s, got %s", c.Tags, want, o)
					}
				} else if failed > 0 {
					succeeded++ // a success AFTER a failure
				}
			}
			if failed == 0 || succeeded == 0 || (last.Kind != "write" && last.Kind != "save") || last.Failed {
				t.Fatalf("after-failed-render: %d failures, %d successes, last %s", failed, succeeded, last)
			}
			outcomes["after-failed:"+c.Tags[1]]++
			continue
		case "save-over-related":
			info := c.Meta["c10"].(*c10info)
			if last.Kind != "save" || last.Failed {
				t.Fatalf("save-over-related: want a successful save, got %s", last)
			}
			old, out := info.pre["existing.go"].Data, last.Out
			rel := ""
			switch {
			case old == out:
				rel = "existing-equal"
			case strings.HasPrefix(old, out):
				rel = "existing-extends-output"
			case strings.HasPrefix(out, old):
				rel = "existing-prefix-of-output"
			case len(old) == len(out):
				rel = "existing-same-length"
			}
			if !c.NonTrivial || rel == "" || !c10HasTag(c, "target="+rel) {
				t.Fatalf("save-over-related: measured relation %q, tags %v, nontrivial %v\nold %q\nout %q", rel, c.Tags, c.NonTrivial, old, out)
			}
			outcomes["save-over:"+rel]++
			continue
		}
		var want string
		switch {
		case (c10HasTag(c, "tree=random") || c10HasTag(c, "tree=damaged") || c10HasTag(c, "tree=random-rich")) && !c10HasTag(c, "cause=panic"):
			want = "" // validity unknown: a format error may come before the constructed cause
		case c10HasTag(c, "cause=panic"):
			want = "panic"
		case c10HasTag(c, "cause=fmterr"):
			want = "fmterr"
		case c10HasTag(c, "cause=wfault"):
			want = "write-failed"
		case c10HasTagPrefix(c, "cause=target:"):
			want = "save-failed"
		default:
			want = "ok"
		}
		have := last.Kind
		switch {
		case last.Kind == "write" && last.Failed:
			have = "write-failed"
		case last.Kind == "save" && last.Failed:
			have = "save-failed"
		case last.Kind == "write" || last.Kind == "save":
			have = "ok"
		}
		if want != "" && have != want {
			t.Fatalf("construction unsound: tags %v promise %s, the implementation shows %s\n%s", c.Tags, want, last, c.Hist.Sexp())
		}
		if c.NonTrivial && have == "ok" {
			t.Fatalf("a case counted as non-trivial succeeded: %v\n%s", c.Tags, c.Hist.Sexp())
		}
		outcomes[have]++
	}
	for _, k := range []string{"ok", "panic", "fmterr", "write-failed", "save-failed"} {
		if outcomes[k] < 50 {
			t.Errorf("outcome %s seen only %d times: %v", k, outcomes[k], outcomes)
		}
	}
	for _, k := range []string{"after-failed:failed=rcode-fmterr", "after-failed:failed=rcode-panic", "after-failed:failed=filerender-fmterr", "after-failed:failed=filerender-panic",
		"save-over:existing-equal", "save-over:existing-extends-output", "save-over:existing-prefix-of-output", "save-over:existing-same-length"} {
		if outcomes[k] < 20 {
			t.Errorf("%s seen only %d times: %v", k, outcomes[k], outcomes)
		}
	}
	for _, k := range p.writeFailKinds() {
		if outcomes["write-fails:"+k] < 10 {
			t.Errorf("Save failing in the write on target %s seen only %d times: %v", k, outcomes["write-fails:"+k], outcomes)
		}
	}
	if len(p.writeFailKinds()) == 0 {
		t.Log("no write-failing save target is available in this environment")
	}
	if _, err := os.Stat(root); !os.IsNotExist(err) {
		t.Errorf("temp root %s still exists after the last save case was judged", root)
	}
	t.Logf("outcomes: %v", outcomes)
}

// mk builds one case of the matrix and runs it on the implementation.
func c10Mk(p *c10, seed int64, s c10spec) (*Case, []hist.Obs) {
	c := p.build(rand.New(rand.NewSource(seed)), s, "test")
	return c, c10Run(c)
}

func c10Reject(t *testing.T, p *c10, name string, c *Case, got []hist.Obs, wantSub string) {
	t.Helper()
	d := p.Oracle(c, got)
	if d == "" {
		t.Errorf("%s: the oracle accepts %v", name, got)
		return
	}
	if !strings.Contains(d, wantSub) {
		t.Errorf("%s: rejected, but for another reason (want %q): %s", name, wantSub, d)
	}
}

func c10Accept(t *testing.T, p *c10, name string, c *Case, got []hist.Obs) {
	t.Helper()
	if d := p.Oracle(c, got); d != "" {
		t.Errorf("%s: the oracle rejects a correct run: %s", name, d)
	}
}

func TestC10OracleRejectsWriterViolations(t *testing.T) {
	p := &c10{}
	defer p.Close()
	for seed := int64(1); seed <= 5; seed++ {
		for _, entry := range []string{"render", "rcode-stmt", "rcode-group", "rplain-stmt", "rplain-group"} {
			// a write before a format error
			c, got := c10Mk(p, seed, c10spec{tree: "invalid", entry: entry})
			if got[len(got)-1].Kind != "fmterr" {
				t.Fatalf("%s: want fmterr, got %v", entry, got)
			}
			c10Accept(t, p, entry+"/fmterr", c, got)
			bad := append([]hist.Obs(nil), got...)
			bad[len(bad)-1].Writes = 1
			c10Reject(t, p, entry+"/write before format error", c, bad, "Write call")

			// a format error for text gofmt accepts (misreported error class)
			cv, gv := c10Mk(p, seed, c10spec{tree: "valid", entry: entry})
			okOut := gv[len(gv)-1].Out
			c10Reject(t, p, entry+"/bogus format error", cv, []hist.Obs{{Kind: "fmterr", Out: okOut}}, "go/format accepts")

			// a swallowed writer error
			c, got = c10Mk(p, seed, c10spec{tree: "valid", entry: entry, wfault: true})
			if o := got[len(got)-1]; o.Kind != "write" || !o.Failed || o.Writes != 1 {
				t.Fatalf("%s: want a failed write, got %v", entry, got)
			}
			c10Accept(t, p, entry+"/writer error returned", c, got)
			c10Reject(t, p, entry+"/swallowed writer error", c, []hist.Obs{{Kind: "write", Writes: 1}}, "swallowed")
			// ... even if it carried on and wrote the output with a second call
			c10Reject(t, p, entry+"/swallowed writer error, second write", c, []hist.Obs{{Kind: "write", Writes: 2, Out: okOut}}, "swallowed")
			// a writer error that is wrapped / replaced (classified "bad" by the executor)
			c10Reject(t, p, entry+"/wrapped writer error", c, []hist.Obs{{Kind: "bad", Msg: "unexpected error: write: verif: injected write fault", Writes: 1}}, "unexpected class")
			// retry after the failed write
			c10Reject(t, p, entry+"/retry after failure", c, []hist.Obs{{Kind: "write", Failed: true, Writes: 2}}, "called 2 times")

			// two Write calls on success
			c10Accept(t, p, entry+"/one write", cv, gv)
			bad = append([]hist.Obs(nil), gv...)
			bad[len(bad)-1].Writes = 2
			c10Reject(t, p, entry+"/two writes", cv, bad, "exactly one Write")
			// truncated output
			bad = append([]hist.Obs(nil), gv...)
			bad[len(bad)-1].Out = okOut[:len(okOut)-1]
			c10Reject(t, p, entry+"/truncated output", cv, bad, "not the rendered output")
			// an error nobody injected / a panic on a valid tree
			c10Reject(t, p, entry+"/spurious writer error", cv, []hist.Obs{{Kind: "write", Failed: true, Writes: 1}}, "no fault was injected")
			c10Reject(t, p, entry+"/panic on a valid tree", cv, []hist.Obs{{Kind: "panic", Msg: "boom"}}, "unexpected panic")

			// bytes written before the documented panic
			c, got = c10Mk(p, seed, c10spec{tree: "badlit", entry: entry})
			if got[len(got)-1].Kind != "panic" {
				t.Fatalf("%s: want panic, got %v", entry, got)
			}
			c10Accept(t, p, entry+"/panic", c, got)
			bad = append([]hist.Obs(nil), got...)
			bad[len(bad)-1].Writes, bad[len(bad)-1].Out = 1, "package p\n"
			c10Reject(t, p, entry+"/write before panic", c, bad, "panicked after 1 Write")
		}
	}
	// File.Render with formatting: output that is stable under re-execution but is not
	// gofmt of the raw rendering cannot be fabricated without a mutant; the NoFormat twin
	// is exercised by every successful case of TestC10CleanAndSound.
}

func TestC10OracleRejectsSaveViolations(t *testing.T) {
	p := &c10{}
	defer p.Close()
	target := func(c *Case, rel string) string {
		return c.Meta["savepath"].(func(string) string)(rel)
	}
	for seed := int64(1); seed <= 4; seed++ {
		for _, tree := range []string{"invalid", "badlit"} {
			why := map[string]string{"invalid": "fmterr", "badlit": "panic"}[tree]
			// existing target: untouched run is accepted
			c, got := c10Mk(p, seed, c10spec{tree: tree, entry: "save", target: "existing"})
			if got[0].Kind != why {
				t.Fatalf("want %s, got %v", why, got)
			}
			c10Accept(t, p, tree+"/existing untouched", c, got)

			// truncated target after a failed render (Save that creates the file first)
			c, got = c10Mk(p, seed, c10spec{tree: tree, entry: "save", target: "existing"})
			if err := os.WriteFile(target(c, "existing.go"), nil, 0644); err != nil {
				t.Fatal(err)
			}
			c10Reject(t, p, tree+"/truncated target", c, got, "existing.go changed")

			// same content written again: only the mtime tells
			c, got = c10Mk(p, seed, c10spec{tree: tree, entry: "save", target: "existing"})
			now := time.Now()
			if err := os.Chtimes(target(c, "existing.go"), now, now); err != nil {
				t.Fatal(err)
			}
			c10Reject(t, p, tree+"/rewritten target", c, got, "existing.go changed")

			// target removed
			c, got = c10Mk(p, seed, c10spec{tree: tree, entry: "save", target: "existing"})
			os.Remove(target(c, "existing.go"))
			c10Reject(t, p, tree+"/removed target", c, got, "existing.go was removed")

			// a new target created although rendering failed
			c, got = c10Mk(p, seed, c10spec{tree: tree, entry: "save", target: "new"})
			c10Accept(t, p, tree+"/new not created", c, got)
			c, got = c10Mk(p, seed, c10spec{tree: tree, entry: "save", target: "new"})
			os.WriteFile(target(c, "new.go"), nil, 0644)
			c10Reject(t, p, tree+"/new created", c, got, "new.go was created")

			// a temp file left behind
			c, got = c10Mk(p, seed, c10spec{tree: tree, entry: "save", target: "new"})
			os.WriteFile(target(c, "new.go.tmp"), []byte("partial"), 0644)
			c10Reject(t, p, tree+"/temp file left", c, got, "new.go.tmp was created")

			// the missing directory created
			c, got = c10Mk(p, seed, c10spec{tree: tree, entry: "save", target: "missingdir"})
			os.Mkdir(target(c, "missing"), 0755)
			c10Reject(t, p, tree+"/directory created", c, got, "missing was created")
		}

		// NoFormat on: an invalid tree is written as is (no failure); accepted
		c, got := c10Mk(p, seed, c10spec{tree: "invalid", entry: "save", target: "existing", nf: true})
		if got[0].Kind != "save" || got[0].Failed {
			t.Fatalf("want a successful save, got %v", got)
		}
		c10Accept(t, p, "noformat save of an invalid tree", c, got)

		// swallowed file-system error
		for _, tk := range []string{"missingdir", "isdir", "parentfile"} {
			c, got := c10Mk(p, seed, c10spec{tree: "valid", entry: "save", target: tk})
			if got[0].Kind != "save" || !got[0].Failed {
				t.Fatalf("%s: want a failed save, got %v", tk, got)
			}
			c10Accept(t, p, tk+"/error returned", c, got)
			c, _ = c10Mk(p, seed, c10spec{tree: "valid", entry: "save", target: tk})
			c10Reject(t, p, tk+"/swallowed fs error", c, []hist.Obs{{Kind: "save", Path: c.Hist[len(c.Hist)-1].A, Out: "package p\n"}}, "swallowed")
			// what the executor really reports when Save returns nil and there is no file
			c, _ = c10Mk(p, seed, c10spec{tree: "valid", entry: "save", target: tk})
			c10Reject(t, p, tk+"/swallowed fs error (executor)", c, []hist.Obs{{Kind: "bad", Msg: "saved file unreadable: open ...: no such file or directory"}}, "swallowed")
			// a wrapped error that is no *os.PathError any more
			c, _ = c10Mk(p, seed, c10spec{tree: "valid", entry: "save", target: tk})
			c10Reject(t, p, tk+"/replaced fs error", c, []hist.Obs{{Kind: "bad", Msg: "unexpected error: save failed"}}, "unexpected class")
		}
		// targets that open but cannot be written (/dev/full ...): the error of the write is returned
		for _, tk := range p.writeFailKinds() {
			c, got := c10Mk(p, seed, c10spec{tree: "valid", entry: "save", target: tk})
			if got[0].Kind != "save" || !got[0].Failed {
				t.Fatalf("%s: want a failed save, got %v", tk, got)
			}
			if !c.Hist[len(c.Hist)-1].Flag {
				t.Fatalf("%s: the model is not told that the file system fails", tk)
			}
			c10Accept(t, p, tk+"/write error returned", c, got)
			sym := c.Hist[len(c.Hist)-1].A
			// Save returned nil: what the executor reports for a device, and for a /proc file
			c, _ = c10Mk(p, seed, c10spec{tree: "valid", entry: "save", target: tk})
			c10Reject(t, p, tk+"/swallowed write error (device)", c, []hist.Obs{{Kind: "save", Path: sym}}, "swallowed")
			c, _ = c10Mk(p, seed, c10spec{tree: "valid", entry: "save", target: tk})
			c10Reject(t, p, tk+"/swallowed write error (unreadable)", c, []hist.Obs{{Kind: "bad", Msg: "saved file unreadable: read x: input/output error"}}, "swallowed")
			// the error replaced by one of another class
			c, _ = c10Mk(p, seed, c10spec{tree: "valid", entry: "save", target: tk})
			c10Reject(t, p, tk+"/replaced write error", c, []hist.Obs{{Kind: "bad", Msg: "unexpected error: short write"}}, "unexpected class")
			// something left behind next to the target
			if tk != "wfull-direct" {
				c, got = c10Mk(p, seed, c10spec{tree: "valid", entry: "save", target: tk})
				os.WriteFile(target(c, sym+".tmp"), []byte("partial"), 0644)
				c10Reject(t, p, tk+"/temp file left", c, got, ".tmp was created")
				// the symbolic link replaced by a regular file (write to a temp file + rename)
				c, got = c10Mk(p, seed, c10spec{tree: "valid", entry: "save", target: tk})
				os.Remove(target(c, sym))
				os.WriteFile(target(c, sym), []byte("package p\n"), 0644)
				c10Reject(t, p, tk+"/link replaced", c, got, sym+" changed")
			}
			// a tree that does not format fails for that reason, the target is not even opened
			c, got = c10Mk(p, seed, c10spec{tree: "invalid", entry: "save", target: tk})
			if got[0].Kind != "fmterr" {
				t.Fatalf("%s: want fmterr, got %v", tk, got)
			}
			c10Accept(t, p, tk+"/format error first", c, got)
		}
		// a failing target whose neighbourhood was damaged on the way
		c, got = c10Mk(p, seed, c10spec{tree: "valid", entry: "save", target: "isdir"})
		os.Remove(target(c, filepath.Join("dir", "keep.txt")))
		c10Reject(t, p, "isdir/content removed", c, got, "keep.txt was removed")
		c, got = c10Mk(p, seed, c10spec{tree: "valid", entry: "save", target: "parentfile"})
		os.WriteFile(target(c, "existing.go"), nil, 0644)
		c10Reject(t, p, "parentfile/clobbered", c, got, "existing.go changed")

		// success: content must be the rendered output, nothing else touched
		for _, tk := range []string{"new", "existing"} {
			for _, nf := range []bool{false, true} {
				c, got := c10Mk(p, seed, c10spec{tree: "valid", entry: "save", target: tk, nf: nf})
				if got[0].Kind != "save" || got[0].Failed {
					t.Fatalf("%s: want a successful save, got %v", tk, got)
				}
				c10Accept(t, p, tk+"/saved", c, got)
				sym := c.Hist[len(c.Hist)-1].A

				// truncated file (and the executor read the truncated content back)
				c, got = c10Mk(p, seed, c10spec{tree: "valid", entry: "save", target: tk, nf: nf})
				short := got[0].Out[:len(got[0].Out)-1]
				os.WriteFile(target(c, sym), []byte(short), 0644)
				c10Reject(t, p, tk+"/truncated file", c, []hist.Obs{{Kind: "save", Path: sym, Out: short}}, "not the rendered output")

				// the file changed after Save returned
				c, got = c10Mk(p, seed, c10spec{tree: "valid", entry: "save", target: tk, nf: nf})
				os.WriteFile(target(c, sym), []byte(got[0].Out+"// more\n"), 0644)
				c10Reject(t, p, tk+"/file differs", c, got, "content changed after Save returned")

				// Save touched a bystander
				c, got = c10Mk(p, seed, c10spec{tree: "valid", entry: "save", target: tk, nf: nf})
				os.WriteFile(target(c, "bystander.txt"), []byte("x"), 0644)
				c10Reject(t, p, tk+"/bystander", c, got, "something else than its target")

				// an error although the target is writable
				c, _ = c10Mk(p, seed, c10spec{tree: "valid", entry: "save", target: tk, nf: nf})
				c10Reject(t, p, tk+"/spurious fs error", c, []hist.Obs{{Kind: "save", Path: sym, Failed: true}}, "writable target")
			}
		}
	}
	// read-only directory: a failure only if the permission bites for this user
	c, got := c10Mk(p, 1, c10spec{tree: "valid", entry: "save", target: "rodir"})
	if got[0].Kind != "save" || got[0].Failed == p.roWritable {
		t.Fatalf("rodir: roWritable=%v but got %v", p.roWritable, got)
	}
	if c.Hist[len(c.Hist)-1].Flag == p.roWritable {
		t.Fatalf("rodir: fs fault flag %v with roWritable=%v", c.Hist[len(c.Hist)-1].Flag, p.roWritable)
	}
	c10Accept(t, p, "rodir", c, got)
}

func TestC10CompareCountsWrites(t *testing.T) {
	p := &c10{}
	c := &Case{}
	ok := []hist.Obs{{Kind: "write", Out: "x", Writes: 1}}
	if d := p.Compare(c, []hist.Obs{{Kind: "write", Out: "x"}}, ok); d != "" {
		t.Errorf("equal observations differ: %s", d)
	}
	if d := p.Compare(c, []hist.Obs{{Kind: "write", Out: "x"}}, []hist.Obs{{Kind: "write", Out: "x", Writes: 2}}); d == "" {
		t.Errorf("two Write calls agree with the model's single write")
	}
	if d := p.Compare(c, []hist.Obs{{Kind: "fmterr", Out: "x"}}, []hist.Obs{{Kind: "fmterr", Out: "x", Writes: 1}}); d == "" {
		t.Errorf("a Write call agrees with the model's format error")
	}
	if d := p.Compare(c, []hist.Obs{{Kind: "panic"}}, []hist.Obs{{Kind: "panic", Writes: 1}}); d == "" {
		t.Errorf("a Write call agrees with the model's panic")
	}
	if d := p.Compare(c, []hist.Obs{{Kind: "write", Failed: true}}, []hist.Obs{{Kind: "write", Writes: 1}}); d == "" {
		t.Errorf("a swallowed error agrees with the model's failed write")
	}
	if d := p.Compare(c, []hist.Obs{{Kind: "save", Failed: true}}, []hist.Obs{{Kind: "save", Out: "x"}}); d == "" {
		t.Errorf("a swallowed fs error agrees with the model's failed save")
	}
}

// A real *jen.Group (captured from the ...Func form) is what rcode/rplain render for a group term.
func TestC10GroupTarget(t *testing.T) {
	p := &c10{}
	defer p.Close()
	for seed := int64(1); seed <= 20; seed++ {
		_, got := c10Mk(p, seed, c10spec{tree: "valid", entry: "rplain-group"})
		o := got[len(got)-1]
		if o.Kind != "write" || !strings.HasPrefix(o.Out, "{") || !strings.HasSuffix(o.Out, "}") {
			t.Fatalf("group render: %v", o)
		}
	}
}

// Stream after-failed-render: the reference of a later call is the run in which the failed
// call never happened; leftovers of the failure in a later call's output, a later call that
// fails, and a failing call that wrote something are rejected.
func TestC10AfterFailedRender(t *testing.T) {
	p := &c10{}
	defer p.Close()
	r := rand.New(rand.NewSource(11))
	seen := map[string]int{}
	for n := 0; n < 120; n++ {
		seed := r.Int63()
		c := p.afterFailed(rand.New(rand.NewSource(seed)))
		got := c10Run(c)
		info := c.Meta["c10"].(*c10info)
		c10Accept(t, p, "unchanged implementation", c, got)
		// positions: observation index of the first designed failure and of the first later success
		oi, failAt, okAt := 0, -1, -1
		var failOp, okOp int
		for i, op := range c.Hist {
			switch op.Kind {
			case "render", "rcode", "rplain", "save", "imports":
			default:
				continue
			}
			if info.skip[i] != "" && failAt < 0 {
				failAt, failOp = oi, i
			}
			if info.skip[i] == "" && failAt >= 0 && okAt < 0 {
				okAt, okOp = oi, i
			}
			oi++
		}
		if failAt < 0 || okAt < 0 || c.Hist[okOp].Kind != "rcode" {
			t.Fatalf("no failure followed by a fragment render: %s", c.Hist.Sexp())
		}
		// the reference run really leaves the failed call out
		tw, ok := c10Twin(c.Hist, okOp, false, info.skip)
		var alone hist.History
		for i, op := range c.Hist[:okOp+1] {
			if info.skip[i] == "drop" || op.Kind == "imports" {
				continue
			}
			if info.skip[i] == "raw" {
				alone = append(alone, hist.Op{Kind: "noformat", F: 0, Flag: true}, op, hist.Op{Kind: "noformat", F: 0, Flag: false})
				continue
			}
			alone = append(alone, op)
		}
		ref := hist.NewWorld().Exec(alone)
		if !ok || tw.Kind != "write" || tw.Out != ref[len(ref)-1].Out || tw.Out != got[okAt].Out {
			t.Fatalf("reference run: %v %s, hand-made %s, implementation %s", ok, tw, ref[len(ref)-1], got[okAt])
		}
		for i := range alone {
			if alone[i].Kind != "render" && info.skip[failOp] == "drop" && alone[i].Code != nil && alone[i].Code == c.Hist[failOp].Code {
				t.Fatal("the dropped call is still in the reference history")
			}
		}
		mut := func(f func(o []hist.Obs)) []hist.Obs {
			o := append([]hist.Obs{}, got...)
			f(o)
			return o
		}
		// (1) the text of the failed call precedes the later call's own output
		left := "x :=\n"
		if got[failAt].Kind == "fmterr" {
			left = got[failAt].Out
		}
		c10Reject(t, p, "leftover bytes", c, mut(func(o []hist.Obs) { o[okAt].Out = left + o[okAt].Out }), "not the rendered output")
		// (2) the later call fails in go/format because of what was left in a buffer
		c10Reject(t, p, "later call fails", c, mut(func(o []hist.Obs) {
			o[okAt] = hist.Obs{Kind: "fmterr", Out: "x :=" + o[okAt].Out, Msg: "Error 1:1: expected operand"}
		}), "leftovers of the failed call")
		// (3) the later call panics
		c10Reject(t, p, "later call panics", c, mut(func(o []hist.Obs) {
			o[okAt] = hist.Obs{Kind: "panic", Msg: "unsupported type for literal: struct {}"}
		}), "leftovers of the failed call")
		// (4) the failing call wrote before it failed
		c10Reject(t, p, "failing call wrote", c, mut(func(o []hist.Obs) { o[failAt].Writes, o[failAt].Out = 1, o[failAt].Out+"" }), "Write call")
		// (5) the last operation (File.Render / Save) carries the leftovers
		last := len(got) - 1
		if last != okAt && (got[last].Kind == "write" || got[last].Kind == "save") {
			if got[last].Kind == "save" {
				// as if Save had written leftover + output (the same case built again, its own
				// directory): the file and the observation agree
				c2 := p.afterFailed(rand.New(rand.NewSource(seed)))
				got2 := c10Run(c2)
				sym := c2.Hist[len(c2.Hist)-1].A
				path := c2.Meta["savepath"].(func(string) string)(sym)
				if err := os.WriteFile(path, []byte(left+got2[last].Out), 0644); err != nil {
					t.Fatal(err)
				}
				got2[last].Out = left + got2[last].Out
				c10Reject(t, p, "leftover bytes in the saved file", c2, got2, "not the rendered output")
			} else {
				c10Reject(t, p, "leftover bytes in File.Render", c, mut(func(o []hist.Obs) { o[last].Out = left + o[last].Out }), "not the rendered output")
			}
		}
		seen[c.Tags[1]]++
	}
	for _, k := range []string{"failed=rcode-fmterr", "failed=rcode-panic", "failed=filerender-fmterr", "failed=filerender-panic"} {
		if seen[k] < 10 {
			t.Errorf("%s: %d cases", k, seen[k])
		}
	}
}

// Stream save-over-related: Saves that do not truncate, append, skip the write when the
// length / the beginning matches, or keep the old file are rejected; the correct run accepted.
func TestC10SaveOverRelated(t *testing.T) {
	p := &c10{}
	defer p.Close()
	r := rand.New(rand.NewSource(12))
	for n := 0; n < 10; n++ {
		for _, rel := range c10Relations {
			for _, nf := range []bool{false, true} {
				build := func(seed int64) (*Case, []hist.Obs, string, string) {
					c := p.saveOver(rand.New(rand.NewSource(seed)), rel, nf)
					info := c.Meta["c10"].(*c10info)
					old := info.pre["existing.go"].Data
					got := c10Run(c)
					path := c.Meta["savepath"].(func(string) string)("existing.go")
					return c, got, old, path
				}
				seed := r.Int63()
				c, got, old, path := build(seed)
				if !c10HasTag(c, "target="+rel) || !c.NonTrivial {
					t.Fatalf("%s: tags %v", rel, c.Tags)
				}
				out := got[len(got)-1].Out
				switch rel {
				case "existing-equal":
					if old != out {
						t.Fatalf("equal: %q %q", old, out)
					}
				case "existing-extends-output":
					if !strings.HasPrefix(old, out) || len(old) <= len(out) {
						t.Fatalf("extends: %q %q", old, out)
					}
				case "existing-prefix-of-output":
					if !strings.HasPrefix(out, old) || len(old) >= len(out) || old == "" {
						t.Fatalf("prefix: %q %q", old, out)
					}
				case "existing-same-length":
					if len(old) != len(out) || old == out {
						t.Fatalf("same length: %q %q", old, out)
					}
				}
				c10Accept(t, p, rel+"/correct save", c, got)

				// a defective Save, simulated on the file system: the executor reads back what is there
				defect := func(name string, content func(old, out string) string, wantSub string) {
					c, got, old, path := build(seed)
					o := append([]hist.Obs{}, got...)
					bad := content(old, o[len(o)-1].Out)
					if bad == o[len(o)-1].Out {
						c10Accept(t, p, rel+"/"+name+" (invisible here)", c, got)
						return
					}
					if err := os.WriteFile(path, []byte(bad), 0644); err != nil {
						t.Fatal(err)
					}
					o[len(o)-1].Out = bad
					c10Reject(t, p, rel+"/"+name, c, o, wantSub)
				}
				_ = path
				// open without O_TRUNC: the tail of a longer old file survives
				noTrunc := func(old, out string) string {
					if len(old) > len(out) {
						return out + old[len(out):]
					}
					return out
				}
				defect("no truncation", noTrunc, "not the rendered output")
				defect("append", func(old, out string) string { return old + out }, "not the rendered output")
				defect("skip when the length matches", func(old, out string) string {
					if len(old) == len(out) {
						return old
					}
					return out
				}, "not the rendered output")
				defect("skip when the old file begins like the output", func(old, out string) string {
					if strings.HasPrefix(old, out) {
						return old
					}
					return out
				}, "not the rendered output")
				defect("write only the part beyond the old length", func(old, out string) string {
					if len(out) > len(old) {
						return old + out[len(old):]
					}
					return old
				}, "not the rendered output")
			}
		}
	}
	// each defect is visible in the relation made for it
	vis := map[string]bool{}
	for _, rel := range c10Relations {
		c := p.saveOver(rand.New(rand.NewSource(99)), rel, false)
		old := c.Meta["c10"].(*c10info).pre["existing.go"].Data
		got := c10Run(c)
		out := got[len(got)-1].Out
		if len(old) > len(out) {
			vis["no truncation:"+rel] = true
		}
		if len(old) == len(out) && old != out {
			vis["same length:"+rel] = true
		}
		if len(old) < len(out) && strings.HasPrefix(out, old) {
			vis["tail only:"+rel] = true
		}
		c10Accept(t, p, rel, c, got)
	}
	if !vis["no truncation:existing-extends-output"] || !vis["same length:existing-same-length"] || !vis["tail only:existing-prefix-of-output"] {
		t.Fatalf("visibility: %v", vis)
	}
}

// ---- streams rich-content and writer-shapes (c10_rich.go) ----

// Every writer shape on every writer entry point: the oracle accepts what the unchanged
// implementation does and rejects hand-made violations of the expectation stated for the shape.
func TestC10WriterShapes(t *testing.T) {
	p := &c10{}
	defer p.Close()
	for seed := int64(1); seed <= 3; seed++ {
		for _, entry := range []string{"render", "rcode-stmt", "rcode-group", "rplain-stmt", "rplain-group"} {
			cv, gv := c10Mk(p, seed, c10spec{tree: "rich", entry: entry})
			whole := gv[len(gv)-1].Out
			if gv[len(gv)-1].Kind != "write" || len(whole) < 4 {
				t.Fatalf("%s: the rich tree does not render: %v", entry, gv)
			}
			c10Accept(t, p, entry+"/rich, no fault", cv, gv)
			for _, shape := range []string{"zero-err", "part-err", "full-err"} {
				c, got := c10Mk(p, seed, c10spec{tree: "rich", entry: entry, wshape: shape})
				o := got[len(got)-1]
				if o.Kind != "write" || !o.Failed || o.Writes != 1 || len(o.Offered) != 1 || o.Offered[0] != whole {
					t.Fatalf("%s/%s: want a failed write after one call carrying the output, got %v (offered %q)", entry, shape, got, o.Offered)
				}
				if !c.NonTrivial || !c10HasTag(c, "cause=wfault") || !c10HasTag(c, "wfault="+shape) {
					t.Errorf("%s/%s: tags %v nontrivial %v", entry, shape, c.Tags, c.NonTrivial)
				}
				c10Accept(t, p, entry+"/"+shape, c, got)
				// nil returned although the writer reported an error (with whatever byte count)
				c10Reject(t, p, entry+"/"+shape+" swallowed", c, []hist.Obs{{Kind: "write", Writes: 1, Out: whole, Offered: []string{whole}}}, "swallowed")
				c10Reject(t, p, entry+"/"+shape+" retried", c, []hist.Obs{{Kind: "write", Failed: true, Writes: 2}}, "called 2 times")
			}
			// the error of the SECOND call is never seen by an implementation that writes once
			c, got := c10Mk(p, seed, c10spec{tree: "rich", entry: entry, wshape: "second-err"})
			if o := got[len(got)-1]; o.Kind != "write" || o.Failed || o.Writes != 1 || o.Out != whole {
				t.Fatalf("%s/second-err: want one successful write, got %v", entry, got)
			}
			c10Accept(t, p, entry+"/second-err", c, got)
			c10Reject(t, p, entry+"/second-err two calls, error returned", c, []hist.Obs{{Kind: "write", Failed: true, Writes: 2}}, "2 Write calls")
			c10Reject(t, p, entry+"/second-err two calls, error swallowed", c, []hist.Obs{{Kind: "write", Writes: 2, Out: whole[:len(whole)/2]}}, "exactly one Write")
			// a writer that takes less than it is given and says nothing
			c, got = c10Mk(p, seed, c10spec{tree: "rich", entry: entry, wshape: "short-nil"})
			o := got[len(got)-1]
			if o.Kind != "write" || o.Failed || o.Writes != 1 || o.Out != whole[:len(whole)/2] || len(o.Offered) != 1 || o.Offered[0] != whole {
				t.Fatalf("%s/short-nil: the unchanged implementation returns nil after one call carrying everything; got %v (offered %q)", entry, got, o.Offered)
			}
			if c.NonTrivial {
				t.Errorf("%s/short-nil: no failure cause, yet non-trivial", entry)
			}
			c10Accept(t, p, entry+"/short-nil returns nil", c, got)
			if d := p.Compare(c, []hist.Obs{{Kind: "write", Out: whole}}, got); d != "" {
				t.Errorf("%s/short-nil: Compare against the model's answer for a writer that does not fail: %s", entry, d)
			}
			esw := o
			esw.Msg = "io.ErrShortWrite"
			c10Accept(t, p, entry+"/short-nil returns io.ErrShortWrite", c, []hist.Obs{esw})
			c10Accept(t, p, entry+"/short-nil offers the rest", c, []hist.Obs{{Kind: "write", Writes: 2, Out: whole, Offered: []string{whole, whole[len(whole)/2:]}}})
			c10Reject(t, p, entry+"/short-nil first call carries less", c, []hist.Obs{{Kind: "write", Writes: 1, Out: whole[:2], Offered: []string{whole[:len(whole)-1]}}}, "the first Write call")
			c10Reject(t, p, entry+"/short-nil rest never taken", c, []hist.Obs{{Kind: "write", Writes: 2, Out: whole[:len(whole)-1], Offered: []string{whole, "x"}}}, "what the writer took")
			c10Reject(t, p, entry+"/short-nil other error", c, []hist.Obs{{Kind: "bad", Msg: "unexpected error: boom", Writes: 1}}, "unexpected class")
		}
		// n = 0: a fragment that renders to nothing; every shape degenerates to (0, err) or (0, nil)
		for _, entry := range []string{"rcode-stmt", "rplain-stmt"} {
			for _, shape := range c10WShapes {
				c, got := c10Mk(p, seed, c10spec{tree: "empty", entry: entry, wshape: shape})
				o := got[len(got)-1]
				if o.Kind != "write" || o.Writes != 1 || o.Failed != c10ShapeFails(shape) {
					t.Fatalf("%s/empty/%s: %v", entry, shape, got)
				}
				c10Accept(t, p, entry+"/empty/"+shape, c, got)
				if c10ShapeFails(shape) {
					c10Reject(t, p, entry+"/empty/"+shape+" swallowed", c, []hist.Obs{{Kind: "write", Writes: 1, Offered: []string{""}}}, "swallowed")
				}
			}
		}
	}
}

// Ground truth (3) of c10Whole: the NoFormat output against the same File rendered with
// formatting - for a File that formats and for one whose format error quotes the source.
func TestC10NoFormatAgainstFormatted(t *testing.T) {
	p := &c10{}
	defer p.Close()
	mangle := func(s string) string { return strings.Replace(s, "%", "%!(MISSING)", 1) }
	seen := map[string]int{}
	for seed := int64(1); seed <= 40; seed++ {
		for _, tree := range []string{"rich", "rich-invalid", "random-rich"} {
			c, got := c10Mk(p, seed, c10spec{tree: tree, entry: "render", nf: true})
			o := got[len(got)-1]
			if o.Kind != "write" {
				continue // (a random tree with an unsupported literal)
			}
			i := len(c.Hist) - 1
			if d := c10RawAgainstFormatted(c.Hist, i, o.Out, nil); d != "" {
				t.Fatalf("%s: rejects the unchanged implementation: %s", tree, d)
			}
			if !strings.Contains(o.Out, "%") {
				continue
			}
			d := c10RawAgainstFormatted(c.Hist, i, mangle(o.Out), nil)
			if d == "" {
				t.Fatalf("%s: accepts a NoFormat output with a mangled %%:\n%s", tree, mangle(o.Out))
			}
			switch {
			case strings.Contains(d, "quotes"):
				seen["against-format-error"]++
			default:
				seen["against-formatted-output"]++
			}
			// a trailing byte lost
			if d := c10RawAgainstFormatted(c.Hist, i, o.Out[:len(o.Out)-1], nil); d == "" && !strings.HasSuffix(o.Out, "\n") {
				t.Errorf("%s: accepts a truncated NoFormat output", tree)
			}
		}
	}
	if seen["against-format-error"] < 5 || seen["against-formatted-output"] < 5 {
		t.Errorf("ground truth (3) exercised too rarely: %v", seen)
	}
	// the format error of File.Render must quote what the File renders under NoFormat
	c, got := c10Mk(p, 3, c10spec{tree: "rich-invalid", entry: "render"})
	if got[len(got)-1].Kind != "fmterr" {
		t.Fatalf("want fmterr, got %v", got)
	}
	c10Accept(t, p, "fmterr quotes the source", c, got)
	bad := append([]hist.Obs(nil), got...)
	bad[len(bad)-1].Out += " "
	c10Reject(t, p, "fmterr quotes something else", c, bad, "quoted by the format error")
}

// The rich-content stream really is rich: most of its cases hold a % in the rendered source,
// every tree kind and the large size occur, and the sprinkler hits the random trees.
func TestC10RichContentStream(t *testing.T) {
	p := &c10{}
	defer p.Close()
	r := rand.New(rand.NewSource(11))
	cases := p.richContent(r, "quick")
	n := map[string]int{}
	for _, c := range cases {
		got := c10Run(c)
		if d := p.Oracle(c, got); d != "" {
			t.Fatalf("oracle rejects the unchanged implementation: %s\n%s", d, c.Hist.Sexp())
		}
		o := got[len(got)-1]
		if strings.Contains(o.Out, "%") && (o.Kind == "write" || o.Kind == "save" || o.Kind == "fmterr") {
			n["percent-in-output"]++
			if !c10HasTag(c, "percent-in-source") {
				t.Fatalf("output with %% but no tag: %v", c.Tags)
			}
			if c10HasTag(c, "noformat=true") && o.Kind != "fmterr" {
				n["percent-in-noformat-output"]++
			}
		}
		if len(o.Out) > 20000 {
			n["large-output"]++
		}
		for _, tg := range c.Tags {
			if strings.HasPrefix(tg, "tree=") || strings.HasPrefix(tg, "wfault=") || strings.HasPrefix(tg, "percent-in=") {
				n[tg]++
			}
		}
	}
	for _, k := range []string{"tree=rich", "tree=rich-invalid", "tree=random-rich", "wfault=full-err", "wfault=short-nil", "wfault=second-err", "wfault=part-err", "wfault=zero-err",
		"percent-in=header", "percent-in=pkgcomment", "percent-in=cgo", "percent-in=canonical"} {
		if n[k] < 5 {
			t.Errorf("%s only %d times: %v", k, n[k], n)
		}
	}
	if n["percent-in-output"] < len(cases)/2 || n["percent-in-noformat-output"] < 40 || n["large-output"] < 1 {
		t.Errorf("not rich enough: %v of %d", n, len(cases))
	}
}
