package props

import (
	"fmt"
	"math/rand"
	"strings"

	"verifharness/hist"
)

// C06: references to the local package and to dot-imports are unqualified.
type c06 struct{}

func init() { Register(c06{}) }

func (c06) ID() string { return "C06" }

func nearMisses(local string) []string {
	out := []string{local + "/", local + "x", "x" + local, strings.ToUpper(local), local + "/v2", "v/" + local}
	if len(local) > 1 {
		out = append(out, local[:len(local)-1], local[1:])
	}
	if i := strings.LastIndex(local, "/"); i >= 0 {
		out = append(out, local[i+1:], local[:i])
	}
	return out
}

func (c06) Generate(r *rand.Rand, t string) []*Case {
	var out []*Case
	n := tier(t, 2000, 100000)
	for i := 0; i < n; i++ {
		local := pick(r, []string{"a.b/c", "example.com/mod/pkg", "x/y", "fmt", "a.b/rand", "q"})
		seen := map[string]bool{local: true}
		paths := []string{local}
		for _, p := range nearMisses(local) {
			if r.Intn(2) == 0 && !seen[p] {
				seen[p] = true
				paths = append(paths, p)
			}
		}
		for _, p := range somePaths(r, 6) {
			if !seen[p] {
				seen[p] = true
				paths = append(paths, p)
			}
		}
		var setup hist.History
		switch r.Intn(3) {
		case 0:
			setup = append(setup, hist.Op{Kind: "newfilepath", F: 0, A: local})
		case 1:
			setup = append(setup, hist.Op{Kind: "newfilepathname", F: 0, A: local, B: "q"})
		default:
			setup = append(setup, hist.Op{Kind: "newfile", F: 0, A: "p"})
			local = ""
		}
		if r.Intn(2) == 0 {
			setup = append(setup, hist.Op{Kind: "prefix", F: 0, A: pick(r, prefixPool)})
		}
		ndot := 0
		for j := 1; j < len(paths); j++ {
			if r.Intn(3) == 0 && ndot < 8 {
				setup = append(setup, hist.Op{Kind: "importalias", F: 0, A: paths[j], B: "."})
				ndot++
			} else if r.Intn(5) == 0 {
				setup = append(setup, hist.Op{Kind: "importname", F: 0, A: paths[j], B: pick(r, namePool)})
			}
		}
		var refs []int
		for j := range paths {
			for k := 0; k < 1+r.Intn(2); k++ {
				refs = append(refs, j)
			}
		}
		r.Shuffle(len(refs), func(a, b int) { refs[a], refs[b] = refs[b], refs[a] })
		rc, h := BuildRefCase(r, paths, setup, local, refs, nil)
		h = append(h, hist.Op{Kind: "noformat", F: 0, Flag: r.Intn(2) == 0}, hist.Op{Kind: "render", F: 0}, hist.Op{Kind: "imports", F: 0})
		out = append(out, &Case{Hist: h, Stream: "local+dot", NonTrivial: true, Meta: map[string]interface{}{"rc": rc, "ndot": ndot},
			Tags: []string{fmt.Sprintf("dots=%d", ndot), fmt.Sprintf("local=%v", local != "")}})
	}
	return out
}

func (c06) Regressions() []*Case {
	r := rand.New(rand.NewSource(6))
	setup := hist.History{{Kind: "newfile", F: 0, A: "p"}, {Kind: "prefix", F: 0, A: "pkg"}, {Kind: "importalias", F: 0, A: "a.b/d", B: "."}}
	rc, h := BuildRefCase(r, []string{"a.b/d"}, setup, "", []int{0}, nil)
	h = append(h, hist.Op{Kind: "render", F: 0}, hist.Op{Kind: "imports", F: 0})
	return []*Case{{Name: "prefix-on-dot-import", Hist: h, Stream: "regression", NonTrivial: true, Meta: map[string]interface{}{"rc": rc, "ndot": 1}}}
}

func (c06) Compare(c *Case, exp, got []hist.Obs) string { return CompareAll(exp, got) }

func (c06) Oracle(c *Case, got []hist.Obs) string {
	if m := refOracle(c, got); m != "" {
		return m
	}
	rc := c.Meta["rc"].(*RefCase)
	o, _ := lastWrite(got)
	qm, err := rc.QualifierMap(o.Out)
	if err != nil {
		return err.Error()
	}
	for p, q := range qm {
		dot := rc.Hints[p] == [2]string{".", "alias"}
		if p == rc.Local || dot {
			if q != "" {
				return fmt.Sprintf("path %q (local or dot-imported) is qualified by %s", p, q)
			}
		} else if q == "" {
			return fmt.Sprintf("path %q is written bare although it is neither local nor dot-imported", p)
		}
	}
	for p, h := range rc.Hints {
		if h == [2]string{".", "alias"} {
			if _, used := qm[p]; used && !strings.Contains(o.Out, ". \""+p+"\"") && !strings.Contains(o.Out, ". "+fmt.Sprintf("%q", p)) {
				return fmt.Sprintf("dot-import of %q missing from the import block", p)
			}
		}
	}
	return ""
}
