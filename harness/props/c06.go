package props

import (
	"fmt"
	"math/rand"
	"strings"

	"verifharness/hist"
)

// C06: references to the local package and to dot-imports are unqualified.
type c06 struct{}

func init() { Register(c06{}) }

func (c06) ID() string { return "C06" }

func nearMisses(local string) []string {
	out := []string{local + "/", local + "x", "x" + local, strings.ToUpper(local), local + "/v2", "v/" + local}
	if len(local) > 1 {
		out = append(out, local[:len(local)-1], local[1:])
	}
	if i := strings.LastIndex(local, "/"); i >= 0 {
		out = append(out, local[i+1:], local[:i])
	}
	return out
}

func (c06) Generate(r *rand.Rand, t string) []*Case {
	var out []*Case
	n := tier(t, 2000, 100000)
	for i := 0; i < n; i++ {
		local := pick(r, []string{"a.b/c", "example.com/mod/pkg", "x/y", "fmt", "a.b/rand", "q"})
		seen := map[string]bool{local: true}
		paths := []string{local}
		for _, p := range nearMisses(local) {
			if r.Intn(2) == 0 && !seen[p] {
				seen[p] = true
				paths = append(paths, p)
			}
		}
		for _, p := range somePaths(r, 6) {
			if !seen[p] {
				seen[p] = true
				paths = append(paths, p)
			}
		}
		var setup hist.History
		switch r.Intn(3) {
		case 0:
			setup = append(setup, hist.Op{Kind: "newfilepath", F: 0, A: local})
		case 1:
			setup = append(setup, hist.Op{Kind: "newfilepathname", F: 0, A: local, B: "q"})
		default:
			setup = append(setup, hist.Op{Kind: "newfile", F: 0, A: "p"})
			local = ""
		}
		if r.Intn(2) == 0 {
			setup = append(setup, hist.Op{Kind: "prefix", F: 0, A: pick(r, prefixPool)})
		}
		ndot := 0
		for j := 1; j < len(paths); j++ {
			if r.Intn(3) == 0 && ndot < 8 {
				setup = append(setup, hist.Op{Kind: "importalias", F: 0, A: paths[j], B: "."})
				ndot++
			} else if r.Intn(5) == 0 {
				setup = append(setup, hist.Op{Kind: "importname", F: 0, A: paths[j], B: pick(r, namePool)})
			}
		}
		// the File's OWN path is also named by hints: declared a dot-import with
		// ImportAlias(local, "."), and / or given an ordinary ImportName / ImportAlias hint, in
		// either order, at random positions among the other hints.  Whatever the hints say,
		// a reference to the own path is a bare name and the own path is never imported.
		localDot, localHint := false, false
		if local != "" && r.Intn(3) == 0 {
			var ops hist.History
			switch r.Intn(4) {
			case 0: // dot only
				ops = hist.History{{Kind: "importalias", F: 0, A: local, B: "."}}
			case 1: // ordinary hint, then dot (the dot is the final hint)
				ops = hist.History{{Kind: pick(r, []string{"importname", "importalias"}), F: 0, A: local, B: pick(r, namePool)}, {Kind: "importalias", F: 0, A: local, B: "."}}
			case 2: // dot, then an ordinary hint (the ordinary hint is the final one)
				ops = hist.History{{Kind: "importalias", F: 0, A: local, B: "."}, {Kind: pick(r, []string{"importname", "importalias"}), F: 0, A: local, B: pick(r, namePool)}}
			default: // ordinary hint only
				ops = hist.History{{Kind: pick(r, []string{"importname", "importalias"}), F: 0, A: local, B: pick(r, namePool)}}
			}
			first := 1 // position 0 is the constructor
			for _, op := range setup[1:] {
				if op.Kind != "prefix" {
					break
				}
				first++
			}
			at := first
			for _, op := range ops {
				at = at + r.Intn(len(setup)-at+1)
				setup = append(setup[:at:at], append(hist.History{op}, setup[at:]...)...)
				at++
				if op.B == "." && op.Kind == "importalias" {
					localDot = true
				} else {
					localHint = true
				}
			}
		}
		var refs []int
		for j := range paths {
			for k := 0; k < 1+r.Intn(2); k++ {
				refs = append(refs, j)
			}
		}
		r.Shuffle(len(refs), func(a, b int) { refs[a], refs[b] = refs[b], refs[a] })
		rc, h := BuildRefCase(r, paths, setup, local, refs, nil)
		h = append(h, hist.Op{Kind: "noformat", F: 0, Flag: r.Intn(2) == 0}, hist.Op{Kind: "render", F: 0}, hist.Op{Kind: "imports", F: 0})
		tags := []string{fmt.Sprintf("dots=%d", ndot), fmt.Sprintf("local=%v", local != "")}
		if localDot {
			tags = append(tags, "local+dot-hint")
		}
		if localHint {
			tags = append(tags, "local+ordinary-hint")
		}
		out = append(out, &Case{Hist: h, Stream: "local+dot", NonTrivial: true, Meta: map[string]interface{}{"rc": rc, "ndot": ndot}, Tags: tags})
	}
	return out
}

func (c06) Regressions() []*Case {
	r := rand.New(rand.NewSource(6))
	setup := hist.History{{Kind: "newfile", F: 0, A: "p"}, {Kind: "prefix", F: 0, A: "pkg"}, {Kind: "importalias", F: 0, A: "a.b/d", B: "."}}
	rc, h := BuildRefCase(r, []string{"a.b/d"}, setup, "", []int{0}, nil)
	h = append(h, hist.Op{Kind: "render", F: 0}, hist.Op{Kind: "imports", F: 0})
	// the own path declared a dot-import (and given an ordinary hint) and referenced: bare
	// name, no import of the own path
	setup2 := hist.History{{Kind: "newfilepath", F: 0, A: "a.b/c"}, {Kind: "importname", F: 0, A: "a.b/c", B: "foo"}, {Kind: "importalias", F: 0, A: "a.b/c", B: "."}}
	rc2, h2 := BuildRefCase(r, []string{"a.b/c", "x.y/c"}, setup2, "a.b/c", []int{0, 1, 0}, nil)
	h2 = append(h2, hist.Op{Kind: "render", F: 0}, hist.Op{Kind: "imports", F: 0})
	return []*Case{
		{Name: "prefix-on-dot-import", Hist: h, Stream: "regression", NonTrivial: true, Meta: map[string]interface{}{"rc": rc, "ndot": 1}},
		{Name: "local-path-declared-dot-import", Hist: h2, Stream: "regression", NonTrivial: true, Tags: []string{"local+dot-hint"}, Meta: map[string]interface{}{"rc": rc2, "ndot": 0}},
	}
}

func (c06) Compare(c *Case, exp, got []hist.Obs) string { return CompareAll(exp, got) }

func (c06) Oracle(c *Case, got []hist.Obs) string {
	if m := refOracle(c, got); m != "" {
		return m
	}
	rc := c.Meta["rc"].(*RefCase)
	o, _ := lastWrite(got)
	qm, err := rc.QualifierMap(o.Out)
	if err != nil {
		return err.Error()
	}
	for p, q := range qm {
		dot := rc.Hints[p] == [2]string{".", "alias"}
		if p == rc.Local || dot {
			if q != "" {
				return fmt.Sprintf("path %q (local or dot-imported) is qualified by %s", p, q)
			}
		} else if q == "" {
			return fmt.Sprintf("path %q is written bare although it is neither local nor dot-imported", p)
		}
	}
	for p, h := range rc.Hints {
		if p == rc.Local && rc.Local != "" {
			continue // the own path is never imported, not even when it is declared a dot-import (Resolve rejects such an import)
		}
		if h == [2]string{".", "alias"} {
			if _, used := qm[p]; used && !strings.Contains(o.Out, ". \""+p+"\"") && !strings.Contains(o.Out, ". "+fmt.Sprintf("%q", p)) {
				return fmt.Sprintf("dot-import of %q missing from the import block", p)
			}
		}
	}
	return ""
}
