package props

import (
	"fmt"
	"go/parser"
	"go/token"
	"math/rand"
	"sort"
	"strings"

	"verifharness/hist"
	"verifharness/term"
)

// C06: references to the local package and to dot-imports are unqualified.
type c06 struct{}

func init() { Register(c06{}) }

func (c06) ID() string { return "C06" }

func nearMisses(local string) []string {
	out := []string{local + "/", local + "x", "x" + local, strings.ToUpper(local), local + "/v2", "v/" + local}
	if len(local) > 1 {
		out = append(out, local[:len(local)-1], local[1:])
	}
	if i := strings.LastIndex(local, "/"); i >= 0 {
		out = append(out, local[i+1:], local[:i])
	}
	return out
}

func (c06) Generate(r *rand.Rand, t string) []*Case {
	var out []*Case
	n := tier(t, 2000, 100000)
	for i := 0; i < n; i++ {
		local := pick(r, []string{"a.b/c", "example.com/mod/pkg", "x/y", "fmt", "a.b/rand", "q"})
		seen := map[string]bool{local: true}
		paths := []string{local}
		for _, p := range nearMisses(local) {
			if r.Intn(2) == 0 && !seen[p] {
				seen[p] = true
				paths = append(paths, p)
			}
		}
		for _, p := range somePaths(r, 6) {
			if !seen[p] {
				seen[p] = true
				paths = append(paths, p)
			}
		}
		var setup hist.History
		switch r.Intn(3) {
		case 0:
			setup = append(setup, hist.Op{Kind: "newfilepath", F: 0, A: local})
		case 1:
			setup = append(setup, hist.Op{Kind: "newfilepathname", F: 0, A: local, B: "q"})
		default:
			setup = append(setup, hist.Op{Kind: "newfile", F: 0, A: "p"})
			local = ""
		}
		if r.Intn(2) == 0 {
			setup = append(setup, hist.Op{Kind: "prefix", F: 0, A: pick(r, prefixPool)})
		}
		ndot := 0
		dotTwice := false
		for j := 1; j < len(paths); j++ {
			if r.Intn(3) == 0 && ndot < 8 {
				setup = append(setup, hist.Op{Kind: "importalias", F: 0, A: paths[j], B: "."})
				ndot++
				if r.Intn(4) == 0 {
					// the same dot-import declared again (a generator that re-declares its
					// dot-imports on every pass), possibly after an ImportName for the path
					if r.Intn(3) == 0 {
						setup = append(setup, hist.Op{Kind: "importname", F: 0, A: paths[j], B: pick(r, namePool)})
					}
					setup = append(setup, hist.Op{Kind: "importalias", F: 0, A: paths[j], B: "."})
					dotTwice = true
				}
			} else if r.Intn(5) == 0 {
				setup = append(setup, hist.Op{Kind: "importname", F: 0, A: paths[j], B: pick(r, namePool)})
			}
		}
		// the File's OWN path is also named by hints: declared a dot-import with
		// ImportAlias(local, "."), and / or given an ordinary ImportName / ImportAlias hint, in
		// either order, at random positions among the other hints.  Whatever the hints say,
		// a reference to the own path is a bare name and the own path is never imported.
		localDot, localHint := false, false
		if local != "" && r.Intn(3) == 0 {
			var ops hist.History
			switch r.Intn(4) {
			case 0: // dot only
				ops = hist.History{{Kind: "importalias", F: 0, A: local, B: "."}}
			case 1: // ordinary hint, then dot (the dot is the final hint)
				ops = hist.History{{Kind: pick(r, []string{"importname", "importalias"}), F: 0, A: local, B: pick(r, namePool)}, {Kind: "importalias", F: 0, A: local, B: "."}}
			case 2: // dot, then an ordinary hint (the ordinary hint is the final one)
				ops = hist.History{{Kind: "importalias", F: 0, A: local, B: "."}, {Kind: pick(r, []string{"importname", "importalias"}), F: 0, A: local, B: pick(r, namePool)}}
			default: // ordinary hint only
				ops = hist.History{{Kind: pick(r, []string{"importname", "importalias"}), F: 0, A: local, B: pick(r, namePool)}}
			}
			first := 1 // position 0 is the constructor
			for _, op := range setup[1:] {
				if op.Kind != "prefix" {
					break
				}
				first++
			}
			at := first
			for _, op := range ops {
				at = at + r.Intn(len(setup)-at+1)
				setup = append(setup[:at:at], append(hist.History{op}, setup[at:]...)...)
				at++
				if op.B == "." && op.Kind == "importalias" {
					localDot = true
				} else {
					localHint = true
				}
			}
		}
		var refs []int
		for j := range paths {
			for k := 0; k < 1+r.Intn(2); k++ {
				refs = append(refs, j)
			}
		}
		r.Shuffle(len(refs), func(a, b int) { refs[a], refs[b] = refs[b], refs[a] })
		rc, h := BuildRefCase(r, paths, setup, local, refs, nil)
		h = append(h, hist.Op{Kind: "noformat", F: 0, Flag: r.Intn(2) == 0}, hist.Op{Kind: "render", F: 0}, hist.Op{Kind: "imports", F: 0})
		tags := []string{fmt.Sprintf("dots=%d", ndot), fmt.Sprintf("local=%v", local != ""), "renders=1"}
		if localDot {
			tags = append(tags, "local+dot-hint")
		}
		if dotTwice {
			tags = append(tags, "dot-hint-declared-twice")
		}
		if localHint {
			tags = append(tags, "local+ordinary-hint")
		}
		out = append(out, &Case{Hist: h, Stream: "local+dot", NonTrivial: true, Meta: map[string]interface{}{"rc": rc, "ndot": ndot}, Tags: tags})
	}
	nm := tier(t, 1500, 60000)
	for i := 0; i < nm; i++ {
		out = append(out, c06MultiCase(r))
	}
	// settings-as-paths (c04_settings.go): the File's own setting strings (package name, canonical
	// path, prefix, hint names) reused as referenced paths: none of them makes a path local
	for i, n := 0, tier(t, 1500, 60000); i < n; i++ {
		out = append(out, settingsCase(r))
	}
	// op-order (c06_hist.go): hint / Anon operations before, between and after the renders
	out = append(out, c06OpOrderCases(r, t)...)
	// layout, pkg-names (c06_layout.go): the layouts of the import block x the kind of every import;
	// the shapes of the File's package name
	out = append(out, c06LayoutCases(r, t)...)
	out = append(out, c06PkgNameCases(r, t)...)
	// path-shapes (c06_paths.go): the shapes of the own path and of dot-imported paths (major
	// version suffix, vendor, internal, .git, upper case, gopkg.in) x their prefixes / extensions
	out = append(out, c06PathShapeCases(r, t)...)
	return out
}

// ---- stream multi-render: two or three renders of one File, hints changing in between ----
//
// A File is rendered 2..3 times with File.Render; between two File.Renders the hints of the
// paths change, fragments are rendered with the File (Statement.RenderWithFile) and further
// statements are added.  Roles of the paths:
//
//	local  the File's own path (half of the cases); between renders it is given dot / ordinary hints
//	U      first rendered WITHOUT alias - a standard-library path ("fmt", "strings", ...) or a
//	       path whose name was given by ImportName - and only afterwards declared
//	       ImportAlias(path, ".")                      (tag dot-hint-after-unaliased-render)
//	D      first rendered as a dot-import; the dot hint is then replaced by an ordinary
//	       ImportAlias / ImportName                    (tag dot-hint-replaced-after-bare-render)
//	G      first rendered under a guessed alias, then declared a dot-import
//	L      first referenced after the first File.Render (by a fragment or a later Add), its
//	       hints given before and/or after that render
//
// What has to hold in EVERY output (C06 together with C08): a path is written in the form of
// its first rendering - bare exactly when, at that moment, it was the local path or its hint
// in force was the dot alias - and the import block (File.Render) or the File's import table
// (fragments, read through the `imports` observation that follows every render) agrees with
// the references of that same output: a bare reference needs `. "path"` or the local path, a
// qualified one needs an import providing exactly that qualifier.  File.Anon(path) discards the
// registration of the path (stream op-order, c06_hist.go): the next output that writes it is
// judged like a first rendering, under the hint then in force.
//
// In a quarter of the cases ("wild") paths and names come from the colliding pools, so that
// numbered aliases, prefixes and reserved words take part; there the U role is not
// guaranteed to be unaliased and the U tag is not set.
type c06multi struct {
	Paths []string
	Local string
}

func c06MultiCase(r *rand.Rand) *Case {
	wild := r.Intn(4) == 0
	stdU := []string{"fmt", "strings", "io", "os", "net/http", "text/template"}
	userPool := []string{"a.b/d", "c.b/d", "e.f/d", "a.b/rand", "x.y/rand", "a.b/x", "c.d/x", "x.y/pkg", "gopkg.in/yaml.v3", "a/KK", "github.com/foo/bar.v2"}
	ownNames := []string{"kv", "lib", "core", "store"} // names no guessed alias of userPool and no std name collides with
	aliasNames := []string{"foo", "bar", "y1", "T", "util", "os2", "zz"}
	if wild {
		stdU = append(stdU, "math/rand", "crypto/rand", "html/template", "go/scanner", "text/scanner")
		userPool = PathPool
		ownNames = namePool
		aliasNames = namePool
	}
	seen := map[string]bool{}
	var paths []string
	take := func(pool []string) int {
		for {
			p := pick(r, pool)
			if !seen[p] {
				seen[p] = true
				paths = append(paths, p)
				return len(paths) - 1
			}
		}
	}
	var h hist.History
	local, li := "", -1
	switch r.Intn(4) {
	case 0:
		li = take([]string{"a.b/c", "x/y", "example.com/mod/pkg"})
		local = paths[li]
		h = append(h, hist.Op{Kind: "newfilepath", F: 0, A: local})
	case 1:
		li = take([]string{"a.b/c", "x/y", "a.b/d", "x.y/rand", "fmt", "q"})
		local = paths[li]
		h = append(h, hist.Op{Kind: "newfilepathname", F: 0, A: local, B: "q"})
	default:
		h = append(h, hist.Op{Kind: "newfile", F: 0, A: "p"})
	}
	if r.Intn(2) == 0 {
		h = append(h, hist.Op{Kind: "prefix", F: 0, A: pick(r, prefixPool)})
	}
	nf := r.Intn(2) == 0
	h = append(h, hist.Op{Kind: "noformat", F: 0, Flag: nf})

	tags := map[string]bool{}
	ordinary := func(p string) hist.Op {
		if r.Intn(2) == 0 {
			return hist.Op{Kind: "importname", F: 0, A: p, B: pick(r, aliasNames)}
		}
		return hist.Op{Kind: "importalias", F: 0, A: p, B: pick(r, aliasNames)}
	}
	dot := func(p string) hist.Op { return hist.Op{Kind: "importalias", F: 0, A: p, B: "."} }

	var pre hist.History    // hints before the first render
	var changes [][]hist.Op // per role: the later hint(s), given between renders
	var changeTag []string  // tag of each change
	var early []int         // paths referenced by the first body
	var late []int          // paths first referenced after the first File.Render
	nU := 1 + r.Intn(2)
	for k := 0; k < nU; k++ {
		var i int
		if r.Intn(2) == 0 {
			i = take(stdU)
		} else {
			i = take(userPool)
			pre = append(pre, hist.Op{Kind: "importname", F: 0, A: paths[i], B: pick(r, ownNames)})
			ownNames = without(ownNames, pre[len(pre)-1].B, wild)
		}
		early = append(early, i)
		ch := []hist.Op{dot(paths[i])}
		if r.Intn(4) == 0 { // ... and the dot hint replaced again later
			ch = append(ch, ordinary(paths[i]))
		}
		changes = append(changes, ch)
		if wild {
			changeTag = append(changeTag, "dot-hint-after-render")
		} else {
			changeTag = append(changeTag, "dot-hint-after-unaliased-render")
		}
	}
	for k := r.Intn(3); k > 0; k-- { // D
		i := take(userPool)
		pre = append(pre, dot(paths[i]))
		if r.Intn(4) == 0 {
			pre = append(pre, dot(paths[i])) // declared twice
			tags["dot-hint-declared-twice"] = true
		}
		early = append(early, i)
		ch := []hist.Op{ordinary(paths[i])}
		if r.Intn(4) == 0 {
			ch = append(ch, dot(paths[i]))
		}
		changes = append(changes, ch)
		changeTag = append(changeTag, "dot-hint-replaced-after-bare-render")
	}
	if r.Intn(2) == 0 { // G
		i := take(userPool)
		early = append(early, i)
		changes = append(changes, []hist.Op{dot(paths[i])})
		changeTag = append(changeTag, "dot-hint-after-aliased-render")
	}
	if r.Intn(2) == 0 { // L
		i := take(userPool)
		late = append(late, i)
		switch r.Intn(4) {
		case 0:
			pre = append(pre, dot(paths[i]))
			changes = append(changes, []hist.Op{ordinary(paths[i])})
		case 1:
			pre = append(pre, ordinary(paths[i]))
			changes = append(changes, []hist.Op{dot(paths[i])})
		case 2:
			changes = append(changes, []hist.Op{dot(paths[i])})
		default:
			changes = append(changes, []hist.Op{ordinary(paths[i])})
		}
		changeTag = append(changeTag, "late-path")
	}
	if li >= 0 {
		early = append(early, li)
		if r.Intn(3) > 0 {
			if r.Intn(3) == 0 {
				pre = append(pre, c06Pick2(r, dot(local), ordinary(local)))
			}
			ch := []hist.Op{c06Pick2(r, dot(local), ordinary(local))}
			if r.Intn(3) == 0 {
				ch = append(ch, c06Pick2(r, dot(local), ordinary(local)))
			}
			changes = append(changes, ch)
			changeTag = append(changeTag, "local-hinted-between-renders")
		}
	}
	r.Shuffle(len(pre), func(a, b int) { pre[a], pre[b] = pre[b], pre[a] })
	h = append(h, pre...)

	body := func(ps []int, each bool) []*term.Stmt {
		var refs []int
		for _, i := range ps {
			if each || r.Intn(2) == 0 {
				for k := 0; k < 1+r.Intn(2); k++ {
					refs = append(refs, i)
				}
			}
		}
		r.Shuffle(len(refs), func(a, b int) { refs[a], refs[b] = refs[b], refs[a] })
		return RefBody(r, paths, refs, nil)
	}
	var fileStmts []*term.Stmt
	for _, st := range body(early, true) {
		h = append(h, hist.Op{Kind: "fadd", F: 0, Code: st})
		fileStmts = append(fileStmts, st)
	}
	nfrag := 0
	fragment := func() {
		var st *term.Stmt
		if len(fileStmts) > 0 && r.Intn(3) == 0 {
			st = fileStmts[r.Intn(len(fileStmts))] // the same objects are in the File body
			tags["fragment-shared-with-file"] = true
		} else {
			all := r.Perm(len(paths))
			if len(all) > 3 {
				all = all[:3]
			}
			sts := body(all, true)
			st = sts[r.Intn(len(sts))]
		}
		h = append(h, hist.Op{Kind: "rcode", F: 0, Code: st}, hist.Op{Kind: "imports", F: 0})
		nfrag++
	}
	if r.Intn(5) == 0 {
		fragment() // the first rendering of some paths is a fragment's
		tags["first-output-is-a-fragment"] = true
	}
	h = append(h, hist.Op{Kind: "render", F: 0}, hist.Op{Kind: "imports", F: 0})

	renders := 2 + r.Intn(2)
	// distribute the changes over the gaps; the first change (a U path) is in the first gap
	gaps := make([][]func(), renders-1)
	for ci := range changes {
		ci := ci
		g := 0
		for k, op := range changes[ci] {
			if k > 0 || ci > 0 {
				g += r.Intn(renders - 1 - g)
			}
			op := op
			first := k == 0
			gaps[g] = append(gaps[g], func() {
				h = append(h, op)
				if first {
					tags[changeTag[ci]] = true
				}
			})
		}
	}
	for g := range gaps {
		acts := gaps[g]
		// the changes keep their relative order per path (they were appended in order); other
		// actions are inserted at random positions
		ins := func(f func()) {
			k := r.Intn(len(acts) + 1)
			acts = append(acts[:k:k], append([]func(){f}, acts[k:]...)...)
		}
		if r.Intn(3) > 0 {
			ins(fragment)
		}
		if r.Intn(2) == 0 || (g == 0 && len(late) > 0) {
			ins(func() {
				ps := append(append([]int{}, early...), late...)
				sts := body(ps, false)
				if g == 0 && len(late) > 0 {
					sts = append(sts, body(late, true)...)
				}
				for _, st := range sts {
					h = append(h, hist.Op{Kind: "fadd", F: 0, Code: st})
					fileStmts = append(fileStmts, st)
				}
			})
		}
		if r.Intn(6) == 0 {
			ins(func() { nf = !nf; h = append(h, hist.Op{Kind: "noformat", F: 0, Flag: nf}) })
		}
		for _, f := range acts {
			f()
		}
		h = append(h, hist.Op{Kind: "render", F: 0}, hist.Op{Kind: "imports", F: 0})
	}
	tl := []string{fmt.Sprintf("renders=%d", renders), fmt.Sprintf("fragments=%d", nfrag), fmt.Sprintf("local=%v", local != "")}
	if wild {
		tl = append(tl, "wild-names")
	}
	for t := range tags {
		tl = append(tl, t)
	}
	sort.Strings(tl)
	// NonTrivial: at least two File.Renders write some path whose hint changed between dot
	// and non-dot in between (by construction: the first U path is referenced by the File
	// body and its dot hint is given in the first gap).
	return &Case{Hist: h, Stream: "multi-render", NonTrivial: true, Tags: tl,
		Meta: map[string]interface{}{"c06multi": &c06multi{Paths: paths, Local: local}}}
}

func c06Pick2(r *rand.Rand, a, b hist.Op) hist.Op {
	if r.Intn(2) == 0 {
		return a
	}
	return b
}

// without removes name from pool unless keep (or the pool would become empty).
func without(pool []string, name string, keep bool) []string {
	if keep || len(pool) <= 1 {
		return pool
	}
	var out []string
	for _, n := range pool {
		if n != name {
			out = append(out, n)
		}
	}
	return out
}

type c06hint struct {
	name  string
	alias bool
}

type c06first struct {
	q        string          // "" = bare
	op       int             // operation that wrote the path first
	declared map[string]bool // names an import WITHOUT alias may rely on
}

// c06MultiOracle judges every output of a multi-render history on its own (see the stream's
// comment).  Only go/parser and the history are used.
func c06MultiOracle(c *Case, info *c06multi, got []hist.Obs) string {
	rc := &RefCase{Paths: info.Paths}
	hints := map[string]c06hint{}
	first := map[string]*c06first{}
	anon := map[string]bool{}
	showQ := func(q string) string {
		if q == "" {
			return "a bare identifier"
		}
		return q + ".X"
	}
	oi := 0
	var lastQM map[string]string
	lastOp := -1
	for i, op := range c.Hist {
		switch op.Kind {
		case "importname":
			hints[op.A] = c06hint{op.B, false}
		case "importalias":
			hints[op.A] = c06hint{op.B, true}
		case "importnames":
			for _, kv := range op.Pairs {
				hints[kv[0]] = c06hint{kv[1], false}
			}
		case "anon":
			for _, p := range op.Strs {
				anon[p] = true
				// File.Anon overwrites the registration of the path: the next output that writes
				// the path registers it afresh, under the hint in force THEN (which is judged like
				// a first rendering: bare exactly when that hint is the dot alias).  The hints
				// themselves are untouched by Anon.
				delete(first, p)
			}
		case "imports":
			if oi >= len(got) {
				return fmt.Sprintf("operation %d (imports) has no observation", i)
			}
			o := got[oi]
			oi++
			if o.Kind != "imports" {
				return fmt.Sprintf("operation %d (imports): unexpected observation %s", i, o)
			}
			tab := map[string]hist.Import{}
			for _, im := range o.Imports {
				tab[im.Path] = im
			}
			for _, p := range sortedKeys(c08Keys(lastQM)) {
				q := lastQM[p]
				im, ok := tab[p]
				what := fmt.Sprintf("operation %d wrote path %q as %s, but the File's import table", lastOp, p, showQ(q))
				switch {
				case p == info.Local && info.Local != "":
					if ok {
						return fmt.Sprintf("%s holds the File's own path (as %q)", what, im.Name)
					}
				case !ok:
					return fmt.Sprintf("%s has no entry for it", what)
				case q == "" && !(im.Name == "." && im.Alias):
					return fmt.Sprintf("%s registers it as %q, not as a dot-import", what, im.Name)
				case q != "" && im.Name != q:
					return fmt.Sprintf("%s registers it as %q", what, im.Name)
				}
			}
			lastQM = nil
		case "render", "rcode":
			if oi >= len(got) {
				return fmt.Sprintf("operation %d (%s) has no observation", i, op.Kind)
			}
			o := got[oi]
			oi++
			if o.Kind != "write" || o.Failed {
				return fmt.Sprintf("operation %d (%s) did not render: %s", i, op.Kind, o)
			}
			src := o.Out
			if op.Kind == "rcode" {
				var err error
				if src, err = c08Wrap(o.Out); err != nil {
					return fmt.Sprintf("operation %d (rcode): output does not parse: %v\n%q", i, err, o.Out)
				}
			}
			qm, err := rc.QualifierMap(src)
			if err != nil { // does not parse, or one output writes a path in two ways
				return fmt.Sprintf("operation %d (%s): %v\n%q", i, op.Kind, err, o.Out)
			}
			for _, p := range sortedKeys(c08Keys(qm)) {
				q := qm[p]
				if f, ok := first[p]; ok {
					if f.q != q {
						return fmt.Sprintf("path %q was first written as %s (operation %d) and is written as %s by operation %d (%s): a path keeps the form of its first rendering\n%q", p, showQ(f.q), f.op, showQ(q), i, op.Kind, o.Out)
					}
					continue
				}
				hn, hinted := hints[p]
				isLocal := p == info.Local && info.Local != ""
				dotNow := hinted && hn.alias && hn.name == "."
				switch {
				case isLocal && q != "":
					return fmt.Sprintf("operation %d (%s): the File's own path %q is qualified by %s\n%q", i, op.Kind, p, q, o.Out)
				case !isLocal && dotNow && q != "":
					return fmt.Sprintf("operation %d (%s): path %q is declared a dot-import at its first rendering but is qualified by %s\n%q", i, op.Kind, p, q, o.Out)
				case !isLocal && !dotNow && q == "":
					return fmt.Sprintf("operation %d (%s): path %q is written bare at its first rendering although it is neither the local path nor, at that moment, declared a dot-import\n%q", i, op.Kind, p, o.Out)
				}
				f := &c06first{q: q, op: i, declared: map[string]bool{}}
				if n, ok := StdNames[p]; ok {
					f.declared[n] = true
				}
				if hinted && !hn.alias {
					f.declared[hn.name] = true
				}
				first[p] = f
			}
			lastQM, lastOp = qm, i
			if op.Kind != "render" {
				continue
			}
			pf, err := parser.ParseFile(token.NewFileSet(), "x.go", o.Out, parser.ImportsOnly)
			if err != nil {
				return fmt.Sprintf("operation %d (render): output does not parse: %v", i, err)
			}
			specs, err := parseImports(pf)
			if err != nil {
				return err.Error()
			}
			bound := map[string]string{}
			have := map[string]bool{}
			for _, sp := range specs {
				what := fmt.Sprintf("operation %d (File.Render): the import block", i)
				if have[sp.path] {
					return fmt.Sprintf("%s imports %q twice\n%q", what, sp.path, o.Out)
				}
				have[sp.path] = true
				if sp.path == info.Local && info.Local != "" {
					return fmt.Sprintf("%s imports the File's own path %q\n%q", what, sp.path, o.Out)
				}
				f, written := first[sp.path]
				switch {
				case sp.name == "_":
					if !anon[sp.path] {
						return fmt.Sprintf("%s has an anonymous import of %q that was never requested\n%q", what, sp.path, o.Out)
					}
					if written {
						return fmt.Sprintf("%s imports %q as _ although it was written as %s by operation %d\n%q", what, sp.path, showQ(f.q), f.op, o.Out)
					}
					continue
				case !written:
					return fmt.Sprintf("%s imports %q, which no output produced with the File has written\n%q", what, sp.path, o.Out)
				case sp.name == ".":
					if f.q != "" {
						return fmt.Sprintf("%s dot-imports %q, but the path is written as %s (since operation %d)\n%q", what, sp.path, showQ(f.q), f.op, o.Out)
					}
					continue
				case f.q == "":
					return fmt.Sprintf("%s does not dot-import %q, but the path is written bare (since operation %d)\n%q", what, sp.path, f.op, o.Out)
				case sp.name != "" && sp.name != f.q:
					return fmt.Sprintf("%s declares %q as %s, but the path is written as %s (since operation %d)\n%q", what, sp.path, sp.name, showQ(f.q), f.op, o.Out)
				case sp.name == "" && !f.declared[f.q]:
					return fmt.Sprintf("%s imports %q without alias, but the path is written as %s and nothing declares that name as the package's own\n%q", what, sp.path, showQ(f.q), o.Out)
				}
				if other, dup := bound[f.q]; dup {
					return fmt.Sprintf("%s binds the name %s twice, for %q and %q\n%q", what, f.q, other, sp.path, o.Out)
				}
				bound[f.q] = sp.path
			}
			for _, p := range sortedKeys(c06FirstKeys(first)) {
				if p == info.Local && info.Local != "" {
					continue
				}
				if !have[p] {
					_, now := qm[p]
					return fmt.Sprintf("operation %d (File.Render): path %q is written as %s (first by operation %d; by this output: %v) but the import block does not import it\n%q", i, p, showQ(first[p].q), first[p].op, now, o.Out)
				}
			}
		}
	}
	if lastOp < 0 {
		return "the history produced no render observation"
	}
	return ""
}

func c06FirstKeys(m map[string]*c06first) map[string]bool {
	out := map[string]bool{}
	for k := range m {
		out[k] = true
	}
	return out
}

func (c06) Regressions() []*Case {
	r := rand.New(rand.NewSource(6))
	setup := hist.History{{Kind: "newfile", F: 0, A: "p"}, {Kind: "prefix", F: 0, A: "pkg"}, {Kind: "importalias", F: 0, A: "a.b/d", B: "."}}
	rc, h := BuildRefCase(r, []string{"a.b/d"}, setup, "", []int{0}, nil)
	h = append(h, hist.Op{Kind: "render", F: 0}, hist.Op{Kind: "imports", F: 0})
	// the own path declared a dot-import (and given an ordinary hint) and referenced: bare
	// name, no import of the own path
	setup2 := hist.History{{Kind: "newfilepath", F: 0, A: "a.b/c"}, {Kind: "importname", F: 0, A: "a.b/c", B: "foo"}, {Kind: "importalias", F: 0, A: "a.b/c", B: "."}}
	rc2, h2 := BuildRefCase(r, []string{"a.b/c", "x.y/c"}, setup2, "a.b/c", []int{0, 1, 0}, nil)
	h2 = append(h2, hist.Op{Kind: "render", F: 0}, hist.Op{Kind: "imports", F: 0})
	return []*Case{
		{Name: "prefix-on-dot-import", Hist: h, Stream: "regression", NonTrivial: true, Meta: map[string]interface{}{"rc": rc, "ndot": 1}},
		{Name: "local-path-declared-dot-import", Hist: h2, Stream: "regression", NonTrivial: true, Tags: []string{"local+dot-hint"}, Meta: map[string]interface{}{"rc": rc2, "ndot": 0}},
	}
}

func (c06) Compare(c *Case, exp, got []hist.Obs) string { return CompareAll(exp, got) }

func (c06) Oracle(c *Case, got []hist.Obs) string {
	if info, ok := c.Meta["c06multi"].(*c06multi); ok {
		return c06MultiOracle(c, info, got)
	}
	if m := refOracle(c, got); m != "" {
		return m
	}
	rc := c.Meta["rc"].(*RefCase)
	o, _ := lastWrite(got)
	qm, err := rc.QualifierMap(o.Out)
	if err != nil {
		return err.Error()
	}
	for p, q := range qm {
		dot := rc.Hints[p] == [2]string{".", "alias"}
		if p == rc.Local || dot {
			if q != "" {
				return fmt.Sprintf("path %q (local or dot-imported) is qualified by %s", p, q)
			}
		} else if q == "" {
			return fmt.Sprintf("path %q is written bare although it is neither local nor dot-imported", p)
		}
	}
	for p, h := range rc.Hints {
		if p == rc.Local && rc.Local != "" {
			continue // the own path is never imported, not even when it is declared a dot-import (Resolve rejects such an import)
		}
		if h == [2]string{".", "alias"} {
			if _, used := qm[p]; used && !strings.Contains(o.Out, ". \""+p+"\"") && !strings.Contains(o.Out, ". "+fmt.Sprintf("%q", p)) {
				return fmt.Sprintf("dot-import of %q missing from the import block", p)
			}
		}
	}
	return ""
}
