package props

import (
	"fmt"
	"math/rand"
	"strings"
	"testing"

	"verifharness/term"
)

// The wider oracle of C15 on hand-made outputs: carriage returns, bytes that are not Go
// source, cgo preamble blocks; and the Commentf entry points of the term builder.

func TestC15OracleCarriageReturn(t *testing.T) {
	for _, text := range []string{"a\rb", "a\r", "\ra", "a\r\nb", "x\n*\r/"} {
		sp := &c15Spec{Places: []c15Place{{Site: 0, Text: text}}}
		raw := "package p\n\nfunc f() {\n\tx() " + c15CommentLit(c15Want{Text: text}) + "\n}\n"
		fmtd := "package p\n\nfunc f() {\n\tx() " + nocr(c15CommentLit(c15Want{Text: strings.ReplaceAll(text, "*\r/", "*\x01/")})) + "\n}\n"
		fmtd = strings.ReplaceAll(fmtd, "*\x01/", "*\r/")
		if v := c15Check(sp, c15Without, c15Without, fmtd, raw); v != "" {
			t.Errorf("good outputs for %q rejected: %s", text, v)
		}
		// the NoFormat output must have the bytes of the text
		if v := c15Check(sp, c15Without, c15Without, fmtd, fmtd); v == "" && fmtd != raw {
			t.Errorf("NoFormat output without the carriage return accepted for %q", text)
		}
	}
	sp := &c15Spec{Places: []c15Place{{Site: 0, Text: "a\rb"}}}
	good := "package p\n\nfunc f() {\n\tx() // a\rb\n}\n"
	bad := map[string]string{
		"block comment opened, never closed": "package p\n\nfunc f() {\n\tx() /*\na\rb\n}\n",
		"text cut at the carriage return":    "package p\n\nfunc f() {\n\tx() // a\n}\n",
		"line break instead":                 "package p\n\nfunc f() {\n\tx() // a\nb\n}\n",
		"closer swallowed":                   "package p\n\nfunc f() {\n\tx() // a\rb }\n",
	}
	for name, src := range bad {
		if v := c15Check(sp, c15Without, c15Without, good, src); v == "" {
			t.Errorf("%s (NoFormat output): accepted", name)
		}
		if v := c15Check(sp, c15Without, c15Without, src, good); v == "" {
			t.Errorf("%s (formatted output): accepted", name)
		}
	}
}

func TestC15OracleNotGoSource(t *testing.T) {
	for _, text := range []string{"a\x00b", "a\ufeffb", "a\xffb", "a\x00\nb"} {
		sp := &c15Spec{Places: []c15Place{{Site: 0, Text: text}}}
		if !sp.hasUnrep() {
			t.Fatalf("%q not classified", text)
		}
		raw := "package p\n\nfunc f() {\n\tx() " + c15CommentLit(c15Want{Text: text}) + "\n}\n"
		if v := c15CheckOpt(sp, c15Without, c15Without, "", raw, true); v != "" {
			t.Errorf("good NoFormat output for %q rejected: %s", text, v)
		}
		swallowed := "package p\n\nfunc f() {\n\tx() // " + strings.ReplaceAll(text, "\n", " ") + " }\n"
		if v := c15CheckOpt(sp, c15Without, c15Without, "", swallowed, true); v == "" {
			t.Errorf("swallowed closer accepted for %q", text)
		}
		lost := "package p\n\nfunc f() {\n\tx() // a\n}\n"
		if v := c15CheckOpt(sp, c15Without, c15Without, "", lost, true); v == "" {
			t.Errorf("lost text accepted for %q", text)
		}
	}
	// other scanner errors are not forgiven
	sp := &c15Spec{Places: []c15Place{{Site: 0, Text: "a\x00b"}}}
	if v := c15CheckOpt(sp, c15Without, c15Without, "", "package p\n\nfunc f() {\n\tx() /*\na\x00b\n}\n", true); !strings.Contains(v, "not terminated") {
		t.Errorf("unterminated comment: %q", v)
	}
}

func TestC15OracleCgo(t *testing.T) {
	ref := "var _ = C." + c19Ref + "\n"
	without := "package p\n\nimport \"C\"\n\n" + ref
	sp := &c15Spec{Cgo: []string{"#include <a.h>", "// #cgo LDFLAGS: -lm", "int f(void);\nint g(void);", "/* x */"}}
	good := "package p\n\n// #include <a.h>\n// #cgo LDFLAGS: -lm\n/*\nint f(void);\nint g(void);\n*/\n/* x */\nimport \"C\"\n\n" + ref
	if v := c15Check(sp, without, without, good, good); v != "" {
		t.Fatalf("good preamble rejected: %s", v)
	}
	bad := map[string]string{
		"all blocks joined into one comment": "package p\n\n/*\n#include <a.h>\n// #cgo LDFLAGS: -lm\nint f(void);\nint g(void);\n/* x\n*/\nimport \"C\"\n\n" + ref,
		"raw block inside the previous one":  "package p\n\n/*\n#include <a.h>\n// #cgo LDFLAGS: -lm\n*/\n/*\nint f(void);\nint g(void);\n*/\n/* x */\nimport \"C\"\n\n" + ref,
		"order changed":                      "package p\n\n// #cgo LDFLAGS: -lm\n// #include <a.h>\n/*\nint f(void);\nint g(void);\n*/\n/* x */\nimport \"C\"\n\n" + ref,
		"blank line above the import":        "package p\n\n// #include <a.h>\n// #cgo LDFLAGS: -lm\n/*\nint f(void);\nint g(void);\n*/\n/* x */\n\nimport \"C\"\n\n" + ref,
		"first block detached":               "package p\n\n// #include <a.h>\n\n// #cgo LDFLAGS: -lm\n/*\nint f(void);\nint g(void);\n*/\n/* x */\nimport \"C\"\n\n" + ref,
		"plain block written as code":        "package p\n\n// #include <a.h>\n// #cgo LDFLAGS: -lm\nint f(void);\nint g(void);\n/* x */\nimport \"C\"\n\n" + ref,
		"block dropped":                      "package p\n\n// #include <a.h>\n// #cgo LDFLAGS: -lm\n/* x */\nimport \"C\"\n\n" + ref,
		"preamble below the import":          "package p\n\nimport \"C\"\n\n// #include <a.h>\n// #cgo LDFLAGS: -lm\n/*\nint f(void);\nint g(void);\n*/\n/* x */\n" + ref,
		"multi-line text as line comments":   "package p\n\n// #include <a.h>\n// #cgo LDFLAGS: -lm\n// int f(void);\n// int g(void);\n/* x */\nimport \"C\"\n\n" + ref,
	}
	for name, src := range bad {
		if v := c15Check(sp, without, without, src, src); v == "" {
			t.Errorf("%s: accepted", name)
		}
		if v := c15Check(sp, without, without, src, good); v == "" {
			t.Errorf("%s (formatted output only): accepted", name)
		}
	}
}

// term.Commentf drives the real entry points with the original format and operands; the text
// the model gets is fmt.Sprintf of them.
func TestC15CommentfEntryPoints(t *testing.T) {
	calls := []struct {
		format string
		args   []interface{}
	}{
		{"100%%", nil}, {"%d", nil}, {"%*/", nil}, {"%s and %s", []interface{}{"a\nb", "*/"}}, {"%v", []interface{}{c15Panicker{}}},
		{"plain", []interface{}{1}}, {"%[2]s", []interface{}{"x"}},
	}
	for _, c := range calls {
		want := fmt.Sprintf(c.format, c.args...)
		for _, via := range []string{"", "func", "group"} {
			cm := term.Commentf(via, c.format, c.args...)
			if cm.Text != want {
				t.Errorf("Commentf(%q).Text = %q, want %q", c.format, cm.Text, want)
			}
			for _, first := range []bool{true, false} {
				st := term.S(cm)
				if !first {
					st = term.S(term.Id("x"), cm)
				}
				got := fmt.Sprintf("%#v", term.NewBuilder().Stmt(st))
				ref := term.S(term.Comment{Text: want})
				if !first {
					ref = term.S(term.Id("x"), term.Comment{Text: want})
				}
				if exp := fmt.Sprintf("%#v", term.NewBuilder().Stmt(ref)); got != exp {
					t.Errorf("via %q first=%v format %q: built %q, Comment(Sprintf) gives %q", via, first, c.format, got, exp)
				}
			}
		}
	}
}

func TestC15WideGenerators(t *testing.T) {
	r := rand.New(rand.NewSource(7))
	seen := map[string]bool{}
	for i := 0; i < 3000; i++ {
		x := c15CtlText(r, false)
		if !c15InWideDomain(x) || len(c15CtlTags(x)) == 0 {
			t.Fatalf("ctl text %q: outside the wide domain or without a control character", x)
		}
		for _, tg := range c15CtlTags(x) {
			seen[tg] = true
		}
	}
	for _, tg := range []string{"text=cr-without-lf", "text=cr-and-lf", "text=crlf", "text=cr-at-start", "text=cr-at-end", "text=nul", "text=bom", "text=invalid-utf8", "text=vt-or-ff", "text=unicode-line-break"} {
		if !seen[tg] {
			t.Errorf("no ctl text with %s", tg)
		}
	}
	zeroPct, outside := 0, 0
	for i := 0; i < 3000; i++ {
		p, out, ok := c15CommentfPlace(r, 0, i%2 == 0)
		if !ok {
			continue
		}
		if p.Cm == nil || p.Cm.Fmt == nil || p.Text != fmt.Sprintf(p.Cm.Fmt.Format, p.Cm.Fmt.Args...) {
			t.Fatalf("place %+v: text is not Sprintf(format, operands)", p)
		}
		if len(p.Cm.Fmt.Args) == 0 && strings.Contains(p.Cm.Fmt.Format, "%") {
			zeroPct++
		}
		if out {
			outside++
		}
	}
	if zeroPct < 300 || outside == 0 || outside > 900 {
		t.Errorf("commentf draws: %d without operands and with %%, %d outside the domain", zeroPct, outside)
	}
}
