package props

import (
	"fmt"
	"math/rand"
	"sort"
	"strings"

	"verifharness/hist"
)

// C15, round 7.  Two dimensions the earlier streams did not have:
//
//	blank-in-list   header / package comment LISTS that contain EMPTY texts (HeaderComment(""),
//	                PackageComment("") - the usual paragraph separator of a doc comment) and
//	                white-space-only texts (" ", "\t", "  \t ") at every position: every pattern over
//	                {text, empty, blanks} of length 1..4 for the package comment list, for the
//	                header list, and drawn patterns (length up to 6, multi-line blanks "\n", " \n "
//	                included) for both lists at once, with and without a canonical path.  The
//	                earlier streams drew list members with c15Text, which never returns a text that
//	                is blank as a doc comment (kept out because of the finding gofmt-drops-empty-
//	                comment, which is about a comment standing ALONE before code).
//	                Kept out (documented, same recorded finding): a package comment list whose
//	                members are ALL blank one-line texts - the whole doc comment is then blank as a
//	                doc comment and gofmt removes it.
//	canonical-x-names  CanonicalPath x the shapes of the package NAME (c06PkgNames: `_test` endings,
//	                main, predeclared names, digits/underscores ...) x the three constructors
//	                (NewFilePath: the local paths of c06NameyLocals and c06PathShapes whose derived
//	                name renders) x (no comments, package comment, header, both) x canonical paths
//	                (plain, equal to the own path, with quotes / blanks / unicode).
//
// Oracle: c15Check (one comment token per text in the NoFormat output, byte-exact; the package
// doc comment consists of exactly the package comments; go/build reads CanonicalPath from the
// package clause; the formatted output has the same comment groups with the same texts up to
// white space / go/doc/comment normal form).

var c15Blanks = []string{" ", "\t", "  ", " \t ", " "}

func c15ListText(r *rand.Rand) string {
	for {
		t := c15Text(r)
		if !strings.Contains(t, "\f") && strings.TrimSpace(t) != "" {
			return t
		}
	}
}

// pattern: one letter per member - t text, e empty, b blanks, n multi-line blank
func c15ListOf(r *rand.Rand, pat string) []string {
	var out []string
	for _, c := range pat {
		switch c {
		case 'e':
			out = append(out, "")
		case 'b':
			out = append(out, pick(r, c15Blanks))
		case 'n':
			out = append(out, pick(r, []string{"\n", " \n ", "\n\n", "a\n\nb", "\n\t\n"}))
		default:
			out = append(out, c15ListText(r))
		}
	}
	return out
}

func c15Patterns(alpha string, maxLen int) []string {
	out := []string{""}
	var all []string
	for l := 1; l <= maxLen; l++ {
		var next []string
		for _, p := range out {
			for _, c := range alpha {
				next = append(next, p+string(c))
			}
		}
		out = next
		all = append(all, next...)
	}
	return all
}

func c15AllBlankOneLine(l []string) bool {
	for _, t := range l {
		if strings.Contains(t, "\n") || strings.TrimSpace(t) != "" {
			return false
		}
	}
	return len(l) > 0
}

func c15PatTags(which, pat string) []string {
	var tags []string
	if !strings.ContainsAny(pat, "ebn") {
		return nil
	}
	n := len(pat)
	for i, c := range pat {
		kind := map[rune]string{'e': "empty", 'b': "blanks", 'n': "multi-line-blank"}[c]
		if kind == "" {
			continue
		}
		pos := "middle"
		switch {
		case n == 1:
			pos = "only"
		case i == 0:
			pos = "first"
		case i == n-1:
			pos = "last"
		}
		tags = append(tags, which+"-list:"+kind+"-text="+pos)
	}
	if strings.Count(pat, "e")+strings.Count(pat, "b") > 1 {
		tags = append(tags, which+"-list:several-blank-texts")
	}
	if strings.Contains(pat, "ee") || strings.Contains(pat, "eb") || strings.Contains(pat, "be") || strings.Contains(pat, "bb") {
		tags = append(tags, which+"-list:adjacent-blank-texts")
	}
	return tags
}

func c15ListStreams(r *rand.Rand, t string) []*Case {
	var out []*Case
	mk := func(sp *c15Spec, stream string, tags ...string) {
		c := c15Case(sp, stream)
		c.Tags = append(c.Tags, tags...)
		sort.Strings(c.Tags)
		out = append(out, c)
	}
	// ---- blank-in-list ----
	pats := c15Patterns("teb", tier(t, 4, 5))
	n := 0
	for _, pat := range pats {
		if !strings.ContainsAny(pat, "eb") {
			continue
		}
		for rep := tier(t, 1, 3); rep > 0; rep-- {
			// the package comment list; a header (without blanks) in every second case
			sp := &c15Spec{Tmpl: n % len(c15Templates), Pkg: c15ListOf(r, pat)}
			if n%2 == 1 {
				sp.Headers = []string{c15ListText(r)}
			}
			if n%3 == 2 {
				sp.Canonical = pick(r, c15Paths)
			}
			if !c15AllBlankOneLine(sp.Pkg) {
				mk(sp, "blank-in-list", c15PatTags("pkg", pat)...)
			}
			// the header list; package comments (without blanks) in two of three cases
			sp = &c15Spec{Tmpl: n % len(c15Templates), Headers: c15ListOf(r, pat)}
			if n%3 != 0 {
				sp.Pkg = []string{c15ListText(r)}
			}
			if n%4 == 3 {
				sp.Canonical = pick(r, c15Paths)
			}
			mk(sp, "blank-in-list", c15PatTags("header", pat)...)
			n++
		}
	}
	alpha := "tttteebn"
	for i, m := 0, tier(t, 400, 8000); i < m; i++ {
		draw := func() string {
			var b strings.Builder
			for k := r.Intn(7); k > 0; k-- {
				b.WriteByte(alpha[r.Intn(len(alpha))])
			}
			return b.String()
		}
		hp, pp := draw(), draw()
		sp := &c15Spec{Tmpl: r.Intn(len(c15Templates)), Headers: c15ListOf(r, hp), Pkg: c15ListOf(r, pp)}
		if c15AllBlankOneLine(sp.Pkg) {
			continue
		}
		if r.Intn(3) == 0 {
			sp.Canonical = pick(r, c15Paths)
		}
		if r.Intn(4) == 0 {
			sp.Places = []c15Place{{Site: 0, Text: c15Text(r)}}
		}
		mk(sp, "blank-in-list", append(c15PatTags("header", hp), c15PatTags("pkg", pp)...)...)
	}
	// ---- canonical-x-names ----
	canon := func(own string, k int) string {
		switch k % 4 {
		case 0:
			return "example.com/canonical/p"
		case 1:
			if own != "" {
				return own
			}
			return "a.b/c"
		case 2:
			return pick(r, c15Paths)
		}
		return pick(r, []string{"a.b/c_test", "x_test", "main", "a.b/c/v2", "vendor/a.b/c"})
	}
	k := 0
	one := func(ctor hist.Op, own, shape string) {
		for v := 0; v < tier(t, 4, 8); v++ {
			c := ctor
			sp := &c15Spec{Tmpl: k % len(c15Templates), Ctor: &c, Canonical: canon(own, k)}
			if v&1 != 0 {
				sp.Pkg = []string{c15ListText(r)}
			}
			if v&2 != 0 {
				sp.Headers = []string{c15ListText(r)}
			}
			if v >= 4 && r.Intn(2) == 0 {
				sp.Places = []c15Place{{Site: 0, Text: c15Text(r)}}
			}
			k++
			mk(sp, "canonical-x-names", "ctor="+ctor.Kind, "pkgname="+shape, fmt.Sprintf("canonical+pkgcomment=%v", v&1 != 0), fmt.Sprintf("canonical+header=%v", v&2 != 0))
		}
	}
	renders := func(h hist.History) bool {
		obs := hist.NewWorld().Exec(append(h, hist.Op{Kind: "render", F: 0}))
		return len(obs) == 1 && obs[0].Kind == "write" && !obs[0].Failed
	}
	for _, pn := range c06PkgNames {
		// the name must be a package name go/parser accepts (`_` alone, keywords: the caller's business)
		if !renders(hist.History{{Kind: "newfile", F: 0, A: pn.name}}) {
			continue
		}
		one(hist.Op{Kind: "newfile", A: pn.name}, "", pn.shape)
		one(hist.Op{Kind: "newfilepathname", A: pick(r, []string{"a.b/c", "example.com/mod/pkg", "a.b/c/v2"}), B: pn.name}, "a.b/c", pn.shape)
	}
	locals := append([]string{}, c06NameyLocals...)
	for _, s := range c06PathShapes {
		locals = append(locals, s.path)
	}
	for _, p := range locals {
		if renders(hist.History{{Kind: "newfilepath", F: 0, A: p}}) {
			one(hist.Op{Kind: "newfilepath", A: p}, p, "derived-from:"+lastElem(p))
		}
	}
	return out
}
