package props

import (
	"strings"
	"testing"

	"verifharness/hist"
	"verifharness/term"
)

var gnGoodArgs = []string{"list", "-e", "-f", "{{ .Standard }} {{ .ImportPath }} {{ .Name }}", "verif/stub/..."}

func gnWritten(pairs ...[2]string) gnResult {
	return gnResult{outcome: "written", pairs: pairs, args: gnGoodArgs}
}

// The oracle of the stub stream on hand-made runs: it must accept what the rules of
// getPackages allow and reject every way of printing a name the listing does not give.
func TestC18StubOracleRejectsAndAccepts(t *testing.T) {
	listing := "true archive/tar tar\ntrue cmd/go main\nfalse example.com/x x\ntrue vendor/golang.org/x/net/idna idna\ntrue golang.org/x/net/idna other\ntrue net/http http\n"
	std := gnCase{Standard: true, Pkg: "names", Name: "Table", Out: listing}
	stdnv := std
	stdnv.Novendor = true
	user := gnCase{Pkg: "names", Name: "Table", Out: listing}
	p := func(a, b string) [2]string { return [2]string{a, b} }
	cases := []struct {
		name string
		g    gnCase
		r    gnResult
		bad  string // substring of the expected verdict; "" = must be accepted
	}{
		{"good -standard", std, gnWritten(p("archive/tar", "tar"), p("golang.org/x/net/idna", "idna"), p("net/http", "http")), ""},
		{"good -standard -novendor", stdnv, gnWritten(p("archive/tar", "tar"), p("golang.org/x/net/idna", "other"), p("net/http", "http")), ""},
		{"good user", user, gnWritten(p("example.com/x", "x")), ""},
		{"name guessed from the path", gnCase{Standard: true, Out: "true gopkg.in/yaml.v2 yaml\n"}, gnWritten(p("gopkg.in/yaml.v2", "yaml.v2")), "names it \"yaml\""},
		{"invented entry", std, gnWritten(p("archive/tar", "tar"), p("fmt", "fmt"), p("golang.org/x/net/idna", "idna"), p("net/http", "http")), "not the path"},
		{"main kept", std, gnWritten(p("archive/tar", "tar"), p("cmd/go", "main"), p("golang.org/x/net/idna", "idna"), p("net/http", "http")), "main package"},
		{"non-standard line kept", std, gnWritten(p("archive/tar", "tar"), p("example.com/x", "x"), p("golang.org/x/net/idna", "idna"), p("net/http", "http")), "other -standard class"},
		{"standard line kept without -standard", user, gnWritten(p("archive/tar", "tar"), p("example.com/x", "x")), "other -standard class"},
		{"vendored line wins under -novendor", stdnv, gnWritten(p("archive/tar", "tar"), p("golang.org/x/net/idna", "idna"), p("net/http", "http")), "excluded by -novendor"},
		{"vendor prefix not stripped", std, gnWritten(p("archive/tar", "tar"), p("net/http", "http"), p("vendor/golang.org/x/net/idna", "idna")), "not the path"},
		{"second line wins", std, gnWritten(p("archive/tar", "tar"), p("golang.org/x/net/idna", "other"), p("net/http", "http")), "first line of the listing that names this path says \"idna\""},
		{"eligible line missing", std, gnWritten(p("archive/tar", "tar"), p("golang.org/x/net/idna", "idna")), "no entry for it"},
		{"not sorted", std, gnWritten(p("net/http", "http"), p("archive/tar", "tar"), p("golang.org/x/net/idna", "idna")), "not sorted"},
		{"panic on a well-formed listing", std, gnResult{outcome: "panic", msg: "boom"}, "panicked"},
		{"panic on a short selected line (known finding)", gnCase{Out: "false a a\nfalse b \n"}, gnResult{outcome: "panic", msg: "runtime error: index out of range [2] with length 2"}, ""},
		{"gives up although go list succeeded", std, gnResult{outcome: "fail", msg: "x"}, "gave up"},
		{"go list failed", gnCase{Standard: true, Out: listing, Fail: true}, gnResult{outcome: "fail"}, ""},
		{"table although go list failed", gnCase{Standard: true, Out: listing, Fail: true}, gnWritten(p("archive/tar", "tar")), "although `go list` failed"},
		{"asks for other fields", std, gnResult{outcome: "written", pairs: [][2]string{p("archive/tar", "tar"), p("golang.org/x/net/idna", "idna"), p("net/http", "http")}, args: []string{"list", "-f", "{{ .ImportPath }} {{ .Name }}", "all"}}, "did not ask"},
		{"empty name stays", gnCase{Out: "false a \nfalse z z\n"}, gnWritten(p("a", ""), p("z", "z")), ""},
		{"empty name replaced by the next", gnCase{Out: "false a \nfalse a x\nfalse a y\nfalse z z\n"}, gnWritten(p("a", "x"), p("z", "z")), ""},
		{"empty name kept although a later line names it", gnCase{Out: "false a \nfalse a x\nfalse z z\n"}, gnWritten(p("a", ""), p("z", "z")), "says \"x\""},
		{"crlf: main\\r is not main", gnCase{Standard: true, Out: "true cmd/go main\r\ntrue fmt fmt\r\n"}, gnWritten(p("cmd/go", "main\r"), p("fmt", "fmt")), ""},
		{"unreadable run", std, gnResult{outcome: "bad", msg: "x"}, "cannot be read"},
	}
	for _, c := range cases {
		got := GennamesStubOracle(c.g, c.r)
		if c.bad == "" && got != "" {
			t.Errorf("%s: rejected: %s", c.name, got)
		}
		if c.bad != "" && !strings.Contains(got, c.bad) {
			t.Errorf("%s: verdict %q does not mention %q", c.name, got, c.bad)
		}
	}
}

func TestC18StubCompare(t *testing.T) {
	raw := "package names\n\nvar Table = map[string] string {\n\"fmt\":\"fmt\",\n\"os\":\"os\",\n}"
	formatted := "package names\n\nvar Table = map[string]string{\n\t\"fmt\": \"fmt\",\n\t\"os\":  \"os\",\n}\n"
	pairs := [][2]string{{"fmt", "fmt"}, {"os", "os"}}
	model := []hist.Obs{hist.Ext("gn-outcome", "written"), hist.Ext("gn-table", gnPairsSexp(pairs)), hist.Ext("gn-order", gnPairsSexp(pairs)), hist.Ext("gn-file", term.X(raw))}
	impl := gnObs(gnResult{outcome: "written", pairs: pairs, file: formatted})
	if v := GennamesStubCompare(model, impl); v != "" {
		t.Errorf("equal runs differ: %s", v)
	}
	other := gnObs(gnResult{outcome: "written", pairs: [][2]string{{"fmt", "format"}, {"os", "os"}}, file: formatted})
	if v := GennamesStubCompare(model, other); !strings.Contains(v, "observation 1 differs") {
		t.Errorf("a different table is not noticed: %q", v)
	}
	swapped := gnObs(gnResult{outcome: "written", pairs: [][2]string{{"os", "os"}, {"fmt", "fmt"}}, file: formatted})
	if v := GennamesStubCompare(model, swapped); !strings.Contains(v, "observation 2 differs") {
		t.Errorf("a different order is not noticed: %q", v)
	}
	otherFile := gnObs(gnResult{outcome: "written", pairs: pairs, file: strings.Replace(formatted, "names", "main", 1)})
	if v := GennamesStubCompare(model, otherFile); !strings.Contains(v, "written file differs") {
		t.Errorf("a different file is not noticed: %q", v)
	}
	pan := gnObs(gnResult{outcome: "panic", msg: "runtime error: index out of range [1] with length 1"})
	if v := GennamesStubCompare(model, pan); !strings.Contains(v, "observation 0 differs") {
		t.Errorf("a panic is not noticed: %q", v)
	}
	mpan := []hist.Obs{hist.Ext("gn-outcome", "panic "+term.X("runtime error: index out of range [1] with length 1")), hist.Ext("gn-table", ""), hist.Ext("gn-order", ""), hist.Ext("gn-file", "x")}
	if v := GennamesStubCompare(mpan, pan); v != "" {
		t.Errorf("equal panics differ: %s", v)
	}
}

func TestC18StubReference(t *testing.T) {
	ref := gnReference(gnCase{Standard: true, Out: "\n  true a/vendor/b b1\ntrue b b2\ntrue\ttab x\nfalse\ntrue d \ntrue c main\n"})
	if ref.short {
		t.Errorf("a short line of the other class must not count as short")
	}
	want := map[string]string{"b": "b1", "d": ""}
	if len(ref.table) != len(want) || ref.table["b"] != "b1" || ref.table["d"] != "" {
		t.Errorf("reference table %v, want %v", ref.table, want)
	}
	if _, ok := ref.table["d"]; !ok {
		t.Errorf("the entry with the empty name is missing")
	}
	if r2 := gnReference(gnCase{Out: ""}); !r2.short {
		t.Errorf("the empty listing without -standard is one short selected line")
	}
	if p, v := gnUnvendor("a/vendor/b/vendor/c"); p != "c" || !v {
		t.Errorf("gnUnvendor: %q %v", p, v)
	}
	if p, v := gnUnvendor("x/vendor"); p != "x/vendor" || v {
		t.Errorf("gnUnvendor: %q %v", p, v)
	}
}

func TestC18StubParsePairs(t *testing.T) {
	src := "package names\n\nvar Table = map[string]string{\n\t\"b\": \"x\",\n\t\"a\": \"y\",\n}\n"
	ps, err := parseNamePairs(src, "names", "Table")
	if err != nil || len(ps) != 2 || ps[0] != [2]string{"b", "x"} || ps[1] != [2]string{"a", "y"} {
		t.Errorf("parseNamePairs: %v %v", ps, err)
	}
	if _, err := parseNamePairs(src, "main", "Table"); err == nil {
		t.Errorf("wrong package accepted")
	}
	if _, err := parseNamePairs(strings.Replace(src, "\"a\"", "\"b\"", 1), "names", "Table"); err == nil {
		t.Errorf("repeated key accepted")
	}
}

// One run of the real tool against the stub, end to end.
func TestC18StubEndToEnd(t *testing.T) {
	defer c18{}.Close()
	g := gnCase{Standard: true, Novendor: true, Pkg: "names", Name: "Table", Out: "true fmt fmt\ntrue cmd/go main\ntrue vendor/x/y y\nfalse q q\n"}
	r := runGennamesStub(g)
	if r.outcome != "written" || len(r.pairs) != 1 || r.pairs[0] != [2]string{"fmt", "fmt"} {
		t.Fatalf("run: %+v", r)
	}
	if v := GennamesStubOracle(g, r); v != "" {
		t.Errorf("oracle: %s", v)
	}
	g.Standard, g.Out = false, ""
	if r := runGennamesStub(g); r.outcome != "panic" || !strings.Contains(r.msg, "index out of range [1] with length 1") {
		t.Errorf("empty listing without -standard: %+v", r)
	}
}
