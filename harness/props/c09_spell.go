package props

import (
	"bytes"
	"encoding/hex"
	"fmt"
	"math/rand"
	"os"
	"os/exec"
	"sort"
	"strconv"
	"strings"
	"sync"

	"verifharness/hist"
	"verifharness/term"
)

// Stream "spellings" of C09: independence of Files whose import paths are SPELLINGS of one
// another.
//
// The paths of the other streams collide in the NAME they are given (a.b/d, c.b/d, ...).  A
// mistake in what the library remembers about a PATH - a table or memo keyed by some part or
// normal form of the path instead of the path - shows only between paths that share that part
// or normal form.  The pool of a job set here is the product of 2..3 stems (alpha, beta, ...)
// and 3..7 spelling variants over 1..2 hosts:
//
//	host/stem  host/stem/  host/stem//  host//stem  host/Stem  host/STEM  HOST/stem
//	host/stem.go  host/stem.v2  host/stem/v2  host/stem-go  host/go-stem  host/stem_test
//	host/./stem  host/stem/.  host/stem/..  host/x/../stem  host/st.em  host/.stem  host/stem.
//	host/sub/stem  other.org/stem  other.org/stem/  stem  /host/stem  host/stem2  host/2stem
//	host/  (no last element at all)
//
// so that two Files of a set use paths that differ ONLY in the stem (same affixes: "a.b/alpha/"
// and "a.b/beta/") or ONLY in the spelling (same stem: "a.b/alpha" and "a.b/Alpha", "a.b/alpha/",
// "a.b/alpha.go").  A job set is N = 2..6 Files built one after another in one process; a File
// names its paths through Qual (no hint: the name is guessed; one File in four has a hint for
// one of them), one File in three is itself located at such a path (NewFilePath: the package
// name is guessed from it; NewFilePathName).
//
// Oracle:
//   - c09JobsOracle: every File alone, other sequential orders, interleavings, goroutines - all
//     in this process;
//   - FRESH PROCESSES.  This process has built thousands of Files before the first job of
//     this stream (the package's own initialisation renders one File per pool path), so state
//     that survives in the process and is filled on first use looks the same in every run
//     above.  The harness therefore starts K child processes (quick 3, thorough 6) in which
//     NOTHING has been built (FreshProcessEnv), each of which regenerates the job sets of this
//     stream from the seed and builds every File alone, in an order of its own: reversed;
//     shuffled; a shuffled half.  Every File must show, byte for byte, what it showed here -
//     whichever Files were built before it in its process, and in particular if none was.
type c09SpellVariant struct {
	Name string
	Make func(host, stem string) string
}

func c09Upper(s string) string { return strings.ToUpper(s) }

var c09SpellVariants = []c09SpellVariant{
	{"plain", func(h, s string) string { return h + "/" + s }},
	{"trailing-slash", func(h, s string) string { return h + "/" + s + "/" }},
	{"two-trailing-slashes", func(h, s string) string { return h + "/" + s + "//" }},
	{"doubled-slash", func(h, s string) string { return h + "//" + s }},
	{"upper-first", func(h, s string) string { return h + "/" + c09Upper(s[:1]) + s[1:] }},
	{"upper-all", func(h, s string) string { return h + "/" + c09Upper(s) }},
	{"upper-host", func(h, s string) string { return c09Upper(h) + "/" + s }},
	{"suffix-go", func(h, s string) string { return h + "/" + s + ".go" }},
	{"suffix-v2", func(h, s string) string { return h + "/" + s + ".v2" }},
	{"version-dir", func(h, s string) string { return h + "/" + s + "/v2" }},
	{"hyphen-suffix", func(h, s string) string { return h + "/" + s + "-go" }},
	{"hyphen-prefix", func(h, s string) string { return h + "/go-" + s }},
	{"underscore-suffix", func(h, s string) string { return h + "/" + s + "_test" }},
	{"dot-dir", func(h, s string) string { return h + "/./" + s }},
	{"trailing-dot-dir", func(h, s string) string { return h + "/" + s + "/." }},
	{"trailing-dotdot", func(h, s string) string { return h + "/" + s + "/.." }},
	{"inner-dotdot", func(h, s string) string { return h + "/x/../" + s }},
	{"inner-dot", func(h, s string) string { return h + "/" + s[:2] + "." + s[2:] }},
	{"leading-dot", func(h, s string) string { return h + "/." + s }},
	{"final-dot", func(h, s string) string { return h + "/" + s + "." }},
	{"other-dir", func(h, s string) string { return h + "/sub/" + s }},
	{"other-host", func(h, s string) string { return "other.org/" + s }},
	{"other-host-trailing-slash", func(h, s string) string { return "other.org/" + s + "/" }},
	{"bare", func(h, s string) string { return s }},
	{"bare-trailing-slash", func(h, s string) string { return s + "/" }},
	{"leading-slash", func(h, s string) string { return "/" + h + "/" + s }},
	{"digit-suffix", func(h, s string) string { return h + "/" + s + "2" }},
	{"digit-prefix", func(h, s string) string { return h + "/2" + s }},
	{"host-only", func(h, s string) string { return h + "/" }}, // the same for every stem
}

var c09SpellStems = []string{"alpha", "beta", "gamma", "delta", "omega", "kappa", "sigma"}
var c09SpellHosts = []string{"a.b", "example.org", "c.d/e", "x"}
var c09SpellHints = []string{"alpha", "beta", "al", "a1", "pkg", "v2", "lib"}

type c09SpellPath struct {
	Path, Variant, Stem string
}

// c09SpellJob draws the job of file f over the given paths.  local (may be empty) is the path
// the File itself is located at.
func c09SpellJob(r *rand.Rand, f int, paths []c09SpellPath, local *c09SpellPath, feats map[string]bool) hist.History {
	var h hist.History
	switch {
	case local == nil:
		h = append(h, hist.Op{Kind: "newfile", F: f, A: "p"})
	case r.Intn(2) == 0:
		h = append(h, hist.Op{Kind: "newfilepath", F: f, A: local.Path})
		feats["newfilepath-guesses-package-name"] = true
	default:
		h = append(h, hist.Op{Kind: "newfilepathname", F: f, A: local.Path, B: "q"})
		feats["newfilepathname"] = true
	}
	if r.Intn(5) == 0 {
		h = append(h, hist.Op{Kind: "prefix", F: f, A: pick(r, prefixPool)})
		feats["prefix"] = true
	}
	if len(paths) > 0 && r.Intn(4) == 0 {
		h = append(h, hist.Op{Kind: pick(r, []string{"importname", "importalias"}), F: f, A: paths[r.Intn(len(paths))].Path, B: pick(r, c09SpellHints)})
		feats["hint"] = true
	}
	if len(paths) > 0 && r.Intn(6) == 0 {
		if p := paths[r.Intn(len(paths))].Path; local == nil || p != local.Path {
			h = append(h, hist.Op{Kind: "anon", F: f, Strs: []string{p}})
			feats["anon"] = true
		}
	}
	k := 0
	ref := func(p string) *term.Stmt {
		k++
		name := fmt.Sprintf("V%d", k)
		switch r.Intn(3) {
		case 0:
			return term.S(term.Named("Var"), term.Id("_"), term.Op("="), term.Qual(p, name))
		case 1:
			return term.S(term.Named("Func"), term.Id("_"), term.G("Params"), term.G("Block", term.S(term.Qual(p, name), term.G("Call"))))
		}
		return term.S(term.Named("Var"), term.Id("_"), term.Qual(p, name))
	}
	for _, p := range paths {
		for i := 1 + r.Intn(2); i > 0; i-- {
			h = append(h, hist.Op{Kind: "fadd", F: f, Code: ref(p.Path)})
		}
	}
	if len(paths) == 0 {
		h = append(h, hist.Op{Kind: "fadd", F: f, Code: term.S(term.Named("Var"), term.Id("x"), term.Named("Int"))})
	}
	h = append(h, hist.Op{Kind: "noformat", F: f, Flag: r.Intn(3) == 0}, hist.Op{Kind: "render", F: f})
	if len(paths) > 0 && r.Intn(4) == 0 {
		h = append(h, hist.Op{Kind: "fadd", F: f, Code: ref(paths[r.Intn(len(paths))].Path)}, hist.Op{Kind: "render", F: f})
		feats["second-render"] = true
	}
	return append(h, hist.Op{Kind: "imports", F: f})
}

// c09SpellSet draws one job set.  It executes nothing: the fresh-process children regenerate
// the sets, and there nothing may be built before the jobs themselves.
func c09SpellSet(r *rand.Rand, t string) *Case {
	hosts := []string{pick(r, c09SpellHosts)}
	if r.Intn(4) == 0 {
		hosts = append(hosts, pick(r, c09SpellHosts))
	}
	stems := c09Some(r, c09SpellStems, 2+r.Intn(2))
	nv := 3 + r.Intn(5)
	var variants []c09SpellVariant
	for _, i := range r.Perm(len(c09SpellVariants))[:nv] {
		variants = append(variants, c09SpellVariants[i])
	}
	// the trailing slash is the spelling the library documents as tolerated: in half of the sets
	if r.Intn(2) == 0 {
		variants[0] = c09SpellVariants[1]
	}
	var pool []c09SpellPath
	seen := map[string]bool{}
	for _, h := range hosts {
		for _, s := range stems {
			for _, v := range variants {
				if p := v.Make(h, s); !seen[p] {
					seen[p] = true
					pool = append(pool, c09SpellPath{p, v.Name, s})
				}
			}
		}
	}
	nj := 2 + r.Intn(5)
	feats := map[string]bool{}
	var h hist.History
	// pairing: consecutive Files use paths that differ only in the stem, or only in the spelling
	var prev *c09SpellPath
	for f := 0; f < nj; f++ {
		var paths []c09SpellPath
		if prev != nil && r.Intn(4) > 0 {
			var cand []c09SpellPath
			sameVariant := r.Intn(2) == 0
			for _, p := range pool {
				if p.Path == prev.Path {
					continue
				}
				if (sameVariant && p.Variant == prev.Variant) || (!sameVariant && p.Stem == prev.Stem) {
					cand = append(cand, p)
				}
			}
			if len(cand) > 0 {
				paths = append(paths, cand[r.Intn(len(cand))])
				if sameVariant {
					feats["next-file:same-spelling-other-stem"] = true
				} else {
					feats["next-file:same-stem-other-spelling"] = true
				}
			}
		}
		for i := r.Intn(3); i > 0 || len(paths) == 0; i-- {
			p := pool[r.Intn(len(pool))]
			dup := false
			for _, q := range paths {
				dup = dup || q.Path == p.Path
			}
			if !dup {
				paths = append(paths, p)
			}
		}
		r.Shuffle(len(paths), func(a, b int) { paths[a], paths[b] = paths[b], paths[a] })
		var local *c09SpellPath
		if r.Intn(3) == 0 {
			l := pool[r.Intn(len(pool))]
			local = &l
			if r.Intn(3) == 0 {
				paths = nil // a File that only has a package clause to guess
			}
		}
		if len(paths) > 0 {
			p := paths[0]
			prev = &p
		} else if local != nil {
			prev = local
		}
		h = append(h, c09SpellJob(r, f, paths, local, feats)...)
	}
	tags := []string{fmt.Sprintf("files=%d", nj), fmt.Sprintf("pool-paths=%s", c07Bucket(len(pool), 6, 12, 24))}
	for _, v := range variants {
		tags = append(tags, "spelling="+v.Name)
	}
	tags = append(tags, sortedKeys(feats)...)
	sort.Strings(tags)
	pp := make([]string, len(pool))
	for i, p := range pool {
		pp[i] = p.Path
	}
	return &Case{Hist: h, Stream: "spellings", Tags: tags, Meta: map[string]interface{}{"seed": r.Int63(), "tier": t, "spell-pool": pp}}
}

// C09SpellSets: the job sets of the stream, from a seed.  Pure (see c09SpellSet).
func C09SpellSets(seed int64, t string) []*Case {
	if i := strings.Index(t, "/"); i >= 0 {
		t = t[:i]
	}
	r := rand.New(rand.NewSource(seed))
	n := tier(t, 120, 4000)
	out := make([]*Case, n)
	for i := range out {
		out[i] = c09SpellSet(r, t)
		out[i].Meta["set"] = i
	}
	return out
}

// c09SpellMeasure (parent process only: it runs the jobs).  NonTrivial: two different Files of
// the set give a GUESSED name (no hint for that path in that File) to two DIFFERENT paths of the
// set's spelling pool - as an import, or as the File's own package name (NewFilePath) - counted
// on the import tables and package clauses of the Files built alone.
func c09SpellMeasure(c *Case) {
	files, jobs := C09Jobs(c.Hist)
	inPool := map[string]bool{}
	for _, p := range c.Meta["spell-pool"].([]string) {
		inPool[p] = true
	}
	tables := c09Tables(files, jobs)
	guessed := map[int]map[string]bool{}
	for _, f := range files {
		g := map[string]bool{}
		hinted := map[string]bool{}
		for _, op := range jobs[f] {
			switch op.Kind {
			case "importname", "importalias":
				hinted[op.A] = true
			case "newfilepath":
				if inPool[op.A] {
					g[op.A] = true
				}
			}
		}
		for p, n := range tables[f] {
			if inPool[p] && !hinted[p] && n != "_" {
				g[p] = true
			}
		}
		guessed[f] = g
	}
	pairs := 0
	for i, a := range files {
		for _, b := range files[i+1:] {
			hit := false
			for p := range guessed[a] {
				for q := range guessed[b] {
					hit = hit || p != q
				}
			}
			if hit {
				pairs++
			}
		}
	}
	c.NonTrivial = pairs > 0
	c.Tags = append(c.Tags, fmt.Sprintf("file-pairs-guessing-different-spellings=%s", c07Bucket(pairs, 1, 2, 4)))
}

// ---- fresh processes ----

func c09SpellKey(set, file int) string { return fmt.Sprintf("s%d.%d", set, file) }

// c09FreshJobs lists the jobs child k builds, in its order: k = 0 all jobs in reverse order;
// odd k: all jobs shuffled; even k > 0: a shuffled half.  Each job is a Case of its own
// (ChildMain builds every Case in a World of its own).
func c09FreshJobs(seed int64, t string, k int) []*Case {
	var all []*Case
	for _, c := range C09SpellSets(seed, t) {
		files, jobs := C09Jobs(c.Hist)
		for _, f := range files {
			all = append(all, &Case{Hist: jobs[f], Stream: "spellings", Meta: map[string]interface{}{"xkey": c09SpellKey(c.Meta["set"].(int), f), "xtext": true}})
		}
	}
	switch {
	case k == 0:
		for a, b := 0, len(all)-1; a < b; a, b = a+1, b-1 {
			all[a], all[b] = all[b], all[a]
		}
	default:
		r := rand.New(rand.NewSource(seed*31 + int64(k)))
		r.Shuffle(len(all), func(a, b int) { all[a], all[b] = all[b], all[a] })
		if k%2 == 0 {
			all = all[:(len(all)+1)/2]
		}
	}
	return all
}

// ChildCases: what a fresh-process child builds.  The tier argument carries the number of
// the child: "quick/fresh=2".
func (c09) ChildCases(t string, sub int64) []*Case {
	k := 0
	if i := strings.Index(t, "/fresh="); i >= 0 {
		k, _ = strconv.Atoi(t[i+len("/fresh="):])
		t = t[:i]
	}
	return c09FreshJobs(sub, t, k)
}

// C09FreshJob is what one child showed for one job.
type C09FreshJob struct {
	HistSum string
	Text    string // ObsText of the job's observations
	Pos     int    // position of the job in the child's order
}

// C09FreshRun is one child process.
type C09FreshRun struct {
	K     int
	Err   error
	Jobs  map[string]C09FreshJob
	Order []string // keys in the order the child built them
}

type c09FreshRuns struct {
	done chan struct{}
	Runs []*C09FreshRun
}

// c09FreshProcs: the fresh-process children of this harness run (nil: none were started, e.g.
// under `go test`).
var c09FreshProcs *c09FreshRuns

func c09ParseFresh(out string) (map[string]C09FreshJob, []string, error) {
	jobs := map[string]C09FreshJob{}
	var order []string
	complete := false
	for _, l := range strings.Split(out, "\n") {
		if l == "end" {
			complete = true
			continue
		}
		f := strings.Fields(l)
		if len(f) != 4 {
			continue
		}
		txt, err := hex.DecodeString(f[3])
		if err != nil {
			return nil, nil, fmt.Errorf("undecodable line for %s", f[0])
		}
		jobs[f[0]] = C09FreshJob{HistSum: f[1], Text: string(txt), Pos: len(order)}
		order = append(order, f[0])
	}
	if !complete {
		return nil, nil, fmt.Errorf("child output is incomplete (%d lines)", len(order))
	}
	return jobs, order, nil
}

func c09StartFresh(n int, t string, seed int64) *c09FreshRuns {
	x := &c09FreshRuns{done: make(chan struct{}), Runs: make([]*C09FreshRun, n)}
	var wg sync.WaitGroup
	for k := 0; k < n; k++ {
		wg.Add(1)
		go func(k int) {
			defer wg.Done()
			run := &C09FreshRun{K: k}
			x.Runs[k] = run
			cmd := exec.Command(ChildExe, "-child-exec", "C09", fmt.Sprintf("%s/fresh=%d", t, k), strconv.FormatInt(seed, 10))
			cmd.Env = append(os.Environ(), FreshProcessEnv+"=1")
			var out bytes.Buffer
			cmd.Stdout = &out
			cmd.Stderr = os.Stderr
			if err := cmd.Run(); err != nil {
				run.Err = fmt.Errorf("child process failed: %v", err)
				return
			}
			run.Jobs, run.Order, run.Err = c09ParseFresh(out.String())
		}(k)
	}
	go func() { wg.Wait(); close(x.done) }()
	return x
}

// C09FreshAgree is the decision on the fresh processes: every job shows in every child that
// built it exactly what it showed in this process.  mine: key -> ObsText here.
func C09FreshAgree(keys []string, mine map[string]string, runs []*C09FreshRun) string {
	for _, run := range runs {
		for _, key := range keys {
			j, ok := run.Jobs[key]
			if !ok {
				continue // not in this child's half
			}
			if j.Text == mine[key] {
				continue
			}
			before := "it was the FIRST File that process built"
			if j.Pos > 0 {
				lo := j.Pos - 3
				if lo < 0 {
					lo = 0
				}
				before = fmt.Sprintf("it was File number %d there, built after %s%s", j.Pos+1, map[bool]string{true: "... ", false: ""}[lo > 0], strings.Join(run.Order[lo:j.Pos], " "))
			}
			return fmt.Sprintf("File %s shows something else when it is built alone in fresh process #%d (%s):\n  in this process: %s  fresh process:   %s", key, run.K, before, c09Indent(mine[key]), c09Indent(j.Text))
		}
	}
	return ""
}

func c09Indent(s string) string {
	if len(s) > 1500 {
		s = s[:1500] + "...\n"
	}
	return strings.TrimRight(strings.ReplaceAll(s, "\n", "\n                   "), " ")
}

// c09SpellOracle: the in-process runs, then the fresh processes.
func c09SpellOracle(c *Case, got []hist.Obs) string {
	if d := c09JobsOracle(c, got); d != "" {
		return d
	}
	x := c09FreshProcs
	if x == nil {
		return ""
	}
	<-x.done
	files, jobs := C09Jobs(c.Hist)
	base, _ := c09Split(c.Hist, got)
	set, _ := c.Meta["set"].(int)
	mine := map[string]string{}
	var keys []string
	for _, f := range files {
		key := c09SpellKey(set, f)
		keys = append(keys, key)
		mine[key] = ObsText(base[f])
		hs := xprocHistSum(jobs[f])
		seen := false
		for _, run := range x.Runs {
			if run.Err != nil {
				// the machinery failed, not the property: stop the run (./check reports a failed harness)
				panic(fmt.Sprintf("C09: fresh-process child %d could not run: %v", run.K, run.Err))
			}
			if j, ok := run.Jobs[key]; ok {
				seen = true
				if j.HistSum != hs {
					panic(fmt.Sprintf("C09: fresh-process child %d regenerated another job %s (history digest %q, here %q)", run.K, key, j.HistSum, hs))
				}
			}
		}
		if !seen {
			panic(fmt.Sprintf("C09: no fresh-process child built job %s", key))
		}
	}
	return C09FreshAgree(keys, mine, x.Runs)
}
