package props

import (
	"fmt"
	"math/rand"
	"os"
	"path/filepath"
	"runtime"
	"sort"
	"strings"
	"sync"

	"github.com/dave/jennifer/jen"

	"verifharness/hist"
	"verifharness/term"
)

// Stream "concurrent-save" of C09: independent Files SAVED at the same time.
//
// The other streams of C09 build and RENDER jobs concurrently; what the jobs share there is
// jennifer's own memory.  File.Save adds a second shared medium, the file system: the normal
// layout of a generated package is several Files of ONE package name written into ONE directory
// under different file names, often by one goroutine per File.  A case of this stream is a job
// set of K = 2..16 Files; job j is constructor + settings + body + (sometimes a warm-up render)
// + ONE `save j <dir>/<name>`; the layouts are
//
//	same-pkg-same-dir    one package name, one directory, K file names
//	diff-pkg-same-dir    K package names, one directory (foo / foo_test / main programs side by side)
//	same-pkg-diff-dirs   one package name, every File in a directory of its own
//	mixed                2..4 directories, 1..3 package names, several Files per directory
//
// and the file names are zz_<j>.go, or (names=tempish) a family of names that look like what an
// implementation of Save could use for a temporary or backup file next to the target: n.tmp, n~,
// .n, .n.tmp, n.bak, n.new, <pkg>.go, .<pkg>.go, <pkg>.go.tmp, .<pkg>.go.tmp (all distinct inside
// a directory).  No two jobs save to the same path: the jobs are independent.
//
// For the model the job set is one ordinary history (the jobs one after another); main.go runs
// it once, sequentially, into a private directory (Meta savepath), which gives the observations
// the model is compared with.  The ORACLE re-executes the job set: once more sequentially, then
// R rounds (quick 60, thorough 120); in every round every job gets a goroutine, a hist.World and
// a *jen.File of its own, the goroutines meet at a barrier and are released together - in even
// rounds BEFORE anything is built (build + Save race), in odd rounds after every File is complete
// (only the Saves race, so that their write windows overlap as much as possible) - into a fresh
// directory tree; every fourth round runs under GOMAXPROCS 2, the others under at least 4.
// Re-evaluating the case (replay, shrinking) calls the oracle again and so re-creates the
// concurrency.  After the goroutines have been joined the tree is read back.  Required:
//
//   - every Save returns what the same File's Save returns alone: nil (or, for a body go/format
//     rejects, the format error - and then no file);
//   - every saved file holds, after ALL jobs are done, exactly the source of its own File.  The
//     ground truth for that source is File.Render of an identically built File into a buffer (no
//     Save involved);
//   - the tree holds the same entries as after the sequential run (nothing left over, nothing
//     missing).
//
// NonTrivial (measured): at least two jobs of the set save successfully and their sources
// differ, so that an exchange of contents between two jobs is visible.
type c09SaveInfo struct {
	Rounds int
	root   string // private directory of the main (sequential) run; made on first use, removed by the oracle
	mu     sync.Mutex
}

func (s *c09SaveInfo) savePath(sym string) string {
	s.mu.Lock()
	defer s.mu.Unlock()
	if s.root == "" {
		d, err := os.MkdirTemp("", "verif-c09-save-")
		if err != nil {
			panic("C09: cannot create the temp directory: " + err.Error())
		}
		s.root = d
	}
	p := filepath.Join(s.root, filepath.FromSlash(sym))
	os.MkdirAll(filepath.Dir(p), 0755)
	return p
}

func (s *c09SaveInfo) cleanup() {
	s.mu.Lock()
	defer s.mu.Unlock()
	if s.root != "" {
		os.RemoveAll(s.root)
		s.root = ""
	}
}

// c09SaveFile is File.Save; a variable so that the tests can substitute an implementation whose
// Saves interfere.
var c09SaveFile = func(f *jen.File, path string) error { return f.Save(path) }

var c09SavePkgs = []string{"api", "p", "main", "model", "pkg", "gen", "x"}

// c09TempishNames: names derived from a base name / a package name the way temporary and backup
// files are commonly named.
func c09TempishNames(r *rand.Rand, base, pkg string) []string {
	all := []string{base, base + ".tmp", base + "~", "." + base, "." + base + ".tmp", base + ".bak", base + ".new", base + ".swp",
		pkg + ".go", "." + pkg + ".go", pkg + ".go.tmp", "." + pkg + ".go.tmp", pkg + ".tmp", "." + pkg + ".tmp", "tmp", ".tmp", pkg}
	r.Shuffle(len(all), func(i, j int) { all[i], all[j] = all[j], all[i] })
	return all
}

// c09SaveCase draws one job set.
func c09SaveCase(r *rand.Rand, t string) *Case {
	k := []int{2, 3, 4, 6, 8, 8, 12, 16}[r.Intn(8)]
	layout := pick(r, []string{"same-pkg-same-dir", "same-pkg-same-dir", "diff-pkg-same-dir", "same-pkg-diff-dirs", "mixed"})
	tempish := r.Intn(3) == 0
	pool := c09Pool(r)
	pkgOf, dirOf := make([]string, k), make([]string, k)
	pk := r.Perm(len(c09SavePkgs))
	for j := 0; j < k; j++ {
		switch layout {
		case "same-pkg-same-dir":
			pkgOf[j], dirOf[j] = c09SavePkgs[pk[0]], "d0"
		case "diff-pkg-same-dir":
			pkgOf[j], dirOf[j] = fmt.Sprintf("%s%d", c09SavePkgs[pk[j%len(pk)]], j), "d0"
			if j%3 == 1 { // foo next to foo_test
				pkgOf[j] = pkgOf[j-1] + "_test"
			}
		case "same-pkg-diff-dirs":
			pkgOf[j], dirOf[j] = c09SavePkgs[pk[0]], fmt.Sprintf("d%d", j)
		default:
			pkgOf[j], dirOf[j] = c09SavePkgs[pk[r.Intn(1+r.Intn(3))]], fmt.Sprintf("d%d", r.Intn(2+r.Intn(3)))
		}
	}
	// file names, distinct inside a directory
	used := map[string]bool{}
	nameOf := make([]string, k)
	for j := 0; j < k; j++ {
		cands := []string{fmt.Sprintf("zz_%d.go", j)}
		if tempish {
			cands = append(c09TempishNames(r, pick(r, []string{"zz_a.go", "zz_b.go", fmt.Sprintf("zz_%d.go", j)}), pkgOf[j]), cands...)
		}
		for _, n := range cands {
			if !used[dirOf[j]+"/"+n] {
				nameOf[j] = n
				break
			}
		}
		used[dirOf[j]+"/"+nameOf[j]] = true
	}
	var h hist.History
	feats := map[string]bool{}
	for j := 0; j < k; j++ {
		paths := c09Some(r, pool, 1+r.Intn(4))
		jh, _ := FileSetup(r, j, SetupOpts{Paths: paths, HintPool: c09Hints})
		// the constructor drawn by FileSetup, with the package name of the layout
		switch jh[0].Kind {
		case "newfile":
			jh[0].A = pkgOf[j]
		default:
			jh[0] = hist.Op{Kind: "newfilepathname", F: j, A: jh[0].A, B: pkgOf[j]}
			feats["some-job:localpath"] = true
		}
		nf := r.Intn(3) == 0
		kind := pick(r, []string{"refs", "decls", "decls"})
		if r.Intn(12) == 0 {
			kind = "random" // mostly not Go: saved as it is under NoFormat, a format error (and no file) otherwise
			nf = r.Intn(4) != 0
		}
		feats["some-job:body="+kind] = true
		for _, st := range c09Body(r, kind, paths, 1+r.Intn(4)) {
			jh = append(jh, hist.Op{Kind: "fadd", F: j, Code: st})
		}
		// the sources of two jobs never coincide by accident
		jh = append(jh, hist.Op{Kind: "fadd", F: j, Code: c09VarInt(fmt.Sprintf("ZJob%d", j), 1000*j+r.Intn(1000))})
		jh = append(jh, hist.Op{Kind: "noformat", F: j, Flag: nf})
		if nf {
			feats["some-job:noformat"] = true
		}
		if r.Intn(6) == 0 {
			jh = append(jh, hist.Op{Kind: "render", F: j})
			feats["some-job:warmup-render"] = true
		}
		jh = append(jh, hist.Op{Kind: "save", F: j, A: dirOf[j] + "/" + nameOf[j]})
		h = append(h, jh...)
	}
	info := &c09SaveInfo{Rounds: tier(t, 60, 120)}
	c := &Case{Hist: h, Stream: "concurrent-save", Meta: map[string]interface{}{"c09save": info, "savepath": info.savePath, "seed": r.Int63(), "tier": t}}
	// measured on the implementation (when the case is judged, see c09Lazy): what every File renders
	files, jobs := C09Jobs(h)
	c09Lazy(c, func(c *Case) {
		srcs := map[string]bool{}
		okJobs := 0
		more := map[string]bool{}
		for _, f := range files {
			if o := c09SaveWant(jobs[f]); o.Kind == "write" {
				okJobs++
				srcs[o.Out] = true
			} else {
				more["some-job:"+o.Kind] = true
			}
		}
		c.NonTrivial = okJobs >= 2 && len(srcs) >= 2
		c.Tags = append(c.Tags, sortedKeys(more)...)
	})
	sameDir, samePkg := map[string]int{}, map[string]int{}
	for j := 0; j < k; j++ {
		sameDir[dirOf[j]]++
		samePkg[dirOf[j]+"\x00"+pkgOf[j]]++
	}
	maxOf := func(m map[string]int) int {
		mx := 0
		for _, n := range m {
			if n > mx {
				mx = n
			}
		}
		return mx
	}
	names := "plain"
	if tempish {
		names = "tempish"
	}
	c.Tags = append([]string{"concurrent-save", "layout=" + layout, "names=" + names, "goroutines=" + c07Bucket(k, 2, 4, 8, 16),
		fmt.Sprintf("rounds=%d", info.Rounds), "barrier=before-build+before-save", "gomaxprocs=2|>=4",
		"files-in-one-dir=" + c07Bucket(maxOf(sameDir), 1, 2, 4, 8), "same-package-in-one-dir=" + c07Bucket(maxOf(samePkg), 1, 2, 4, 8)}, sortedKeys(feats)...)
	return c
}

func c09VarInt(name string, v int) *term.Stmt {
	return term.S(term.Named("Var"), term.Id(name), term.Op("="), term.Lit(v))
}

// c09SaveJob: the part of a job before its save, the file index and the symbolic target.
type c09SaveJob struct {
	F   int
	Pre hist.History
	Sym string
}

func c09SaveJobs(h hist.History) []c09SaveJob {
	files, jobs := C09Jobs(h)
	var out []c09SaveJob
	for _, f := range files {
		jh := jobs[f]
		for i, op := range jh {
			if op.Kind == "save" {
				out = append(out, c09SaveJob{F: f, Pre: jh[:i:i], Sym: op.A})
				break
			}
		}
	}
	return out
}

// c09SaveWant: what the File of a job renders into a buffer (File.Render instead of the Save).
func c09SaveWant(job hist.History) hist.Obs {
	var h hist.History
	for _, op := range job {
		switch op.Kind {
		case "save":
			h = append(h, hist.Op{Kind: "render", F: op.F})
			obs := c09ExecSafe(c09Fresh(h))
			if len(obs) == 0 {
				return hist.Obs{Kind: "bad", Msg: "no observation"}
			}
			return obs[len(obs)-1]
		default:
			h = append(h, op)
		}
	}
	return hist.Obs{Kind: "bad", Msg: "job without save"}
}

// c09SaveOutcome: what one Save did.
type c09SaveOutcome struct {
	Err     string // "" = nil; "fmterr" = the format error; otherwise the error text
	Builder string // panic while building, "" otherwise
}

// c09Tree reads a directory tree: relative path -> content of every regular file, "<dir>" for
// directories, "<other>" for anything else.
func c09Tree(root string) (map[string]string, error) {
	out := map[string]string{}
	err := filepath.Walk(root, func(path string, fi os.FileInfo, err error) error {
		if err != nil {
			return err
		}
		rel, _ := filepath.Rel(root, path)
		if rel == "." {
			return nil
		}
		switch {
		case fi.IsDir():
			out[filepath.ToSlash(rel)] = "<dir>"
		case fi.Mode().IsRegular():
			b, err := os.ReadFile(path)
			if err != nil {
				return err
			}
			out[filepath.ToSlash(rel)] = string(b)
		default:
			out[filepath.ToSlash(rel)] = "<other>"
		}
		return nil
	})
	return out, err
}

// c09SaveRound runs the jobs into a fresh tree: sequentially (mode "sequential"), or one
// goroutine per job released together before anything is built ("before-build") or when every
// File is complete ("before-save").
func c09SaveRound(jobs []c09SaveJob, mode string, procs int) (outs []c09SaveOutcome, tree map[string]string, err error) {
	root, err := os.MkdirTemp("", "verif-c09-save-")
	if err != nil {
		return nil, nil, err
	}
	defer os.RemoveAll(root)
	for _, j := range jobs {
		if err := os.MkdirAll(filepath.Dir(filepath.Join(root, filepath.FromSlash(j.Sym))), 0755); err != nil {
			return nil, nil, err
		}
	}
	if procs > 0 {
		old := runtime.GOMAXPROCS(procs)
		defer runtime.GOMAXPROCS(old)
	}
	outs = make([]c09SaveOutcome, len(jobs))
	var ready, done sync.WaitGroup
	start := make(chan struct{})
	one := func(i int, wait func()) {
		j := jobs[i]
		defer func() {
			if r := recover(); r != nil {
				outs[i].Builder = fmt.Sprint(r)
			}
		}()
		if mode == "before-build" {
			wait()
		}
		w := hist.NewWorld()
		w.Exec(c09Fresh(j.Pre))
		f := w.Files[j.F]
		if mode == "before-save" {
			wait()
		}
		if err := c09SaveFile(f, filepath.Join(root, filepath.FromSlash(j.Sym))); err != nil {
			outs[i].Err = err.Error()
			if strings.HasPrefix(outs[i].Err, "Error ") && strings.Contains(outs[i].Err, " while formatting source:\n") {
				outs[i].Err = "fmterr"
			}
		}
	}
	if mode == "sequential" {
		for i := range jobs {
			one(i, func() {})
		}
	} else {
		ready.Add(len(jobs))
		done.Add(len(jobs))
		for i := range jobs {
			go func(i int) {
				defer done.Done()
				waited := false
				wait := func() { waited = true; ready.Done(); <-start }
				defer func() {
					if !waited { // a panic before the barrier must not block the others
						ready.Done()
					}
				}()
				one(i, wait)
			}(i)
		}
		ready.Wait()
		close(start)
		done.Wait()
	}
	tree, err = c09Tree(root)
	return outs, tree, err
}

func c09Clip(s string) string {
	if len(s) > 160 {
		return s[:160] + "..."
	}
	return s
}

// c09SaveJudge decides one run against what every File renders (want, per job).
func c09SaveJudge(jobs []c09SaveJob, want []hist.Obs, outs []c09SaveOutcome, tree, seqTree map[string]string) string {
	whose := func(content string) string {
		for i, w := range want {
			if w.Kind == "write" && w.Out == content {
				return fmt.Sprintf(" - that is the source of the File of job %d (%s)", jobs[i].F, jobs[i].Sym)
			}
		}
		return ""
	}
	for i, j := range jobs {
		what := fmt.Sprintf("job %d (Save to %s): ", j.F, j.Sym)
		o := outs[i]
		if o.Builder != "" {
			return what + "panic: " + o.Builder
		}
		switch want[i].Kind {
		case "write":
			if o.Err != "" {
				return what + "Save failed although nothing is wrong with the File or the directory: " + o.Err
			}
			got, ok := tree[j.Sym]
			if !ok {
				return what + "Save returned nil but the file does not exist after all jobs are done"
			}
			if got != want[i].Out {
				return fmt.Sprintf("%sthe saved file does not hold the source of its own File:\n   holds %q%s\n   want  %q", what, c09Clip(got), whose(got), c09Clip(want[i].Out))
			}
		case "fmterr":
			if o.Err != "fmterr" {
				return fmt.Sprintf("%sthe File does not format (File.Render returns the format error), Save returned %q", what, o.Err)
			}
			if got, ok := tree[j.Sym]; ok {
				return fmt.Sprintf("%sSave returned the format error but the target exists: %q%s", what, c09Clip(got), whose(got))
			}
		default:
			return what + "harness: the File of this job neither renders nor fails to format: " + want[i].String()
		}
	}
	if seqTree != nil {
		var ks []string
		for k := range tree {
			ks = append(ks, k)
		}
		for k := range seqTree {
			if _, ok := tree[k]; !ok {
				ks = append(ks, k)
			}
		}
		sort.Strings(ks)
		for _, k := range ks {
			a, inSeq := seqTree[k]
			b, inNow := tree[k]
			switch {
			case !inSeq:
				return fmt.Sprintf("the directory tree holds %s (%q%s), which does not exist when the same Files are saved one after another", k, c09Clip(b), whose(b))
			case !inNow:
				return fmt.Sprintf("%s exists when the same Files are saved one after another and is missing now", k)
			case a != b:
				return fmt.Sprintf("%s differs from what it holds when the same Files are saved one after another:\n   now  %q\n   then %q", k, c09Clip(b), c09Clip(a))
			}
		}
	}
	return ""
}

// c09SaveOracle: see the comment at the top of the file.
func c09SaveOracle(c *Case, got []hist.Obs) string {
	info, _ := c.Meta["c09save"].(*c09SaveInfo)
	if info == nil {
		return "C09: concurrent-save case without its info"
	}
	defer info.cleanup()
	files, jobsOf := C09Jobs(c.Hist)
	base, ok := c09Split(c.Hist, got)
	if !ok {
		return fmt.Sprintf("%d observations for a history that makes %d", len(got), c09CountObs(c.Hist))
	}
	jobs := c09SaveJobs(c.Hist)
	if len(jobs) < 1 {
		return ""
	}
	want := make([]hist.Obs, len(jobs))
	for i, j := range jobs {
		want[i] = c09SaveWant(jobsOf[j.F])
	}
	// the main run (sequential, through hist.World.save, which reads the file back at once)
	for i, j := range jobs {
		obs := base[j.F]
		if len(obs) == 0 {
			return fmt.Sprintf("job %d produced nothing", j.F)
		}
		o := obs[len(obs)-1]
		what := fmt.Sprintf("sequential run, job %d (Save to %s): ", j.F, j.Sym)
		switch want[i].Kind {
		case "write":
			if o.Kind != "save" || o.Failed {
				return what + "Save did not succeed: " + o.String()
			}
			if o.Out != want[i].Out {
				return fmt.Sprintf("%sthe saved file does not hold the source of its own File:\n   holds %q\n   want  %q", what, c09Clip(o.Out), c09Clip(want[i].Out))
			}
		case "fmterr":
			if o.Kind != "fmterr" || o.Out != want[i].Out {
				return what + "File.Render returns a format error, Save shows " + o.String()
			}
		}
	}
	_ = files
	// once more sequentially in a tree of its own: the reference for the entries of the tree
	outs, seqTree, err := c09SaveRound(jobs, "sequential", 0)
	if err != nil {
		return "harness: cannot run the saves: " + err.Error()
	}
	if d := c09SaveJudge(jobs, want, outs, seqTree, nil); d != "" {
		return "Files saved one after another: " + d
	}
	for round := 0; round < info.Rounds; round++ {
		mode := "before-build"
		if round%2 == 1 {
			mode = "before-save"
		}
		procs := runtime.GOMAXPROCS(0)
		if procs < 4 {
			procs = 4
		}
		if round%4 == 3 {
			procs = 2
		}
		outs, tree, err := c09SaveRound(jobs, mode, procs)
		if err != nil {
			return "harness: cannot run the saves: " + err.Error()
		}
		if d := c09SaveJudge(jobs, want, outs, tree, seqTree); d != "" {
			return fmt.Sprintf("%d independent Files saved by %d goroutines at the same time (round %d of %d, barrier %s, GOMAXPROCS %d): %s", len(jobs), len(jobs), round+1, info.Rounds, mode, procs, d)
		}
	}
	return ""
}

// c09SaveCases: quick 30 job sets x 60 rounds, thorough 300 x 120.
func c09SaveCases(r *rand.Rand, t string) []*Case {
	var out []*Case
	for i := tier(t, 30, 300); i > 0; i-- {
		out = append(out, c09SaveCase(r, t))
	}
	return out
}

// c09SaveShrink: drop a whole job (two stay), drop one added statement.
func c09SaveShrink(c *Case) []*Case {
	var out []*Case
	mk := func(h hist.History) {
		out = append(out, &Case{Hist: h, Stream: c.Stream, Tags: c.Tags, NonTrivial: c.NonTrivial})
	}
	files, _ := C09Jobs(c.Hist)
	if len(files) > 2 {
		for _, f := range files {
			var h hist.History
			for _, op := range c.Hist {
				if op.F != f {
					h = append(h, op)
				}
			}
			mk(h)
		}
	}
	for i, op := range c.Hist {
		if op.Kind == "fadd" || op.Kind == "render" {
			mk(append(append(hist.History{}, c.Hist[:i]...), c.Hist[i+1:]...))
		}
	}
	return out
}
