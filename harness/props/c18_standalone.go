package props

import (
	"fmt"
	"math/rand"
	"path"
	"sort"

	"verifharness/hist"
	"verifharness/term"
)

// ---- stream "standalone-sequence" of C18 ---------------------------------------------------------
//
// SEQUENCES of renders of values that are not part of any File, in ONE process: Statement.Render,
// Group.Render, Statement.GoString and fmt's %#v (which calls GoString and recovers its panics).
// Such a render has no import block: the only name a reader can resolve a standard-library
// qualifier with is the name of the package clause, so every standalone output must refer to a
// std path by its real name - whatever was rendered on its own before, and however that
// render ended:
//
//	ok           a valid fragment
//	fmterr       the reference, then an incomplete expression: go/format rejects the text after
//	             the path has been registered (GoString panics with that error)
//	panic        the reference, then Lit of an unsupported type: the render panics after the path
//	             has been registered (recovered by the caller, or by fmt inside %#v)
//	write-fault  the render succeeds but the writer fails (Render views only)
//
// The paths of later renders compete for the NAMES of the paths of earlier ones: the members of
// a collision group of GOROOT/src (math/rand, crypto/rand, math/rand/v2; text/template and
// html/template; ...), a user path whose last element is that name, and the same path again.
// Inside ONE fragment the referenced paths have pairwise distinct names (two same-named
// packages in one fragment cannot both be written by their real name, and a fragment cannot
// carry an alias: outside the property).
//
// The model renders every element of the line with a File of its own ((rplain ..)); the
// implementation runs the real entry points one after the other in this process.  Compare:
// every observation (the comparison goes on after a panic: no state is shared).  Oracle: see
// c18StandaloneOracle.  NonTrivial: a render that failed is followed by a render of a different
// path with the same name.
type c18saStep struct {
	view  string // render | group-render | gostring | verb
	end   string // ok | fmterr | panic | write-fault
	paths []int
	st    term.Node
}

type c18saMeta struct {
	Paths []string
	Steps []c18saStep
}

// c18saName: the name a path competes for.
func c18saName(p string) string {
	if n, ok := GorootName(p); ok {
		return n
	}
	return path.Base(p)
}

func c18saBuild(paths []string, steps []c18saStep, tags []string, nontrivial bool) *Case {
	z := term.NewSer()
	var h hist.History
	ctr := 0
	for i := range steps {
		s := &steps[i]
		var args []term.Node
		for _, j := range s.paths {
			ctr++
			args = append(args, term.S(term.Qual(paths[j], fmt.Sprintf("V%d_%d", j, ctr))))
		}
		// _ = f(q.V, ...)   /   x := q.V +   /   _ = f(q.V, ..., Lit(struct{}{}))
		var body *term.Stmt
		switch s.end {
		case "fmterr":
			items := []term.Node{term.Id("x"), term.Op(":=")}
			for k, a := range args {
				if k > 0 {
					items = append(items, term.Op("+"))
				}
				items = append(items, a.(*term.Stmt).Items[0])
			}
			body = term.S(append(items, term.Op("+"))...)
		case "panic":
			body = term.S(term.Id("_"), term.Op("="), term.Id("f"), term.G("Call", append(args, term.S(term.Lit(struct{}{})))...))
		default:
			body = term.S(term.Id("_"), term.Op("="), term.Id("f"), term.G("Call", args...))
		}
		fault := s.end == "write-fault"
		var op hist.Op
		switch s.view {
		case "group-render":
			grp := term.G("Block", body) // Group.Render of a real *Group (handed out by BlockFunc)
			s.st = grp
			run := hist.Op{Kind: "rplain", Code: grp, Flag: fault}
			op = hist.Op{Kind: "ext", A: fmt.Sprintf("(rplain %s %d)", z.Sexp(grp), b2i(fault)), Run: func() hist.Obs { return c08fOne(hist.NewWorld(), run) }}
		case "gostring", "verb":
			s.st = body
			verb := s.view == "verb"
			op = hist.Op{Kind: "ext", A: fmt.Sprintf("(rplain %s 0)", z.Sexp(body)), Run: func() hist.Obs {
				st := term.NewBuilder().Stmt(body)
				if verb {
					return c08fGoString(func() string { return fmt.Sprintf("%#v", st) })
				}
				return c08fGoString(func() string { return st.GoString() })
			}}
		default:
			s.st = body
			run := hist.Op{Kind: "rplain", Code: body, Flag: fault}
			op = hist.Op{Kind: "ext", A: fmt.Sprintf("(rplain %s %d)", z.Sexp(body), b2i(fault)), Run: func() hist.Obs { return c08fOne(hist.NewWorld(), run) }}
		}
		h = append(h, op)
	}
	sort.Strings(tags)
	return &Case{Hist: h, Stream: "standalone-sequence", NonTrivial: nontrivial, Tags: tags,
		Meta: map[string]interface{}{"c18sa": &c18saMeta{Paths: paths, Steps: steps}}}
}

func b2i(b bool) int {
	if b {
		return 1
	}
	return 0
}

var c18saViews = []string{"render", "group-render", "gostring", "verb"}
var c18saFails = []string{"fmterr", "panic", "write-fault"}

func c18saTags(paths []string, steps []c18saStep) (tags []string, nontrivial bool) {
	set := map[string]bool{}
	failedNames := map[string]map[string]bool{} // name -> paths of failed renders so far
	for _, s := range steps {
		set["view="+s.view] = true
		set["end="+s.end] = true
		for _, j := range s.paths {
			n := c18saName(paths[j])
			for p := range failedNames[n] {
				if p != paths[j] {
					_, std := GorootName(paths[j])
					if std {
						nontrivial = true
						set["std-after-failed-render-of-same-named-path"] = true
					} else {
						set["user-after-failed-render-of-same-named-path"] = true
					}
				} else {
					set["same-path-after-its-failed-render"] = true
				}
			}
		}
		if s.end != "ok" {
			for _, j := range s.paths {
				n := c18saName(paths[j])
				if failedNames[n] == nil {
					failedNames[n] = map[string]bool{}
				}
				failedNames[n][paths[j]] = true
			}
			set["after="+s.end] = true
		}
	}
	set[fmt.Sprintf("renders=%d", len(steps))] = true
	return sortedKeys(set), nontrivial
}

func c18StandaloneCases(r *rand.Rand, t string) []*Case {
	var out []*Case
	groups := collisionGroups()
	var keys []string
	for k := range groups {
		keys = append(keys, k)
	}
	sort.Strings(keys)
	view := func(end string) string {
		for {
			v := c18saViews[r.Intn(len(c18saViews))]
			if end == "write-fault" && (v == "gostring" || v == "verb") {
				continue // GoString has no writer
			}
			return v
		}
	}
	// 1. every ordered pair of every collision group: a failed render of the first, then the second
	//    (quick: one failure kind per pair, in rotation; thorough: all three, and every view pair)
	n := 0
	for _, k := range keys {
		g := groups[k]
		for _, a := range g {
			for _, b := range g {
				if a == b {
					continue
				}
				for fi, fail := range c18saFails {
					if t != "thorough" && fi != n%len(c18saFails) {
						continue
					}
					paths := []string{a, b}
					type vp struct{ v1, v2 string }
					var vps []vp
					if t == "thorough" {
						for _, v1 := range c18saViews {
							if fail == "write-fault" && (v1 == "gostring" || v1 == "verb") {
								continue
							}
							for _, v2 := range c18saViews {
								vps = append(vps, vp{v1, v2})
							}
						}
					} else {
						vps = []vp{{view(fail), view("ok")}}
					}
					for _, v := range vps {
						steps := []c18saStep{{view: v.v1, end: fail, paths: []int{0}}, {view: v.v2, end: "ok", paths: []int{1}}}
						tags, nt := c18saTags(paths, steps)
						out = append(out, c18saBuild(paths, steps, append(tags, "pair-of-collision-group", "collide="+k), nt))
					}
				}
				n++
			}
		}
	}
	// 2. random sequences of 2..6 renders over one name: the std members of a group, user paths
	//    that end in the name, plus unrelated paths next to them in the same fragment
	pkgs := StdPackages()
	for i, m := 0, tier(t, 800, 40000); i < m; i++ {
		var paths []string
		var name string
		if r.Intn(3) > 0 {
			k := keys[r.Intn(len(keys))]
			paths = append(paths, groups[k]...)
			name = k
		} else {
			sp := pkgs[r.Intn(len(pkgs))]
			paths = append(paths, sp.Path)
			name = sp.Name
		}
		paths = append(paths, "example.com/u/"+name, "other.org/v/"+name)
		nsame := len(paths)
		for _, p := range []string{"fmt", "os", "example.com/u/zed"} {
			if c18saName(p) != name {
				paths = append(paths, p)
			}
		}
		var steps []c18saStep
		for k, ns := 0, 2+r.Intn(5); k < ns; k++ {
			end := "ok"
			if r.Intn(2) == 0 {
				end = c18saFails[r.Intn(len(c18saFails))]
			}
			// one path of the name (names inside one fragment are pairwise distinct), 0..2 others
			ps := []int{r.Intn(nsame)}
			used := map[string]bool{c18saName(paths[ps[0]]): true}
			for j := nsame; j < len(paths); j++ {
				if nm := c18saName(paths[j]); r.Intn(3) == 0 && !used[nm] {
					used[nm] = true
					ps = append(ps, j)
				}
			}
			r.Shuffle(len(ps), func(a, b int) { ps[a], ps[b] = ps[b], ps[a] })
			steps = append(steps, c18saStep{view: view(end), end: end, paths: ps})
		}
		tags, nt := c18saTags(paths, steps)
		out = append(out, c18saBuild(paths, steps, append(tags, "random-sequence"), nt))
	}
	return out
}

func c18StandaloneCompare(exp, got []hist.Obs) string {
	if len(exp) != len(got) {
		return fmt.Sprintf("observation count differs: model %d, implementation %d", len(exp), len(got))
	}
	for i := range exp {
		if exp[i].Kind == "panic" && got[i].Kind == "panic" {
			continue // standalone renders share nothing: the comparison goes on
		}
		if !hist.SameObs(exp[i], got[i]) {
			return fmt.Sprintf("observation %d differs:\n  model: %s\n  impl:  %s", i, exp[i], got[i])
		}
	}
	return ""
}

// c18StandaloneOracle: every render ends the way its tree says (a valid fragment is written, an
// incomplete one is a format error, Lit(struct{}{}) panics, an injected fault comes back), and in
// every fragment that was written each standard-library path is qualified by the name of its
// package clause in GOROOT/src - by nothing else: a fragment has no import block that could
// provide another name.
func c18StandaloneOracle(m *c18saMeta, got []hist.Obs) string {
	if len(got) != len(m.Steps) {
		return fmt.Sprintf("expected %d observations, got %d", len(m.Steps), len(got))
	}
	rc := &RefCase{Paths: m.Paths}
	for i, s := range m.Steps {
		o := got[i]
		what := fmt.Sprintf("standalone render %d of %d (%s)", i+1, len(m.Steps), s.view)
		if o.Kind == "bad" {
			return what + ": " + o.String()
		}
		var text string
		switch s.end {
		case "ok":
			if o.Kind != "write" || o.Failed {
				return fmt.Sprintf("%s of a valid fragment was not written: %s", what, o)
			}
			text = o.Out
		case "write-fault":
			if o.Kind != "write" || !o.Failed {
				return fmt.Sprintf("%s with a failing writer did not return the writer's error: %s", what, o)
			}
			continue
		case "fmterr":
			if o.Kind != "fmterr" {
				return fmt.Sprintf("%s of an incomplete expression is not a format error: %s", what, o)
			}
			continue
		case "panic":
			if o.Kind != "panic" {
				return fmt.Sprintf("%s of Lit(struct{}{}) did not panic: %s", what, o)
			}
			continue
		}
		src, err := c08Wrap(text)
		if err != nil {
			return fmt.Sprintf("%s: the output does not parse: %v\n%q", what, err, text)
		}
		qm, err := rc.QualifierMap(src)
		if err != nil {
			return fmt.Sprintf("%s: %v\n%q", what, err, text)
		}
		for _, j := range s.paths {
			p := m.Paths[j]
			q, ok := qm[p]
			if !ok {
				return fmt.Sprintf("%s: the reference to %q is missing\n%q", what, p, text)
			}
			if real, std := GorootName(p); std && q != real {
				var before []string
				for _, e := range m.Steps[:i] {
					for _, k := range e.paths {
						before = append(before, fmt.Sprintf("%s(%s: %s)", m.Paths[k], e.view, e.end))
					}
				}
				return fmt.Sprintf("%s: standard-library path %q (package clause in GOROOT/src: %s) is qualified by %s, a name nothing provides (a fragment has no import block); rendered on their own before: %v\n%q", what, p, real, q, before, text)
			}
		}
	}
	return ""
}
