package props

import (
	"math/rand"
	"testing"

	"verifharness/hist"
)

func TestC09OverRelationAndJudge(t *testing.T) {
	for _, x := range [][3]string{{"abc", "abc", "identical"}, {"abcd", "abc", "earlier-longer:new-is-its-prefix"}, {"xbcd", "abc", "earlier-longer"},
		{"ab", "abc", "earlier-shorter:it-is-prefix-of-new"}, {"xb", "abc", "earlier-shorter"}, {"abd", "abc", "same-length-other-bytes"}} {
		if got := c09OverRelation(x[0], x[1]); got != x[2] {
			t.Fatalf("relation(%q, %q) = %s, want %s", x[0], x[1], got, x[2])
		}
	}
	jobs := []c09SaveJob{{F: 0, Sym: "d0/a.go"}, {F: 1, Sym: "d0/a.go"}}
	want := []hist.Obs{{Kind: "write", Out: "package p\n\nvar A = 1\n\nvar B = 2\n"}, {Kind: "write", Out: "package p\n\nvar A = 1\n"}}
	good := map[int][]hist.Obs{0: {{Kind: "save", Out: want[0].Out}}, 1: {{Kind: "save", Out: want[1].Out}}}
	if d := c09OverJudge("", jobs, want, good); d != "" {
		t.Fatalf("good run rejected: %s", d)
	}
	// the tail of the earlier File survives / the file was not rewritten / the Save failed
	for _, bad := range []hist.Obs{{Kind: "save", Out: want[0].Out}, {Kind: "save", Out: want[1].Out + "\nvar B = 2\n"}, {Kind: "save", Failed: true}} {
		run := map[int][]hist.Obs{0: good[0], 1: {bad}}
		if d := c09OverJudge("", jobs, want, run); d == "" {
			t.Fatalf("bad run accepted: %s", bad.String())
		}
	}
}

func TestC09OverAndFailedUnchanged(t *testing.T) {
	r := rand.New(rand.NewSource(5))
	nontrivial := 0
	var cases []*Case
	for i := 0; i < 30; i++ {
		cases = append(cases, c09OverCase(r, "quick"))
	}
	cases = append(cases, c09FailedCase(r, "quick", 20), c09FailedCase(r, "quick", 70))
	for _, c := range cases {
		w := hist.NewWorld()
		w.SavePath = c.Meta["savepath"].(func(string) string)
		got := w.Exec(c.Hist)
		if d := (c09{}).Oracle(c, got); d != "" {
			t.Fatalf("oracle rejects the unchanged implementation: %s\n%s", d, c.Hist.Sexp())
		}
		if c.NonTrivial {
			nontrivial++
		}
	}
	if nontrivial < 15 {
		t.Fatalf("only %d of 32 cases are non-trivial", nontrivial)
	}
	// a valid File that shows something else after the failures is rejected
	c := c09FailedCase(r, "quick", 25)
	w := hist.NewWorld()
	w.SavePath = c.Meta["savepath"].(func(string) string)
	got := w.Exec(c.Hist)
	for i := len(got) - 1; i >= 0; i-- {
		if got[i].Kind == "write" {
			got[i].Out += "// leftover\n"
			break
		}
	}
	if d := (c09{}).Oracle(c, got); d == "" {
		t.Fatal("a valid File that renders differently after 25 failed renders is accepted")
	}
}
