package props

import (
	"math/rand"
	"strings"
	"testing"

	"verifharness/hist"
)

// The unchanged implementation reads the caller's map at render time: every live-map and
// boundary case is accepted.
func TestC17LiveHoldsOnTheImplementation(t *testing.T) {
	r := rand.New(rand.NewSource(17))
	var cases []*Case
	for i := 0; i < 300; i++ {
		cases = append(cases, c17LiveCase(r))
	}
	cases = append(cases, c17BoundaryCases(r, 90)...)
	nt, between, before := 0, 0, 0
	for _, c := range cases {
		got := ExecFresh(c.Hist)
		if m := (c17{}).Oracle(c, got); m != "" {
			t.Fatalf("oracle rejects the implementation: %s\n%s", m, c.Hist.Sexp())
		}
		if c.NonTrivial {
			nt++
		}
		for _, tg := range c.Tags {
			if tg == "live:mutation-between-renders" {
				between++
			}
			if tg == "live:mutation-before-first-render" {
				before++
			}
		}
	}
	if nt < 300 || between < 150 || before < 150 {
		t.Fatalf("non-trivial %d, mutation between renders %d, before the first render %d", nt, between, before)
	}
}

func c17TestSpec(init [][2]string, steps ...lvStep) (*Case, *lvSpec) {
	sp := &lvSpec{FileOps: hist.History{{Kind: "newfile", F: 0, A: "p"}}, Maps: [][][2]string{init}}
	fs := []c17Field{{"F0", 0}}
	sp.Roots = append(sp.Roots, c17Struct(sp, "T", fs, nil))
	sp.Steps = steps
	return c17LiveFinish(sp, [][]c17Field{fs}, "live-map", nil), sp
}

// Hand-made outputs of an implementation that looks at the map when Tag(m) is called.
func TestC17LiveOracleOnHandMadeOutputs(t *testing.T) {
	file := func(tag string) []hist.Obs {
		if tag != "" {
			tag = " " + tag
		}
		return []hist.Obs{{Kind: "write", Out: "package p\n\ntype T struct {\n\tF0 string" + tag + "\n}\n"}}
	}
	render := lvStep{Kind: "render", Way: "file"}
	// emptied after Tag(m)
	c, _ := c17TestSpec([][2]string{{"json", "a"}}, lvStep{Kind: "mut", Clear: true}, render)
	if m := (c17{}).Oracle(c, file("`json:\"a\"`")); !strings.Contains(m, "empty map rendered a tag") {
		t.Fatalf("stale tag of an emptied map accepted: %q", m)
	}
	if m := (c17{}).Oracle(c, file("``")); !strings.Contains(m, "empty map rendered a tag") {
		t.Fatalf("empty literal for an emptied map accepted: %q", m)
	}
	if m := (c17{}).Oracle(c, file("")); m != "" {
		t.Fatalf("correct output rejected: %s", m)
	}
	// filled after Tag(m)
	c, _ = c17TestSpec(nil, lvStep{Kind: "mut", Put: [][2]string{{"json", "name,omitempty"}}}, render)
	if m := (c17{}).Oracle(c, file("")); !strings.Contains(m, "tag missing") {
		t.Fatalf("missing tag of a map filled later accepted: %q", m)
	}
	if m := (c17{}).Oracle(c, file("`json:\"name,omitempty\"`")); m != "" {
		t.Fatalf("correct output rejected: %s", m)
	}
	// a key deleted and one added between two renders: keys of the first render, values of now
	c, _ = c17TestSpec([][2]string{{"a", "1"}, {"b", "2"}}, render, lvStep{Kind: "mut", Del: []string{"b"}, Put: [][2]string{{"0", "z"}}}, render)
	first := file("`a:\"1\" b:\"2\"`")[0]
	if m := (c17{}).Oracle(c, []hist.Obs{first, file("`a:\"1\" b:\"\"`")[0]}); !strings.Contains(m, "render 1") {
		t.Fatalf("keys of the first render accepted in the second: %q", m)
	}
	if m := (c17{}).Oracle(c, []hist.Obs{first, first}); !strings.Contains(m, "render 1") {
		t.Fatalf("the first render repeated after the map changed: accepted: %q", m)
	}
	if m := (c17{}).Oracle(c, []hist.Obs{first, file("`0:\"z\" a:\"1\"`")[0]}); m != "" {
		t.Fatalf("correct output rejected: %s", m)
	}
	// the boundary between key and value in the wrong place
	c = tagCase([][2]string{{"d", "bname"}}, false, "boundary")
	if m := (c17{}).Oracle(c, file("`db:\"name\"`")); !strings.Contains(m, `key "d" not found`) {
		t.Fatalf("db:\"name\" accepted for d:\"bname\": %q", m)
	}
	c = tagCase([][2]string{{"k", "ey"}, {"ke", "y"}}, false, "boundary")
	if m := (c17{}).Oracle(c, file("`k:\"ey\" k:\"ey\"`")); m == "" {
		t.Fatalf("k:\"ey\" k:\"ey\" accepted for k:\"ey\" ke:\"y\"")
	}
}

// The implementation side really hands the harness's own map to Tag: after a change of the
// map the SAME values render the new content (if a copy had been handed over, model and
// implementation would disagree on the unchanged tree).
func TestC17LiveValuesAreRetained(t *testing.T) {
	c, _ := c17TestSpec(nil, lvStep{Kind: "render", Way: "plain"}, lvStep{Kind: "mut", Put: [][2]string{{"json", "a"}}}, lvStep{Kind: "render", Way: "plain"},
		lvStep{Kind: "mut", Clear: true}, lvStep{Kind: "render", Way: "gostring"})
	got := ExecFresh(c.Hist)
	if len(got) != 3 || strings.Contains(got[0].Out, "json") || !strings.Contains(got[1].Out, "`json:\"a\"`") || strings.Contains(got[2].Out, "json") {
		t.Fatalf("unexpected renders: %v", got)
	}
}
