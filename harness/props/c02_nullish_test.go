package props

import (
	"math/rand"
	"testing"

	"verifharness/hist"
)

// The tags of the nullish-items stream are honest: every case tagged ctx=valid renders without
// error on the implementation the test is built against (so its formatted output is compared
// with gofmt of the NoFormat twin by the oracle), the domain check holds for all of them, and
// the oracle accepts them; a hand-made non-null Dict beside an item is rejected by the domain
// check and its panic is rejected by the oracle.
func TestC02NullishStreamContextsAreValid(t *testing.T) {
	cases := c02NullishStream(rand.New(rand.NewSource(7)), "quick")
	valid, beside := 0, 0
	for _, c := range cases {
		w := hist.NewWorld()
		if cfg, ok := c.Meta["world"].(func(*hist.World)); ok {
			cfg(w)
		}
		got := w.Exec(c.Hist)
		for _, tg := range c.Tags {
			if tg == "dict-null-beside-items" {
				beside++
			}
		}
		if c.Meta["expect-valid"] == true {
			valid++
			if got[0].Kind != "write" {
				t.Errorf("a case tagged ctx=valid does not render: %v\n%s\n%s", c.Tags, c.Hist.Sexp(), got[0])
			}
		}
		if m := (c02{}).Oracle(c, got); m != "" {
			t.Errorf("oracle rejects %v: %s\n%s", c.Tags, m, c.Hist.Sexp())
		}
	}
	if valid < 3000 || beside < 30 {
		t.Errorf("only %d valid contexts and %d null Dicts beside other items of Values", valid, beside)
	}
}

func TestC02NullishDomainAndOracleReject(t *testing.T) {
	bad := (c02{}).Regressions()[1] // values-dict-plus-item-panics
	func() {
		defer func() {
			if recover() == nil {
				t.Errorf("the domain check accepts Values(Dict{a: 1}, Null())")
			}
		}()
		for _, op := range bad.Hist {
			if op.Kind == "fadd" {
				c02CheckDomain(op.Code)
			}
		}
	}()
	got := hist.NewWorld().Exec(bad.Hist)
	if m := (c02{}).Oracle(bad, got); m == "" {
		t.Errorf("the oracle accepts a panicking render")
	}
}
