package props

import (
	"fmt"
	"go/parser"
	"go/token"
	"math/rand"
	"sort"
	"strings"

	"verifharness/hist"
	"verifharness/term"
)

// C13, streams live-list and live-program: the nullness of a Tag and of a Dict is a property
// of the CALLER'S MAP AS IT IS WHEN THE CODE IS RENDERED (framework: c17_live.go).
//
// jennifer keeps the map handed to Tag(m), and a Dict is the caller's map.  A tag whose map is
// empty at render time is a null item - it contributes no text and NO SEPARATOR - whatever
// the map held when Tag(m) was called; a tag whose map has been filled since then is an item
// like any other.  The same holds for a Dict (null iff no pair with a non-null key and value).
//
//	live-list     one list construct (every variadic method, the Custom option sets, the
//	              statement chain) whose items are identifiers i<p> and 1..3 LIVE items:
//	              Tag(m) of a map of the harness (one map may sit in two positions), or a Dict
//	              of the harness; maps and Dicts start empty or filled; mutations (add, replace,
//	              delete, empty, refill) before the first render and between renders; rendered
//	              by File.Render of a NoFormat File (raw bytes) and sometimes by
//	              Statement.Render.  Oracle on the raw bytes of EVERY render: the text each
//	              non-null live item must have at that moment (written down here from the
//	              documentation: `k:"v" k2:"v2"` between backquotes, keys sorted; k:v resp. one
//	              k:v, per line for a Dict) is replaced by the item's name, then C13CheckList
//	              decides "exactly the remaining items, in order, with n-1 separators", the
//	              remaining items being the identifiers and the live items that are non-null
//	              AT THAT RENDER.
//	live-program  a formatted File of 1..4 declarations holding live tags (struct fields, a
//	              call argument) and live Dicts (composite and map literals), rendered 2..4
//	              times with mutations before and in between.
//
// Both streams: every render must equal, byte for byte, the render of a tree built from
// scratch at that moment in which the tags and Dicts that are empty then DO NOT OCCUR AT ALL
// and the others are ordinary literals (the property's "adding or removing them never changes
// the rendered code").

var c13LiveTagKeys = []string{"json", "db", "xml", "k", "yaml", "form"}

func c13LiveTagValue(r *rand.Rand) string {
	n := r.Intn(6)
	b := make([]byte, n)
	for i := range b {
		b[i] = byte('a' + r.Intn(26))
	}
	s := string(b)
	if r.Intn(4) == 0 {
		s += ",omitempty"
	}
	return s
}

// c13LiveTagText: the literal a tag renders to (values are lower-case words and commas, so
// quoting changes nothing and the whole literal fits between backquotes).
func c13LiveTagText(kv [][2]string) string {
	var parts []string
	for _, p := range kv { // sorted by key (lvSorted)
		parts = append(parts, p[0]+`:"`+p[1]+`"`)
	}
	return "`" + strings.Join(parts, " ") + "`"
}

// c13LiveDictText: what a Dict of identifier keys and identifier values renders to; "" and
// false when no pair survives (the Dict is null).
func c13LiveDictText(pairs []lvPair) (string, bool) {
	var lines []string
	for _, p := range pairs {
		if lvSurvives(p) {
			lines = append(lines, p.K.Items[0].(term.Tok).S+":"+p.V.Items[0].(term.Tok).S)
		}
	}
	sort.Strings(lines)
	switch len(lines) {
	case 0:
		return "", false
	case 1:
		return lines[0], true
	}
	return "\n" + strings.Join(lines, ",\n") + ",\n", true
}

// c13LivePos is one position of the list.
type c13LivePos struct {
	Kind string // real | tag | dict
	Idx  int    // tag: map; dict: dict
}

// c13LiveDictSteps draws mutations of dict idx over the fixed key statements keys.
func c13LiveDictSteps(r *rand.Rand, idx int, cur *[]lvPair, keys []*term.Stmt, val func() *term.Stmt, n int) []lvStep {
	var out []lvStep
	for ; n > 0; n-- {
		st := lvStep{Kind: "dmut", Idx: idx}
		in := map[*term.Stmt]bool{}
		for _, p := range *cur {
			in[p.K] = true
		}
		var present, absent []*term.Stmt
		for _, k := range keys {
			if in[k] {
				present = append(present, k)
			} else {
				absent = append(absent, k)
			}
		}
		switch c := r.Intn(10); {
		case len(present) == 0:
			for _, j := range r.Perm(len(absent))[:1+r.Intn(min3(3, len(absent)))] {
				st.DPut = append(st.DPut, lvPair{absent[j], val()})
			}
		case c < 3:
			st.Clear = true
		case c < 4:
			st.Clear = true
			for _, j := range r.Perm(len(keys))[:1+r.Intn(min3(3, len(keys)))] {
				st.DPut = append(st.DPut, lvPair{keys[j], val()})
			}
		case c < 6 && len(absent) > 0:
			st.DPut = []lvPair{{absent[r.Intn(len(absent))], val()}}
		case c < 8:
			st.DDel = []*term.Stmt{present[r.Intn(len(present))]}
			if len(present) > 1 && r.Intn(3) == 0 {
				st.DDel = append([]*term.Stmt{}, present...)
			}
		default:
			st.DPut = []lvPair{{present[r.Intn(len(present))], val()}}
		}
		*cur = lvApplyDict(*cur, st)
		out = append(out, st)
	}
	return out
}

// c13LiveObjects draws nm maps and nd dicts (initial content: empty with probability 1/2) and
// returns a function that appends n mutations of random objects to the spec.
func c13LiveObjects(r *rand.Rand, sp *lvSpec, nm, nd int, dictKeys func(d, j int) *term.Stmt, dictVal func() *term.Stmt) func(n int) {
	curM := make([]map[string]string, nm)
	for i := range curM {
		curM[i] = map[string]string{}
		if r.Intn(2) == 0 {
			for _, j := range r.Perm(len(c13LiveTagKeys))[:1+r.Intn(3)] {
				curM[i][c13LiveTagKeys[j]] = c13LiveTagValue(r)
			}
		}
		sp.Maps = append(sp.Maps, lvSorted(curM[i]))
	}
	curD := make([][]lvPair, nd)
	keysD := make([][]*term.Stmt, nd)
	for i := range curD {
		for j := 0; j < 4; j++ {
			keysD[i] = append(keysD[i], dictKeys(i, j))
		}
		if r.Intn(2) == 0 {
			for _, j := range r.Perm(4)[:1+r.Intn(3)] {
				curD[i] = append(curD[i], lvPair{keysD[i][j], dictVal()})
			}
		}
		sp.Dicts = append(sp.Dicts, append([]lvPair{}, curD[i]...))
	}
	val := func(string) string { return c13LiveTagValue(r) }
	return func(n int) {
		for ; n > 0; n-- {
			if k := r.Intn(nm + nd); k < nm {
				sp.Steps = append(sp.Steps, lvMapSteps(r, k, curM[k], c13LiveTagKeys, val, 1)...)
			} else {
				sp.Steps = append(sp.Steps, c13LiveDictSteps(r, k-nm, &curD[k-nm], keysD[k-nm], dictVal, 1)...)
			}
		}
	}
}

func c13LiveFinish(sp *lvSpec, stream string, extra []string, meta map[string]interface{}) *Case {
	h := lvBuild(sp)
	tags, changed := lvMeasure(sp)
	tags = append(tags, extra...)
	for _, sn := range sp.Snaps {
		tags = append(tags, "live:way="+sn.Way)
	}
	sort.Strings(tags)
	meta["kind"], meta["lv"] = "live", sp
	// non-trivial: at least one render shows a map or Dict holding something else than it held
	// when it was passed in
	return &Case{Hist: h, Stream: stream, Tags: uniqStrings(tags), NonTrivial: changed > 0, Meta: meta}
}

func c13LiveListCase(r *rand.Rand, cons []c13Cons) *Case {
	c := cons[r.Intn(len(cons))]
	stmtLevel := c.Method == "stmt"
	nReal := r.Intn(5)
	if nReal == 0 && r.Intn(3) > 0 {
		nReal = 1 + r.Intn(3)
	}
	nLive := 1 + r.Intn(3)
	sp := &lvSpec{FileOps: hist.History{{Kind: "newfile", F: 0, A: "p"}, {Kind: "noformat", F: 0, Flag: true}}}
	// which live positions are tags / dicts, which object each holds
	var live []c13LivePos
	nm, nd := 0, 0
	for i := 0; i < nLive; i++ {
		if r.Intn(3) == 0 {
			live = append(live, c13LivePos{"dict", nd})
			nd++
		} else if nm > 0 && r.Intn(3) == 0 {
			live = append(live, c13LivePos{"tag", r.Intn(nm)}) // a map that already sits in another position
		} else {
			live = append(live, c13LivePos{"tag", nm})
			nm++
		}
	}
	letters := "ABCD"
	mutate := c13LiveObjects(r, sp, nm, nd,
		func(d, j int) *term.Stmt { return term.S(term.Id(fmt.Sprintf("k%c%c", letters[d], letters[j]))) },
		func() *term.Stmt {
			if r.Intn(5) == 0 {
				return term.S(term.Null()) // the pair does not count
			}
			return term.S(term.Id("v" + string(letters[r.Intn(4)])))
		})
	// positions in random order
	pos := make([]c13LivePos, 0, nReal+nLive)
	for i := 0; i < nReal; i++ {
		pos = append(pos, c13LivePos{Kind: "real"})
	}
	pos = append(pos, live...)
	r.Shuffle(len(pos), func(a, b int) { pos[a], pos[b] = pos[b], pos[a] })
	var items []term.Node
	chain := &lvHost{St: &term.Stmt{}}
	for p, ps := range pos {
		switch {
		case ps.Kind == "real" && stmtLevel:
			chain.St.Items = append(chain.St.Items, term.Id(c13ItemName(p)))
		case ps.Kind == "real":
			items = append(items, term.S(term.Id(c13ItemName(p))))
		case stmtLevel:
			chain.Slots = append(chain.Slots, lvSlot{At: len(chain.St.Items), Kind: ps.Kind, Idx: ps.Idx})
			chain.St.Items = append(chain.St.Items, term.Null()) // placeholder
		default:
			// the item is a statement holding the live call, sometimes with Null() around it
			st := &term.Stmt{}
			if r.Intn(4) == 0 {
				st.Items = append(st.Items, term.Null())
			}
			at := len(st.Items)
			st.Items = append(st.Items, term.Null()) // placeholder
			if r.Intn(4) == 0 {
				st.Items = append(st.Items, term.Null())
			}
			sp.Hosts = append(sp.Hosts, &lvHost{St: st, Slots: []lvSlot{{At: at, Kind: ps.Kind, Idx: ps.Idx}}})
			items = append(items, st)
		}
	}
	switch {
	case stmtLevel:
		sp.Hosts = append(sp.Hosts, chain)
		sp.Roots = []*term.Stmt{chain.St}
	case c.Method == "Custom":
		sp.Roots = []*term.Stmt{term.S(term.Custom(c.Opts, items...))}
	default:
		sp.Roots = []*term.Stmt{term.S(term.G(c.Method, items...))}
	}
	way := func() string {
		if r.Intn(5) == 0 {
			return "plain"
		}
		return "file"
	}
	if r.Intn(4) > 0 {
		mutate(1 + r.Intn(2))
	}
	sp.Steps = append(sp.Steps, lvStep{Kind: "render", Way: way()})
	for k := 1 + r.Intn(3); k > 0; k-- {
		mutate(r.Intn(3))
		sp.Steps = append(sp.Steps, lvStep{Kind: "render", Way: way()})
	}
	extra := []string{"construct=" + c.Name, fmt.Sprintf("arity=%d", len(pos)), fmt.Sprintf("live:items=%d", nLive)}
	if nd > 0 {
		extra = append(extra, "live:dict-item")
	}
	if nm > 0 {
		extra = append(extra, "live:tag-item")
	}
	if nReal == 0 {
		extra = append(extra, "live:only-live-items")
	}
	return c13LiveFinish(sp, "live-list", extra, map[string]interface{}{"cons": c, "pos": pos})
}

func c13LiveProgramCase(r *rand.Rand) *Case {
	sp := &lvSpec{FileOps: hist.History{{Kind: "newfile", F: 0, A: "p"}}}
	nm, nd := 1+r.Intn(3), 1+r.Intn(2)
	strKeys := r.Intn(2) == 0
	mutate := c13LiveObjects(r, sp, nm, nd,
		func(d, j int) *term.Stmt {
			if d == 1 && strKeys {
				return term.S(term.Lit(string("abcd"[j])))
			}
			return term.S(term.Id(string("ABCD"[j])))
		},
		func() *term.Stmt {
			if r.Intn(6) == 0 {
				return term.S(term.Null())
			}
			return term.S(term.Lit(r.Intn(100)))
		})
	var pool []*term.Stmt
	var extra []string
	// a struct whose fields hold the maps (map 0 twice when there is room)
	{
		var fields []term.Node
		for i := 0; i < nm+1; i++ {
			idx := i % nm
			st := term.S(term.Id(string("ABCD"[i])), term.Named("Int"), term.Null())
			sp.Hosts = append(sp.Hosts, &lvHost{St: st, Slots: []lvSlot{{At: 2, Kind: "tag", Idx: idx}}})
			fields = append(fields, st)
		}
		fields = append(fields, term.S(term.Id("Z"), term.Named("Bool")))
		pool = append(pool, term.S(term.Named("Type"), term.Id("T"), term.G("Struct", fields...)))
		extra = append(extra, "live:site=struct-field")
	}
	// T{<dict 0>}
	{
		g := term.G("Values")
		st := term.S(term.Named("Var"), term.Id("_"), term.Op("="), term.Id("T"), g)
		sp.Hosts = append(sp.Hosts, &lvHost{St: st, Slots: []lvSlot{{At: 4, Kind: "dict", Idx: 0, Wrap: g}}})
		pool = append(pool, st)
		extra = append(extra, "live:site=composite-literal")
	}
	if nd > 1 {
		g := term.G("Values")
		kt := term.S(term.Id("T"))
		if strKeys {
			kt = term.S(term.Named("String"))
		}
		st := term.S(term.Named("Var"), term.Id("_"), term.Op("="), term.G("Map", kt), term.Named("Int"), g)
		sp.Hosts = append(sp.Hosts, &lvHost{St: st, Slots: []lvSlot{{At: 5, Kind: "dict", Idx: 1, Wrap: g}}})
		pool = append(pool, st)
		extra = append(extra, "live:site=map-literal")
	}
	// func f() { g(x, <tag>, 1) } : the tag is an argument of a call
	{
		arg := term.S(term.Null())
		sp.Hosts = append(sp.Hosts, &lvHost{St: arg, Slots: []lvSlot{{At: 0, Kind: "tag", Idx: r.Intn(nm)}}})
		args := []term.Node{term.S(term.Id("x")), arg, term.S(term.Lit(1))}
		r.Shuffle(len(args), func(a, b int) { args[a], args[b] = args[b], args[a] })
		pool = append(pool, term.S(term.Named("Func"), term.Id("f"), term.G("Params"), term.G("Block", term.S(term.Id("g"), term.G("Call", args...)))))
		extra = append(extra, "live:site=call-argument")
	}
	sp.Roots = pool
	ways := []string{"file", "file", "file", "plain", "gostring", "rcode"}
	render := func() {
		sp.Steps = append(sp.Steps, lvStep{Kind: "render", Way: ways[r.Intn(len(ways))], Root: r.Intn(len(sp.Roots))})
	}
	if r.Intn(4) > 0 {
		mutate(1 + r.Intn(3))
	}
	render()
	for k := 1 + r.Intn(3); k > 0; k-- {
		mutate(r.Intn(4))
		render()
	}
	return c13LiveFinish(sp, "live-program", extra, map[string]interface{}{"program": true})
}

// c13LiveNames: the text of the only statement of the NoFormat File with the text of every
// live item that is non-null in the snapshot replaced by the item's name, and the names of
// the items that remain (in order).
func c13LiveNames(body string, pos []c13LivePos, sn *lvSnap) (string, []string, string) {
	var names []string
	cursor := 0
	for p, ps := range pos {
		name := c13ItemName(p)
		var text string
		switch ps.Kind {
		case "real":
			names = append(names, name)
			continue
		case "tag":
			if len(sn.Maps[ps.Idx]) == 0 {
				continue // a null item at this render
			}
			text = c13LiveTagText(sn.Maps[ps.Idx])
		case "dict":
			var ok bool
			if text, ok = c13LiveDictText(sn.Dicts[ps.Idx]); !ok {
				continue
			}
		}
		i := strings.Index(body[cursor:], text)
		if i < 0 {
			return body, append(names, name), fmt.Sprintf("item %d (%s, non-empty at this render) must render as %q: not found in %q", p, ps.Kind, text, body)
		}
		body = body[:cursor+i] + name + body[cursor+i+len(text):]
		cursor += i + len(name)
		names = append(names, name)
	}
	return body, names, ""
}

func c13LiveOracle(c *Case, got []hist.Obs) string {
	sp := c.Meta["lv"].(*lvSpec)
	if len(got) != len(sp.Snaps) {
		return fmt.Sprintf("expected %d observations, got %d", len(sp.Snaps), len(got))
	}
	for k := range got {
		if got[k].Kind == "panic" || got[k].Kind == "bad" {
			return fmt.Sprintf("render %d: %s", k, got[k])
		}
	}
	if pos, ok := c.Meta["pos"].([]c13LivePos); ok {
		cons := c.Meta["cons"].(c13Cons)
		for k := range sp.Snaps {
			sn := &sp.Snaps[k]
			if sn.Way != "file" {
				continue
			}
			if got[k].Kind != "write" {
				return fmt.Sprintf("render %d: a NoFormat render failed: %s", k, got[k])
			}
			body, ok := c13Body(got[k].Out)
			if !ok {
				return fmt.Sprintf("render %d: unexpected file frame %q", k, got[k].Out)
			}
			named, names, msg := c13LiveNames(body, pos, sn)
			if msg == "" {
				msg = C13CheckList(named, names, cons.Sep, cons.Multi, cons.HasClose, cons.Known)
			}
			if msg != "" {
				return fmt.Sprintf("render %d (step %d; the items that are non-null at this render: %v): %s\n raw text: %q\n content at this render: %s",
					k, sn.Step, names, msg, body, sn.describe())
			}
		}
	}
	if c.Meta["program"] == true {
		for k := range sp.Snaps {
			if got[k].Kind != "write" {
				return fmt.Sprintf("render %d (%s) of a valid program failed: %s", k, sp.Snaps[k].Way, got[k])
			}
			src := got[k].Out
			if sp.Snaps[k].Way != "file" {
				src = "package p\n\n" + src
			}
			if _, err := parser.ParseFile(token.NewFileSet(), "x.go", src, 0); err != nil {
				return fmt.Sprintf("render %d (%s): the output does not parse: %v\n%s", k, sp.Snaps[k].Way, err, src)
			}
		}
	}
	return lvSameAsTwin(sp, got, true)
}
