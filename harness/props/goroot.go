package props

import (
	"go/build"
	"go/types"
	"io/fs"
	"path/filepath"
	"runtime"
	"strings"
)

// StdNames maps every importable standard-library path of the installed toolchain to the
// name its package clause declares (ground truth, read from GOROOT/src).
var StdNames = map[string]string{}

// Universe holds the predeclared identifiers of the installed toolchain.
var Universe = map[string]bool{}

func init() {
	for _, n := range types.Universe.Names() {
		Universe[n] = true
	}
	src := filepath.Join(runtime.GOROOT(), "src")
	if r, err := filepath.EvalSymlinks(src); err == nil {
		src = r
	}
	ctx := build.Default
	filepath.WalkDir(src, func(p string, d fs.DirEntry, err error) error {
		if err != nil || !d.IsDir() {
			return nil
		}
		rel, _ := filepath.Rel(src, p)
		if rel == "." {
			return nil
		}
		base := filepath.Base(p)
		if base == "testdata" || base == "vendor" || base == "internal" || rel == "cmd" || strings.HasPrefix(base, "_") || strings.HasPrefix(base, ".") {
			return filepath.SkipDir
		}
		bp, err := ctx.ImportDir(p, 0)
		if err != nil || bp.Name == "main" || rel == "builtin" {
			return nil
		}
		StdNames[filepath.ToSlash(rel)] = bp.Name
		return nil
	})
}
