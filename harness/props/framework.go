// Package props holds, per property, the case generator, the projection used to compare
// model and implementation, and the implementation-side oracle.
package props

import (
	"fmt"
	"math/rand"
	"sort"

	"verifharness/hist"
)

// Case is one history with what the property's oracle needs to know about it.
type Case struct {
	Name       string // non-empty for corpus / regression / exhaustive-family cases
	Hist       hist.History
	Tags       []string               // feature tags (input distribution)
	Meta       map[string]interface{} // property-specific
	NonTrivial bool
	Stream     string // generator stream that produced it
}

// Property is what each Cxx module implements.
type Property interface {
	ID() string
	// Generate produces the cases of one run (random streams from r, plus finite sweeps).
	Generate(r *rand.Rand, tier string) []*Case
	// Compare checks the projection the property talks about. exp are the model's
	// observations (formatter already applied), got the implementation's. "" = agree.
	Compare(c *Case, exp, got []hist.Obs) string
	// Oracle decides the property on what the implementation produced. "" = holds.
	Oracle(c *Case, got []hist.Obs) string
}

// Regressor is implemented by properties that have named regression cases (exemplars of
// fixed defects and of open known findings).
type Regressor interface {
	Regressions() []*Case
}

// Shrinker is implemented by properties whose cases can be reduced.
type Shrinker interface {
	Shrink(c *Case) []*Case // candidate smaller cases
}

// Closer is implemented by properties that create run-time resources in Generate (temp
// directories); main calls Close once after the last Oracle call.
type Closer interface {
	Close()
}

var registry = map[string]Property{}

func Register(p Property) { registry[p.ID()] = p }
func Get(id string) Property { return registry[id] }
func IDs() []string {
	var out []string
	for k := range registry {
		out = append(out, k)
	}
	sort.Strings(out)
	return out
}

// CompareAll is the default projection: every observation, completely.
func CompareAll(exp, got []hist.Obs) string {
	if len(exp) != len(got) {
		return fmt.Sprintf("observation count differs: model %d, implementation %d", len(exp), len(got))
	}
	for i := range exp {
		if exp[i].Kind == "panic" && got[i].Kind == "panic" {
			// after a panic the implementation's File is in a partially updated state that
			// no property talks about: the rest of the history is not compared
			return ""
		}
		if !hist.SameObs(exp[i], got[i]) {
			return fmt.Sprintf("observation %d differs:\n  model: %s\n  impl:  %s", i, exp[i], got[i])
		}
	}
	return ""
}

func tier(t string, quick, thorough int) int {
	if t == "thorough" {
		return thorough
	}
	return quick
}
