package props

import (
	"math/rand"
	"strings"
	"testing"

	"verifharness/hist"
	"verifharness/term"
)

func c07TestCases(n int) []*Case {
	r := rand.New(rand.NewSource(7))
	var out []*Case
	for i := 0; i < n; i++ {
		out = append(out, c07Recipe(r))
	}
	return out
}

// The real implementation on the deterministic domain: accepted.
func TestC07OracleAcceptsDeterministicBuilds(t *testing.T) {
	nt := 0
	for _, c := range c07TestCases(60) {
		got := ExecFresh(c.Hist)
		if m := (c07{}).Oracle(c, got); m != "" {
			t.Fatalf("oracle rejects a deterministic recipe: %s\n%s", m, c.Hist.Sexp())
		}
		if c.NonTrivial {
			nt++
		}
	}
	if nt < 40 {
		t.Fatalf("only %d of 60 recipes are non-trivial", nt)
	}
}

// A first build that differs from the rebuilds in one byte: rejected.
func TestC07OracleRejectsADifferingBuild(t *testing.T) {
	c := c07TestCases(1)[0]
	got := ExecFresh(c.Hist)
	bad := append([]hist.Obs{}, got...)
	bad[0].Out = strings.Replace(bad[0].Out, "package", "packagE", 1)
	if m := (c07{}).Oracle(c, bad); !strings.Contains(m, "differs from the first build") {
		t.Fatalf("oracle accepted a build that differs: %q", m)
	}
	// a failed render is not a repetition of anything
	if m := (c07{}).Oracle(c, []hist.Obs{{Kind: "fmterr", Out: "x"}}); !strings.Contains(m, "did not render") {
		t.Fatalf("oracle accepted a recipe that did not render: %q", m)
	}
}

// An implementation whose output depends on a traversal order that changes between builds
// (here: two lines of the output swapped in some builds, as an unsorted Dict or import
// block would do): rejected by the in-process repetition.
func TestC07OracleRejectsOrderDependentOutput(t *testing.T) {
	defer func(f func(hist.History) []hist.Obs) { c07Exec = f }(c07Exec)
	r := rand.New(rand.NewSource(1))
	c07Exec = func(h hist.History) []hist.Obs {
		obs := ExecFresh(h)
		if r.Intn(2) == 0 { // this build traverses in another order
			lines := strings.Split(obs[0].Out, "\n")
			for i := 0; i+1 < len(lines); i++ {
				if strings.HasSuffix(lines[i], ",") && strings.HasSuffix(lines[i+1], ",") && lines[i] != lines[i+1] {
					lines[i], lines[i+1] = lines[i+1], lines[i]
					break
				}
			}
			obs[0].Out = strings.Join(lines, "\n")
		}
		return obs
	}
	rejected := 0
	cases := c07TestCases(40)
	for _, c := range cases {
		got := ExecFresh(c.Hist)
		if (c07{}).Oracle(c, got) != "" {
			rejected++
		}
	}
	if rejected < 20 {
		t.Fatalf("order-dependent output rejected for %d of %d recipes only", rejected, len(cases))
	}
}

// Cross-process digests: equal accepted; a child that produced other bytes, or no line at
// all for the case, rejected.
func TestC07CrossProcessDigests(t *testing.T) {
	mine := xprocSha("write(...)")
	same := ChildResult{"g1": {"h", mine}}
	other := ChildResult{"g1": {"h", xprocSha("write(other bytes)")}}
	if m := c07CheckDigests("g1", mine, []ChildResult{same, same, same}); m != "" {
		t.Fatalf("equal digests rejected: %s", m)
	}
	if m := c07CheckDigests("g1", mine, []ChildResult{same, other, same}); !strings.Contains(m, "child process 1") {
		t.Fatalf("differing child accepted: %q", m)
	}
	if m := c07CheckDigests("g2", mine, []ChildResult{same}); m == "" {
		t.Fatal("missing child line accepted")
	}
}

// What a child regenerates does not depend on anything but (tier, subseed), and its keys
// are unique.
func TestC07ChildCasesAreReproducible(t *testing.T) {
	a := (c07{}).ChildCases("quick", 42)
	b := (c07{}).ChildCases("quick", 42)
	if len(a) != len(b) || len(a) < 400 {
		t.Fatalf("case counts %d %d", len(a), len(b))
	}
	seen := map[string]bool{}
	for i := range a {
		if a[i].Hist.Sexp() != b[i].Hist.Sexp() || a[i].Meta["xkey"] != b[i].Meta["xkey"] {
			t.Fatalf("case %d differs between two generations", i)
		}
		k := a[i].Meta["xkey"].(string)
		if k == "" || seen[k] {
			t.Fatalf("bad key %q", k)
		}
		seen[k] = true
	}
	c := (c07{}).ChildCases("quick", 43)
	if c[len(c)-1].Hist.Sexp() == a[len(a)-1].Hist.Sexp() {
		t.Fatal("subseed has no influence")
	}
}

// The full domain (open finding): on a tree that still has it the oracle sees different
// bytes among 60 builds; the weak projection does not mind which path got which name.
func TestC07KnownFindingAndWeakProjection(t *testing.T) {
	regs := (c07{}).Regressions()
	ex := regs[len(regs)-1]
	if ex.Name != c07Known || ex.Meta["builds"] != 60 {
		t.Fatalf("exemplar: %+v", ex)
	}
	got := ExecFresh(ex.Hist)
	if m := (c07{}).Oracle(ex, got); m == "" {
		t.Log("the known finding does not reproduce on this tree (60 identical builds)")
	} else if !strings.Contains(m, "differs from the first build") {
		t.Fatalf("unexpected verdict: %s", m)
	}
	a := []hist.Obs{{Kind: "write", Out: "import (\nx \"a.b/x\"\nx1 \"c.d/x\"\n)\nx.A:1,\nx1.B:2,\n"},
		{Kind: "imports", Imports: []hist.Import{{Path: "a.b/x", Name: "x", Alias: true}, {Path: "c.d/x", Name: "x1", Alias: true}}}}
	b := []hist.Obs{{Kind: "write", Out: "import (\nx1 \"a.b/x\"\nx \"c.d/x\"\n)\nx.B:2,\nx1.A:1,\n"},
		{Kind: "imports", Imports: []hist.Import{{Path: "a.b/x", Name: "x1", Alias: true}, {Path: "c.d/x", Name: "x", Alias: true}}}}
	if m := (c07{}).Compare(ex, a, b); m != "" {
		t.Fatalf("weak projection rejects a permutation of the names: %s", m)
	}
	if m := (c07{}).Compare(regs[0], a, b); m != "" {
		t.Fatalf("weak projection rejects a permutation of the names: %s", m)
	}
	b[0].Out = strings.Replace(b[0].Out, "x1.A:1", "x1.A:7", 1)
	if m := (c07{}).Compare(ex, a, b); m == "" {
		t.Fatal("weak projection accepts different bytes")
	}
	b[1].Imports[1].Path = "e.f/x"
	b[0].Out = a[0].Out
	if m := (c07{}).Compare(ex, a, b); !strings.Contains(m, "imported paths differ") {
		t.Fatalf("weak projection accepts another import set: %q", m)
	}
	// the unnamed stream is compared completely
	c := c07TestCases(1)[0]
	if m := (c07{}).Compare(c, a, b); m == "" {
		t.Fatal("full projection accepts different observations")
	}
}

// plain-after-failure: the real implementation is accepted; an implementation in which a
// failed plain render leaves its registrations behind (the later render writes c1.M instead
// of c.M) is rejected, and so is a "failing" render that does not fail.
func TestC07PlainAfterFailure(t *testing.T) {
	r := rand.New(rand.NewSource(3))
	nt := 0
	for i := 0; i < 200; i++ {
		c := c07PlainAfterFailure(r)
		got := ExecFresh(c.Hist)
		if m := (c07{}).Oracle(c, got); m != "" {
			t.Fatalf("oracle rejects the real implementation: %s\n%s", m, c.Hist.Sexp())
		}
		if m := (c07{}).Compare(c, got, got); m != "" {
			t.Fatalf("Compare rejects identical observations: %s", m)
		}
		if c.NonTrivial {
			nt++
		}
		plan := c.Meta["plain"].([]string)
		// leak: the first successful render after a failed one gets a numbered qualifier
		bad := append([]hist.Obs{}, got...)
		seenFail := false
		for j, w := range plan {
			if w == "fail" {
				seenFail = true
			} else if seenFail {
				k := strings.Index(bad[j].Out, ".")
				bad[j].Out = bad[j].Out[:k] + "1" + bad[j].Out[k:]
				break
			}
		}
		if m := (c07{}).Oracle(c, bad); !strings.Contains(m, "want") {
			t.Fatalf("oracle accepted a leaked registration: %q", m)
		}
		if m := (c07{}).Compare(c, got, bad); m == "" {
			t.Fatalf("Compare accepted a differing observation after a failed render")
		}
		// a planned failure that succeeds: reported (harness fault, never silently vacuous)
		bad2 := append([]hist.Obs{}, got...)
		for j, w := range plan {
			if w == "fail" {
				bad2[j] = hist.Obs{Kind: "write", Out: "x"}
				break
			}
		}
		if m := (c07{}).Oracle(c, bad2); !strings.Contains(m, "built to fail") {
			t.Fatalf("oracle accepted a planned failure that did not fail: %q", m)
		}
	}
	if nt != 200 {
		t.Fatalf("%d of 200 cases non-trivial", nt)
	}
}

// Stream mixed-keys: the catalogue's texts are what the unformatted render writes, the keys
// of one Dict are pairwise different, the oracle accepts the implementation.
func TestC07MixedKeysStream(t *testing.T) {
	r := rand.New(rand.NewSource(11))
	m := &c07mix{r: r, tags: map[string]bool{}, fresh: c07FreshPaths[:3]}
	kinds := map[string]int{}
	for i := 0; i < 3000; i++ {
		k := m.other(i%2 == 0)
		if i%10 == 0 {
			k = c07IntKey(int64(r.Intn(3000) - 1500))
		}
		kinds[k.Kind]++
		if k.Text[0] == 0 {
			continue // the text depends on the File
		}
		d := &term.Dict{Pairs: [][2]term.Node{{k.Node, term.S(term.Lit(1))}}}
		st := term.S(term.Named("Var"), term.Id("_"), term.Op("="), term.G("Map", term.S(term.G("Interface"))), term.G("Interface"), term.G("Values", d))
		obs := ExecFresh(hist.History{{Kind: "newfile", F: 0, A: "p"}, {Kind: "noformat", F: 0, Flag: true}, {Kind: "fadd", F: 0, Code: st}, {Kind: "render", F: 0}})
		keys, err := c07LiteralKeys(obs[0].Out, true)
		if err != nil || len(keys) != 1 || len(keys[0]) != 1 || keys[0][0] != k.Text {
			t.Fatalf("key of kind %s: catalogue text %q, rendered %q (%v)", k.Kind, k.Text, keys, err)
		}
	}
	for _, k := range []string{"int", "expr", "raw-number", "float", "typed-literal", "string", "rune", "ident", "call", "index", "parens", "qual", "composite"} {
		if kinds[k] == 0 {
			t.Errorf("key kind %s never drawn", k)
		}
	}
	tags := map[string]int{}
	nt := 0
	for i := 0; i < 150; i++ {
		c := c07MixedCase(r)
		for _, tg := range c.Tags {
			tags[tg]++
		}
		if c.NonTrivial {
			nt++
		}
		got := ExecFresh(c.Hist)
		if msg := (c07{}).Oracle(c, got); msg != "" {
			t.Fatalf("oracle rejects the implementation: %s\n%s", msg, c.Hist.Sexp())
		}
	}
	if nt < 100 {
		t.Errorf("only %d of 150 cases are non-trivial", nt)
	}
	for _, tg := range []string{"int-keys-numeric-and-text-order-disagree", "other-kind-key-between-two-int-keys", "render=plain-statement", "render=file", "container=array", "dict-nested", "key-kind=qual"} {
		if tags[tg] == 0 {
			t.Errorf("tag %s never generated", tg)
		}
	}
}

// The mixed-keys oracle on hand-made outputs.
func TestC07MixedKeysVerdicts(t *testing.T) {
	d := &term.Dict{Pairs: [][2]term.Node{
		{term.S(term.Lit(9)), term.S(term.Lit("nine"))},
		{term.S(term.Lit(10)), term.S(term.Lit("ten"))},
		{term.S(term.Lit(2), term.Op("*"), term.Id("n")), term.S(term.Lit("twelve"))},
	}}
	st := term.S(term.Named("Var"), term.Id("_"), term.Op("="), term.G("Index", term.S(term.Op("..."))), term.Named("String"), term.G("Values", d))
	c := &Case{Stream: "mixed-keys", Meta: map[string]interface{}{"builds": 0, "mixed": true},
		Hist: hist.History{{Kind: "newfile", F: 0, A: "p"}, {Kind: "fadd", F: 0, Code: st},
			{Kind: "noformat", F: 0, Flag: true}, {Kind: "render", F: 0}, {Kind: "noformat", F: 0, Flag: false}, {Kind: "render", F: 0},
			{Kind: "noformat", F: 0, Flag: true}, {Kind: "render", F: 0}}}
	w := func(s string) hist.Obs { return hist.Obs{Kind: "write", Out: s, Writes: 1} }
	raw := func(keys ...string) string {
		s := "package p\n\n\nvar _ = [...] string {\n"
		for _, k := range keys {
			s += k + ":\"v\",\n"
		}
		return s + "}"
	}
	fm := func(keys ...string) string {
		s := "package p\n\nvar _ = [...]string{\n"
		for _, k := range keys {
			s += "\t" + k + ": \"v\",\n"
		}
		return s + "}\n"
	}
	good := []string{"10", "2 * n", "9"}
	tab := []struct {
		name string
		obs  []hist.Obs
		ok   bool
	}{
		{"sorted by text", []hist.Obs{w(raw(good...)), w(fm(good...)), w(raw(good...))}, true},
		{"integers by value", []hist.Obs{w(raw("2 * n", "9", "10")), w(fm("2 * n", "9", "10")), w(raw("2 * n", "9", "10"))}, false},
		{"another collection order in the third render", []hist.Obs{w(raw(good...)), w(fm(good...)), w(raw("10", "9", "2 * n"))}, false},
		{"formatted render in another order", []hist.Obs{w(raw(good...)), w(fm("2 * n", "10", "9")), w(raw(good...))}, false},
		{"equal key texts", []hist.Obs{w(raw("10", "10", "9")), w(fm("10", "10", "9")), w(raw("10", "10", "9"))}, false},
		{"a render failed", []hist.Obs{w(raw(good...)), {Kind: "fmterr", Out: "x"}, w(raw(good...))}, false},
		{"a render is missing", []hist.Obs{w(raw(good...)), w(fm(good...))}, false},
	}
	for _, e := range tab {
		if m := c07MixedCheck(c, e.obs); (m == "") != e.ok {
			t.Errorf("%s: accepted=%v, want %v (%s)", e.name, m == "", e.ok, m)
		}
	}
	// the real thing
	if m := (c07{}).Oracle(c, ExecFresh(c.Hist)); m != "" {
		t.Errorf("implementation rejected: %s", m)
	}
	// an implementation whose Dict order depends on the collection order: caught by the repetition
	defer func(f func(hist.History) []hist.Obs) { c07Exec = f }(c07Exec)
	n := 0
	c07Exec = func(h hist.History) []hist.Obs {
		obs := ExecFresh(h)
		n++
		if n == 3 {
			obs[0].Out = strings.Replace(obs[0].Out, "10:\"ten\",\n2 * n:\"twelve\",", "2 * n:\"twelve\",\n10:\"ten\",", 1)
		}
		return obs
	}
	c.Meta["builds"] = 6
	if m := (c07{}).Oracle(c, ExecFresh(c.Hist)); !strings.Contains(m, "differs from the first build") {
		t.Errorf("a build in another order accepted: %q", m)
	}
}
