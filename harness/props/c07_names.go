package props

import (
	"fmt"
	"math/rand"
	"sort"
	"strings"

	"verifharness/hist"
	"verifharness/term"
)

// C07, stream shared-names-map: ONE names map of the caller handed to ImportNames of several
// Files (the documented gennames usage: a package-level table given to every file of a run).
//
// On the unchanged tree ImportNames COPIES the entries into the File at call time: the File
// neither keeps nor writes the caller's map, and it does not follow what the caller does to
// its map afterwards.  What a File renders therefore depends on its own sequence of calls
// (with the content the maps had AT EACH CALL) and on nothing else: not on the other Files
// that were given the same map object, not on what those did later (a second ImportNames call
// with extra entries), not on the order in which the Files of the run were built, not on
// changes the caller made to its map after the call.
//
// A case: 3..6 Files over a pool of paths whose guessed names collide.
//
//	map objects   "shared" (3..6 entries) goes to EVERY File as its first ImportNames call;
//	              "extra" (1..2 entries naming paths that are not in shared) goes to one or
//	              two Files as a SECOND call; a third call with a fresh one-entry map on some.
//	              Some Files have an ImportName/ImportAlias before or between the calls.
//	bodies        every File references 2..5 paths: of shared, of extra (also Files that never
//	              got the extra map: they must render the guessed name), unhinted ones.
//	twins         one File B that did not get the extra map has a twin B' made by exactly the
//	              same sequence of calls; in half of the cases B is complete before anything
//	              else happens and B' is built after everything else.
//	caller        in half of the cases the caller CHANGES its shared map somewhere in the run
//	              (adds a hint for a referenced path, renames an entry, deletes one): Files
//	              that call ImportNames(shared) afterwards get the new content (the line for
//	              the model shows, per call, the entries the map has at that call), Files that
//	              called before must not notice.
//	order         the operations of the Files are interleaved at random; 1/4 of the Files
//	              render twice.
//
// All operations are "ext" ops executed by an executor of its own (the caller's changes are
// steps without text for the model, which has no aliasing), so the history runs unchanged in
// every build of the C07 oracle: 4 fresh builds in this process and one in each child process.
//
// Oracle (besides the byte equality of all builds): (1) no map object handed to ImportNames
// has other entries at the end than the caller put there (checked by the executor on the real
// objects, reported through the Msg field of the last observation); (2) twins show the same bytes; (3) the run
// is repeated in 3 OTHER ORDERS - random interleavings that keep the order of each File's own
// calls and the order of the events of each map object (its ImportNames calls and the caller's
// changes), so every call still sees the same entries - and every File must show exactly the
// observations of the first order.

type c07nMut struct {
	Key string
	Del []string
	Put [][2]string
}

type c07nStep struct {
	Op  hist.Op  // when Mut == nil
	Mut *c07nMut // the caller changes its map
	F   int      // the File the step belongs to (-1: the caller)
}

type c07nSpec struct {
	Steps []c07nStep
	Files int
	Twins [][2]int
	Seed  int64
	// final content every map object must have at the end (the caller's own view)
	Final map[string]map[string]string
}

const c07nFault = "c07n-fault: "

func c07nObserving(k string) bool { return k == "render" || k == "imports" }

// c07nHist turns the steps into a history of ext ops run by one executor.
func c07nHist(sp *c07nSpec, steps []c07nStep) hist.History {
	ex := &c07nExec{sp: sp, steps: steps}
	var h hist.History
	n := 0
	for _, st := range steps {
		if st.Mut != nil {
			continue
		}
		text := hist.History{st.Op}.Sexp()
		if c07nObserving(st.Op.Kind) {
			idx := n
			n++
			h = append(h, hist.Op{Kind: "ext", A: text, Run: func() hist.Obs { return ex.obs(idx) }})
		} else {
			h = append(h, hist.Op{Kind: "ext", A: text})
		}
	}
	ex.total = n
	return h
}

type c07nExec struct {
	sp    *c07nSpec
	steps []c07nStep
	total int
	next  int
	pos   int
	w     *hist.World
	fault string
}

func c07nSameMap(m map[string]string, want map[string]string) bool {
	if len(m) != len(want) {
		return false
	}
	for k, v := range want {
		if g, ok := m[k]; !ok || g != v {
			return false
		}
	}
	return true
}

func (ex *c07nExec) obs(k int) (o hist.Obs) {
	defer func() {
		if r := recover(); r != nil {
			o = hist.Obs{Kind: "bad", Msg: "c07n: harness panic while executing: " + fmt.Sprint(r)}
			ex.w = nil
		}
		if k == ex.total-1 {
			ex.w = nil
		}
	}()
	if k == 0 || ex.w == nil || k != ex.next {
		ex.w, ex.next, ex.pos, ex.fault = hist.NewWorld(), 0, 0, ""
	}
	for ex.pos < len(ex.steps) {
		st := ex.steps[ex.pos]
		ex.pos++
		if st.Mut != nil {
			m := ex.w.Maps.Lookup(st.Mut.Key)
			if m == nil {
				return hist.Obs{Kind: "bad", Msg: "c07n: the caller changes a map that was never handed out: " + st.Mut.Key}
			}
			for _, d := range st.Mut.Del {
				delete(m, d)
			}
			for _, p := range st.Mut.Put {
				m[p[0]] = p[1]
			}
			continue
		}
		if st.Op.Kind == "importnames" && st.Op.MapKey != "" && ex.fault == "" {
			// the object about to be handed over must hold what the caller put there: the entries
			// this call shows to the model
			if m := ex.w.Maps.Lookup(st.Op.MapKey); m != nil && !c07nSameMap(m, lvToMap(st.Op.Pairs)) {
				ex.fault = fmt.Sprintf("the caller's map %q was written to by an earlier call: it holds %v, the caller put %v there", st.Op.MapKey, m, lvToMap(st.Op.Pairs))
			}
		}
		got := ex.w.Exec(hist.History{st.Op})
		if !c07nObserving(st.Op.Kind) {
			continue
		}
		ex.next++
		if ex.next-1 != k {
			continue
		}
		if len(got) != 1 {
			return hist.Obs{Kind: "bad", Msg: fmt.Sprintf("c07n: %s gave %d observations", st.Op.Kind, len(got))}
		}
		if k == ex.total-1 {
			// the end of the run (what follows the last observation is executed first: changes of
			// the caller, calls without observation): every map object holds exactly what the
			// caller put there
			for ; ex.pos < len(ex.steps); ex.pos++ {
				if rest := ex.steps[ex.pos]; rest.Mut != nil {
					if m := ex.w.Maps.Lookup(rest.Mut.Key); m != nil {
						for _, d := range rest.Mut.Del {
							delete(m, d)
						}
						for _, p := range rest.Mut.Put {
							m[p[0]] = p[1]
						}
					}
				} else {
					ex.w.Exec(hist.History{rest.Op})
				}
			}
			keys := make([]string, 0, len(ex.sp.Final))
			for key := range ex.sp.Final {
				keys = append(keys, key)
			}
			sort.Strings(keys)
			for _, key := range keys {
				if m := ex.w.Maps.Lookup(key); m != nil && !c07nSameMap(m, ex.sp.Final[key]) && ex.fault == "" {
					ex.fault = fmt.Sprintf("the caller's map %q was written to by ImportNames: it holds %v at the end of the run, the caller put %v there", key, m, ex.sp.Final[key])
				}
			}
			if ex.fault != "" {
				// the observation itself stays as it is (the bytes are compared like all others);
				// the fault travels in Msg, which no comparison of write / imports observations reads
				o := got[0]
				o.Msg = c07nFault + ex.fault
				return o
			}
		}
		return got[0]
	}
	return hist.Obs{Kind: "bad", Msg: fmt.Sprintf("c07n: no observation %d", k)}
}

// c07nPerFile splits the observations of a run by File (in the order of steps).
func c07nPerFile(steps []c07nStep, obs []hist.Obs, files int) ([][]string, string) {
	out := make([][]string, files)
	i := 0
	for _, st := range steps {
		if st.Mut != nil || !c07nObserving(st.Op.Kind) {
			continue
		}
		if i >= len(obs) {
			return nil, fmt.Sprintf("only %d observations", len(obs))
		}
		out[st.F] = append(out[st.F], obs[i].String())
		i++
	}
	if i != len(obs) {
		return nil, fmt.Sprintf("%d observations for %d observing operations", len(obs), i)
	}
	return out, ""
}

// c07nReorder draws another order of the steps: each File's own steps stay in order, and so
// do the events of each map object (ImportNames calls with that MapKey, the caller's changes).
func c07nReorder(r *rand.Rand, steps []c07nStep) []c07nStep {
	n := len(steps)
	pred := make([][]int, n)
	lastF := map[int]int{}
	lastK := map[string]int{}
	for i, st := range steps {
		if st.Mut == nil {
			if j, ok := lastF[st.F]; ok {
				pred[i] = append(pred[i], j)
			}
			lastF[st.F] = i
		}
		key := ""
		if st.Mut != nil {
			key = st.Mut.Key
		} else if st.Op.Kind == "importnames" {
			key = st.Op.MapKey
		}
		if key != "" {
			if j, ok := lastK[key]; ok {
				pred[i] = append(pred[i], j)
			}
			lastK[key] = i
		}
	}
	done := make([]bool, n)
	var out []c07nStep
	for len(out) < n {
		var ready []int
		for i := 0; i < n; i++ {
			if done[i] {
				continue
			}
			ok := true
			for _, j := range pred[i] {
				ok = ok && done[j]
			}
			if ok {
				ready = append(ready, i)
			}
		}
		i := ready[r.Intn(len(ready))]
		if r.Intn(3) > 0 {
			// prefer to go on with the File of the step before (longer runs of one File)
			for _, j := range ready {
				if len(out) > 0 && steps[j].F == out[len(out)-1].F && steps[j].Mut == nil {
					i = j
					break
				}
			}
		}
		done[i] = true
		out = append(out, steps[i])
	}
	return out
}

func c07NamesCase(r *rand.Rand) *Case {
	feats := map[string]bool{}
	// the paths: 2..3 families of colliding names
	var pool []string
	for _, i := range r.Perm(len(c07Families))[:2+r.Intn(2)] {
		pool = append(pool, c07Families[i].Paths...)
	}
	r.Shuffle(len(pool), func(a, b int) { pool[a], pool[b] = pool[b], pool[a] })
	ns := 3 + r.Intn(4)
	if ns > len(pool)-3 {
		ns = len(pool) - 3
	}
	shared := map[string]string{}
	for _, p := range pool[:ns] {
		shared[p] = pick(r, namePool)
	}
	rest := pool[ns:]
	ne := 1 + r.Intn(2)
	extra := map[string]string{}
	for _, p := range rest[:ne] {
		extra[p] = pick(r, namePool)
	}
	extraPaths := append([]string{}, rest[:ne]...)
	free := rest[ne:] // hinted by nobody at the start (the caller may add one to shared later)
	pairs := func(m map[string]string) [][2]string {
		out := lvSorted(m)
		r.Shuffle(len(out), func(a, b int) { out[a], out[b] = out[b], out[a] })
		return out
	}

	n := 3 + r.Intn(3)
	a := r.Intn(n)   // gets the extra map as a second call
	b := (a + 1) % n // never gets it, references the extra paths; has a twin
	twin := n        // B'
	jobs := make([][]hist.Op, n+1)
	ref := func(p string, i int) *term.Stmt {
		return term.S(term.Named("Var"), term.Id("_"), term.Op("="), term.Qual(p, fmt.Sprintf("X%d", i)))
	}
	for f := 0; f < n; f++ {
		var j []hist.Op
		switch r.Intn(4) {
		case 0:
			j = append(j, hist.Op{Kind: "newfilepathname", A: pick(r, pool), B: "q"})
			feats["local-path"] = true
		default:
			j = append(j, hist.Op{Kind: "newfile", A: "p"})
		}
		if r.Intn(4) == 0 {
			j = append(j, hist.Op{Kind: "prefix", A: pick(r, prefixPool)})
			feats["prefix"] = true
		}
		single := func() hist.Op {
			return hist.Op{Kind: pick(r, []string{"importname", "importalias"}), A: pick(r, pool), B: pick(r, namePool)}
		}
		if r.Intn(5) == 0 {
			j = append(j, single())
			feats["single-hint-before-the-map"] = true
		}
		j = append(j, hist.Op{Kind: "importnames", MapKey: "shared"}) // Pairs: filled in when the order is known
		second := f == a || (f != b && r.Intn(3) == 0)
		if second {
			if r.Intn(4) == 0 {
				j = append(j, single())
				feats["single-hint-between-the-calls"] = true
			}
			j = append(j, hist.Op{Kind: "importnames", MapKey: "extra", Pairs: pairs(extra)})
			if r.Intn(3) == 0 {
				// a third call: a fresh one-entry map (may rename a path of shared or extra for this File only)
				j = append(j, hist.Op{Kind: "importnames", Pairs: [][2]string{{pick(r, pool), pick(r, namePool)}}})
				feats["third-call"] = true
			}
		}
		// the body
		var ps []string
		ps = append(ps, extraPaths[r.Intn(len(extraPaths))])
		if f == a || f == b {
			ps = append([]string{}, extraPaths...)
		}
		for k := 1 + r.Intn(3); k > 0; k-- {
			ps = append(ps, pool[r.Intn(ns)])
		}
		if len(free) > 0 {
			ps = append(ps, free[r.Intn(len(free))])
			if f == b {
				ps = append(ps, free...)
			}
		}
		r.Shuffle(len(ps), func(x, y int) { ps[x], ps[y] = ps[y], ps[x] })
		for i, p := range ps {
			j = append(j, hist.Op{Kind: "fadd", Code: ref(p, i)})
		}
		j = append(j, hist.Op{Kind: "noformat", Flag: r.Intn(3) == 0}, hist.Op{Kind: "render"})
		if r.Intn(4) == 0 {
			j = append(j, hist.Op{Kind: "render"})
			feats["rendered-twice"] = true
		}
		j = append(j, hist.Op{Kind: "imports"})
		jobs[f] = j
	}
	// the twin: the same calls again (fresh statements)
	for _, op := range jobs[b] {
		if op.Kind == "fadd" {
			op.Code = c08fFresh(op.Code)
		}
		jobs[twin] = append(jobs[twin], op)
	}
	var steps []c07nStep
	for f, j := range jobs {
		for _, op := range j {
			op.F = f
			steps = append(steps, c07nStep{Op: op, F: f})
		}
	}
	// the caller's change of its shared map (1/2): one step of the caller
	mutated := r.Intn(2) == 0
	if mutated {
		m := &c07nMut{Key: "shared"}
		switch r.Intn(3) {
		case 0:
			if len(free) > 0 {
				m.Put = [][2]string{{free[r.Intn(len(free))], pick(r, namePool)}}
				feats["caller-adds-entry"] = true
				break
			}
			fallthrough
		case 1:
			m.Put = [][2]string{{pool[r.Intn(ns)], pick(r, namePool) + "v2"}}
			feats["caller-renames-entry"] = true
		default:
			m.Del = []string{pool[r.Intn(ns)]}
			feats["caller-deletes-entry"] = true
		}
		steps = append(steps, c07nStep{Mut: m, F: -1})
	}
	// first order
	var order []c07nStep
	if r.Intn(2) == 0 {
		// B complete before anything else, B' after everything else
		var mid, first, last []c07nStep
		for _, st := range steps {
			switch {
			case st.Mut == nil && st.F == b:
				first = append(first, st)
			case st.Mut == nil && st.F == twin:
				last = append(last, st)
			default:
				mid = append(mid, st)
			}
		}
		order = append(append(first, c07nReorder(r, mid)...), last...)
		feats["twin-before-and-after-everything"] = true
	} else {
		order = c07nReorder(r, steps)
	}
	// a change of the caller before the first call is no change: move it behind the first call
	for i, st := range order {
		if st.Mut != nil {
			firstCall := -1
			for k, s2 := range order {
				if s2.Mut == nil && s2.Op.Kind == "importnames" && s2.Op.MapKey == st.Mut.Key {
					firstCall = k
					break
				}
			}
			if firstCall > i {
				moved := append([]c07nStep{}, order[:i]...)
				moved = append(moved, order[i+1:firstCall+1]...)
				moved = append(moved, st)
				order = append(moved, order[firstCall+1:]...)
			}
			break
		}
	}
	// the entries every call sees: the content of the object at that call, as the caller made it
	cur := map[string]map[string]string{"shared": shared, "extra": extra}
	callsAfter := 0
	seenMut := false
	for i := range order {
		st := &order[i]
		if st.Mut != nil {
			for _, d := range st.Mut.Del {
				delete(cur[st.Mut.Key], d)
			}
			for _, p := range st.Mut.Put {
				cur[st.Mut.Key][p[0]] = p[1]
			}
			seenMut = true
			continue
		}
		if st.Op.Kind == "importnames" && st.Op.MapKey == "shared" {
			st.Op.Pairs = pairs(cur["shared"])
			if seenMut {
				callsAfter++
			}
		}
	}
	sp := &c07nSpec{Steps: order, Files: n + 1, Seed: r.Int63(), Final: cur}
	// twins: B and B' are twins when their calls saw the same entries
	text := func(f int) string {
		var parts []string
		for _, st := range order {
			if st.Mut == nil && st.F == f {
				op := st.Op
				op.F = 0
				if op.Kind == "importnames" {
					op.Pairs = lvSorted(lvToMap(op.Pairs))
				}
				parts = append(parts, hist.History{op}.Sexp())
			}
		}
		return strings.Join(parts, " ")
	}
	if text(b) == text(twin) {
		sp.Twins = append(sp.Twins, [2]int{b, twin})
		feats["twins"] = true
	} else {
		feats["caller-change-between-the-twins"] = true
	}
	if mutated {
		feats[fmt.Sprintf("calls-after-caller-change=%s", c07Bucket(callsAfter, 1, 3))] = true
	}
	tags := []string{"shared-names-map", fmt.Sprintf("files=%d", n+1), fmt.Sprintf("shared-entries=%d", ns)}
	for f := range feats {
		tags = append(tags, f)
	}
	sort.Strings(tags)
	// NonTrivial: by construction some File makes a second ImportNames call naming paths that
	// another File, holding the same shared object, references without a hint
	return &Case{Hist: c07nHist(sp, order), Stream: "shared-names-map", Tags: tags, NonTrivial: true,
		Meta: map[string]interface{}{"builds": 4, "names": sp}}
}

// c07NamesCheck: see the head of the file.
func c07NamesCheck(c *Case, got []hist.Obs) string {
	sp := c.Meta["names"].(*c07nSpec)
	// a fault noted by the executor (a map object that does not hold what the caller put there),
	// a `bad` observation or a panic is reported when the bytes show nothing more specific
	fault := ""
	note := func(what string, obs []hist.Obs) {
		for i, o := range obs {
			if (o.Kind == "bad" || o.Kind == "panic") && fault == "" {
				fault = fmt.Sprintf("%sobservation %d: %s", what, i, o)
			}
			if strings.HasPrefix(o.Msg, c07nFault) && fault == "" {
				fault = what + strings.TrimPrefix(o.Msg, c07nFault)
			}
		}
	}
	note("", got)
	first, msg := c07nPerFile(sp.Steps, got, sp.Files)
	if msg != "" {
		return msg
	}
	for _, tw := range sp.Twins {
		x, y := first[tw[0]], first[tw[1]]
		if strings.Join(x, "\n") != strings.Join(y, "\n") {
			return fmt.Sprintf("Files %d and %d are made by the same sequence of calls (the same names map, with the same entries, handed to ImportNames) but show different output:\n File %d: %s\n File %d: %s",
				tw[0], tw[1], tw[0], strings.Join(x, "\n   "), tw[1], strings.Join(y, "\n   "))
		}
	}
	r := rand.New(rand.NewSource(sp.Seed))
	for k := 1; k <= 3; k++ {
		order := c07nReorder(r, sp.Steps)
		again := c07Exec(c07nHist(sp, order))
		note(fmt.Sprintf("order #%d, ", k), again)
		per, msg := c07nPerFile(order, again, sp.Files)
		if msg != "" {
			return fmt.Sprintf("order #%d: %s", k, msg)
		}
		for f := range per {
			if strings.Join(per[f], "\n") != strings.Join(first[f], "\n") {
				return fmt.Sprintf("File %d shows different output when the Files of the run are built in another order (every call of every File is the same and sees the same map entries; only the interleaving differs):\n first order: %s\n order #%d:   %s\n operations in order #%d: %s",
					f, strings.Join(first[f], "\n   "), k, strings.Join(per[f], "\n   "), k, c07nOrderText(order))
			}
		}
	}
	return fault
}

func c07nOrderText(steps []c07nStep) string {
	var parts []string
	for _, st := range steps {
		if st.Mut != nil {
			parts = append(parts, fmt.Sprintf("<caller: %s del %v put %v>", st.Mut.Key, st.Mut.Del, st.Mut.Put))
			continue
		}
		parts = append(parts, hist.History{st.Op}.Sexp())
	}
	return strings.Join(parts, " ")
}
