package props

import (
	"fmt"
	"math/rand"
	"strings"
	"testing"

	"verifharness/hist"
)

func TestC13CheckListAccepts(t *testing.T) {
	good := []struct {
		body     string
		names    []string
		sep      string
		multi    bool
		hasClose bool
	}{
		{"(i0,i1,i2)", []string{"i0", "i1", "i2"}, ",", false, true},
		{"()", nil, ",", false, true},
		{"(i0)", []string{"i0"}, ",", false, true},
		{"[:i1]", []string{"", "i1"}, ":", false, true},             // Index(Empty(), x)
		{"[i0:]", []string{"i0", ""}, ":", false, true},             // Index(x, Empty())
		{"[i0::i2]", []string{"i0", "", "i2"}, ":", false, true},    // Empty in the middle
		{"for ;i1;", []string{"", "i1", ""}, ";", false, false},     // For(Empty(), cond, Empty())
		{"for ;;", []string{"", "", ""}, ";", false, false},         // only Empty items
		{"{\ni0\ni1\n}", []string{"i0", "i1"}, "", true, true},      // Block
		{"{}", nil, "", true, true},                                 // Block()
		{"(\ni0,\ni1,\n)", []string{"i0", "i1"}, ",", true, true},   // Custom multi with commas
		{"\ni0|\ni1", []string{"i0", "i1"}, "|", true, false},       // Custom multi without close
		{"[i0i1]", []string{"i0", "i1"}, "", false, true},           // no separator at all
		{"i0 i1 i2", []string{"i0", "i1", "i2"}, " ", false, false}, // the statement chain
		{"case i0,i1:", []string{"i0", "i1"}, ",", false, true},
		{"", nil, ",", false, true}, // Types() renders nothing
	}
	for _, g := range good {
		if msg := C13CheckList(g.body, g.names, g.sep, g.multi, g.hasClose, true); msg != "" {
			t.Errorf("good list %q rejected: %s", g.body, msg)
		}
	}
}

func TestC13CheckListRejects(t *testing.T) {
	bad := []struct {
		why      string
		body     string
		names    []string
		sep      string
		multi    bool
		hasClose bool
	}{
		{"separator for a null item in the middle", "(i0,,i1)", []string{"i0", "i1"}, ",", false, true},
		{"separator for a leading null item", "(,i0,i1)", []string{"i0", "i1"}, ",", false, true},
		{"separator for a trailing null item", "(i0,i1,)", []string{"i0", "i1"}, ",", false, true},
		{"separator for the only (null) item", "(,)", nil, ",", false, true},
		{"an item was dropped", "(i0,i2)", []string{"i0", "i1", "i2"}, ",", false, true},
		{"an item was duplicated", "(i0,i1,i1)", []string{"i0", "i1"}, ",", false, true},
		{"items out of order", "(i1,i0)", []string{"i0", "i1"}, ",", false, true},
		{"missing separator", "(i0 i1)", []string{"i0", "i1"}, ",", false, true},
		{"Empty() lost its separator (first)", "[i1]", []string{"", "i1"}, ":", false, true},
		{"Empty() lost its separator (last)", "[i0]", []string{"i0", ""}, ":", false, true},
		{"Empty() lost its separator (middle)", "[i0:i2]", []string{"i0", "", "i2"}, ":", false, true},
		{"For lost one semicolon", "for ;i1", []string{"", "i1", ""}, ";", false, false},
		{"For lost both semicolons", "for i1", []string{"", "i1", ""}, ";", false, false},
		{"blank line for a null statement", "{\ni0\n\ni1\n}", []string{"i0", "i1"}, "", true, true},
		{"blank line for a trailing null statement", "{\ni0\n\n}", []string{"i0"}, "", true, true},
		{"line break in an empty block", "{\n}", nil, "", true, true},
		{"wrong separator", "(i0;i1)", []string{"i0", "i1"}, ",", false, true},
		{"double space in the statement chain", "i0  i1", []string{"i0", "i1"}, " ", false, false},
	}
	for _, b := range bad {
		if msg := C13CheckList(b.body, b.names, b.sep, b.multi, b.hasClose, true); msg == "" {
			t.Errorf("%s: bad list %q accepted", b.why, b.body)
		}
	}
}

func c13TestList(name string, n int) *c13List {
	return &c13List{Cons: consByName(c13Constructs(), name), N: n, Inj: make([][]c13Inj, n+1)}
}

func TestC13OracleOnHandMadeOutputs(t *testing.T) {
	p := c13{}
	w := func(s string) hist.Obs { return hist.Obs{Kind: "write", Out: s} }
	l := c13TestList("Call", 2)
	l.Inj[1] = []c13Inj{{Kind: "null"}}
	file := l.listCase("file", "t")
	plain := l.listCase("plain", "t")
	hd := "package p\n\n\n"
	type tc struct {
		c    *Case
		obs  []hist.Obs
		good bool
		why  string
	}
	cases := []tc{
		{file, []hist.Obs{w(hd + "(i0,i1)"), w(hd + "(i0,i1)")}, true, "identical raw outputs"},
		{file, []hist.Obs{w(hd + "(i0,,i1)"), w(hd + "(i0,i1)")}, false, "extra separator for the null item"},
		{file, []hist.Obs{w(hd + "(i0,,i1)"), w(hd + "(i0,,i1)")}, false, "both wrong in the same way: the count decides"},
		{file, []hist.Obs{{Kind: "panic", Msg: "nil pointer"}, w(hd + "(i0,i1)")}, false, "panic with the null item"},
		{file, []hist.Obs{w(hd + "(i0)"), w(hd + "(i0)")}, false, "an item vanished in both"},
		{file, []hist.Obs{w(hd + "(i0,i1)")}, false, "an observation is missing"},
		{plain, []hist.Obs{w("_ = f(i0, i1)"), w("_ = f(i0, i1)")}, true, "identical formatted outputs"},
		{plain, []hist.Obs{w("_ = f(i0, nil, i1)"), w("_ = f(i0, i1)")}, false, "the null item rendered something"},
		{plain, []hist.Obs{{Kind: "fmterr", Out: "_ = f (i0,,i1)"}, w("_ = f(i0, i1)")}, false, "format error only with the null item"},
		{plain, []hist.Obs{{Kind: "fmterr", Out: "x (i0,i1"}, {Kind: "fmterr", Out: "x (i0,i1"}}, true, "the same raw text inside two format errors"},
		{plain, []hist.Obs{{Kind: "fmterr", Out: "x (i0,,i1"}, {Kind: "fmterr", Out: "x (i0,i1"}}, false, "different raw texts inside two format errors"},
	}
	// Empty(): Index(Empty(), i1) must keep the colon
	le := c13TestList("Index", 2)
	le.Empty = []bool{true, false}
	ce := le.listCase("file", "t")
	cases = append(cases,
		tc{ce, []hist.Obs{w(hd + "[:i1]"), w(hd + "[:i1]")}, true, "a[:x]"},
		tc{ce, []hist.Obs{w(hd + "[i1]"), w(hd + "[i1]")}, false, "Empty() treated like Null()"})
	// programs
	prog := &Case{Meta: map[string]interface{}{"kind": "program"}}
	imp := func(ps ...string) hist.Obs {
		o := hist.Obs{Kind: "imports"}
		for _, p := range ps {
			o.Imports = append(o.Imports, hist.Import{Path: p, Name: p})
		}
		return o
	}
	src := "package p\n\nfunc f() {\n}\n"
	cases = append(cases,
		tc{prog, []hist.Obs{w(src), imp("fmt"), w(src), imp("fmt")}, true, "identical programs"},
		tc{prog, []hist.Obs{w(src), imp("fmt", "os"), w(src), imp("fmt")}, false, "import table changed"},
		tc{prog, []hist.Obs{w("package p\n\nfunc f() {\n\tg(a, b)\n}\n"), imp(), w("package p\n\nfunc f() {\n\tg(a, nil, b)\n}\n"), imp()}, false, "bytes changed"},
		tc{prog, []hist.Obs{w("package p\n\nfunc f( {\n"), imp(), w("package p\n\nfunc f( {\n"), imp()}, false, "does not parse"},
		tc{prog, []hist.Obs{{Kind: "fmterr", Out: "x"}, imp(), {Kind: "fmterr", Out: "x"}, imp()}, false, "does not format"})
	// regression shape
	reg := p.Regressions()[0]
	ok := []hist.Obs{w("x"), w("x"), w("x"), w("x"), w(""), w(""), w("f(x)"), w("f(x)"), w("T{}"), w("T{}")}
	cases = append(cases, tc{reg, ok, true, "regression outputs"})
	bad := append([]hist.Obs{}, ok...)
	bad[0] = hist.Obs{Kind: "panic", Msg: "runtime error: invalid memory address or nil pointer dereference"}
	cases = append(cases, tc{reg, bad, false, "List(nil, x) panics"})
	for _, c := range cases {
		msg := p.Oracle(c.c, c.obs)
		if c.good && msg != "" {
			t.Errorf("%s: rejected: %s", c.why, msg)
		}
		if !c.good && msg == "" {
			t.Errorf("%s: accepted", c.why)
		}
	}
}

// every variadic method of the implementation has a documented separator in the oracle
func TestC13DocCoversTheAPI(t *testing.T) {
	for _, m := range VariadicGroups {
		if _, ok := c13Doc[m]; !ok {
			t.Errorf("no documented separator for %s: its lists are compared but their separators not counted", m)
		}
	}
	for _, want := range []string{"Call", "Params", "List", "Values", "Index", "Block", "Defs", "Case", "Types", "Union", "Return", "If", "For", "Switch", "Append"} {
		found := false
		for _, m := range VariadicGroups {
			found = found || m == want
		}
		if !found {
			t.Errorf("construct %s of the property is not a variadic method any more", want)
		}
	}
}

// quick tier: every (construct, arity <= 4, single position, kind) at least once, on raw bytes
func TestC13QuickCoversSinglePositions(t *testing.T) {
	cases := c13{}.Generate(rand.New(rand.NewSource(1)), "quick")
	seen := map[string]bool{}
	nontrivial := 0
	for _, c := range cases {
		if c.NonTrivial {
			nontrivial++
		}
		if c.Stream != "sweep-single" {
			continue
		}
		var cons, ar, pos, kind string
		for _, tg := range c.Tags {
			switch {
			case strings.HasPrefix(tg, "construct="):
				cons = tg
			case strings.HasPrefix(tg, "arity="):
				ar = tg
			case strings.HasPrefix(tg, "kind="):
				kind = tg
			}
		}
		// the exact slot is in the history: count the distinct histories instead
		pos = c.Hist.Sexp()
		seen[cons+" "+ar+" "+kind+" "+pos] = true
	}
	want := 0
	for range c13Constructs() {
		for n := 0; n <= 4; n++ {
			want += (n + 1) * len(c13Kinds)
		}
	}
	if len(seen) < want {
		t.Errorf("only %d distinct single-position cases, want at least %d", len(seen), want)
	}
	if nontrivial < len(cases)/2 {
		t.Errorf("only %d of %d cases are non-trivial", nontrivial, len(cases))
	}
}

// the generated cases hold on the implementation the harness is built with
func TestC13HoldsOnTheImplementation(t *testing.T) {
	p := c13{}
	cases := append(p.Regressions(), p.Generate(rand.New(rand.NewSource(7)), "quick")...)
	for i, c := range cases {
		if i%7 != 0 && c.Name == "" {
			continue
		}
		got := hist.NewWorld().Exec(c.Hist)
		if msg := p.Oracle(c, got); msg != "" {
			t.Fatalf("case %d (%s): %s\n%s", i, c.Stream, msg, fmt.Sprint(c.Hist.Sexp()))
		}
	}
}

// render-twice: the real implementation is accepted; a later render of the same tree that
// repeats an item (what an in-place compaction of the item slice produces) is rejected, and
// so is a difference between the injected tree and its twin in a later render only.
func TestC13RenderTwice(t *testing.T) {
	r := rand.New(rand.NewSource(13))
	cons := c13Constructs()
	nt, rejected := 0, 0
	for i := 0; i < 400; i++ {
		c := c13TwiceCase(r, cons, i)
		got := ExecFresh(c.Hist)
		if m := (c13{}).Oracle(c, got); m != "" {
			t.Fatalf("oracle rejects the real implementation: %s\n%s", m, c.Hist.Sexp())
		}
		if c.NonTrivial {
			nt++
		}
		ways := c.Meta["ways"].([]string)
		k := len(ways)
		// corrupt the LAST render of the injected tree only (the first one stays correct)
		bad := append([]hist.Obs{}, got...)
		if bad[k-1].Kind != "write" && bad[k-1].Kind != "fmterr" {
			continue
		}
		bad[k-1].Out += "i9"
		if m := (c13{}).Oracle(c, bad); m == "" {
			t.Fatalf("a later render that differs was accepted\n%s", c.Hist.Sexp())
		}
		// both the injected tree and its twin drift in the same way in a repeated render:
		// only the comparison with the first render of the same kind sees it
		if k >= 2 && ways[k-1] == ways[0] {
			bad2 := append([]hist.Obs{}, got...)
			bad2[k-1].Out += "i9"
			bad2[2*k-1].Out += "i9"
			if m := (c13{}).Oracle(c, bad2); !strings.Contains(m, "differs from render") {
				t.Fatalf("a drift common to both trees was accepted: %q", m)
			}
			rejected++
		}
	}
	if nt < 350 || rejected < 100 {
		t.Fatalf("non-trivial %d of 400, drift checks %d", nt, rejected)
	}
}

func TestC13LeadingEmptyRawBytes(t *testing.T) {
	cons := c13Constructs()
	l := &c13List{Cons: consByName(cons, "Index"), N: 3, Empty: []bool{true, false, false},
		Inj: [][]c13Inj{{{Kind: "nil"}, {Kind: "null"}}, nil, nil, nil}}
	c := l.listCase("file", "empty")
	c.Meta["wantraw"] = "[:i1:i2]"
	got := ExecFresh(c.Hist)
	if m := (c13{}).Oracle(c, got); m != "" {
		t.Fatalf("rejected: %s", m)
	}
	found := false
	for _, tg := range c.Tags {
		found = found || tg == "leading-Empty-after-nulls"
	}
	if !found {
		t.Fatalf("tags %v", c.Tags)
	}
	// the leading Empty() lost its separator in both renders: rejected on the raw bytes
	bad := append([]hist.Obs{}, got...)
	for i := range bad {
		bad[i].Out = strings.Replace(bad[i].Out, "[:i1", "[i1", 1)
	}
	if m := (c13{}).Oracle(c, bad); m == "" {
		t.Fatalf("`[i1:i2]` accepted for Index(nil, Null(), Empty(), i1, i2)")
	}
}

// ---- group-null (c13_group.go) and custom-half (c13_custom.go) ----

func c13CaseWithTag(cs []*Case, tag string) *Case {
	for _, c := range cs {
		for _, tg := range c.Tags {
			if tg == tag {
				return c
			}
		}
	}
	return nil
}

// the fixed shapes hold on the implementation, re-execution gives the same observations, and
// hand-made bad outputs are rejected: an untouched g.Null() that shows the tokens chained onto
// ANOTHER g.Null() result (what a shared null statement produces), in the mutated values only
// and in both versions alike.
func TestC13GroupNullOracle(t *testing.T) {
	p := c13{}
	fixed := c13gFixed()
	for _, c := range fixed {
		got := ExecFresh(c.Hist)
		if m := p.Oracle(c, got); m != "" {
			t.Fatalf("%v: rejected on the implementation: %s", c.Tags, m)
		}
		again := ExecFresh(c.Hist)
		for i := range got {
			if !hist.SameObs(got[i], again[i]) {
				t.Fatalf("%v: re-execution differs at observation %d", c.Tags, i)
			}
		}
	}
	c := c13CaseWithTag(fixed, "shape=params-slot")
	good := ExecFresh(c.Hist)
	want1 := "package p\n\nimport \"context\"\n\n\nfunc f (a,ctx context.Context,b)"
	if good[2].Out != want1 {
		t.Fatalf("stage 1 renders %q", good[2].Out)
	}
	shared := "package p\n\nimport \"context\"\n\n\nfunc f (a,ctx context.Context,b,ctx context.Context)"
	bad := append([]hist.Obs{}, good...)
	bad[2].Out = shared
	if m := p.Oracle(c, bad); m == "" {
		t.Errorf("the untouched g.Null() shows the other slot's tokens: accepted")
	}
	bad[3].Out = shared // the twin wrong in the same way: the pinned bytes decide
	if m := p.Oracle(c, bad); m == "" {
		t.Errorf("both versions wrong in the same way: accepted")
	}
	bad = append([]hist.Obs{}, good...)
	bad[4].Out = shared // only the render AFTER the one that followed the chaining
	if m := p.Oracle(c, bad); m == "" {
		t.Errorf("a later render differs: accepted")
	}
	bad = append([]hist.Obs{}, good...)
	bad[0].Out = "package p\n\n\nfunc f (a,,b)" // a separator for the unfilled slot
	bad[1].Out = bad[0].Out
	if m := p.Oracle(c, bad); m == "" {
		t.Errorf("separator for an unfilled slot: accepted")
	}
	bad = append([]hist.Obs{}, good...)
	bad[len(bad)-2].Out = "package p\n\n\n<x>" // an untouched statement returned by g.Null() renders something
	if m := p.Oracle(c, bad); m == "" {
		t.Errorf("an untouched g.Null() statement renders something: accepted")
	}
	// random cases: accepted on the implementation; single raw lists are cut at their items
	r := rand.New(rand.NewSource(5))
	counted := 0
	for i := 0; i < 300; i++ {
		c := c13gRandom(r, i%3 == 0)
		got := ExecFresh(c.Hist)
		if m := p.Oracle(c, got); m != "" {
			t.Fatalf("rejected on the implementation: %s\n%s", m, c.Hist.Sexp())
		}
		if i%3 != 0 {
			continue
		}
		// both versions get one more separator in front of the first item: pairs stay equal
		bad := append([]hist.Obs{}, got...)
		k := strings.Index(bad[0].Out, "i0")
		sp := c.Meta["spec"].(*c13gSpec)
		sep := sp.Stmts[0].Groups[0].Opts.Separator
		if sp.Stmts[0].Groups[0].Method != "Custom" {
			sep = c13Doc[sp.Stmts[0].Groups[0].Method].Sep
		}
		if k < 0 || sep == "" || strings.Index(bad[1].Out, "i0") != k {
			continue
		}
		bad[0].Out = bad[0].Out[:k] + sep + bad[0].Out[k:]
		bad[1].Out = bad[0].Out
		if m := p.Oracle(c, bad); m == "" {
			t.Fatalf("a separator before the first item in both versions: accepted\n%q", bad[0].Out)
		}
		counted++
	}
	if counted < 30 {
		t.Errorf("only %d single raw lists had their separators counted", counted)
	}
}

func TestC13HalfOracle(t *testing.T) {
	p := c13{}
	cs := c13HalfCases()
	n := 0
	for _, c := range cs {
		if c13CaseWithTag([]*Case{c}, "pinned-raw-bytes") == nil && n%9 != 0 {
			n++
			continue
		}
		n++
		if m := p.Oracle(c, ExecFresh(c.Hist)); m != "" {
			t.Fatalf("%v: rejected on the implementation: %s\n%s", c.Tags, m, c.Hist.Sexp())
		}
	}
	// []T{{}, y}: Values(Custom(Options{Close: "{}"}, Null(), nil, ...), i0)
	var c *Case
	for _, x := range cs {
		if x.Meta["pinned"] == "{{},i0}" && x.Meta["nulls"] == 3 {
			c = x
		}
	}
	if c == nil {
		t.Fatal("pinned shape {{},i0} with nulls not generated")
	}
	hd := "package p\n\n\n"
	w := func(s string) hist.Obs { return hist.Obs{Kind: "write", Out: hd + s} }
	if m := p.Oracle(c, []hist.Obs{w("{{},i0}"), w("{{},i0}")}); m != "" {
		t.Errorf("good output rejected: %s", m)
	}
	for _, bad := range [][2]string{
		{"{i0}", "{i0}"},        // the close-only group taken for a null item in both versions
		{"{i0}", "{{},i0}"},     // ... only where it holds null items
		{"{,i0}", "{,i0}"},      // its token dropped, its separator kept
		{"{{}i0}", "{{}i0}"},    // its token kept, its separator dropped
		{"{{},,i0}", "{{},i0}"}, // a null item inside it leaks a separator outside
	} {
		if m := p.Oracle(c, []hist.Obs{w(bad[0]), w(bad[1])}); m == "" {
			t.Errorf("bad outputs %q accepted", bad)
		}
	}
	if m := p.Oracle(c, []hist.Obs{{Kind: "panic", Msg: "x"}, w("{{},i0}")}); m == "" {
		t.Errorf("panic accepted")
	}
}
