package props

import (
	"fmt"
	"math/rand"
	"strings"
	"testing"

	"verifharness/hist"
)

func TestC13CheckListAccepts(t *testing.T) {
	good := []struct {
		body     string
		names    []string
		sep      string
		multi    bool
		hasClose bool
	}{
		{"(i0,i1,i2)", []string{"i0", "i1", "i2"}, ",", false, true},
		{"()", nil, ",", false, true},
		{"(i0)", []string{"i0"}, ",", false, true},
		{"[:i1]", []string{"", "i1"}, ":", false, true},             // Index(Empty(), x)
		{"[i0:]", []string{"i0", ""}, ":", false, true},             // Index(x, Empty())
		{"[i0::i2]", []string{"i0", "", "i2"}, ":", false, true},    // Empty in the middle
		{"for ;i1;", []string{"", "i1", ""}, ";", false, false},     // For(Empty(), cond, Empty())
		{"for ;;", []string{"", "", ""}, ";", false, false},         // only Empty items
		{"{\ni0\ni1\n}", []string{"i0", "i1"}, "", true, true},      // Block
		{"{}", nil, "", true, true},                                 // Block()
		{"(\ni0,\ni1,\n)", []string{"i0", "i1"}, ",", true, true},   // Custom multi with commas
		{"\ni0|\ni1", []string{"i0", "i1"}, "|", true, false},       // Custom multi without close
		{"[i0i1]", []string{"i0", "i1"}, "", false, true},           // no separator at all
		{"i0 i1 i2", []string{"i0", "i1", "i2"}, " ", false, false}, // the statement chain
		{"case i0,i1:", []string{"i0", "i1"}, ",", false, true},
		{"", nil, ",", false, true}, // Types() renders nothing
	}
	for _, g := range good {
		if msg := C13CheckList(g.body, g.names, g.sep, g.multi, g.hasClose, true); msg != "" {
			t.Errorf("good list %q rejected: %s", g.body, msg)
		}
	}
}

func TestC13CheckListRejects(t *testing.T) {
	bad := []struct {
		why      string
		body     string
		names    []string
		sep      string
		multi    bool
		hasClose bool
	}{
		{"separator for a null item in the middle", "(i0,,i1)", []string{"i0", "i1"}, ",", false, true},
		{"separator for a leading null item", "(,i0,i1)", []string{"i0", "i1"}, ",", false, true},
		{"separator for a trailing null item", "(i0,i1,)", []string{"i0", "i1"}, ",", false, true},
		{"separator for the only (null) item", "(,)", nil, ",", false, true},
		{"an item was dropped", "(i0,i2)", []string{"i0", "i1", "i2"}, ",", false, true},
		{"an item was duplicated", "(i0,i1,i1)", []string{"i0", "i1"}, ",", false, true},
		{"items out of order", "(i1,i0)", []string{"i0", "i1"}, ",", false, true},
		{"missing separator", "(i0 i1)", []string{"i0", "i1"}, ",", false, true},
		{"Empty() lost its separator (first)", "[i1]", []string{"", "i1"}, ":", false, true},
		{"Empty() lost its separator (last)", "[i0]", []string{"i0", ""}, ":", false, true},
		{"Empty() lost its separator (middle)", "[i0:i2]", []string{"i0", "", "i2"}, ":", false, true},
		{"For lost one semicolon", "for ;i1", []string{"", "i1", ""}, ";", false, false},
		{"For lost both semicolons", "for i1", []string{"", "i1", ""}, ";", false, false},
		{"blank line for a null statement", "{\ni0\n\ni1\n}", []string{"i0", "i1"}, "", true, true},
		{"blank line for a trailing null statement", "{\ni0\n\n}", []string{"i0"}, "", true, true},
		{"line break in an empty block", "{\n}", nil, "", true, true},
		{"wrong separator", "(i0;i1)", []string{"i0", "i1"}, ",", false, true},
		{"double space in the statement chain", "i0  i1", []string{"i0", "i1"}, " ", false, false},
	}
	for _, b := range bad {
		if msg := C13CheckList(b.body, b.names, b.sep, b.multi, b.hasClose, true); msg == "" {
			t.Errorf("%s: bad list %q accepted", b.why, b.body)
		}
	}
}

func c13TestList(name string, n int) *c13List {
	return &c13List{Cons: consByName(c13Constructs(), name), N: n, Inj: make([][]c13Inj, n+1)}
}

func TestC13OracleOnHandMadeOutputs(t *testing.T) {
	p := c13{}
	w := func(s string) hist.Obs { return hist.Obs{Kind: "write", Out: s} }
	l := c13TestList("Call", 2)
	l.Inj[1] = []c13Inj{{Kind: "null"}}
	file := l.listCase("file", "t")
	plain := l.listCase("plain", "t")
	hd := "package p\n\n\n"
	type tc struct {
		c    *Case
		obs  []hist.Obs
		good bool
		why  string
	}
	cases := []tc{
		{file, []hist.Obs{w(hd + "(i0,i1)"), w(hd + "(i0,i1)")}, true, "identical raw outputs"},
		{file, []hist.Obs{w(hd + "(i0,,i1)"), w(hd + "(i0,i1)")}, false, "extra separator for the null item"},
		{file, []hist.Obs{w(hd + "(i0,,i1)"), w(hd + "(i0,,i1)")}, false, "both wrong in the same way: the count decides"},
		{file, []hist.Obs{{Kind: "panic", Msg: "nil pointer"}, w(hd + "(i0,i1)")}, false, "panic with the null item"},
		{file, []hist.Obs{w(hd + "(i0)"), w(hd + "(i0)")}, false, "an item vanished in both"},
		{file, []hist.Obs{w(hd + "(i0,i1)")}, false, "an observation is missing"},
		{plain, []hist.Obs{w("_ = f(i0, i1)"), w("_ = f(i0, i1)")}, true, "identical formatted outputs"},
		{plain, []hist.Obs{w("_ = f(i0, nil, i1)"), w("_ = f(i0, i1)")}, false, "the null item rendered something"},
		{plain, []hist.Obs{{Kind: "fmterr", Out: "_ = f (i0,,i1)"}, w("_ = f(i0, i1)")}, false, "format error only with the null item"},
		{plain, []hist.Obs{{Kind: "fmterr", Out: "x (i0,i1"}, {Kind: "fmterr", Out: "x (i0,i1"}}, true, "the same raw text inside two format errors"},
		{plain, []hist.Obs{{Kind: "fmterr", Out: "x (i0,,i1"}, {Kind: "fmterr", Out: "x (i0,i1"}}, false, "different raw texts inside two format errors"},
	}
	// Empty(): Index(Empty(), i1) must keep the colon
	le := c13TestList("Index", 2)
	le.Empty = []bool{true, false}
	ce := le.listCase("file", "t")
	cases = append(cases,
		tc{ce, []hist.Obs{w(hd + "[:i1]"), w(hd + "[:i1]")}, true, "a[:x]"},
		tc{ce, []hist.Obs{w(hd + "[i1]"), w(hd + "[i1]")}, false, "Empty() treated like Null()"})
	// programs
	prog := &Case{Meta: map[string]interface{}{"kind": "program"}}
	imp := func(ps ...string) hist.Obs {
		o := hist.Obs{Kind: "imports"}
		for _, p := range ps {
			o.Imports = append(o.Imports, hist.Import{Path: p, Name: p})
		}
		return o
	}
	src := "package p\n\nfunc f() {\n}\n"
	cases = append(cases,
		tc{prog, []hist.Obs{w(src), imp("fmt"), w(src), imp("fmt")}, true, "identical programs"},
		tc{prog, []hist.Obs{w(src), imp("fmt", "os"), w(src), imp("fmt")}, false, "import table changed"},
		tc{prog, []hist.Obs{w("package p\n\nfunc f() {\n\tg(a, b)\n}\n"), imp(), w("package p\n\nfunc f() {\n\tg(a, nil, b)\n}\n"), imp()}, false, "bytes changed"},
		tc{prog, []hist.Obs{w("package p\n\nfunc f( {\n"), imp(), w("package p\n\nfunc f( {\n"), imp()}, false, "does not parse"},
		tc{prog, []hist.Obs{{Kind: "fmterr", Out: "x"}, imp(), {Kind: "fmterr", Out: "x"}, imp()}, false, "does not format"})
	// regression shape
	reg := p.Regressions()[0]
	ok := []hist.Obs{w("x"), w("x"), w("x"), w("x"), w(""), w(""), w("f(x)"), w("f(x)"), w("T{}"), w("T{}")}
	cases = append(cases, tc{reg, ok, true, "regression outputs"})
	bad := append([]hist.Obs{}, ok...)
	bad[0] = hist.Obs{Kind: "panic", Msg: "runtime error: invalid memory address or nil pointer dereference"}
	cases = append(cases, tc{reg, bad, false, "List(nil, x) panics"})
	for _, c := range cases {
		msg := p.Oracle(c.c, c.obs)
		if c.good && msg != "" {
			t.Errorf("%s: rejected: %s", c.why, msg)
		}
		if !c.good && msg == "" {
			t.Errorf("%s: accepted", c.why)
		}
	}
}

// every variadic method of the implementation has a documented separator in the oracle
func TestC13DocCoversTheAPI(t *testing.T) {
	for _, m := range VariadicGroups {
		if _, ok := c13Doc[m]; !ok {
			t.Errorf("no documented separator for %s: its lists are compared but their separators not counted", m)
		}
	}
	for _, want := range []string{"Call", "Params", "List", "Values", "Index", "Block", "Defs", "Case", "Types", "Union", "Return", "If", "For", "Switch", "Append"} {
		found := false
		for _, m := range VariadicGroups {
			found = found || m == want
		}
		if !found {
			t.Errorf("construct %s of the property is not a variadic method any more", want)
		}
	}
}

// quick tier: every (construct, arity <= 4, single position, kind) at least once, on raw bytes
func TestC13QuickCoversSinglePositions(t *testing.T) {
	cases := c13{}.Generate(rand.New(rand.NewSource(1)), "quick")
	seen := map[string]bool{}
	nontrivial := 0
	for _, c := range cases {
		if c.NonTrivial {
			nontrivial++
		}
		if c.Stream != "sweep-single" {
			continue
		}
		var cons, ar, pos, kind string
		for _, tg := range c.Tags {
			switch {
			case strings.HasPrefix(tg, "construct="):
				cons = tg
			case strings.HasPrefix(tg, "arity="):
				ar = tg
			case strings.HasPrefix(tg, "kind="):
				kind = tg
			}
		}
		// the exact slot is in the history: count the distinct histories instead
		pos = c.Hist.Sexp()
		seen[cons+" "+ar+" "+kind+" "+pos] = true
	}
	want := 0
	for range c13Constructs() {
		for n := 0; n <= 4; n++ {
			want += (n + 1) * len(c13Kinds)
		}
	}
	if len(seen) < want {
		t.Errorf("only %d distinct single-position cases, want at least %d", len(seen), want)
	}
	if nontrivial < len(cases)/2 {
		t.Errorf("only %d of %d cases are non-trivial", nontrivial, len(cases))
	}
}

// the generated cases hold on the implementation the harness is built with
func TestC13HoldsOnTheImplementation(t *testing.T) {
	p := c13{}
	cases := append(p.Regressions(), p.Generate(rand.New(rand.NewSource(7)), "quick")...)
	for i, c := range cases {
		if i%7 != 0 && c.Name == "" {
			continue
		}
		got := hist.NewWorld().Exec(c.Hist)
		if msg := p.Oracle(c, got); msg != "" {
			t.Fatalf("case %d (%s): %s\n%s", i, c.Stream, msg, fmt.Sprint(c.Hist.Sexp()))
		}
	}
}

// render-twice: the real implementation is accepted; a later render of the same tree that
// repeats an item (what an in-place compaction of the item slice produces) is rejected, and
// so is a difference between the injected tree and its twin in a later render only.
func TestC13RenderTwice(t *testing.T) {
	r := rand.New(rand.NewSource(13))
	cons := c13Constructs()
	nt, rejected := 0, 0
	for i := 0; i < 400; i++ {
		c := c13TwiceCase(r, cons, i)
		got := ExecFresh(c.Hist)
		if m := (c13{}).Oracle(c, got); m != "" {
			t.Fatalf("oracle rejects the real implementation: %s\n%s", m, c.Hist.Sexp())
		}
		if c.NonTrivial {
			nt++
		}
		ways := c.Meta["ways"].([]string)
		k := len(ways)
		// corrupt the LAST render of the injected tree only (the first one stays correct)
		bad := append([]hist.Obs{}, got...)
		if bad[k-1].Kind != "write" && bad[k-1].Kind != "fmterr" {
			continue
		}
		bad[k-1].Out += "i9"
		if m := (c13{}).Oracle(c, bad); m == "" {
			t.Fatalf("a later render that differs was accepted\n%s", c.Hist.Sexp())
		}
		// both the injected tree and its twin drift in the same way in a repeated render:
		// only the comparison with the first render of the same kind sees it
		if k >= 2 && ways[k-1] == ways[0] {
			bad2 := append([]hist.Obs{}, got...)
			bad2[k-1].Out += "i9"
			bad2[2*k-1].Out += "i9"
			if m := (c13{}).Oracle(c, bad2); !strings.Contains(m, "differs from render") {
				t.Fatalf("a drift common to both trees was accepted: %q", m)
			}
			rejected++
		}
	}
	if nt < 350 || rejected < 100 {
		t.Fatalf("non-trivial %d of 400, drift checks %d", nt, rejected)
	}
}

func TestC13LeadingEmptyRawBytes(t *testing.T) {
	cons := c13Constructs()
	l := &c13List{Cons: consByName(cons, "Index"), N: 3, Empty: []bool{true, false, false},
		Inj: [][]c13Inj{{{Kind: "nil"}, {Kind: "null"}}, nil, nil, nil}}
	c := l.listCase("file", "empty")
	c.Meta["wantraw"] = "[:i1:i2]"
	got := ExecFresh(c.Hist)
	if m := (c13{}).Oracle(c, got); m != "" {
		t.Fatalf("rejected: %s", m)
	}
	found := false
	for _, tg := range c.Tags {
		found = found || tg == "leading-Empty-after-nulls"
	}
	if !found {
		t.Fatalf("tags %v", c.Tags)
	}
	// the leading Empty() lost its separator in both renders: rejected on the raw bytes
	bad := append([]hist.Obs{}, got...)
	for i := range bad {
		bad[i].Out = strings.Replace(bad[i].Out, "[:i1", "[i1", 1)
	}
	if m := (c13{}).Oracle(c, bad); m == "" {
		t.Fatalf("`[i1:i2]` accepted for Index(nil, Null(), Empty(), i1, i2)")
	}
}
