package props

import (
	"fmt"
	"math/rand"
	"sort"
	"strings"

	"github.com/dave/jennifer/jen"

	"verifharness/hist"
	"verifharness/term"
)

// Histories over RETAINED POINTERS to nested placeholder statements (shared by C08, stream
// nested-fill, and C16, stream fill-between-renders).
//
// A placeholder ("hole") is a *Statement that is created empty (`&Statement{}` / Add()) or
// null (Null(), Null().Null(), Add(Add())) and is placed INSIDE a tree: as an item of a group
// (any method; the groups without delimiters - List, Union, a Custom without open/close - and
// Types are the ones whose nullness depends on it), as the key or the value of a Dict pair, or
// as a direct item of a statement (Add(hole)), at any depth.  The caller keeps the pointer and
// EXTENDS the hole later (hole.Id(..), hole.List(..), ...), after the tree has already been
// rendered; what is appended may contain further holes.  Statements only grow, so a hole that
// has become non-null stays so; a second hole of the same group may be filled in a later round.
//
// The model has no pointers (a code value is a tree).  It does not need any: the line the
// model reads holds, for every render, the tree AS IT IS at that point of the history
// (serialised when the line is built, while the generator replays the extensions on the term
// nodes), in ordinary operations of the op language:
//
//	Statement.RenderWithFile(w, f)   (rcode 0 <tree now> 0)         on the one model File 0
//	Statement.Render / GoString      (rplain <tree now> 0)
//	File.Render / File.GoString      a scratch File k: the File-only operations so far
//	                                 (constructor, hints, prefix, NoFormat, Anon), then for every
//	                                 earlier render with the File an rcode of the tree as it was
//	                                 THEN (this gives File k the import table File 0 has now), then
//	                                 (fadd k <body statement now>)... and (render k 0); afterwards
//	                                 File 0 renders the same body as one delimiter-less multi
//	                                 Custom group, which registers what File.Render registered
//
// The replayed rcodes print observations nobody is interested in: they are marked "skip" and
// left out of the comparison.  The implementation side executes the real thing: ONE File, the
// values built once, extended through the retained pointers, rendered again and again.
//
// All operations are "ext" ops (hist/ext.go): the text is printed verbatim and Op.Run computes
// the implementation-side observation.

type c08fHole struct {
	St   *term.Stmt
	Init int    // number of items it is created with
	Site string // where it sits (tag)
	Root int    // which top-level value it belongs to (generator bookkeeping)
	// Fill, when set, draws what the next extension appends (valid-Go templates); nil: any content
	Fill       func(g *c08fGen, h *c08fHole) []term.Node
	seen, late bool // rendered while unfilled / extended after that
	fills      int
}

type c08fStep struct {
	Kind  string      // set | fadd | ext | render | fgostring | rcode | rplain | gostring | imports
	Op    hist.Op     // set: a File-only operation on File 0 (constructor included)
	St    *term.Stmt  // fadd: the statement whose items are added; rcode rplain gostring: the target; ext: the hole
	Items []term.Node // ext: what is appended
	Verb  bool        // gostring: through fmt.Sprintf("%#v", s)
}

type c08fSpec struct {
	Steps []c08fStep
	Holes []*c08fHole
}

// c08fView describes one observation of the line.
type c08fView struct {
	Kind   string // skip | render | fgostring | rcode | rplain | gostring | imports
	Step   int    // its step (not for skip)
	Repeat bool   // the step before it is the same render of the same value
}

// reset puts every hole back to the state it is created in.
func (sp *c08fSpec) reset() {
	for _, h := range sp.Holes {
		h.St.Items = h.St.Items[:h.Init:h.Init]
	}
}

// c08fFresh copies a term: new nodes throughout (a Builder builds new values for it).
func c08fFresh(n term.Node) term.Node {
	switch x := n.(type) {
	case *term.Stmt:
		out := &term.Stmt{Items: make([]term.Node, len(x.Items))}
		for i, it := range x.Items {
			out.Items[i] = c08fFresh(it)
		}
		return out
	case *term.Group:
		g := *x
		g.Items = make([]term.Node, len(x.Items))
		for i, it := range x.Items {
			g.Items[i] = c08fFresh(it)
		}
		return &g
	case *term.Dict:
		d := &term.Dict{Pairs: make([][2]term.Node, len(x.Pairs))}
		for i, p := range x.Pairs {
			d.Pairs[i] = [2]term.Node{c08fFresh(p[0]), c08fFresh(p[1])}
		}
		return d
	}
	return n
}

func c08fOpText(op hist.Op, fid int) string {
	op.F = fid
	return hist.History{op}.Sexp()
}

var c08fBody = jen.Options{Multi: true}

// c08fBuild writes the line and wires the implementation-side executor.
func c08fBuild(sp *c08fSpec) (hist.History, []c08fView) {
	sp.reset()
	ex := &c08fExec{sp: sp}
	z := term.NewSer()
	var h hist.History
	var views []c08fView
	type preOp struct {
		text func(fid int) string
		obs  bool
	}
	var pre []preOp
	var body []*term.Stmt
	nobs, scratch := 0, 0
	skip := func() hist.Obs { return hist.Obs{Kind: "skip"} }
	quiet := func(line string) { h = append(h, hist.Op{Kind: "ext", A: line}) }
	skipped := func(line string) {
		h = append(h, hist.Op{Kind: "ext", A: line, Run: skip})
		views = append(views, c08fView{Kind: "skip"})
	}
	real := func(line string, step int) {
		idx := nobs
		nobs++
		h = append(h, hist.Op{Kind: "ext", A: line, Run: func() hist.Obs { return ex.obs(idx) }})
		st := sp.Steps[step]
		v := c08fView{Kind: st.Kind, Step: step}
		if step > 0 {
			p := sp.Steps[step-1]
			v.Repeat = p.Kind == st.Kind && p.St == st.St && p.Verb == st.Verb
		}
		views = append(views, v)
	}
	for i, st := range sp.Steps {
		switch st.Kind {
		case "set":
			op := st.Op
			quiet(c08fOpText(op, 0))
			pre = append(pre, preOp{text: func(fid int) string { return c08fOpText(op, fid) }})
		case "fadd":
			body = append(body, st.St)
		case "ext":
			st.St.Items = append(st.St.Items, st.Items...)
		case "rcode":
			s := z.Sexp(st.St)
			real("(rcode 0 "+s+" 0)", i)
			pre = append(pre, preOp{text: func(fid int) string { return fmt.Sprintf("(rcode %d %s 0)", fid, s) }, obs: true})
		case "rplain", "gostring":
			real("(rplain "+z.Sexp(st.St)+" 0)", i)
		case "render", "fgostring":
			scratch++
			for _, p := range pre {
				if p.obs {
					skipped(p.text(scratch))
				} else {
					quiet(p.text(scratch))
				}
			}
			items := make([]term.Node, len(body))
			for j, b := range body {
				quiet(fmt.Sprintf("(fadd %d %s)", scratch, z.Sexp(b)))
				items[j] = b
			}
			real(fmt.Sprintf("(render %d 0)", scratch), i)
			s := z.Sexp(term.Custom(c08fBody, items...))
			skipped("(rcode 0 " + s + " 0)")
			pre = append(pre, preOp{text: func(fid int) string { return fmt.Sprintf("(rcode %d %s 0)", fid, s) }, obs: true})
		case "imports":
			real("(imports 0)", i)
		default:
			panic("c08f: bad step " + st.Kind)
		}
	}
	ex.total = nobs
	return h, views
}

// ---- the implementation side ----

type c08fExec struct {
	sp    *c08fSpec
	total int
	next  int // index of the next observation
	pos   int // next step
	w     *hist.World
}

func (ex *c08fExec) restart() {
	ex.sp.reset()
	ex.w, ex.next, ex.pos = hist.NewWorld(), 0, 0
}

const c08fFmtMarker = " while formatting source:\n"

// c08fGoString classifies what GoString does: it returns the text, or panics with the error
// of Render (a format error is reported as such, like everywhere else).
func c08fGoString(run func() string) (o hist.Obs) {
	defer func() {
		if r := recover(); r != nil {
			if err, ok := r.(error); ok {
				msg := err.Error()
				if k := strings.Index(msg, c08fFmtMarker); k >= 0 && strings.HasPrefix(msg, "Error ") {
					o = hist.Obs{Kind: "fmterr", Out: msg[k+len(c08fFmtMarker):], Msg: msg[:k]}
					return
				}
			}
			o = hist.Obs{Kind: "panic", Msg: fmt.Sprint(r)}
		}
	}()
	out := run()
	const pfx = "%!v(PANIC=GoString method: "
	if strings.HasPrefix(out, pfx) && strings.HasSuffix(out, ")") {
		// fmt recovers a panicking GoString method and prints the panic value instead
		msg := out[len(pfx) : len(out)-1]
		if k := strings.Index(msg, c08fFmtMarker); k >= 0 && strings.HasPrefix(msg, "Error ") {
			return hist.Obs{Kind: "fmterr", Out: msg[k+len(c08fFmtMarker):], Msg: msg[:k]}
		}
		return hist.Obs{Kind: "panic", Msg: msg}
	}
	return hist.Obs{Kind: "write", Out: out, Writes: 1}
}

// Runaway guard.  The trees of these streams render to a few KB.  An implementation whose
// renders leak into one another through process-wide state (e.g. scratch buffers that are
// handed back dirty) can make the outputs grow with every render - exponentially along a
// chain of failing renders - until the harness runs out of memory, because these streams
// render (and re-render in the twins) many times per case.  Once one output exceeds
// c08fMaxOut the output is cut, and the remaining cases of the run are NOT executed by these
// streams: their observations are "bad" (reported as failures), the other streams go on.
const c08fMaxOut = 1 << 20

var c08fRunaway int // size of the first output beyond c08fMaxOut (0: none so far)

func c08fGuard(o hist.Obs) hist.Obs {
	if len(o.Out) > c08fMaxOut {
		if c08fRunaway == 0 {
			c08fRunaway = len(o.Out)
		}
		o.Out = o.Out[:4096] + fmt.Sprintf("... (cut by the harness: %d bytes for a tree that renders to a few KB)", len(o.Out))
	}
	return o
}

func c08fRunawayObs() hist.Obs {
	return hist.Obs{Kind: "bad", Msg: fmt.Sprintf("not executed: an earlier render of this run wrote %d bytes for a tree that renders to a few KB (runaway output)", c08fRunaway)}
}

func c08fOne(w *hist.World, op hist.Op) hist.Obs {
	obs := w.Exec(hist.History{op})
	if len(obs) != 1 {
		return hist.Obs{Kind: "bad", Msg: fmt.Sprintf("c08f: %s gave %d observations", op.Kind, len(obs))}
	}
	return c08fGuard(obs[0])
}

// step executes one step on the retained values.
func (ex *c08fExec) step(st c08fStep) (hist.Obs, bool) {
	w := ex.w
	switch st.Kind {
	case "set":
		w.Exec(hist.History{st.Op})
	case "fadd":
		w.Exec(hist.History{{Kind: "fadd", F: 0, Code: st.St}})
	case "ext":
		s := w.B.Stmt(st.St) // the retained pointer (built now if the hole is not part of a built value yet)
		for _, it := range st.Items {
			w.B.Append(s, it)
		}
		st.St.Items = append(st.St.Items, st.Items...)
	case "render":
		return c08fOne(w, hist.Op{Kind: "render", F: 0}), true
	case "fgostring":
		f := w.Files[0]
		return c08fGuard(c08fGoString(func() string { return f.GoString() })), true
	case "rcode":
		return c08fOne(w, hist.Op{Kind: "rcode", F: 0, Code: st.St}), true
	case "rplain":
		return c08fOne(w, hist.Op{Kind: "rplain", Code: st.St}), true
	case "gostring":
		s := w.B.Stmt(st.St)
		if st.Verb {
			return c08fGuard(c08fGoString(func() string { return fmt.Sprintf("%#v", s) })), true
		}
		return c08fGuard(c08fGoString(func() string { return s.GoString() })), true
	case "imports":
		return hist.ImportsObs(w.Files[0]), true
	default:
		panic("c08f: bad step " + st.Kind)
	}
	return hist.Obs{}, false
}

// obs produces observation k (the executor runs forward; asked for anything but the next
// observation it starts again from the beginning).
func (ex *c08fExec) obs(k int) (o hist.Obs) {
	defer func() {
		if r := recover(); r != nil {
			o = hist.Obs{Kind: "bad", Msg: "c08f: harness panic while executing: " + fmt.Sprint(r)}
			ex.w = nil
		}
		if k == ex.total-1 {
			ex.w = nil // release the jen values
		}
	}()
	if c08fRunaway > 0 {
		return c08fRunawayObs()
	}
	if k == 0 || ex.w == nil || k != ex.next {
		ex.restart()
	}
	for ex.pos < len(ex.sp.Steps) {
		st := ex.sp.Steps[ex.pos]
		ex.pos++
		if got, is := ex.step(st); is {
			ex.next++
			if ex.next-1 == k {
				return got
			}
		}
	}
	return hist.Obs{Kind: "bad", Msg: fmt.Sprintf("c08f: no observation %d", k)}
}

// ---- comparison with the model ----

func c08fCompare(views []c08fView, exp, got []hist.Obs) string {
	if len(exp) != len(views) || len(got) != len(views) {
		return fmt.Sprintf("observation count differs: model %d, implementation %d, expected %d", len(exp), len(got), len(views))
	}
	for i, v := range views {
		if v.Kind == "skip" {
			continue
		}
		if exp[i].Kind == "panic" && got[i].Kind == "panic" {
			return "" // as CompareAll: the state after a panic is not specified
		}
		if !hist.SameObs(exp[i], got[i]) {
			return fmt.Sprintf("observation %d (%s, step %d) differs:\n  model: %s\n  impl:  %s", i, v.Kind, v.Step, exp[i], got[i])
		}
	}
	return ""
}

// ---- the from-scratch twin ----

// twins computes, for every observation that is not skipped, what the implementation gives
// when NOTHING is retained: the tree as it is at that render is built from scratch (new
// values, no hole was ever null in them, nothing was ever rendered before), with a new File
// that has received the same File-only operations and has rendered from-scratch copies of the
// earlier trees (so its import table has the same history).
func (sp *c08fSpec) twins() []hist.Obs {
	sp.reset()
	var pre []hist.Op
	var body []*term.Stmt
	var out []hist.Obs
	world := func() *hist.World {
		w := hist.NewWorld()
		w.Exec(pre) // observations of the replayed renders are dropped
		return w
	}
	one := func(f func() hist.Obs) {
		if c08fRunaway > 0 {
			out = append(out, c08fRunawayObs())
			return
		}
		defer func() {
			if r := recover(); r != nil {
				out = append(out, hist.Obs{Kind: "bad", Msg: "c08f: harness panic in the twin: " + fmt.Sprint(r)})
			}
		}()
		out = append(out, f())
	}
	for _, st := range sp.Steps {
		switch st.Kind {
		case "set":
			pre = append(pre, st.Op)
		case "fadd":
			body = append(body, st.St)
		case "ext":
			st.St.Items = append(st.St.Items, st.Items...)
		case "rcode":
			op := hist.Op{Kind: "rcode", F: 0, Code: c08fFresh(st.St)}
			one(func() hist.Obs { return c08fOne(world(), op) })
			pre = append(pre, op)
		case "rplain", "gostring":
			op := hist.Op{Kind: "rplain", Code: c08fFresh(st.St)}
			one(func() hist.Obs { return c08fOne(hist.NewWorld(), op) })
		case "render", "fgostring":
			var adds hist.History
			items := make([]term.Node, len(body))
			for j, b := range body {
				items[j] = c08fFresh(b)
				adds = append(adds, hist.Op{Kind: "fadd", F: 0, Code: items[j]})
			}
			one(func() hist.Obs {
				w := world()
				w.Exec(adds)
				return c08fOne(w, hist.Op{Kind: "render", F: 0})
			})
			pre = append(pre, hist.Op{Kind: "rcode", F: 0, Code: term.S(term.Custom(c08fBody, items...))})
		case "imports":
			one(func() hist.Obs { return hist.ImportsObs(world().Files[0]) })
		}
	}
	return out
}

// c08fTwinOracle: (1) a render repeated immediately gives the same bytes; (2) every render
// gives what the from-scratch twin gives (same class, same bytes, same import table): no
// earlier render and no earlier state of a hole has left a trace.  mustWrite: every render has
// to succeed (streams whose trees are valid Go).
func c08fTwinOracle(sp *c08fSpec, views []c08fView, got []hist.Obs, mustWrite bool) string {
	if len(got) != len(views) {
		return fmt.Sprintf("expected %d observations, got %d", len(views), len(got))
	}
	tw := sp.twins()
	k := 0
	prev := -1
	for i, v := range views {
		if v.Kind == "skip" {
			continue
		}
		o, t := got[i], tw[k]
		k++
		if o.Kind == "bad" || t.Kind == "bad" {
			return fmt.Sprintf("observation %d (%s): harness fault: %s / %s", i, v.Kind, o, t)
		}
		if v.Kind != "imports" {
			if mustWrite && (o.Kind != "write" || o.Failed) {
				return fmt.Sprintf("observation %d (%s, step %d) did not render: %s", i, v.Kind, v.Step, o)
			}
			if v.Repeat && prev >= 0 {
				if p := got[prev]; p.Kind != o.Kind || p.Out != o.Out {
					return fmt.Sprintf("observation %d repeats observation %d (%s of the same value, nothing in between) but the results differ:\n first:  %s\n second: %s", i, prev, v.Kind, p, o)
				}
			}
		}
		if !c08fSameTwin(t, o) {
			return fmt.Sprintf("observation %d (%s, step %d): the values that were rendered before and extended through retained pointers give\n  %s\nthe same tree built from scratch (same File history) gives\n  %s", i, v.Kind, v.Step, o, t)
		}
		if o.Kind == "panic" {
			return "" // the state after a panic is not specified
		}
		prev = i
	}
	return ""
}

func c08fSameTwin(t, o hist.Obs) bool {
	if t.Kind != o.Kind {
		return false
	}
	switch t.Kind {
	case "panic":
		return true
	case "imports":
		return hist.SameObs(t, o)
	}
	return t.Out == o.Out && t.Failed == o.Failed
}

// ---- generation: stream nested-fill of C08 ----

// c08fPaths have pairwise distinct guessed names (and no hint of the stream gives one name to
// two paths): no two paths ever compete for a name, so Dict keys that are Quals register the
// same names in every map order (the recorded finding dict-keys-register-in-map-order is
// about competing paths).
var c08fPaths = []string{"fmt", "os", "errors", "time", "a.b/d", "x.y/pkg", "e.f/zed"}

type c08fGen struct {
	r       *rand.Rand
	sp      *c08fSpec
	tags    map[string]bool
	nz      int
	gen     *Gen
	pending []*c08fHole
	root    int
}

func (g *c08fGen) tag(s string) { g.tags[s] = true }

func (g *c08fGen) step(st c08fStep) { g.sp.Steps = append(g.sp.Steps, st) }

func (g *c08fGen) marker() string {
	g.nz++
	return fmt.Sprintf("Z%d", g.nz)
}

var c08fHoleKinds = []string{"empty", "null", "nullnull", "addempty"}

// hole makes a placeholder of a random kind.
func (g *c08fGen) hole(site string, fill func(g *c08fGen, h *c08fHole) []term.Node) *term.Stmt {
	var st *term.Stmt
	kind := c08fHoleKinds[g.r.Intn(len(c08fHoleKinds))]
	switch kind {
	case "empty":
		st = term.S() // &Statement{} / Add()
	case "null":
		st = term.S(term.Null()) // Null()
	case "nullnull":
		st = term.S(term.Null(), term.Null())
	default:
		st = term.S(term.S()) // Add(Add())
	}
	h := &c08fHole{St: st, Init: len(st.Items), Site: site, Root: g.root, Fill: fill}
	g.sp.Holes = append(g.sp.Holes, h)
	g.pending = append(g.pending, h)
	g.tag("hole=" + kind)
	g.tag("site=" + site)
	return st
}

func c08fNoDelim(x *term.Group) bool {
	switch x.Method {
	case "List", "Union":
		return true
	case "Custom":
		return x.Opts.Open == "" && x.Opts.Close == ""
	}
	return false
}

func c08fSite(x *term.Group) string {
	switch {
	case x.Method == "Custom" && c08fNoDelim(x):
		return "Custom-no-delimiters"
	case x.Method == "Custom":
		return "Custom-delimited"
	}
	return x.Method
}

func c08fIn(l []string, s string) bool {
	for _, x := range l {
		if x == s {
			return true
		}
	}
	return false
}

func insertNode(l []term.Node, i int, n term.Node) []term.Node {
	l = append(l, nil)
	copy(l[i+1:], l[i:])
	l[i] = n
	return l
}

// inject walks a random tree and puts holes into it.
func (g *c08fGen) inject(st *term.Stmt, depth int) {
	r := g.r
	for _, it := range st.Items {
		switch x := it.(type) {
		case *term.Group:
			g.injectGroup(x, depth+1)
		case *term.Stmt:
			g.inject(x, depth+1)
		}
	}
	if r.Intn(8) == 0 {
		st.Items = insertNode(st.Items, r.Intn(len(st.Items)+1), g.hole("statement-item", nil))
		g.depth(depth)
	}
}

func (g *c08fGen) depth(d int) {
	if d > 4 {
		d = 4
	}
	g.tag(fmt.Sprintf("hole-depth=%d", d))
}

func (g *c08fGen) injectGroup(x *term.Group, depth int) {
	r := g.r
	if x.Method == "Qual" || c08fIn(ZeroGroups, x.Method) {
		return
	}
	if len(x.Items) == 1 {
		if d, ok := x.Items[0].(*term.Dict); ok {
			g.injectDict(d, depth)
			return
		}
	}
	for _, it := range x.Items {
		if s, ok := it.(*term.Stmt); ok {
			g.inject(s, depth)
		}
	}
	if c08fIn(FixedGroups, x.Method) {
		if r.Intn(3) == 0 {
			x.Items[0] = g.hole(c08fSite(x), nil)
			g.depth(depth)
		}
		return
	}
	p := 3
	if c08fNoDelim(x) || x.Method == "Types" {
		p = 1
	}
	for n := 2; n > 0 && r.Intn(p+2-n) == 0; n-- {
		x.Items = insertNode(x.Items, r.Intn(len(x.Items)+1), g.hole(c08fSite(x), nil))
		g.depth(depth)
	}
}

func (g *c08fGen) injectDict(d *term.Dict, depth int) {
	r := g.r
	for i := range d.Pairs {
		if s, ok := d.Pairs[i][1].(*term.Stmt); ok {
			g.inject(s, depth+1)
		}
		if r.Intn(4) == 0 {
			d.Pairs[i][1] = g.hole("dict-value", nil)
			g.depth(depth)
		}
	}
	for n := r.Intn(3); n > 0; n-- {
		var k, v term.Node
		switch r.Intn(3) {
		case 0:
			k, v = g.hole("dict-key", nil), g.atom()
		case 1:
			k, v = term.S(term.Id(g.marker())), g.hole("dict-value", nil)
		default:
			k, v = g.hole("dict-key", nil), g.hole("dict-value", nil)
			g.tag("dict-pair-of-two-holes")
		}
		d.Pairs = append(d.Pairs, [2]term.Node{k, v})
		g.depth(depth)
	}
}

func (g *c08fGen) atom() *term.Stmt {
	r := g.r
	switch r.Intn(4) {
	case 0:
		return term.S(term.Lit(r.Intn(100)))
	case 1:
		return term.S(term.Qual(pick(r, c08fPaths), g.marker()))
	case 2:
		return term.S(term.Id(g.marker()), term.G("Call"))
	}
	return term.S(term.Id(g.marker()))
}

func (g *c08fGen) nullish() term.Node {
	switch g.r.Intn(6) {
	case 0:
		return term.Nil{}
	case 1:
		return term.NilStmt{}
	case 2:
		return term.S(term.Null())
	case 3:
		return term.S()
	case 4:
		return term.S(term.G("List", term.S(term.Null()), term.Nil{}))
	}
	return term.NilGroup{}
}

var c08fNoDelimOpts = []jen.Options{{}, {Separator: ","}, {Separator: ";"}, {Multi: true}, {Separator: ",", Multi: true}}

// anyGroup draws a group construct; biased to the ones whose nullness depends on the items.
func (g *c08fGen) anyGroup(items ...term.Node) *term.Group {
	r := g.r
	switch r.Intn(8) {
	case 0, 1:
		return term.G("List", items...)
	case 2:
		return term.Custom(c08fNoDelimOpts[r.Intn(len(c08fNoDelimOpts))], items...)
	case 3:
		return term.G("Types", items...)
	case 4:
		return term.G("Union", items...)
	case 5:
		return term.Custom(jen.Options{Open: pick(r, []string{"(", "<", ""}), Close: pick(r, []string{")", ">"}), Separator: ","}, items...)
	}
	return term.G(pick(r, VariadicGroups), items...)
}

// nest draws a statement that holds one group whose items are holes, nullish items, atoms and
// further such statements: chains of groups that are null as long as their holes are.
func (g *c08fGen) nest(levels, depth int) *term.Stmt {
	r := g.r
	st := term.S()
	if r.Intn(3) > 0 {
		st.Items = append(st.Items, term.Id(g.marker()))
	}
	if r.Intn(5) == 0 {
		// a Dict: holes as keys and values
		d := &term.Dict{}
		for n := 1 + r.Intn(3); n > 0; n-- {
			var k, v term.Node
			switch r.Intn(4) {
			case 0:
				k, v = g.hole("dict-key", nil), g.atom()
			case 1:
				k, v = term.S(term.Id(g.marker())), g.hole("dict-value", nil)
			case 2:
				k, v = g.hole("dict-key", nil), g.hole("dict-value", nil)
				g.tag("dict-pair-of-two-holes")
			default:
				k, v = term.S(term.Id(g.marker())), g.atom()
				if levels > 1 && r.Intn(2) == 0 {
					v = g.nest(levels-1, depth+2)
				}
			}
			d.Pairs = append(d.Pairs, [2]term.Node{k, v})
		}
		g.depth(depth + 1)
		st.Items = append(st.Items, term.G("Values", d))
		return st
	}
	grp := g.anyGroup()
	atoms := r.Intn(3) == 0 // otherwise the group holds nothing but holes and nullish items
	for n := 1 + r.Intn(3); n > 0; n-- {
		switch k := r.Intn(6); {
		case k < 2:
			grp.Items = append(grp.Items, g.hole(c08fSite(grp), nil))
			g.depth(depth + 1)
		case k == 2 && levels > 1, k == 3 && levels > 1:
			grp.Items = append(grp.Items, g.nest(levels-1, depth+1))
		case k == 4 && atoms:
			grp.Items = append(grp.Items, g.atom())
		default:
			grp.Items = append(grp.Items, g.nullish())
		}
	}
	if !atoms {
		g.tag("group-of-nulls-only")
	}
	st.Items = append(st.Items, grp)
	return st
}

// tree draws one top-level value of the raw family.
func (g *c08fGen) tree() *term.Stmt {
	before := len(g.sp.Holes)
	var st *term.Stmt
	if g.r.Intn(2) == 0 {
		st = g.gen.Stmt(0)
		g.inject(st, 0)
		g.tag("tree=random+holes")
	} else {
		st = g.nest(1+g.r.Intn(4), 0)
		g.tag("tree=nest")
	}
	if len(g.sp.Holes) == before {
		grp := g.anyGroup(g.hole("", nil))
		g.sp.Holes[len(g.sp.Holes)-1].Site = c08fSite(grp)
		g.tag("site=" + c08fSite(grp))
		delete(g.tags, "site=")
		g.depth(1)
		st.Items = append(st.Items, grp)
	}
	return st
}

// rawFill draws what an extension appends to a hole of the raw family.
func c08fRawFill(g *c08fGen, h *c08fHole) []term.Node {
	r := g.r
	g.root = h.Root
	switch r.Intn(12) {
	case 0, 1, 2:
		return []term.Node{term.Id(g.marker())}
	case 3:
		return []term.Node{term.Lit(r.Intn(1000))}
	case 4, 5:
		g.tag("fill=qual")
		return []term.Node{term.Qual(pick(r, c08fPaths), g.marker())}
	case 6:
		g.tag("fill=call-with-hole")
		return []term.Node{term.Id(g.marker()), term.G("Call", g.atom(), g.hole("fill:Call", nil))}
	case 7:
		g.tag("fill=still-null")
		return []term.Node{term.Null()}
	case 8:
		g.tag("fill=still-null")
		g.tag("fill=group-of-holes")
		grp := g.anyGroup()
		for grp.Method != "Custom" && !c08fNoDelim(grp) {
			grp = g.anyGroup()
		}
		if !c08fNoDelim(grp) {
			grp = term.G("List")
		}
		for n := 1 + r.Intn(2); n > 0; n-- {
			grp.Items = append(grp.Items, g.hole("fill:"+c08fSite(grp), nil))
		}
		return []term.Node{grp}
	case 9:
		g.tag("fill=still-null")
		return []term.Node{term.S(g.hole("fill:statement-item", nil))}
	case 10:
		g.tag("fill=dict-with-hole")
		d := &term.Dict{Pairs: [][2]term.Node{{g.hole("fill:dict-key", nil), term.S(term.Lit(r.Intn(10)))}, {term.S(term.Id(g.marker())), g.hole("fill:dict-value", nil)}}}
		return []term.Node{term.Id(g.marker()), term.G("Values", d)}
	}
	g.tag("fill=random-statement")
	return g.gen.Stmt(1).Items
}

// ---- valid-Go templates ----

func c08fExprFill(list bool) func(g *c08fGen, h *c08fHole) []term.Node {
	return func(g *c08fGen, h *c08fHole) []term.Node {
		r := g.r
		g.root = h.Root
		if h.fills > 0 {
			// a second extension of an expression: `+ name` keeps it an expression
			return []term.Node{term.Op("+"), term.Id(g.marker())}
		}
		switch k := r.Intn(8); {
		case k < 2:
			return []term.Node{term.Id(g.marker())}
		case k == 2:
			return []term.Node{term.Lit(r.Intn(1000))}
		case k < 5:
			g.tag("fill=qual")
			return []term.Node{term.Qual(pick(r, c08fPaths), g.marker())}
		case k == 5:
			g.tag("fill=call-with-hole")
			return []term.Node{term.Id(g.marker()), term.G("Call", g.hole("fill:Call", c08fExprFill(true)))}
		case k == 6 && list:
			g.tag("fill=still-null")
			g.tag("fill=group-of-holes")
			return []term.Node{term.G("List", g.hole("fill:List", c08fExprFill(true)), g.hole("fill:List", c08fExprFill(true)))}
		}
		g.tag("fill=still-null")
		h.fills-- // the next extension is still the first real one
		return []term.Node{term.Null()}
	}
}

func c08fTypeFill(g *c08fGen, h *c08fHole) []term.Node {
	g.root = h.Root
	if h.fills > 0 {
		return []term.Node{term.G("Types", term.S(term.Named("Int")))}
	}
	if g.r.Intn(2) == 0 {
		g.tag("fill=qual")
		return []term.Node{term.Qual(pick(g.r, c08fPaths), g.marker())}
	}
	return []term.Node{term.Id(g.marker())}
}

func c08fStmtFill(g *c08fGen, h *c08fHole) []term.Node {
	g.root = h.Root
	if h.fills > 0 {
		return []term.Node{term.Dot(g.marker()), term.G("Call")}
	}
	if g.r.Intn(3) == 0 {
		g.tag("fill=qual")
		return []term.Node{term.Qual(pick(g.r, c08fPaths), g.marker()), term.G("Call", g.hole("fill:Call", c08fExprFill(true)))}
	}
	return []term.Node{term.Id(g.marker()), term.G("Call")}
}

// one more extension of these would not stay valid Go: they are extended once
func c08fOnce(items func(g *c08fGen) []term.Node) func(g *c08fGen, h *c08fHole) []term.Node {
	return func(g *c08fGen, h *c08fHole) []term.Node {
		g.root = h.Root
		if h.fills > 0 {
			h.fills--
			return []term.Node{term.Null()}
		}
		return items(g)
	}
}

var c08fFieldFill = c08fOnce(func(g *c08fGen) []term.Node {
	if g.r.Intn(2) == 0 {
		g.tag("fill=qual")
		return []term.Node{term.Id(g.marker()), term.Qual(pick(g.r, c08fPaths), "T")}
	}
	return []term.Node{term.Id(g.marker()), term.Named("String")}
})
var c08fMethodFill = c08fOnce(func(g *c08fGen) []term.Node { return []term.Node{term.Id(g.marker()), term.G("Params")} })
var c08fDefFill = c08fOnce(func(g *c08fGen) []term.Node {
	return []term.Node{term.Id(g.marker()), term.Op("="), term.Lit(g.r.Intn(100))}
})
var c08fInitFill = c08fOnce(func(g *c08fGen) []term.Node {
	return []term.Node{term.Id(g.marker()), term.Op(":="), term.Lit(g.r.Intn(100))}
})

const c08fTemplates = 16

// template draws a declaration (decl) or a fragment with holes in places where both the null
// and the extended hole give valid Go.
func (g *c08fGen) template(k int, decl bool) *term.Stmt {
	r := g.r
	ex := func(site string) *term.Stmt { return g.hole(site, c08fExprFill(true)) }
	fn := func(body ...term.Node) *term.Stmt {
		return term.S(term.Named("Func"), term.Id(g.marker()), term.G("Params"), term.G("Block", body...))
	}
	varDecl := func(items ...term.Node) *term.Stmt {
		if decl {
			return term.S(append([]term.Node{term.Named("Var"), term.Id("_"), term.Op("=")}, items...)...)
		}
		return term.S(items...)
	}
	some := func(site string, fill func(site string) *term.Stmt, other func() term.Node) []term.Node {
		// 1..3 items, at least one hole, holes first / last / between
		var out []term.Node
		n := 1 + r.Intn(3)
		at := r.Intn(n)
		for i := 0; i < n; i++ {
			if i == at || r.Intn(3) == 0 {
				out = append(out, fill(site))
			} else {
				out = append(out, other())
			}
		}
		return out
	}
	atom := func() term.Node { return g.atom() }
	g.tag(fmt.Sprintf("template=%d", k))
	switch k {
	case 0: // return List(holes): `return` / `return 42, errors.New()`
		return fn(term.S(term.G("Return", term.S(term.G("List", some("List", ex, atom)...)))))
	case 1: // Types(holes): `var x Box` / `var x Box[time.Duration]`
		ty := func(site string) *term.Stmt { return g.hole(site, c08fTypeFill) }
		return term.S(term.Named("Var"), term.Id(g.marker()), term.Id("Box"), term.G("Types", some("Types", ty, func() term.Node { return term.S(term.Named("Int")) })...))
	case 2:
		return varDecl(term.Id("f"), term.G("Call", some("Call", ex, atom)...))
	case 3: // Dict pairs
		d := &term.Dict{}
		for n := 2 + r.Intn(3); n > 0; n-- {
			switch r.Intn(4) {
			case 0:
				d.Pairs = append(d.Pairs, [2]term.Node{ex("dict-key"), g.atom()})
			case 1:
				d.Pairs = append(d.Pairs, [2]term.Node{term.S(term.Id(g.marker())), ex("dict-value")})
			case 2:
				d.Pairs = append(d.Pairs, [2]term.Node{ex("dict-key"), ex("dict-value")})
				g.tag("dict-pair-of-two-holes")
			default:
				d.Pairs = append(d.Pairs, [2]term.Node{term.S(term.Id(g.marker())), g.atom()})
			}
		}
		d.Pairs = append(d.Pairs, [2]term.Node{term.S(term.Id(g.marker())), ex("dict-value")})
		return varDecl(term.Id("T"), term.G("Values", d))
	case 4:
		fd := func(site string) *term.Stmt { return g.hole(site, c08fFieldFill) }
		return term.S(term.Named("Type"), term.Id(g.marker()), term.G("Struct", some("Struct", fd, func() term.Node { return term.S(term.Id(g.marker()), term.Named("Int")) })...))
	case 5:
		sm := func(site string) *term.Stmt { return g.hole(site, c08fStmtFill) }
		return fn(some("Block", sm, func() term.Node { return term.S(term.Id("x"), term.Op("="), term.Lit(1)) })...)
	case 6:
		pm := func(site string) *term.Stmt {
			return g.hole(site, c08fOnce(func(g *c08fGen) []term.Node { return []term.Node{term.Id(g.marker()), term.Named("Int")} }))
		}
		return term.S(term.Named("Func"), term.Id(g.marker()), term.G("Params", some("Params", pm, func() term.Node { return term.S(term.Id(g.marker()), term.Named("Bool")) })...), term.G("Block"))
	case 7: // a Custom without delimiters as the only argument: g() / g(a, b)
		o := jen.Options{Separator: ","}
		grp := term.Custom(o, some("Custom-no-delimiters", ex, atom)...)
		return varDecl(term.Id("g"), term.G("Call", term.S(grp)))
	case 8:
		return varDecl(term.G("Index"), term.Named("Int"), term.G("Values", some("Values", ex, func() term.Node { return term.S(term.Lit(r.Intn(9))) })...))
	case 9: // m[1] / m[1:Z]
		return varDecl(term.Id("m"), term.G("Index", term.S(term.Lit(1)), g.hole("Index", c08fExprFill(false))))
	case 10: // case list and case block
		sm := g.hole("Block", c08fStmtFill)
		cs := term.S(term.G("Case", append([]term.Node{term.S(term.Id("a"))}, some("Case", ex, atom)...)...), term.G("Block", sm))
		g.tag("case-block")
		return fn(term.S(term.G("Switch", term.S(term.Id("v"))), term.G("Block", cs)))
	case 11:
		ty := func(site string) *term.Stmt { return g.hole(site, c08fTypeFill) }
		return term.S(term.Named("Type"), term.Id(g.marker()), term.G("Interface", term.S(term.G("Union", some("Union", ty, func() term.Node { return term.S(term.Named("Int")) })...))))
	case 12: // delimiter-less groups inside delimiter-less groups
		inner := term.S(term.G("List", some("List", ex, func() term.Node { return g.nullish() })...))
		cu := term.S(term.Custom(jen.Options{Separator: ","}, some("Custom-no-delimiters", ex, func() term.Node { return g.nullish() })...))
		g.depth(3)
		return fn(term.S(term.G("Return", term.S(term.G("List", inner, term.S(term.S(cu)))))))
	case 13:
		df := func(site string) *term.Stmt { return g.hole(site, c08fDefFill) }
		return term.S(term.Named("Const"), term.G("Defs", some("Defs", df, func() term.Node { return term.S(term.Id(g.marker()), term.Op("="), term.Lit(1)) })...))
	case 14: // if [init;] cond {}
		return fn(term.S(term.G("If", g.hole("If", c08fInitFill), term.S(term.Id("ok"))), term.G("Block")))
	default:
		mf := func(site string) *term.Stmt { return g.hole(site, c08fMethodFill) }
		return term.S(term.Named("Type"), term.Id(g.marker()), term.G("Interface", some("Interface", mf, func() term.Node { return term.S(term.Id(g.marker()), term.G("Params")) })...))
	}
}

// fragments: templates whose undeclared form is an expression or a statement list
var c08fFragmentTemplates = []int{0, 1, 2, 3, 4, 5, 7, 8, 9, 10, 13}

// ---- the schedule ----

type c08fRoot struct {
	st     *term.Stmt
	inFile bool
}

// c08FillCase draws one case of stream nested-fill.  family 0: any tree (random statements with
// holes injected, chains of groups of nulls), mostly raw; family 1: valid-Go templates, every
// render has to succeed.
func c08FillCase(r *rand.Rand, family int) *Case {
	g := &c08fGen{r: r, sp: &c08fSpec{}, tags: map[string]bool{}}
	g.gen = &Gen{R: r, Paths: c08fPaths, MaxDepth: 2, NilRate: 4, NoBad: true}
	set := func(op hist.Op) { g.step(c08fStep{Kind: "set", Op: op}) }
	local := ""
	if r.Intn(4) == 0 {
		local = pick(r, c08fPaths[4:])
		set(hist.Op{Kind: "newfilepathname", F: 0, A: local, B: "q"})
		g.tag("local")
	} else {
		set(hist.Op{Kind: "newfile", F: 0, A: "p"})
	}
	nf := r.Intn(3) < 2-family
	if nf {
		set(hist.Op{Kind: "noformat", F: 0, Flag: true})
		g.tag("noformat")
	}
	if r.Intn(5) == 0 {
		set(hist.Op{Kind: "prefix", F: 0, A: pick(r, prefixPool)})
		g.tag("prefix")
	}
	hint := func(when string) {
		i := r.Intn(len(c08fPaths))
		kind := "importalias"
		if r.Intn(2) == 0 {
			kind = "importname"
		}
		set(hist.Op{Kind: kind, F: 0, A: c08fPaths[i], B: fmt.Sprintf("h%d", i)}) // one name per path: no competition
		g.tag("hint-" + when)
	}
	if r.Intn(4) == 0 {
		hint("before")
	}
	var roots []*c08fRoot
	newRoot := func(inFile bool) *c08fRoot {
		g.root = len(roots)
		var st *term.Stmt
		switch {
		case family == 0:
			st = g.tree()
		case inFile:
			st = g.template(r.Intn(c08fTemplates), true)
		default:
			st = g.template(c08fFragmentTemplates[r.Intn(len(c08fFragmentTemplates))], false)
		}
		rt := &c08fRoot{st: st, inFile: inFile}
		roots = append(roots, rt)
		if inFile {
			g.step(c08fStep{Kind: "fadd", St: st})
		}
		return rt
	}
	for n := 1 + r.Intn(2); n > 0; n-- {
		newRoot(true)
	}
	if r.Intn(2) == 0 {
		newRoot(false)
		g.tag("free-target")
	}
	nontrivial := false
	see := func(which func(rt int) bool) {
		for _, h := range g.sp.Holes {
			if !which(h.Root) {
				continue
			}
			if h.late {
				nontrivial = true
			}
			if h.fills == 0 {
				h.seen = true
			}
		}
	}
	render := func() {
		var st c08fStep
		var reach func(rt int) bool
		k := r.Intn(10)
		rt := r.Intn(len(roots))
		switch {
		case k < 4:
			st = c08fStep{Kind: "render"}
			reach = func(i int) bool { return roots[i].inFile }
		case k == 4:
			st = c08fStep{Kind: "fgostring"}
			reach = func(i int) bool { return roots[i].inFile }
		case k < 8:
			st = c08fStep{Kind: "rcode", St: roots[rt].st}
			reach = func(i int) bool { return i == rt }
			if roots[rt].inFile {
				g.tag("rcode-shared-with-file")
			}
		case k == 8:
			st = c08fStep{Kind: "gostring", St: roots[rt].st, Verb: r.Intn(2) == 0}
			reach = func(i int) bool { return i == rt }
		default:
			st = c08fStep{Kind: "rplain", St: roots[rt].st}
			reach = func(i int) bool { return i == rt }
		}
		g.tag("view=" + st.Kind)
		g.step(st)
		see(reach)
		if r.Intn(3) == 0 {
			g.step(st)
			g.tag("render-twice")
		}
	}
	fill := func() {
		if len(g.pending) == 0 {
			return
		}
		i := r.Intn(len(g.pending))
		h := g.pending[i]
		f := h.Fill
		if f == nil {
			f = c08fRawFill
		}
		items := f(g, h)
		h.fills++
		if h.seen {
			h.late = true
			g.tag("hole-extended-after-render")
			if h.fills > 1 {
				g.tag("hole-extended-twice")
			}
		} else {
			g.tag("hole-extended-before-first-render")
		}
		g.step(c08fStep{Kind: "ext", St: h.St, Items: items})
		if h.fills >= 2 || r.Intn(3) > 0 {
			// no further extension of this hole (a pending hole may be extended again)
			for j, p := range g.pending {
				if p == h {
					g.pending = append(g.pending[:j:j], g.pending[j+1:]...)
					break
				}
			}
		}
	}
	if r.Intn(4) == 0 {
		fill() // one hole is extended before anything is rendered
	}
	rounds := 2 + r.Intn(3)
	for k := 0; k < rounds; k++ {
		for n := 1 + r.Intn(2); n > 0; n-- {
			render()
		}
		if k == rounds-1 {
			break
		}
		for n := 1 + r.Intn(2); n > 0; n-- {
			fill()
		}
		switch r.Intn(8) {
		case 0:
			newRoot(true)
			g.tag("add-after-render")
		case 1:
			hint("between-renders")
		}
	}
	// every value once more, then the import table
	g.step(c08fStep{Kind: "render"})
	see(func(i int) bool { return roots[i].inFile })
	for i, rt := range roots {
		if !rt.inFile {
			i := i
			g.step(c08fStep{Kind: "rcode", St: rt.st})
			see(func(j int) bool { return j == i })
		}
	}
	g.step(c08fStep{Kind: "imports"})
	left := 0
	for _, h := range g.sp.Holes {
		if h.fills == 0 {
			left++
		}
	}
	g.tag("rounds=" + fmt.Sprint(rounds))
	g.tag("holes=" + c07Bucket(len(g.sp.Holes), 2, 4, 8))
	if left > 0 {
		g.tag("some-hole-never-extended")
	}
	g.tag(fmt.Sprintf("family=%s", []string{"any-tree", "valid-go"}[family]))
	h, views := c08fBuild(g.sp)
	var tags []string
	for t := range g.tags {
		tags = append(tags, t)
	}
	sort.Strings(tags)
	// NonTrivial (counted by the generator while it builds the history): some hole was rendered
	// while nothing had been appended to it, was extended afterwards through the retained pointer,
	// and the value it sits in was rendered again.
	return &Case{Hist: h, Stream: "nested-fill", Tags: tags, NonTrivial: nontrivial,
		Meta: map[string]interface{}{"c08f": &c08fMeta{Spec: g.sp, Views: views, MustWrite: family == 1}}}
}

type c08fMeta struct {
	Spec      *c08fSpec
	Views     []c08fView
	MustWrite bool
}
