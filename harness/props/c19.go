package props

import (
	"fmt"
	"go/ast"
	"go/parser"
	"go/token"
	"math/rand"
	"strconv"
	"strings"

	"verifharness/hist"
	"verifharness/term"
)

// C19: the "C" import is never renamed and its preamble sits directly above it.
type c19 struct{}

func init() { Register(c19{}) }

func (c19) ID() string { return "C19" }

// The name every Qual("C", ..) of a generated case refers to.
const c19Ref = "verif_cref"

// c19Cfg is one point of the product.
type c19Cfg struct {
	Use    string   // qual | anon | both | neither   (how "C" is introduced besides a preamble)
	Pre    []string // preamble blocks as handed to CgoPreamble, in order
	Styles string   // one letter per block: o(ne-line text) m(ulti-line text) r(aw comment) n(one-line text + "\n") t(wo-line text + "\n")
	//                   the "mixed" stream: o m, l (raw `// x`) k (raw `/* x */`) K (raw multi-line block) e(mpty text) b (text with an empty line inside)
	Stream   string // "" = product
	Others   string // none | one | many | aliased | anon
	Prefix   bool
	Hint     string // none | name | alias | dot
	NoFormat bool
	Extra    []string // further tags (stream texts, c19_texts.go)
}

// preamble block number i (0-based) in the given style. Raw blocks alternate between the
// two raw comment forms and are given without trailing newline.  The styles n and t are
// texts that END IN A NEWLINE (what a caller gets from a raw string literal or from a
// template): `"#include <math.h>\n"` is a text that contains a newline, so it is written as
// a /* */ block, and the block must close without leaving an empty line or a second
// newline between the text and `import "C"`.
func c19Block(style byte, i int, rawLine bool) string {
	switch style {
	case 'o':
		return fmt.Sprintf("#include <one%d.h>", i)
	case 'm':
		return fmt.Sprintf("#include <multi%d.h>\nint f%d(void);", i, i)
	case 'n':
		return fmt.Sprintf("#include <onenl%d.h>\n", i)
	case 't':
		return fmt.Sprintf("#include <twonl%d.h>\nint g%d(void);\n", i, i)
	default:
		if rawLine {
			return fmt.Sprintf("// #include <rawline%d.h>", i)
		}
		return fmt.Sprintf("/* #include <rawblock%d.h> */", i)
	}
}

// c19MixedBlock: block number i of the "mixed" stream; every form is explicit (no
// alternation), the raw forms are single comments without trailing newline.
func c19MixedBlock(style byte, i int) string {
	switch style {
	case 'l':
		return fmt.Sprintf("// #cgo LDFLAGS: -lrawline%d", i)
	case 'k':
		return fmt.Sprintf("/* #include <rawblock%d.h> */", i)
	case 'K':
		return fmt.Sprintf("/*\n#include <rawmulti%d.h>\nint k%d(void);\n*/", i, i)
	case 'e':
		return ""
	case 'L': // raw line comment ENDING IN A NEWLINE (fixed in /repo cc47444: it left an empty line below)
		return fmt.Sprintf("// #cgo LDFLAGS: -lrawlinenl%d\n", i)
	case 'Q': // raw block comment followed by two newlines
		return fmt.Sprintf("/* #include <rawblocknl%d.h> */\n\n", i)
	case 'b':
		return fmt.Sprintf("#include <gap%d.h>\n\nint h%d(void);", i, i)
	}
	return c19Block(style, i, true)
}

const c19MixedForms = "olkme" // plain text, raw //, raw /* */, multi-line plain, empty: every order
const c19MixedMore = "olkmeKbntLQLQ"

func c19Blocks(styles string, firstRawIsLine bool) []string {
	var out []string
	line := firstRawIsLine
	for i := 0; i < len(styles); i++ {
		out = append(out, c19Block(styles[i], i, line))
		if styles[i] == 'r' {
			line = !line
		}
	}
	return out
}

// every sequence of 0..4 blocks over the three styles without trailing newline (121
// sequences)
func c19Seqs() []string { return c19SeqsOver("omr") }

// c19NLSeqs: every sequence of 1..4 blocks over all five styles that contains at least one
// "\n"-terminated block (n or t), alone and mixed with the other styles: 780 - 120 = 660
// sequences, shortest first.
func c19NLSeqs() []string {
	var out []string
	for _, s := range c19SeqsOver("omrnt") {
		if strings.ContainsAny(s, "nt") {
			out = append(out, s)
		}
	}
	return out
}

func c19SeqsOver(st string) []string {
	seqs := []string{""}
	var rec func(prefix string, n int)
	rec = func(prefix string, n int) {
		if n == 0 {
			seqs = append(seqs, prefix)
			return
		}
		for i := 0; i < len(st); i++ {
			rec(prefix+string(st[i]), n-1)
		}
	}
	for n := 1; n <= 4; n++ {
		rec("", n)
	}
	return seqs
}

const (
	c19Aliased = "a.b/aliased"
	c19AnonP   = "a.b/sideeffect"
)

func c19Make(cfg c19Cfg) *Case {
	h := hist.History{{Kind: "newfile", F: 0, A: "p"}}
	if cfg.NoFormat {
		h = append(h, hist.Op{Kind: "noformat", F: 0, Flag: true})
	}
	if cfg.Prefix {
		h = append(h, hist.Op{Kind: "prefix", F: 0, A: "pkg"})
	}
	switch cfg.Hint {
	case "name":
		h = append(h, hist.Op{Kind: "importname", F: 0, A: "C", B: "x"})
	case "alias":
		h = append(h, hist.Op{Kind: "importalias", F: 0, A: "C", B: "x"})
	case "dot":
		h = append(h, hist.Op{Kind: "importalias", F: 0, A: "C", B: "."})
	}
	var others []string // other paths the file must import
	var body []*term.Stmt
	ref := func(p, name string) {
		others = append(others, p)
		body = append(body, term.S(term.Named("Var"), term.Id("_"), term.Op("="), term.Qual(p, name)))
	}
	switch cfg.Others {
	case "one":
		ref("fmt", "Println")
	case "many":
		// sorts before and after "C"; a guessed alias that is "c"; a std name
		ref("os", "Exit")
		ref("A.b/early", "X")
		ref("x.y/C", "Y")
		ref("fmt", "Println")
	case "aliased":
		h = append(h, hist.Op{Kind: "importalias", F: 0, A: c19Aliased, B: "al"})
		ref(c19Aliased, "Z")
	case "anon":
		h = append(h, hist.Op{Kind: "anon", F: 0, Strs: []string{c19AnonP}})
		others = append(others, c19AnonP)
	}
	for _, p := range cfg.Pre {
		h = append(h, hist.Op{Kind: "cgo", F: 0, A: p})
	}
	if cfg.Use == "anon" || cfg.Use == "both" {
		h = append(h, hist.Op{Kind: "anon", F: 0, Strs: []string{"C"}})
	}
	if cfg.Use == "qual" || cfg.Use == "both" {
		// between the other references, so that "C" is registered neither first nor last
		st := term.S(term.Named("Var"), term.Id("_"), term.Op("="), term.Qual("C", c19Ref))
		k := len(body) / 2
		body = append(body[:k], append([]*term.Stmt{st}, body[k:]...)...)
	}
	for _, st := range body {
		h = append(h, hist.Op{Kind: "fadd", F: 0, Code: st})
	}
	h = append(h, hist.Op{Kind: "render", F: 0}, hist.Op{Kind: "imports", F: 0})
	tags := []string{"use=" + cfg.Use, fmt.Sprintf("preambles=%d", len(cfg.Pre)), "others=" + cfg.Others, "prefix=" + onoff(cfg.Prefix), "hint=" + cfg.Hint}
	for _, s := range []byte(cfg.Styles) {
		tags = append(tags, "style="+map[byte]string{'o': "one-line", 'm': "multi-line", 'r': "raw", 'n': "one-line+newline", 't': "two-line+newline",
			'l': "raw-line", 'k': "raw-block", 'K': "raw-multi-line-block", 'e': "empty", 'b': "multi-line-with-empty-line",
			'L': "raw-line+newline", 'Q': "raw-block+newlines"}[s])
	}
	if cfg.Stream == "mixed" {
		raw, plain := strings.ContainsAny(cfg.Styles, "lkKLQ"), strings.ContainsAny(cfg.Styles, "ombnte")
		distinct := map[byte]bool{}
		for _, s := range []byte(cfg.Styles) {
			distinct[s] = true
		}
		tags = append(tags, fmt.Sprintf("mixed-forms=%d-distinct", len(distinct)))
		if raw && plain {
			tags = append(tags, "mixed=raw-and-plain")
			if strings.IndexAny(cfg.Styles, "lkKLQ") < strings.IndexAny(cfg.Styles, "ombnte") {
				tags = append(tags, "mixed=raw-first")
			} else {
				tags = append(tags, "mixed=plain-first")
			}
		}
		if strings.Contains(cfg.Styles, "l") && strings.Contains(cfg.Styles, "k") {
			tags = append(tags, "mixed=both-raw-forms")
		}
	}
	if strings.ContainsAny(cfg.Styles, "nt") {
		tags = append(tags, "preamble-trailing-newline")
		if strings.Trim(cfg.Styles, "nt") != "" {
			tags = append(tags, "preamble-trailing-newline+other-styles")
		}
	}
	for _, p := range cfg.Pre {
		if strings.HasPrefix(p, "//") {
			tags = append(tags, "raw=//")
		} else if strings.HasPrefix(p, "/*") {
			tags = append(tags, "raw=/**/")
		}
	}
	if cfg.NoFormat {
		tags = append(tags, "noformat")
	}
	tags = append(tags, cfg.Extra...)
	if cfg.Use == "neither" && len(cfg.Pre) > 0 {
		tags = append(tags, "preamble-only")
	}
	// NonTrivial: "C" has to appear in the output (Qual, Anon or a preamble introduces it),
	// so there is an import spec for the oracle to judge; the cases without any of the three
	// only check absence.
	nt := cfg.Use != "neither" || len(cfg.Pre) > 0
	stream := "product"
	if cfg.Stream != "" {
		stream = cfg.Stream
	}
	return &Case{Hist: h, Stream: stream, NonTrivial: nt, Tags: tags, Meta: map[string]interface{}{"cfg": cfg, "others": others}}
}

// c19Mixed: 1..5 preamble blocks of MIXED form.  Every order of the five forms {plain text,
// raw `// x`, raw `/* x */`, multi-line plain, empty} for 1..5 blocks (3905 sequences), then
// drawn sequences over nine forms (those, a raw multi-line block, a text with an empty line
// inside, the two newline-terminated texts).  Each sequence runs under configurations drawn
// from the product's other dimensions (use, other imports, prefix, hint, NoFormat): quick 2 for
// a sequence of up to 4 blocks and 1 for 5 blocks, thorough 6 and 3.
func c19Mixed(r *rand.Rand, t string) []*Case {
	var out []*Case
	cfgOf := func(seq string) c19Cfg {
		var pre []string
		for i := 0; i < len(seq); i++ {
			pre = append(pre, c19MixedBlock(seq[i], i))
		}
		return c19Cfg{Stream: "mixed", Pre: pre, Styles: seq,
			Use:    pick(r, []string{"qual", "anon", "both", "neither"}),
			Others: pick(r, []string{"none", "one", "many", "aliased", "anon"}),
			Prefix: r.Intn(2) == 0, Hint: pick(r, []string{"none", "none", "name", "alias", "dot"}), NoFormat: r.Intn(4) == 0}
	}
	var rec func(prefix string, n int)
	rec = func(prefix string, n int) {
		if n == 0 {
			k := tier(t, 2, 6)
			if len(prefix) == 5 {
				k = tier(t, 1, 3)
			}
			for j := 0; j < k; j++ {
				out = append(out, c19Make(cfgOf(prefix)))
			}
			return
		}
		for i := 0; i < len(c19MixedForms); i++ {
			rec(prefix+string(c19MixedForms[i]), n-1)
		}
	}
	for n := 1; n <= 5; n++ {
		rec("", n)
	}
	for i, n := 0, tier(t, 1500, 30000); i < n; i++ {
		l := 1 + r.Intn(5)
		b := make([]byte, l)
		for j := range b {
			b[j] = c19MixedMore[r.Intn(len(c19MixedMore))]
		}
		out = append(out, c19Make(cfgOf(string(b))))
	}
	return out
}

func (c19) Generate(r *rand.Rand, t string) []*Case {
	var out []*Case
	full := t == "thorough"
	formats := []bool{false}
	if full {
		formats = []bool{false, true}
	}
	// The complete product {Qual C, Anon C, both, neither} x every sequence of 0..4 preamble
	// blocks over 3 styles x 5 kinds of other imports x prefix x 4 hints on "C"; raw blocks
	// alternate between `// x` and `/* x */` (a sequence with exactly one raw block is run in
	// both forms; thorough: every sequence with a raw block starts with either form, and
	// everything is also rendered with NoFormat).
	// Smallest configurations first: a failure list then starts with a near-minimal case.
	// Preamble texts that end in a newline (styles n, t): the same product over the 660
	// sequences of 1..4 blocks that contain such a block.  thorough runs it completely; quick
	// keeps every sequence but draws each configuration of it with probability 1/3 (from r),
	// which keeps the quick tier at roughly 2.5 times its former size.
	type seqT struct {
		s  string
		nl bool
	}
	var seqs []seqT
	nl := c19NLSeqs()
	k := 0
	for _, s := range c19Seqs() { // merge by length: smallest configurations first
		for k < len(nl) && len(nl[k]) < len(s) {
			seqs = append(seqs, seqT{nl[k], true})
			k++
		}
		seqs = append(seqs, seqT{s, false})
	}
	for ; k < len(nl); k++ {
		seqs = append(seqs, seqT{nl[k], true})
	}
	for _, sq := range seqs {
		seq := sq.s
		raws := []bool{true}
		if strings.Count(seq, "r") == 1 || (full && strings.Contains(seq, "r")) {
			raws = []bool{true, false} // a single raw block is tried in both comment forms
		}
		if sq.nl && !full {
			raws = []bool{r.Intn(2) == 0} // quick: one raw form, drawn per sequence
		}
		for _, rawLine := range raws {
			pre := c19Blocks(seq, rawLine)
			for _, others := range []string{"none", "one", "many", "aliased", "anon"} {
				for _, use := range []string{"qual", "anon", "both", "neither"} {
					for _, hint := range []string{"none", "name", "alias", "dot"} {
						for _, prefix := range []bool{false, true} {
							for _, nf := range formats {
								if sq.nl && !full && r.Intn(3) != 0 {
									continue
								}
								out = append(out, c19Make(c19Cfg{Use: use, Pre: pre, Styles: seq, Others: others, Prefix: prefix, Hint: hint, NoFormat: nf}))
							}
						}
					}
				}
			}
		}
	}
	// last, so that the draws of the product above do not change
	out = append(out, c19Mixed(r, t)...)
	out = append(out, c19Texts(r, t)...)       // c19_texts.go
	return append(out, c19LeadStream(r, t)...) // c19_lead.go
}

func (c19) Regressions() []*Case {
	c := c19Make(c19Cfg{Use: "qual", Others: "none", Hint: "dot"})
	c.Name, c.Stream = "dot-hint-on-C", "regression"
	out := []*Case{c}
	// fixed in /repo cc47444: raw preamble blocks that end in a newline
	for i, seq := range []string{"L", "Ll", "lL", "Q", "oLk", "LQ"} {
		var pre []string
		for j := 0; j < len(seq); j++ {
			pre = append(pre, c19MixedBlock(seq[j], j))
		}
		d := c19Make(c19Cfg{Stream: "regression", Pre: pre, Styles: seq, Use: "qual", Others: []string{"none", "many"}[i%2], Hint: "none"})
		d.Name, d.Stream = "raw-preamble-trailing-newline", "regression"
		out = append(out, d)
	}
	// open finding (gofmt): a form feed inside a preamble written as a block comment makes
	// go/format put `import "C"` on the comment's last line: the comment is no longer the
	// declaration's doc comment and cgo ignores it
	ff := c19Make(c19Cfg{Stream: "regression", Pre: []string{"#include <a.h>\fint f(void);\nint g(void);"}, Styles: "m", Use: "qual", Others: "none", Hint: "none"})
	ff.Name, ff.Stream = "gofmt-formfeed-joins-preamble", "regression"
	out = append(out, ff)
	// open finding (gofmt): a preamble block whose comment forms a build constraint line
	// (`//go:build x` in raw form, `+build linux` as one-line text) is taken out of the
	// preamble by go/printer (fixGoBuildLines) and becomes a real constraint above the package clause
	bc := c19Make(c19Cfg{Stream: "regression", Pre: []string{"#include <a.h>", "//go:build x", "+build linux", "int f();"}, Styles: "olol", Use: "qual", Others: "none", Hint: "none"})
	bc.Name, bc.Stream = "gofmt-hoists-build-constraint-from-preamble", "regression"
	out = append(out, bc)
	return out
}

func (c19) Compare(c *Case, exp, got []hist.Obs) string { return CompareAll(exp, got) }

func (c19) Oracle(c *Case, got []hist.Obs) string {
	cfg := c.Meta["cfg"].(c19Cfg)
	others, _ := c.Meta["others"].([]string)
	o, ok := lastWrite(got)
	if !ok {
		return "the history produced no render observation"
	}
	if o.Kind != "write" || o.Failed {
		return "the file was not rendered: " + o.String()
	}
	if v := C19Check(cfg.Use == "qual" || cfg.Use == "both", cfg.Use == "anon" || cfg.Use == "both", cfg.Pre, others, o.Out); v != "" {
		return v
	}
	if cfg.Stream == "texts" && cfg.NoFormat {
		return c19ExactDoc(cfg.Pre, o.Out)
	}
	return ""
}

// commentLines strips the comment markers of one comment (as written in Go source or as
// handed to CgoPreamble in raw form) and returns its non-empty lines, trimmed.
func commentLines(text string) []string {
	switch {
	case strings.HasPrefix(text, "//"):
		text = text[2:]
	case strings.HasPrefix(text, "/*"):
		text = strings.TrimSuffix(strings.TrimRight(text[2:], "\n"), "*/")
	}
	var out []string
	for _, l := range strings.Split(text, "\n") {
		if l = strings.TrimSpace(l); l != "" {
			out = append(out, l)
		}
	}
	return out
}

// C19Check decides the property on one rendered file. qual: the body contains
// Qual("C", c19Ref); anon: Anon("C") was called; pre: the CgoPreamble blocks in order;
// others: the other paths the file has to import.
func C19Check(qual, anon bool, pre []string, others []string, src string) string {
	fset := token.NewFileSet()
	f, err := parser.ParseFile(fset, "x.go", src, parser.ParseComments)
	if err != nil {
		return "output does not parse: " + err.Error()
	}
	var importDecls []*ast.GenDecl
	var cDecl *ast.GenDecl
	var cSpec *ast.ImportSpec
	nC := 0
	seen := map[string]bool{}
	for _, d := range f.Decls {
		gd, ok := d.(*ast.GenDecl)
		if !ok || gd.Tok != token.IMPORT {
			continue
		}
		importDecls = append(importDecls, gd)
		for _, sp := range gd.Specs {
			is := sp.(*ast.ImportSpec)
			p, err := strconv.Unquote(is.Path.Value)
			if err != nil {
				return "import path " + is.Path.Value + " does not unquote"
			}
			seen[p] = true
			if p == "C" {
				nC++
				cDecl, cSpec = gd, is
			}
		}
	}
	// references
	nref := 0
	inSel := map[*ast.Ident]bool{}
	problem := ""
	ast.Inspect(f, func(n ast.Node) bool {
		if se, ok := n.(*ast.SelectorExpr); ok && se.Sel.Name == c19Ref {
			inSel[se.Sel] = true
			nref++
			if x, ok := se.X.(*ast.Ident); !ok || x.Name != "C" {
				problem = fmt.Sprintf("the reference to \"C\" is written %s.%s, not C.%s", exprText(se.X), c19Ref, c19Ref)
			}
		}
		return true
	})
	ast.Inspect(f, func(n ast.Node) bool {
		if id, ok := n.(*ast.Ident); ok && id.Name == c19Ref && !inSel[id] && problem == "" {
			problem = fmt.Sprintf("the reference to \"C\" is written as bare %s, not C.%s", c19Ref, c19Ref)
		}
		return true
	})
	if problem != "" {
		return problem
	}
	if qual && nref != 1 {
		return fmt.Sprintf("the reference C.%s occurs %d times in the output", c19Ref, nref)
	}
	for _, p := range others {
		if !seen[p] {
			return fmt.Sprintf("the import of %q is missing", p)
		}
	}

	if !qual && !anon && len(pre) == 0 {
		if nC != 0 {
			return "\"C\" is imported although neither Qual, Anon nor a preamble asked for it"
		}
		return ""
	}
	if nC == 0 {
		return "the import of \"C\" is missing"
	}
	if nC > 1 {
		return fmt.Sprintf("\"C\" is imported %d times", nC)
	}
	if cSpec.Name != nil {
		return fmt.Sprintf("\"C\" is imported under the name %s", cSpec.Name.Name)
	}

	if len(pre) == 0 {
		// an ordinary line of the one import block
		if len(importDecls) != 1 {
			return fmt.Sprintf("no preamble was given but the imports are spread over %d declarations", len(importDecls))
		}
		return ""
	}

	// with a preamble: its own declaration, the preamble as its doc comment, apart from the rest
	if len(cDecl.Specs) != 1 {
		return fmt.Sprintf("a preamble was given but import \"C\" shares its declaration with %d other import(s)", len(cDecl.Specs)-1)
	}
	var want []string
	for _, p := range pre {
		var ls []string
		if strings.HasPrefix(p, "//") || strings.HasPrefix(p, "/*") {
			ls = commentLines(p)
		} else {
			for _, l := range strings.Split(p, "\n") {
				if l = strings.TrimSpace(l); l != "" {
					ls = append(ls, l)
				}
			}
		}
		want = append(want, ls...)
	}
	// cgo reads the declaration's doc comment: the comment group that ends on the line
	// before `import`. For a parenthesised one-spec declaration the spec's own doc is not it.
	doc := cDecl.Doc
	if doc == nil {
		return "a preamble was given but the import \"C\" declaration has no comment directly above it"
	}
	if fset.Position(doc.End()).Line+1 != fset.Position(cDecl.Pos()).Line {
		return "the preamble comment does not end on the line directly above import \"C\""
	}
	var have []string
	for _, c := range doc.List {
		have = append(have, commentLines(c.Text)...)
	}
	if strings.Join(have, "\n") != strings.Join(want, "\n") && c19LooksRawAfterTrim(pre) && strings.Join(c19Unmark(have), "\n") == strings.Join(c19Unmark(want), "\n") {
		// a block with white space in front of a comment marker (c19_lead.go): by the documented
		// rule it is plain text (the marker is part of the text); C19 does not say which of the two
		// readings the writer takes - every line is there either way (the bytes are compared with
		// the model's, which follows the documented rule)
		return ""
	}
	if strings.Join(have, "\n") != strings.Join(want, "\n") {
		return fmt.Sprintf("the comment directly above import \"C\" is not the preamble in the order given:\n  have %q\n  want %q", have, want)
	}
	if len(others) > 0 && len(importDecls) < 2 {
		return "the other imports are not in a declaration of their own"
	}
	return ""
}

// c19LooksRawAfterTrim: some block is not in raw form but would be without the white space in
// front of it.
func c19LooksRawAfterTrim(pre []string) bool {
	for _, p := range pre {
		if t := strings.TrimLeft(p, " \t\r\n"); t != p && (strings.HasPrefix(t, "//") || strings.HasPrefix(t, "/*")) {
			return true
		}
	}
	return false
}

// c19Unmark strips one comment marker from each line (`// x`, `/* x */` -> `x`).
func c19Unmark(lines []string) []string {
	var out []string
	for _, l := range lines {
		if strings.HasPrefix(l, "//") || strings.HasPrefix(l, "/*") {
			l = l[2:]
		}
		l = strings.TrimSpace(strings.TrimSuffix(l, "*/"))
		if l != "" {
			out = append(out, l)
		}
	}
	return out
}

func exprText(e ast.Expr) string {
	switch x := e.(type) {
	case *ast.Ident:
		return x.Name
	case *ast.SelectorExpr:
		return exprText(x.X) + "." + x.Sel.Name
	}
	return fmt.Sprintf("<%T>", e)
}
