package props

import (
	"fmt"
	"math/rand"
	"sort"
	"strings"
)

// srcGen writes a random, syntactically valid Go source file (grammar-directed; it only
// has to PARSE, go/parser's own checks included: labels defined and unique per function,
// no name declared twice in a scope, := only on identifiers, go/defer on calls).  Whatever
// tree the text parses to is the "original" of the case, so the generator need not track
// precedence.  It is biased to what jennifer's examples lack: lists of 0..8 items, every
// clause shape of for, bare return, empty case bodies, a label before "}", 3-index
// slices, huge constants, nesting to depth 12.
type srcGen struct {
	r        *rand.Rand
	b        strings.Builder
	fresh    int
	labels   []string // labels of the function being written
	declared []string // recently declared names (references pick from here)
	imports  []*genImport
	budget   int // remaining nodes; when exhausted lists shrink and expressions become leaves
	noLit    int // > 0 inside an if/for/switch header: composite literals need parentheses
	inLoop   int
	deep     bool // the spine almost always continues: reaches the depth limit
	tags     map[string]bool
	// wideRate > 0: 1 list in wideRate (at every kind of list site) has 17..46 items instead of
	// 0..8.  0 (the default): never, and no random number is drawn for the decision.
	wideRate int
	// pkgMode > 0 (stream generated-pkgname, c01_pkgname.go): the package NAME of the file is
	// taken from what the file IMPORTS - 1: the import path of a single-element standard-library
	// import (package errors importing "errors"); 2: the declared name of an import with a longer
	// path (package rand importing "math/rand"); 3: the alias of an import; 4: the last element of
	// the directory path the file is said to live in (and an import of the same last element).
	// 0 (the default): a name from the fixed pool, drawn as before.
	pkgMode int
	pkgName string // the package name written (set by fileHeader)
}

type genImport struct {
	path, name, alias string // alias "" = imported under its declared name; "_" = blank
	used              bool
}

// (path, declared name) of the packages the generator imports.  Standard-library names are
// the ground truth of StdNames; the others are fixed here (and handed to the rebuilder).
var genPkgs = [][2]string{
	{"fmt", "fmt"}, {"os", "os"}, {"strings", "strings"}, {"math/rand", "rand"}, {"bytes", "bytes"}, {"io", "io"},
	{"unicode/utf8", "utf8"}, {"path/filepath", "filepath"}, {"net/http", "http"}, {"text/template", "template"},
	{"encoding/json", "json"}, {"sync/atomic", "atomic"}, {"go/ast", "ast"}, {"container/list", "list"},
	{"example.com/foo/bar", "bar"}, {"gopkg.in/yaml.v3", "yaml"}, {"a.b/c-d", "cd"}, {"github.com/x/go-y", "goy"},
}

var genAliases = []string{"mr", "cr", "str", "pkg1", "Q", "_x", "fmt2", "é"}

// GenPkgName resolves the declared names of the generator's import paths.
func GenPkgName(path string) (string, bool) {
	for _, p := range genPkgs {
		if p[0] == path {
			return p[1], true
		}
	}
	return "", false
}

var c01FreeNames = []string{"x", "y", "z", "foo", "bar_", "ch", "m", "s", "p", "T0", "n", "ok", "err", "i", "j", "k", "v", "w", "buf", "ctx", "Ω", "_"}
var c01TypeNames = []string{"int", "string", "bool", "byte", "rune", "float64", "error", "any", "uint8", "uintptr", "complex128", "T0", "T1", "Node", "comparable"}
var c01BinOps = []string{"+", "-", "*", "/", "%", "&", "|", "^", "<<", ">>", "&^", "&&", "||", "==", "!=", "<", "<=", ">", ">="}
var c01UnOps = []string{"+", "-", "!", "^", "*", "&", "<-"}
var c01AssignOps = []string{"=", "=", "=", "+=", "-=", "*=", "/=", "%=", "&=", "|=", "^=", "<<=", ">>=", "&^="}

func (g *srcGen) tag(s string) { g.tags[s] = true }

func (g *srcGen) w(s ...string) {
	for _, x := range s {
		g.b.WriteString(x)
	}
}

func (g *srcGen) name() string {
	g.fresh++
	n := fmt.Sprintf("v%d", g.fresh)
	g.declared = append(g.declared, n)
	if len(g.declared) > 24 {
		g.declared = g.declared[len(g.declared)-24:]
	}
	return n
}

func (g *srcGen) restore(mark int) {
	if mark < len(g.declared) {
		g.declared = g.declared[:mark]
	}
}

func (g *srcGen) ref() string {
	if len(g.declared) > 0 && g.r.Intn(2) == 0 {
		return g.declared[g.r.Intn(len(g.declared))]
	}
	return c01FreeNames[g.r.Intn(len(c01FreeNames)-1)] // not "_"
}

// widen replaces a drawn list length by 17..46 in 1 of wideRate draws.
func (g *srcGen) widen(n int) int {
	if g.wideRate > 0 && g.budget > 0 && g.r.Intn(g.wideRate) == 0 {
		g.tag("wide-list")
		return 17 + g.r.Intn(30)
	}
	return n
}

// count draws a list length 0..8.
func (g *srcGen) count() int {
	if g.budget <= 0 {
		return g.r.Intn(2)
	}
	if w := g.widen(-1); w > 0 {
		return w
	}
	var n int
	switch k := g.r.Intn(20); {
	case k < 3:
		n = 0
	case k < 8:
		n = 1
	case k < 13:
		n = 2
	case k < 16:
		n = 3
	default:
		n = 4 + g.r.Intn(5)
	}
	return n
}

// sub gives the depth left for a child: two children in three continue the spine (the
// node budget, not the depth, bounds the size).
func (g *srcGen) sub(d int) int {
	if d <= 0 {
		return 0
	}
	if g.deep && g.r.Intn(8) > 0 {
		return d - 1
	}
	if g.r.Intn(3) > 0 {
		return d - 1
	}
	return g.r.Intn(d) / 2
}

func (g *srcGen) qualified() string {
	var usable []*genImport
	for _, im := range g.imports {
		if im.alias != "_" {
			usable = append(usable, im)
		}
	}
	if len(usable) == 0 {
		return g.ref()
	}
	im := usable[g.r.Intn(len(usable))]
	im.used = true
	local := im.name
	if im.alias != "" {
		local = im.alias
	}
	return local + "." + pick(g.r, []string{"X", "New", "Println", "Value", "T", "Err", "Do", "Ω"})
}

func (g *srcGen) literal() string {
	r := g.r
	switch r.Intn(14) {
	case 0:
		return fmt.Sprint(r.Intn(10))
	case 1:
		return fmt.Sprint(r.Int63())
	case 2:
		g.tag("huge-int")
		return pick(r, []string{"123456789012345678901234567890", "0xFFFF_FFFF_FFFF_FFFF_FFFF", "18446744073709551616", "9223372036854775808",
			"0b1111111111111111111111111111111111111111111111111111111111111111111", "1_000_000_000_000_000_000_000", "0o7777777777777777777777777"})
	case 3:
		return pick(r, []string{"0x10", "0X1F", "0b101", "0o17", "017", "1_000", "0", "00", "9223372036854775807", "0x7fffffffffffffff"})
	case 4:
		return pick(r, []string{"1.5", "0.1", ".5", "1.", "1e3", "1E-3", "2.5e+10", "0x1p-2", "0X1.8P3", "1_0.2_5", "0.", "1e0"})
	case 5:
		g.tag("huge-float")
		return pick(r, []string{"1e1000", "1e-1000", "3.14159265358979323846264338327950288419716939937510582097494459", "0x1p-1074", "0x1p1024",
			"179769313486231570814527423731704356798070567525844996598917476803157260780028538760589558632766878171540458953514382464234321326889464182768467546703537516986049910576551282076245490090389328944075868508455133942304583236903222948165808559332123348274797826204144723168738177180919299881250404026184124858368.0", "4.9e-324", "1.7976931348623157e308", "1.7976931348623159e308"})
	case 6:
		g.tag("imag")
		return pick(r, []string{"2i", "1.5i", "0i", "1e3i", "0x10i", "0b1i", "123456789012345678901234567890i", ".5i"})
	case 7, 8:
		return pick(r, []string{"'a'", `'\n'`, `'\''`, `'"'`, `'\x00'`, `'\xff'`, `'\377'`, `'\u1234'`, `'\U0001F600'`, "'世'", `'\\'`, "'\u00e9'", `'\a'`, `'\000'`, `'\U0010FFFF'`, "' '", `'\t'`})
	case 9:
		return pick(r, []string{"`raw`", "`a\\nb`", "`multi\nline`", "``", "`\"q\"`", "`tab\there`", "`\\`"})
	default:
		return pick(r, []string{`"s"`, `""`, `"a\nb"`, `"q\"q"`, `"\x00\xff"`, `"\u00e9\U0001F600"`, `"世界"`, `"\\"`, `"a b"`, `"\a\b\f\r\t\v"`, `"\101\377"`, `"%d"`, `"/*"`, `"//"`, "\"`\"", `"'"`, `"{}"`})
	}
}

func (g *srcGen) leaf() {
	switch g.r.Intn(6) {
	case 0, 1:
		g.w(g.ref())
	case 2:
		g.w(g.qualified())
	case 3:
		g.w(pick(g.r, []string{"nil", "true", "false", "iota", "err", "x", "s"}))
	default:
		g.w(g.literal())
	}
}

// primary writes an operand that may be followed by a selector, index, call or assertion.
func (g *srcGen) primary(d int) {
	if d <= 0 || g.budget <= 0 {
		if g.r.Intn(4) == 0 {
			g.w(g.qualified())
		} else {
			g.w(g.ref())
		}
		return
	}
	switch g.r.Intn(8) {
	case 0:
		g.w(g.ref())
	case 1:
		g.w(g.qualified())
	case 2:
		g.tag("parens")
		g.w("(")
		g.exprIn(g.sub(d))
		g.w(")")
	default:
		g.postfix(d)
	}
}

// exprIn writes an expression inside brackets, where composite literals are fine again.
func (g *srcGen) exprIn(d int) {
	save := g.noLit
	g.noLit = 0
	g.expr(d)
	g.noLit = save
}

func (g *srcGen) args(d int) {
	n := g.count()
	for i := 0; i < n; i++ {
		if i > 0 {
			g.w(", ")
		}
		g.exprIn(g.sub(d))
	}
	if n > 0 && g.r.Intn(6) == 0 {
		g.tag("variadic-call")
		g.w(" ...") // (a space: "6..." would be scanned as the number "6." and "..")
	}
	if n > 0 && g.r.Intn(10) == 0 {
		g.w(",") // trailing comma
	}
}

func (g *srcGen) postfix(d int) {
	g.budget--
	switch g.r.Intn(12) {
	case 0, 1:
		g.primary(g.sub(d))
		g.w(".", pick(g.r, []string{"f", "Field", "next", "Ω", "x"}))
	case 2:
		g.primary(g.sub(d))
		g.w("[")
		g.exprIn(g.sub(d))
		g.w("]")
	case 3:
		g.primary(g.sub(d))
		g.w("[")
		lo, hi := g.r.Intn(2) == 0, g.r.Intn(2) == 0
		if lo {
			g.exprIn(g.sub(d))
		}
		g.w(":")
		if g.r.Intn(3) == 0 {
			g.tag("slice3")
			g.exprIn(g.sub(d)) // 3-index: high and max are required
			g.w(":")
			g.exprIn(g.sub(d))
		} else {
			g.tag("slice2")
			if hi {
				g.exprIn(g.sub(d))
			}
		}
		g.w("]")
	case 4:
		g.primary(g.sub(d))
		g.w(".(")
		g.typ(g.sub(d))
		g.w(")")
	case 5, 6, 7:
		g.primary(g.sub(d))
		g.w("(")
		g.args(d)
		g.w(")")
	case 8:
		g.tag("builtin-call")
		switch g.r.Intn(10) {
		case 0:
			g.w("len(")
			g.exprIn(g.sub(d))
			g.w(")")
		case 1:
			g.w("append(")
			g.args(d)
			g.w(")")
		case 2:
			g.w("make(")
			g.typ(g.sub(d))
			for i := g.r.Intn(3); i > 0; i-- {
				g.w(", ")
				g.exprIn(g.sub(d))
			}
			g.w(")")
		case 3:
			g.w("new(")
			g.typ(g.sub(d))
			g.w(")")
		case 4:
			g.w(pick(g.r, []string{"copy", "delete", "complex"}), "(")
			g.exprIn(g.sub(d))
			g.w(", ")
			g.exprIn(g.sub(d))
			g.w(")")
		case 5:
			g.w("recover()")
		case 6:
			g.w(pick(g.r, []string{"min", "max", "print", "println"}), "(")
			g.args(d)
			g.w(")")
		default:
			g.w(pick(g.r, []string{"cap", "close", "clear", "imag", "real", "panic"}), "(")
			g.exprIn(g.sub(d))
			g.w(")")
		}
	case 9:
		g.tag("conversion")
		switch g.r.Intn(6) {
		case 0:
			g.w(pick(g.r, []string{"int8", "int16", "int32", "int64", "uint", "uint8", "uint16", "uint32", "uint64", "uintptr", "byte"}), "(", pick(g.r, []string{"0", "1", "0x7f", "100", "255", "300", "4294967295", "18446744073709551615", "18446744073709551616"}), ")")
		case 1:
			g.w("[]byte(")
			g.exprIn(g.sub(d))
			g.w(")")
		case 2:
			g.w("(*", pick(g.r, c01TypeNames), ")(")
			g.exprIn(g.sub(d))
			g.w(")")
		case 3:
			g.w("(<-chan ", pick(g.r, c01TypeNames), ")(")
			g.exprIn(g.sub(d))
			g.w(")")
		case 4:
			g.w("(func())(")
			g.exprIn(g.sub(d))
			g.w(")")
		default:
			g.w(pick(g.r, c01TypeNames), "(")
			g.exprIn(g.sub(d))
			g.w(")")
		}
	case 10:
		g.tag("instantiate")
		g.w(g.ref(), "[")
		n := 1 + g.r.Intn(3)
		for i := 0; i < n; i++ {
			if i > 0 {
				g.w(", ")
			}
			g.typ(g.sub(d))
		}
		g.w("]")
		if g.r.Intn(2) == 0 {
			g.w("(")
			g.args(d)
			g.w(")")
		}
	default:
		g.composite(d)
	}
}

func (g *srcGen) elements(d int, keyed int) {
	n := g.count()
	var keys []string
	if keyed == 1 { // identifier keys, sorted half of the time (Dict needs ascending keys)
		for i := 0; i < n; i++ {
			keys = append(keys, fmt.Sprintf("%c%d", 'A'+g.r.Intn(26), i))
		}
		if g.r.Intn(2) == 0 {
			sort.Strings(keys)
			g.tag("sorted-keys")
		}
	}
	for i := 0; i < n; i++ {
		if i > 0 {
			g.w(", ")
		}
		switch keyed {
		case 1:
			g.w(keys[i], ": ")
		case 2:
			if g.r.Intn(2) == 0 {
				g.w(fmt.Sprintf("%q: ", fmt.Sprintf("k%02d", i)))
			} else {
				g.exprIn(g.sub(d))
				g.w(": ")
			}
		case 3:
			g.w(fmt.Sprint(i*3), ": ")
		}
		if g.r.Intn(5) == 0 && d > 0 {
			g.tag("elided-type")
			g.w("{")
			g.elements(g.sub(d), g.r.Intn(3))
			g.w("}")
		} else {
			g.exprIn(g.sub(d))
		}
	}
	if n > 0 && g.r.Intn(4) == 0 {
		g.w(",")
	}
}

func (g *srcGen) composite(d int) {
	g.budget--
	g.tag("composite")
	par := g.noLit > 0
	if par {
		g.w("(")
	}
	save := g.noLit
	g.noLit = 0
	switch g.r.Intn(8) {
	case 0:
		g.w("&")
		fallthrough
	case 1:
		g.w(pick(g.r, []string{"T0", "T1", "Node"}), "{")
		g.elements(d, g.r.Intn(2))
	case 2:
		g.w("[]")
		g.typ(g.sub(d))
		g.w("{")
		g.elements(d, c01PickInt(g.r, 0, 0, 3))
	case 3:
		g.w(pick(g.r, []string{"[...]", "[3]", "[N]", "[2 * N]"}))
		g.typ(g.sub(d))
		g.w("{")
		g.elements(d, c01PickInt(g.r, 0, 3))
	case 4:
		g.w("map[")
		g.typ(g.sub(d))
		g.w("]")
		g.typ(g.sub(d))
		g.w("{")
		g.elements(d, 2)
	case 5:
		g.structType(g.sub(d))
		g.w("{")
		g.elements(d, g.r.Intn(2))
	case 6:
		im := g.qualified()
		g.w(im, "{")
		g.elements(d, g.r.Intn(2))
	default:
		g.w(g.ref(), "[")
		g.typ(g.sub(d))
		g.w("]{")
		g.elements(d, g.r.Intn(2))
	}
	g.w("}")
	g.noLit = save
	if par {
		g.w(")")
	}
}

func c01PickInt(r *rand.Rand, xs ...int) int { return xs[r.Intn(len(xs))] }

func (g *srcGen) expr(d int) {
	if d <= 0 || g.budget <= 0 {
		g.leaf()
		return
	}
	g.budget--
	switch g.r.Intn(10) {
	case 0, 1, 2:
		g.expr(g.sub(d))
		g.w(" ", pick(g.r, c01BinOps), " ")
		g.expr(g.sub(d))
	case 3:
		g.w(pick(g.r, c01UnOps), " ")
		g.expr(g.sub(d))
	case 4:
		g.tag("parens")
		g.w("(")
		g.exprIn(g.sub(d))
		g.w(")")
	case 5:
		g.funcLit(d)
	case 6:
		g.leaf()
	default:
		g.primary(d)
	}
}

func (g *srcGen) funcLit(d int) {
	g.tag("funclit")
	g.w("func")
	g.signature(g.sub(d), true)
	g.w(" ")
	g.funcBody(d)
	if g.r.Intn(3) == 0 {
		g.w("(")
		g.args(g.sub(d))
		g.w(")")
	}
}

// funcBody writes a block with its own label scope.
func (g *srcGen) funcBody(d int) {
	saveL, saveLit, saveLoop := g.labels, g.noLit, g.inLoop
	g.labels, g.noLit, g.inLoop = nil, 0, 0
	g.block(d)
	g.labels, g.noLit, g.inLoop = saveL, saveLit, saveLoop
}

// ---- types ----

func (g *srcGen) typ(d int) {
	if d <= 0 || g.budget <= 0 {
		if g.r.Intn(5) == 0 {
			g.w(g.qualified())
		} else {
			g.w(pick(g.r, c01TypeNames))
		}
		return
	}
	g.budget--
	switch g.r.Intn(14) {
	case 0:
		g.w("*")
		g.typ(g.sub(d))
	case 1:
		g.w("[]")
		g.typ(g.sub(d))
	case 2:
		g.w("[", pick(g.r, []string{"4", "N", "2 * N", "len(x)", "1 << 3"}), "]")
		g.typ(g.sub(d))
	case 3:
		g.w("map[")
		g.typ(g.sub(d))
		g.w("]")
		g.typ(g.sub(d))
	case 4:
		switch g.r.Intn(4) {
		case 0:
			g.tag("chan-recv")
			g.w("<-chan ")
			g.typ(g.sub(d))
		case 1:
			g.tag("chan-send")
			g.w("chan<- ")
			g.typ(g.sub(d))
		case 2:
			g.w("chan (")
			g.typ(g.sub(d))
			g.w(")")
		default:
			g.w("chan ")
			g.typ(g.sub(d))
		}
	case 5:
		g.w("func")
		g.signature(g.sub(d), false)
	case 6:
		g.structType(d)
	case 7:
		g.interfaceType(d)
	case 8:
		g.w(pick(g.r, []string{"T0", "G", "Pair"}), "[")
		n := 1 + g.r.Intn(2)
		for i := 0; i < n; i++ {
			if i > 0 {
				g.w(", ")
			}
			g.typ(g.sub(d))
		}
		g.w("]")
	case 9:
		g.w("(")
		g.typ(g.sub(d))
		g.w(")")
	case 10:
		g.w(g.qualified())
	default:
		g.w(pick(g.r, c01TypeNames))
	}
}

var c01TagPool = []string{"`json:\"a\"`", "`json:\"a,omitempty\" xml:\"b\"`", "`xml:\"b\" json:\"a\"`", `"json:\"q\""`, "`free text`", "`k:\"v\"  j:\"w\"`", `""`, "`a:\"\\n\"`", "`json:\"-\"`", "`a:\"1\" b:\"2\" c:\"3\"`", "`json:\"a\" json:\"b\"`"}

func (g *srcGen) structType(d int) {
	g.budget--
	g.w("struct {")
	n := g.count()
	if n == 0 {
		g.tag("struct-empty")
	}
	for i := 0; i < n; i++ {
		g.w("\n")
		switch g.r.Intn(6) {
		case 0:
			g.tag("embedded-field")
			switch g.r.Intn(4) {
			case 0:
				g.w("*", pick(g.r, []string{"T0", "T1", "Node"}))
			case 1:
				g.w(g.qualified())
			case 2:
				g.w("T0[int]")
			default:
				g.w(pick(g.r, []string{"T0", "T1", "Node", "error"}))
			}
		case 1:
			k := 2 + g.r.Intn(3)
			for j := 0; j < k; j++ {
				if j > 0 {
					g.w(", ")
				}
				g.w(fmt.Sprintf("f%d_%d", i, j))
			}
			g.w(" ")
			g.typ(g.sub(d))
		default:
			g.w(fmt.Sprintf("F%d ", i))
			g.typ(g.sub(d))
		}
		if g.r.Intn(3) == 0 {
			g.tag("struct-tag")
			g.w(" ", pick(g.r, c01TagPool))
		}
		if g.r.Intn(8) == 0 {
			g.w(";")
		}
	}
	if n > 0 {
		g.w("\n")
	}
	g.w("}")
}

func (g *srcGen) interfaceType(d int) {
	g.budget--
	g.w("interface {")
	n := g.count()
	for i := 0; i < n; i++ {
		g.w("\n")
		switch g.r.Intn(5) {
		case 0:
			g.w(pick(g.r, []string{"error", "comparable", "T0", "any"}))
			if g.r.Intn(3) == 0 {
				g.w("[int]")
			}
		case 1:
			g.tag("union")
			k := 1 + g.r.Intn(4)
			for j := 0; j < k; j++ {
				if j > 0 {
					g.w(" | ")
				}
				if g.r.Intn(2) == 0 {
					g.tag("tilde")
					g.w("~")
				}
				g.typ(g.sub(d) / 2)
			}
		case 2:
			g.w(g.qualified())
		default:
			g.w(fmt.Sprintf("M%d", i))
			g.signature(g.sub(d), false)
		}
	}
	if n > 0 {
		g.w("\n")
	}
	g.w("}")
}

// signature writes (params) results; named parameters are declared (fresh names) when
// the signature belongs to a function with a body.
func (g *srcGen) signature(d int, declare bool) {
	g.params(d, declare, true)
	switch g.r.Intn(5) {
	case 0, 1:
	case 2:
		g.w(" ")
		g.typ(g.sub(d))
	case 3:
		g.w(" (")
		g.typ(g.sub(d))
		g.w(")")
	default:
		g.w(" ")
		g.params(d, declare, false)
	}
}

func (g *srcGen) params(d int, declare, variadic bool) {
	g.w("(")
	n := g.count()
	named := g.r.Intn(2) == 0
	for i := 0; i < n; i++ {
		if i > 0 {
			g.w(", ")
		}
		if named {
			k := 1
			if g.r.Intn(4) == 0 {
				k = 2 + g.r.Intn(3)
				g.tag("grouped-params")
			}
			k = g.widen(k)
			for j := 0; j < k; j++ {
				if j > 0 {
					g.w(", ")
				}
				switch {
				case g.r.Intn(8) == 0:
					g.w("_")
				case declare:
					g.w(g.name())
				default:
					g.fresh++
					g.w(fmt.Sprintf("p%d", g.fresh))
				}
			}
			g.w(" ")
		}
		if variadic && i == n-1 && g.r.Intn(4) == 0 {
			g.tag("variadic-param")
			g.w("...")
		}
		g.typ(g.sub(d))
	}
	if n > 0 && g.r.Intn(10) == 0 {
		g.w(",")
	}
	g.w(")")
}

func (g *srcGen) typeParams(d int) {
	g.tag("typeparams")
	g.w("[")
	if g.r.Intn(12) == 0 {
		g.tag("typeparam-needs-comma")
		g.w(g.tpName(), " *", pick(g.r, []string{"T0", "int"}), ",]")
		return
	}
	n := 1 + g.r.Intn(3)
	for i := 0; i < n; i++ {
		if i > 0 {
			g.w(", ")
		}
		k := 1 + g.r.Intn(2)
		for j := 0; j < k; j++ {
			if j > 0 {
				g.w(", ")
			}
			g.w(g.tpName())
		}
		g.w(" ")
		switch g.r.Intn(6) {
		case 0:
			g.w("any")
		case 1:
			g.w("comparable")
		case 2:
			g.tag("union")
			g.w("int | ~string | ~[]byte")
		case 3:
			g.tag("tilde")
			g.w("~[]E")
		case 4:
			g.w("interface{ ~int; M() }")
		default:
			g.w(g.qualified())
		}
	}
	g.w("]")
}

func (g *srcGen) tpName() string {
	g.fresh++
	return fmt.Sprintf("P%d", g.fresh)
}

// ---- statements ----

func (g *srcGen) block(d int) {
	g.w("{")
	n := g.count()
	mark := len(g.declared)
	for i := 0; i < n; i++ {
		g.w("\n")
		g.stmt(g.sub(d))
	}
	if g.r.Intn(12) == 0 && d > 0 {
		// a label directly before the closing brace
		g.tag("label-before-brace")
		g.fresh++
		l := fmt.Sprintf("L%d", g.fresh)
		g.labels = append(g.labels, l)
		g.w("\n", l, ":")
		n++
	}
	if n > 0 {
		g.w("\n")
	} else {
		g.tag("empty-block")
	}
	g.w("}")
	g.restore(mark) // names of an inner block are out of scope (references stay syntactically valid either way)
}

func (g *srcGen) lhsList(d int, define bool) int {
	n := 1
	if g.r.Intn(3) == 0 {
		n = 2 + g.r.Intn(3)
	}
	n = g.widen(n)
	for i := 0; i < n; i++ {
		if i > 0 {
			g.w(", ")
		}
		switch {
		case define && g.r.Intn(6) == 0:
			g.w("_")
		case define:
			g.w(g.name())
		case g.r.Intn(3) == 0:
			g.w("_")
		default:
			g.primary(g.sub(d))
		}
	}
	return n
}

func (g *srcGen) simpleStmt(d int) {
	switch g.r.Intn(8) {
	case 0, 1:
		g.primary(d)
		if g.r.Intn(2) == 0 {
			g.w("(")
			g.args(d)
			g.w(")")
		}
	case 2:
		g.primary(g.sub(d))
		g.w(pick(g.r, []string{"++", "--"}))
	case 3:
		g.tag("send")
		g.primary(g.sub(d))
		g.w(" <- ")
		g.expr(g.sub(d))
	case 4, 5:
		g.lhsList(d, true)
		g.w(" := ")
		n := 1 + g.r.Intn(3)
		for i := 0; i < n; i++ {
			if i > 0 {
				g.w(", ")
			}
			g.expr(g.sub(d))
		}
	default:
		g.lhsList(d, false)
		g.w(" ", pick(g.r, c01AssignOps), " ")
		n := 1 + g.r.Intn(3)
		for i := 0; i < n; i++ {
			if i > 0 {
				g.w(", ")
			}
			g.expr(g.sub(d))
		}
	}
}

func (g *srcGen) caseBody(d int) {
	n := g.count()
	if g.r.Intn(3) == 0 {
		n = 0
	}
	if n == 0 {
		g.tag("empty-case-body")
	}
	mark := len(g.declared)
	for i := 0; i < n; i++ {
		g.w("\n")
		g.stmt(g.sub(d))
	}
	g.restore(mark)
}

func (g *srcGen) stmt(d int) {
	if d <= 0 || g.budget <= 0 {
		switch g.r.Intn(6) {
		case 0:
			g.tag("bare-return")
			g.w("return")
		case 1:
			g.w(g.ref(), "++")
		case 2:
			g.w(g.ref(), "(", g.literal(), ")")
		case 3:
			g.w(g.ref(), " = ", g.literal())
		case 4:
			g.w("break")
		default:
			g.w(g.name(), " := ", g.literal())
		}
		return
	}
	g.budget--
	switch g.r.Intn(24) {
	case 0, 1, 2:
		g.simpleStmt(d)
	case 3:
		g.w("go ")
		g.callee(g.sub(d))
		g.w("(")
		g.args(g.sub(d))
		g.w(")")
	case 4:
		g.w("defer ")
		if g.r.Intn(2) == 0 {
			g.funcLit0(d)
		} else {
			g.callee(g.sub(d))
			g.w("(")
			g.args(g.sub(d))
			g.w(")")
		}
	case 5:
		n := g.count()
		if n == 0 || g.r.Intn(3) == 0 {
			g.tag("bare-return")
			g.w("return")
			break
		}
		g.w("return ")
		for i := 0; i < n; i++ {
			if i > 0 {
				g.w(", ")
			}
			g.expr(g.sub(d))
		}
	case 6:
		switch k := g.r.Intn(5); {
		case k == 0:
			g.w("fallthrough")
		case k == 1 && len(g.labels) > 0:
			g.tag("goto")
			g.w("goto ", pick(g.r, g.labels))
		case len(g.labels) > 0 && g.r.Intn(2) == 0:
			g.tag("labelled-branch")
			g.w(pick(g.r, []string{"break ", "continue "}), pick(g.r, g.labels))
		default:
			g.w(pick(g.r, []string{"break", "continue"}))
		}
	case 7:
		g.block(d)
	case 8, 9, 10:
		g.ifStmt(d)
	case 11, 12:
		g.switchStmt(d)
	case 13:
		g.typeSwitch(d)
	case 14:
		g.selectStmt(d)
	case 15, 16, 17:
		g.forStmt(d)
	case 18:
		g.rangeStmt(d)
	case 19:
		g.tag("label")
		g.fresh++
		l := fmt.Sprintf("L%d", g.fresh)
		g.labels = append(g.labels, l)
		g.w(l, ":\n")
		switch g.r.Intn(4) {
		case 0:
			g.forStmt(d)
		case 1:
			g.rangeStmt(d)
		case 2:
			g.switchStmt(d)
		default:
			g.stmt(g.sub(d))
		}
	case 20:
		g.localDecl(d)
	case 21:
		if g.r.Intn(3) == 0 {
			g.tag("explicit-empty-stmt")
			g.w(";")
		} else {
			g.simpleStmt(d)
		}
	default:
		g.simpleStmt(d)
	}
}

// callee writes the function of a go / defer statement: the statement must BE a call, so
// the operand must not start with a unary operator (&T{..}(x) is &(T{..}(x))).
func (g *srcGen) callee(d int) {
	switch g.r.Intn(5) {
	case 0:
		g.w(g.ref())
	case 1:
		g.w(g.qualified())
	case 2:
		g.w("(")
		g.exprIn(d)
		g.w(")")
	case 3:
		g.w(g.ref(), ".", pick(g.r, []string{"f", "Close", "Ω"}))
	default:
		g.w(g.ref(), "[")
		g.exprIn(d)
		g.w("]")
	}
}

func (g *srcGen) funcLit0(d int) {
	g.w("func() ")
	g.funcBody(g.sub(d))
	g.w("()")
}

func (g *srcGen) header(f func()) {
	g.noLit++
	f()
	g.noLit--
}

func (g *srcGen) ifStmt(d int) {
	mark := len(g.declared)
	g.w("if ")
	g.header(func() {
		if g.r.Intn(3) == 0 {
			g.tag("if-init")
			g.simpleStmt(g.sub(d))
			g.w("; ")
		}
		g.expr(g.sub(d))
	})
	g.w(" ")
	g.block(g.sub(d))
	switch g.r.Intn(4) {
	case 0:
		g.tag("else-if")
		g.w(" else ")
		g.ifStmt(g.sub(d))
	case 1:
		g.w(" else ")
		g.block(g.sub(d))
	}
	g.restore(mark)
}

func (g *srcGen) switchStmt(d int) {
	mark := len(g.declared)
	g.w("switch ")
	g.header(func() {
		switch g.r.Intn(4) {
		case 0:
			g.tag("switch-bare")
		case 1:
			g.tag("switch-init")
			g.simpleStmt(g.sub(d))
			g.w("; ")
		case 2:
			g.tag("switch-init-tag")
			g.simpleStmt(g.sub(d))
			g.w("; ")
			g.expr(g.sub(d))
			g.w(" ")
		default:
			g.expr(g.sub(d))
			g.w(" ")
		}
	})
	g.w("{")
	n := g.count()
	def := -1
	if n > 0 && g.r.Intn(2) == 0 {
		def = g.r.Intn(n)
	}
	for i := 0; i < n; i++ {
		g.w("\n")
		if i == def {
			g.w("default:")
		} else {
			g.w("case ")
			k := 1 + g.r.Intn(3)
			if g.r.Intn(6) == 0 {
				k = 4 + g.r.Intn(5)
			}
			k = g.widen(k)
			for j := 0; j < k; j++ {
				if j > 0 {
					g.w(", ")
				}
				g.exprIn(g.sub(d))
			}
			g.w(":")
		}
		g.caseBody(g.sub(d))
	}
	g.w("\n}")
	g.restore(mark)
}

func (g *srcGen) typeSwitch(d int) {
	g.tag("typeswitch")
	mark := len(g.declared)
	g.w("switch ")
	g.header(func() {
		if g.r.Intn(4) == 0 {
			g.simpleStmt(g.sub(d))
			g.w("; ")
		}
		if g.r.Intn(2) == 0 {
			g.w(g.name(), " := ")
		}
		g.primary(g.sub(d))
		g.w(".(type) ")
	})
	g.w("{")
	n := g.count()
	def := -1
	if n > 0 && g.r.Intn(2) == 0 {
		def = g.r.Intn(n)
	}
	for i := 0; i < n; i++ {
		g.w("\n")
		if i == def {
			g.w("default:")
		} else {
			g.w("case ")
			k := g.widen(1 + g.r.Intn(3))
			for j := 0; j < k; j++ {
				if j > 0 {
					g.w(", ")
				}
				if g.r.Intn(6) == 0 {
					g.w("nil")
				} else {
					g.typ(g.sub(d))
				}
			}
			g.w(":")
		}
		g.caseBody(g.sub(d))
	}
	g.w("\n}")
	g.restore(mark)
}

func (g *srcGen) selectStmt(d int) {
	g.tag("select")
	g.w("select {")
	n := g.count()
	def := -1
	if n > 0 && g.r.Intn(3) == 0 {
		def = g.r.Intn(n)
	}
	for i := 0; i < n; i++ {
		g.w("\n")
		mark := len(g.declared)
		if i == def {
			g.w("default:")
		} else {
			g.w("case ")
			switch g.r.Intn(5) {
			case 0:
				g.primary(g.sub(d))
				g.w(" <- ")
				g.exprIn(g.sub(d))
			case 1:
				g.w("<-")
				g.primary(g.sub(d))
			case 2:
				g.w(g.name(), " := <-")
				g.primary(g.sub(d))
			case 3:
				g.w(g.name(), ", ", g.name(), " := <-")
				g.primary(g.sub(d))
			default:
				g.w(g.ref(), ", ", g.ref(), " = <-")
				g.primary(g.sub(d))
			}
			g.w(":")
		}
		g.caseBody(g.sub(d))
		g.restore(mark)
	}
	g.w("\n}")
}

func (g *srcGen) forStmt(d int) {
	mark := len(g.declared)
	g.w("for ")
	shape := g.r.Intn(10)
	g.header(func() {
		switch shape {
		case 0:
			g.tag("for-bare")
		case 1, 2:
			g.tag("for-cond")
			g.expr(g.sub(d))
			g.w(" ")
		default:
			// init; cond; post with every subset of the three present
			in, co, po := g.r.Intn(3) > 0, g.r.Intn(3) > 0, g.r.Intn(3) > 0
			g.tag(fmt.Sprintf("for-clauses-%v-%v-%v", in, co, po))
			if in {
				g.simpleStmt(g.sub(d))
			}
			g.w("; ")
			if co {
				g.expr(g.sub(d))
			}
			g.w("; ")
			if po {
				// the post statement must not declare: no :=
				switch g.r.Intn(3) {
				case 0:
					g.w(g.ref(), "++")
				case 1:
					g.w(g.ref(), " += ")
					g.expr(g.sub(d))
				default:
					g.primary(g.sub(d))
					g.w("(")
					g.args(g.sub(d))
					g.w(")")
				}
				g.w(" ")
			}
		}
	})
	g.inLoop++
	g.block(g.sub(d))
	g.inLoop--
	g.restore(mark)
}

func (g *srcGen) rangeStmt(d int) {
	mark := len(g.declared)
	g.w("for ")
	g.header(func() {
		switch g.r.Intn(6) {
		case 0:
			g.tag("range-bare")
		case 1:
			g.tag("range-key")
			g.w(g.name(), " := ")
		case 2:
			g.tag("range-key-value")
			g.w(g.name(), ", ", g.name(), " := ")
		case 3:
			g.w("_, ", g.name(), " := ")
		case 4:
			g.tag("range-assign")
			g.primary(g.sub(d))
			g.w(", ")
			g.primary(g.sub(d))
			g.w(" = ")
		default:
			g.tag("range-assign")
			g.primary(g.sub(d))
			g.w(" = ")
		}
		g.w("range ")
		g.expr(g.sub(d))
		g.w(" ")
	})
	g.block(g.sub(d))
	g.restore(mark)
}

func (g *srcGen) valueSpec(d int, isConst bool, first bool) {
	n := 1
	if g.r.Intn(4) == 0 {
		n = 2 + g.r.Intn(3)
	}
	n = g.widen(n)
	var names []string
	for i := 0; i < n; i++ {
		g.fresh++
		names = append(names, fmt.Sprintf("d%d", g.fresh))
	}
	g.w(strings.Join(names, ", "))
	hasType := g.r.Intn(3) == 0
	hasVal := g.r.Intn(4) > 0
	if isConst && first {
		hasVal = true
	}
	if isConst && !hasVal {
		hasType = false // implicit repetition has neither type nor value
	}
	if !isConst && !hasVal {
		hasType = true
	}
	if hasType {
		g.w(" ")
		g.typ(g.sub(d))
	}
	if hasVal {
		g.w(" = ")
		for i := 0; i < n; i++ {
			if i > 0 {
				g.w(", ")
			}
			g.exprIn(g.sub(d))
		}
	}
	g.declared = append(g.declared, names...)
}

func (g *srcGen) typeSpec(d int) {
	g.fresh++
	g.w(fmt.Sprintf("T%d", g.fresh+100))
	if g.r.Intn(4) == 0 {
		g.typeParams(d)
	}
	if g.r.Intn(5) == 0 {
		g.tag("alias")
		g.w(" =")
	}
	g.w(" ")
	switch g.r.Intn(4) {
	case 0:
		g.structType(d)
	case 1:
		g.interfaceType(d)
	default:
		g.typ(d)
	}
}

func (g *srcGen) genDecl(d int) {
	kind := g.r.Intn(3)
	kw := []string{"const", "var", "type"}[kind]
	g.w(kw, " ")
	if g.r.Intn(3) == 0 {
		g.tag("decl-group")
		g.w("(")
		n := g.count()
		for i := 0; i < n; i++ {
			g.w("\n")
			if kind == 2 {
				g.typeSpec(g.sub(d))
			} else {
				g.valueSpec(g.sub(d), kind == 0, i == 0)
			}
			if g.r.Intn(10) == 0 {
				g.w(";")
			}
		}
		if n > 0 {
			g.w("\n")
		}
		g.w(")")
		return
	}
	if kind == 2 {
		g.typeSpec(d)
	} else {
		g.valueSpec(d, kind == 0, true)
	}
}

func (g *srcGen) localDecl(d int) {
	g.tag("local-decl")
	g.genDecl(g.sub(d))
}

func (g *srcGen) funcDecl(d int) {
	g.w("func ")
	method := g.r.Intn(3) == 0
	mark := len(g.declared)
	if method {
		g.tag("method")
		switch g.r.Intn(5) {
		case 0:
			g.w("(T0) ")
		case 1:
			g.w("(", g.name(), " *T0) ")
		case 2:
			g.w("(", g.name(), " T0[P, Q]) ")
		case 3:
			g.w("(_ *T0[_]) ")
		default:
			g.w("(", g.name(), " T0) ")
		}
	}
	g.fresh++
	g.w(fmt.Sprintf("F%d", g.fresh))
	if !method && g.r.Intn(4) == 0 {
		g.typeParams(d)
	}
	g.signature(d, true)
	if g.r.Intn(12) == 0 {
		g.tag("func-no-body")
	} else {
		g.w(" ")
		g.funcBody(d)
	}
	g.restore(mark)
}

// fileHeader writes the package clause and 0..5 imports (declared in g.imports).
func (g *srcGen) fileHeader() {
	r := g.r
	if g.pkgMode == 0 {
		g.pkgName = pick(r, []string{"p", "main", "foo_test", "x1", "é"})
		g.w("package ", g.pkgName, "\n\n")
	}
	// imports
	ni := r.Intn(6)
	perm := r.Perm(len(genPkgs))
	aliases := r.Perm(len(genAliases))
	for i := 0; i < ni; i++ {
		p := genPkgs[perm[i]]
		im := &genImport{path: p[0], name: p[1]}
		switch r.Intn(5) {
		case 0:
			im.alias = genAliases[aliases[i]]
		case 1:
			if r.Intn(2) == 0 {
				im.alias = "_"
			}
		}
		g.imports = append(g.imports, im)
	}
	if g.pkgMode != 0 {
		ni = g.pkgNameFromImports()
		g.w("package ", g.pkgName, "\n\n")
	}
	writeSpec := func(im *genImport) {
		if im.alias != "" {
			g.w(im.alias, " ")
		}
		g.w(fmt.Sprintf("%q", im.path))
	}
	switch {
	case ni == 0:
	case r.Intn(3) == 0: // one declaration per import
		for _, im := range g.imports {
			g.w("import ")
			writeSpec(im)
			g.w("\n")
		}
	default:
		g.w("import (\n")
		for _, im := range g.imports {
			g.w("\t")
			writeSpec(im)
			g.w("\n")
		}
		g.w(")\n")
	}
}

// fileEnd references every import that is not blank and not yet used, and returns the text
// with the tags of the file.
func (g *srcGen) fileEnd() (src string, tags []string) {
	// every import that is not blank must be referenced (jennifer writes exactly the used ones)
	for _, im := range g.imports {
		if im.alias != "_" && !im.used {
			local := im.name
			if im.alias != "" {
				local = im.alias
			}
			g.w("\nvar _ = ", local, ".X\n")
		}
	}
	for t := range g.tags {
		tags = append(tags, "gen:"+t)
	}
	sort.Strings(tags)
	return g.b.String(), tags
}

// GenSource writes one file.  depth is the nesting budget (<= 12; negative = -depth with a
// spine that almost always continues to the limit), size the node budget.
func GenSource(r *rand.Rand, depth, size int) (src string, tags []string) {
	return GenSourceWide(r, depth, size, 0)
}

// GenSourceWide is GenSource with 1 list in wideRate (0 = none) widened to 17..46 items.
func GenSourceWide(r *rand.Rand, depth, size, wideRate int) (src string, tags []string) {
	g := &srcGen{r: r, budget: size, tags: map[string]bool{}, deep: depth < 0, wideRate: wideRate}
	if depth < 0 {
		depth = -depth
	}
	g.fileHeader()
	nd := g.count()
	if nd == 0 && r.Intn(3) > 0 {
		nd = 1
	}
	for i := 0; i < nd; i++ {
		g.w("\n")
		g.declared = g.declared[:0]
		if r.Intn(2) == 0 {
			g.funcDecl(depth)
		} else {
			g.genDecl(depth)
		}
		g.w("\n")
	}
	return g.fileEnd()
}

func c01Min(a, b int) int {
	if a < b {
		return a
	}
	return b
}
