package props

import (
	"fmt"
	"math/rand"
	"runtime"
	"strings"
	"sync"

	"verifharness/hist"
	"verifharness/term"
)

// C12, stream "concurrent": literals rendered by several goroutines at the same time.
//
// Every other stream of C12 renders one tree at a time.  The property says nothing about who
// else is rendering: K callers that each build and render objects of their own (nothing is
// shared by the callers) must each get their own literals back.  A case of this stream is a
// JOB SET: K independent jobs, job j being a list of literals of one kind embedded in one of the
// shapes of c11.go (or the shape call-plain below) and rendered as its own Statement or its
// own File (File j of the history).  For the model the job set is ONE ordinary history - the
// jobs one after the other - and the model answers one observation per job.  On the
// implementation the execution of the case (hist.World.Exec reaching its first observing
// element) runs R ROUNDS; in every round K goroutines are started, wait at a barrier, and are
// released together; goroutine j builds job j from scratch (a World and a Builder of its own)
// and renders it.  So re-executing the case (replay, shrinking) re-creates the concurrency.
// GOMAXPROCS is raised to 4 for the duration if it is lower.
//
// All R outputs of job j are kept (the distinct ones).  Compare requires EVERY one of them to be
// the model's answer for job j; the oracle decides every one of them with go/scanner +
// strconv.Unquote / UnquoteChar (c12CheckTokens) or go/types (byte literals) against the
// literals of job j, and reports outputs of one job that differ between rounds.
//
// NonTrivial (measured): at least two jobs hold string or rune literals and their literal
// lists differ (bytes of another goroutine's literal showing up in a job are then visible).
// Tags: concurrent, goroutines=K, rounds=R, gomaxprocs>=4, the shapes and kinds of the jobs,
// the string/rune tags of the other streams, same-length-strings (jobs whose strings have
// pairwise equal lengths: foreign bytes keep the output well-formed, only the value tells).

const c12CallPlain = "call-plain" // Statement.Render of   f(@, @, ..., @)

type c12Job struct {
	Shape    string
	Lits     []c1xLit
	NoFormat bool
	h        hist.History // the job alone, on File index = job index
}

func c12JobTemplate(j c12Job) string {
	if j.Shape == c12CallPlain {
		return "f(" + strings.TrimSuffix(strings.Repeat("@, ", len(j.Lits)), ", ") + ");"
	}
	return c1xTemplate(j.Shape, len(j.Lits))
}

func c12JobHistory(j c12Job, file int) hist.History {
	if j.Shape == c12CallPlain {
		args := make([]term.Node, len(j.Lits))
		for i, l := range j.Lits {
			args[i] = term.S(l.tok())
		}
		return hist.History{{Kind: "rplain", Code: term.S(term.Id("f"), term.G("Call", args...))}}
	}
	h := c1xHistory(j.Shape, j.Lits, j.NoFormat && c1xIsFile(j.Shape))
	out := make(hist.History, len(h))
	for i, op := range h {
		if op.Kind != "rplain" {
			op.F = file
		}
		out[i] = op
	}
	return out
}

// c12JobCheck decides one output of one job.
func c12JobCheck(j c12Job, o hist.Obs) string {
	if o.Kind != "write" || o.Failed {
		return fmt.Sprintf("render did not succeed: %s", o)
	}
	if j.Lits[0].Kind == "byte" {
		return c12CheckBytes(j.Shape, o.Out, j.Lits)
	}
	return c12CheckTemplate(c12JobTemplate(j), o.Out, j.Lits)
}

type c12ConcOut struct {
	Obs   hist.Obs
	Round int // first round that showed it
	Count int
}

// c12Conc is the job set of a case and the outputs of its last execution.
type c12Conc struct {
	Jobs   []c12Job
	Rounds int
	mu     sync.Mutex
	outs   [][]c12ConcOut // per job: the distinct observations of the last execution
	procs  int
}

func c12SameObs(a, b hist.Obs) bool {
	return a.Kind == b.Kind && a.Out == b.Out && a.Failed == b.Failed && a.Msg == b.Msg && a.Writes == b.Writes
}

func c12ExecJob(h hist.History) (o hist.Obs) {
	defer func() {
		if r := recover(); r != nil {
			o = hist.Obs{Kind: "bad", Msg: fmt.Sprintf("harness panic in a job goroutine: %v", r)}
		}
	}()
	obs := hist.NewWorld().Exec(h)
	if len(obs) != 1 {
		return hist.Obs{Kind: "bad", Msg: fmt.Sprintf("%d observations for one job", len(obs))}
	}
	return obs[0]
}

// run executes the job set: Rounds times K goroutines behind a barrier.
func (x *c12Conc) run() {
	if p := runtime.GOMAXPROCS(0); p < 4 {
		runtime.GOMAXPROCS(4)
		defer runtime.GOMAXPROCS(p)
	}
	x.mu.Lock()
	defer x.mu.Unlock()
	x.procs = runtime.GOMAXPROCS(0)
	k := len(x.Jobs)
	x.outs = make([][]c12ConcOut, k)
	res := make([]hist.Obs, k)
	for round := 0; round < x.Rounds; round++ {
		var ready, done sync.WaitGroup
		start := make(chan struct{})
		ready.Add(k)
		done.Add(k)
		for j := 0; j < k; j++ {
			go func(j int) {
				defer done.Done()
				h := x.Jobs[j].h
				ready.Done()
				<-start
				res[j] = c12ExecJob(h)
			}(j)
		}
		ready.Wait()
		close(start)
		done.Wait()
		for j := 0; j < k; j++ {
			found := false
			for i := range x.outs[j] {
				if c12SameObs(x.outs[j][i].Obs, res[j]) {
					x.outs[j][i].Count++
					found = true
					break
				}
			}
			if !found {
				x.outs[j] = append(x.outs[j], c12ConcOut{Obs: res[j], Round: round, Count: 1})
			}
		}
	}
}

// obs is the observation of job j that World.Exec hands on: the output of the first round (all
// distinct ones are judged by compare and oracle below).
func (x *c12Conc) obs(j int) hist.Obs {
	if j == 0 {
		x.run() // the first observing element of the history: (re-)execute the whole job set
	}
	x.mu.Lock()
	defer x.mu.Unlock()
	if j >= len(x.outs) || len(x.outs[j]) == 0 {
		return hist.Obs{Kind: "bad", Msg: "job set not executed"}
	}
	return x.outs[j][0].Obs
}

func (x *c12Conc) where(j int, o c12ConcOut) string {
	return fmt.Sprintf("job %d of %d (%s, %d literals) rendered by its own goroutine, round %d of %d (this output %d times)", j, len(x.Jobs), x.Jobs[j].Shape, len(x.Jobs[j].Lits), o.Round+1, x.Rounds, o.Count)
}

func (x *c12Conc) compare(exp, got []hist.Obs) string {
	if d := CompareAll(exp, got); d != "" {
		return d
	}
	x.mu.Lock()
	defer x.mu.Unlock()
	for j := range x.Jobs {
		for _, o := range x.outs[j] {
			if j < len(exp) && !hist.SameObs(exp[j], o.Obs) {
				return fmt.Sprintf("%s:\n  model: %s\n  impl:  %s", x.where(j, o), exp[j], o.Obs)
			}
		}
	}
	return ""
}

func (x *c12Conc) oracle(got []hist.Obs) string {
	x.mu.Lock()
	defer x.mu.Unlock()
	if len(got) != len(x.Jobs) || len(x.outs) != len(x.Jobs) {
		return fmt.Sprintf("%d observations for %d jobs", len(got), len(x.Jobs))
	}
	for j, job := range x.Jobs {
		if len(x.outs[j]) == 0 || !c12SameObs(x.outs[j][0].Obs, got[j]) {
			return fmt.Sprintf("job %d: the observation handed on is not the one recorded", j)
		}
		for _, o := range x.outs[j] {
			if m := c12JobCheck(job, o.Obs); m != "" {
				return x.where(j, o) + ": " + m
			}
		}
		if len(x.outs[j]) > 1 {
			a, b := x.outs[j][0], x.outs[j][1]
			return fmt.Sprintf("job %d renders differently in round %d and round %d although it is built afresh from the same literals:\n  %s\n  %s", j, a.Round+1, b.Round+1, a.Obs, b.Obs)
		}
	}
	return ""
}

// c12SplitTop splits a line into its top-level parenthesised elements (strings are hex atoms:
// no parenthesis occurs inside an atom).
func c12SplitTop(line string) []string {
	var out []string
	depth, start := 0, 0
	for i := 0; i < len(line); i++ {
		switch line[i] {
		case '(':
			if depth == 0 {
				start = i
			}
			depth++
		case ')':
			depth--
			if depth == 0 {
				out = append(out, line[start:i+1])
			}
		}
	}
	return out
}

// c12ConcCase builds the case of a job set.
func c12ConcCase(jobs []c12Job, rounds int, stream string) *Case {
	x := &c12Conc{Jobs: jobs, Rounds: rounds}
	var full hist.History
	for j := range x.Jobs {
		x.Jobs[j].h = c12JobHistory(x.Jobs[j], j)
		full = append(full, x.Jobs[j].h...)
	}
	// the model reads the jobs as one history; the implementation-side executor is attached to
	// the observing elements (one per job, in job order)
	parts := c12SplitTop(full.Sexp())
	if len(parts) != len(full) {
		panic("c12: cannot split the serialised job set")
	}
	h := make(hist.History, len(full))
	job := 0
	for i, op := range full {
		h[i] = hist.Op{Kind: "ext", A: parts[i]}
		if op.Kind == "render" || op.Kind == "rplain" {
			j := job
			h[i].Run = func() hist.Obs { return x.obs(j) }
			job++
		}
	}
	if job != len(jobs) {
		panic("c12: a job must have exactly one observing operation")
	}
	tagset := map[string]bool{"concurrent": true, "gomaxprocs>=4": true}
	tagset[fmt.Sprintf("goroutines=%d", len(jobs))] = true
	tagset[fmt.Sprintf("rounds=%d", rounds)] = true
	distinct := map[string]bool{}
	sameLen := len(jobs) > 1
	for _, jb := range jobs {
		tagset["shape="+jb.Shape] = true
		tagset["kind="+map[string]string{"lit": "string", "rune": "rune", "byte": "byte"}[jb.Lits[0].Kind]] = true
		var key strings.Builder
		for i, l := range jb.Lits {
			switch l.Kind {
			case "lit":
				s := l.V.(string)
				for _, t := range c12StringTags(s) {
					tagset[t] = true
				}
				fmt.Fprintf(&key, "s%q", s)
				l0, ok := jobs[0].Lits[i%len(jobs[0].Lits)].V.(string)
				sameLen = sameLen && ok && len(jb.Lits) == len(jobs[0].Lits) && len(l0) == len(s)
			case "rune":
				for _, t := range c12RuneTags(l.V.(rune)) {
					tagset[t] = true
				}
				fmt.Fprintf(&key, "r%d", l.V.(rune))
				sameLen = false
			default:
				sameLen = false
			}
		}
		if jb.Lits[0].Kind != "byte" {
			distinct[key.String()] = true
		}
	}
	if sameLen {
		tagset["same-length-strings"] = true
	}
	return &Case{Hist: h, Stream: stream, Tags: sortedKeys(tagset), NonTrivial: len(distinct) >= 2,
		Meta: map[string]interface{}{"conc": x}}
}

// ---- generation ----

func c12ConcString(r *rand.Rand) string {
	switch r.Intn(10) {
	case 0:
		return c12Targeted[r.Intn(len(c12Targeted))]
	case 1, 2: // long: the literal is being quoted for a long time
		var sb strings.Builder
		for k := 5 + r.Intn(80); k > 0; k-- {
			sb.WriteString(AdvString(r))
		}
		return sb.String()
	case 3:
		return strings.Repeat(pick(r, []string{`"`, `\`, "\n", "\xff", "a", "\u4e16"}), 1+r.Intn(300))
	}
	return AdvString(r)
}

// c12ConcJob: one job of n literals of the given kind.
func c12ConcJob(r *rand.Rand, kind string, n int) c12Job {
	var shapes []string
	switch {
	case kind == "byte" && n == 1:
		shapes = []string{c1xVarPlain, c1xVarFile}
	case kind == "byte" && n == 2:
		shapes = []string{c1xFuncFile, c1xBatchFile}
	case kind == "byte":
		shapes = []string{c1xBatchFile}
	case n == 1:
		shapes = []string{c1xVarPlain, c1xStmtPlain, c1xVarFile, c12CallPlain}
	case n == 2:
		shapes = []string{c1xFuncFile, c1xBatchFile, c12CallPlain}
	default:
		shapes = []string{c1xBatchFile, c1xBatchFile, c12CallPlain}
	}
	jb := c12Job{Shape: pick(r, shapes), NoFormat: r.Intn(2) == 0}
	if n > 8 && r.Intn(2) == 0 {
		jb.NoFormat = true // (go/format is most of the time of a large File: without it the goroutines spend their time rendering)
	}
	for i := 0; i < n; i++ {
		switch kind {
		case "lit":
			jb.Lits = append(jb.Lits, c12Str(c12ConcString(r)))
		case "rune":
			jb.Lits = append(jb.Lits, c12Rune(c12RandomRune(r)))
		default:
			jb.Lits = append(jb.Lits, c12Byte(byte(r.Intn(256))))
		}
	}
	return jb
}

// c12ConcJobSet draws a job set of k jobs.
func c12ConcJobSet(r *rand.Rand, k int) []c12Job {
	var jobs []c12Job
	switch r.Intn(5) {
	case 0:
		// the same shape and the same number of strings of the same lengths in every job, each job
		// its own letter: foreign bytes leave the output well-formed
		n := 1 + r.Intn(60)
		lens := make([]int, n)
		for i := range lens {
			lens[i] = r.Intn(120)
		}
		shape := pick(r, []string{c1xBatchFile, c12CallPlain})
		nf := r.Intn(2) == 0
		for j := 0; j < k; j++ {
			jb := c12Job{Shape: shape, NoFormat: nf}
			for i := range lens {
				jb.Lits = append(jb.Lits, c12Str(strings.Repeat(string(rune('a'+j%26)), lens[i])+fmt.Sprintf("\t\"%d\"", j)))
			}
			jobs = append(jobs, jb)
		}
	default:
		for j := 0; j < k; j++ {
			kind := "lit"
			switch r.Intn(10) {
			case 0, 1:
				kind = "rune"
			case 2:
				kind = "byte"
			}
			n := 1 + r.Intn(80)
			switch r.Intn(6) {
			case 0:
				n = 1
			case 1:
				n = 2
			}
			jobs = append(jobs, c12ConcJob(r, kind, n))
		}
	}
	return jobs
}

// c12ConcGenerate: quick 20 job sets of 2..16 goroutines x 60..180 rounds, thorough 600 x
// 120..360 rounds.
func c12ConcGenerate(r *rand.Rand, t string) []*Case {
	var out []*Case
	n := tier(t, 20, 600)
	ks := []int{2, 4, 8, 3, 16, 2, 6, 4, 12, 8}
	for i := 0; i < n; i++ {
		k := ks[i%len(ks)]
		rounds := 60 + 40*r.Intn(4)
		if t == "thorough" {
			rounds *= 2
		}
		out = append(out, c12ConcCase(c12ConcJobSet(r, k), rounds, "concurrent"))
	}
	return out
}

// c12ConcShrink: fewer jobs (never fewer than two), fewer literals per job.  A candidate is
// executed again with its goroutines, so a smaller job set is kept only if it fails again.
func c12ConcShrink(c *Case) []*Case {
	x := c.Meta["conc"].(*c12Conc)
	var out []*Case
	cp := func(jobs []c12Job) []c12Job {
		o := make([]c12Job, len(jobs))
		for i, j := range jobs {
			o[i] = c12Job{Shape: j.Shape, Lits: j.Lits, NoFormat: j.NoFormat}
		}
		return o
	}
	if k := len(x.Jobs); k > 2 {
		out = append(out, c12ConcCase(cp(x.Jobs[:k/2+k%2]), x.Rounds, "shrunk"), c12ConcCase(cp(x.Jobs[k/2:]), x.Rounds, "shrunk"))
	}
	var half []c12Job
	smaller := false
	for _, j := range x.Jobs {
		h := c12Job{Shape: j.Shape, Lits: j.Lits, NoFormat: j.NoFormat}
		if (j.Shape == c1xBatchFile || j.Shape == c12CallPlain) && len(j.Lits) > 1 {
			h.Lits = j.Lits[:(len(j.Lits)+1)/2]
			smaller = true
		}
		half = append(half, h)
	}
	if smaller {
		out = append(out, c12ConcCase(half, x.Rounds, "shrunk"))
	}
	return out
}
