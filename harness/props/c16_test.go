package props

import (
	"math/rand"
	"strings"
	"testing"

	"verifharness/hist"
	"verifharness/term"
)

func TestC16CheckOnHandMadeOutputs(t *testing.T) {
	hd := "package p\n\n\n"
	three := []C16KV{{`"a"`, "1"}, {"b", "f (x)"}, {"f ()", `"v"`}}
	dups := []C16KV{{"f ()", "1"}, {"f ()", "2"}}
	type tc struct {
		why  string
		src  string
		view string
		exp  []C16KV
		good bool
	}
	cases := []tc{
		// accepted
		{"three pairs, raw", hd + "var _ = T {\n\"a\":1,\nb:f (x),\nf ():\"v\",\n}", "raw-file", three, true},
		{"three pairs, formatted file", "package p\n\nvar _ = T{\n\t\"a\": 1,\n\tb:   f(x),\n\tf(): \"v\",\n}\n", "fmt-file", three, true},
		{"three pairs, formatted expression", "T{\n\t\"a\": 1,\n\tb:   f(x),\n\tf(): \"v\",\n}", "fmt-expr", three, true},
		{"one pair is inline", hd + "var _ = map[string] int {\"a\":1}", "raw-file", three[:1], true},
		{"no pair", hd + "var _ = T {}", "raw-file", nil, true},
		{"equal key texts, both pairs", hd + "var _ = T {\nf ():1,\nf ():2,\n}", "raw-file", dups, true},
		{"equal key texts, other order", hd + "var _ = T {\nf ():2,\nf ():1,\n}", "raw-file", dups, true},
		{"literal after other declarations", "package p\n\nimport \"fmt\"\n\n\nvar _ = fmt.A\nvar _ = T {fmt.K:1}", "raw-file", []C16KV{{"fmt.K", "1"}}, true},
		{"bytewise order: quote sorts before letters, blank before quote", hd + "var _ = T {\n\"a b\":1,\n\"a\":2,\n\"ab\":3,\na:4,\n}", "raw-file",
			[]C16KV{{`"a"`, "2"}, {`"ab"`, "3"}, {`"a b"`, "1"}, {"a", "4"}}, true},
		// rejected
		{"a pair was dropped", hd + "var _ = T {\n\"a\":1,\nf ():\"v\",\n}", "raw-file", three, false},
		{"a pair was duplicated", hd + "var _ = T {\n\"a\":1,\n\"a\":1,\nb:f (x),\nf ():\"v\",\n}", "raw-file", three, false},
		{"one pair twice, the other lost (the fixed defect)", hd + "var _ = T {\nf ():2,\nf ():2,\n}", "raw-file", dups, false},
		{"only one of two equal keys", hd + "var _ = T {f ():2}", "raw-file", dups, false},
		{"keys not sorted", hd + "var _ = T {\nb:f (x),\n\"a\":1,\nf ():\"v\",\n}", "raw-file", three, false},
		{"keys not sorted, formatted", "T{\n\tb:   f(x),\n\t\"a\": 1,\n\tf(): \"v\",\n}", "fmt-expr", three, false},
		{"value attached to another key", hd + "var _ = T {\n\"a\":f (x),\nb:1,\nf ():\"v\",\n}", "raw-file", three, false},
		{"a pair with a null value was kept", hd + "var _ = T {\n\"a\":1,\nb:f (x),\nc:,\nf ():\"v\",\n}", "raw-file", three, false},
		{"an extra pair", hd + "var _ = T {\n\"a\":1,\nb:f (x),\nc:2,\nf ():\"v\",\n}", "raw-file", three, false},
		{"several pairs on one line", hd + "var _ = T {\"a\":1,b:f (x),f ():\"v\"}", "raw-file", three, false},
		{"one pair over several lines", hd + "var _ = T {\n\"a\":1,\n}", "raw-file", three[:1], false},
		{"no pair but a line break", hd + "var _ = T {\n}", "raw-file", nil, false},
		{"a positional element", hd + "var _ = T {\n\"a\":1,\nb,\nf ():\"v\",\n}", "raw-file", three, false},
		{"not a literal", hd + "var _ = T", "raw-file", nil, false},
		{"does not parse", hd + "var _ = T {\n\"a\":1,\nb:f (x)\n", "raw-file", three, false},
		{"separator without a pair", hd + "var _ = T {\n\"a\":1,\n,\nb:f (x),\nf ():\"v\",\n}", "raw-file", three, false},
	}
	for _, c := range cases {
		msg := C16Check(c.src, c.view, c.exp)
		if c.good && msg != "" {
			t.Errorf("%s: rejected: %s", c.why, msg)
		}
		if !c.good && msg == "" {
			t.Errorf("%s: accepted", c.why)
		}
	}
}

func TestC16OracleAndCompare(t *testing.T) {
	p := c16{}
	reg := p.Regressions()[0] // file mode, rendered raw twice, then imports
	w := func(s string) hist.Obs { return hist.Obs{Kind: "write", Out: s} }
	imp := hist.Obs{Kind: "imports"}
	a := "package p\n\n\nvar _ = T {\nf ():1,\nf ():2,\n}"
	b := "package p\n\n\nvar _ = T {\nf ():2,\nf ():1,\n}"
	collapsed := "package p\n\n\nvar _ = T {\nf ():2,\nf ():2,\n}"
	if msg := p.Oracle(reg, []hist.Obs{w(a), w(b), imp}); msg != "" {
		t.Errorf("both orders of equal keys must be accepted: %s", msg)
	}
	if msg := p.Oracle(reg, []hist.Obs{w(a), w(collapsed), imp}); msg == "" {
		t.Errorf("the collapsed rendering was accepted")
	}
	if msg := p.Oracle(reg, []hist.Obs{w(a), {Kind: "panic", Msg: "x"}, imp}); msg == "" {
		t.Errorf("a panic was accepted")
	}
	if msg := p.Oracle(reg, []hist.Obs{w(a), imp}); msg == "" {
		t.Errorf("a missing observation was accepted")
	}
	// projection: equal key texts are compared modulo the order of the pairs, nothing else
	if msg := p.Compare(reg, []hist.Obs{w(a), w(a), imp}, []hist.Obs{w(b), w(a), imp}); msg != "" {
		t.Errorf("order of equal keys must not matter to Compare: %s", msg)
	}
	if msg := p.Compare(reg, []hist.Obs{w(a), w(a), imp}, []hist.Obs{w(collapsed), w(a), imp}); msg == "" {
		t.Errorf("Compare accepted a collapsed pair")
	}
	// distinct keys: the full bytes
	ps := []c16Pair{{c16Id("a"), c16Int(1)}, {c16Id("b"), c16Int(2)}}
	c := c16MkCase(ps, nil, 0, "file", false, false, false, "t")
	x := "package p\n\n\nvar _ = T {\na:1,\nb:2,\n}"
	y := "package p\n\n\nvar _ = T {\nb:2,\na:1,\n}"
	if msg := p.Compare(c, []hist.Obs{w(x), imp}, []hist.Obs{w(y), imp}); msg == "" {
		t.Errorf("Compare accepted reordered distinct keys")
	}
	if msg := p.Oracle(c, []hist.Obs{w(y), imp}); msg == "" {
		t.Errorf("Oracle accepted unsorted keys")
	}
	if msg := p.Oracle(c, []hist.Obs{w(x), imp}); msg != "" {
		t.Errorf("good output rejected: %s", msg)
	}
}

// the generator keeps its promises: distinct-keys cases have pairwise distinct surviving
// key texts, the equal-key stream really has equal texts, sizes 0..16 all occur
func TestC16GeneratorShape(t *testing.T) {
	cases := c16{}.Generate(rand.New(rand.NewSource(1)), "quick")
	sizes := map[int]int{}
	dups := 0
	for _, c := range cases {
		if m, ok := c.Meta["c16f"].(*c16fMeta); ok {
			// stream fill-between-renders: at every render the surviving key texts are pairwise distinct
			for _, exp := range m.Exps {
				seen := map[string]bool{}
				for _, p := range exp {
					if p.K == "" || p.V == "" || seen[p.K] {
						t.Fatalf("fill-between-renders: bad surviving pairs %v", exp)
					}
					seen[p.K] = true
				}
			}
			continue
		}
		exp := c.Meta["exp"].([]C16KV)
		sizes[len(exp)]++
		seen := map[string]bool{}
		d := false
		for _, p := range exp {
			if p.K == "" || p.V == "" {
				t.Fatalf("a surviving pair without text: %v", p)
			}
			d = d || seen[p.K]
			seen[p.K] = true
		}
		if d != (c.Meta["dup"] == true) {
			t.Fatalf("dup flag wrong")
		}
		if d {
			dups++
			if c.Stream != "equal-key-texts" {
				t.Fatalf("equal key texts in stream %s", c.Stream)
			}
		}
	}
	for n := 0; n <= 14; n++ {
		if sizes[n] == 0 {
			t.Errorf("no case with %d surviving pairs", n)
		}
	}
	if dups < 100 {
		t.Errorf("only %d cases with equal key texts", dups)
	}
}

func TestC16HoldsOnTheImplementation(t *testing.T) {
	p := c16{}
	cases := append(p.Regressions(), p.Generate(rand.New(rand.NewSource(9)), "quick")...)
	for i, c := range cases {
		if i%9 != 0 && c.Name == "" {
			continue
		}
		got := hist.NewWorld().Exec(c.Hist)
		if msg := p.Oracle(c, got); msg != "" {
			t.Fatalf("case %d (%s): %s\n%s", i, c.Stream, msg, c.Hist.Sexp())
		}
	}
}

// New shapes: a Dict inside a Dict key, and Qual keys written with numbered aliases.
func TestC16CheckNestedAndRenamedKeys(t *testing.T) {
	hd := "package p\n\n\n"
	p1, p2 := "Point {\nX:1,\nY:9,\n}", "Point {\nX:10,\nY:2,\n}"
	nested := []C16KV{{p2, "1"}, {p1, "2"}}
	if m := C16Check(hd+"var _ = T {\n"+p1+":2,\n"+p2+":1,\n}", "raw-file", nested); m != "" {
		t.Errorf("nested keys in order rejected: %s", m)
	}
	if m := C16Check(hd+"var _ = T {\n"+p2+":1,\n"+p1+":2,\n}", "raw-file", nested); m == "" {
		t.Errorf("nested keys out of order accepted")
	}
	if m := C16Check("package p\n\nvar _ = T{\n\tPoint{\n\t\tX: 1,\n\t\tY: 9,\n\t}: 2,\n\tPoint{\n\t\tX: 10,\n\t\tY: 2,\n\t}: 1,\n}\n", "fmt-file", nested); m != "" {
		t.Errorf("nested keys, formatted, rejected: %s", m)
	}
	if m := C16Check("package p\n\nvar _ = T{\n\tPoint{\n\t\tX: 10,\n\t\tY: 2,\n\t}: 1,\n\tPoint{\n\t\tX: 1,\n\t\tY: 9,\n\t}: 2,\n}\n", "fmt-file", nested); m == "" {
		t.Errorf("nested keys out of order, formatted, accepted")
	}
	// the numbering the oracle expects: first come first served, numbered candidates skipped
	al := c16Aliases([]string{"a.example/x", "b.example/x", "f.example/x0", "g.example/x1", "c.example/X"}, "")
	want := map[string]string{"a.example/x": "x", "b.example/x": "x1", "f.example/x0": "x0", "g.example/x1": "x11", "c.example/X": "x2"}
	for p, w := range want {
		if al[p] != w {
			t.Errorf("alias of %s: %s, want %s", p, al[p], w)
		}
	}
	if a := c16Aliases([]string{"a.example/x", "b.example/x"}, "pkg"); a["a.example/x"] != "pkg_x" || a["b.example/x"] != "pkg_x1" {
		t.Errorf("aliases with a prefix: %v", a)
	}
	imp := "package p\n\nimport (\nx \"a.example/x\"\nx1 \"b.example/x\"\nx0 \"f.example/x0\"\n)\n\n\nvar _ = f (x.A,x1.A,x0.A)\n"
	ren := []C16KV{{"x1.Key", "0"}, {"x0.Key", "1"}, {"x.Key", "2"}}
	if m := C16Check(imp+"var _ = T {\nx.Key:2,\nx0.Key:1,\nx1.Key:0,\n}", "raw-file", ren); m != "" {
		t.Errorf("renamed keys in the order of the written text rejected: %s", m)
	}
	// the order of the texts the keys would have in an empty File (x, x, x0): rejected
	if m := C16Check(imp+"var _ = T {\nx.Key:2,\nx1.Key:0,\nx0.Key:1,\n}", "raw-file", ren); m == "" {
		t.Errorf("renamed keys ordered by their unnumbered text accepted")
	}
	// the real implementation on the stream
	r := rand.New(rand.NewSource(16))
	nt := 0
	for i := 0; i < 300; i++ {
		c := c16RenamedCase(r, i)
		if m := (c16{}).Oracle(c, ExecFresh(c.Hist)); m != "" {
			t.Fatalf("oracle rejects the real implementation: %s\n%s", m, c.Hist.Sexp())
		}
		if c.NonTrivial {
			nt++
		}
	}
	if nt < 100 {
		t.Errorf("only %d of 300 renamed cases are decisive", nt)
	}
}

func TestC16FillBetweenRenders(t *testing.T) {
	r := rand.New(rand.NewSource(16))
	nt, stale := 0, 0
	for i := 0; i < 400; i++ {
		c := c16FillCase(r, i)
		got := ExecFresh(c.Hist)
		if m := (c16{}).Oracle(c, got); m != "" {
			t.Fatalf("oracle rejects the real implementation (case %d): %s\n%s", i, m, c.Hist.Sexp())
		}
		if !c.NonTrivial {
			continue
		}
		nt++
		// what an implementation gives that forgets the pairs it has once left out: every later
		// render of the same kind shows what the first one showed
		m := c.Meta["c16f"].(*c16fMeta)
		firstOf := map[string]int{}
		bad := append([]hist.Obs{}, got...)
		changed := false
		for j, v := range m.Views {
			if v == "skip" || v == "imports" {
				continue
			}
			key := v + "/" + m.F.Views[j].Kind
			if k, ok := firstOf[key]; ok {
				if bad[j].Out != got[k].Out && len(m.Exps[j]) > len(m.Exps[k]) {
					bad[j], changed = got[k], true
				}
			} else {
				firstOf[key] = j
			}
		}
		if changed {
			stale++
			if msg := (c16{}).Oracle(c, bad); !strings.Contains(msg, "pairs rendered") && !strings.Contains(msg, "differ from the surviving pairs") {
				t.Fatalf("stale render accepted (case %d): %q", i, msg)
			}
		}
	}
	if nt < 250 || stale < 50 {
		t.Errorf("%d non-trivial cases, %d with a stale variant", nt, stale)
	}
	// hand-made: T{a: 1, b: <hole>, c: 3}; GoString; hole.Lit(2); GoString
	hole := term.S(term.Null())
	d := &term.Dict{Pairs: [][2]term.Node{{term.S(term.Id("a")), term.S(term.Lit(1))}, {term.S(term.Id("b")), hole}, {term.S(term.Id("c")), term.S(term.Lit(3))}}}
	lit := term.S(term.Id("T"), term.G("Values", d))
	sp := &c08fSpec{Holes: []*c08fHole{{St: hole, Init: 1}}, Steps: []c08fStep{
		{Kind: "set", Op: hist.Op{Kind: "newfile", F: 0, A: "p"}},
		{Kind: "gostring", St: lit}, {Kind: "ext", St: hole, Items: []term.Node{term.Lit(2)}}, {Kind: "gostring", St: lit, Verb: true}}}
	h, views := c08fBuild(sp)
	m := &c16fMeta{Views: []string{"fmt-expr", "fmt-expr"}, F: &c08fMeta{Spec: sp, Views: views},
		Exps: [][]C16KV{{{"a", "1"}, {"c", "3"}}, {{"a", "1"}, {"b", "2"}, {"c", "3"}}}}
	got := ExecFresh(h)
	if msg := c16fOracle(m, got); msg != "" {
		t.Fatalf("hand-made history rejected: %s (%v)", msg, got)
	}
	if msg := c16fOracle(m, []hist.Obs{got[0], got[0]}); !strings.Contains(msg, "2 pairs rendered, 3 expected") {
		t.Errorf("second render without the completed pair accepted: %q", msg)
	}
	if msg := c16fOracle(m, []hist.Obs{got[1], got[1]}); !strings.Contains(msg, "3 pairs rendered, 2 expected") {
		t.Errorf("first render with a pair whose value is null accepted: %q", msg)
	}
}
