package props

import (
	"math/rand"
	"strings"
	"testing"

	"verifharness/hist"
)

// Round 6 of C06: import-block layouts and package names.

func c06TestCase(t *testing.T, l *c06Layout) (*Case, string) {
	c := c06LayoutCase(rand.New(rand.NewSource(1)), l, "layout")
	got := hist.NewWorld().Exec(c.Hist)
	if v := (c06{}).Oracle(c, got); v != "" {
		t.Fatalf("unchanged tree: %s\n%s", v, c.Hist.Sexp())
	}
	o, _ := lastWrite(got)
	return c, o.Out
}

func TestC06OracleLoneDotImportBesidePreamble(t *testing.T) {
	l := &c06Layout{Ctor: hist.Op{Kind: "newfilepathname", F: 0, A: "a.b/c", B: "c"}, Local: "a.b/c", Pre: []string{"#include <stdlib.h>"}, CQual: true, Imps: []c06Imp{c06MkImp("dot", 0)}}
	c, out := c06TestCase(t, l)
	if !strings.Contains(out, "import . \"d.e/f\"\n") || !hasTag(c, "lone-import=dot+preamble") || !hasTag(c, "import-block=single-line") {
		t.Fatalf("not the layout meant:\n%s\n%v", out, c.Tags)
	}
	oracle := func(src string) string {
		return (c06{}).Oracle(c, []hist.Obs{{Kind: "write", Out: src}, {Kind: "imports"}})
	}
	if v := oracle(out); v != "" {
		t.Fatalf("good output rejected: %s", v)
	}
	for name, src := range map[string]string{
		"dot lost":               strings.Replace(out, "import . \"d.e/f\"", "import \"d.e/f\"", 1),
		"dot import not written": strings.Replace(out, "import . \"d.e/f\"\n", "", 1),
		"own path imported":      strings.Replace(out, "import . \"d.e/f\"\n", "import (\n\t. \"d.e/f\"\n\tc \"a.b/c\"\n)\n", 1),
	} {
		if src == out {
			t.Fatalf("%s: replacement did not apply", name)
		}
		if v := oracle(src); v == "" {
			t.Errorf("%s: accepted\n%s", name, src)
		}
	}
}

func TestC06OraclePackageNameHasNoSay(t *testing.T) {
	l := &c06Layout{Ctor: hist.Op{Kind: "newfilepathname", F: 0, A: "a.b/c", B: "c_test"}, Local: "a.b/c", Imps: []c06Imp{c06MkImp("dot", 0)}, Extra: []string{"c_test", "a.b/c/c_test"}}
	c, out := c06TestCase(t, l)
	if !strings.HasPrefix(out, "package c_test\n") || strings.Contains(out, "\"a.b/c\"") {
		t.Fatalf("unexpected output:\n%s", out)
	}
	// the own path qualified and imported
	bad := strings.Replace(out, ". \"d.e/f\"\n", ". \"d.e/f\"\n\tcc \"a.b/c\"\n", 1)
	bad = strings.Replace(bad, "V0_", "cc.V0_", -1)
	if bad == out {
		t.Fatal("replacement did not apply")
	}
	if v := (c06{}).Oracle(c, []hist.Obs{{Kind: "write", Out: bad}, {Kind: "imports"}}); v == "" {
		t.Errorf("own path imported and qualified: accepted\n%s", bad)
	}
}

func TestC06LayoutStreams(t *testing.T) {
	r := rand.New(rand.NewSource(2))
	tags := map[string]int{}
	for _, c := range append(c06LayoutCases(r, "quick"), c06PkgNameCases(r, "quick")...) {
		for _, tg := range c.Tags {
			tags[tg]++
		}
	}
	for _, k := range c06ImpKinds {
		for _, suffix := range []string{"", "+preamble", "+preamble+C-qual", "+preamble+C-anon"} {
			if tags["lone-import="+k+suffix] < 3 {
				t.Errorf("lone-import=%s%s: %d cases", k, suffix, tags["lone-import="+k+suffix])
			}
		}
		for _, k2 := range c06ImpKinds {
			a, b := k, k2
			if a > b {
				a, b = b, a
			}
			if tags["kinds="+a+"+"+b] < 12 {
				t.Errorf("kinds=%s+%s: %d cases", a, b, tags["kinds="+a+"+"+b])
			}
		}
	}
	for _, want := range []string{"import-block=none", "import-block=single-line", "import-block=parenthesised", "preamble-blocks=0", "preamble-blocks=1", "preamble-blocks=2",
		"pkgname=ends-in-_test", "pkgname=main", "pkgname=predeclared", "pkgname=equals-an-import-name(alias)", "pkgname=derived-from:c_test", "ref=own-path", "ref=package-name-as-path", "ctor=newfile", "ctor=newfilepath", "ctor=newfilepathname"} {
		if tags[want] < 4 {
			t.Errorf("tag %s: %d cases", want, tags[want])
		}
	}
}
