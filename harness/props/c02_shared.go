package props

import (
	"math/rand"

	"verifharness/hist"
	"verifharness/term"
)

// Stream "shared-group" of C02: ONE *Group pointer occurring several times among the items of
// one statement (what a caller gets by keeping a group - captured in a ...Func callback or
// taken from a statement - and adding it again).  The renderer looks at identities in one
// place: a Block asks its statement for "the item before me" (Statement.previous: the item
// before the FIRST occurrence of that pointer) and drops its braces after a Case group or
// the default keyword.  The model carries the identity as a number; term.Builder adds a
// node met again as the same pointer.  Compared with the model byte for byte (raw and
// formatted); the oracle is C02's (valid output or an error, never a panic).
// Shapes: [case|default|other] block X* block, block [case] block, the shared block
// itself holding a case-block, the block shared between two statements of the File.
func c02SharedStream(r *rand.Rand, t string) []*Case {
	var out []*Case
	n := tier(t, 240, 6000)
	for i := 0; i < n; i++ {
		h := hist.History{{Kind: "newfile", F: 0, A: "p"}}
		nf := r.Intn(2) == 0
		if nf {
			h = append(h, hist.Op{Kind: "noformat", F: 0, Flag: true})
		}
		body := func() []term.Node {
			k := r.Intn(3)
			var items []term.Node
			for j := 0; j < k; j++ {
				items = append(items, term.S(term.Id(pick(r, []string{"a", "b", "c"})), term.G("Call")))
			}
			return items
		}
		blk := term.G("Block", body()...)
		lead := func() term.Node {
			switch r.Intn(4) {
			case 0:
				return term.G("Case", term.S(term.Lit(r.Intn(3))))
			case 1:
				return term.Named("Default")
			case 2:
				return term.Id("x")
			}
			return term.Null()
		}
		filler := func() term.Node {
			switch r.Intn(5) {
			case 0:
				return term.G("Case", term.S(term.Lit(7)))
			case 1:
				return term.Named("Default")
			case 2:
				return term.Null()
			case 3:
				return term.G("Block", body()...)
			}
			return term.Id("y")
		}
		var items []term.Node
		tags := []string{}
		if r.Intn(4) != 0 {
			l := lead()
			items = append(items, l)
		}
		occ := 2 + r.Intn(2)
		for o := 0; o < occ; o++ {
			items = append(items, blk)
			if o < occ-1 {
				for f, nfill := 0, r.Intn(3); f < nfill; f++ {
					items = append(items, filler())
				}
			}
		}
		st := term.S(items...)
		var stmts []*term.Stmt
		switch r.Intn(3) {
		case 0: // statement level
			stmts = []*term.Stmt{term.S(term.Named("Func"), term.Id("f"), term.G("Params"), term.G("Block", term.S(term.G("Switch"), term.G("Block", st))))}
			tags = append(tags, "shared-group:inside-switch")
		case 1:
			stmts = []*term.Stmt{st}
			tags = append(tags, "shared-group:top-level")
		default: // the same block also in a second statement of the File
			stmts = []*term.Stmt{st, term.S(term.Named("Func"), term.Id("g"), term.G("Params"), blk)}
			tags = append(tags, "shared-group:two-statements")
		}
		for _, s := range stmts {
			h = append(h, hist.Op{Kind: "fadd", F: 0, Code: s})
		}
		h = append(h, hist.Op{Kind: "render", F: 0}, hist.Op{Kind: "render", F: 0})
		if nf {
			tags = append(tags, "noformat")
		}
		out = append(out, &Case{Hist: h, Stream: "shared-group", NonTrivial: true, Tags: append(tags, "shared-group")})
	}
	return out
}
