package props

import (
	"math/rand"
	"strings"
	"testing"

	"verifharness/hist"
	"verifharness/term"
)

// the history of the documented mutant's witness: a b c | d, clone, x to the clone, y to
// the original; both rendered after every step
func c20WitnessOps() []c20Op {
	id := func(s string) c20Item { return c20Item{Node: term.Id(s), Text: s} }
	r := func(v int) c20Op { return c20Op{Kind: "render", V: v} }
	ch := func(v int, its ...c20Item) c20Op { return c20Op{Kind: "append", V: v, Items: its, Chained: true} }
	st := func(s string) c20Item { return c20Item{Node: term.S(term.Id(s)), Text: s} }
	add3 := c20Op{Kind: "append", V: 0, Items: []c20Item{st("a"), st("b"), st("c")}}                      // one Add(a, b, c): cap 3
	return []c20Op{{Kind: "new", V: 0}, add3, ch(0, id("d")), {Kind: "clone", V: 1, From: 0}, r(0), r(1), // d: cap 6, len 4
		ch(1, id("x")), r(0), r(1), ch(0, id("y")), r(0), r(1)}
}

func fe(raw string) hist.Obs { return hist.Obs{Kind: "fmterr", Out: raw} }
func wr(out string) hist.Obs { return hist.Obs{Kind: "write", Out: out} }

func TestC20OracleRejectsAndAccepts(t *testing.T) {
	c := c20Case(c20WitnessOps(), "test", "")
	good := []hist.Obs{fe("a b c d"), fe("a b c d"), fe("a b c d"), fe("a b c d x"), fe("a b c d y"), fe("a b c d y x")}
	cases := []struct {
		name string
		got  []hist.Obs
		bad  string
	}{
		{"the list model's outputs", good, ""},
		{"clone's token overwritten by the original's (header-copy mutant, spare capacity)",
			[]hist.Obs{fe("a b c d"), fe("a b c d"), fe("a b c d"), fe("a b c d x"), fe("a b c d y"), fe("a b c d y")}, "variable 1 renders"},
		{"clone does not follow its original",
			[]hist.Obs{fe("a b c d"), fe("a b c d"), fe("a b c d"), fe("a b c d x"), fe("a b c d y"), fe("a b c d x")}, "variable 1 renders"},
		{"append to the clone shows up in the original",
			[]hist.Obs{fe("a b c d"), fe("a b c d"), fe("a b c d x"), fe("a b c d x"), fe("a b c d y"), fe("a b c d y x")}, "variable 0 renders"},
		{"clone's token lost",
			[]hist.Obs{fe("a b c d"), fe("a b c d"), fe("a b c d"), fe("a b c d"), fe("a b c d y"), fe("a b c d y")}, "variable 1 renders"},
		{"tokens reordered",
			[]hist.Obs{fe("a b c d"), fe("a b c d"), fe("a b c d"), fe("a b c d x"), fe("a b c d y"), fe("a b c d x y")}, "variable 1 renders"},
		{"unmodified clone differs from its original",
			[]hist.Obs{fe("a b c d"), fe("a b c"), fe("a b c d"), fe("a b c d x"), fe("a b c d y"), fe("a b c d y x")}, "variable 1 renders"},
		{"an observation missing", good[:5], "no observation"},
		{"a panic", append(append([]hist.Obs{}, good[:5]...), hist.Obs{Kind: "panic", Msg: "boom"}), "got panic"},
	}
	for _, tc := range cases {
		got := c20{}.Oracle(c, tc.got)
		switch {
		case tc.bad == "" && got != "":
			t.Errorf("%s: oracle rejects a good output: %s", tc.name, got)
		case tc.bad != "" && got == "":
			t.Errorf("%s: oracle accepts a bad output", tc.name)
		case tc.bad != "" && !strings.Contains(got, tc.bad):
			t.Errorf("%s: oracle verdict %q does not mention %q", tc.name, got, tc.bad)
		}
	}
}

// the frame check does not depend on the text table: with a wrong text table entry the
// value check fails first, so test it through formatted output that is stable
func TestC20OracleFrameAndFormatted(t *testing.T) {
	id := func(s string) c20Item { return c20Item{Node: term.Id(s), Text: s} }
	op := func(s string) c20Item { return c20Item{Node: term.Op(s), Text: s} }
	r := func(v int) c20Op { return c20Op{Kind: "render", V: v} }
	ch := func(v int, its ...c20Item) c20Op { return c20Op{Kind: "append", V: v, Items: its, Chained: true} }
	ops := []c20Op{{Kind: "new", V: 0}, ch(0, id("a"), op("+"), id("b")), {Kind: "clone", V: 1, From: 0}, r(0), r(1),
		ch(1, op("*"), id("c")), r(0), r(1)}
	c := c20Case(ops, "test", "")
	if v := (c20{}).Oracle(c, []hist.Obs{wr("a + b"), wr("a + b"), wr("a + b"), wr("a + b*c")}); v != "" {
		t.Errorf("good formatted outputs rejected: %s", v)
	}
	if v := (c20{}).Oracle(c, []hist.Obs{wr("a + b"), wr("a + b"), wr("a + b*c"), wr("a + b*c")}); v == "" {
		t.Errorf("original changed by an append to its clone: accepted")
	}
	if v := (c20{}).Oracle(c, []hist.Obs{wr("a + b"), wr("a+b"), wr("a + b"), wr("a + b*c")}); v == "" {
		t.Errorf("unmodified clone formatted differently from its original: accepted")
	}
}

// every generated history is accepted when the implementation side is replaced by the
// list model itself, and the serialisation has one srender per expected observation
func TestC20GeneratorConsistent(t *testing.T) {
	r := rand.New(rand.NewSource(7))
	for i := 0; i < 200; i++ {
		ops := c20Random(r, 5+r.Intn(40), 1+r.Intn(6), i%2 == 0)
		c := c20Case(ops, "test", "")
		line := c.Hist.Sexp()
		if !strings.HasPrefix(line, "(heap) (snew 0)") {
			t.Fatalf("line does not start a heap case: %.60s", line)
		}
		nr := 0
		for _, op := range ops {
			if op.Kind == "render" {
				nr++
			}
		}
		if strings.Count(line, "(srender ") != nr {
			t.Fatalf("%d renders, line has %d", nr, strings.Count(line, "(srender "))
		}
		got := hist.NewWorld().Exec(c.Hist)
		if len(got) != nr {
			t.Fatalf("%d renders, %d observations", nr, len(got))
		}
		if v := (c20{}).Oracle(c, got); v != "" {
			t.Fatalf("oracle fails on the implementation: %s\n%s", v, line)
		}
		// executing the same case again gives the same observations (the executor restarts)
		again := hist.NewWorld().Exec(c.Hist)
		for j := range got {
			if !hist.SameObs(got[j], again[j]) {
				t.Fatalf("re-execution differs at %d", j)
			}
		}
	}
}

// shadow slices: the measured tags see both capacity situations
func TestC20MeasureSeesCapacity(t *testing.T) {
	tags, nt := c20Measure(c20WitnessOps())
	has := func(s string) bool {
		for _, x := range tags {
			if x == s {
				return true
			}
		}
		return false
	}
	if !nt {
		t.Errorf("witness history is not counted as non-trivial")
	}
	for _, want := range []string{"append-in-place", "append-reallocates", "in-place-after-clone", "aliasing-hazard-observed", "vars=2", "clone-depth=1"} {
		if !has(want) {
			t.Errorf("tag %s missing from %v", want, tags)
		}
	}
}

// ---- snapshot histories (c20_snap.go) ----

// Case(x).Block(a()) cloned, the clone cloned: all render `case x: \na ()`; hand-made outputs in
// which a clone gets the braces back (what happens when the Block no longer finds the Case as
// its previous item) are rejected, alone and inside a switch, also when the original is wrong
// in the same way.
func TestC20SnapCaseClauseOracle(t *testing.T) {
	clause := []c20sItem{
		{Group: "Case", Kids: []c20sKid{{Ref: -1, Item: c20Item{Node: term.S(term.Id("x")), Text: "x"}}}},
		{Group: "Block", Kids: []c20sKid{{Ref: -1, Item: c20Item{Node: term.S(term.Id("a"), term.G("Call")), Text: "a ()"}}}},
	}
	ops := []c20sOp{{Kind: "new", V: 0}, {Kind: "append", V: 0, Items: clause}, {Kind: "clone", V: 1, From: 0}, {Kind: "clone", V: 2, From: 1},
		{Kind: "render", V: 0}, {Kind: "render", V: 1}, {Kind: "render", V: 2},
		{Kind: "renderin", Vars: []int{0}}, {Kind: "renderin", Vars: []int{1}}, {Kind: "renderin", Vars: []int{2}}, {Kind: "renderin", Vars: []int{0, 1, 2}}}
	c := c20sCase(ops, "test", nil)
	got := ExecFresh(c.Hist)
	if v := (c20{}).Oracle(c, got); v != "" {
		t.Fatalf("rejected on the implementation: %s", v)
	}
	if got[0].Kind != "fmterr" || got[0].Out != "case x: \na ()" || got[3].Out != "switch {\ncase x:\n\ta()\n}" {
		t.Fatalf("unexpected outputs %v", got[:4])
	}
	has := func(tag string) bool {
		for _, x := range c.Tags {
			if x == tag {
				return true
			}
		}
		return false
	}
	if !has("unmodified-clone-depth=2") || !has("unmodified-clone-in-switch") || !c.NonTrivial {
		t.Errorf("tags %v nontrivial %v", c.Tags, c.NonTrivial)
	}
	braces := "case x: {\na ()\n}"
	for _, k := range []int{1, 2} {
		bad := append([]hist.Obs{}, got...)
		bad[k].Out = braces
		if v := (c20{}).Oracle(c, bad); v == "" {
			t.Errorf("clone %d rendered alone with braces: accepted", k)
		}
		bad = append([]hist.Obs{}, got...)
		bad[3+k].Out = "switch {\ncase x:\n\t{\n\t\ta()\n\t}\n}"
		if v := (c20{}).Oracle(c, bad); v == "" {
			t.Errorf("clone %d rendered in a switch with braces: accepted", k)
		}
	}
	bad := append([]hist.Obs{}, got...)
	for k := 0; k < 3; k++ {
		bad[k].Out = braces // all three alike, but not what a case clause is
	}
	if v := (c20{}).Oracle(c, bad); v == "" {
		t.Errorf("braces everywhere: accepted")
	}
	bad = append([]hist.Obs{}, got...)
	bad[6].Out = "switch {\ncase x:\n\ta()\ncase x:\n\ta()\n}" // one clause lost
	if v := (c20{}).Oracle(c, bad); v == "" {
		t.Errorf("a clause lost in the switch of all three: accepted")
	}
	if v := (c20{}).Oracle(c, got[:6]); v == "" {
		t.Errorf("a missing observation: accepted")
	}
}

// c1 := o.Clone(); c2 := o.Clone().Op("-").Parens(c1); c2.Id("t"); c1.Id("u"); o.Id("v")
func TestC20SnapSiblingOracle(t *testing.T) {
	id := func(s string) c20sItem { return c20sId(s) }
	op := func(s string) c20sItem { return c20sPlain(c20Item{Node: term.Op(s), Text: s}) }
	all := []c20sOp{{Kind: "render", V: 0}, {Kind: "render", V: 1}, {Kind: "render", V: 2}}
	ops := []c20sOp{{Kind: "new", V: 0}, {Kind: "append", V: 0, Items: []c20sItem{id("a"), op("+"), id("b")}},
		{Kind: "clone", V: 1, From: 0}, {Kind: "clone", V: 2, From: 0},
		{Kind: "append", V: 2, Items: []c20sItem{op("-"), {Group: "Parens", Kids: []c20sKid{{Ref: 1}}}}}}
	ops = append(ops, all...)
	ops = append(ops, c20sOp{Kind: "append", V: 2, Items: []c20sItem{op("*"), id("t")}})
	ops = append(ops, all...)
	ops = append(ops, c20sOp{Kind: "append", V: 1, Items: []c20sItem{op("/"), id("u")}})
	ops = append(ops, all...)
	ops = append(ops, c20sOp{Kind: "append", V: 0, Items: []c20sItem{op("%"), id("v")}})
	ops = append(ops, all...)
	c := c20sCase(ops, "test", nil)
	got := ExecFresh(c.Hist)
	if v := (c20{}).Oracle(c, got); v != "" {
		t.Fatalf("rejected on the implementation: %s", v)
	}
	want := []string{"a + b", "a + b", "a + b - (a + b)",
		"a + b", "a + b", "a + b - (a+b)*t",
		"a + b", "a + b/u", "a + b - (a+b/u)*t",
		"a + b%v", "a + b%v/u", "a + b%v - (a+b%v/u)*t"}
	for i, w := range want {
		if got[i].Kind != "write" || got[i].Out != w {
			t.Errorf("observation %d: %s, want %q", i, got[i], w)
		}
	}
	found := false
	for _, x := range c.Tags {
		found = found || x == "clone-inside-sibling"
	}
	if !found || !c.NonTrivial {
		t.Errorf("tags %v nontrivial %v", c.Tags, c.NonTrivial)
	}
	for _, b := range []struct {
		i   int
		out string
		why string
	}{
		{8, "a + b - (a+b)*t", "the clone inside the group does not show what was appended to it"},
		{7, "a + b*t/u", "the sibling's token overwrote the clone's (shared backing array)"},
		{6, "a + b/u", "an append to a clone reached the original"},
		{5, "a + b - (a + b)", "tokens appended after the group are lost"},
		{4, "a + b*t", "an append to one sibling reached the other"},
		{11, "a + b%v - (a+b/u)*t", "the clone inside the group does not follow the original"},
	} {
		bad := append([]hist.Obs{}, got...)
		bad[b.i].Out = b.out
		if v := (c20{}).Oracle(c, bad); v == "" {
			t.Errorf("%s: accepted", b.why)
		}
	}
}

// generated snapshot histories: accepted on the implementation, re-executable, every render has one rplain
func TestC20SnapGeneratorConsistent(t *testing.T) {
	r := rand.New(rand.NewSource(11))
	for i, c := range c20sGenerate(r, "quick") {
		if i%5 != 0 {
			continue
		}
		line := c.Hist.Sexp()
		got := ExecFresh(c.Hist)
		if strings.Count(line, "(rplain ") != len(got) {
			t.Fatalf("%d observations, line has %d renders", len(got), strings.Count(line, "(rplain "))
		}
		if v := (c20{}).Oracle(c, got); v != "" {
			t.Fatalf("oracle fails on the implementation: %s\n%s", v, line)
		}
		again := ExecFresh(c.Hist)
		for j := range got {
			if !hist.SameObs(got[j], again[j]) {
				t.Fatalf("re-execution differs at %d", j)
			}
		}
	}
}

// Stream sizes: every shape at a moderate size is accepted on the implementation; the oracle
// rejects a deep level that fails to render, loses the tokens of the levels above a limit, or
// differs from its original; the stamp-based "unchanged" check sees exactly the appends to
// the rendered variable and to its originals.
func TestC20Sizes(t *testing.T) {
	for _, sh := range []string{"chain", "bare-chain", "fan", "long", "comb"} {
		for _, n := range []int{1, 2, 3, 40, 300} {
			sp := c20Size{Shape: sh, N: n, Seed: int64(n) + 5}
			c := c20SizeCase(sp, "test")
			got := hist.NewWorld().Exec(c.Hist)
			if v := (c20{}).Oracle(c, got); v != "" {
				t.Fatalf("%v: oracle fails on the implementation: %s", sp, v)
			}
			if n >= 3 && !c.NonTrivial {
				t.Errorf("%v is not counted as non-trivial", sp)
			}
			if n == 300 {
				// the deepest renders replaced by an error / by a truncated text
				ops := c.Meta["ops"].([]c20Op)
				depth := map[int]int{}
				k := 0
				for _, op := range ops {
					switch op.Kind {
					case "clone":
						depth[op.V] = depth[op.From] + 1
					case "render":
						if sh != "fan" && sh != "long" && depth[op.V] > 250 {
							bad := append([]hist.Obs(nil), got...)
							bad[k] = hist.Obs{Kind: "bad", Msg: "unexpected error: statements nested too deep"}
							if v := (c20{}).Oracle(c, bad); !strings.Contains(v, "got bad") || len(v) > 2000 {
								t.Fatalf("%v: failed render of variable %d: oracle says %.300q (%d bytes)", sp, op.V, v, len(v))
							}
							if len(got[k].Out) > 10 {
								bad[k] = hist.Obs{Kind: "write", Out: got[k].Out[len(got[k].Out)/2:]}
								if v := (c20{}).Oracle(c, bad); !strings.Contains(v, "renders") {
									t.Fatalf("%v: truncated render of variable %d: oracle says %.300q", sp, op.V, v)
								}
							}
						}
						k++
					}
				}
			}
			for _, cand := range (c20{}).Shrink(c) {
				if m := cand.Meta["size"].(c20Size); m.N >= n || m.N < 1 || m.Shape != sh {
					t.Fatalf("shrink candidate %v of %v", m, sp)
				}
			}
		}
	}
	if len(c20SizesGenerate(rand.New(rand.NewSource(1)), "quick")) < 10 {
		t.Error("too few size cases")
	}
	// unchanged-output check through a chain: v0 <- v1 <- v2; appends to v1 concern v1 and v2 only
	id := func(s string) c20Item { return c20Item{Node: term.Id(s), Text: s} }
	ops := []c20Op{{Kind: "new", V: 0}, {Kind: "append", V: 0, Chained: true, Items: []c20Item{id("a")}},
		{Kind: "clone", V: 1, From: 0}, {Kind: "clone", V: 2, From: 1},
		{Kind: "render", V: 0}, {Kind: "render", V: 2},
		{Kind: "append", V: 1, Chained: true, Items: []c20Item{id("b")}},
		{Kind: "render", V: 0}, {Kind: "render", V: 2}}
	c := c20Case(ops, "test", "")
	if v := (c20{}).Oracle(c, []hist.Obs{wr("a"), wr("a"), wr("a"), fe("a b")}); v != "" {
		t.Errorf("good outputs rejected: %s", v)
	}
	if v := (c20{}).Oracle(c, []hist.Obs{wr("a"), wr("a"), fe("a b"), fe("a b")}); !strings.Contains(v, "variable 0") {
		t.Errorf("append to a clone showing in the original: %q", v)
	}
	if v := (c20{}).Oracle(c, []hist.Obs{wr("a"), wr("a"), wr("a"), wr("a")}); !strings.Contains(v, "variable 2") {
		t.Errorf("append to the original of a clone not showing in the clone: %q", v)
	}
}
