package props

import (
	"math/rand"
	"strings"
	"testing"

	"verifharness/hist"
	"verifharness/term"
)

// the history of the documented mutant's witness: a b c | d, clone, x to the clone, y to
// the original; both rendered after every step
func c20WitnessOps() []c20Op {
	id := func(s string) c20Item { return c20Item{Node: term.Id(s), Text: s} }
	r := func(v int) c20Op { return c20Op{Kind: "render", V: v} }
	ch := func(v int, its ...c20Item) c20Op { return c20Op{Kind: "append", V: v, Items: its, Chained: true} }
	st := func(s string) c20Item { return c20Item{Node: term.S(term.Id(s)), Text: s} }
	add3 := c20Op{Kind: "append", V: 0, Items: []c20Item{st("a"), st("b"), st("c")}}                      // one Add(a, b, c): cap 3
	return []c20Op{{Kind: "new", V: 0}, add3, ch(0, id("d")), {Kind: "clone", V: 1, From: 0}, r(0), r(1), // d: cap 6, len 4
		ch(1, id("x")), r(0), r(1), ch(0, id("y")), r(0), r(1)}
}

func fe(raw string) hist.Obs { return hist.Obs{Kind: "fmterr", Out: raw} }
func wr(out string) hist.Obs { return hist.Obs{Kind: "write", Out: out} }

func TestC20OracleRejectsAndAccepts(t *testing.T) {
	c := c20Case(c20WitnessOps(), "test", "")
	good := []hist.Obs{fe("a b c d"), fe("a b c d"), fe("a b c d"), fe("a b c d x"), fe("a b c d y"), fe("a b c d y x")}
	cases := []struct {
		name string
		got  []hist.Obs
		bad  string
	}{
		{"the list model's outputs", good, ""},
		{"clone's token overwritten by the original's (header-copy mutant, spare capacity)",
			[]hist.Obs{fe("a b c d"), fe("a b c d"), fe("a b c d"), fe("a b c d x"), fe("a b c d y"), fe("a b c d y")}, "variable 1 renders"},
		{"clone does not follow its original",
			[]hist.Obs{fe("a b c d"), fe("a b c d"), fe("a b c d"), fe("a b c d x"), fe("a b c d y"), fe("a b c d x")}, "variable 1 renders"},
		{"append to the clone shows up in the original",
			[]hist.Obs{fe("a b c d"), fe("a b c d"), fe("a b c d x"), fe("a b c d x"), fe("a b c d y"), fe("a b c d y x")}, "variable 0 renders"},
		{"clone's token lost",
			[]hist.Obs{fe("a b c d"), fe("a b c d"), fe("a b c d"), fe("a b c d"), fe("a b c d y"), fe("a b c d y")}, "variable 1 renders"},
		{"tokens reordered",
			[]hist.Obs{fe("a b c d"), fe("a b c d"), fe("a b c d"), fe("a b c d x"), fe("a b c d y"), fe("a b c d x y")}, "variable 1 renders"},
		{"unmodified clone differs from its original",
			[]hist.Obs{fe("a b c d"), fe("a b c"), fe("a b c d"), fe("a b c d x"), fe("a b c d y"), fe("a b c d y x")}, "variable 1 renders"},
		{"an observation missing", good[:5], "no observation"},
		{"a panic", append(append([]hist.Obs{}, good[:5]...), hist.Obs{Kind: "panic", Msg: "boom"}), "got panic"},
	}
	for _, tc := range cases {
		got := c20{}.Oracle(c, tc.got)
		switch {
		case tc.bad == "" && got != "":
			t.Errorf("%s: oracle rejects a good output: %s", tc.name, got)
		case tc.bad != "" && got == "":
			t.Errorf("%s: oracle accepts a bad output", tc.name)
		case tc.bad != "" && !strings.Contains(got, tc.bad):
			t.Errorf("%s: oracle verdict %q does not mention %q", tc.name, got, tc.bad)
		}
	}
}

// the frame check does not depend on the text table: with a wrong text table entry the
// value check fails first, so test it through formatted output that is stable
func TestC20OracleFrameAndFormatted(t *testing.T) {
	id := func(s string) c20Item { return c20Item{Node: term.Id(s), Text: s} }
	op := func(s string) c20Item { return c20Item{Node: term.Op(s), Text: s} }
	r := func(v int) c20Op { return c20Op{Kind: "render", V: v} }
	ch := func(v int, its ...c20Item) c20Op { return c20Op{Kind: "append", V: v, Items: its, Chained: true} }
	ops := []c20Op{{Kind: "new", V: 0}, ch(0, id("a"), op("+"), id("b")), {Kind: "clone", V: 1, From: 0}, r(0), r(1),
		ch(1, op("*"), id("c")), r(0), r(1)}
	c := c20Case(ops, "test", "")
	if v := (c20{}).Oracle(c, []hist.Obs{wr("a + b"), wr("a + b"), wr("a + b"), wr("a + b*c")}); v != "" {
		t.Errorf("good formatted outputs rejected: %s", v)
	}
	if v := (c20{}).Oracle(c, []hist.Obs{wr("a + b"), wr("a + b"), wr("a + b*c"), wr("a + b*c")}); v == "" {
		t.Errorf("original changed by an append to its clone: accepted")
	}
	if v := (c20{}).Oracle(c, []hist.Obs{wr("a + b"), wr("a+b"), wr("a + b"), wr("a + b*c")}); v == "" {
		t.Errorf("unmodified clone formatted differently from its original: accepted")
	}
}

// every generated history is accepted when the implementation side is replaced by the
// list model itself, and the serialisation has one srender per expected observation
func TestC20GeneratorConsistent(t *testing.T) {
	r := rand.New(rand.NewSource(7))
	for i := 0; i < 200; i++ {
		ops := c20Random(r, 5+r.Intn(40), 1+r.Intn(6), i%2 == 0)
		c := c20Case(ops, "test", "")
		line := c.Hist.Sexp()
		if !strings.HasPrefix(line, "(heap) (snew 0)") {
			t.Fatalf("line does not start a heap case: %.60s", line)
		}
		nr := 0
		for _, op := range ops {
			if op.Kind == "render" {
				nr++
			}
		}
		if strings.Count(line, "(srender ") != nr {
			t.Fatalf("%d renders, line has %d", nr, strings.Count(line, "(srender "))
		}
		got := hist.NewWorld().Exec(c.Hist)
		if len(got) != nr {
			t.Fatalf("%d renders, %d observations", nr, len(got))
		}
		if v := (c20{}).Oracle(c, got); v != "" {
			t.Fatalf("oracle fails on the implementation: %s\n%s", v, line)
		}
		// executing the same case again gives the same observations (the executor restarts)
		again := hist.NewWorld().Exec(c.Hist)
		for j := range got {
			if !hist.SameObs(got[j], again[j]) {
				t.Fatalf("re-execution differs at %d", j)
			}
		}
	}
}

// shadow slices: the measured tags see both capacity situations
func TestC20MeasureSeesCapacity(t *testing.T) {
	tags, nt := c20Measure(c20WitnessOps())
	has := func(s string) bool {
		for _, x := range tags {
			if x == s {
				return true
			}
		}
		return false
	}
	if !nt {
		t.Errorf("witness history is not counted as non-trivial")
	}
	for _, want := range []string{"append-in-place", "append-reallocates", "in-place-after-clone", "aliasing-hazard-observed", "vars=2", "clone-depth=1"} {
		if !has(want) {
			t.Errorf("tag %s missing from %v", want, tags)
		}
	}
}
