package props

import (
	"fmt"
	"go/ast"
	"go/parser"
	"go/token"
	"math/rand"
	"regexp"
	"sort"
	"strconv"
	"strings"

	"verifharness/hist"
	"verifharness/term"
)

// RefCase is a File whose body is valid Go that references a set of paths through
// uniquely named identifiers V<i>_<j> (i = index of the path), so that every rendered
// reference can be traced back to the path it was built with.
type RefCase struct {
	Paths    []string
	Local    string
	Prefix   string
	Anon     map[string]bool
	Hints    map[string][2]string // path -> (name, "name"|"alias") final hint before the first render
	Rendered map[int]bool         // paths referenced at a rendered position
	Hidden   map[int]bool         // paths referenced only inside elements that render nothing
	Cgo      bool                 // a preamble exists
	// Preambles: the texts given to CgoPreamble, in call order.  With a preamble the output must
	// hold `import "C"` exactly once, in a declaration of its own, unnamed, directly preceded
	// by the preamble comments (that adjacency is what makes them the cgo preamble) - whether or
	// not C is referenced or given to Anon.
	Preambles []string
	// AnonThenHint: paths for which an Anon operation is FOLLOWED by a hint operation for the
	// same path (whatever the hint says, the anonymous import stays unless the path is
	// referenced at a rendered position).
	AnonThenHint map[string]bool
}

// Referenced reports whether path is referenced at a rendered position of the body.
func (rc *RefCase) Referenced(path string) bool {
	for i, p := range rc.Paths {
		if p == path && rc.Rendered[i] {
			return true
		}
	}
	return false
}

var refRe = regexp.MustCompile(`^V(\d+)_\d+$`)

// RefBody builds valid declarations referencing refs (indices into paths), at many
// nesting positions. hidden refs go to positions that render nothing.
func RefBody(r *rand.Rand, paths []string, refs []int, hidden []int) []*term.Stmt {
	ctr := 0
	q := func(i int) *term.Stmt {
		ctr++
		return term.S(term.Qual(paths[i], fmt.Sprintf("V%d_%d", i, ctr)))
	}
	var out []*term.Stmt
	k := 0
	next := func() (int, bool) {
		if k < len(refs) {
			k++
			return refs[k-1], true
		}
		return 0, false
	}
	for {
		i, ok := next()
		if !ok {
			break
		}
		switch r.Intn(7) {
		case 0: // var _ = q.V
			out = append(out, term.S(term.Named("Var"), term.Id("_"), term.Op("="), q(i)))
		case 1: // var _ = f(q.V, q.V, nil-ish)
			args := []term.Node{q(i)}
			if j, ok := next(); ok {
				args = append(args, term.S(term.Null()), q(j))
			}
			out = append(out, term.S(term.Named("Var"), term.Id("_"), term.Op("="), term.Id("f"), term.G("Call", args...)))
		case 2: // var _ = T{q.V: q.V, ...} through a Dict
			d := &term.Dict{}
			d.Pairs = append(d.Pairs, [2]term.Node{term.S(term.Lit(ctr)), q(i)})
			if j, ok := next(); ok {
				d.Pairs = append(d.Pairs, [2]term.Node{term.S(term.Lit(ctr + 1000)), q(j)})
			}
			out = append(out, term.S(term.Named("Var"), term.Id("_"), term.Op("="), term.G("Map", term.S(term.Named("Int"))), term.Named("Int"), term.G("Values", d)))
		case 3: // func _() { switch { case q.V == 1: _ = q.V } }
			body := []term.Node{term.S(term.Id("_"), term.Op("="), q(i))}
			if j, ok := next(); ok {
				body = append(body, term.S(term.Id("_"), term.Op("="), q(j)))
			}
			cs := term.S(term.G("Case", term.S(q(i), term.Op("=="), term.Lit(1))), term.G("Block", body...))
			out = append(out, term.S(term.Named("Func"), term.Id("_"), term.G("Params"), term.G("Block",
				term.S(term.G("Switch"), term.G("Block", cs)))))
		case 4: // func _() { return-less block with nested call chain }
			out = append(out, term.S(term.Named("Func"), term.Id("_"), term.G("Params"), term.G("Block",
				term.S(term.Id("_"), term.Op("="), term.Id("g"), term.G("Call", term.S(term.Id("h"), term.G("Call", q(i)))), term.G("Index", q(i))))))
		case 5: // var ( _ = q.V; _ = q.V )
			defs := []term.Node{term.S(term.Id("_"), term.Op("="), q(i))}
			if j, ok := next(); ok {
				defs = append(defs, term.Nil{}, term.S(term.Id("_"), term.Op("="), q(j)))
			}
			out = append(out, term.S(term.Named("Var"), term.G("Defs", defs...)))
		default: // type _ struct { F q.V }
			out = append(out, term.S(term.Named("Type"), term.Id("_"), term.G("Struct", term.S(term.Id("F"), q(i)))))
		}
	}
	for _, i := range hidden {
		// a Dict pair whose other side is null is omitted before its key is rendered
		d := &term.Dict{}
		if r.Intn(2) == 0 {
			d.Pairs = append(d.Pairs, [2]term.Node{q(i), term.S(term.Null())})
		} else {
			d.Pairs = append(d.Pairs, [2]term.Node{term.S(term.Null()), q(i)})
		}
		d.Pairs = append(d.Pairs, [2]term.Node{term.S(term.Lit(1)), term.S(term.Lit(2))})
		out = append(out, term.S(term.Named("Var"), term.Id("_"), term.Op("="), term.G("Map", term.S(term.Named("Int"))), term.Named("Int"), term.G("Values", d)))
	}
	return out
}

// ---- the oracle: resolve every reference of the output against its import block ----

type impSpec struct {
	path, name string // name "" = no alias written
}

func parseImports(f *ast.File) ([]impSpec, error) {
	var out []impSpec
	for _, is := range f.Imports {
		p, err := strconv.Unquote(is.Path.Value)
		if err != nil {
			return nil, fmt.Errorf("import path %s does not unquote", is.Path.Value)
		}
		n := ""
		if is.Name != nil {
			n = is.Name.Name
		}
		out = append(out, impSpec{p, n})
	}
	return out, nil
}

// DeclaredName is the name jennifer is entitled to rely on when it writes no alias.
func (rc *RefCase) DeclaredName(path string) string {
	if path == "C" {
		return "C" // the pseudo-package is C whatever hints name the path "C"
	}
	if h, ok := rc.Hints[path]; ok && h[1] == "name" {
		return h[0]
	}
	if n, ok := StdNames[path]; ok {
		return n
	}
	return "zz_unrelated_" + strconv.Itoa(len(path))
}

// renderedComment is the text jennifer's documented comment rule gives a comment string: as
// is when it starts with // or /*, a block when it holds a newline, else a line comment.
func renderedComment(c string) string {
	switch {
	case strings.HasPrefix(c, "//") || strings.HasPrefix(c, "/*"):
		return c
	case strings.HasSuffix(c, "\n"):
		return "/*\n" + c + "*/"
	case strings.Contains(c, "\n"):
		return "/*\n" + c + "\n*/"
	}
	return "// " + c
}

// cgoRule: "C" is never given a name (not even `_`); with a preamble there is exactly one
// import of "C", alone in its own import declaration, and the comments directly above that
// declaration are exactly the preambles in call order; without a preamble "C" is an ordinary
// member of the import block (whether it is wanted at all is decided by the exactness checks
// of Resolve: referenced or given to Anon).
func (rc *RefCase) cgoRule(f *ast.File) string {
	nC := 0
	var own *ast.GenDecl
	for _, d := range f.Decls {
		gd, ok := d.(*ast.GenDecl)
		if !ok || gd.Tok != token.IMPORT {
			continue
		}
		for _, sp := range gd.Specs {
			is := sp.(*ast.ImportSpec)
			if is.Path.Value != `"C"` {
				if p, err := strconv.Unquote(is.Path.Value); err != nil || p != "C" {
					continue
				}
			}
			nC++
			if is.Name != nil {
				return fmt.Sprintf("\"C\" is imported under the name %s", is.Name.Name)
			}
			if len(gd.Specs) == 1 {
				own = gd
			}
		}
	}
	if !rc.Cgo {
		return ""
	}
	if nC != 1 {
		return fmt.Sprintf("the file has a cgo preamble but %d imports of \"C\" (want exactly one)", nC)
	}
	if own == nil {
		return "the file has a cgo preamble but `import \"C\"` shares its declaration with other imports"
	}
	var doc []string
	if own.Doc != nil {
		for _, c := range own.Doc.List {
			doc = append(doc, c.Text)
		}
	}
	var want []string
	for _, c := range rc.Preambles {
		want = append(want, renderedComment(c))
	}
	if strings.Join(doc, "\x00") != strings.Join(want, "\x00") {
		return fmt.Sprintf("the comments directly above `import \"C\"` are %q, want the preambles %q", doc, want)
	}
	return ""
}

// Resolve checks C03/C04/C05/C06 on one rendered file.
func (rc *RefCase) Resolve(src string) string {
	fset := token.NewFileSet()
	f, err := parser.ParseFile(fset, "x.go", src, parser.ParseComments)
	if err != nil {
		return "output does not parse: " + err.Error()
	}
	specs, err := parseImports(f)
	if err != nil {
		return err.Error()
	}
	if m := rc.cgoRule(f); m != "" {
		return m
	}
	scope := map[string]string{} // qualifier -> path
	dots := map[string]bool{}
	anon := map[string]bool{}
	seenPath := map[string]bool{}
	for _, s := range specs {
		if seenPath[s.path] {
			return fmt.Sprintf("path %q imported twice", s.path)
		}
		seenPath[s.path] = true
		if s.path == rc.Local && rc.Local != "" {
			return fmt.Sprintf("the local package %q is imported", s.path)
		}
		switch s.name {
		case "_":
			anon[s.path] = true
			continue
		case ".":
			dots[s.path] = true
			continue
		}
		n := s.name
		if n == "" {
			n = rc.DeclaredName(s.path)
		}
		if other, ok := scope[n]; ok {
			return fmt.Sprintf("paths %q and %q are both imported under the name %s", other, s.path, n)
		}
		if s.name != "" {
			if !token.IsIdentifier(s.name) {
				return fmt.Sprintf("import name %q is not an identifier", s.name)
			}
			if Universe[s.name] {
				return fmt.Sprintf("import name %q is a predeclared identifier", s.name)
			}
			if s.path == "C" {
				return fmt.Sprintf("\"C\" imported with alias %s", s.name)
			}
		}
		scope[n] = s.path
	}
	used := map[string]bool{}
	problem := ""
	sel := map[*ast.Ident]bool{}
	ast.Inspect(f, func(n ast.Node) bool {
		if problem != "" {
			return false
		}
		if se, ok := n.(*ast.SelectorExpr); ok {
			m := refRe.FindStringSubmatch(se.Sel.Name)
			if m == nil {
				return true
			}
			sel[se.Sel] = true
			i, _ := strconv.Atoi(m[1])
			x, ok := se.X.(*ast.Ident)
			if !ok {
				problem = "reference " + se.Sel.Name + " is selected from a non-identifier"
				return false
			}
			sel[x] = true
			p, bound := scope[x.Name]
			if !bound {
				problem = fmt.Sprintf("%s.%s: no import provides the name %s", x.Name, se.Sel.Name, x.Name)
			} else if p != rc.Paths[i] {
				problem = fmt.Sprintf("%s.%s was built with path %q but %s is bound to %q", x.Name, se.Sel.Name, rc.Paths[i], x.Name, p)
			}
			used[rc.Paths[i]] = true
		}
		return true
	})
	if problem != "" {
		return problem
	}
	ast.Inspect(f, func(n ast.Node) bool {
		if id, ok := n.(*ast.Ident); ok && !sel[id] {
			if m := refRe.FindStringSubmatch(id.Name); m != nil {
				i, _ := strconv.Atoi(m[1])
				p := rc.Paths[i]
				if p != rc.Local && !dots[p] {
					problem = fmt.Sprintf("bare reference %s to path %q, which is neither local nor dot-imported", id.Name, p)
				}
				if dots[p] {
					used[p] = true
				}
			}
		}
		return true
	})
	if problem != "" {
		return problem
	}
	// exactness of the block
	for i := range rc.Paths {
		p := rc.Paths[i]
		if rc.Rendered[i] && p != rc.Local && !seenPath[p] {
			return fmt.Sprintf("path %q is referenced but not imported", p)
		}
	}
	for _, s := range specs {
		if s.name == "_" {
			if !rc.Anon[s.path] {
				return fmt.Sprintf("anonymous import of %q was never requested", s.path)
			}
			continue
		}
		if rc.Anon[s.path] && s.path != "C" && !rc.Referenced(s.path) {
			// the expected import set is: referenced paths + Anon paths; an Anon path that is
			// never referenced is imported as `_`, whatever hints name it and whenever they
			// were given ("C" is written without the underscore by design)
			return fmt.Sprintf("path %q was given to Anon and is never referenced, but it is imported as %q instead of _", s.path, s.name)
		}
		if s.path == "C" && rc.Cgo {
			continue // a preamble counts as the user adding "C"
		}
		if !used[s.path] && !(rc.Anon[s.path] && s.path == "C") {
			return fmt.Sprintf("import of %q is unused", s.path)
		}
	}
	for p := range rc.Anon {
		if !seenPath[p] && p != rc.Local {
			return fmt.Sprintf("anonymous import %q is missing", p)
		}
	}
	return ""
}

// QualifierMap extracts path -> qualifier ("" = bare) for every traced reference.
func (rc *RefCase) QualifierMap(src string) (map[string]string, error) {
	fset := token.NewFileSet()
	f, err := parser.ParseFile(fset, "x.go", src, 0)
	if err != nil {
		return nil, err
	}
	out := map[string]string{}
	sel := map[*ast.Ident]bool{}
	var perr error
	ast.Inspect(f, func(n ast.Node) bool {
		if se, ok := n.(*ast.SelectorExpr); ok {
			if m := refRe.FindStringSubmatch(se.Sel.Name); m != nil {
				i, _ := strconv.Atoi(m[1])
				sel[se.Sel] = true
				if x, ok := se.X.(*ast.Ident); ok {
					if q, seen := out[rc.Paths[i]]; seen && q != x.Name {
						perr = fmt.Errorf("path %q is written both %s and %s", rc.Paths[i], q, x.Name)
					}
					out[rc.Paths[i]] = x.Name
				}
			}
		}
		return true
	})
	ast.Inspect(f, func(n ast.Node) bool {
		if id, ok := n.(*ast.Ident); ok && !sel[id] {
			if m := refRe.FindStringSubmatch(id.Name); m != nil {
				i, _ := strconv.Atoi(m[1])
				if q, seen := out[rc.Paths[i]]; seen && q != "" {
					perr = fmt.Errorf("path %q is written both %s and bare", rc.Paths[i], q)
				}
				out[rc.Paths[i]] = ""
			}
		}
		return true
	})
	return out, perr
}

// BuildRefCase assembles setup + body + render into a history and the bookkeeping the
// oracle needs. setup must only contain file-level ops for file 0.
func BuildRefCase(r *rand.Rand, paths []string, setup hist.History, local string, refs, hidden []int) (*RefCase, hist.History) {
	rc := &RefCase{Paths: paths, Local: local, Anon: map[string]bool{}, Hints: map[string][2]string{}, Rendered: map[int]bool{}, Hidden: map[int]bool{}, AnonThenHint: map[string]bool{}}
	for _, op := range setup {
		// bookkeeping does not depend on the relative order of Anon and the hints: Anon is the
		// set of all paths ever given to Anon, Hints the LAST hint of each path
		switch op.Kind {
		case "importname", "importalias":
			if rc.Anon[op.A] {
				rc.AnonThenHint[op.A] = true
			}
		case "importnames":
			for _, p := range op.Pairs {
				if rc.Anon[p[0]] {
					rc.AnonThenHint[p[0]] = true
				}
			}
		}
		switch op.Kind {
		case "prefix":
			rc.Prefix = op.A
		case "anon":
			for _, p := range op.Strs {
				rc.Anon[p] = true
			}
		case "importname":
			rc.Hints[op.A] = [2]string{op.B, "name"}
		case "importalias":
			rc.Hints[op.A] = [2]string{op.B, "alias"}
		case "importnames":
			for _, p := range op.Pairs {
				rc.Hints[p[0]] = [2]string{p[1], "name"}
			}
		case "cgo":
			rc.Cgo = true
			rc.Preambles = append(rc.Preambles, op.A)
		}
	}
	for _, i := range refs {
		rc.Rendered[i] = true
	}
	for _, i := range hidden {
		rc.Hidden[i] = true
	}
	h := append(hist.History{}, setup...)
	for _, st := range RefBody(r, paths, refs, hidden) {
		h = append(h, hist.Op{Kind: "fadd", F: 0, Code: st})
	}
	return rc, h
}

func sortedKeys(m map[string]bool) []string {
	var out []string
	for k := range m {
		out = append(out, k)
	}
	sort.Strings(out)
	return out
}

func lastWrite(got []hist.Obs) (hist.Obs, bool) {
	for i := len(got) - 1; i >= 0; i-- {
		if got[i].Kind == "write" || got[i].Kind == "fmterr" || got[i].Kind == "panic" {
			return got[i], true
		}
	}
	return hist.Obs{}, false
}

func isIdent(s string) bool { return token.IsIdentifier(s) && !strings.Contains(s, " ") }
