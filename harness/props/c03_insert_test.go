package props

import (
	"math/rand"
	"strings"
	"testing"

	"verifharness/hist"
)

// Stream insert-between-renders: the oracle accepts every render of the implementation the test
// is built against, reaches the shape it is about (a new colliding path referenced above a known
// one in a later render), and rejects a hand-made output in which two paths share a qualifier.
func TestC03InsertBetweenRenders(t *testing.T) {
	r := rand.New(rand.NewSource(5))
	above, rejected := 0, 0
	for i := 0; i < 300; i++ {
		c := c03InsertCase(r, i)
		got := hist.NewWorld().Exec(c.Hist)
		m := c.Meta["c03i"].(*c03iMeta)
		if msg := c03InsertOracle(m, got); msg != "" {
			t.Fatalf("oracle rejects case %d: %s\n%s", i, msg, c.Hist.Sexp())
		}
		if c.NonTrivial {
			above++
		}
		// damage: in the last File render give one imported path the name of another one
		last := -1
		for k, v := range m.F.Views {
			if v.Kind == "render" {
				last = k
			}
		}
		out := got[last].Out
		var names []string
		for _, ln := range strings.Split(out, "\n") {
			f := strings.Fields(ln)
			if len(f) == 2 && strings.HasPrefix(f[1], `"`) && f[0] != "import" && f[0] != "_" {
				names = append(names, f[0])
			}
		}
		if len(names) < 2 || names[0] == names[1] {
			continue
		}
		bad := append([]hist.Obs{}, got...)
		bad[last].Out = strings.ReplaceAll(out, names[1]+" \"", names[0]+" \"")
		if bad[last].Out == out {
			continue
		}
		if msg := c03InsertOracle(m, bad); msg == "" {
			t.Errorf("two imports named %s are accepted:\n%s", names[0], bad[last].Out)
		} else {
			rejected++
		}
	}
	if above < 60 || rejected < 50 {
		t.Errorf("only %d cases with a new colliding path above a known one, %d damaged outputs rejected", above, rejected)
	}
}
