package props

import (
	"math/rand"
	"strings"
	"testing"

	"verifharness/hist"
)

// Round 7 of C06: path shapes.

func TestC06OracleMajorVersionOwnPath(t *testing.T) {
	// own path a.b/c/v2 (bare), its prefix a.b/c (imported), a vendored dot-import (bare, `. "path"`)
	l := &c06Layout{Ctor: hist.Op{Kind: "newfilepath", F: 0, A: "a.b/c/v2"}, Local: "a.b/c/v2",
		Imps: []c06Imp{{Kind: "dot", Path: "a.b/c/vendor/d.e/f"}}, Extra: []string{"a.b/c", "d.e/f"}}
	c, out := c06TestCase(t, l)
	if !strings.HasPrefix(out, "package v2\n") || strings.Contains(out, "\"a.b/c/v2\"") || !strings.Contains(out, ". \"a.b/c/vendor/d.e/f\"") ||
		!strings.Contains(out, "c \"a.b/c\"") || !strings.Contains(out, "f \"d.e/f\"") {
		t.Fatalf("unexpected output:\n%s", out)
	}
	oracle := func(src string) string {
		return (c06{}).Oracle(c, []hist.Obs{{Kind: "write", Out: src}, {Kind: "imports"}})
	}
	for name, src := range map[string]string{
		// what a constructor that stores the path without /v2 produces: the prefix is bare and not imported
		"prefix of the own path taken for local": strings.Replace(strings.Replace(out, "\tc \"a.b/c\"\n", "", 1), "c.V", "V", -1),
		// what a register that looks hints up by the unvendored path produces
		"vendored dot-import qualified": strings.Replace(out, ". \"a.b/c/vendor/d.e/f\"", "f1 \"a.b/c/vendor/d.e/f\"", 1),
		"own path imported":             strings.Replace(out, "\tc \"a.b/c\"\n", "\tc \"a.b/c\"\n\tv2 \"a.b/c/v2\"\n", 1),
	} {
		if src == out {
			t.Fatalf("%s: replacement did not apply\n%s", name, out)
		}
		if v := oracle(src); v == "" {
			t.Errorf("%s: accepted\n%s", name, src)
		}
	}
}

func TestC06PathShapeStream(t *testing.T) {
	tags := map[string]int{}
	ctorShape := map[string]bool{}
	for _, c := range c06PathShapeCases(rand.New(rand.NewSource(3)), "quick") {
		if v := (c06{}).Oracle(c, hist.NewWorld().Exec(c.Hist)); v != "" {
			t.Fatalf("unchanged tree: %s\n%s", v, c.Hist.Sexp())
		}
		var ctor string
		for _, tg := range c.Tags {
			tags[tg]++
			if strings.HasPrefix(tg, "ctor=") {
				ctor = tg
			}
		}
		for _, tg := range c.Tags {
			if strings.HasPrefix(tg, "own-path-shape=") {
				ctorShape[ctor+" "+tg] = true
			}
		}
	}
	for _, cl := range []string{"major-version", "near-major-version", "vendor-inside", "vendor-leading", "vendor-twice", "internal", "dot-git", "uppercase", "gopkg.in"} {
		for _, ctor := range []string{"newfile", "newfilepath", "newfilepathname"} {
			if !ctorShape["ctor="+ctor+" own-path-shape="+cl] {
				t.Errorf("no case for %s x %s", ctor, cl)
			}
		}
		if tags["dot-shape="+cl] < 5 {
			t.Errorf("dot-shape=%s: %d cases", cl, tags["dot-shape="+cl])
		}
	}
	for _, want := range []string{"ref=prefix-of-the-own-path", "ref=extension-of-the-own-path", "dot=prefix-of-the-own-path", "dot=extension-of-the-own-path", "ref=other-version-the-own-path", "ref=unvendored-the-own-path", "ref=other-case-the-own-path", "dot=extension-of-a-dot-import"} {
		if tags[want] < 2 {
			t.Errorf("tag %s: %d cases", want, tags[want])
		}
	}
}
