package props

import (
	"bytes"
	"fmt"
	"io"
	"math/rand"
	"reflect"
	"sort"
	"strings"

	"github.com/dave/jennifer/jen"

	"verifharness/hist"
	"verifharness/term"
)

// C13, stream group-null: the GROUP form of Null.
//
// Every list of a case is built inside a ...Func callback through the methods of the
// *jen.Group the callback receives (term.Builder never does that): real items with g.Id(..)
// (chained further), null items with g.Null(), g.Null().Null(), g.Add(jen.Null()),
// g.Add(nil), g.Add((*Statement)(nil)), g.Add(), and g.Empty() as an item that keeps its
// separator.  Some of the statements returned by g.Null() are kept ("slots") and extended
// LATER by chaining (slot.Id("ctx").Qual("context", "Context")): a filled slot is a real
// item from then on, every other g.Null() item - in the same group, in groups built earlier
// and later (also AFTER the chaining happened), in nested groups, in other statements of the
// same File - must still vanish.
//
// A case runs in stages.  Stage 0 builds the statements; every later stage first chains onto
// some slots, then (sometimes) builds one more statement.  After every stage the SAME jen
// values are rendered again (way file: File.Render of a NoFormat File, raw bytes; filefmt:
// File.Render formatted, so the import block shows the Qual of a filled slot only from its
// stage on; plain: Statement.Render of the only statement), and a twin without any null item,
// built afresh through the plain variadic forms, is rendered the same way.  The last pair of
// observations renders a list holding every untouched statement that a g.Null() returned.
//
// The history is a line of "ext" ops: what the model reads is, per render, a FRESH term of
// the state at that stage (the model has no mutation between renders; the implementation
// side executes the real mutation on the same values).

type c13gItem struct {
	Kind string      // real | null | nullnull | slot | addnull | addnil | addnilstmt | addempty | empty
	Name string      // real: the identifier
	Rest []term.Node // real: tokens chained after the identifier
	Sub  *c13gGroup  // real: a nested ...Func group chained after Rest
	Slot int         // slot: its number
}

type c13gGroup struct {
	Method string // a variadic list method that has a ...Func variant, or "Custom"
	Opts   jen.Options
	Ctx    string // what the items look like: params | block | args | values | fields | raw
	Items  []c13gItem
}

type c13gStmt struct {
	Head   []term.Node // tokens before the groups
	Groups []*c13gGroup
	Tail   []term.Node // tokens between/after: Tail[i] follows group i (may be shorter)
	Stage  int         // built at this stage
}

type c13gFill struct {
	Slot  int
	Stage int // >= 1
	Toks  []term.Node
	Name  string // the identifier the fill starts with (raw single lists: the item name)
}

type c13gSpec struct {
	Way    string // file | filefmt | plain
	Stages int
	Stmts  []*c13gStmt
	Fills  []c13gFill
	NSlots int
}

func (sp *c13gSpec) fillOf(slot, stage int) *c13gFill {
	for i := range sp.Fills {
		if sp.Fills[i].Slot == slot && sp.Fills[i].Stage <= stage {
			return &sp.Fills[i]
		}
	}
	return nil
}

// ---- terms (fresh nodes on every call) ----

// c13gFresh copies the token lists of a spec so that every term handed to the model has its
// own group nodes (group ids stand for the identity of a *jen.Group).
func c13gFresh(ns []term.Node) []term.Node {
	out := make([]term.Node, len(ns))
	for i, n := range ns {
		switch x := n.(type) {
		case *term.Group:
			g := *x
			g.Items = c13gFresh(x.Items)
			out[i] = &g
		case *term.Stmt:
			out[i] = term.S(c13gFresh(x.Items)...)
		default:
			out[i] = n
		}
	}
	return out
}

func (sp *c13gSpec) groupTerm(g *c13gGroup, stage int, clean bool) *term.Group {
	var items []term.Node
	for _, it := range g.Items {
		switch it.Kind {
		case "real":
			st := term.S(term.Id(it.Name))
			st.Items = append(st.Items, c13gFresh(it.Rest)...)
			if it.Sub != nil {
				st.Items = append(st.Items, sp.groupTerm(it.Sub, stage, clean))
			}
			items = append(items, st)
		case "empty":
			items = append(items, term.S(term.Named("Empty")))
		case "slot":
			f := sp.fillOf(it.Slot, stage)
			switch {
			case f != nil && clean:
				items = append(items, term.S(c13gFresh(f.Toks)...))
			case f != nil:
				items = append(items, term.S(append([]term.Node{term.Null()}, c13gFresh(f.Toks)...)...))
			case !clean:
				items = append(items, term.S(term.Null()))
			}
		default:
			if clean {
				continue
			}
			switch it.Kind {
			case "null":
				items = append(items, term.S(term.Null()))
			case "nullnull":
				items = append(items, term.S(term.Null(), term.Null()))
			case "addnull":
				items = append(items, term.S(term.S(term.Null()))) // Group.Add(codes...) stores ONE statement holding the codes
			case "addnil":
				items = append(items, term.S(term.Nil{}))
			case "addnilstmt":
				items = append(items, term.S(term.NilStmt{}))
			case "addempty":
				items = append(items, term.S())
			default:
				panic("c13g: bad item kind " + it.Kind)
			}
		}
	}
	if g.Method == "Custom" {
		return term.Custom(g.Opts, items...)
	}
	return term.G(g.Method, items...)
}

func (sp *c13gSpec) stmtTerm(st *c13gStmt, stage int, clean bool) *term.Stmt {
	out := term.S(c13gFresh(st.Head)...)
	for i, g := range st.Groups {
		out.Items = append(out.Items, sp.groupTerm(g, stage, clean))
		if i < len(st.Tail) && st.Tail[i] != nil {
			out.Items = append(out.Items, c13gFresh(st.Tail[i:i+1])...)
		}
	}
	return out
}

func (sp *c13gSpec) terms(stage int, clean bool) []*term.Stmt {
	var out []*term.Stmt
	for _, st := range sp.Stmts {
		if st.Stage <= stage {
			out = append(out, sp.stmtTerm(st, stage, clean))
		}
	}
	return out
}

// number of items built by g.Null() that are never chained onto
func (sp *c13gSpec) untouched() int {
	n := 0
	var walk func(g *c13gGroup)
	walk = func(g *c13gGroup) {
		for _, it := range g.Items {
			switch {
			case it.Kind == "null", it.Kind == "slot" && sp.fillOf(it.Slot, sp.Stages) == nil:
				n++
			case it.Sub != nil:
				walk(it.Sub)
			}
		}
	}
	for _, st := range sp.Stmts {
		for _, g := range st.Groups {
			walk(g)
		}
	}
	return n
}

var c13gBrackets = jen.Options{Open: "<", Close: ">", Separator: ","}

// the text the model reads for one render
func c13gLine(z *term.Ser, way string, fid int, stmts []*term.Stmt) string {
	if way == "plain" {
		return "(rplain " + z.Sexp(stmts[0]) + " 0)"
	}
	parts := []string{fmt.Sprintf("(newfile %d %s)", fid, term.X("p"))}
	if way == "file" {
		parts = append(parts, fmt.Sprintf("(noformat %d 1)", fid))
	}
	for _, st := range stmts {
		parts = append(parts, fmt.Sprintf("(fadd %d %s)", fid, z.Sexp(st)))
	}
	parts = append(parts, fmt.Sprintf("(render %d 0)", fid))
	return strings.Join(parts, " ")
}

// ---- execution on the implementation ----

// c13RenderObs classifies a render like hist.World does.
func c13RenderObs(run func(w io.Writer) error) (o hist.Obs) {
	var buf bytes.Buffer
	defer func() {
		if r := recover(); r != nil {
			o = hist.Obs{Kind: "panic", Msg: fmt.Sprint(r), Out: buf.String()}
		}
	}()
	err := run(&buf)
	if err == nil {
		return hist.Obs{Kind: "write", Out: buf.String(), Writes: 1}
	}
	const marker = " while formatting source:\n"
	msg := err.Error()
	if k := strings.Index(msg, marker); k >= 0 && strings.HasPrefix(msg, "Error ") {
		return hist.Obs{Kind: "fmterr", Out: msg[k+len(marker):], Msg: msg[:k]}
	}
	return hist.Obs{Kind: "bad", Msg: "unexpected error: " + msg}
}

type c13gExec struct {
	sp    *c13gSpec
	next  int // index of the next observation
	stage int // last stage executed (-1: nothing built)
	bd    *term.Builder
	file  *jen.File
	stmts []*jen.Statement
	slots []*jen.Statement
	nulls []*jen.Statement // returned by g.Null() and never chained onto
}

func (ex *c13gExec) reset() {
	ex.next, ex.stage, ex.bd, ex.stmts, ex.nulls = 0, -1, term.NewBuilder(), nil, nil
	ex.slots = make([]*jen.Statement, ex.sp.NSlots)
	ex.file = jen.NewFile("p")
	ex.file.NoFormat = ex.sp.Way == "file"
}

func c13gFuncForm(s *jen.Statement, method string, opts jen.Options, fill func(g *jen.Group)) {
	if method == "Custom" {
		s.CustomFunc(opts, fill)
		return
	}
	m := reflect.ValueOf(s).MethodByName(method + "Func")
	f, ok := m.Interface().(func(func(*jen.Group)) *jen.Statement)
	if !ok {
		panic("c13g: " + method + "Func is not a func(func(*Group)) *Statement")
	}
	f(fill)
}

// c13gHasFunc: the variadic list methods that also come as ...Func.
func c13gHasFunc() []string {
	var out []string
	for _, m := range VariadicGroups {
		v := reflect.ValueOf(&jen.Statement{}).MethodByName(m + "Func")
		if !v.IsValid() {
			continue
		}
		if _, ok := v.Interface().(func(func(*jen.Group)) *jen.Statement); ok {
			out = append(out, m)
		}
	}
	return out
}

func (ex *c13gExec) appendGroup(s *jen.Statement, g *c13gGroup) {
	c13gFuncForm(s, g.Method, g.Opts, func(grp *jen.Group) {
		for _, it := range g.Items {
			switch it.Kind {
			case "real":
				st := grp.Id(it.Name)
				for _, t := range it.Rest {
					ex.bd.Append(st, t)
				}
				if it.Sub != nil {
					ex.appendGroup(st, it.Sub)
				}
			case "empty":
				grp.Empty()
			case "null":
				ex.nulls = append(ex.nulls, grp.Null())
			case "nullnull":
				grp.Null().Null()
			case "slot":
				st := grp.Null()
				ex.slots[it.Slot] = st
				if ex.sp.fillOf(it.Slot, ex.sp.Stages) == nil {
					ex.nulls = append(ex.nulls, st)
				}
			case "addnull":
				grp.Add(jen.Null())
			case "addnil":
				grp.Add(nil)
			case "addnilstmt":
				grp.Add((*jen.Statement)(nil))
			case "addempty":
				grp.Add()
			default:
				panic("c13g: bad item kind " + it.Kind)
			}
		}
	})
}

func (ex *c13gExec) advance(stage int) {
	for ex.stage < stage {
		ex.stage++
		// first the chaining onto the slots of this stage ...
		for _, f := range ex.sp.Fills {
			if f.Stage == ex.stage {
				for _, t := range f.Toks {
					ex.bd.Append(ex.slots[f.Slot], t) // slot.Id(..).Qual(..) ...
				}
			}
		}
		// ... then the statements built at this stage (their g.Null() calls come after the chaining)
		for _, st := range ex.sp.Stmts {
			if st.Stage != ex.stage {
				continue
			}
			s := &jen.Statement{}
			for _, t := range st.Head {
				ex.bd.Append(s, t)
			}
			for i, g := range st.Groups {
				ex.appendGroup(s, g)
				if i < len(st.Tail) && st.Tail[i] != nil {
					ex.bd.Append(s, st.Tail[i])
				}
			}
			ex.stmts = append(ex.stmts, s)
			ex.file.Add([]jen.Code(*s)...) // as hist.World does for fadd: one new statement holding the items
		}
	}
}

func c13gRenderClean(way string, stmts []*term.Stmt) hist.Obs {
	bd := term.NewBuilder()
	if way == "plain" {
		s := bd.Stmt(stmts[0])
		return c13RenderObs(func(w io.Writer) error { return s.Render(w) })
	}
	f := jen.NewFile("p")
	f.NoFormat = way == "file"
	for _, st := range stmts {
		f.Add([]jen.Code(*bd.Stmt(st))...)
	}
	return c13RenderObs(func(w io.Writer) error { return f.Render(w) })
}

// obs produces observation k: 2s = the mutated values after stage s, 2s+1 = the clean twin of
// stage s, 2*Stages = the untouched g.Null() statements as the items of one list, 2*Stages+1 =
// the same list without items.
func (ex *c13gExec) obs(k int) (o hist.Obs) {
	defer func() {
		if r := recover(); r != nil {
			o = hist.Obs{Kind: "panic", Msg: "while building: " + fmt.Sprint(r)}
		}
		if k == 2*ex.sp.Stages+1 {
			ex.bd, ex.file, ex.stmts, ex.slots, ex.nulls = nil, nil, nil, nil, nil // release the jen values
		}
	}()
	if k == 0 || ex.bd == nil || k != ex.next {
		ex.reset()
		for j := 0; j < k; j += 2 {
			if j/2 < ex.sp.Stages {
				ex.advance(j / 2)
			}
		}
	}
	ex.next = k + 1
	stage := k / 2
	switch {
	case stage >= ex.sp.Stages && k%2 == 0:
		ex.advance(ex.sp.Stages - 1)
		codes := make([]jen.Code, len(ex.nulls))
		for i, s := range ex.nulls {
			codes[i] = s
		}
		f := jen.NewFile("p")
		f.NoFormat = true
		f.Add(jen.Custom(c13gBrackets, codes...))
		return c13RenderObs(func(w io.Writer) error { return f.Render(w) })
	case stage >= ex.sp.Stages:
		f := jen.NewFile("p")
		f.NoFormat = true
		f.Add(jen.Custom(c13gBrackets))
		return c13RenderObs(func(w io.Writer) error { return f.Render(w) })
	case k%2 == 1:
		return c13gRenderClean(ex.sp.Way, ex.sp.terms(stage, true))
	}
	ex.advance(stage)
	if ex.sp.Way == "plain" {
		return c13RenderObs(func(w io.Writer) error { return ex.stmts[0].Render(w) })
	}
	return c13RenderObs(func(w io.Writer) error { return ex.file.Render(w) })
}

// c13gCase wraps a spec into a Case.  wantraw (optional): the raw bytes of the only statement
// after each stage (way file).
func c13gCase(sp *c13gSpec, stream string, tags []string, wantraw []string) *Case {
	ex := &c13gExec{sp: sp}
	z := term.NewSer()
	var h hist.History
	k := 0
	add := func(line string) {
		idx := k
		h = append(h, hist.Op{Kind: "ext", A: line, Run: func() hist.Obs { return ex.obs(idx) }})
		k++
	}
	for s := 0; s < sp.Stages; s++ {
		add(c13gLine(z, sp.Way, 2*s, sp.terms(s, false)))
		add(c13gLine(z, sp.Way, 2*s+1, sp.terms(s, true)))
	}
	var nulls []term.Node
	for i := sp.untouched(); i > 0; i-- {
		nulls = append(nulls, term.S(term.Null()))
	}
	add(c13gLine(z, "file", 2*sp.Stages, []*term.Stmt{term.S(term.Custom(c13gBrackets, nulls...))}))
	add(c13gLine(z, "file", 2*sp.Stages+1, []*term.Stmt{term.S(term.Custom(c13gBrackets))}))
	meta := map[string]interface{}{"kind": "gnull", "spec": sp}
	if wantraw != nil {
		meta["wantraws"] = wantraw
	}
	sort.Strings(tags)
	return &Case{Hist: h, Stream: stream, Tags: uniqStrings(tags), Meta: meta,
		// non-trivial: at least one item was built by the Group form g.Null() (always the case)
		NonTrivial: true}
}

// ---- generation ----

var c13gNullKinds = []string{"null", "null", "null", "slot", "slot", "nullnull", "addnull", "addnil", "addnilstmt", "addempty"}

type c13gGen struct {
	r      *rand.Rand
	sp     *c13gSpec
	names  int
	prefix string
	tags   map[string]bool
	funcs  []string
}

func (g *c13gGen) name() string {
	g.names++
	return fmt.Sprintf("%s%d", g.prefix, g.names-1)
}

func (g *c13gGen) group(method string, opts jen.Options, ctx string, depth, maxReal int) *c13gGroup {
	r := g.r
	out := &c13gGroup{Method: method, Opts: opts, Ctx: ctx}
	n := r.Intn(maxReal + 1)
	null := func() {
		k := c13gNullKinds[r.Intn(len(c13gNullKinds))]
		it := c13gItem{Kind: k}
		if k == "slot" {
			it.Slot = g.sp.NSlots
			g.sp.NSlots++
		}
		g.tags["gkind="+k] = true
		out.Items = append(out.Items, it)
	}
	for s := 0; s <= n; s++ {
		for r.Intn(5) < 2 {
			null()
		}
		if s == n {
			break
		}
		if ctx != "params" && ctx != "fields" && ctx != "block" && r.Intn(8) == 0 {
			out.Items = append(out.Items, c13gItem{Kind: "empty"})
			g.tags["group-form-Empty"] = true
			continue
		}
		it := c13gItem{Kind: "real", Name: g.name()}
		switch ctx {
		case "params":
			it.Rest = []term.Node{term.Named("Int")}
		case "fields":
			it.Rest = []term.Node{term.Named("String")}
		case "block":
			if depth < 2 && r.Intn(2) == 0 {
				it.Sub = g.group("Call", jen.Options{}, "args", depth+1, 3)
				g.tags["nested-func-group"] = true
			} else {
				it.Rest = []term.Node{term.G("Call")}
			}
		case "raw":
			if depth < 2 && r.Intn(5) == 0 {
				m, o := g.rawConstruct()
				it.Sub = g.group(m, o, "raw", depth+1, 2)
				g.tags["nested-func-group"] = true
			}
		}
		out.Items = append(out.Items, it)
	}
	return out
}

func (g *c13gGen) rawConstruct() (string, jen.Options) {
	k := g.r.Intn(len(g.funcs) + 4)
	if k < len(g.funcs) {
		return g.funcs[k], jen.Options{}
	}
	all := append(append([]jen.Options{}, c13Custom...), c13CloseOnly...)
	return "Custom", all[g.r.Intn(len(all))]
}

func (g *c13gGen) stmt(raw bool, stage, idx int) *c13gStmt {
	r := g.r
	st := &c13gStmt{Stage: stage}
	if raw {
		st.Head = []term.Node{term.Id(fmt.Sprintf("s%d", idx))}
		for j := 1 + r.Intn(2); j > 0; j-- {
			m, o := g.rawConstruct()
			st.Groups = append(st.Groups, g.group(m, o, "raw", 0, 4))
		}
		return st
	}
	switch r.Intn(4) {
	case 0, 1:
		st.Head = []term.Node{term.Named("Func"), term.Id(fmt.Sprintf("f%d", idx))}
		st.Groups = []*c13gGroup{g.group("Params", jen.Options{}, "params", 0, 3), g.group("Block", jen.Options{}, "block", 0, 3)}
	case 2:
		st.Head = []term.Node{term.Named("Var"), term.Id(fmt.Sprintf("v%d", idx)), term.Op("="), term.G("Index"), term.Named("Int")}
		st.Groups = []*c13gGroup{g.group("Values", jen.Options{}, "values", 0, 4)}
	default:
		st.Head = []term.Node{term.Named("Type"), term.Id(fmt.Sprintf("T%d", idx))}
		st.Groups = []*c13gGroup{g.group("Struct", jen.Options{}, "fields", 0, 3)}
	}
	return st
}

func (g *c13gGen) fillToks(ctx string, k int) ([]term.Node, string) {
	switch ctx {
	case "params":
		n := fmt.Sprintf("ctx%d", k)
		return []term.Node{term.Id(n), term.Qual("context", "Context")}, n
	case "fields":
		n := fmt.Sprintf("Late%d", k)
		return []term.Node{term.Id(n), term.Named("Bool")}, n
	case "block":
		if g.r.Intn(2) == 0 {
			return []term.Node{term.Qual("fmt", "Println"), term.G("Call", term.S(term.Lit(k)))}, "Println"
		}
		n := fmt.Sprintf("late%d", k)
		return []term.Node{term.Id(n), term.G("Call")}, n
	case "args":
		if g.r.Intn(2) == 0 {
			return []term.Node{term.Qual("io", "EOF")}, "EOF"
		}
	case "values":
		n := fmt.Sprintf("late%d", k)
		return []term.Node{term.Id(n)}, n
	}
	n := g.name()
	return []term.Node{term.Id(n)}, n
}

// where a slot lives
type c13gPlace struct {
	stmt  int
	group *c13gGroup
	ctx   string
}

func (sp *c13gSpec) places() (slots map[int]c13gPlace, nullForms map[*c13gGroup]int, stmtOf map[*c13gGroup]int) {
	slots, nullForms, stmtOf = map[int]c13gPlace{}, map[*c13gGroup]int{}, map[*c13gGroup]int{}
	var walk func(si int, g *c13gGroup)
	walk = func(si int, g *c13gGroup) {
		stmtOf[g] = si
		for _, it := range g.Items {
			switch it.Kind {
			case "slot":
				slots[it.Slot] = c13gPlace{si, g, g.Ctx}
				nullForms[g]++
			case "null":
				nullForms[g]++
			}
			if it.Sub != nil {
				walk(si, it.Sub)
			}
		}
	}
	for si, st := range sp.Stmts {
		for _, g := range st.Groups {
			walk(si, g)
		}
	}
	return
}

// c13gRandom draws one case.  single: one statement that is one raw list with items i0.. (the
// separator-counting oracle applies after every stage).
func c13gRandom(r *rand.Rand, single bool) *Case {
	for {
		sp := &c13gSpec{Stages: 2 + r.Intn(2)}
		g := &c13gGen{r: r, sp: sp, prefix: "n", tags: map[string]bool{}, funcs: c13gHasFunc()}
		switch k := r.Intn(10); {
		case single || k < 5:
			sp.Way = "file"
		case k < 8:
			sp.Way = "filefmt"
		default:
			sp.Way = "plain"
		}
		raw := sp.Way == "file"
		if single {
			g.prefix = "i"
			m, o := g.rawConstruct()
			sp.Stmts = []*c13gStmt{{Groups: []*c13gGroup{g.group(m, o, "flat", 0, 5)}}}
		} else {
			n := 1 + r.Intn(3)
			if sp.Way == "plain" {
				n = 1
			}
			for i := 0; i < n; i++ {
				sp.Stmts = append(sp.Stmts, g.stmt(raw, 0, i))
			}
			if sp.Way != "plain" {
				for s := 1; s < sp.Stages; s++ {
					if r.Intn(2) == 0 {
						sp.Stmts = append(sp.Stmts, g.stmt(raw, s, len(sp.Stmts)))
					}
				}
			}
		}
		slots, nullForms, _ := sp.places()
		// slots of statements built at stage 0 can be filled at any later stage; others after their own stage
		var ids []int
		for id := range slots {
			ids = append(ids, id)
		}
		sort.Ints(ids)
		r.Shuffle(len(ids), func(i, j int) { ids[i], ids[j] = ids[j], ids[i] })
		want := 1 + r.Intn(2)
		filledIn := map[*c13gGroup]bool{}
		filledStmt := map[int]bool{}
		for _, id := range ids {
			if len(sp.Fills) >= want {
				break
			}
			pl := slots[id]
			lo := sp.Stmts[pl.stmt].Stage + 1
			if lo >= sp.Stages {
				continue
			}
			toks, name := g.fillToks(pl.ctx, id)
			sp.Fills = append(sp.Fills, c13gFill{Slot: id, Stage: lo + r.Intn(sp.Stages-lo), Toks: toks, Name: name})
			filledIn[pl.group] = true
			filledStmt[pl.stmt] = true
		}
		if len(sp.Fills) == 0 || sp.untouched() == 0 || g.names > 10 && single {
			continue // every case has a slot that is filled later and a g.Null() item that stays untouched
		}
		tags := []string{"group-form-null", "null-slot-filled-later", "way=" + sp.Way, fmt.Sprintf("stages=%d", sp.Stages),
			fmt.Sprintf("fills=%d", len(sp.Fills)), fmt.Sprintf("untouched-g.Null=%d", min3(sp.untouched(), 8))}
		for t := range g.tags {
			tags = append(tags, t)
		}
		_, _, stmtOf := sp.places()
		firstFill := sp.Stages
		for _, f := range sp.Fills {
			if f.Stage < firstFill {
				firstFill = f.Stage
			}
		}
		for grp, n := range nullForms {
			if n > 0 && sp.Stmts[stmtOf[grp]].Stage >= firstFill && !filledIn[grp] {
				// this group's g.Null() calls are made after a chaining onto another g.Null() result
				tags = append(tags, "untouched-built-after-chaining")
			}
			inFilled := 0
			if filledIn[grp] {
				for _, it := range grp.Items {
					if it.Kind == "slot" && sp.fillOf(it.Slot, sp.Stages) != nil {
						inFilled++
					}
				}
			}
			switch {
			case filledIn[grp] && n > inFilled:
				tags = append(tags, "untouched-in-same-group")
			case !filledIn[grp] && filledStmt[stmtOf[grp]]:
				tags = append(tags, "untouched-in-other-group-of-statement")
			case !filledIn[grp]:
				tags = append(tags, "untouched-in-other-statement")
			}
		}
		for _, f := range sp.Fills {
			for _, t := range f.Toks {
				if q, ok := t.(*term.Group); ok && q.Method == "Qual" {
					tags = append(tags, "fill-with-Qual")
				}
			}
		}
		if single {
			tags = append(tags, "single-raw-list", "construct="+c13gConsName(sp.Stmts[0].Groups[0]))
		}
		return c13gCase(sp, "group-null", tags, nil)
	}
}

func c13gConsName(g *c13gGroup) string {
	if g.Method != "Custom" {
		return g.Method
	}
	return fmt.Sprintf("Custom{%q,%q,%q,%v}", g.Opts.Open, g.Opts.Close, g.Opts.Separator, g.Opts.Multi)
}

// c13gFixed: hand-written shapes with their raw bytes after every stage.
func c13gFixed() []*Case {
	id := func(n string, rest ...term.Node) c13gItem { return c13gItem{Kind: "real", Name: n, Rest: rest} }
	k := func(kind string) c13gItem { return c13gItem{Kind: kind} }
	slot := func(i int) c13gItem { return c13gItem{Kind: "slot", Slot: i} }
	grp := func(m string, items ...c13gItem) *c13gGroup { return &c13gGroup{Method: m, Ctx: "raw", Items: items} }
	ctx := []term.Node{term.Id("ctx"), term.Qual("context", "Context")}
	const imp = "import \"context\"\n\n\n" // a NoFormat File writes its import block before the statements
	type fx struct {
		name string
		sp   *c13gSpec
		want []string
	}
	fn := func(g ...*c13gGroup) *c13gStmt {
		return &c13gStmt{Head: []term.Node{term.Named("Func"), term.Id("f")}, Groups: g}
	}
	list := []fx{
		// the idiom of the task: reserve a slot, fill it later; the other g.Null() stays untouched
		{"params-slot", &c13gSpec{Way: "file", Stages: 3, NSlots: 2,
			Stmts: []*c13gStmt{fn(grp("Params", id("a"), slot(0), id("b"), slot(1)))},
			Fills: []c13gFill{{Slot: 0, Stage: 1, Toks: ctx}}},
			[]string{"func f (a,b)", imp + "func f (a,ctx context.Context,b)", imp + "func f (a,ctx context.Context,b)"}},
		{"params-slot-first", &c13gSpec{Way: "file", Stages: 2, NSlots: 2,
			Stmts: []*c13gStmt{fn(grp("Params", slot(0), slot(1), id("a")))},
			Fills: []c13gFill{{Slot: 1, Stage: 1, Toks: ctx}}},
			[]string{"func f (a)", imp + "func f (ctx context.Context,a)"}},
		{"all-null-params", &c13gSpec{Way: "file", Stages: 2, NSlots: 1,
			Stmts: []*c13gStmt{fn(grp("Params", k("null"), slot(0), k("addnull"), k("addnil"), k("null")))},
			Fills: []c13gFill{{Slot: 0, Stage: 1, Toks: []term.Node{term.Id("x")}}}},
			[]string{"func f ()", "func f (x)"}},
		{"two-groups", &c13gSpec{Way: "file", Stages: 2, NSlots: 2,
			Stmts: []*c13gStmt{fn(grp("Params", id("a"), slot(0)), grp("Block", k("null"), id("g", term.G("Call")), slot(1), k("null")))},
			Fills: []c13gFill{{Slot: 0, Stage: 1, Toks: ctx}}},
			[]string{"func f (a) {\ng ()\n}", imp + "func f (a,ctx context.Context) {\ng ()\n}"}},
		{"block-slot", &c13gSpec{Way: "file", Stages: 2, NSlots: 2,
			Stmts: []*c13gStmt{fn(grp("Params", k("null")), grp("Block", slot(0), id("g", term.G("Call")), slot(1)))},
			Fills: []c13gFill{{Slot: 1, Stage: 1, Toks: []term.Node{term.Id("h"), term.G("Call")}}}},
			[]string{"func f () {\ng ()\n}", "func f () {\ng ()\nh ()\n}"}},
		{"empty-block", &c13gSpec{Way: "file", Stages: 2, NSlots: 2,
			Stmts: []*c13gStmt{fn(grp("Params", slot(0)), grp("Block", k("null"), slot(1), k("addempty")))},
			Fills: []c13gFill{{Slot: 0, Stage: 1, Toks: []term.Node{term.Id("x")}}}},
			[]string{"func f () {}", "func f (x) {}"}},
		{"call-Empty-kept", &c13gSpec{Way: "file", Stages: 2, NSlots: 1,
			Stmts: []*c13gStmt{{Head: []term.Node{term.Id("a")}, Groups: []*c13gGroup{grp("Index", k("null"), k("empty"), slot(0), k("null"), id("hi"))}}},
			Fills: []c13gFill{{Slot: 0, Stage: 1, Toks: []term.Node{term.Id("mid")}}}},
			[]string{"a [:hi]", "a [:mid:hi]"}},
		{"values-add-forms", &c13gSpec{Way: "file", Stages: 2, NSlots: 1,
			Stmts: []*c13gStmt{{Head: []term.Node{term.Id("T")}, Groups: []*c13gGroup{grp("Values", k("addnull"), id("x"), k("addnil"), k("addnilstmt"), slot(0), k("null"), id("y"), k("nullnull"))}}},
			Fills: []c13gFill{{Slot: 0, Stage: 1, Toks: []term.Node{term.Lit(1)}}}},
			[]string{"T {x,y}", "T {x,1,y}"}},
		{"case-list", &c13gSpec{Way: "file", Stages: 2, NSlots: 2,
			Stmts: []*c13gStmt{{Groups: []*c13gGroup{grp("Case", slot(0), id("a"), slot(1))}}},
			Fills: []c13gFill{{Slot: 1, Stage: 1, Toks: []term.Node{term.Id("b")}}}},
			[]string{"case a:", "case a,b:"}},
		{"nested", &c13gSpec{Way: "file", Stages: 2, NSlots: 2,
			Stmts: []*c13gStmt{{Head: []term.Node{term.Id("f")}, Groups: []*c13gGroup{grp("Call", k("null"),
				c13gItem{Kind: "real", Name: "g", Sub: grp("Call", slot(0), id("x"), k("null"))}, slot(1))}}},
			Fills: []c13gFill{{Slot: 1, Stage: 1, Toks: []term.Node{term.Id("y")}}}},
			[]string{"f (g (x))", "f (g (x),y)"}},
	}
	// slots in a statement built AFTER the chaining happened, in the same File
	later := &c13gSpec{Way: "file", Stages: 2, NSlots: 3,
		Stmts: []*c13gStmt{
			{Head: []term.Node{term.Id("s0")}, Groups: []*c13gGroup{grp("Call", id("a"), slot(0), slot(1))}},
			{Head: []term.Node{term.Id("s1")}, Groups: []*c13gGroup{grp("List", k("null"), id("b"), slot(2))}, Stage: 1}},
		Fills: []c13gFill{{Slot: 0, Stage: 1, Toks: []term.Node{term.Id("x")}}}}
	list = append(list, fx{"built-after-chaining", later, []string{"s0 (a)", "s0 (a,x)\ns1 b"}})
	var out []*Case
	for _, f := range list {
		tags := []string{"group-form-null", "null-slot-filled-later", "way=file", "fixed-raw-bytes", "shape=" + f.name}
		out = append(out, c13gCase(f.sp, "group-null", tags, f.want))
	}
	return out
}

// c13gOracle: every render of the mutated values equals the render of the clean twin of that
// stage (so every untouched g.Null() item has vanished, without separator, before and after
// the chaining, and the filled slot shows exactly its tokens); fixed shapes have exactly the
// expected raw bytes; single raw lists are cut at their items and their separators counted.
func c13gOracle(c *Case, got []hist.Obs) string {
	sp := c.Meta["spec"].(*c13gSpec)
	if len(got) != 2*sp.Stages+2 {
		return fmt.Sprintf("expected %d observations, got %d", 2*sp.Stages+2, len(got))
	}
	wants, _ := c.Meta["wantraws"].([]string)
	for s := 0; s <= sp.Stages; s++ {
		what := fmt.Sprintf("stage %d", s)
		if s == sp.Stages {
			what = "the untouched g.Null() statements as items of Custom{<,>}"
		}
		if msg := c13SameRender(got[2*s], got[2*s+1]); msg != "" {
			return what + ": " + msg
		}
		if s == sp.Stages {
			if got[2*s].Kind != "write" || !strings.HasSuffix(got[2*s].Out, "<>") {
				return fmt.Sprintf("%s: rendered %s, want `<>`", what, got[2*s])
			}
			continue
		}
		if s < len(wants) {
			body, ok := c13Body(got[2*s].Out)
			if got[2*s].Kind != "write" || !ok || body != wants[s] {
				return fmt.Sprintf("%s: rendered %s, want raw text %q", what, got[2*s], wants[s])
			}
		}
		if sp.Way == "file" && len(sp.Stmts) == 1 && len(sp.Stmts[0].Head) == 0 && len(sp.Stmts[0].Groups) == 1 && sp.Stmts[0].Groups[0].Ctx == "flat" {
			g := sp.Stmts[0].Groups[0]
			body, ok := c13Body(got[2*s].Out)
			if got[2*s].Kind != "write" || !ok {
				return fmt.Sprintf("%s: a NoFormat render failed: %s", what, got[2*s])
			}
			var names []string
			for _, it := range g.Items {
				switch it.Kind {
				case "real":
					names = append(names, it.Name)
				case "empty":
					names = append(names, "")
				case "slot":
					if f := sp.fillOf(it.Slot, s); f != nil {
						names = append(names, f.Name)
					}
				}
			}
			var cons *c13Cons
			for _, cc := range c13AllConstructs() {
				if cc.Method == g.Method && (g.Method != "Custom" || cc.Opts == g.Opts) {
					cc := cc
					cons = &cc
					break
				}
			}
			if cons != nil {
				if msg := C13CheckList(body, names, cons.Sep, cons.Multi, cons.HasClose, cons.Known); msg != "" {
					return what + ": " + msg
				}
			}
		}
	}
	return ""
}

// c13AllConstructs: the constructs of c13Constructs plus the close-only / open-only Custom
// option sets.
func c13AllConstructs() []c13Cons {
	out := c13Constructs()
	for i, o := range c13CloseOnly {
		out = append(out, c13Cons{Name: fmt.Sprintf("CustomHalf%d", i), Method: "Custom", Opts: o,
			Sep: o.Separator, Multi: o.Multi, HasClose: o.Close != "", Known: true})
	}
	return out
}
