package props

import (
	"fmt"
	"math/rand"
	"sort"

	"verifharness/hist"
	"verifharness/term"
)

// ---- stream "settings-between-renders" ------------------------------------------------------
//
// ONE File rendered 2..5 times.  Between two renders its SETTINGS change: NoFormat is toggled
// (the most frequent change: raw -> formatted and formatted -> raw), PackagePrefix or
// CanonicalPath are set, a header / package comment / cgo preamble is added, a hint or an
// anonymous import is added - and in most rounds NOTHING is added to the body, so that the
// unformatted text of the next render is the text of the render before (anything the File
// remembers from a render - a kept output, a kept error, a kept buffer - is consulted under
// settings other than the ones it was made under).  In 1 round in 4 a statement is added too.
// Bodies: valid declarations (every formatted render must succeed and be gofmt of the raw
// text), the same with damage, and random trees (nearly always invalid: a raw render writes
// them, a formatted render must report the error).
//
// C02's oracle applies to EVERY render of the history (it always did; the older streams render
// a File once): a formatted render that returns nil parses and is gofmt of what an identically
// built File (same history, NoFormat on) writes at that point; a NoFormat render writes exactly
// what that twin writes; an error leaves the writer untouched; nothing panics.
func c02SettingsStream(r *rand.Rand, t string) []*Case {
	var out []*Case
	n := tier(t, 1500, 60000)
	for i := 0; i < n; i++ {
		paths := somePaths(r, 4)
		g := &Gen{R: r, Paths: paths, MaxDepth: 2 + r.Intn(2), NilRate: 8, NoBad: true}
		h, local := FileSetup(r, 0, SetupOpts{Paths: paths})
		tags := map[string]bool{}
		bodyKind := []string{"valid", "valid", "damaged", "random"}[r.Intn(4)]
		decl := 0
		stmt := func() *term.Stmt {
			decl++
			switch bodyKind {
			case "random":
				return g.Stmt(0)
			}
			st := g.SimpleDecl(decl)
			if bodyKind == "damaged" && r.Intn(2) == 0 {
				k := r.Intn(len(st.Items))
				switch r.Intn(3) {
				case 0:
					st.Items = append(st.Items[:k:k], st.Items[k+1:]...)
				case 1:
					st.Items = append(st.Items, st.Items[k])
				default:
					st.Items[0], st.Items[k] = st.Items[k], st.Items[0]
				}
			}
			return st
		}
		for j := 1 + r.Intn(3); j > 0; j-- {
			h = append(h, hist.Op{Kind: "fadd", F: 0, Code: stmt()})
		}
		nf := r.Intn(2) == 0
		h = append(h, hist.Op{Kind: "noformat", F: 0, Flag: nf})
		rounds := 2 + r.Intn(4)
		toggles := 0
		for k := 0; k < rounds; k++ {
			h = append(h, hist.Op{Kind: "render", F: 0})
			if k == rounds-1 {
				break
			}
			added := false
			nchanges := 1 + r.Intn(2)
			if r.Intn(8) == 0 {
				nchanges = 0
				tags["between=nothing-at-all"] = true
			}
			for c := 0; c < nchanges; c++ {
				switch r.Intn(14) {
				case 0, 1, 2, 3, 4, 5:
					nf = !nf
					toggles++
					h = append(h, hist.Op{Kind: "noformat", F: 0, Flag: nf})
					if nf {
						tags["between=noformat:formatted->raw"] = true
					} else {
						tags["between=noformat:raw->formatted"] = true
					}
				case 6:
					h = append(h, hist.Op{Kind: "prefix", F: 0, A: pick(r, append([]string{""}, prefixPool...))})
					tags["between=prefix"] = true
				case 7:
					h = append(h, hist.Op{Kind: "canonical", F: 0, A: pick(r, []string{"", "example.com/p", "a.b/\"q\"", "x/世界"})})
					tags["between=canonical"] = true
				case 8:
					h = append(h, hist.Op{Kind: "header", F: 0, A: pick(r, headerPool)})
					tags["between=header"] = true
				case 9:
					h = append(h, hist.Op{Kind: "pkgcomment", F: 0, A: pick(r, pkgCommentPool)})
					tags["between=pkgcomment"] = true
				case 10:
					h = append(h, hist.Op{Kind: "cgo", F: 0, A: pick(r, cgoPreamblePool)})
					tags["between=cgo-preamble"] = true
				case 11:
					if len(paths) > 0 {
						h = append(h, hist.Op{Kind: pick(r, []string{"importname", "importalias"}), F: 0, A: pick(r, paths), B: pick(r, namePool)})
						tags["between=hint"] = true
					}
				case 12:
					if p := pick(r, PathPool); p != local {
						h = append(h, hist.Op{Kind: "anon", F: 0, Strs: []string{p}})
						tags["between=anon"] = true
					}
				default:
					h = append(h, hist.Op{Kind: "fadd", F: 0, Code: stmt()})
					added = true
					tags["between=statement-added"] = true
				}
			}
			if !added {
				tags["between=body-unchanged"] = true
			}
		}
		h = append(h, hist.Op{Kind: "imports", F: 0})
		tags["body="+bodyKind] = true
		tags[fmt.Sprintf("renders=%d", rounds)] = true
		tags["noformat-toggles="+c07Bucket(toggles, 1, 2, 3)] = true
		tl := sortedKeys(tags)
		tl = append(tl, SetupTags(h)...)
		sort.Strings(tl)
		// NonTrivial: NoFormat was toggled between two renders of the File at least once
		out = append(out, &Case{Hist: h, Stream: "settings-between-renders", NonTrivial: toggles > 0,
			Meta: map[string]interface{}{"badlit": false}, Tags: tl})
	}
	return out
}

// ---- stream "tiny-texts" ---------------------------------------------------------------------
//
// Every text-valued argument of the API, given the shortest texts there are: each of the 256
// one-byte strings and two-byte strings over TinyAlphabet (quick: a random sample; thorough:
// all of them), ONE position per case, in an otherwise valid file:
//
//	comment texts   Comment (an item of its own / trailing / in a Group item list), Commentf
//	                through the method, the package function and Group.Commentf, HeaderComment,
//	                PackageComment, CgoPreamble (alone and as second block)
//	token texts     Id, Op, Qual name, string literal (Lit), Dict key (Lit and Id), Tag key and
//	                Tag value
//	paths           the whole import path of a Qual, its last element, its first element, an Anon
//	                path, the path of NewFilePath, the local path of NewFilePathName
//	names           the package name (NewFile, NewFilePathName), ImportName / ImportAlias names,
//	                PackagePrefix, CanonicalPath
//
// The File is rendered raw and then formatted (NoFormat toggled in between), and the statement
// that holds the text is rendered once more on its own (RenderWithFile) where there is one.
// C02: whatever the text, no render panics - a text that makes the file invalid is a format
// error - and what is written with a nil error is gofmt of the raw text.
type c02TinyPos struct {
	name  string
	build func(s string) (hist.History, *term.Stmt)
}

func c02TinyPositions() []c02TinyPos {
	file := func(pre hist.History, sts ...*term.Stmt) hist.History {
		h := hist.History{{Kind: "newfile", F: 0, A: "p"}}
		h = append(h, pre...)
		for _, st := range sts {
			h = append(h, hist.Op{Kind: "fadd", F: 0, Code: st})
		}
		return h
	}
	fn := func(body ...term.Node) *term.Stmt {
		return term.S(term.Named("Func"), term.Id("f"), term.G("Params"), term.G("Block", body...))
	}
	call := func(n string) *term.Stmt { return term.S(term.Id(n), term.G("Call")) }
	varX := func(items ...term.Node) *term.Stmt {
		return term.S(append([]term.Node{term.Named("Var"), term.Id("x"), term.Op("=")}, items...)...)
	}
	ref := func(p string) *term.Stmt { return varX(term.Qual(p, "V")) }
	one := func(st *term.Stmt) (hist.History, *term.Stmt) { return file(nil, st), st }
	set := func(ops ...hist.Op) hist.History { return hist.History(ops) }
	return []c02TinyPos{
		{"comment:own-item", func(s string) (hist.History, *term.Stmt) {
			return one(fn(call("a"), term.S(term.Comment{Text: s}), call("b")))
		}},
		{"comment:trailing", func(s string) (hist.History, *term.Stmt) {
			return one(fn(term.S(term.Id("a"), term.G("Call"), term.Comment{Text: s}), call("b")))
		}},
		{"comment:top-level", func(s string) (hist.History, *term.Stmt) {
			c := term.S(term.Comment{Text: s})
			return file(nil, c, varX(term.Lit(1))), c
		}},
		{"comment:in-call-list", func(s string) (hist.History, *term.Stmt) {
			return one(varX(term.Id("f"), term.G("Call", term.S(term.Lit(1)), term.S(term.Comment{Text: s}), term.S(term.Lit(2)))))
		}},
		{"commentf:method", func(s string) (hist.History, *term.Stmt) {
			return one(fn(term.S(term.Id("a"), term.G("Call"), term.Comment{Text: s, F: true}), call("b")))
		}},
		{"commentf:function", func(s string) (hist.History, *term.Stmt) {
			return one(fn(call("a"), term.S(term.Commentf("func", "%s", s)), call("b")))
		}},
		{"commentf:group", func(s string) (hist.History, *term.Stmt) {
			return one(fn(call("a"), term.S(term.Commentf("group", "%s", s)), call("b")))
		}},
		{"header", func(s string) (hist.History, *term.Stmt) {
			return file(set(hist.Op{Kind: "header", F: 0, A: s}), varX(term.Lit(1))), nil
		}},
		{"header:second", func(s string) (hist.History, *term.Stmt) {
			return file(set(hist.Op{Kind: "header", F: 0, A: "Code generated."}, hist.Op{Kind: "header", F: 0, A: s}), varX(term.Lit(1))), nil
		}},
		{"pkgcomment", func(s string) (hist.History, *term.Stmt) {
			return file(set(hist.Op{Kind: "pkgcomment", F: 0, A: s}), varX(term.Lit(1))), nil
		}},
		{"cgo-preamble", func(s string) (hist.History, *term.Stmt) {
			return file(set(hist.Op{Kind: "cgo", F: 0, A: s}), varX(term.Qual("C", "int"), term.G("Call", term.S(term.Lit(1))))), nil
		}},
		{"cgo-preamble:second", func(s string) (hist.History, *term.Stmt) {
			return file(set(hist.Op{Kind: "cgo", F: 0, A: "#include <a.h>"}, hist.Op{Kind: "cgo", F: 0, A: s}), varX(term.Lit(1))), nil
		}},
		{"id", func(s string) (hist.History, *term.Stmt) { return one(varX(term.Id(s))) }},
		{"id:declared", func(s string) (hist.History, *term.Stmt) {
			return one(term.S(term.Named("Var"), term.Id(s), term.Op("="), term.Lit(1)))
		}},
		{"op", func(s string) (hist.History, *term.Stmt) { return one(varX(term.Lit(1), term.Op(s), term.Lit(2))) }},
		{"op:prefix", func(s string) (hist.History, *term.Stmt) { return one(varX(term.Op(s), term.Id("y"))) }},
		{"qual-name", func(s string) (hist.History, *term.Stmt) { return one(varX(term.Qual("fmt", s))) }},
		{"lit-string", func(s string) (hist.History, *term.Stmt) { return one(varX(term.Lit(s))) }},
		{"dict-key:lit", func(s string) (hist.History, *term.Stmt) {
			d := &term.Dict{Pairs: [][2]term.Node{{term.S(term.Lit(s)), term.S(term.Lit(1))}, {term.S(term.Lit("zz")), term.S(term.Lit(2))}}}
			return one(varX(term.G("Map", term.S(term.Named("String"))), term.Named("Int"), term.G("Values", d)))
		}},
		{"dict-key:id", func(s string) (hist.History, *term.Stmt) {
			d := &term.Dict{Pairs: [][2]term.Node{{term.S(term.Id(s)), term.S(term.Lit(1))}, {term.S(term.Id("zz")), term.S(term.Lit(2))}}}
			return one(varX(term.Id("T"), term.G("Values", d)))
		}},
		{"tag-key", func(s string) (hist.History, *term.Stmt) {
			return one(term.S(term.Named("Type"), term.Id("T"), term.G("Struct", term.S(term.Id("F"), term.Named("Int"), term.Tag{KV: [][2]string{{s, "v"}}}))))
		}},
		{"tag-value", func(s string) (hist.History, *term.Stmt) {
			return one(term.S(term.Named("Type"), term.Id("T"), term.G("Struct", term.S(term.Id("F"), term.Named("Int"), term.Tag{KV: [][2]string{{"json", s}, {"k", "v"}}}))))
		}},
		{"path:whole", func(s string) (hist.History, *term.Stmt) { return one(ref(s)) }},
		{"path:last-element", func(s string) (hist.History, *term.Stmt) { return one(ref("a.b/" + s)) }},
		{"path:first-element", func(s string) (hist.History, *term.Stmt) { return one(ref(s + "/pkg")) }},
		{"path:two-colliding", func(s string) (hist.History, *term.Stmt) {
			st := varX(term.Qual("a.b/"+s, "V"), term.Op("+"), term.Qual("c.d/"+s, "V"), term.Op("+"), term.Qual(s, "V"))
			return one(st)
		}},
		{"path:anon", func(s string) (hist.History, *term.Stmt) {
			return file(set(hist.Op{Kind: "anon", F: 0, Strs: []string{s}}), ref("fmt")), nil
		}},
		{"path:newfilepath", func(s string) (hist.History, *term.Stmt) {
			st := ref("fmt")
			return hist.History{{Kind: "newfilepath", F: 0, A: s}, {Kind: "fadd", F: 0, Code: st}}, st
		}},
		{"path:local", func(s string) (hist.History, *term.Stmt) {
			st := varX(term.Qual(s, "V"), term.Op("+"), term.Qual("a.b/"+s, "V"))
			return hist.History{{Kind: "newfilepathname", F: 0, A: s, B: "q"}, {Kind: "fadd", F: 0, Code: st}}, st
		}},
		{"package-name:newfile", func(s string) (hist.History, *term.Stmt) {
			st := ref("fmt")
			return hist.History{{Kind: "newfile", F: 0, A: s}, {Kind: "fadd", F: 0, Code: st}}, st
		}},
		{"package-name:newfilepathname", func(s string) (hist.History, *term.Stmt) {
			st := ref("fmt")
			return hist.History{{Kind: "newfilepathname", F: 0, A: "a.b/c", B: s}, {Kind: "fadd", F: 0, Code: st}}, st
		}},
		{"importname", func(s string) (hist.History, *term.Stmt) {
			st := ref("a.b/c")
			return file(set(hist.Op{Kind: "importname", F: 0, A: "a.b/c", B: s}), st), st
		}},
		{"importalias", func(s string) (hist.History, *term.Stmt) {
			st := ref("a.b/c")
			return file(set(hist.Op{Kind: "importalias", F: 0, A: "a.b/c", B: s}), st), st
		}},
		{"importalias:two-paths", func(s string) (hist.History, *term.Stmt) {
			st := varX(term.Qual("a.b/c", "V"), term.Op("+"), term.Qual("x.y/z", "V"))
			return file(set(hist.Op{Kind: "importalias", F: 0, A: "a.b/c", B: s}, hist.Op{Kind: "importname", F: 0, A: "x.y/z", B: s}), st), st
		}},
		{"prefix", func(s string) (hist.History, *term.Stmt) {
			st := varX(term.Qual("a.b/c", "V"), term.Op("+"), term.Qual("fmt", "V"))
			return file(set(hist.Op{Kind: "prefix", F: 0, A: s}), st), st
		}},
		{"canonical", func(s string) (hist.History, *term.Stmt) {
			return file(set(hist.Op{Kind: "canonical", F: 0, A: s}), varX(term.Lit(1))), nil
		}},
	}
}

func c02TinyCase(p c02TinyPos, s string, size string) *Case {
	h, st := p.build(s)
	h = append(h, hist.Op{Kind: "noformat", F: 0, Flag: true}, hist.Op{Kind: "render", F: 0},
		hist.Op{Kind: "noformat", F: 0, Flag: false}, hist.Op{Kind: "render", F: 0})
	if st != nil {
		h = append(h, hist.Op{Kind: "rcode", F: 0, Code: st})
	}
	h = append(h, hist.Op{Kind: "imports", F: 0})
	return &Case{Hist: h, Stream: "tiny-texts", NonTrivial: true, Meta: map[string]interface{}{"badlit": false},
		Tags: []string{"tiny-text", "tiny-at=" + p.name, "tiny-size=" + size}}
}

func c02TinyStream(r *rand.Rand, t string) []*Case {
	var out []*Case
	pos := c02TinyPositions()
	for _, p := range pos {
		out = append(out, c02TinyCase(p, "", "0"))
		for _, s := range TinyTexts1() {
			out = append(out, c02TinyCase(p, s, "1"))
		}
	}
	two := TinyTexts2()
	if t == "thorough" {
		for _, p := range pos {
			for _, s := range two {
				out = append(out, c02TinyCase(p, s, "2"))
			}
		}
		return out
	}
	for i := 0; i < 3000; i++ {
		out = append(out, c02TinyCase(pos[r.Intn(len(pos))], two[r.Intn(len(two))], "2"))
	}
	return out
}

// ---- stream "random+tiny": the random trees of stream "random" with tiny texts --------------
//
// The trees of Gen with TinyRate on: one text in three (identifiers, operators, comment texts,
// string literals, Tag keys and values, Dict keys) is a tiny text, at whatever depth and next
// to whatever neighbours the random tree puts it; a third of the cases also reference a path
// that is tiny or has a tiny element.
func c02RandomTinyStream(r *rand.Rand, t string) []*Case {
	var out []*Case
	n := tier(t, 1500, 60000)
	for i := 0; i < n; i++ {
		paths := somePaths(r, 3)
		tinyPath := false
		if r.Intn(3) == 0 {
			s := TinyText(r)
			paths = append(paths, pick(r, []string{s, "a.b/" + s, s + "/x"}))
			tinyPath = true
		}
		g := &Gen{R: r, Paths: paths, MaxDepth: 2 + r.Intn(2), NilRate: 8, NoBad: true, TinyRate: 3}
		h, _ := FileSetup(r, 0, SetupOpts{Paths: paths})
		for j := 1 + r.Intn(3); j > 0; j-- {
			h = append(h, hist.Op{Kind: "fadd", F: 0, Code: g.Stmt(0)})
		}
		nf := r.Intn(3) == 0
		h = append(h, hist.Op{Kind: "noformat", F: 0, Flag: nf}, hist.Op{Kind: "render", F: 0})
		if r.Intn(3) == 0 {
			h = append(h, hist.Op{Kind: "rcode", F: 0, Code: g.Stmt(0)})
		}
		h = append(h, hist.Op{Kind: "imports", F: 0})
		tags := []string{fmt.Sprintf("noformat=%v", nf), "tiny-texts-drawn=" + c07Bucket(g.Tiny, 1, 3, 6)}
		if tinyPath {
			tags = append(tags, "tiny-path")
		}
		// NonTrivial: at least one tiny text was drawn into the tree
		out = append(out, &Case{Hist: h, Stream: "random+tiny", NonTrivial: g.Tiny > 0 || tinyPath,
			Meta: map[string]interface{}{"badlit": false}, Tags: tags})
	}
	return out
}
