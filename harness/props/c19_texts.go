package props

import (
	"fmt"
	"go/ast"
	"go/parser"
	"go/token"
	"math/rand"
	"strings"
)

// Stream "texts" of C19 (round 6): WHAT the preamble blocks say.  The product and the mixed
// stream give every block a text of its own (`#include <oneN.h>`), made of letters, digits and
// `#<>.`.  Two dimensions were missing:
//
//	alphabet    C code with characters that are special to a function the text might be passed
//	            through on its way to the output: fmt verbs (`printf("%d%%\n", n)`, `%s`, `%!`,
//	            `%[1]d`, a lone `%`), backslashes (escapes in C strings, line continuations),
//	            `$` (`${SRCDIR}`, `$1`), backquotes, braces, `#`/`##` operators - in blocks of
//	            EVERY form: plain one-line, plain multi-line, raw `// x`, raw `/* x */`, raw
//	            multi-line block, and the newline-terminated variants of all of them;
//	repetition  two or more blocks with IDENTICAL text (`#endif` closing two `#ifdef` sections,
//	            `#pragma pack(pop)`, a closing brace): adjacent, apart, three times, in the same and
//	            in different positions of the sequence; every block given must be there, in order.
//
// Enumerated: every special line x every form as the only block; for every form A and every
// form B the sequences [A A], [A A A] and [A B A] (A repeated verbatim).  Drawn: 1..6 blocks,
// each either a fresh block (form and 1..3 lines drawn) or - three times in ten - a verbatim
// repetition of an earlier block.  The other dimensions of the product (use, other imports,
// prefix, hint, NoFormat) are drawn per case.
//
// Oracle: C19Check (lines of the doc comment of `import "C"` = lines of the blocks, in order);
// for the cases rendered with NoFormat additionally byte-exact: one comment per block, each
// exactly the comment jennifer documents for the text (c19ExactDoc).

var c19CLines = []string{
	// fmt verbs
	`printf("%d%%\n", n);`, `static void show(int n, const char* s) { printf("%d%% of %s\n", n, s); }`, `#define FMT "%s: %5.2f%%\n"`,
	`int r = a % b;`, `#define PCT(x) ((x) % 100)`, `100% sure;`, `%`, `%%`, `%d`, `%!d(MISSING)`, `%[1]d %[2]*d`, `%v%s%q`, `snprintf(buf, sizeof buf, "%-*s|%08.3f|%c", w, s, f, c);`, `trailing %`,
	// backslashes
	`#define PATH "C:\\dir\\file"`, `static const char *s = "a\tb\\";`, `#define LONG(x) \`, `char c = '\'';`, `char nul = '\0';`, `\`, `\n`, `"\x41\101\u00e9"`,
	// dollars
	`#cgo CFLAGS: -I${SRCDIR}/include -DHOME=$HOME`, `#cgo LDFLAGS: -L${SRCDIR}/lib -lfoo`, `static const char id[] = "$Id$";`, `$1 ${2} $$`, `int $x = 1;`,
	// backquotes, operators of the preprocessor, braces
	"char q = '`';", "`", "`raw`", `#define STR(x) #x`, `#define CAT(a, b) a ## b`, `{`, `}`, `};`, `typedef struct { int a; } t;`,
	// the usual lines, several of which occur more than once in real preambles
	`#ifdef __linux__`, `#ifdef __APPLE__`, `#else`, `#endif`, `#pragma pack(push, 1)`, `#pragma pack(pop)`, `#include <stdio.h>`, `#include "x.h"`, `int f(void);`,
}

const c19TextForms = 9

var c19TextFormNames = []string{"plain-one-line", "plain-multi-line", "raw-line", "raw-block", "raw-multi-line-block",
	"plain-one-line+newline", "plain-multi-line+newline", "raw-line+newline", "raw-block+newlines"}

// c19TextBlock: a block of the given form saying lines (a one-line form takes the first line;
// a multi-line form gets a second line when only one is given).
func c19TextBlock(form int, lines []string) string {
	multi := func() string {
		if len(lines) == 1 {
			return lines[0] + "\n" + "int pad(void);"
		}
		return strings.Join(lines, "\n")
	}
	switch form {
	case 0:
		return lines[0]
	case 1:
		return multi()
	case 2:
		return "// " + lines[0]
	case 3:
		return "/* " + lines[0] + " */"
	case 4:
		return "/*\n" + multi() + "\n*/"
	case 5:
		return lines[0] + "\n"
	case 6:
		return multi() + "\n"
	case 7:
		return "// " + lines[0] + "\n"
	}
	return "/* " + lines[0] + " */\n\n"
}

func c19SpecialTags(b string) []string {
	var tags []string
	form := "plain"
	if strings.HasPrefix(b, "//") || strings.HasPrefix(b, "/*") {
		form = "raw"
	}
	for ch, name := range map[string]string{"%": "percent", `\`: "backslash", "$": "dollar", "`": "backquote"} {
		if strings.Contains(b, ch) {
			tags = append(tags, "text="+name+"@"+form)
		}
	}
	return tags
}

func c19Texts(r *rand.Rand, t string) []*Case {
	var out []*Case
	mk := func(pre []string, forms []int, extra []string) {
		cfg := c19Cfg{Stream: "texts", Pre: pre,
			Use:    pick(r, []string{"qual", "anon", "both", "neither"}),
			Others: pick(r, []string{"none", "one", "many", "aliased", "anon"}),
			Prefix: r.Intn(2) == 0, Hint: pick(r, []string{"none", "none", "name", "alias", "dot"}), NoFormat: r.Intn(3) == 0}
		seen := map[string]int{}
		tagset := map[string]bool{}
		for i, b := range pre {
			tagset["form="+c19TextFormNames[forms[i]]] = true
			for _, tg := range c19SpecialTags(b) {
				tagset[tg] = true
			}
			if j, ok := seen[b]; ok {
				tagset["repeated-text"] = true
				tagset["repeated-text="+c19TextFormNames[forms[i]]] = true
				if j == i-1 {
					tagset["repeated-text=adjacent"] = true
				} else {
					tagset["repeated-text=apart"] = true
				}
			}
			seen[b] = i
		}
		counts := map[string]int{}
		for _, b := range pre {
			counts[b]++
			if counts[b] == 3 {
				tagset["repeated-text=three-times"] = true
			}
		}
		for _, e := range extra {
			tagset[e] = true
		}
		cfg.Extra = sortedKeys(tagset)
		out = append(out, c19Make(cfg))
	}
	// every special line in every form, alone
	for _, l := range c19CLines {
		for f := 0; f < c19TextForms; f++ {
			mk([]string{c19TextBlock(f, []string{l})}, []int{f}, []string{"texts=enumerated-line-x-form"})
		}
	}
	// repetitions: [A A] [A A A] [A B A] for every form of A (and of B)
	li := 0
	line := func() string { li++; return c19CLines[(li*7)%len(c19CLines)] }
	for fa := 0; fa < c19TextForms; fa++ {
		for k := 0; k < tier(t, 2, 6); k++ {
			a := c19TextBlock(fa, []string{line()})
			mk([]string{a, a}, []int{fa, fa}, []string{"texts=enumerated-repetition"})
			mk([]string{a, a, a}, []int{fa, fa, fa}, []string{"texts=enumerated-repetition"})
		}
		for fb := 0; fb < c19TextForms; fb++ {
			a := c19TextBlock(fa, []string{line()})
			b := c19TextBlock(fb, []string{line()})
			if a == b {
				continue
			}
			mk([]string{a, b, a}, []int{fa, fb, fa}, []string{"texts=enumerated-repetition"})
		}
	}
	// drawn
	for i, n := 0, tier(t, 2500, 40000); i < n; i++ {
		nb := 1 + r.Intn(6)
		var pre []string
		var forms []int
		for j := 0; j < nb; j++ {
			if j > 0 && r.Intn(10) < 3 {
				k := r.Intn(j)
				pre, forms = append(pre, pre[k]), append(forms, forms[k])
				continue
			}
			f := r.Intn(c19TextForms)
			var ls []string
			for k := 1 + r.Intn(3); k > 0; k-- {
				ls = append(ls, pick(r, c19CLines))
			}
			pre, forms = append(pre, c19TextBlock(f, ls)), append(forms, f)
		}
		mk(pre, forms, nil)
	}
	return out
}

// c19ExactDoc: the doc comment of the declaration `import "C"` of src (a NoFormat output)
// consists of exactly one comment per preamble block, each byte for byte the comment the
// documented rule gives for the text (a raw form as it is, without the newlines at its end).
func c19ExactDoc(pre []string, src string) string {
	if len(pre) == 0 {
		return ""
	}
	fset := token.NewFileSet()
	f, err := parser.ParseFile(fset, "x.go", src, parser.ParseComments)
	if err != nil {
		return "output does not parse: " + err.Error()
	}
	for _, d := range f.Decls {
		gd, ok := d.(*ast.GenDecl)
		if !ok || gd.Tok != token.IMPORT || len(gd.Specs) != 1 || gd.Specs[0].(*ast.ImportSpec).Path.Value != `"C"` {
			continue
		}
		var have []string
		if gd.Doc != nil {
			for _, c := range gd.Doc.List {
				have = append(have, c.Text)
			}
		}
		var want []string
		for _, p := range pre {
			if strings.HasPrefix(p, "//") || strings.HasPrefix(p, "/*") {
				p = strings.TrimRight(p, "\n")
			}
			want = append(want, renderedComment(p))
		}
		if strings.Join(have, "\x00") != strings.Join(want, "\x00") {
			return fmt.Sprintf("NoFormat output: the comments directly above import \"C\" are not, one by one and byte for byte, the preamble blocks:\n  have %q\n  want %q", have, want)
		}
		return ""
	}
	return "NoFormat output: no declaration of its own for import \"C\""
}
