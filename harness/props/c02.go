package props

import (
	"fmt"
	"go/format"
	"go/parser"
	"go/token"
	"math/rand"
	"strings"

	"verifharness/hist"
	"verifharness/term"
)

// C02: a successful render is valid Go and exactly gofmt of the raw rendering; invalid
// compositions are errors, never panics.
type c02 struct{}

func init() { Register(c02{}) }

func (c02) ID() string { return "C02" }

func hasBadLit(n term.Node) bool {
	found := false
	var walk func(n term.Node)
	walk = func(n term.Node) {
		switch x := n.(type) {
		case term.Tok:
			if x.Kind == "lit" && strings.HasPrefix(term.LitSexp(x.V), "(lbad") {
				found = true
			}
		case *term.Group:
			for _, it := range x.Items {
				walk(it)
			}
		case *term.Stmt:
			for _, it := range x.Items {
				walk(it)
			}
		case *term.Dict:
			for _, p := range x.Pairs {
				walk(p[0])
				walk(p[1])
			}
		}
	}
	walk(n)
	return found
}

func (c02) Generate(r *rand.Rand, t string) []*Case {
	out := c02NullishStream(r, t)
	n := tier(t, 5000, 300000)
	for i := 0; i < n; i++ {
		paths := somePaths(r, 5)
		g := &Gen{R: r, Paths: paths, MaxDepth: 2 + r.Intn(3), NilRate: 8}
		if r.Intn(3) == 0 {
			g.NilRate = 0
		} else if r.Intn(2) == 0 {
			g.NilRate, g.MoreNullish = 5, true // null Dicts, empty Lists ... also beside other items of Values
		}
		h, _ := FileSetup(r, 0, SetupOpts{Paths: paths})
		nst := 1 + r.Intn(4)
		bad := false
		stream := "random"
		valid := r.Intn(3) == 0
		if valid {
			stream = "valid+damage"
			// number tokens in non-canonical spellings (0X0F, 0O755, 1E6, 0123i ...) written through
			// Op / Id, as call arguments and as initialisers: gofmt rewrites them, so the formatted
			// output differs from the raw rendering by exactly the number normalisation of go/format
			g.RawNumberRate = 3
		}
		damaged := false
		for j := 0; j < nst; j++ {
			var st *term.Stmt
			if valid {
				st = g.SimpleDecl(j)
				if r.Intn(4) == 0 { // damage: drop, duplicate or swap items
					damaged = true
					k := r.Intn(len(st.Items))
					switch r.Intn(3) {
					case 0:
						st.Items = append(st.Items[:k:k], st.Items[k+1:]...)
					case 1:
						st.Items = append(st.Items, st.Items[k])
					default:
						st.Items[0], st.Items[k] = st.Items[k], st.Items[0]
					}
				}
			} else {
				st = g.Stmt(0)
			}
			bad = bad || hasBadLit(st)
			h = append(h, hist.Op{Kind: "fadd", F: 0, Code: st})
		}
		nf := r.Intn(3) == 0
		h = append(h, hist.Op{Kind: "noformat", F: 0, Flag: nf})
		h = append(h, hist.Op{Kind: "render", F: 0})
		if r.Intn(4) == 0 { // a fragment render with the same file
			st := g.Stmt(0)
			bad = bad || hasBadLit(st)
			h = append(h, hist.Op{Kind: "rcode", F: 0, Code: st})
		}
		h = append(h, hist.Op{Kind: "imports", F: 0})
		tags := []string{fmt.Sprintf("paths=%d", len(paths)), fmt.Sprintf("noformat=%v", nf)}
		tags = append(tags, SetupTags(h)...) // header= pkgcomment= header-twice hint-repeated
		if g.MoreNullish {
			tags = append(tags, "more-nullish")
			if g.NullDicts > 0 {
				tags = append(tags, "null-dict-item")
			}
		}
		if g.RawNumbers > 0 {
			tags = append(tags, "noncanonical-number")
			if !damaged && !nf {
				// every declaration is intact and the formatter is on: the render succeeds and gofmt
				// has to rewrite (or, for the borderline spellings, keep) the token
				tags = append(tags, "noncanonical-number-formatted")
			}
		}
		out = append(out, &Case{Hist: h, Stream: stream, NonTrivial: true,
			Meta: map[string]interface{}{"badlit": bad}, Tags: tags})
	}
	out = append(out, c02SharedStream(r, t)...) // drawn last: the older streams' draws are unchanged
	// round 6 (c02_history.go), drawn after everything older
	out = append(out, c02SettingsStream(r, t)...)
	out = append(out, c02TinyStream(r, t)...)
	out = append(out, c02RandomTinyStream(r, t)...)
	// round 7 (c02_directive.go)
	out = append(out, c02DirectiveStream(r, t)...)
	return out
}

func (c02) Compare(c *Case, exp, got []hist.Obs) string { return CompareAll(exp, got) }

// twinRaw re-executes the history with NoFormat forced on: an identically built File.
func twinRaw(h hist.History) []hist.Obs {
	var h2 hist.History
	for _, op := range h {
		if op.Kind == "noformat" {
			op.Flag = true
		}
		if op.Kind == "rplain" || op.Kind == "imports" {
			continue // no effect on the File (an rcode registers imports in it: kept)
		}
		h2 = append(h2, op)
	}
	defer func() { recover() }()
	return hist.NewWorld().Exec(h2)
}

func (c02) Oracle(c *Case, got []hist.Obs) string {
	h := c.Hist
	oi := 0
	for i, op := range h {
		switch op.Kind {
		case "render", "rcode", "rplain":
			o := got[oi]
			oi++
			switch o.Kind {
			case "panic":
				if c.Meta["badlit"] == true && strings.HasPrefix(o.Msg, "unsupported type for literal") {
					return "" // documented panic; the rest of the history is not meaningful
				}
				return "render panicked: " + o.Msg
			case "fmterr":
				if o.Writes != 0 {
					return "format error but the writer was called"
				}
				if c.Meta["quote"] == true && op.Kind == "render" {
					// (streams that ask for it) the error carries the unformatted source: what an
					// identically built File renders with NoFormat, whichever line the formatter blamed
					tw := twinRaw(h[:i+1])
					if len(tw) == 0 || tw[len(tw)-1].Kind != "write" {
						return fmt.Sprintf("format error, but an identically built File with NoFormat did not render: %v", tw)
					}
					if tw[len(tw)-1].Out != o.Out {
						return fmt.Sprintf("the format error does not quote the unformatted source:\n got  %q\n want %q", o.Out, tw[len(tw)-1].Out)
					}
				}
			case "write":
				if op.Kind == "render" && noformatBefore(h, i) {
					// a NoFormat render writes the raw rendering: what an identically built File
					// (same history, NoFormat on throughout) writes at this point.  Nothing an
					// earlier render of THIS File left behind (it may have been a formatted one)
					// shows in it.
					if renderCount(h[:i+1]) > 1 {
						tw := twinRaw(h[:i+1])
						if len(tw) == 0 || tw[len(tw)-1].Kind != "write" {
							return fmt.Sprintf("NoFormat render wrote %q but an identically built File with NoFormat did not render: %v", o.Out, tw)
						}
						if tw[len(tw)-1].Out != o.Out {
							return fmt.Sprintf("NoFormat render (render %d of this File) is not the raw rendering of an identically built File that had NoFormat set all along:\n got  %q\n want %q", renderCount(h[:i+1]), o.Out, tw[len(tw)-1].Out)
						}
					}
					continue
				}
				if op.Kind == "render" {
					fset := token.NewFileSet()
					if _, err := parser.ParseFile(fset, "x.go", o.Out, parser.ParseComments); err != nil {
						return "File.Render returned nil but the output does not parse: " + err.Error()
					}
					tw := twinRaw(h[:i+1])
					if len(tw) == 0 || tw[len(tw)-1].Kind != "write" {
						return fmt.Sprintf("identically built File with NoFormat did not render: %v", tw)
					}
					b, err := format.Source([]byte(tw[len(tw)-1].Out))
					if err != nil {
						return "formatted render succeeded but gofmt rejects the NoFormat rendering: " + err.Error()
					}
					if string(b) != o.Out {
						return fmt.Sprintf("output is not gofmt of the raw rendering:\n got  %q\n want %q", o.Out, string(b))
					}
				} else {
					// "parses as Go declarations or statements": format.Source accepts exactly those
					// fragments (gofmt need not be idempotent on fragments with block comments)
					if _, err := format.Source([]byte(o.Out)); err != nil {
						return "fragment render returned nil but the output does not parse: " + err.Error()
					}
				}
			default:
				return "unexpected observation " + o.String()
			}
		case "save", "imports":
			oi++
		}
	}
	return ""
}

// renderCount: the number of File renders in h.
func renderCount(h hist.History) int {
	n := 0
	for _, op := range h {
		if op.Kind == "render" {
			n++
		}
	}
	return n
}

func noformatBefore(h hist.History, i int) bool {
	nf := false
	for _, op := range h[:i] {
		if op.Kind == "noformat" {
			nf = op.Flag
		}
	}
	return nf
}

// Regressions: exemplars of the recorded open findings (they fail the oracle on the
// unchanged tree and are reported as KNOWN-FINDING by ./check).
func (c02) Regressions() []*Case {
	mk := func(name string, sts ...*term.Stmt) *Case {
		h := hist.History{{Kind: "newfile", F: 0, A: "p"}}
		for _, st := range sts {
			h = append(h, hist.Op{Kind: "fadd", F: 0, Code: st})
		}
		h = append(h, hist.Op{Kind: "noformat", F: 0, Flag: false}, hist.Op{Kind: "render", F: 0})
		return &Case{Name: name, Hist: h, Stream: "regression", NonTrivial: true, Meta: map[string]interface{}{"badlit": false}}
	}
	dict := &term.Dict{Pairs: [][2]term.Node{{term.S(term.Id("a")), term.S(term.Lit(1))}}}
	return []*Case{
		mk("typed-nil-group-before-block",
			term.S(term.Named("Func"), term.Id("f"), term.G("Params"), term.NilGroup{}, term.G("Block", term.S(term.Id("x"), term.G("Call"))))),
		mk("values-dict-plus-item-panics",
			term.S(term.Named("Var"), term.Id("x"), term.Op("="), term.Id("T"), term.G("Values", dict, term.S(term.Null())))),
		mk("gofmt-hoists-plus-build-comment",
			term.S(term.Named("Func"), term.Id("f"), term.G("Params"), term.G("Block",
				term.S(term.Id("x"), term.Op(":="), term.Lit(1), term.Comment{Text: "+build ignore"}),
				term.S(term.Id("y"), term.Op(":="), term.Id("x"))))),
	}
}
