package props

import (
	"fmt"
	"math"
	"math/rand"
	"reflect"

	"verifharness/hist"
)

// C11, streams "func-once" and "complex-boundary".
//
// func-once: NON-IDEMPOTENT callbacks.  "LitFunc behaves identically on the value its function
// returns" - every other stream hands the ...Func forms a function that returns the same value
// whenever it is called, so how often (and when) the library calls it cannot show.  Here the
// function of every occurrence is a generator: its FIRST call returns v1, its second call v2,
// its third v3 ... - values that differ from one another in type (int8 -> float64 -> string ->
// complex64 ...), or only in value; for LitRuneFunc / LitByteFunc another rune / byte; in 1 case
// of 20 v2 is of a type Lit does not support at all.  The history (what the model and the main
// run see) is the render with Lit(v1) at every occurrence, in the layouts of the repetition
// stream (c11_repeat.go: 1..4 occurrences in one statement - list, []interface{}{..}, append(..),
// v == v - or one declaration each; File with and without NoFormat, or a plain Statement).
//
// Oracle: (1) the output of the history is decided as in stream "repeat": every occurrence is a
// constant of exactly v1's type and value (go/types); (2) the same render is built directly on
// the implementation with the generators - all occurrences through the Func form as
// package-level function / *Statement method, all as *Group methods inside a ...Func callback,
// and a random subset - and rendered twice.  Required: every generator has been called EXACTLY
// ONCE when the statement is built, is not called again by either render, and both renders write
// exactly the bytes of the Lit(v1) render.
//
// NonTrivial (measured on the values): for every occurrence v2 differs from v1 in type or in
// its %#v text, i.e. a second call would be visible in the output.
//
// complex-boundary: both parts of a complex128 / complex64 drawn ON PURPOSE from the boundary
// values of the part type - +-0, +-smallest subnormal, smallest normal, +-largest finite and
// its predecessor, values whose modulus overflows although both parts are finite (1.3e308,
// 3e38), 1, -1 - all pairs (real, imaginary), every sign combination.  Judged like every other
// value case (c11.Oracle).  Tags complex:boundary-parts, complex:modulus-overflows (measured:
// math.Hypot of the parts is +Inf), complex:part-subnormal.

func c11ComplexBoundaryCases(r *rand.Rand, t string) []*Case {
	negz := math.Copysign(0, -1)
	b64 := []float64{0, negz, math.SmallestNonzeroFloat64, -math.SmallestNonzeroFloat64, math.Float64frombits(0x0010000000000000),
		math.MaxFloat64, -math.MaxFloat64, math.Nextafter(math.MaxFloat64, 0), 1.3e308, -1.3e308, 1e308, math.MaxFloat32, math.SmallestNonzeroFloat32, 1, -1}
	b32 := []float32{0, float32(negz), math.SmallestNonzeroFloat32, -math.SmallestNonzeroFloat32, math.Float32frombits(0x00800000),
		math.MaxFloat32, -math.MaxFloat32, math.Nextafter32(math.MaxFloat32, 0), 3e38, -3e38, 1e38, 1, -1}
	var out []*Case
	add := func(v interface{}, re, im, minNormal float64) {
		shape, nf := c1xVarPlain, false
		switch r.Intn(3) {
		case 1:
			shape = c1xVarFile
		case 2:
			shape, nf = c1xVarFile, true
		}
		c := c11Case(shape, []interface{}{v}, nf, r.Intn(4) == 0, "complex-boundary")
		c.Tags = append(c.Tags, "complex:boundary-parts")
		if math.IsInf(math.Hypot(re, im), 0) {
			c.Tags = append(c.Tags, "complex:modulus-overflows")
		}
		if (re != 0 && math.Abs(re) < minNormal) || (im != 0 && math.Abs(im) < minNormal) {
			c.Tags = append(c.Tags, "complex:part-subnormal")
		}
		out = append(out, c)
	}
	for _, re := range b64 {
		for _, im := range b64 {
			add(complex(re, im), re, im, math.Float64frombits(0x0010000000000000))
		}
	}
	for _, re := range b32 {
		for _, im := range b32 {
			// (for complex64 "the modulus overflows" is measured in float32 arithmetic)
			h := float64(float32(math.Hypot(float64(re), float64(im))))
			c := complex64(complex(re, im))
			add(c, float64(re), float64(im), float64(math.Float32frombits(0x00800000)))
			if math.IsInf(h, 0) {
				out[len(out)-1].Tags = append(out[len(out)-1].Tags, "complex:modulus-overflows")
			}
		}
	}
	return out
}

// c11OnceDiffer: a second call returning b instead of a would be visible.
func c11OnceDiffer(a, b c1xLit) bool {
	return a.Kind != b.Kind || reflect.TypeOf(a.V) != reflect.TypeOf(b.V) || fmt.Sprintf("%#v", a.V) != fmt.Sprintf("%#v", b.V)
}

// c11OnceLater draws the values the generator of an occurrence returns from its second call on.
func c11OnceLater(r *rand.Rand, first c1xLit, tags map[string]bool) []c1xLit {
	var out []c1xLit
	prev := first
	for n := 1 + r.Intn(3); n > 0; n-- {
		var next c1xLit
		for tries := 0; ; tries++ {
			switch first.Kind {
			case "rune":
				next = c1xLit{Kind: "rune", V: c12RandomRune(r)}
			case "byte":
				next = c1xLit{Kind: "byte", V: byte(r.Intn(256))}
			default:
				if r.Intn(3) == 0 { // same type, another value
					for _, k := range c11RepKinds {
						if v := k.draw(r); v.Kind == "lit" && reflect.TypeOf(v.V) == reflect.TypeOf(prev.V) {
							next = v
							break
						}
					}
				}
				for next.Kind != "lit" { // any type
					next = c11RepKinds[r.Intn(len(c11RepKinds))].draw(r)
				}
			}
			if c11OnceDiffer(prev, next) || tries > 50 {
				break
			}
			next = c1xLit{}
		}
		out = append(out, next)
		prev = next
	}
	if first.Kind == "lit" && r.Intn(20) == 0 {
		out[0] = c1xLit{Kind: "lit", V: struct{}{}}
		tags["second-value=unsupported-type"] = true
	} else if first.Kind == "lit" {
		if reflect.TypeOf(out[0].V) == reflect.TypeOf(first.V) {
			tags["second-value=same-type"] = true
		} else {
			tags["second-value=other-type"] = true
		}
	}
	return out
}

func c11OnceCaseOf(groups []c11RepGroup, lits []c1xLit, later [][]c1xLit, plain, noformat bool, tags []string) *Case {
	c := c11RepCaseOf(groups, lits, plain, noformat, tags)
	c.Stream = "func-once"
	c.Meta["once"] = later
	c.NonTrivial = true
	for i := range lits {
		c.NonTrivial = c.NonTrivial && len(later[i]) > 0 && c11OnceDiffer(lits[i], later[i][0])
	}
	return c
}

// c11OnceCases: every kind of c11RepKinds as the first occurrence, quick 25 / thorough 1200 cases
// each, plus for every kind one `v == v` and one single plain declaration.
func c11OnceCases(r *rand.Rand, t string) []*Case {
	var out []*Case
	mk := func(lits []c1xLit, groups []c11RepGroup, plain bool, tags map[string]bool) {
		later := make([][]c1xLit, len(lits))
		for i, l := range lits {
			later[i] = c11OnceLater(r, l, tags)
		}
		tags["non-idempotent-callback"] = true
		out = append(out, c11OnceCaseOf(groups, lits, later, plain, r.Intn(2) == 0, sortedKeys(tags)))
	}
	for kind := range c11RepKinds {
		name := "first-kind=" + c11RepKinds[kind].name
		v := c11RepKinds[kind].draw(r)
		mk([]c1xLit{v}, []c11RepGroup{{c11SkDecl, []int{0}}}, true, map[string]bool{name: true})
		mk([]c1xLit{v, v}, []c11RepGroup{{c11SkEq, []int{0, 1}}}, r.Intn(2) == 0, map[string]bool{name: true})
		for i := tier(t, 25, 1200); i > 0; i-- {
			lits := []c1xLit{c11RepKinds[kind].draw(r)}
			for n := r.Intn(4); n > 0; n-- {
				lits = append(lits, c11RepKinds[r.Intn(len(c11RepKinds))].draw(r))
			}
			r.Shuffle(len(lits), func(a, b int) { lits[a], lits[b] = lits[b], lits[a] })
			groups := c11RepPartition(r, lits, r.Intn(3))
			mk(lits, groups, len(groups) == 1 && r.Intn(2) == 0, map[string]bool{name: true})
		}
	}
	return out
}

// c11OnceOracle: see the comment at the top of the file.
func c11OnceOracle(c *Case, got []hist.Obs) string {
	lits := c.Meta["lits"].([]c1xLit)
	groups := c.Meta["rep"].([]c11RepGroup)
	later := c.Meta["once"].([][]c1xLit)
	plain, _ := c.Meta["plain"].(bool)
	noformat, _ := c.Meta["noformat"].(bool)
	src, msg := c1xOutput(got)
	if msg != "" {
		return msg
	}
	if m := c11RepCheck(src, plain, groups, lits); m != "" {
		return m
	}
	seed := int64(len(src))
	for _, l := range lits {
		seed = seed*31 + int64(len(fmt.Sprintf("%#v", l.V)))
	}
	r := rand.New(rand.NewSource(seed))
	mask := r.Uint64() | 1<<uint(r.Intn(len(lits)))
	forms := []struct {
		name     string
		viaGroup bool
		fn       func(i int) bool
	}{
		{"every occurrence through the Func form (package-level functions and *Statement methods)", false, func(int) bool { return true }},
		{"every occurrence through the Func form (*Group methods inside a ...Func callback where the statement has one)", true, func(int) bool { return true }},
		{fmt.Sprintf("occurrences of mask %#x through the Func form", mask&(1<<uint(len(lits))-1)), r.Intn(2) == 0, func(i int) bool { return mask>>uint(i%64)&1 == 1 }},
	}
	for _, fm := range forms {
		calls := make([]int, len(lits))
		value := func(i int) c1xLit { // what call number calls[i] (counted from 1) of generator i returns
			n := calls[i]
			if n == 1 {
				return lits[i]
			}
			if n-2 < len(later[i]) {
				return later[i][n-2]
			}
			return later[i][len(later[i])-1]
		}
		cb := c11RepCallbacks{
			Lit:  func(i int) func() interface{} { return func() interface{} { calls[i]++; return value(i).V } },
			Rune: func(i int) func() rune { return func() rune { calls[i]++; return value(i).V.(rune) } },
			Byte: func(i int) func() byte { return func() byte { calls[i]++; return value(i).V.(byte) } },
		}
		var afterBuild []int
		outs, msg := c11RepBuild(groups, lits, plain, noformat, fm.viaGroup, fm.fn, cb, 2, func() { afterBuild = append([]int{}, calls...) })
		if d := c11OnceJudge(fm.name, lits, later, fm.fn, afterBuild, calls, outs, msg, src); d != "" {
			return d
		}
	}
	return ""
}

// c11OnceJudge decides one direct build: afterBuild / final are the call counts of the generators
// after building (nil: the build itself failed) and after the renders, outs the outputs of the
// renders, buildMsg the panic or error of the build ("" = none), src the render of Lit(first value).
func c11OnceJudge(form string, lits []c1xLit, later [][]c1xLit, used func(i int) bool, afterBuild, final []int, outs []string, buildMsg, src string) string {
	describe := func(i int) string {
		fn := "LitFunc"
		switch lits[i].Kind {
		case "rune":
			fn = "LitRuneFunc"
		case "byte":
			fn = "LitByteFunc"
		}
		s := fmt.Sprintf("the function handed to %s at occurrence %d returns %T %#v on its first call", fn, i, lits[i].V, lits[i].V)
		for k, l := range later[i] {
			s += fmt.Sprintf(", %T %#v on call %d", l.V, l.V, k+2)
		}
		return s
	}
	rendered := ""
	if len(outs) > 0 {
		rendered = fmt.Sprintf("\n rendered         %q\n Lit(first value) %q", outs[0], src)
	}
	counts := afterBuild
	if counts == nil {
		counts = final
	}
	for i := range lits {
		if used(i) && counts[i] != 1 {
			return fmt.Sprintf("%s: %s; it was called %d times while the statement was built, it must be called exactly once%s", form, describe(i), counts[i], rendered)
		}
	}
	if buildMsg != "" {
		return form + ": " + buildMsg
	}
	if len(outs) != 2 {
		return fmt.Sprintf("%s: %d renders instead of 2", form, len(outs))
	}
	if outs[0] != src {
		i := 0
		for i < len(lits)-1 && !used(i) {
			i++
		}
		return fmt.Sprintf("%s: the render is not the render of Lit(first value) (%s ...):%s", form, describe(i), rendered)
	}
	for i := range lits {
		if used(i) && final[i] != 1 {
			return fmt.Sprintf("%s: %s; it was called %d more time(s) by the two renders, it must be called exactly once (when the statement is built)", form, describe(i), final[i]-1)
		}
	}
	if outs[1] != outs[0] {
		return fmt.Sprintf("%s: the second render of the same object differs:\n first  %q\n second %q", form, outs[0], outs[1])
	}
	return ""
}
