package props

import (
	"math/rand"
	"strings"
	"testing"

	"verifharness/hist"
	"verifharness/term"
)

// C02's oracle judges EVERY render of a history.  Hand-made bad outputs: a formatted render that
// writes the raw text of the NoFormat render before it (valid tree: not gofmt; invalid tree:
// does not parse), a NoFormat render that writes the formatted text of the render before it,
// a panic for the comment text "/".  The real outputs are accepted.
func TestC02EveryRenderOfAHistory(t *testing.T) {
	valid := term.S(term.Named("Var"), term.Id("x"), term.Op("="), term.Id("f"), term.G("Call", term.S(term.Lit(1)), term.S(term.Lit(2))))
	mk := func(st *term.Stmt, first bool) *Case {
		return &Case{Meta: map[string]interface{}{"badlit": false}, Hist: hist.History{{Kind: "newfile", F: 0, A: "p"}, {Kind: "fadd", F: 0, Code: st},
			{Kind: "noformat", F: 0, Flag: first}, {Kind: "render", F: 0}, {Kind: "noformat", F: 0, Flag: !first}, {Kind: "render", F: 0}}}
	}
	c := mk(valid, true)
	got := hist.NewWorld().Exec(c.Hist)
	if m := (c02{}).Oracle(c, got); m != "" {
		t.Fatalf("oracle rejects the real raw->formatted history: %s", m)
	}
	if got[0].Out == got[1].Out {
		t.Fatalf("raw and formatted outputs are equal: the test shows nothing")
	}
	bad := []hist.Obs{got[0], got[0]} // the formatted render repeats the raw text
	if m := (c02{}).Oracle(c, bad); !strings.Contains(m, "not gofmt of the raw rendering") {
		t.Errorf("raw text from a formatted render is accepted: %q", m)
	}
	c = mk(valid, false)
	got = hist.NewWorld().Exec(c.Hist)
	if m := (c02{}).Oracle(c, got); m != "" {
		t.Fatalf("oracle rejects the real formatted->raw history: %s", m)
	}
	bad = []hist.Obs{got[0], got[0]} // the NoFormat render repeats the formatted text
	if m := (c02{}).Oracle(c, bad); !strings.Contains(m, "NoFormat render") {
		t.Errorf("formatted text from a NoFormat render is accepted: %q", m)
	}
	invalid := term.S(term.Named("Func"), term.Id("f"), term.G("Params"), term.G("Block", term.S(term.Id("x"), term.Op(":="), term.Op(")"))))
	c = mk(invalid, true)
	got = hist.NewWorld().Exec(c.Hist)
	if got[0].Kind != "write" || got[1].Kind != "fmterr" {
		t.Fatalf("unexpected observations %v", got)
	}
	if m := (c02{}).Oracle(c, got); m != "" {
		t.Fatalf("oracle rejects raw write + format error: %s", m)
	}
	bad = []hist.Obs{got[0], got[0]}
	if m := (c02{}).Oracle(c, bad); !strings.Contains(m, "does not parse") {
		t.Errorf("invalid Go with a nil error is accepted: %q", m)
	}
	bad = []hist.Obs{got[0], {Kind: "panic", Msg: "runtime error: index out of range [1] with length 1"}}
	if m := (c02{}).Oracle(c, bad); !strings.Contains(m, "panicked") {
		t.Errorf("a panic is accepted: %q", m)
	}
}

// The new streams are what they say: stream settings-between-renders toggles NoFormat between
// renders of one File with nothing added in most cases, stream tiny-texts holds the comment "/"
// (and every other one-byte text) at every position, and the oracle accepts all of it on the
// implementation the test is built against.
func TestC02HistoryStreams(t *testing.T) {
	r := rand.New(rand.NewSource(3))
	toggled, unchanged := 0, 0
	for _, c := range c02SettingsStream(r, "quick") {
		got := hist.NewWorld().Exec(c.Hist)
		if m := (c02{}).Oracle(c, got); m != "" {
			t.Errorf("oracle rejects %v: %s\n%s", c.Tags, m, c.Hist.Sexp())
		}
		for _, tg := range c.Tags {
			switch tg {
			case "between=noformat:raw->formatted":
				toggled++
			case "between=body-unchanged":
				unchanged++
			}
		}
	}
	if toggled < 300 || unchanged < 300 {
		t.Errorf("only %d raw->formatted toggles, %d rounds with an unchanged body", toggled, unchanged)
	}
	slash := 0
	npos := len(c02TinyPositions())
	for _, c := range c02TinyStream(r, "quick") {
		if strings.Contains(c.Hist.Sexp(), "(cm x2f)") {
			slash++
		}
	}
	if slash < 7 {
		t.Errorf("the comment text \"/\" occurs in %d cases only", slash)
	}
	if n := len(c02TinyStream(r, "quick")); n < npos*257 {
		t.Errorf("%d tiny-text cases for %d positions", n, npos)
	}
}
