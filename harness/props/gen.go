package props

import (
	"math/rand"
	"reflect"
	"sort"

	"github.com/dave/jennifer/jen"

	"verifharness/term"
)

// API shape, enumerated from the implementation by reflection at run time.
var (
	VariadicGroups []string // methods func(...Code) *Statement that build a Group (all but Add)
	FixedGroups    []string // methods func(Code) *Statement
	NamedTokens    []string // methods func() *Statement that append one fixed token
	ZeroGroups     []string // methods func() *Statement that append a Group without items (Recover)
)

func init() {
	st := reflect.TypeOf(&jen.Statement{})
	codeT := reflect.TypeOf((*jen.Code)(nil)).Elem()
	for i := 0; i < st.NumMethod(); i++ {
		m := st.Method(i)
		t := m.Type // receiver is In(0)
		if t.NumOut() != 1 || t.Out(0) != st {
			continue
		}
		switch {
		case t.NumIn() == 1:
			switch m.Name {
			case "Clone", "Null", "Empty", "Line":
			default:
				probe := &jen.Statement{}
				reflect.ValueOf(probe).MethodByName(m.Name).Call(nil)
				if len(*probe) == 1 && reflect.TypeOf((*probe)[0]).String() == "*jen.Group" {
					ZeroGroups = append(ZeroGroups, m.Name)
				} else {
					NamedTokens = append(NamedTokens, m.Name)
				}
			}
		case t.NumIn() == 2 && t.IsVariadic() && t.In(1).Elem() == codeT:
			if m.Name != "Add" {
				VariadicGroups = append(VariadicGroups, m.Name)
			}
		case t.NumIn() == 2 && !t.IsVariadic() && t.In(1) == codeT:
			FixedGroups = append(FixedGroups, m.Name)
		}
	}
	sort.Strings(VariadicGroups)
	sort.Strings(FixedGroups)
	sort.Strings(NamedTokens)
	sort.Strings(ZeroGroups)
}

// PathPool is built to collide: same last elements, std names, keywords, digits, unicode,
// symbols followed by digits.
var PathPool = []string{
	"fmt", "os", "io", "strings", "math/rand", "crypto/rand", "text/template", "html/template",
	"net/http", "net/http/pprof", "runtime/pprof", "go/scanner", "text/scanner", "unsafe",
	"a.b/rand", "x.y/rand", "a.b/d", "c.b/d", "e.f/d", "a.b/fmt", "x.y/os",
	"a.b/func", "a.b/type", "x.y/int", "x.y/string", "a.b/any", "a.b/err", "x/nil", "x/len", "q/go", "q/new",
	"a/123", "a/9x", "a/1/", "a.b/c-d", "a.b/C.D", "github.com/foo/bar.v2", "gopkg.in/yaml.v3",
	"a/世界", "a/é", "a/KK", "a/İx", "x.y/pkg", "a/-", "a//", "/", "a.b/x1", "a.b/x", "c.d/x", "e.f/x",
	"x.y/d1", "x.y/pkg_d", "a/b/c/d/e/f",
	// last elements that begin with a non-alphanumeric symbol directly followed by a digit: the
	// guessed alias must drop the leading digits AFTER the symbols have been removed ("_3rd" ->
	// "3rd" -> "rd", ".2fa" -> "fa", "-9lives" -> "lives", "é9x" -> "9x" -> "x" which competes
	// with a.b/x and a/9x, "9_" and "__" -> "" -> "pkg")
	"a.b/_3rd", "x/.2fa", "a/-9lives", "a/é9x", "a.b/9_", "x.y/__",
	// keywords as last elements: the two keywords longer than 8 letters and a few others (next
	// to a.b/func, a.b/type and q/go above): the guessed alias is a reserved word and must be
	// numbered (or prefixed) before it can be written
	"a.b/fallthrough", "x/interface", "x.y/continue", "q/select", "q/default", "a/package",
}

// KeywordPaths are the paths of PathPool whose guessed alias is a Go keyword.
var KeywordPaths = []string{"a.b/func", "a.b/type", "q/go", "a.b/fallthrough", "x/interface", "x.y/continue", "q/select", "q/default", "a/package"}

// IsKeywordPath reports whether path is one of KeywordPaths.
func IsKeywordPath(path string) bool {
	for _, p := range KeywordPaths {
		if p == path {
			return true
		}
	}
	return false
}

// NonCanonicalNumbers are number tokens in spellings that gofmt REWRITES (upper-case prefixes
// and exponents, legacy octal imaginary) next to borderline spellings that it must keep
// (digit separators, 0x_ prefix, upper-case hex digits).  They are written through Op / Id
// (raw token text), so the formatted output differs from the raw rendering exactly by the
// number normalisation of go/format.
var NonCanonicalNumbers = []string{
	"0X0F", "0O755", "0B1010_0101", "1E6", "0X1P-2", "0123i", "0x_1F", "1_000",
	"0XABCDEF", "0Xabc", "1E+6", "2.5E-3", "0X1.8P+1", "0B1", "0O17", "0E0", "1_0E1_0", "0X_FFp0", "0b_1", "017", "00", "0_7", "1E6i", "0.E1", ".5E3",
}

// SymbolThenDigit reports whether the last element of path begins with characters that are
// not ASCII letters or digits directly followed by a digit (or consists of such characters
// only after a digit run is dropped): the shapes for which "drop leading digits" and "drop
// symbols" do not commute in the guessed alias.
func SymbolThenDigit(path string) bool {
	for len(path) > 0 && path[len(path)-1] == '/' {
		path = path[:len(path)-1]
	}
	for i := len(path) - 1; i >= 0; i-- {
		if path[i] == '/' {
			path = path[i+1:]
			break
		}
	}
	alnum := func(b byte) bool { return b >= '0' && b <= '9' || b >= 'a' && b <= 'z' || b >= 'A' && b <= 'Z' }
	i := 0
	for i < len(path) && !alnum(path[i]) {
		i++
	}
	return i > 0 && i < len(path) && path[i] >= '0' && path[i] <= '9'
}

var identPool = []string{"a", "b", "x", "y", "foo", "Bar", "T", "err", "i", "_", "ctx", "v1"}
var opPool = []string{"+", "-", "*", "/", "=", ":=", "==", "!=", "<", "<-", "&&", "||", "!", "&", "...", ":", "++", ".", ";", "~", "|", ""}

type Gen struct {
	R        *rand.Rand
	Paths    []string // paths this case draws Quals from
	MaxDepth int
	NilRate  int // 1 in NilRate group items is a nullish item (0 = none)
	NoDict   bool
	NoBad    bool
	Dicts    int
	// RawNumberRate > 0: in SimpleDecl 1 in RawNumberRate call arguments is a number token of
	// NonCanonicalNumbers written through Op or Id, and 1 in (2*RawNumberRate) declarations has
	// such a token as its whole initialiser (`var Ax = 0X0F`).  0 (the default) = never: the
	// other users of SimpleDecl are unchanged.
	RawNumberRate int
	RawNumbers    int // how many such tokens have been drawn so far
	// MoreNullish: half of the nullish items are drawn from a wider set: Dict{}, Dicts whose
	// every pair has a null / nil key or value, the same wrapped by Add, an empty List / Custom
	// without delimiters, an empty Tag - at every place a nullish item can go (group items, also
	// next to other items of Values where a null Dict is skipped like any null item; Dict
	// values; statement chains).  false (the default) = the seven kinds of before: the other
	// users of Gen are unchanged.
	MoreNullish bool
	NullDicts   int // how many null Dicts have been drawn so far
	// TinyRate > 0: 1 in TinyRate of the TEXTS the generator draws (identifier, Op text, comment
	// text, string literal, Tag key and value, Dict key text) is a tiny text (TinyText: the empty
	// string, any one byte, two bytes of TinyAlphabet).  0 (the default) = never, and no extra
	// draw is made: the other users of Gen are unchanged.
	TinyRate int
	Tiny     int // how many tiny texts have been drawn so far
}

// TinyAlphabet: the bytes two-byte tiny texts are made of: comment markers, quotes, escapes,
// blanks and line ends, brackets, separators, a letter, a digit, the blank identifier, NUL,
// DEL, and bytes that are not UTF-8 on their own (a lone continuation byte, the lead byte of
// a two-byte sequence, 0xff).
var TinyAlphabet = []byte("/*\n\r\t \"'`\\%+-.:;,=<>(){}[]a0_#@!&|~^?$\x00\x7f\x80\xc3\xa9\xff")

// TinyTexts1 lists every one-byte string.
func TinyTexts1() []string {
	out := make([]string, 256)
	for i := range out {
		out[i] = string([]byte{byte(i)})
	}
	return out
}

// TinyTexts2 lists every two-byte string over TinyAlphabet.
func TinyTexts2() []string {
	var out []string
	for _, a := range TinyAlphabet {
		for _, b := range TinyAlphabet {
			out = append(out, string([]byte{a, b}))
		}
	}
	return out
}

// TinyText draws a tiny text: "" (1 in 16), one byte, uniformly (9 in 16), or two bytes of
// TinyAlphabet (6 in 16).  Code that looks at the first bytes of a text (prefix tests for
// comment markers, quotes, digits) meets its boundary cases here.
func TinyText(r *rand.Rand) string {
	switch k := r.Intn(16); {
	case k == 0:
		return ""
	case k < 10:
		return string([]byte{byte(r.Intn(256))})
	}
	return string([]byte{TinyAlphabet[r.Intn(len(TinyAlphabet))], TinyAlphabet[r.Intn(len(TinyAlphabet))]})
}

// tiny: (a tiny text, true) once in TinyRate calls; no draw when TinyRate is 0.
func (g *Gen) tiny() (string, bool) {
	if g.TinyRate > 0 && g.R.Intn(g.TinyRate) == 0 {
		g.Tiny++
		return TinyText(g.R), true
	}
	return "", false
}

func pick(r *rand.Rand, l []string) string { return l[r.Intn(len(l))] }

func (g *Gen) Ident() string {
	if s, ok := g.tiny(); ok {
		return s
	}
	return pick(g.R, identPool)
}

func (g *Gen) LitValue() interface{} {
	r := g.R
	switch r.Intn(16) {
	case 0:
		return r.Intn(2) == 0
	case 1:
		if s, ok := g.tiny(); ok {
			return s
		}
		return AdvString(r)
	case 2:
		return r.Intn(2000) - 1000
	case 3:
		return int8(r.Intn(256) - 128)
	case 4:
		return int16(r.Intn(65536) - 32768)
	case 5:
		return int32(r.Uint32())
	case 6:
		return int64(r.Uint64())
	case 7:
		return uint(r.Uint32())
	case 8:
		return uint8(r.Intn(256))
	case 9:
		return uint16(r.Intn(65536))
	case 10:
		return uint64(r.Uint64())
	case 11:
		return uintptr(r.Uint32())
	case 12:
		return float64(r.Intn(100)) / 4
	case 13:
		return float32(r.Intn(100)) / 8
	case 14:
		return complex(float64(r.Intn(10)), float64(r.Intn(10))-5)
	default:
		return complex64(complex(float32(r.Intn(10)), float32(r.Intn(10))))
	}
}

// Token draws one token item.
func (g *Gen) Token() term.Node {
	r := g.R
	switch r.Intn(12) {
	case 0, 1, 2:
		return term.Id(g.Ident())
	case 3, 4:
		if s, ok := g.tiny(); ok {
			return term.Op(s)
		}
		return term.Op(pick(r, opPool))
	case 5:
		return term.Named(pick(r, NamedTokens))
	case 6, 7:
		return term.Lit(g.LitValue())
	case 8:
		if r.Intn(3) == 0 {
			return term.LitRune(rune(r.Intn(0x110000)))
		}
		return term.LitByte(byte(r.Intn(256)))
	case 9:
		if r.Intn(4) == 0 {
			return term.Line()
		}
		return term.Null()
	default:
		if len(g.Paths) > 0 {
			return term.Qual(pick(r, g.Paths), "N"+g.Ident())
		}
		return term.Id(g.Ident())
	}
}

func (g *Gen) nullish() term.Node {
	if g.MoreNullish && g.R.Intn(2) == 0 {
		null := func() term.Node {
			switch g.R.Intn(5) {
			case 0:
				return term.Nil{}
			case 1:
				return term.S()
			case 2:
				return term.S(term.G("List"))
			case 3:
				return term.NilStmt{}
			}
			return term.S(term.Null())
		}
		nullDict := func() *term.Dict {
			g.NullDicts++
			d := &term.Dict{}
			usedNil := false
			for i := g.R.Intn(4); i > 0; i-- {
				k, v := null(), null()
				if _, isNil := k.(term.Nil); isNil && usedNil {
					k = term.S() // a map holds one nil key
				} else if isNil {
					usedNil = true
				}
				if _, isNil := k.(term.NilStmt); isNil {
					k = term.S(term.Null())
				}
				switch g.R.Intn(3) {
				case 0:
					k = term.S(term.Id(g.Ident() + string(rune('0'+i))))
				case 1:
					v = term.S(term.Lit(i))
				}
				d.Pairs = append(d.Pairs, [2]term.Node{k, v})
			}
			return d
		}
		switch g.R.Intn(6) {
		case 0, 1:
			return nullDict()
		case 2:
			return term.S(nullDict())
		case 3:
			return term.S(term.G("List"))
		case 4:
			return term.S(term.Custom(jen.Options{Separator: pick(g.R, []string{"", ",", ";"}), Multi: g.R.Intn(2) == 0}, null()))
		default:
			return term.S(term.Tag{}, term.S())
		}
	}
	switch g.R.Intn(7) {
	case 0:
		return term.Nil{}
	case 1:
		return term.NilStmt{}
	case 2:
		return term.NilGroup{}
	case 3:
		return term.S(term.Null())
	case 4:
		return term.S()
	case 5:
		return term.S(term.G("List", term.S(term.Null()), term.Nil{}))
	default:
		return term.S(term.Tag{})
	}
}

// GroupItem draws an item of a group (a Code value: statement, dict, nil, ...).
func (g *Gen) GroupItem(depth int) term.Node {
	r := g.R
	if g.NilRate > 0 && r.Intn(g.NilRate) == 0 {
		return g.nullish()
	}
	return g.Stmt(depth)
}

func (g *Gen) Dict(depth int) *term.Dict {
	r := g.R
	n := r.Intn(5)
	d := &term.Dict{}
	seen := map[string]bool{}
	for i := 0; i < n; i++ {
		// keys: literals and identifiers with pairwise distinct texts (C16 explores the rest)
		var k term.Node
		tinyKey, isTiny := g.tiny()
		name := tinyKey
		if !isTiny {
			name = g.Ident() + string(rune('0'+i))
		}
		if seen[name] {
			continue
		}
		seen[name] = true
		if isTiny {
			// the whole key text is tiny; always a string literal (quoting is injective, so
			// distinct names give distinct key texts)
			k = term.S(term.Lit(name))
		} else if r.Intn(2) == 0 {
			k = term.S(term.Id(name))
		} else {
			k = term.S(term.Lit(name))
		}
		var v term.Node = g.Stmt(depth + 1)
		if g.NilRate > 0 && r.Intn(g.NilRate) == 0 {
			v = g.nullish()
		}
		d.Pairs = append(d.Pairs, [2]term.Node{k, v})
	}
	return d
}

// Group draws a group with random construct and arity.
func (g *Gen) Group(depth int) *term.Group {
	r := g.R
	switch r.Intn(10) {
	case 0:
		if len(ZeroGroups) > 0 && r.Intn(6) == 0 {
			return term.G(pick(r, ZeroGroups))
		}
		m := pick(r, FixedGroups)
		return term.G(m, g.GroupItem(depth+1))
	case 1:
		o := jen.Options{Open: pick(r, []string{"", "(", "{", "[", "<"}), Close: pick(r, []string{"", ")", "}", "]", ">"}),
			Separator: pick(r, []string{"", ",", ";", "|", " "}), Multi: r.Intn(3) == 0}
		n := r.Intn(4)
		var items []term.Node
		for i := 0; i < n; i++ {
			items = append(items, g.GroupItem(depth+1))
		}
		return term.Custom(o, items...)
	default:
		m := pick(r, VariadicGroups)
		n := r.Intn(5)
		if r.Intn(10) == 0 {
			n = 5 + r.Intn(4)
		}
		if m == "Values" && !g.NoDict && r.Intn(3) == 0 {
			g.Dicts++
			return term.G(m, g.Dict(depth+1))
		}
		var items []term.Node
		for i := 0; i < n; i++ {
			items = append(items, g.GroupItem(depth+1))
		}
		return term.G(m, items...)
	}
}

// Stmt draws a statement of 0..5 items.
func (g *Gen) Stmt(depth int) *term.Stmt {
	r := g.R
	n := 1 + r.Intn(4)
	if r.Intn(15) == 0 {
		n = 0
	}
	st := &term.Stmt{}
	for i := 0; i < n; i++ {
		if depth < g.MaxDepth && r.Intn(3) == 0 {
			st.Items = append(st.Items, g.Group(depth))
			continue
		}
		switch r.Intn(30) {
		case 0:
			if s, ok := g.tiny(); ok {
				st.Items = append(st.Items, term.Comment{Text: s, F: r.Intn(3) == 0})
				break
			}
			st.Items = append(st.Items, term.Comment{Text: pick(r, []string{"c", "two\nlines", "//raw", "/*raw*/", "x }"})})
		case 1:
			if s, ok := g.tiny(); ok {
				kv := [2]string{"k", s}
				if r.Intn(2) == 0 {
					kv = [2]string{s, TinyText(r)}
				}
				st.Items = append(st.Items, term.Tag{KV: [][2]string{kv}})
				break
			}
			st.Items = append(st.Items, term.Tag{KV: [][2]string{{"k", AdvString(r)}}})
		case 2:
			if depth < g.MaxDepth {
				st.Items = append(st.Items, g.Stmt(depth+1)) // Add(stmt)
			}
		case 3:
			if g.NilRate > 0 {
				// any nullish item in a statement chain (also directly before a Block: the
				// look-behind of the case-block rule must cope with typed nil pointers)
				st.Items = append(st.Items, g.nullish())
				if g.R.Intn(3) == 0 && depth < g.MaxDepth {
					st.Items = append(st.Items, term.G("Block", g.GroupItem(depth+1)))
				}
			}
		case 4:
			if !g.NoBad && r.Intn(10) == 0 {
				st.Items = append(st.Items, term.Lit(struct{}{}))
			}
		default:
			st.Items = append(st.Items, g.Token())
		}
	}
	return st
}

// RawNumber draws a number token in a non-canonical (or borderline) spelling, written
// through Op or Id.
func (g *Gen) RawNumber() term.Node {
	g.RawNumbers++
	n := pick(g.R, NonCanonicalNumbers)
	if g.R.Intn(2) == 0 {
		return term.Id(n)
	}
	return term.Op(n)
}

// Valid-ish statement shapes used where the output should usually format.
func (g *Gen) SimpleDecl(i int) *term.Stmt {
	r := g.R
	name := string(rune('A'+i%26)) + g.Ident()
	if g.RawNumberRate > 0 && r.Intn(2*g.RawNumberRate) == 0 {
		// var Ax = 0B1010_0101  (optionally typed / in an expression)
		init := []term.Node{term.Named("Var"), term.Id(name)}
		if r.Intn(4) == 0 {
			init = append(init, term.Id(pick(r, []string{"float64", "complex128"})))
		}
		init = append(init, term.Op("="), g.RawNumber())
		if r.Intn(3) == 0 {
			init = append(init, term.Op("+"), g.RawNumber())
		}
		return term.S(init...)
	}
	var args []term.Node
	for j := 0; j < r.Intn(4); j++ {
		if g.RawNumberRate > 0 && r.Intn(g.RawNumberRate) == 0 {
			args = append(args, term.S(g.RawNumber()))
		} else if len(g.Paths) > 0 && r.Intn(2) == 0 {
			args = append(args, term.S(term.Qual(pick(r, g.Paths), "V")))
		} else {
			args = append(args, term.S(term.Lit(r.Intn(100))))
		}
	}
	call := term.S(term.Id("f"), term.G("Call", args...))
	if len(g.Paths) > 0 && r.Intn(2) == 0 {
		call = term.S(term.Qual(pick(r, g.Paths), "F"), term.G("Call", args...))
	}
	return term.S(term.Named("Var"), term.Id(name), term.Op("="), call)
}
