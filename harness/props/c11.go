package props

import (
	"bytes"
	"fmt"
	"go/ast"
	"go/constant"
	"go/parser"
	"go/token"
	"go/types"
	"math"
	"math/rand"
	"reflect"
	"regexp"
	"strconv"
	"strings"

	"github.com/dave/jennifer/jen"

	"verifharness/hist"
	"verifharness/term"
)

// C11: numeric and boolean literals preserve value and type.
//
// A case renders one or more declarations `var x = <Lit(v)>` (as a plain statement, as a
// NoFormat file, as a formatted file, or - for the dense sweeps - as one file holding many
// `var _ = <Lit(v)>` declarations).  The model predicts the bytes (Compare = CompareAll); the
// oracle type-checks what the implementation wrote with go/types and compares the constant
// go/constant computed with the Go value that was handed to Lit.  Stream "repeat"
// (c11_repeat.go) holds the SAME value several times under one render.
type c11 struct{}

func init() { Register(c11{}) }

func (c11) ID() string { return "C11" }

// ---------------------------------------------------------------------------------------
// Machinery shared by C11 and C12 (prefix c1x): literal slots, case shapes, the executor
// of the ...Func forms.

// c1xLit is one literal of a case: Kind "lit" (jen.Lit), "rune" (jen.LitRune), "byte" (jen.LitByte).
type c1xLit struct {
	Kind string
	V    interface{}
}

func (l c1xLit) tok() term.Tok {
	switch l.Kind {
	case "rune":
		return term.LitRune(l.V.(rune))
	case "byte":
		return term.LitByte(l.V.(byte))
	}
	return term.Lit(l.V)
}

// Shapes.  The comment gives the text the literals are embedded in (@ = one literal).
const (
	c1xVarPlain  = "var-plain"  // Statement.Render of      var x = @
	c1xStmtPlain = "stmt-plain" // Statement.Render of      x := @ ; y
	c1xVarFile   = "var-file"   // File.Render of           package p; var x = @
	c1xFuncFile  = "func-file"  // File.Render of           package p; func f() { x := @ ; y(a, @, b) }
	c1xBatchFile = "batch-file" // File.Render of           package p; var _ = @  (one declaration per literal)
)

// c1xSlots is the number of literals a shape takes (0 = any number >= 1).
func c1xSlots(shape string) int {
	switch shape {
	case c1xFuncFile:
		return 2
	case c1xBatchFile:
		return 0
	}
	return 1
}

func c1xIsFile(shape string) bool {
	return shape == c1xVarFile || shape == c1xFuncFile || shape == c1xBatchFile
}

// c1xTemplate is the token skeleton of a shape for n literals, in Go syntax with `@` for a literal.
func c1xTemplate(shape string, n int) string {
	switch shape {
	case c1xVarPlain:
		return "var x = @;"
	case c1xStmtPlain:
		return "x := @; y;"
	case c1xVarFile:
		return "package p; var x = @;"
	case c1xFuncFile:
		return "package p; func f() { x := @; y(a, @, b); };"
	case c1xBatchFile:
		return "package p;" + strings.Repeat(" var _ = @;", n)
	}
	panic("c1x: bad shape " + shape)
}

func c1xHistory(shape string, lits []c1xLit, noformat bool) hist.History {
	if n := c1xSlots(shape); (n != 0 && n != len(lits)) || len(lits) == 0 {
		panic(fmt.Sprintf("c1x: shape %s with %d literals", shape, len(lits)))
	}
	decl := func(name string, l c1xLit) *term.Stmt {
		return term.S(term.Named("Var"), term.Id(name), term.Op("="), l.tok())
	}
	file := func(stmts ...*term.Stmt) hist.History {
		h := hist.History{{Kind: "newfile", F: 0, A: "p"}, {Kind: "noformat", F: 0, Flag: noformat}}
		for _, s := range stmts {
			h = append(h, hist.Op{Kind: "fadd", F: 0, Code: s})
		}
		return append(h, hist.Op{Kind: "render", F: 0})
	}
	switch shape {
	case c1xVarPlain:
		return hist.History{{Kind: "rplain", Code: decl("x", lits[0])}}
	case c1xStmtPlain:
		return hist.History{{Kind: "rplain", Code: term.S(term.Id("x"), term.Op(":="), lits[0].tok(), term.Op(";"), term.Id("y"))}}
	case c1xVarFile:
		return file(decl("x", lits[0]))
	case c1xFuncFile:
		body := term.S(term.Id("x"), term.Op(":="), lits[0].tok(), term.Op(";"), term.Id("y"),
			term.G("Call", term.S(term.Id("a")), term.S(lits[1].tok()), term.S(term.Id("b"))))
		return file(term.S(term.Named("Func"), term.Id("f"), term.G("Params"), term.G("Block", body)))
	case c1xBatchFile:
		var ss []*term.Stmt
		for _, l := range lits {
			ss = append(ss, decl("_", l))
		}
		return file(ss...)
	}
	panic("c1x: bad shape " + shape)
}

// c1xCase builds a case. Meta: "lits" []c1xLit, "shape" string, "noformat" bool, "func" bool
// (the oracle additionally renders the same shape through LitFunc / LitRuneFunc / LitByteFunc).
func c1xCase(shape string, lits []c1xLit, noformat, funcForm bool, stream string) *Case {
	if !c1xIsFile(shape) {
		noformat = false
	}
	tags := []string{"shape=" + shape, fmt.Sprintf("literals=%d", len(lits))}
	if c1xIsFile(shape) {
		tags = append(tags, fmt.Sprintf("noformat=%v", noformat))
	}
	if funcForm {
		tags = append(tags, "form=Func")
	}
	return &Case{Hist: c1xHistory(shape, lits, noformat), Stream: stream, Tags: tags,
		Meta: map[string]interface{}{"lits": lits, "shape": shape, "noformat": noformat, "func": funcForm}}
}

// c1xOutput is the text the single render of the history wrote.
func c1xOutput(got []hist.Obs) (string, string) {
	if len(got) != 1 || got[0].Kind != "write" || got[0].Failed {
		return "", fmt.Sprintf("render did not succeed: %v", got)
	}
	return got[0].Out, ""
}

// c1xFuncForm runs a history (ops newfile noformat fadd render rplain only) on the
// implementation with every literal built through the ...Func form: the package-level
// function when the literal starts a statement, the *Statement method otherwise, and the
// *Group method inside a ...Func callback for a literal that is an item of a group on its own
// (CallFunc for the arguments of a Call, CustomFunc, and the ...Func variant of every other
// group that has one: ValuesFunc IndexFunc CaseFunc ReturnFunc ListFunc ...; Block and Params
// are built through their variadic forms).  It returns the bytes written and how often the
// callbacks were called.
func c1xFuncForm(h hist.History) (out string, calls int, msg string) {
	defer func() {
		if r := recover(); r != nil {
			msg = fmt.Sprintf("panic in the Func form: %v", r)
		}
	}()
	litFunc := func(s *jen.Statement, g *jen.Group, t term.Tok) *jen.Statement {
		switch t.Kind {
		case "lit":
			f := func() interface{} { calls++; return t.V }
			switch {
			case g != nil:
				return g.LitFunc(f)
			case s == nil:
				return jen.LitFunc(f)
			}
			return s.LitFunc(f)
		case "rune":
			f := func() rune { calls++; return t.V.(rune) }
			switch {
			case g != nil:
				return g.LitRuneFunc(f)
			case s == nil:
				return jen.LitRuneFunc(f)
			}
			return s.LitRuneFunc(f)
		case "byte":
			f := func() byte { calls++; return t.V.(byte) }
			switch {
			case g != nil:
				return g.LitByteFunc(f)
			case s == nil:
				return jen.LitByteFunc(f)
			}
			return s.LitByteFunc(f)
		}
		panic("c1x: not a literal token")
	}
	isLit := func(t term.Tok) bool { return t.Kind == "lit" || t.Kind == "rune" || t.Kind == "byte" }
	codeT := reflect.TypeOf((*jen.Code)(nil)).Elem()
	var stmt func(st *term.Stmt) *jen.Statement
	// code: an item of a group, a key or a value of a Dict
	var code func(n term.Node) jen.Code
	code = func(n term.Node) jen.Code {
		switch x := n.(type) {
		case *term.Stmt:
			return stmt(x)
		case *term.Dict:
			d := jen.Dict{}
			for _, p := range x.Pairs {
				d[code(p[0])] = code(p[1])
			}
			return d
		}
		panic(fmt.Sprintf("c1x: item %T", n))
	}
	// fill adds the items of a group through the *Group handed to a ...Func callback: a literal
	// that is an item on its own through g.LitFunc / g.LitRuneFunc / g.LitByteFunc
	fill := func(g *jen.Group, items []term.Node) {
		for _, a := range items {
			if as, ok := a.(*term.Stmt); ok && len(as.Items) == 1 {
				if t, ok := as.Items[0].(term.Tok); ok && isLit(t) {
					litFunc(nil, g, t)
					continue
				}
			}
			g.Add(code(a))
		}
	}
	stmt = func(st *term.Stmt) *jen.Statement {
		var s *jen.Statement
		need := func() *jen.Statement {
			if s == nil {
				s = &jen.Statement{}
			}
			return s
		}
		for _, it := range st.Items {
			switch x := it.(type) {
			case term.Tok:
				switch {
				case isLit(x):
					s = litFunc(s, nil, x)
				case x.Kind == "id":
					need().Id(x.S)
				case x.Kind == "op":
					need().Op(x.S)
				case x.Kind == "dot":
					need().Dot(x.S)
				case x.Kind == "line":
					need().Line()
				case x.Kind == "null":
					need().Null()
				case x.Kind == "named":
					reflect.ValueOf(need()).MethodByName(x.S).Call(nil)
				default:
					panic("c1x: token kind " + x.Kind)
				}
			case *term.Group:
				switch x.Method {
				case "Call":
					need().CallFunc(func(g *jen.Group) { fill(g, x.Items) })
				case "Params":
					cs := make([]jen.Code, len(x.Items))
					for i, a := range x.Items {
						cs[i] = code(a)
					}
					need().Params(cs...)
				case "Block":
					var cs []jen.Code
					for _, a := range x.Items {
						cs = append(cs, stmt(a.(*term.Stmt)))
					}
					need().Block(cs...)
				case "Qual":
					need().Qual(x.Path, x.Name)
				case "Custom":
					need().CustomFunc(x.Opts, func(g *jen.Group) { fill(g, x.Items) })
				default:
					// any other group: through its ...Func variant when it has one (the items are
					// added through the *Group of the callback), else through the method itself
					if m := reflect.ValueOf(need()).MethodByName(x.Method + "Func"); m.IsValid() && m.Type().NumIn() == 1 &&
						m.Type().In(0) == reflect.TypeOf(func(*jen.Group) {}) {
						m.Call([]reflect.Value{reflect.ValueOf(func(g *jen.Group) { fill(g, x.Items) })})
						break
					}
					m := reflect.ValueOf(need()).MethodByName(x.Method)
					if !m.IsValid() {
						panic("c1x: group " + x.Method)
					}
					in := make([]reflect.Value, len(x.Items))
					for i, a := range x.Items {
						v := reflect.New(codeT).Elem()
						v.Set(reflect.ValueOf(code(a)))
						in[i] = v
					}
					m.Call(in)
				}
			case *term.Stmt:
				need().Add(stmt(x))
			case *term.Dict:
				need().Add(code(x))
			case term.Tag:
				mp := map[string]string{}
				for _, kv := range x.KV {
					mp[kv[0]] = kv[1]
				}
				need().Tag(mp)
			case term.Comment:
				need().Comment(x.Text)
			default:
				panic(fmt.Sprintf("c1x: item %T", it))
			}
		}
		return need()
	}
	var f *jen.File
	buf := &bytes.Buffer{}
	var err error
	for _, op := range h {
		switch op.Kind {
		case "newfile":
			f = jen.NewFile(op.A)
		case "noformat":
			f.NoFormat = op.Flag
		case "fadd":
			f.Add([]jen.Code(*stmt(op.Code.(*term.Stmt)))...)
		case "render":
			err = f.Render(buf)
		case "rplain":
			err = stmt(op.Code.(*term.Stmt)).Render(buf)
		default:
			panic("c1x: op " + op.Kind)
		}
	}
	if err != nil {
		return "", calls, "error in the Func form: " + err.Error()
	}
	return buf.String(), calls, ""
}

// c1xFuncOracle: the ...Func forms render exactly what the value forms rendered (which the
// caller has already judged).  How often a callback is called is not part of the property
// (the builder bodies are tied to the model by translation, DESIGN.md 2.1 Tie A).
func c1xFuncOracle(c *Case, src string) string {
	if c.Meta["func"] != true {
		return ""
	}
	out, calls, msg := c1xFuncForm(c.Hist)
	if msg != "" {
		return msg
	}
	if calls == 0 {
		return "the Func forms never called their callbacks"
	}
	if out != src {
		return fmt.Sprintf("the Func form renders differently:\n value form %q\n func form  %q", src, out)
	}
	return ""
}

// ---------------------------------------------------------------------------------------
// Evaluating rendered declarations with go/types.

// c1xCheckDecls type-checks src (a file if isFile, else a declaration list) which must consist
// of exactly len(vals) declarations `var <name> = <expr>` and nothing else, and decides for
// each <expr> that it is a constant expression of exactly the type and value of vals[i].
func c1xCheckDecls(src string, isFile bool, vals []interface{}) string {
	if !isFile {
		src = "package p\n" + src
	}
	fset := token.NewFileSet()
	f, err := parser.ParseFile(fset, "x.go", src, 0)
	if err != nil {
		return "output does not parse: " + err.Error()
	}
	if f.Name.Name != "p" {
		return "package clause changed: " + f.Name.Name
	}
	if len(f.Decls) != len(vals) {
		return fmt.Sprintf("%d declarations in the output, want %d", len(f.Decls), len(vals))
	}
	exprs := make([]ast.Expr, len(vals))
	for i, d := range f.Decls {
		gd, ok := d.(*ast.GenDecl)
		if !ok || gd.Tok != token.VAR || len(gd.Specs) != 1 {
			return fmt.Sprintf("declaration %d is not a single var declaration", i)
		}
		vs := gd.Specs[0].(*ast.ValueSpec)
		if len(vs.Names) != 1 || len(vs.Values) != 1 || vs.Type != nil {
			return fmt.Sprintf("declaration %d is not of the form `var x = expr`", i)
		}
		exprs[i] = vs.Values[0]
	}
	info := &types.Info{Types: map[ast.Expr]types.TypeAndValue{}}
	conf := types.Config{}
	if _, err := conf.Check("p", fset, []*ast.File{f}, info); err != nil {
		return "output does not type-check: " + err.Error()
	}
	for i, e := range exprs {
		tv, ok := info.Types[e]
		if !ok {
			return fmt.Sprintf("declaration %d: no type recorded", i)
		}
		if m := c1xCheckValue(tv, vals[i]); m != "" {
			return fmt.Sprintf("literal %d (%T %#v) rendered as `%s`: %s", i, vals[i], vals[i], src[fset.Position(e.Pos()).Offset:fset.Position(e.End()).Offset], m)
		}
	}
	return ""
}

// c1xCheckExpr evaluates one expression text in the universe scope (types.Eval); the
// expression's own type must be v's type, or for the default-typed kinds the untyped kind
// whose default is v's type.
func c1xCheckExpr(text string, v interface{}) string {
	tv, err := types.Eval(token.NewFileSet(), nil, token.NoPos, text)
	if err != nil {
		return "expression does not evaluate: " + err.Error()
	}
	if b, ok := tv.Type.(*types.Basic); ok && b.Info()&types.IsUntyped != 0 {
		tv.Type = types.Default(tv.Type)
	}
	return c1xCheckValue(tv, v)
}

var c1xGoType = map[string]*types.Basic{
	"bool": types.Typ[types.Bool], "int": types.Typ[types.Int], "int8": types.Typ[types.Int8],
	"int16": types.Typ[types.Int16], "int32": types.Typ[types.Int32], "int64": types.Typ[types.Int64],
	"uint": types.Typ[types.Uint], "uint8": types.Typ[types.Uint8], "uint16": types.Typ[types.Uint16],
	"uint32": types.Typ[types.Uint32], "uint64": types.Typ[types.Uint64], "uintptr": types.Typ[types.Uintptr],
	"float32": types.Typ[types.Float32], "float64": types.Typ[types.Float64],
	"complex64": types.Typ[types.Complex64], "complex128": types.Typ[types.Complex128],
	"string": types.Typ[types.String], // bystander literals of the repetition stream (c11_repeat.go)
}

func c1xSameFloat(got, want float64) bool {
	if want == 0 {
		return got == 0 // -0 and 0 are the same Go constant
	}
	return math.Float64bits(got) == math.Float64bits(want)
}

// c1xCheckValue: tv is a constant of exactly v's type whose value is exactly v.
func c1xCheckValue(tv types.TypeAndValue, v interface{}) string {
	want := c1xGoType[fmt.Sprintf("%T", v)]
	if want == nil {
		return fmt.Sprintf("harness: unsupported value type %T", v)
	}
	if tv.Value == nil {
		return "not a constant expression"
	}
	if !types.Identical(tv.Type, want) {
		return fmt.Sprintf("type is %s, want %s", tv.Type, want)
	}
	val := tv.Value
	f64 := func(c constant.Value) (float64, bool) {
		c = constant.ToFloat(c)
		if c.Kind() != constant.Float {
			return 0, false
		}
		f, _ := constant.Float64Val(c) // nearest float64: what a variable of that type holds
		return f, true
	}
	f32 := func(c constant.Value) (float64, bool) {
		c = constant.ToFloat(c)
		if c.Kind() != constant.Float {
			return 0, false
		}
		f, _ := constant.Float32Val(c)
		return float64(f), true
	}
	rv := reflect.ValueOf(v)
	switch rv.Kind() {
	case reflect.String:
		if val.Kind() != constant.String || constant.StringVal(val) != rv.String() {
			return fmt.Sprintf("value is %s", val.ExactString())
		}
	case reflect.Bool:
		if val.Kind() != constant.Bool || constant.BoolVal(val) != rv.Bool() {
			return fmt.Sprintf("value is %s", val)
		}
	case reflect.Int, reflect.Int8, reflect.Int16, reflect.Int32, reflect.Int64:
		if val.Kind() != constant.Int || !constant.Compare(val, token.EQL, constant.MakeInt64(rv.Int())) {
			return fmt.Sprintf("value is %s", val.ExactString())
		}
	case reflect.Uint, reflect.Uint8, reflect.Uint16, reflect.Uint32, reflect.Uint64, reflect.Uintptr:
		if val.Kind() != constant.Int || !constant.Compare(val, token.EQL, constant.MakeUint64(rv.Uint())) {
			return fmt.Sprintf("value is %s", val.ExactString())
		}
	case reflect.Float64:
		if f, ok := f64(val); !ok || !c1xSameFloat(f, rv.Float()) {
			return fmt.Sprintf("value is %s (as float64 %v)", val.ExactString(), f)
		}
	case reflect.Float32:
		if f, ok := f32(val); !ok || !c1xSameFloat(f, rv.Float()) {
			return fmt.Sprintf("value is %s (as float32 %v)", val.ExactString(), f)
		}
	case reflect.Complex128:
		re, ok1 := f64(constant.Real(val))
		im, ok2 := f64(constant.Imag(val))
		if !ok1 || !ok2 || !c1xSameFloat(re, real(rv.Complex())) || !c1xSameFloat(im, imag(rv.Complex())) {
			return fmt.Sprintf("value is %s", val.ExactString())
		}
	case reflect.Complex64:
		re, ok1 := f32(constant.Real(val))
		im, ok2 := f32(constant.Imag(val))
		if !ok1 || !ok2 || !c1xSameFloat(re, real(rv.Complex())) || !c1xSameFloat(im, imag(rv.Complex())) {
			return fmt.Sprintf("value is %s", val.ExactString())
		}
	}
	return ""
}

// ---------------------------------------------------------------------------------------
// Values.

type c11IntType struct {
	name   string
	bits   int
	signed bool
}

var c11IntTypes = []c11IntType{
	{"int", 64, true}, {"int8", 8, true}, {"int16", 16, true}, {"int32", 32, true}, {"int64", 64, true},
	{"uint", 64, false}, {"uint8", 8, false}, {"uint16", 16, false}, {"uint32", 32, false}, {"uint64", 64, false}, {"uintptr", 64, false},
}

// c11Int is the value of type t with the (truncated) two's complement bit pattern b.
func c11Int(t c11IntType, b uint64) interface{} {
	switch t.name {
	case "int":
		return int(int64(b))
	case "int8":
		return int8(b)
	case "int16":
		return int16(b)
	case "int32":
		return int32(b)
	case "int64":
		return int64(b)
	case "uint":
		return uint(b)
	case "uint8":
		return uint8(b)
	case "uint16":
		return uint16(b)
	case "uint32":
		return uint32(b)
	case "uint64":
		return b
	case "uintptr":
		return uintptr(b)
	}
	panic("c11: bad int type")
}

// c11Narrow: all values of t that fit in w bits (w = 8 or 16; t has at least w bits),
// every stride-th of them starting at off.
func c11Narrow(t c11IntType, w, stride, off int) []interface{} {
	var out []interface{}
	n := 1 << uint(w)
	for i := off; i < n; i += stride {
		if t.signed {
			out = append(out, c11Int(t, uint64(int64(i-n/2))))
		} else {
			out = append(out, c11Int(t, uint64(i)))
		}
	}
	return out
}

// c11Bounds: 0, +-1, min, max, +-2^k, +-2^k+-1 for every k, inside t's range, without repeats.
func c11Bounds(t c11IntType) []interface{} {
	var out []interface{}
	seen := map[interface{}]bool{}
	add := func(v interface{}) {
		if !seen[v] {
			seen[v] = true
			out = append(out, v)
		}
	}
	if t.signed {
		min := -int64(1) << uint(t.bits-1)
		max := -(min + 1)
		addz := func(z int64) {
			if z >= min && z <= max {
				add(c11Int(t, uint64(z)))
			}
		}
		for _, z := range []int64{0, 1, -1, min, max, min + 1, max - 1} {
			addz(z)
		}
		for k := 0; k < t.bits-1; k++ {
			p := int64(1) << uint(k)
			for _, z := range []int64{p, p + 1, p - 1, -p, -p + 1, -p - 1} {
				addz(z)
			}
		}
	} else {
		max := ^uint64(0) >> uint(64-t.bits)
		for _, n := range []uint64{0, 1, max, max - 1} {
			add(c11Int(t, n))
		}
		for k := 0; k < t.bits; k++ {
			p := uint64(1) << uint(k)
			for _, n := range []uint64{p, p + 1, p - 1} {
				if n <= max {
					add(c11Int(t, n))
				}
			}
		}
	}
	return out
}

// c11Wide: a random value of a type of 32 or 64 bits, with a random magnitude.
func c11Wide(r *rand.Rand) interface{} {
	var t c11IntType
	for {
		t = c11IntTypes[r.Intn(len(c11IntTypes))]
		if t.bits >= 32 {
			break
		}
	}
	b := r.Uint64()
	if r.Intn(3) > 0 {
		b >>= uint(r.Intn(64))
	}
	if t.signed && r.Intn(2) == 0 {
		b = -b
	}
	return c11Int(t, b)
}

func c11Finite(f float64) bool { return !math.IsInf(f, 0) && !math.IsNaN(f) }

// c11Special64: subnormals, extremes, integral values, values at the formatter's
// switch-overs; both signs, negative zero.
func c11Special64() []float64 {
	var p []float64
	for _, s := range []string{"0", "1", "0.5", "0.1", "0.2", "0.3", "0.25", "1.5", "2.5", "3.14159", "100", "99999", "100000", "999999", "999999.9",
		"1000000", "1000001", "1234567", "12345678", "123456789", "1e7", "2097152", "2097151.5", "99999.5", "0.0001", "0.00011", "0.00009999", "0.00001",
		"0.000123", "1e20", "1e21", "1e22", "1e23", "123456789012345678", "12345678901234567890", "123456789012345678901", "1234567890123456789012",
		"4.9e-324", "2.2250738585072014e-308", "2.225073858507201e-308", "1.7976931348623157e308", "3.4028234663852886e38", "1.401298464324817e-45",
		"1.1754943508222875e-38", "0.3333333333333333", "0.6666666666666666", "5e-324", "9007199254740992", "9007199254740993", "1e100", "1e-100"} {
		f, err := strconv.ParseFloat(s, 64)
		if err != nil {
			panic(err)
		}
		p = append(p, f)
	}
	p = append(p, math.MaxFloat64, math.Nextafter(math.MaxFloat64, 0), math.SmallestNonzeroFloat64, 2*math.SmallestNonzeroFloat64,
		3*math.SmallestNonzeroFloat64, math.MaxFloat32, math.SmallestNonzeroFloat32, math.Nextafter(1, 2), math.Nextafter(1, 0))
	for k := 0; k < 64; k++ { // subnormal powers of two and their neighbours, the subnormal/normal border
		p = append(p, math.Float64frombits(uint64(1)<<uint(k)), math.Float64frombits(uint64(1)<<uint(k)-1), math.Float64frombits(uint64(1)<<uint(k)+1))
	}
	p = append(p, math.Float64frombits(0x000fffffffffffff), math.Float64frombits(0x0010000000000000), math.Float64frombits(0x0010000000000001))
	for i := 0; i <= 130; i++ { // small integral values
		p = append(p, float64(i))
	}
	for k := 0; k <= 70; k++ { // 2^k, 2^k+-1
		q := math.Ldexp(1, k)
		p = append(p, q, q+1, q-1)
	}
	for k := 0; k <= 25; k++ { // 10^k, 10^k+-1
		q, _ := strconv.ParseFloat(fmt.Sprintf("1e%d", k), 64)
		p = append(p, q, q+1, q-1)
	}
	var out []float64
	for _, f := range p {
		if c11Finite(f) {
			out = append(out, f, -f)
		}
	}
	return out
}

// c11Decades: every decade 1e-330..1e310 with mantissas 1, 1.5, 9.999999 and both signs,
// parsed with strconv at the given size; values that are not finite at that size are skipped.
func c11Decades(bits int) []float64 {
	var out []float64
	for k := -330; k <= 310; k++ {
		for _, m := range []string{"1", "1.5", "9.999999"} {
			for _, sg := range []string{"", "-"} {
				f, _ := strconv.ParseFloat(fmt.Sprintf("%s%se%d", sg, m, k), bits)
				if c11Finite(f) {
					out = append(out, f)
				}
			}
		}
	}
	return out
}

// c11Random64: a random finite float64: a random bit pattern, a random short decimal (few
// significant digits: the shortest formatting then has few digits too), or a random integral value.
func c11Random64(r *rand.Rand) float64 {
	for {
		var f float64
		switch r.Intn(4) {
		case 0, 1:
			f = math.Float64frombits(r.Uint64())
		case 2:
			nd := 1 + r.Intn(17)
			d := make([]byte, nd)
			for i := range d {
				d[i] = byte('0' + r.Intn(10))
			}
			f, _ = strconv.ParseFloat(fmt.Sprintf("%c.%se%d", '1'+byte(r.Intn(9)), d, r.Intn(641)-330), 64)
		default:
			f = float64(r.Int63() >> uint(r.Intn(63)))
		}
		if r.Intn(2) == 0 {
			f = -f
		}
		if c11Finite(f) {
			return f
		}
	}
}

func c11Random32(r *rand.Rand) float32 {
	for {
		var f float32
		switch r.Intn(4) {
		case 0, 1:
			f = math.Float32frombits(r.Uint32())
		case 2:
			nd := 1 + r.Intn(8)
			d := make([]byte, nd)
			for i := range d {
				d[i] = byte('0' + r.Intn(10))
			}
			g, _ := strconv.ParseFloat(fmt.Sprintf("%c.%se%d", '1'+byte(r.Intn(9)), d, r.Intn(86)-46), 32)
			f = float32(g)
		default:
			f = float32(r.Int31() >> uint(r.Intn(31)))
		}
		if r.Intn(2) == 0 {
			f = -f
		}
		if c11Finite(float64(f)) {
			return f
		}
	}
}

// c11Special32: the float64 specials that are finite as float32 (rounded), plus float32's own extremes.
func c11Special32() []float32 {
	var out []float32
	for _, f := range c11Special64() {
		g := float32(f)
		if c11Finite(float64(g)) {
			out = append(out, g)
		}
	}
	for k := 0; k < 32; k++ {
		for _, b := range []uint32{uint32(1) << uint(k), uint32(1)<<uint(k) - 1, uint32(1)<<uint(k) + 1} {
			g := math.Float32frombits(b)
			if c11Finite(float64(g)) {
				out = append(out, g, -g)
			}
		}
	}
	out = append(out, math.MaxFloat32, -math.MaxFloat32, math.SmallestNonzeroFloat32, -math.SmallestNonzeroFloat32,
		math.Float32frombits(0x007fffff), math.Float32frombits(0x00800000))
	return out
}

// c11FloatGrammar is the formatter grammar the Coq theorem C11_float64_decision quantifies
// over (DESIGN.md section 3): [-]d+[.d+][e(+|-)dd+].
var c11FloatGrammar = regexp.MustCompile(`^-?[0-9]+(\.[0-9]+)?(e[+-][0-9][0-9]+)?$`)
var c11ComplexGrammar = regexp.MustCompile(`^\((-?[0-9]+(?:\.[0-9]+)?(?:e[+-][0-9][0-9]+)?)([+-][0-9]+(?:\.[0-9]+)?(?:e[+-][0-9][0-9]+)?)i\)$`)

func c11FloatTextTags(kind, text string) []string {
	var t []string
	switch {
	case strings.Contains(text, "e-"):
		t = append(t, kind+":exp-neg")
	case strings.Contains(text, "e+"):
		t = append(t, kind+":exp-pos")
	case strings.Contains(text, "."):
		t = append(t, kind+":fixed-frac")
	default:
		t = append(t, kind+":fixed-int") // float64: the branch that appends ".0"
	}
	if strings.Contains(text, "e") && !strings.Contains(text, ".") {
		t = append(t, kind+":exp-no-dot")
	}
	return t
}

// c11ValueTags: feature tags of one value (type, sign, and for floats the form of the
// formatter's text, which is what jennifer's float64 branch looks at).
func c11ValueTags(v interface{}) []string {
	tn := fmt.Sprintf("%T", v)
	t := []string{"type=" + tn}
	rv := reflect.ValueOf(v)
	switch rv.Kind() {
	case reflect.Bool:
	case reflect.Float32, reflect.Float64:
		f := rv.Float()
		t = append(t, c11FloatTextTags("float", fmt.Sprintf("%#v", v))...)
		if f == 0 && math.Signbit(f) {
			t = append(t, "float:negzero")
		}
		if f < 0 {
			t = append(t, "float:neg")
		}
		min := math.Float64frombits(0x0010000000000000)
		if tn == "float32" {
			min = float64(math.Float32frombits(0x00800000))
		}
		if f != 0 && math.Abs(f) < min {
			t = append(t, "float:subnormal")
		}
		if f == math.Trunc(f) {
			t = append(t, "float:integral")
		}
	case reflect.Complex64, reflect.Complex128:
		c := rv.Complex()
		if m := c11ComplexGrammar.FindStringSubmatch(fmt.Sprintf("%#v", v)); m != nil {
			t = append(t, c11FloatTextTags("complex-re", m[1])...)
			t = append(t, c11FloatTextTags("complex-im", m[2][1:])...)
		}
		if (real(c) == 0 && math.Signbit(real(c))) || (imag(c) == 0 && math.Signbit(imag(c))) {
			t = append(t, "complex:negzero")
		}
		if imag(c) < 0 || (imag(c) == 0 && math.Signbit(imag(c))) {
			t = append(t, "complex:imag-neg")
		}
	default: // integers
		var neg, zero bool
		if rv.Kind() >= reflect.Int && rv.Kind() <= reflect.Int64 {
			neg, zero = rv.Int() < 0, rv.Int() == 0
			bits := rv.Type().Bits()
			if rv.Int() == -1<<uint(bits-1) {
				t = append(t, "int:min")
			}
			if rv.Int() == 1<<uint(bits-1)-1 {
				t = append(t, "int:max")
			}
		} else {
			zero = rv.Uint() == 0
			if rv.Uint() == ^uint64(0)>>uint(64-rv.Type().Bits()) {
				t = append(t, "int:max")
			}
		}
		if neg {
			t = append(t, "int:neg")
		}
		if zero {
			t = append(t, "int:zero")
		}
	}
	return t
}

// c11NonZero: v is not the zero value of its type.
func c11NonZero(v interface{}) bool { return !reflect.ValueOf(v).IsZero() }

// c11Case: NonTrivial means that at least one literal of the case is not the zero value of
// its type (the text carries digits that depend on the value); the report counts distinct
// serialised histories among those.
func c11Case(shape string, vals []interface{}, noformat, funcForm bool, stream string) *Case {
	lits := make([]c1xLit, len(vals))
	tagset := map[string]bool{}
	nt := false
	for i, v := range vals {
		lits[i] = c1xLit{Kind: "lit", V: v}
		for _, t := range c11ValueTags(v) {
			tagset[t] = true
		}
		nt = nt || c11NonZero(v)
	}
	c := c1xCase(shape, lits, noformat, funcForm, stream)
	c.Tags = append(c.Tags, sortedKeys(tagset)...)
	c.NonTrivial = nt
	return c
}

type c11Gen struct {
	r   *rand.Rand
	out []*Case
}

// single: one literal per case, in one of the three single-literal shapes; one case in
// eight is additionally rendered through LitFunc by the oracle.
func (g *c11Gen) single(v interface{}, stream string) {
	shape := c1xVarPlain
	nf := false
	switch g.r.Intn(3) {
	case 1:
		shape = c1xVarFile
	case 2:
		shape, nf = c1xVarFile, true
	}
	g.out = append(g.out, c11Case(shape, []interface{}{v}, nf, g.r.Intn(8) == 0, stream))
}

// batch: many literals per file (dense sweeps); one file in eight also through LitFunc.
func (g *c11Gen) batch(vals []interface{}, per int, stream string) {
	for len(vals) > 0 {
		n := per
		if n > len(vals) {
			n = len(vals)
		}
		g.out = append(g.out, c11Case(c1xBatchFile, vals[:n:n], g.r.Intn(2) == 0, g.r.Intn(8) == 0, stream))
		vals = vals[n:]
	}
}

func (c11) Generate(r *rand.Rand, t string) []*Case {
	g := &c11Gen{r: r}
	thorough := t == "thorough"
	per := 16
	if thorough {
		per = 256
	}
	// bool: both values, every shape
	for _, b := range []bool{false, true} {
		for i := 0; i < 6; i++ {
			g.single(b, "bool")
		}
	}
	g.batch([]interface{}{true, false, true}, per, "bool")
	// integers: all 8-bit values of every type; 16-bit values of the types that have them
	// (quick: every 16th, starting at a random offset; thorough: all)
	stride := tier(t, 16, 1)
	for _, it := range c11IntTypes {
		if thorough {
			g.batch(c11Narrow(it, 8, 1, 0), per, "int-8bit")
		} else {
			for _, v := range c11Narrow(it, 8, 1, 0) {
				g.single(v, "int-8bit")
			}
		}
		if it.bits >= 16 {
			g.batch(c11Narrow(it, 16, stride, r.Intn(stride)), per, "int-16bit")
		}
		for _, v := range c11Bounds(it) {
			g.single(v, "int-boundary")
		}
	}
	nwide := tier(t, 5000, 1000000)
	if thorough {
		var vs []interface{}
		for i := 0; i < nwide; i++ {
			vs = append(vs, c11Wide(r))
		}
		g.batch(vs, per, "int-wide")
		nwide = 20000
	}
	for i := 0; i < nwide; i++ {
		g.single(c11Wide(r), "int-wide")
	}
	// floats
	sp64, sp32 := c11Special64(), c11Special32()
	for _, f := range sp64 {
		g.single(f, "float-special")
	}
	for _, f := range sp32 {
		g.single(f, "float-special")
	}
	for _, f := range c11Decades(64) {
		g.single(f, "float-decade")
	}
	for _, f := range c11Decades(32) {
		g.single(float32(f), "float-decade")
	}
	nrand := tier(t, 4000, 30000)
	for i := 0; i < nrand; i++ {
		g.single(c11Random64(r), "float-random")
		if i%2 == 0 {
			g.single(c11Random32(r), "float-random")
		}
	}
	// complex: pairs of such floats
	part64 := func() float64 {
		if r.Intn(2) == 0 {
			return sp64[r.Intn(len(sp64))]
		}
		return c11Random64(r)
	}
	part32 := func() float32 {
		if r.Intn(2) == 0 {
			return sp32[r.Intn(len(sp32))]
		}
		return c11Random32(r)
	}
	negz := math.Copysign(0, -1)
	for _, c := range []complex128{0, 1, 1i, complex(negz, negz), complex(0, negz), complex(negz, 0), complex(1, -1), complex(-1.5, 1e21), complex(1e-7, -1e6),
		complex(math.MaxFloat64, -math.MaxFloat64), complex(math.SmallestNonzeroFloat64, math.SmallestNonzeroFloat64), complex(100, 1000000)} {
		g.single(c, "complex")
		g.single(complex64(c), "complex") // the extremes overflow to Inf as complex64: skipped below
	}
	ncomplex := tier(t, 1500, 20000)
	for i := 0; i < ncomplex; i++ {
		g.single(complex(part64(), part64()), "complex")
		g.single(complex(part32(), part32()), "complex")
	}
	if thorough { // 1M more float / complex values in batches
		var vs []interface{}
		for i := 0; i < 1000000; i++ {
			switch i % 10 {
			case 0, 1, 2, 3, 4:
				vs = append(vs, c11Random64(r))
			case 5, 6, 7:
				vs = append(vs, c11Random32(r))
			case 8:
				vs = append(vs, complex(part64(), part64()))
			default:
				vs = append(vs, complex(part32(), part32()))
			}
		}
		g.batch(vs, per, "float-batch")
	}
	// repetition of one value under one render (c11_repeat.go); drawn last, so that the draws
	// of the older streams are unchanged
	g.out = append(g.out, c11RepCases(r, t)...)
	g.out = append(g.out, c11CtxCases(r, t)...) // c11_ctx.go (round 7): type-name-context, int-digits
	// the property speaks of finite values only: drop cases holding a non-finite one
	// (complex64 conversions of float64 extremes)
	var out []*Case
	for _, c := range g.out {
		ok := true
		for _, l := range c.Meta["lits"].([]c1xLit) {
			switch x := l.V.(type) {
			case complex64:
				ok = ok && c11Finite(float64(real(x))) && c11Finite(float64(imag(x)))
			case complex128:
				ok = ok && c11Finite(real(x)) && c11Finite(imag(x))
			}
		}
		if ok {
			out = append(out, c)
		}
	}
	return out
}

func (c11) Regressions() []*Case {
	mk := func(name string, v interface{}) *Case {
		c := c11Case(c1xVarPlain, []interface{}{v}, false, true, "regression")
		c.Name = name
		return c
	}
	return []*Case{
		mk("float64-1e-07-stays-bare", 1e-7),    // the mutant of the property record renders 1e-07.0
		mk("float64-1e+06-is-float", 1000000.0), // exponent form, no dot: must not get ".0" and must stay a float
		mk("float64-100-gets-dot-zero", 100.0),  // jennifer issue 39
		mk("float64-negative-zero", math.Copysign(0, -1)),
		mk("int64-min", int64(math.MinInt64)),
		mk("uint64-max", uint64(math.MaxUint64)),
		mk("complex64-wrapped", complex64(complex(1, -2))),
	}
}

func (c11) Compare(c *Case, exp, got []hist.Obs) string { return CompareAll(exp, got) }

func (c11) Oracle(c *Case, got []hist.Obs) string {
	lits := c.Meta["lits"].([]c1xLit)
	if _, rep := c.Meta["rep"]; rep {
		return c11RepOracle(c, got)
	}
	if _, ctx := c.Meta["ctx"]; ctx {
		return c11CtxOracle(c, got) // c11_ctx.go
	}
	vals := make([]interface{}, len(lits))
	for i, l := range lits {
		vals[i] = l.V
		// section 3 of DESIGN.md: the text fmt produces lies in the grammar the theorem covers
		switch l.V.(type) {
		case float32, float64:
			if s := fmt.Sprintf("%#v", l.V); !c11FloatGrammar.MatchString(s) {
				return fmt.Sprintf("assumption: fmt prints %T as %q, outside the formatter grammar", l.V, s)
			}
		case complex64, complex128:
			if s := fmt.Sprintf("%#v", l.V); !c11ComplexGrammar.MatchString(s) {
				return fmt.Sprintf("assumption: fmt prints %T as %q, outside the formatter grammar", l.V, s)
			}
		}
	}
	src, msg := c1xOutput(got)
	if msg != "" {
		return msg
	}
	if m := c1xCheckDecls(src, c1xIsFile(c.Meta["shape"].(string)), vals); m != "" {
		return m
	}
	return c1xFuncOracle(c, src)
}

// Shrink: every literal of a multi-literal case on its own.
func (c11) Shrink(c *Case) []*Case {
	if _, rep := c.Meta["rep"]; rep {
		return c11RepShrink(c)
	}
	lits := c.Meta["lits"].([]c1xLit)
	if len(lits) < 2 {
		return nil
	}
	var out []*Case
	for _, l := range lits {
		out = append(out, c11Case(c1xVarFile, []interface{}{l.V}, c.Meta["noformat"].(bool), c.Meta["func"].(bool), "shrunk"))
	}
	return out
}
