package props

import (
	"math/rand"
	"strings"
	"testing"

	"verifharness/hist"
)

// Round 7 of C19: preamble blocks with white space in front.

func TestC19OracleLeadingSpaceBlockDetached(t *testing.T) {
	for _, pre := range [][]string{{"\n// #include <stdio.h>\n"}, {"  // #cgo LDFLAGS: -lm\n", "#include <math.h>"}, {"#include <a.h>", "\t// #cgo LDFLAGS: -lm\n\n"}} {
		for _, nf := range []bool{false, true} {
			c := c19Make(c19Cfg{Stream: "lead-space", Pre: pre, Use: "qual", Others: "one", Hint: "none", NoFormat: nf})
			got := hist.NewWorld().Exec(c.Hist)
			if v := (c19{}).Oracle(c, got); v != "" {
				t.Fatalf("unchanged tree: %s\n%s", v, c.Hist.Sexp())
			}
			o, _ := lastWrite(got)
			// what a writer produces that takes the text for a raw comment and keeps its newline:
			// the block written as it is, an empty line below it
			var raw []string
			for _, p := range pre {
				if strings.Contains(p, "//") {
					raw = append(raw, strings.TrimLeft(strings.TrimRight(p, "\n \t"), "\n \t")+"\n")
				} else {
					raw = append(raw, "// "+p)
				}
			}
			i := strings.Index(o.Out, "import \"C\"")
			j := strings.LastIndex(o.Out[:i], "\"fmt\"\n") + len("\"fmt\"\n")
			bad := o.Out[:j] + "\n" + strings.Join(raw, "\n") + "\n" + o.Out[i:]
			if v := (c19{}).Oracle(c, []hist.Obs{{Kind: "write", Out: bad}, {Kind: "imports"}}); v == "" {
				t.Errorf("%q noformat=%v: detached block accepted\n%s", pre, nf, bad)
			}
		}
	}
}

func TestC19OracleLeadingSpaceEitherReading(t *testing.T) {
	// the block taken for a raw comment but kept adjacent: every line is there - accepted; a line lost: rejected
	pre := []string{"\n// #cgo LDFLAGS: -lm", "#include <math.h>"}
	good := "package p\n\n// #cgo LDFLAGS: -lm\n// #include <math.h>\nimport \"C\"\n\nvar _ = C.verif_cref\n"
	if v := C19Check(true, false, pre, nil, good); v != "" {
		t.Errorf("adjacent raw reading rejected: %s", v)
	}
	if v := C19Check(true, false, pre, nil, strings.Replace(good, "// #cgo LDFLAGS: -lm\n", "", 1)); v == "" {
		t.Errorf("lost block accepted")
	}
	if v := C19Check(true, false, pre, nil, strings.Replace(good, "// #cgo LDFLAGS: -lm\n", "// #cgo LDFLAGS: -lm\n\n", 1)); v == "" {
		t.Errorf("detached block accepted")
	}
}

func TestC19LeadStream(t *testing.T) {
	tags := map[string]int{}
	for _, c := range c19LeadStream(rand.New(rand.NewSource(5)), "quick") {
		for _, tg := range c.Tags {
			tags[tg]++
		}
	}
	for _, l := range c19Leads {
		if tags["lead="+l.name] < 50 {
			t.Errorf("lead=%s: %d cases", l.name, tags["lead="+l.name])
		}
	}
	for _, want := range []string{"lead+looks-raw+trailing-newline", "lead-core=looks-raw-line", "lead-core=looks-raw-block", "lead-core=plain-multi-line", "lead-trail=none", "lead-trail=newline", "lead-trail=two-newlines",
		"lead-place=alone", "lead-place=first", "lead-place=last", "lead-place=between", "lead-place=twice", "noformat"} {
		if tags[want] < 50 {
			t.Errorf("tag %s: %d cases", want, tags[want])
		}
	}
}
