package props

import (
	"math"
	"math/rand"
	"testing"

	"verifharness/hist"
)

func c1xFakeWrite(out string) []hist.Obs { return []hist.Obs{{Kind: "write", Out: out, Writes: 1}} }

// The oracle accepts what the implementation renders for a generated run (every stream).
func TestC11OracleAcceptsImplementation(t *testing.T) {
	p := c11{}
	cases := append(p.Regressions(), p.Generate(rand.New(rand.NewSource(3)), "quick")...)
	streams := map[string]int{}
	for i, c := range cases {
		if i%7 != 0 && c.Name == "" {
			continue
		}
		streams[c.Stream]++
		got := hist.NewWorld().Exec(c.Hist)
		if m := p.Oracle(c, got); m != "" {
			t.Fatalf("case %d (%s) %s: %s", i, c.Stream, c.Hist.Sexp(), m)
		}
	}
	for _, s := range []string{"bool", "int-8bit", "int-16bit", "int-boundary", "int-wide", "float-special", "float-decade", "float-random", "complex", "regression"} {
		if streams[s] == 0 {
			t.Errorf("stream %s not generated", s)
		}
	}
}

func TestC11OracleVerdicts(t *testing.T) {
	negz := math.Copysign(0, -1)
	tab := []struct {
		v    interface{}
		out  string
		good bool
	}{
		// float64: must be a float literal of exactly that value
		{1e-7, "var x = 1e-07", true},
		{1e-7, "var x = 1e-07.0", false}, // the mutant of the property record
		{1e-7, "var x = 1e-7", true},
		{1e6, "var x = 1e+06", true},
		{1e6, "var x = 1000000.0", true},
		{1e6, "var x = 1000000", false}, // an int
		{100.0, "var x = 100.0", true},
		{100.0, "var x = 100", false},
		{100.0, "var x = float32(100)", false},
		{0.1, "var x = 0.1", true},
		{0.1, "var x = 0.10000000000000002", false}, // next float64
		{0.1, "var x = 0.1000000000000000055511151231257827", true},
		{1.5, "var x = -1.5", false},
		{1e21, "var x = 1e+21", true},
		{1e21, "var x = 1e+20", false},
		{math.MaxFloat64, "var x = 1.7976931348623157e+308", true},
		{math.MaxFloat64, "var x = 1.7976931348623157e+309", false}, // overflows
		{math.SmallestNonzeroFloat64, "var x = 5e-324", true},
		{math.SmallestNonzeroFloat64, "var x = 0.0", false},
		{negz, "var x = -0.0", true}, // -0 and 0 are the same Go constant
		{negz, "var x = 0.0", true},
		{negz, "var x = -0", false},       // an int
		{2.0, "var x float64 = 2", false}, // not the shape `var x = expr`
		// float32
		{float32(0.1), "var x = float32(0.1)", true},
		{float32(0.1), "var x = 0.1", false},
		{float32(0.1), "var x = float32(0.10000001)", false}, // next float32
		{float32(0.1), "var x = float64(0.1)", false},
		{float32(negz), "var x = float32(-0)", true},
		{float32(16777216), "var x = float32(1.6777216e+07)", true},
		{float32(16777216), "var x = float32(1.6777218e+07)", false},
		// integers
		{int(-3), "var x = -3", true},
		{int(-3), "var x = 3", false},
		{int(7), "var x = 7.0", false},
		{int(7), "var x = int64(7)", false},
		{int(math.MinInt64), "var x = -9223372036854775808", true},
		{int(math.MinInt64), "var x = -9223372036854775807", false},
		{int8(-5), "var x = int8(-5)", true},
		{int8(-5), "var x = -5", false},
		{int8(-5), "var x = int8(5)", false},
		{int8(-5), "var x = int16(-5)", false},
		{int8(-128), "var x = int8(-128)", true},
		{int8(-128), "var x = int8(128)", false}, // does not type-check
		{int64(math.MinInt64), "var x = int64(-9223372036854775808)", true},
		{uint(255), "var x = uint(0xff)", true},
		{uint(255), "var x = uint(0xfe)", false},
		{uint(255), "var x = 0xff", false},
		{uint8(7), "var x = uint8(0x7)", true},
		{uint8(7), "var x = byte(0x7)", true}, // byte is uint8
		{uint8(7), "var x = uint8(0x07) + 1", false},
		{uint64(math.MaxUint64), "var x = uint64(0xffffffffffffffff)", true},
		{uint64(math.MaxUint64), "var x = uint64(0xfffffffffffffffe)", false},
		{uint64(math.MaxUint64), "var x = 0xffffffffffffffff", false},
		{uintptr(1), "var x = uintptr(0x1)", true},
		{uintptr(1), "var x = uint(0x1)", false},
		{uint16(65535), "var x = uint16(0xffff)", true},
		{uint16(65535), "var x = uint16(0x10000)", false},
		// bool
		{true, "var x = true", true},
		{true, "var x = false", false},
		{true, `var x = "true"`, false},
		{false, "var x = 0", false},
		{true, "var x = t()\nfunc t() bool { return true }", false},
		// complex
		{complex(1, 2), "var x = (1+2i)", true},
		{complex(1, 2), "var x = (2+1i)", false},
		{complex(1, 2), "var x = (1-2i)", false},
		{complex(1, 2), "var x = (1+2)", false},
		{complex(1, 2), "var x = complex64(1+2i)", false},
		{complex(1, negz), "var x = (1-0i)", true},
		{complex(1e-7, -1e6), "var x = (1e-07-1e+06i)", true},
		{complex64(complex(1, 2)), "var x = complex64(1+2i)", true},
		{complex64(complex(1, 2)), "var x = (1+2i)", false},
		{complex64(complex(0.1, 0)), "var x = complex64(0.1+0i)", true},
		{complex64(complex(0.1, 0)), "var x = complex64(0.10000001+0i)", false},
		// nothing else may appear
		{int(1), "var x = 1\nvar y = 2", false},
		{int(1), "var x, y = 1, 1", false},
		{int(1), "var x = 1 //", true}, // a trailing comment is not a token
		{int(1), "", false},
	}
	p := c11{}
	for _, e := range tab {
		c := c11Case(c1xVarPlain, []interface{}{e.v}, false, false, "test")
		m := p.Oracle(c, c1xFakeWrite(e.out))
		if (m == "") != e.good {
			t.Errorf("value %T %#v, output %q: accepted=%v, want %v (%s)", e.v, e.v, e.out, m == "", e.good, m)
		}
	}
	// file shapes
	c := c11Case(c1xBatchFile, []interface{}{1.0, int8(2), true}, true, false, "test")
	if m := p.Oracle(c, c1xFakeWrite("package p\n\nvar _ = 1.0\nvar _ = int8(2)\nvar _ = true\n")); m != "" {
		t.Errorf("good batch rejected: %s", m)
	}
	if m := p.Oracle(c, c1xFakeWrite("package p\n\nvar _ = 1.0\nvar _ = int8(2)\n")); m == "" {
		t.Errorf("batch with a missing declaration accepted")
	}
	if m := p.Oracle(c, c1xFakeWrite("package p\n\nvar _ = 1\nvar _ = int8(2)\nvar _ = true\n")); m == "" {
		t.Errorf("batch with an int for a float64 accepted")
	}
	if m := p.Oracle(c, c1xFakeWrite("package q\n\nvar _ = 1.0\nvar _ = int8(2)\nvar _ = true\n")); m == "" {
		t.Errorf("changed package clause accepted")
	}
	// observations other than one successful write
	one := c11Case(c1xVarPlain, []interface{}{1}, false, false, "test")
	for _, got := range [][]hist.Obs{nil, {{Kind: "panic", Msg: "x"}}, {{Kind: "fmterr", Out: "var x = 1"}}, {{Kind: "write", Failed: true}}} {
		if m := p.Oracle(one, got); m == "" {
			t.Errorf("observations %v accepted", got)
		}
	}
	// expression-level check used for byte literals
	if m := c1xCheckExpr("1e+06", 1e6); m != "" {
		t.Errorf("1e+06: %s", m)
	}
	if m := c1xCheckExpr("1000000", 1e6); m == "" {
		t.Errorf("1000000 accepted as float64")
	}
}

// The Func forms are really exercised: same bytes as the value forms, one callback per literal.
func TestC1xFuncForm(t *testing.T) {
	lits := []c1xLit{{"lit", "a\"b"}, {"rune", rune(0x2028)}, {"byte", byte(200)}, {"lit", 1.5}, {"lit", int8(3)}}
	for _, sh := range []string{c1xVarPlain, c1xStmtPlain, c1xVarFile, c1xFuncFile, c1xBatchFile} {
		for _, nf := range []bool{false, true} {
			ls := lits
			if n := c1xSlots(sh); n > 0 {
				ls = lits[:n]
			}
			c := c1xCase(sh, ls, nf, true, "test")
			got := hist.NewWorld().Exec(c.Hist)
			src, msg := c1xOutput(got)
			if msg != "" {
				t.Fatal(msg)
			}
			out, calls, msg := c1xFuncForm(c.Hist)
			if msg != "" || out != src || calls != len(ls) {
				t.Errorf("shape %s: func form %q (%d calls, %s), value form %q", sh, out, calls, msg, src)
			}
			if m := c1xFuncOracle(c, src+" "); m == "" {
				t.Errorf("shape %s: a difference between the forms is not reported", sh)
			}
		}
	}
}

func TestC11Values(t *testing.T) {
	for _, it := range c11IntTypes {
		n8 := len(c11Narrow(it, 8, 1, 0))
		if n8 != 256 {
			t.Errorf("%s: %d 8-bit values", it.name, n8)
		}
		if it.bits >= 16 {
			if n := len(c11Narrow(it, 16, 1, 0)); n != 65536 {
				t.Errorf("%s: %d 16-bit values", it.name, n)
			}
			if n := len(c11Narrow(it, 16, 16, 5)); n != 4096 {
				t.Errorf("%s: %d strided 16-bit values", it.name, n)
			}
		}
		if len(c11Bounds(it)) < 3*it.bits-8 {
			t.Errorf("%s: only %d boundary values", it.name, len(c11Bounds(it)))
		}
	}
	if v := c11Narrow(c11IntTypes[1], 8, 1, 0); v[0] != int8(-128) || v[255] != int8(127) {
		t.Errorf("int8 sweep runs from %v to %v", v[0], v[255])
	}
	if n := len(c11Decades(64)); n < 3*2*630 {
		t.Errorf("only %d float64 decade values", n)
	}
	for _, f := range c11Special64() {
		if !c11Finite(f) {
			t.Errorf("non-finite special %v", f)
		}
	}
}

// Stream "repeat": the oracle decides every occurrence of a repeated value.
func TestC11RepeatOracleVerdicts(t *testing.T) {
	p := c11{}
	two := []c1xLit{c11L(2.0), c11L(2.0)}
	decls := []c11RepGroup{{c11SkDecl, []int{0}}, {c11SkDecl, []int{1}}}
	tab := []struct {
		groups []c11RepGroup
		lits   []c1xLit
		plain  bool
		out    string
		good   bool
	}{
		{decls, two, false, "package p\n\nvar _ = 2.0\nvar _ = 2.0\n", true},
		{decls, two, false, "package p\n\nvar _ = 2.0\nvar _ = 2\n", false}, // the second occurrence lost its type
		{decls, two, false, "package p\n\nvar _ = 2\nvar _ = 2.0\n", false},
		{decls, two, false, "package p\n\nvar _ = 2.0\n", false},
		{decls, two, false, "package p\n\nvar _, _ = 2.0, 2.0\n", false}, // not the planned statements
		{[]c11RepGroup{{c11SkList, []int{0, 1}}}, two, true, "var _, _ = 2.0, 2.0", true},
		{[]c11RepGroup{{c11SkList, []int{0, 1}}}, two, true, "var _, _ = 2.0, 2", false},
		{[]c11RepGroup{{c11SkList, []int{0, 1}}}, two, true, "var _, _ = 2.0, float32(2)", false},
		{[]c11RepGroup{{c11SkValues, []int{0, 1}}}, two, true, "var _ = []interface{}{2.0, 2.0}", true},
		{[]c11RepGroup{{c11SkValues, []int{0, 1}}}, two, true, "var _ = []interface{}{2.0, 2}", false},
		{[]c11RepGroup{{c11SkValues, []int{0, 1}}}, two, true, "var _ = []interface{}{2.0}", false},
		{[]c11RepGroup{{c11SkValues, []int{0, 1}}}, two, true, "var _ = []float64{2.0, 2}", false},
		{[]c11RepGroup{{c11SkAppend, []int{0, 1}}}, two, true, "var _ = append([]interface{}{}, 2.0, 2.0)", true},
		{[]c11RepGroup{{c11SkAppend, []int{0, 1}}}, two, true, "var _ = append([]interface{}{}, 2.0, 2)", false},
		{[]c11RepGroup{{c11SkAppend, []int{0, 1}}}, two, true, "var _ = append([]interface{}{2.0}, 2.0)", false},
		// inside a comparison go/types gives both operands one type: each operand is judged on its own text
		{[]c11RepGroup{{c11SkEq, []int{0, 1}}}, two, true, "var _ = 2.0 == 2.0", true},
		{[]c11RepGroup{{c11SkEq, []int{0, 1}}}, two, true, "var _ = 2.0 == 2", false},
		{[]c11RepGroup{{c11SkEq, []int{0, 1}}}, two, true, "var _ = 2.0 != 2.0", false},
		// twins: every occurrence keeps ITS type
		{[]c11RepGroup{{c11SkList, []int{0, 1, 2, 3}}}, []c1xLit{c11L(int8(1)), c11L(int16(1)), c11L(int8(1)), c11L(int16(1))}, true,
			"var _, _, _, _ = int8(1), int16(1), int8(1), int16(1)", true},
		{[]c11RepGroup{{c11SkList, []int{0, 1, 2, 3}}}, []c1xLit{c11L(int8(1)), c11L(int16(1)), c11L(int8(1)), c11L(int16(1))}, true,
			"var _, _, _, _ = int8(1), int16(1), int8(1), int8(1)", false},
		{[]c11RepGroup{{c11SkValues, []int{0, 1, 2}}}, []c1xLit{c11L(1.0), c11L(float32(1)), c11L(1.0)}, true,
			"var _ = []interface{}{1.0, float32(1), 1.0}", true},
		{[]c11RepGroup{{c11SkValues, []int{0, 1, 2}}}, []c1xLit{c11L(1.0), c11L(float32(1)), c11L(1.0)}, true,
			"var _ = []interface{}{1.0, 1.0, 1.0}", false},
		// bystanders
		{[]c11RepGroup{{c11SkList, []int{0, 1, 2, 3}}}, []c1xLit{c11L("1"), {Kind: "rune", V: 'a'}, {Kind: "byte", V: byte(1)}, c11L("1")}, true,
			"var _, _, _, _ = \"1\", 'a', byte(0x1), \"1\"", true},
		{[]c11RepGroup{{c11SkList, []int{0, 1, 2, 3}}}, []c1xLit{c11L("1"), {Kind: "rune", V: 'a'}, {Kind: "byte", V: byte(1)}, c11L("1")}, true,
			"var _, _, _, _ = \"1\", 'a', byte(0x1), 1", false},
		{[]c11RepGroup{{c11SkList, []int{0, 1}}}, []c1xLit{c11L(true), c11L(true)}, true, "var _, _ = true, \"true\"", false},
	}
	for i, e := range tab {
		c := c11RepCaseOf(e.groups, e.lits, e.plain, true, nil)
		m := c11RepCheck(e.out, e.plain, e.groups, e.lits)
		if (m == "") != e.good {
			t.Errorf("row %d, output %q: accepted=%v, want %v (%s)", i, e.out, m == "", e.good, m)
		}
		// through the property's Oracle a rejected output stays rejected (an accepted one is then
		// compared with the direct builds, which render the real thing)
		if !e.good && p.Oracle(c, c1xFakeWrite(e.out)) == "" {
			t.Errorf("row %d: the Oracle accepts %q", i, e.out)
		}
	}
}

// The repetition cases of a generated run: accepted on the implementation; the direct build
// with LitFunc gives the same bytes and calls one callback per Func occurrence; a renderer that
// forgets the type of a repeated whole float64 is caught.
func TestC11RepeatStream(t *testing.T) {
	p := c11{}
	cases := c11RepOnlyCases(rand.New(rand.NewSource(5)), "quick")
	if len(cases) < 800 {
		t.Fatalf("only %d cases", len(cases))
	}
	tags := map[string]int{}
	caught := 0
	for i, c := range cases {
		for _, tg := range c.Tags {
			tags[tg]++
		}
		if !c.NonTrivial {
			t.Fatalf("case %d holds no repeated value: %s", i, c.Hist.Sexp())
		}
		got := hist.NewWorld().Exec(c.Hist)
		if m := p.Oracle(c, got); m != "" {
			t.Fatalf("case %d %s: %s", i, c.Hist.Sexp(), m)
		}
		lits := c.Meta["lits"].([]c1xLit)
		groups := c.Meta["rep"].([]c11RepGroup)
		plain, nf := c.Meta["plain"].(bool), c.Meta["noformat"].(bool)
		out, calls, msg := c11RepDirect(groups, lits, plain, nf, i%2 == 0, func(int) bool { return true })
		if msg != "" || calls != len(lits) || out != got[0].Out {
			t.Fatalf("case %d: direct build %q (%d calls, %s), history %q", i, out, calls, msg, got[0].Out)
		}
		// a renderer with a per-render memo that drops ".0" from the second occurrence on
		seen := map[float64]bool{}
		bad := false
		for _, l := range lits {
			f, ok := l.V.(float64)
			if ok && l.Kind == "lit" && seen[f] && f == float64(int64(f)) && f > -1e6 && f < 1e6 {
				bad = true
			}
			if ok {
				seen[f] = true
			}
		}
		if bad {
			// rebuild the output text with the faulty renderer: replace later occurrences
			src := got[0].Out
			_, _, exprs, text, m := c11RepOccurrences(src, plain, groups)
			if m != "" {
				t.Fatal(m)
			}
			off := 0
			if plain {
				off = len("package p\n")
			}
			seen = map[float64]bool{}
			k := 0
			mut := src
			shift := 0
			for _, g := range groups {
				for _, idx := range g.Occ {
					e := exprs[k]
					k++
					f, ok := lits[idx].V.(float64)
					if !ok || lits[idx].Kind != "lit" {
						continue
					}
					if seen[f] && f == float64(int64(f)) && f > -1e6 && f < 1e6 {
						tx := text(e)
						at := int(e.Pos()) - 1 - off + shift
						if len(tx) > 2 && tx[len(tx)-2:] == ".0" {
							mut = mut[:at] + tx[:len(tx)-2] + mut[at+len(tx):]
							shift -= 2
						}
					}
					seen[f] = true
				}
			}
			if mut != src {
				if p.Oracle(c, c1xFakeWrite(mut)) == "" {
					t.Fatalf("case %d: faulty output %q accepted", i, mut)
				}
				caught++
			}
		}
	}
	if caught < 20 {
		t.Errorf("only %d cases expose the memoising renderer", caught)
	}
	for _, tg := range []string{"layout=one-statement", "layout=one-declaration-each", "layout=partition", "skeleton=eq", "skeleton=list", "skeleton=values",
		"skeleton=append", "skeleton=decl", "companions=twins", "companions=other-kinds", "twins=zero-and-negative-zero", "render=plain-statement",
		"repeated-kind=float64-whole", "repeated-kind=float32", "repeated-kind=bool", "repeated-kind=complex64", "same-value-times=4-5"} {
		if tags[tg] == 0 {
			t.Errorf("tag %s never generated", tg)
		}
	}
	// shrinking keeps the form of a repetition case
	for _, c := range cases[:200] {
		for _, s := range p.Shrink(c) {
			if m := p.Oracle(s, hist.NewWorld().Exec(s.Hist)); m != "" {
				t.Fatalf("shrunk case %s: %s", s.Hist.Sexp(), m)
			}
		}
	}
}
