package props

import (
	"math/rand"
	"strings"
	"testing"

	"verifharness/hist"
)

// type-name-context: hand-made outputs in which the import keeps the name of the literal's type
// (or of true) are rejected, the renamed import is accepted, a wrong value is rejected; the real
// outputs of the stream are accepted.
func TestC11CtxOracle(t *testing.T) {
	plan := c11CtxPlan{Pkg: "int8", How: "qual", Paths: []string{"example.com/lib/int8"},
		Decls: []c11CtxDecl{{Layout: "ref", Path: "example.com/lib/int8"}, {Layout: "sep", Vals: []interface{}{int8(-8)}}}}
	good := "package p\n\nimport int81 \"example.com/lib/int8\"\n\nvar _ = int81.X\nvar _ = int8(-8)\n"
	if m := c11CtxCheck(good, plan); m != "" {
		t.Fatalf("good output rejected: %s", m)
	}
	for _, bad := range []string{
		"package p\n\nimport int8 \"example.com/lib/int8\"\n\nvar _ = int8.X\nvar _ = int8(-8)\n",
		"package p\n\nimport \"example.com/lib/int8\"\n\nvar _ = int8.X\nvar _ = int8(-8)\n", // the package's own name
		"package p\n\nimport int81 \"example.com/lib/int8\"\n\nvar _ = int81.X\nvar _ = int8(8)\n",
		"package p\n\nimport int81 \"example.com/lib/int8\"\n\nvar _ = int81.X\nvar _ = int16(-8)\n",
		"package p\n\nimport int81 \"example.com/lib/int8\"\n\nvar _ = int81.X\nvar _ = -8\n",
	} {
		if m := c11CtxCheck(bad, plan); m == "" {
			t.Errorf("bad output accepted:\n%s", bad)
		}
	}
	pt := c11CtxPlan{Pkg: "true", How: "importname", Paths: []string{"x/true"},
		Decls: []c11CtxDecl{{Layout: "call", Path: "x/true", Vals: []interface{}{true}}}}
	if m := c11CtxCheck("package p\n\nimport true1 \"x/true\"\n\nvar _ = true1.F(true, true1.X)\n", pt); m != "" {
		t.Fatalf("good output rejected: %s", m)
	}
	if m := c11CtxCheck("package p\n\nimport \"x/true\"\n\nvar _ = true.F(true, true.X)\n", pt); !strings.Contains(m, "type-check") {
		t.Errorf("package named true accepted: %q", m)
	}
	r := rand.New(rand.NewSource(3))
	clash := 0
	for _, c := range c11CtxCases(r, "quick") {
		if c.Stream != "type-name-context" {
			continue
		}
		if c.NonTrivial {
			clash++
		}
		got := hist.NewWorld().Exec(c.Hist)
		if m := (c11{}).Oracle(c, got); m != "" {
			t.Fatalf("oracle rejects the real output: %s\n%s", m, c.Hist.Sexp())
		}
	}
	if clash < 300 {
		t.Fatalf("only %d cases with a real clash", clash)
	}
}

// int-digits: negative values of 6, 9, 12, 15 and 18 digits are there on purpose.
func TestC11DigitCases(t *testing.T) {
	tags := map[string]int{}
	for _, c := range c11DigitCases(rand.New(rand.NewSource(1)), "quick") {
		for _, tg := range c.Tags {
			tags[tg]++
		}
	}
	for _, d := range []string{"6", "9", "12", "15", "18", "19"} {
		if tags["int:negative-digits="+d] < 5 {
			t.Errorf("negative values of %s digits: %d", d, tags["int:negative-digits="+d])
		}
	}
}
