package props

import (
	"fmt"
	"math/rand"
	"sort"
	"strings"

	"verifharness/hist"
	"verifharness/term"
)

// Stream op-order (C06 and C18): the ORDER of hint / Anon operations relative to the renders
// of one File, enumerated systematically.  A history has the shape
//
//	constructor  op*  render  op*  render  op*  render  op*  imports
//
// ("slot" k = the place in front of the k-th File.Render, counted from 0; the last slot lies
// after the last render and is only seen by the final `imports` observation).  One path - the
// SUBJECT, Paths[0] - is given zero, one or two (thorough tier: also three) operations out of
//
//	dot    ImportAlias(path, ".")        name   ImportName(path, n)
//	alias  ImportAlias(path, a)          names  ImportNames({path: n})
//	anon   Anon(path)
//
// and the enumeration runs over
//
//	(kind of subject) x (first operation or none) x (second operation) x (slot of the first
//	<= slot of the second) x (where the subject is first rendered),
//
// the last being: by the File body from the first render on (first-ref=early), by the body from the
// second render on (first-ref=late: the operations of slot 0 and 1 then come BEFORE the path has ever
// been rendered), or by a fragment rendered with the File (Statement.RenderWithFile) before the
// first File.Render while the body references it from the second render on (first-ref=fragment-first).
// Bystander paths (a colliding path that takes the subject's name first, a dot-imported path)
// are referenced from the start.
//
// Tags: subject=<kind>, op1=<op>@<slot> / op2=... (op1=none), order=<op1>-then-<op2>, first-ref=...,
// prefix=on/off, bystander=..., and - measured on the history - after-first-rendering=<op> for
// every operation issued after the subject was first written by some output, and
// before-first-rendering=<op> for the others.
type opOrderPlan struct {
	Kind      string
	Ctor      hist.History // constructor, prefix, noformat
	Local     string
	Paths     []string     // Paths[0] is the subject
	Pre       hist.History // hints of the bystanders, given before anything else
	Early     []int        // bystanders referenced by the File body from the start
	Ops       []opAt
	RefSlot   int  // the slot in which the File body first references the subject
	FragFirst bool // a fragment referencing the subject is rendered with the File before the first File.Render
	Renders   int
	Tags      []string
}

type opAt struct {
	Op   hist.Op
	Kind string // dot name alias names anon
	Slot int
}

var opOrderKinds = []string{"dot", "name", "alias", "names", "anon"}

// history builds the operations of the plan; r only decides how many references a body
// statement holds and their nesting.
func (pl *opOrderPlan) history(r *rand.Rand) (hist.History, []string) {
	h := append(hist.History{}, pl.Ctor...)
	h = append(h, pl.Pre...)
	tags := map[string]bool{}
	written := false // the subject has been written by some output
	has := func(st *term.Stmt) bool { return stmtRefers(st, pl.Paths[0]) }
	var body []*term.Stmt
	rcode := func(st *term.Stmt) {
		h = append(h, hist.Op{Kind: "rcode", F: 0, Code: st}, hist.Op{Kind: "imports", F: 0})
		written = written || has(st)
	}
	fragment := func(ps []int) {
		sts := RefBody(r, pl.Paths, ps, nil)
		rcode(sts[r.Intn(len(sts))])
	}
	for s := 0; s <= pl.Renders; s++ {
		for _, o := range pl.Ops {
			if o.Slot != s {
				continue
			}
			h = append(h, o.Op)
			if written {
				tags["after-first-rendering="+o.Kind] = true
			} else {
				tags["before-first-rendering="+o.Kind] = true
			}
		}
		if s == pl.Renders {
			break
		}
		var refs []int
		if s == 0 {
			for _, i := range pl.Early {
				for k := 1 + r.Intn(2); k > 0; k-- {
					refs = append(refs, i)
				}
			}
		}
		if s == pl.RefSlot {
			for k := 1 + r.Intn(2); k > 0; k-- {
				refs = append(refs, 0)
			}
		} else if s > pl.RefSlot && r.Intn(2) == 0 {
			refs = append(refs, 0)
		}
		r.Shuffle(len(refs), func(a, b int) { refs[a], refs[b] = refs[b], refs[a] })
		for _, st := range RefBody(r, pl.Paths, refs, nil) {
			h = append(h, hist.Op{Kind: "fadd", F: 0, Code: st})
			body = append(body, st)
		}
		if s == 0 && pl.FragFirst {
			fragment([]int{0})
		} else if s > 0 && r.Intn(5) == 0 {
			// a fragment between two File.Renders: the subject alone, or a statement of the body itself
			if len(body) > 0 && r.Intn(2) == 0 {
				rcode(body[r.Intn(len(body))])
				tags["fragment-shared-with-file"] = true
			} else {
				fragment([]int{0})
			}
			tags["fragment-between-renders"] = true
		}
		h = append(h, hist.Op{Kind: "render", F: 0}, hist.Op{Kind: "imports", F: 0})
		for _, st := range body {
			written = written || has(st)
		}
	}
	h = append(h, hist.Op{Kind: "imports", F: 0})
	return h, sortedKeys(tags)
}

// stmtRefers reports whether the statement holds a Qual of the path (read from its serialisation).
func stmtRefers(st *term.Stmt, path string) bool {
	return strings.Contains(term.NewSer().Sexp(st), " "+term.X(path)+" ")
}

// opOrderSpace enumerates (first op or none) x (second op) x slots x reference mode for one
// subject kind; with3 adds a third operation drawn by r to a third of the plans.  ops are the
// operation kinds allowed for the subject.  mk makes a fresh plan (constructor, paths,
// bystanders) and opFor the k-th operation of the given kind for it.
func opOrderSpace(r *rand.Rand, ops []string, renders int, with3 bool, mk func(n int) *opOrderPlan, opFor func(pl *opOrderPlan, kind string, k int) hist.Op) []*opOrderPlan {
	var out []*opOrderPlan
	n := 0
	firsts := append([]string{"none"}, ops...)
	for _, o1 := range firsts {
		for _, o2 := range ops {
			for s1 := 0; s1 <= renders; s1++ {
				if o1 == "none" && s1 > 0 {
					continue
				}
				for s2 := s1; s2 <= renders; s2++ {
					for mode := 0; mode < 3; mode++ {
						pl := mk(n)
						n++
						pl.Renders = renders
						tags := []string{"subject=" + pl.Kind}
						k := 0
						if o1 != "none" {
							pl.Ops = append(pl.Ops, opAt{Op: opFor(pl, o1, k), Kind: o1, Slot: s1})
							k++
							tags = append(tags, fmt.Sprintf("op1=%s@%d", o1, s1), "order="+o1+"-then-"+o2)
						} else {
							tags = append(tags, "op1=none")
						}
						pl.Ops = append(pl.Ops, opAt{Op: opFor(pl, o2, k), Kind: o2, Slot: s2})
						k++
						tags = append(tags, fmt.Sprintf("op2=%s@%d", o2, s2))
						if with3 && r.Intn(3) == 0 {
							o3 := pick(r, ops)
							s3 := s2 + r.Intn(renders-s2+1)
							pl.Ops = append(pl.Ops, opAt{Op: opFor(pl, o3, k), Kind: o3, Slot: s3})
							tags = append(tags, fmt.Sprintf("op3=%s@%d", o3, s3))
						}
						switch mode {
						case 0:
							pl.RefSlot = 0
							tags = append(tags, "first-ref=early")
						case 1:
							pl.RefSlot = 1
							tags = append(tags, "first-ref=late")
						default:
							pl.RefSlot, pl.FragFirst = 1, true
							tags = append(tags, "first-ref=fragment-first")
						}
						pl.Tags = append(pl.Tags, tags...)
						out = append(out, pl)
					}
				}
			}
		}
	}
	return out
}

// ---- C06 ----------------------------------------------------------------------------------

// c06OpOrderCases: subject kinds std (a standard-library path nothing competes with),
// std-collide (math/rand or crypto/rand, the other one referenced first), user (a path outside
// the standard library), user-collide (another path with the same last element referenced
// first) and local (the File's own path; no Anon: importing the own package is not a meaningful
// input).  Quick: prefix alternates, 3 renders; thorough: both prefix settings, NoFormat on and
// off, 3 and 4 renders and a third operation in a third of the plans.
//
// The oracle is c06MultiOracle (every output judged on its own, a path keeps the form of its
// first rendering until an Anon for that path discards the registration).
// NonTrivial: every case (each holds at least one operation on the subject and three renders).
func c06OpOrderCases(r *rand.Rand, t string) []*Case {
	var out []*Case
	thorough := t == "thorough"
	stdU := []string{"fmt", "strings", "io", "os", "net/http", "encoding/json", "text/template", "sort", "errors", "log"}
	userU := []string{"a.b/d", "x.y/pkg", "gopkg.in/yaml.v3", "a/KK", "d.e/f", "x", "a.b/rand"}
	type variant struct {
		prefix, noformat bool
		renders          int
	}
	variants := []variant{{false, false, 3}}
	if thorough {
		variants = nil
		for _, p := range []bool{false, true} {
			for _, nf := range []bool{false, true} {
				for _, rn := range []int{3, 4} {
					variants = append(variants, variant{p, nf, rn})
				}
			}
		}
	}
	opFor := func(pl *opOrderPlan, kind string, k int) hist.Op {
		p := pl.Paths[0]
		switch kind {
		case "dot":
			return hist.Op{Kind: "importalias", F: 0, A: p, B: "."}
		case "name":
			return hist.Op{Kind: "importname", F: 0, A: p, B: []string{"kv", "lib", "store"}[k%3]}
		case "alias":
			return hist.Op{Kind: "importalias", F: 0, A: p, B: []string{"zz", "yy", "ww"}[k%3]}
		case "names":
			return hist.Op{Kind: "importnames", F: 0, Pairs: [][2]string{{p, []string{"core", "base", "kv"}[k%3]}}}
		}
		return hist.Op{Kind: "anon", F: 0, Strs: []string{p}}
	}
	for _, v := range variants {
		v := v
		for _, kind := range []string{"std", "std-collide", "user", "user-collide", "local"} {
			kind := kind
			mk := func(n int) *opOrderPlan {
				pl := &opOrderPlan{Kind: kind}
				prefix := v.prefix
				if !thorough {
					prefix = n%2 == 1
				}
				ctor := hist.Op{Kind: "newfile", F: 0, A: "p"}
				switch kind {
				case "std":
					pl.Paths = []string{stdU[n%len(stdU)]}
				case "std-collide":
					pl.Paths = []string{"math/rand", "crypto/rand"}
					if n%2 == 1 {
						pl.Paths = []string{"crypto/rand", "math/rand"}
					}
					pl.Early = []int{1}
				case "user":
					pl.Paths = []string{userU[n%len(userU)]}
				case "user-collide":
					pl.Paths = []string{"a.b/d", "c.b/d"}
					pl.Early = []int{1}
				default:
					pl.Paths = []string{[]string{"a.b/c", "x/y", "log", "example.com/mod/pkg"}[n%4]}
					pl.Local = pl.Paths[0]
					if n%3 == 0 {
						ctor = hist.Op{Kind: "newfilepathname", F: 0, A: pl.Local, B: "q"}
					} else {
						ctor = hist.Op{Kind: "newfilepath", F: 0, A: pl.Local}
					}
				}
				pl.Ctor = hist.History{ctor}
				if prefix {
					pl.Ctor = append(pl.Ctor, hist.Op{Kind: "prefix", F: 0, A: "pkg"})
				}
				pl.Ctor = append(pl.Ctor, hist.Op{Kind: "noformat", F: 0, Flag: v.noformat})
				pl.Tags = append(pl.Tags, "prefix="+onoff(prefix))
				// a dot-imported bystander in a third of the plans: it must stay a dot-import whatever
				// happens to the subject
				if n%3 == 2 {
					pl.Paths = append(pl.Paths, "g.h/i")
					pl.Pre = append(pl.Pre, hist.Op{Kind: "importalias", F: 0, A: "g.h/i", B: "."})
					pl.Early = append(pl.Early, len(pl.Paths)-1)
					pl.Tags = append(pl.Tags, "bystander=dot")
				}
				if len(pl.Early) > 0 && kind != "std" && kind != "user" && kind != "local" {
					pl.Tags = append(pl.Tags, "bystander=colliding-name")
				}
				return pl
			}
			ops := opOrderKinds
			if kind == "local" {
				ops = []string{"dot", "name", "alias", "names"}
			}
			for _, pl := range opOrderSpace(r, ops, v.renders, thorough, mk, opFor) {
				h, measured := pl.history(r)
				tags := append(append([]string{fmt.Sprintf("renders=%d", pl.Renders)}, pl.Tags...), measured...)
				sort.Strings(tags)
				out = append(out, &Case{Hist: h, Stream: "op-order", NonTrivial: true, Tags: tags,
					Meta: map[string]interface{}{"c06multi": &c06multi{Paths: pl.Paths, Local: pl.Local}}})
			}
		}
	}
	return out
}
