package props

import (
	"bufio"
	"bytes"
	"fmt"
	"hash/fnv"
	"io"
	"math/rand"
	"os"
	"strings"

	"github.com/dave/jennifer/jen"

	"verifharness/hist"
	"verifharness/term"
)

// C14, clause "GoString, Render and RenderWithFile agree", over the dimension THE WRITER HANDED
// IN: Render(w) / RenderWithFile(w, f) of a Statement, of a Group and Render(w) of a File must
// APPEND exactly the bytes GoString returns to whatever w is and whatever w already holds; when
// they fail (GoString panics) they leave the writer as it was.
//
// Sinks (c14SinkKinds): a *bytes.Buffer, a *bytes.Buffer with spare capacity left by earlier
// writes, a *strings.Builder, a *bufio.Writer (default size and 16 bytes), an *os.File (temp),
// an io.MultiWriter over two buffers, a type that is not a *bytes.Buffer but implements every
// optional interface of one (io.ReaderFrom, io.StringWriter, io.ByteWriter, io.WriterTo ...),
// a type with Write only, a writer handing the renderer one byte at a time.
// What the sink holds before (c14PreKinds): nothing, a banner that is not Go, Go text with a
// trailing comment (gofmt would align it with the fragment), blank lines, blanks, text without a
// final newline, the fragment itself, bytes that are not UTF-8, 5000 bytes (more than a bufio
// buffer).
//
// Stream `writers`: 2-4 random statements (props.Gen) per case, `rplain` of each in the history
// (so the model renders them too); the Oracle builds each one, takes GoString and runs the FULL
// matrix sink x pre x {Render, RenderWithFile} for the *Statement and for a *Group holding it,
// then renders all fragments one after the other into ONE sink of every kind (after a banner),
// alternating the entry points, and at last a File holding the fragments into every sink.
// Besides, every c14CheckEntryPoints (streams api and forms: every form of every construct,
// every root) renders into two non-empty sinks chosen by a hash of the output.

type c14Sink struct {
	w     io.Writer
	read  func() (string, error) // all the sink holds now (flushes / reads back)
	close func()
}

// c14Rich is not a *bytes.Buffer but has all of its methods (ReadFrom, WriteString, WriteByte,
// WriteRune, WriteTo, Bytes, Reset, Truncate, Grow ...).
type c14Rich struct{ *bytes.Buffer }

// c14Bare has Write only.
type c14Bare struct{ b []byte }

func (w *c14Bare) Write(p []byte) (int, error) { w.b = append(w.b, p...); return len(p), nil }

// c14Drip forwards one byte per Write call of its own to the underlying writer (through
// bufio with a buffer of one byte... simply a loop).
type c14Drip struct{ b []byte }

func (w *c14Drip) Write(p []byte) (int, error) {
	for _, c := range p {
		w.b = append(w.b, c)
	}
	return len(p), nil
}

var c14SinkKinds = []string{"bytes.Buffer", "bytes.Buffer-spare-cap", "strings.Builder", "bufio.Writer", "bufio.Writer-16",
	"io.MultiWriter", "all-interfaces", "write-only", "byte-wise", "os.File"}

// c14CheapSinks: the kinds used by the hash-chosen check inside c14CheckEntryPoints.
var c14CheapSinks = c14SinkKinds[:9]

func c14NewSink(kind, dir string) (*c14Sink, error) {
	switch kind {
	case "bytes.Buffer":
		b := &bytes.Buffer{}
		return &c14Sink{w: b, read: func() (string, error) { return b.String(), nil }}, nil
	case "bytes.Buffer-spare-cap":
		b := bytes.NewBuffer(make([]byte, 0, 1<<12))
		b.WriteString("gone")
		b.Reset()
		return &c14Sink{w: b, read: func() (string, error) { return b.String(), nil }}, nil
	case "strings.Builder":
		b := &strings.Builder{}
		return &c14Sink{w: b, read: func() (string, error) { return b.String(), nil }}, nil
	case "bufio.Writer", "bufio.Writer-16":
		b := &bytes.Buffer{}
		n := 4096
		if kind == "bufio.Writer-16" {
			n = 16
		}
		bw := bufio.NewWriterSize(b, n)
		return &c14Sink{w: bw, read: func() (string, error) {
			if err := bw.Flush(); err != nil {
				return "", err
			}
			return b.String(), nil
		}}, nil
	case "io.MultiWriter":
		a, b := &bytes.Buffer{}, &strings.Builder{}
		return &c14Sink{w: io.MultiWriter(a, b), read: func() (string, error) {
			if a.String() != b.String() {
				return "", fmt.Errorf("the two writers behind io.MultiWriter hold different bytes: %q vs %q", a.String(), b.String())
			}
			return a.String(), nil
		}}, nil
	case "all-interfaces":
		b := c14Rich{&bytes.Buffer{}}
		return &c14Sink{w: b, read: func() (string, error) { return b.String(), nil }}, nil
	case "write-only":
		b := &c14Bare{}
		return &c14Sink{w: b, read: func() (string, error) { return string(b.b), nil }}, nil
	case "byte-wise":
		b := &c14Drip{}
		return &c14Sink{w: b, read: func() (string, error) { return string(b.b), nil }}, nil
	case "os.File":
		f, err := os.CreateTemp(dir, "sink*.txt")
		if err != nil {
			return nil, err
		}
		name := f.Name()
		return &c14Sink{w: f, read: func() (string, error) {
			b, err := os.ReadFile(name)
			return string(b), err
		}, close: func() { f.Close(); os.Remove(name) }}, nil
	}
	return nil, fmt.Errorf("unknown sink kind %s", kind)
}

var c14PreKinds = []string{"empty", "banner", "go-trailing-comment", "blank-lines", "blanks", "no-final-newline", "self", "not-utf8", "5000-bytes"}

func c14Pre(kind string, self string) string {
	switch kind {
	case "banner":
		return "==== generated, do not edit ====\n"
	case "go-trailing-comment":
		return "a = 1 // first\nlongerName = 2 // second\n"
	case "blank-lines":
		return "\n\n\n\n"
	case "blanks":
		return " \t  "
	case "no-final-newline":
		return "x := f(1,2)"
	case "self":
		return self
	case "not-utf8":
		return "\x00\xff\xfe{"
	case "5000-bytes":
		return strings.Repeat("0123456789abcdefghijklmnopqrstuvwxyz0123456789ABC\n", 100)
	}
	return ""
}

var c14EntryNames = []string{"Render", "RenderWithFile"}

func c14CallEntry(x c14Renderer, entry int, w io.Writer) c14Res {
	return c14Guard(func() c14Res {
		var err error
		if entry == 0 {
			err = x.Render(w)
		} else {
			err = x.RenderWithFile(w, jen.NewFile(""))
		}
		if err != nil {
			return c14Res{"err", err.Error()}
		}
		return c14Res{"ok", ""}
	})
}

// c14IntoSink: one entry point into one sink holding pre; gs is what GoString gave.
func c14IntoSink(x c14Renderer, gs c14Res, entry int, sinkKind, preKind, dir string) string {
	sk, err := c14NewSink(sinkKind, dir)
	if err != nil {
		return "harness: " + err.Error()
	}
	if sk.close != nil {
		defer sk.close()
	}
	pre := c14Pre(preKind, gs.Out)
	if gs.Kind != "ok" && preKind == "self" {
		pre = ""
	}
	if _, err := io.WriteString(sk.w, pre); err != nil {
		return "harness: " + err.Error()
	}
	r := c14CallEntry(x, entry, sk.w)
	got, err := sk.read()
	if err != nil {
		return fmt.Sprintf("%s into %s: %v", c14EntryNames[entry], sinkKind, err)
	}
	return c14SinkVerdict(fmt.Sprintf("%s into a %s holding %s (%d bytes)", c14EntryNames[entry], sinkKind, preKind, len(pre)), gs, r, pre, got)
}

// c14SinkVerdict decides one write: GoString ok => no error and the sink holds before+GoString;
// GoString panicked => an error (or the same panic) and the sink holds what it held before.
func c14SinkVerdict(what string, gs, r c14Res, before, got string) string {
	if gs.Kind == "ok" {
		if r.Kind != "ok" {
			return fmt.Sprintf("%s: GoString gives %q but the call gives %v", what, gs.Out, r)
		}
		if got != before+gs.Out {
			return fmt.Sprintf("%s: the writer must hold what it held before followed by GoString\n before:   %q\n GoString: %q\n holds:    %q", what, c14Clip(before), gs.Out, c14Clip(got))
		}
		return ""
	}
	if r.Kind == "ok" {
		return fmt.Sprintf("%s: GoString panics (%s) but the call reports success", what, c14Clip(gs.Out))
	}
	if got != before {
		return fmt.Sprintf("%s: the call failed (%v) and changed the writer\n before: %q\n holds:  %q", what, r.Kind, c14Clip(before), c14Clip(got))
	}
	return ""
}

func c14Clip(s string) string {
	if len(s) > 400 {
		return s[:200] + " ... " + s[len(s)-200:]
	}
	return s
}

// c14HashedSinks: two renders (one per entry point) into non-empty sinks chosen by a hash of
// the output; part of c14CheckEntryPoints.
func c14HashedSinks(x c14Renderer, gs c14Res) string {
	h := fnv.New32a()
	h.Write([]byte(gs.Out))
	n := int(h.Sum32() >> 4)
	for entry := 0; entry < 2; entry++ {
		sink := c14CheapSinks[(n+5*entry)%len(c14CheapSinks)]
		pre := c14PreKinds[1+(n/16+3*entry)%(len(c14PreKinds)-2)] // never empty, never the 5000 bytes
		if e := c14IntoSink(x, gs, entry, sink, pre, ""); e != "" {
			return e
		}
	}
	return ""
}

// ---------------------------------------------------------------- stream `writers`

func c14WritersCases(r *rand.Rand, n int) []*Case {
	var out []*Case
	for i := 0; i < n; i++ {
		paths := somePaths(r, 3)
		g := &Gen{R: r, Paths: paths, MaxDepth: 1 + r.Intn(3), NilRate: 8}
		var h hist.History
		k := 2 + r.Intn(3)
		for j := 0; j < k; j++ {
			h = append(h, hist.Op{Kind: "rplain", Code: g.Stmt(0)})
		}
		c := &Case{Hist: h, Stream: "writers", Meta: map[string]interface{}{"c14": "writers"}}
		c.Tags = append(c.Tags, fmt.Sprintf("fragments=%d", k), "sequence=one-writer-many-fragments")
		for _, s := range c14SinkKinds {
			c.Tags = append(c.Tags, "sink="+s)
		}
		for _, p := range c14PreKinds {
			c.Tags = append(c.Tags, "pre="+p)
		}
		c.Tags = append(c.Tags, "entry=Statement.Render", "entry=Statement.RenderWithFile", "entry=Group.Render", "entry=Group.RenderWithFile", "entry=File.Render")
		out = append(out, c)
	}
	return out
}

// c14WritersOracle; NonTrivial (set here, main reads it after the oracle): at least one
// fragment renders (GoString does not panic) to a non-empty text.
func c14WritersOracle(c *Case, got []hist.Obs) string {
	dir, err := os.MkdirTemp("", "c14w")
	if err != nil {
		return "harness: " + err.Error()
	}
	defer os.RemoveAll(dir)
	plain := term.NewBuilder()
	type frag struct {
		x  c14Renderer
		gs c14Res
	}
	var frags []frag
	var stmts []*jen.Statement
	for i, op := range c.Hist {
		st, ok := op.Code.(*term.Stmt)
		if op.Kind != "rplain" || !ok {
			continue
		}
		var s *jen.Statement
		var perr string
		func() {
			defer func() {
				if p := recover(); p != nil {
					perr = fmt.Sprint(p)
				}
			}()
			s = plain.Stmt(st)
		}()
		if perr != "" {
			continue // the term cannot be built (the history's observation says so too)
		}
		gs := c14GoString(s)
		if i < len(got) && !c14SameAsObs(c14Render(s), got[i]) {
			return fmt.Sprintf("fragment %d: a second build renders %v, the history observed %v", i, c14Render(s), got[i])
		}
		frags = append(frags, frag{s, gs})
		stmts = append(stmts, s)
		var grp *jen.Group
		jen.BlockFunc(func(g *jen.Group) { grp = g; g.Add(s) })
		frags = append(frags, frag{grp, c14GoString(grp)})
		if gs.Kind == "ok" && gs.Out != "" {
			c.NonTrivial = true
		}
	}
	// full matrix
	for i, f := range frags {
		for _, sink := range c14SinkKinds {
			for _, pre := range c14PreKinds {
				for entry := 0; entry < 2; entry++ {
					if e := c14IntoSink(f.x, f.gs, entry, sink, pre, dir); e != "" {
						return fmt.Sprintf("fragment %d (%T): %s", i/2, f.x, e)
					}
				}
			}
		}
	}
	// a File holding the fragments, as the last piece of every sequence
	file := jen.NewFilePathName("c14.test/w", "w")
	for _, s := range stmts {
		file.Add(s)
	}
	fgs := c14Guard(func() c14Res { return c14Res{"ok", file.GoString()} })
	// all fragments into ONE sink, one after the other, after a banner
	for k, sink := range c14SinkKinds {
		sk, err := c14NewSink(sink, dir)
		if err != nil {
			return "harness: " + err.Error()
		}
		before := "// ---- fragments ----\n"
		io.WriteString(sk.w, before)
		step := func(what string, gs, r c14Res) string {
			now, err := sk.read()
			if err != nil {
				return what + ": " + err.Error()
			}
			if e := c14SinkVerdict(what, gs, r, before, now); e != "" {
				return e
			}
			before = now
			return ""
		}
		var e string
		for i, f := range frags {
			entry := (i + k) % 2
			r := c14CallEntry(f.x, entry, sk.w)
			if e = step(fmt.Sprintf("sequence into one %s, piece %d (%T, %s)", sink, i, f.x, c14EntryNames[entry]), f.gs, r); e != "" {
				break
			}
		}
		if e == "" {
			r := c14Guard(func() c14Res {
				if err := file.Render(sk.w); err != nil {
					return c14Res{"err", err.Error()}
				}
				return c14Res{"ok", ""}
			})
			e = step(fmt.Sprintf("sequence into one %s, File.Render last", sink), fgs, r)
		}
		if sk.close != nil {
			sk.close()
		}
		if e != "" {
			return e
		}
	}
	return ""
}
