package props

import (
	"math/rand"
	"strings"
	"testing"

	"verifharness/hist"
)

func TestC19OracleRejectsAndAccepts(t *testing.T) {
	pre2 := []string{"#include <a.h>", "#include <b.h>\nint f(void);"}
	raw := []string{"// #include <r.h>", "/* #include <s.h> */"}
	ref := "var _ = C." + c19Ref + "\n"
	cases := []struct {
		name   string
		qual   bool
		anon   bool
		pre    []string
		others []string
		src    string
		bad    string
	}{
		{"qual alone", true, false, nil, nil, "package p\nimport \"C\"\n" + ref, ""},
		{"in the block", true, false, nil, []string{"fmt"}, "package p\nimport (\n\"C\"\n\"fmt\"\n)\n" + ref + "var _ = fmt.Println\n", ""},
		{"preamble", true, false, pre2, []string{"fmt"}, "package p\nimport \"fmt\"\n\n// #include <a.h>\n/*\n#include <b.h>\nint f(void);\n*/\nimport \"C\"\n" + ref, ""},
		{"preamble written as // lines", true, false, pre2, nil, "package p\n// #include <a.h>\n// #include <b.h>\n// int f(void);\nimport \"C\"\n" + ref, ""},
		{"raw preamble", false, true, raw, nil, "package p\n// #include <r.h>\n/* #include <s.h> */\nimport \"C\"\n", ""},
		{"preamble only", false, false, pre2[:1], nil, "package p\n// #include <a.h>\nimport \"C\"\n", ""},
		{"nothing", false, false, nil, []string{"fmt"}, "package p\nimport \"fmt\"\nvar _ = fmt.Println\n", ""},

		{"underscore", false, true, nil, nil, "package p\nimport _ \"C\"\n", "under the name _"},
		{"aliased", true, false, nil, nil, "package p\nimport x \"C\"\nvar _ = x." + c19Ref + "\n", "not C."},
		{"aliased, reference still C", true, false, nil, nil, "package p\nimport x \"C\"\n" + ref, "under the name x"},
		{"prefixed", true, false, nil, nil, "package p\nimport pkg_C \"C\"\nvar _ = pkg_C." + c19Ref + "\n", "not C."},
		{"numbered", true, false, nil, []string{"x.y/C"}, "package p\nimport (\nC1 \"C\"\nC \"x.y/C\"\n)\nvar _ = C1." + c19Ref + "\n", "not C."},
		{"dot hint", true, false, nil, nil, "package p\nimport . \"C\"\nvar _ = " + c19Ref + "\n", "bare"},
		{"missing", true, false, nil, nil, "package p\n" + ref, "is missing"},
		{"anon missing", false, true, nil, []string{"fmt"}, "package p\nimport \"fmt\"\nvar _ = fmt.Println\n", "is missing"},
		{"preamble-only missing", false, false, pre2[:1], nil, "package p\n", "is missing"},
		{"unasked", false, false, nil, nil, "package p\nimport \"C\"\n", "although neither"},
		{"twice", true, false, pre2[:1], nil, "package p\nimport \"C\"\n// #include <a.h>\nimport \"C\"\n" + ref, "2 times"},
		{"reference lost", true, false, nil, nil, "package p\nimport \"C\"\n", "occurs 0 times"},
		{"other import lost", true, false, nil, []string{"fmt"}, "package p\nimport \"C\"\n" + ref, "\"fmt\" is missing"},

		{"preamble not adjacent", true, false, pre2[:1], nil, "package p\n// #include <a.h>\n\nimport \"C\"\n" + ref, "no comment directly above"},
		{"first block detached", true, false, pre2, nil, "package p\n// #include <a.h>\n\n/*\n#include <b.h>\nint f(void);\n*/\nimport \"C\"\n" + ref, "not the preamble in the order given"},
		{"wrong order", true, false, pre2, nil, "package p\n/*\n#include <b.h>\nint f(void);\n*/\n// #include <a.h>\nimport \"C\"\n" + ref, "not the preamble in the order given"},
		{"block dropped", true, false, pre2, nil, "package p\n// #include <a.h>\nimport \"C\"\n" + ref, "not the preamble in the order given"},
		{"foreign comment glued on", true, false, pre2[:1], nil, "package p\n// something else\n// #include <a.h>\nimport \"C\"\n" + ref, "not the preamble in the order given"},
		{"preamble above the wrong decl", true, false, pre2[:1], []string{"fmt"}, "package p\n// #include <a.h>\nimport \"fmt\"\nimport \"C\"\n" + ref, "no comment directly above"},
		{"C in the main block, preamble above the block", true, false, pre2[:1], []string{"fmt"}, "package p\n// #include <a.h>\nimport (\n\"C\"\n\"fmt\"\n)\n" + ref, "shares its declaration"},
		{"C in the main block, preamble inside", true, false, pre2[:1], []string{"fmt"}, "package p\nimport (\n// #include <a.h>\n\"C\"\n\"fmt\"\n)\n" + ref, "shares its declaration"},
		{"preamble inside parentheses", true, false, pre2[:1], nil, "package p\nimport (\n// #include <a.h>\n\"C\"\n)\n" + ref, "no comment directly above"},
		{"split without preamble", true, false, nil, []string{"fmt"}, "package p\nimport \"fmt\"\nimport \"C\"\n" + ref, "spread over 2 declarations"},
		{"does not parse", true, false, nil, nil, "package p\nimport C\n", "does not parse"},
	}
	for _, c := range cases {
		got := C19Check(c.qual, c.anon, c.pre, c.others, c.src)
		switch {
		case c.bad == "" && got != "":
			t.Errorf("%s: good output rejected: %s", c.name, got)
		case c.bad != "" && got == "":
			t.Errorf("%s: bad output accepted", c.name)
		case c.bad != "" && !strings.Contains(got, c.bad):
			t.Errorf("%s: rejected for another reason: %s", c.name, got)
		}
	}
}

func TestC19Generate(t *testing.T) {
	p := c19{}
	cs := p.Generate(rand.New(rand.NewSource(1)), "quick")
	// the complete product: 121 style sequences, 49 of them (exactly one raw block) in both
	// raw forms, x 5 x 4 x 4 x 2
	// plus, sampled at 1/3 in quick, the same product over the 660 sequences that contain a
	// "\n"-terminated block (every sequence must be represented)
	old, nl := 0, 0
	nlSeqs := map[string]bool{}
	for _, c := range cs {
		if c.Stream != "product" { // the mixed stream is counted in TestC19OracleMixedForms
			continue
		}
		cfg := c.Meta["cfg"].(c19Cfg)
		if strings.ContainsAny(cfg.Styles, "nt") {
			nl++
			nlSeqs[cfg.Styles] = true
			if !hasTag(c, "preamble-trailing-newline") {
				t.Fatalf("tag missing on %s", cfg.Styles)
			}
			ends := false
			for _, p := range cfg.Pre {
				ends = ends || strings.HasSuffix(p, "\n")
			}
			if !ends {
				t.Fatalf("no block of %q ends in a newline: %q", cfg.Styles, cfg.Pre)
			}
		} else {
			old++
		}
	}
	if want := (121 + 49) * 5 * 4 * 4 * 2; old != want {
		t.Errorf("%d cases without newline-terminated blocks, want %d", old, want)
	}
	if len(nlSeqs) != 660 || nl < 660*160/4 || nl > 660*160/2 {
		t.Errorf("newline-terminated blocks: %d sequences (want 660), %d cases", len(nlSeqs), nl)
	}
	seen := map[string]bool{}
	for _, c := range cs {
		l := c.Hist.Sexp()
		if seen[l] && c.Stream == "product" {
			t.Fatalf("duplicate case %s", l)
		}
		seen[l] = true
		got := hist.NewWorld().Exec(c.Hist)
		if v := p.Oracle(c, got); v != "" {
			t.Fatalf("oracle fails on the unchanged tree: %s\n%s", v, l)
		}
	}
	for _, c := range p.Regressions() {
		got := hist.NewWorld().Exec(c.Hist)
		v := p.Oracle(c, got)
		if strings.HasPrefix(c.Name, "gofmt-") { // exemplars of the open findings: the oracle must fail on them
			if v == "" {
				t.Errorf("open finding %s: the oracle is quiet", c.Name)
			}
			continue
		}
		if v != "" {
			t.Errorf("regression %s: %s", c.Name, v)
		}
	}
	c := c19Make(c19Cfg{Use: "qual", Others: "none", Hint: "none"})
	if p.Oracle(c, []hist.Obs{{Kind: "fmterr", Out: "x"}}) == "" {
		t.Errorf("format error accepted")
	}
}

func hasTag(c *Case, tag string) bool {
	for _, t := range c.Tags {
		if t == tag {
			return true
		}
	}
	return false
}

// preamble texts that end in a newline: what the oracle accepts and what it rejects
func TestC19TrailingNewline(t *testing.T) {
	pre := []string{"#include <math.h>\n", "#include <a.h>\nint f(void);\n", "#include <z.h>"}
	ref := "var _ = C." + c19Ref + "\n"
	good := "package p\n\n/*\n#include <math.h>\n*/\n/*\n#include <a.h>\nint f(void);\n*/\n// #include <z.h>\nimport \"C\"\n\n" + ref
	if m := C19Check(true, false, pre, nil, good); m != "" {
		t.Errorf("good output rejected: %s", m)
	}
	for name, c := range map[string][2]string{
		// the closing marker is followed by an empty line: the comment is detached from import "C"
		"blank line after a block":  {"package p\n\n/*\n#include <math.h>\n*/\n/*\n#include <a.h>\nint f(void);\n*/\n// #include <z.h>\n\nimport \"C\"\n\n" + ref, "no comment directly above"},
		"blank line between blocks": {"package p\n\n/*\n#include <math.h>\n*/\n\n/*\n#include <a.h>\nint f(void);\n*/\n// #include <z.h>\nimport \"C\"\n\n" + ref, "not the preamble in the order given"},
		// a one-line text with trailing newline written as a // line: the newline ends the comment and detaches it
		"line comment plus newline":        {"package p\n\n// #include <math.h>\n\n/*\n#include <a.h>\nint f(void);\n*/\n// #include <z.h>\nimport \"C\"\n\n" + ref, "not the preamble in the order given"},
		"newline-terminated block dropped": {"package p\n\n/*\n#include <a.h>\nint f(void);\n*/\n// #include <z.h>\nimport \"C\"\n\n" + ref, "not the preamble in the order given"},
		"unterminated block":               {"package p\n\n/*\n#include <math.h>\nimport \"C\"\n\n" + ref, "does not parse"},
	} {
		if m := C19Check(true, false, pre, nil, c[0]); !strings.Contains(m, c[1]) {
			t.Errorf("%s: want %q, got %q", name, c[1], m)
		}
	}
}

func TestC19CommentLines(t *testing.T) {
	for in, want := range map[string]string{
		"// a":                 "a",
		"//a":                  "a",
		"/* a */":              "a",
		"/*\na\n  b\n*/":       "a|b",
		"/* a\n\n b */":        "a|b",
		"//":                   "",
		"/**/":                 "",
		"// #include <x.h>  ":  "#include <x.h>",
		"/*\n#include <x.h>\n": "#include <x.h>",
	} {
		if got := strings.Join(commentLines(in), "|"); got != want {
			t.Errorf("%q: %q, want %q", in, got, want)
		}
	}
}

// Mixed preamble forms: every block reaches the doc comment of import "C" as its own lines.
func TestC19OracleMixedForms(t *testing.T) {
	ref := "var _ = C." + c19Ref + "\n"
	var pre []string
	for i, s := range []byte("olkmeKb") {
		pre = append(pre, c19MixedBlock(s, i))
	}
	good := "package p\n// #include <one0.h>\n// #cgo LDFLAGS: -lrawline1\n/* #include <rawblock2.h> */\n/*\n#include <multi3.h>\nint f3(void);\n*/\n//\n/*\n#include <rawmulti5.h>\nint k5(void);\n*/\n/*\n#include <gap6.h>\n\nint h6(void);\n*/\nimport \"C\"\n" + ref
	if v := C19Check(true, false, pre, nil, good); v != "" {
		t.Fatalf("good mixed preamble rejected: %s", v)
	}
	bad := map[string]string{
		"joined into one comment, raw blocks nested": "package p\n/*\n#include <one0.h>\n// #cgo LDFLAGS: -lrawline1\n/* #include <rawblock2.h>\n#include <multi3.h>\nint f3(void);\n\n#include <rawmulti5.h>\nint k5(void);\n#include <gap6.h>\n\nint h6(void);\n*/\nimport \"C\"\n" + ref,
		"raw line block commented out":               strings.Replace(good, "// #cgo LDFLAGS: -lrawline1", "// // #cgo LDFLAGS: -lrawline1", 1),
		"two blocks swapped":                         strings.Replace(strings.Replace(good, "// #include <one0.h>\n", "", 1), "/* #include <rawblock2.h> */\n", "/* #include <rawblock2.h> */\n// #include <one0.h>\n", 1),
		"empty block becomes an empty line":          strings.Replace(good, "*/\n//\n/*", "*/\n\n/*", 1),
		"last block detached":                        strings.Replace(good, "*/\nimport \"C\"", "*/\n\nimport \"C\"", 1),
	}
	for name, src := range bad {
		if v := C19Check(true, false, pre, nil, src); v == "" {
			t.Errorf("%s: accepted", name)
		}
	}
	r := rand.New(rand.NewSource(3))
	forms := map[string]bool{}
	for _, c := range c19Mixed(r, "quick") {
		cfg := c.Meta["cfg"].(c19Cfg)
		if len(cfg.Pre) < 1 || len(cfg.Pre) > 5 || c.Stream != "mixed" {
			t.Fatalf("mixed case with %d blocks in stream %s", len(cfg.Pre), c.Stream)
		}
		forms[cfg.Styles] = true
	}
	if len(forms) < 3905 {
		t.Errorf("only %d distinct sequences of forms", len(forms))
	}
}
