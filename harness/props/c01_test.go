package props

import (
	"fmt"
	"go/parser"
	"go/token"
	"math/rand"
	"os"
	"strings"
	"testing"

	"verifharness/hist"
)

func c01ErrLines(src string, err error) string {
	var ln int
	if _, e := fmt.Sscanf(strings.SplitN(err.Error(), ":", 2)[1], "%d", &ln); e != nil || ln == 0 {
		return src
	}
	lines := strings.Split(src, "\n")
	lo, hi := ln-3, ln+1
	if lo < 0 {
		lo = 0
	}
	if hi > len(lines) {
		hi = len(lines)
	}
	return strings.Join(lines[lo:hi], "\n")
}

// every generated program must parse (go/parser's own checks included) and translate
func TestC01GeneratorParses(t *testing.T) {
	r := rand.New(rand.NewSource(11))
	n := 6000
	if testing.Short() {
		n = 300
	}
	if e := os.Getenv("C01_GEN_N"); e != "" {
		fmt.Sscan(e, &n)
	}
	tags := map[string]int{}
	bad := 0
	for i := 0; i < n; i++ {
		if i%1000 == 999 {
			r = rand.New(rand.NewSource(int64(i)))
		}
		depth, size := 2+r.Intn(11), 30+r.Intn(400)
		if i%10 == 0 {
			size = 600 + r.Intn(1500)
		}
		if i%12 == 5 {
			depth = -12
		}
		src, tg := GenSource(r, depth, size)
		if _, err := parser.ParseFile(token.NewFileSet(), "g.go", src, 0); err != nil {
			bad++
			if bad <= 5 {
				t.Errorf("program %d does not parse: %v\n%s", i, err, c01ErrLines(src, err))
			}
		}
		for _, x := range tg {
			tags[x]++
		}
	}
	for _, want := range []string{"gen:slice3", "gen:bare-return", "gen:empty-case-body", "gen:label-before-brace", "gen:huge-int", "gen:huge-float",
		"gen:for-bare", "gen:for-cond", "gen:for-clauses-true-true-true", "gen:for-clauses-false-false-false", "gen:for-clauses-true-false-false",
		"gen:for-clauses-false-true-false", "gen:for-clauses-false-false-true", "gen:range-bare", "gen:range-key-value", "gen:typeparams", "gen:union", "gen:select", "gen:typeswitch"} {
		if tags[want] == 0 {
			t.Errorf("the generator never produced %s", want)
		}
	}
	if bad > 0 {
		t.Errorf("%d of %d programs do not parse", bad, n)
	}
}

// the implementation's output for generated programs re-parses to the original (unchanged tree)
func TestC01RoundTripGenerated(t *testing.T) {
	p := &c01{sum: map[string]*c01Sum{}}
	r := rand.New(rand.NewSource(3))
	n := 400
	if testing.Short() {
		n = 60
	}
	skipped := 0
	for i := 0; i < n; i++ {
		src, _ := GenSource(r, 2+r.Intn(11), 30+r.Intn(300))
		c := p.c01Case("generated", "g.go", []byte(src), rand.New(rand.NewSource(r.Int63())), "", genPkgNameOrStd, false)
		if c.Meta["skip"] == "gofmt-changes-the-original" {
			skipped++
			continue
		}
		if c.Meta["skip"] != nil {
			t.Errorf("generated program skipped (%v):\n%s", c.Meta["skip"], src)
			continue
		}
		_ = c.Hist.Sexp()
		got := hist.NewWorld().Exec(c.Hist)
		if v := p.Oracle(c, got); v != "" {
			t.Errorf("program %d: %s\n--- source\n%s", i, v, src)
			if t.Failed() && i > 20 {
				return
			}
		}
	}
	if skipped > n/20 {
		t.Errorf("%d of %d generated programs are not kept by gofmt itself", skipped, n)
	}
	for _, c := range p.Regressions() {
		if c.Meta["skip"] != nil {
			t.Errorf("regression %s skipped: %v", c.Name, c.Meta["skip"])
			continue
		}
		if v := p.Oracle(c, hist.NewWorld().Exec(c.Hist)); v != "" {
			t.Errorf("regression %s: %s", c.Name, v)
		}
	}
}

const c01Orig = `package p

import (
	"fmt"
	r "math/rand"
)

func F(a, b int) int {
	x := (a + b) * 0x10
	for i := 0; i < 3; i++ {
		fmt.Println(x, "s", 'c', 1.5, r.Int())
	}
	switch {
	case a > b:
	default:
		return a[1:2:3]
	}
	return x
}
`

func TestC01OracleVerdicts(t *testing.T) {
	good := []string{
		c01Orig,
		strings.Replace(c01Orig, "(a + b) * 0x10", "((a + b) * 16)", 1), // redundant parentheses, literal spelling
		strings.Replace(c01Orig, "import (\n\t\"fmt\"\n\tr \"math/rand\"\n)", "import \"fmt\"\nimport r \"math/rand\"", 1),
		"// header\n" + strings.Replace(c01Orig, "\treturn x\n", "\treturn x // c\n", 1),
	}
	for i, g := range good {
		if v := C01Verdict("o.go", []byte(c01Orig), g); v != "" {
			t.Errorf("good output %d rejected: %s", i, v)
		}
	}
	bad := map[string]string{
		"changed operator":    strings.Replace(c01Orig, "a + b", "a - b", 1),
		"dropped statement":   strings.Replace(c01Orig, "\t\tfmt.Println(x, \"s\", 'c', 1.5, r.Int())\n", "", 1),
		"changed literal":     strings.Replace(c01Orig, "0x10", "10", 1),
		"changed string":      strings.Replace(c01Orig, `"s"`, `"S"`, 1),
		"changed rune":        strings.Replace(c01Orig, "'c'", "'d'", 1),
		"changed float":       strings.Replace(c01Orig, "1.5", "1.50001", 1),
		"renamed import":      strings.Replace(strings.Replace(c01Orig, `r "math/rand"`, `rand1 "math/rand"`, 1), "r.Int()", "rand1.Int()", 1),
		"alias lost":          strings.Replace(strings.Replace(c01Orig, `r "math/rand"`, `"math/rand"`, 1), "r.Int()", "rand.Int()", 1),
		"import missing":      strings.Replace(c01Orig, "\t\"fmt\"\n", "", 1),
		"for clause dropped":  strings.Replace(c01Orig, "for i := 0; i < 3; i++", "for i := 0; i < 3; ", 1),
		"case body gained":    strings.Replace(c01Orig, "case a > b:\n", "case a > b:\n\t\treturn a[1:2:3]\n", 1),
		"3-index became 2":    strings.Replace(c01Orig, "a[1:2:3]", "a[1:2]", 1),
		"return became bare":  strings.Replace(c01Orig, "\treturn x\n", "\treturn\n", 1),
		"precedence lost":     strings.Replace(c01Orig, "(a + b) * 0x10", "a + b*0x10", 1),
		"does not parse":      strings.Replace(c01Orig, "x := ", "x := := ", 1),
		"package renamed":     strings.Replace(c01Orig, "package p", "package q", 1),
		"declaration missing": "package p\n\nimport (\n\t\"fmt\"\n\tr \"math/rand\"\n)\n",
		"case braces kept":    strings.Replace(c01Orig, "default:\n\t\treturn a[1:2:3]\n", "default:\n\t\t{\n\t\t\treturn a[1:2:3]\n\t\t}\n", 1),
	}
	for name, b := range bad {
		if b == c01Orig {
			t.Fatalf("%s: mutation did not apply", name)
		}
		if v := C01Verdict("o.go", []byte(c01Orig), b); v == "" {
			t.Errorf("bad output accepted: %s", name)
		}
	}
}

func TestC01OracleObservations(t *testing.T) {
	p := &c01{sum: map[string]*c01Sum{}}
	c := p.c01Case("t", "o.go", []byte(c01Orig), nil, "", genPkgNameOrStd, false)
	if c.Meta["skip"] != nil {
		t.Fatal(c.Meta["skip"])
	}
	got := hist.NewWorld().Exec(c.Hist)
	if v := p.Oracle(c, got); v != "" {
		t.Fatalf("unchanged tree: %s", v)
	}
	for _, o := range [][]hist.Obs{
		{{Kind: "panic", Msg: "boom"}},
		{{Kind: "fmterr", Msg: "Error 1:1: expected x", Out: "package p\nfunc"}},
		{{Kind: "write", Out: ""}},
		{{Kind: "write", Out: "package p\n"}},
		{{Kind: "write", Out: got[0].Out, Failed: true}},
		{},
		{got[0], got[0]},
		{{Kind: "write", Out: strings.Replace(got[0].Out, "a + b", "a | b", 1)}},
	} {
		if v := p.Oracle(c, o); v == "" {
			t.Errorf("bad observation accepted: %v", o)
		}
	}
	// a skipped file's marker case
	m := p.c01Case("t", "d.go", []byte("package q\nimport . \"fmt\"\nvar _ = Println\n"), nil, "", genPkgNameOrStd, false)
	if m.Meta["skip"] != "dot-import" || m.NonTrivial {
		t.Fatalf("dot import not skipped: %v", m.Meta)
	}
	if v := p.Oracle(m, hist.NewWorld().Exec(m.Hist)); v != "" {
		t.Error(v)
	}
	if v := p.Oracle(m, []hist.Obs{{Kind: "write", Out: "package z\n"}}); v == "" {
		t.Error("marker: wrong package accepted")
	}
}

func TestC01Shrink(t *testing.T) {
	p := &c01{sum: map[string]*c01Sum{}}
	c := p.c01Case("t", "o.go", []byte(c01Orig), nil, "", genPkgNameOrStd, false)
	cands := p.Shrink(c)
	if len(cands) < 4 {
		t.Fatalf("only %d shrink candidates", len(cands))
	}
	for _, k := range cands {
		if v := p.Oracle(k, hist.NewWorld().Exec(k.Hist)); v != "" {
			t.Errorf("shrunk candidate fails on the unchanged tree: %s\n%s", v, k.Meta["src"])
		}
	}
}

// Documents a boundary seen on the unchanged tree (reported, kept out of the streams): an
// import whose local name is in jennifer's reserved list (predeclared identifiers, err)
// is renamed by File.register, so `import copy "x.y/copy"` comes back as copy1.  The test
// only requires that the oracle notices whenever the implementation does that.
func TestC01ReservedImportName(t *testing.T) {
	p := &c01{sum: map[string]*c01Sum{}}
	for _, name := range []string{"copy", "new", "err", "len", "string", "ok2"} {
		src := "package p\n\nimport " + name + " \"x.y/z\"\n\nvar _ = " + name + ".X\n"
		c := p.c01Case("t", "o.go", []byte(src), nil, "", genPkgNameOrStd, false)
		if c.Meta["skip"] != nil {
			t.Fatalf("%s: skipped %v", name, c.Meta["skip"])
		}
		got := hist.NewWorld().Exec(c.Hist)
		v := p.Oracle(c, got)
		kept := strings.Contains(got[0].Out, "import "+name+" \"x.y/z\"")
		if kept != (v == "") {
			t.Errorf("%s: import kept = %v but verdict %q", name, kept, v)
		}
		if !kept {
			t.Logf("import %s \"x.y/z\" is written as: %s", name, strings.Split(got[0].Out, "\n")[2])
		}
	}
}
