package props

import (
	"math/rand"
	"os"
	"strings"

	"verifharness/hist"
)

var namePool = []string{"foo", "bar", "rand", "d", "fmt", "x", "y1", "T", "pkg", "util", "os2"}
var prefixPool = []string{"pkg", "p", "gen", "x1", "P_"}

// FileSetup draws constructor + settings + hints + anon for file f over the given paths.
// The hints (ImportName / ImportAlias / ImportNames) and the 0..2 Anon operations come in a
// random relative order; an Anon of a path followed by a hint for the same path is frequent.
type SetupOpts struct {
	Paths     []string
	NoDot     bool
	NoCgo     bool
	NoLocal   bool
	HintPool  []string // names for ImportName/ImportAlias; default namePool
	ManyHints int      // extra unused hints
	// BlankHints: about a quarter of the ManyHints entries are hints NAMED "_" (ImportName(p, "_")
	// or ImportAlias(p, "_")) - for paths nothing references, so they must never produce an import.
	BlankHints bool
}

// Header / package comment texts.  Beyond plain ones: texts gofmt ALTERS (trailing blanks or
// a tab: gofmt trims them; a `+build` line as header: gofmt adds the matching //go:build line
// above it) and borderline ones (multi-line text, text ending in a newline, raw forms).  The
// `+build` text is a HEADER text only: as a trailing comment of a statement it is the recorded
// finding gofmt-hoists-plus-build-comment.
var headerPool = []string{"Code generated. DO NOT EDIT.", "two\nlines", "//go:build x",
	"trailing blanks  ", "trailing tab\t", "+build linux,amd64", "one\ntwo  \n\tthree\nfour", "ends in a newline\n", "/* x */", "//  raw with blanks  ", "/* raw\n   block */"}
var pkgCommentPool = []string{"Package p does things.", "multi\nline doc",
	"Package p trails.  ", "Package p tabs.\t", "Package p\n\nhas paragraphs  \nand more\n", "Package p ends in a newline.\n", "/* Package p raw. */", "//Package p raw line"}

// commentShape names the shape of a header / package comment text (for the tags).
func commentShape(t string) string {
	switch {
	case strings.HasPrefix(t, "+build"):
		return "plus-build"
	case strings.HasPrefix(t, "/*"):
		return "raw-block"
	case strings.HasPrefix(t, "//"):
		return "raw-line"
	case strings.HasSuffix(t, "\n"):
		return "ends-in-newline"
	case strings.HasSuffix(t, " ") || strings.HasSuffix(t, "\t"):
		return "trailing-blank"
	case strings.Contains(t, "\n"):
		return "multi-line"
	}
	return "plain"
}

// SetupTags are the feature tags of a setup drawn by FileSetup (or of any history):
//
//	header=<shape> pkgcomment=<shape>  shape of every header / package comment text
//	header-twice                         two HeaderComment calls
//	hint-repeated                        one path is given two hints with the SAME name (ImportAlias(p, ".")
//	                                     twice or three times, ImportAlias(p, "x") twice, ImportName(p, "n") then
//	                                     ImportAlias(p, "n"), ImportAlias then ImportName): the last hint wins and
//	                                     repeating a hint changes nothing
//	hint-repeated=dot                    ... and the repeated name is the dot
func SetupTags(h hist.History) []string {
	set := map[string]bool{}
	nheader := 0
	seen := map[[2]string]bool{} // (path, name) of the hints so far
	hint := func(p, n string) {
		if strings.HasPrefix(p, "unused.host/") {
			return // filler entries of the large hint tables (their paths repeat beyond 260 entries)
		}
		if seen[[2]string{p, n}] {
			set["hint-repeated"] = true
			if n == "." {
				set["hint-repeated=dot"] = true
			}
		}
		seen[[2]string{p, n}] = true
	}
	for _, op := range h {
		switch op.Kind {
		case "header":
			nheader++
			set["header="+commentShape(op.A)] = true
		case "pkgcomment":
			set["pkgcomment="+commentShape(op.A)] = true
		case "importname", "importalias":
			hint(op.A, op.B)
		case "importnames":
			for _, p := range op.Pairs {
				hint(p[0], p[1])
			}
		}
	}
	if nheader >= 2 {
		set["header-twice"] = true
	}
	return sortedKeys(set)
}

func FileSetup(r *rand.Rand, f int, o SetupOpts) (h hist.History, local string) {
	names := o.HintPool
	if names == nil {
		names = namePool
	}
	switch r.Intn(4) {
	case 0, 1:
		h = append(h, hist.Op{Kind: "newfile", F: f, A: "p"})
	case 2:
		local = pick(r, SafeLocal)
		if !o.NoLocal && len(o.Paths) > 0 && r.Intn(2) == 0 && safeLocal[pick(r, o.Paths)] {
			for _, p := range o.Paths {
				if safeLocal[p] {
					local = p
					break
				}
			}
		}
		h = append(h, hist.Op{Kind: "newfilepath", F: f, A: local})
	default:
		local = pick(r, PathPool)
		if !o.NoLocal && len(o.Paths) > 0 && r.Intn(2) == 0 {
			local = pick(r, o.Paths)
		}
		h = append(h, hist.Op{Kind: "newfilepathname", F: f, A: local, B: "q"})
	}
	if r.Intn(3) == 0 {
		h = append(h, hist.Op{Kind: "prefix", F: f, A: pick(r, prefixPool)})
	}
	// hints (in the order drawn; a later hint for a path replaces an earlier one)
	var hints hist.History
	nh := r.Intn(4)
	for i := 0; i < nh && len(o.Paths) > 0; i++ {
		p := pick(r, o.Paths)
		switch r.Intn(5) {
		case 0, 1:
			hints = append(hints, hist.Op{Kind: "importname", F: f, A: p, B: pick(r, names)})
		case 2, 3:
			a := pick(r, names)
			if !o.NoDot && r.Intn(4) == 0 {
				a = "."
			}
			hints = append(hints, hist.Op{Kind: "importalias", F: f, A: p, B: a})
		default:
			var pairs [][2]string
			seen := map[string]bool{}
			for j := 0; j < 1+r.Intn(3); j++ {
				q := pick(r, o.Paths)
				if !seen[q] {
					seen[q] = true
					pairs = append(pairs, [2]string{q, pick(r, names)})
				}
			}
			hints = append(hints, hist.Op{Kind: "importnames", F: f, Pairs: pairs})
		}
	}
	// repeated hints (1 case in 6): the same path is given the same name twice (or, for the
	// dot, three times), through the same or the other kind of hint; the repetitions are placed
	// at random (increasing) positions among the other hints
	if len(o.Paths) > 0 && r.Intn(6) == 0 {
		p := pick(r, o.Paths)
		n := pick(r, names)
		var rep hist.History
		k := r.Intn(5)
		if o.NoDot && k == 0 {
			k = 1
		}
		switch k {
		case 0: // ImportAlias(p, ".") twice or three times
			for j := 2 + r.Intn(2); j > 0; j-- {
				rep = append(rep, hist.Op{Kind: "importalias", F: f, A: p, B: "."})
			}
		case 1: // ImportAlias(p, "x") twice
			rep = hist.History{{Kind: "importalias", F: f, A: p, B: n}, {Kind: "importalias", F: f, A: p, B: n}}
		case 2: // ImportName(p, "n") then ImportAlias(p, "n")
			rep = hist.History{{Kind: "importname", F: f, A: p, B: n}, {Kind: "importalias", F: f, A: p, B: n}}
		case 3: // ImportAlias(p, "n") then ImportName(p, "n")
			rep = hist.History{{Kind: "importalias", F: f, A: p, B: n}, {Kind: "importname", F: f, A: p, B: n}}
		default: // ImportName(p, "n") twice, the second time through ImportNames
			rep = hist.History{{Kind: "importname", F: f, A: p, B: n}, {Kind: "importnames", F: f, Pairs: [][2]string{{p, n}}}}
		}
		at := 0
		for _, op := range rep {
			at += r.Intn(len(hints) - at + 1)
			hints = append(hints[:at:at], append(hist.History{op}, hints[at:]...)...)
			at++
		}
	}
	for i := 0; i < o.ManyHints; i++ {
		op := hist.Op{Kind: "importname", F: f, A: "unused.host/p" + string(rune('a'+i%26)) + string(rune('0'+i/26%10)), B: pick(r, names)}
		if o.BlankHints && r.Intn(4) == 0 {
			op.B = "_"
			if r.Intn(2) == 0 {
				op.Kind = "importalias"
			}
		}
		hints = append(hints, op)
	}
	// anonymous imports: none (1/2), one op (3/10) or two ops (2/10) of 1..2 paths each; a
	// path is drawn half of the time from o.Paths (the paths the hints name and the body
	// references), otherwise from PathPool
	var anons hist.History
	na := 0
	switch r.Intn(10) {
	case 0, 1, 2:
		na = 1
	case 3, 4:
		na = 2
	}
	for i := 0; i < na; i++ {
		var ps []string
		for j := 0; j < 1+r.Intn(2); j++ {
			p := pick(r, PathPool)
			if len(o.Paths) > 0 && r.Intn(2) == 0 {
				p = pick(r, o.Paths)
			}
			if p != local { // importing the file's own package is not a meaningful input
				ps = append(ps, p)
			}
		}
		anons = append(anons, hist.Op{Kind: "anon", F: f, Strs: ps})
	}
	// the relative order of Anon and the hints is random: every anon op is inserted at a
	// random position of the hint sequence (Anon before, between and after the hints)
	seq := hints
	for _, a := range anons {
		k := r.Intn(len(seq) + 1)
		seq = append(seq[:k:k], append(hist.History{a}, seq[k:]...)...)
	}
	// Anon(p) FOLLOWED by a hint for the same p: provoked in half of the cases that have an
	// anonymous import (a hint must never turn the anonymous import into something else
	// unless the path is referenced)
	if len(anons) > 0 && r.Intn(2) == 0 {
		type anonAt struct {
			k int
			p string
		}
		var cand []anonAt
		for k, op := range seq {
			if op.Kind == "anon" {
				for _, p := range op.Strs {
					cand = append(cand, anonAt{k, p})
				}
			}
		}
		if len(cand) > 0 {
			c := cand[r.Intn(len(cand))]
			k, p := c.k, c.p
			var op hist.Op
			switch r.Intn(4) {
			case 0:
				op = hist.Op{Kind: "importname", F: f, A: p, B: pick(r, names)}
			case 1:
				op = hist.Op{Kind: "importnames", F: f, Pairs: [][2]string{{p, pick(r, names)}}}
			default:
				a := pick(r, names)
				if !o.NoDot && r.Intn(3) == 0 {
					a = "."
				}
				op = hist.Op{Kind: "importalias", F: f, A: p, B: a}
			}
			at := k + 1 + r.Intn(len(seq)-k)
			seq = append(seq[:at:at], append(hist.History{op}, seq[at:]...)...)
		}
	}
	h = append(h, seq...)
	if !o.NoCgo && r.Intn(12) == 0 {
		h = append(h, hist.Op{Kind: "cgo", F: f, A: pick(r, []string{"#include <stdio.h>", "#include <a.h>\n#include <b.h>", "// raw form"})})
	}
	if r.Intn(6) == 0 {
		h = append(h, hist.Op{Kind: "header", F: f, A: pick(r, headerPool)})
		if r.Intn(4) == 0 { // a second HeaderComment call
			h = append(h, hist.Op{Kind: "header", F: f, A: pick(r, headerPool)})
		}
	}
	if r.Intn(6) == 0 {
		h = append(h, hist.Op{Kind: "pkgcomment", F: f, A: pick(r, pkgCommentPool)})
	}
	if r.Intn(12) == 0 {
		h = append(h, hist.Op{Kind: "canonical", F: f, A: pick(r, []string{"example.com/p", "a.b/\"q\"", "x/世界"})})
	}
	return h, local
}

func somePaths(r *rand.Rand, max int) []string {
	n := r.Intn(max + 1)
	seen := map[string]bool{}
	var out []string
	for len(out) < n {
		p := pick(r, PathPool)
		if !seen[p] {
			seen[p] = true
			out = append(out, p)
		}
	}
	return out
}

// SafeLocal: paths for which NewFilePath infers a usable package name (a path such as
// a.b/type makes `package type`, which is the caller's choice and outside every property).
var SafeLocal []string
var safeLocal = map[string]bool{}

// FreshProcessEnv: set (to anything) in the environment of the fresh-process children of C09
// (c09_spell.go).  In such a process the library must not have built anything before the job
// under test, so the measurement below is skipped; SafeLocal is then empty and the generators
// that draw from it (FileSetup) must not be used - the child only runs generators that do not.
const FreshProcessEnv = "VERIF_FRESH_PROCESS"

func init() {
	if os.Getenv(FreshProcessEnv) != "" {
		return
	}
	for _, p := range PathPool {
		w := hist.NewWorld()
		obs := w.Exec(hist.History{{Kind: "newfilepath", F: 0, A: p}, {Kind: "render", F: 0}})
		if len(obs) == 1 && obs[0].Kind == "write" {
			SafeLocal = append(SafeLocal, p)
			safeLocal[p] = true
		}
	}
}
