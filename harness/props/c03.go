package props

import (
	"fmt"
	"math/rand"

	"verifharness/hist"
)

// C03: every qualified identifier resolves to the package it was built with.
type c03 struct{}

func init() { Register(c03{}) }

func (c03) ID() string { return "C03" }

func refCaseRandom(r *rand.Rand, maxPaths int, o SetupOpts, hiddenRate int) *Case {
	paths := somePaths(r, maxPaths)
	if len(paths) == 0 {
		paths = []string{pick(r, PathPool)}
	}
	o.Paths = paths
	setup, local := FileSetup(r, 0, o)
	var refs, hidden []int
	for i := range paths {
		switch {
		case hiddenRate > 0 && r.Intn(hiddenRate) == 0:
			hidden = append(hidden, i)
		case hiddenRate > 0 && r.Intn(6) == 0:
			// named by hints / Anon only, referenced nowhere (streams with hidden references only)
		default:
			for k := 0; k < 1+r.Intn(3); k++ {
				refs = append(refs, i)
			}
		}
	}
	r.Shuffle(len(refs), func(a, b int) { refs[a], refs[b] = refs[b], refs[a] })
	rc, h := BuildRefCase(r, paths, setup, local, refs, hidden)
	h = append(h, hist.Op{Kind: "noformat", F: 0, Flag: r.Intn(2) == 0})
	h = append(h, hist.Op{Kind: "render", F: 0})
	h = append(h, hist.Op{Kind: "imports", F: 0})
	tags := []string{fmt.Sprintf("paths=%d", len(paths)), fmt.Sprintf("prefix=%v", rc.Prefix != ""), fmt.Sprintf("local=%v", local != "")}
	tags = append(tags, refAnonTags(rc, setup)...)
	for _, i := range refs {
		if SymbolThenDigit(paths[i]) {
			// a referenced path whose last element is symbol(s)+digit...: _3rd, .2fa, -9lives, é9x
			tags = append(tags, "path=symbol-then-digit")
			break
		}
	}
	return &Case{Hist: h, Stream: "random", NonTrivial: len(paths) > 1,
		Meta: map[string]interface{}{"rc": rc},
		Tags: tags}
}

// refAnonTags: anon-then-hint (an Anon of a path is followed by a hint for the same path),
// anon-then-hint-unreferenced (... and that path is referenced nowhere at a rendered
// position, so `_ "path"` must survive the hint), anon-referenced (an Anon path is also
// referenced: the reference replaces the anonymous import), two-anon (two Anon operations).
func refAnonTags(rc *RefCase, setup hist.History) []string {
	var tags []string
	if len(rc.AnonThenHint) > 0 {
		tags = append(tags, "anon-then-hint")
		for p := range rc.AnonThenHint {
			if !rc.Referenced(p) {
				tags = append(tags, "anon-then-hint-unreferenced")
				break
			}
		}
	}
	for p := range rc.Anon {
		if rc.Referenced(p) {
			tags = append(tags, "anon-referenced")
			break
		}
	}
	n := 0
	for _, op := range setup {
		if op.Kind == "anon" {
			n++
		}
	}
	if n >= 2 {
		tags = append(tags, "two-anon")
	}
	return tags
}

func (c03) Generate(r *rand.Rand, t string) []*Case {
	var out []*Case
	n := tier(t, 3000, 200000)
	for i := 0; i < n; i++ {
		max := 6
		if i%10 == 0 {
			max = 40
		}
		out = append(out, refCaseRandom(r, max, SetupOpts{NoCgo: true}, 0))
	}
	return out
}

func (c03) Compare(c *Case, exp, got []hist.Obs) string { return CompareAll(exp, got) }

func refOracle(c *Case, got []hist.Obs) string {
	rc := c.Meta["rc"].(*RefCase)
	o, ok := lastWrite(got)
	if !ok {
		return "no render observation"
	}
	if o.Kind != "write" {
		return "render of a valid file failed: " + o.String()
	}
	return rc.Resolve(o.Out)
}

func (c03) Oracle(c *Case, got []hist.Obs) string { return refOracle(c, got) }
