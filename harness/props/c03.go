package props

import (
	"fmt"
	"math/rand"
	"strings"

	"verifharness/hist"
)

// C03: every qualified identifier resolves to the package it was built with.
type c03 struct{}

func init() { Register(c03{}) }

func (c03) ID() string { return "C03" }

// cgo preamble texts (no trailing blanks, nothing gofmt alters: the oracle compares the
// comments above `import "C"` with these texts literally)
var cgoPreamblePool = []string{"#include <stdio.h>", "#include <a.h>\n#include <b.h>", "// raw form", "#cgo LDFLAGS: -lm", "/* raw block */", "int twice(int x) { return 2*x; }\n"}

// bases of the trailing-slash pairs: the path and the path + "/" are two different import
// paths with independent hints
var slashPairBases = []string{"a.b/yaml", "x.y/d", "gopkg.in/yaml.v3", "a.b/rand", "net/http", "a.b/x"}

// insertOps inserts every op of ops at a random position of setup behind the constructor
// and the prefix (index >= first), keeping the relative order of ops.
func insertOps(r *rand.Rand, setup hist.History, ops hist.History) hist.History {
	first := 1
	for first < len(setup) && setup[first].Kind == "prefix" {
		first++
	}
	at := first
	for _, op := range ops {
		at += r.Intn(len(setup) - at + 1)
		setup = append(setup[:at:at], append(hist.History{op}, setup[at:]...)...)
		at++
	}
	return setup
}

// refCaseRandom draws one file with traceable references (stream "random" of C03, stream
// "hidden+hints" of C04).
//
// Beyond the settings of FileSetup (o.NoCgo is honoured here, FileSetup itself never adds a
// preamble for these streams):
//
//	cgo shapes (1 case in 5 unless o.NoCgo): 1 or 2 CgoPreamble blocks and nothing else that
//	  names C (cgo-preamble-only), Anon("C") with / without a preamble (cgo-anon), references
//	  Qual("C", name) with / without a preamble and with / without Anon("C") (cgo-qual); in a
//	  quarter of the cases with a reference a hint for the path "C" itself (ImportName("C", n),
//	  ImportAlias("C", n), ImportAlias("C", ".")) which must change nothing (cgo-hint-on-C).
//	  Half of these cases have only 0..2 other paths (tag other-imports=N: number of import
//	  specs other than "C" the file must have).  ImportName(p, "C") is never generated
//	  (recorded finding hint-named-C).
//	keyword paths (1 case in 10 forced, many more by chance): a path whose guessed alias is a
//	  keyword is referenced in a file WITHOUT PackagePrefix (a prefix makes any name legal):
//	  tag keyword-path-no-prefix (only when no hint names that path and it is not local).
//	trailing-slash pair (1 case in 12): p and p + "/" with ImportName hints of DIFFERENT names
//	  (one ImportNames map, two ImportName calls, or one of each), both or one referenced.
//	blank hints (o.BlankHints, 1 case in 3): 1..3 hints NAMED "_" (ImportName or ImportAlias)
//	  for paths that are referenced nowhere (paths of the case that drew no reference, or
//	  fresh unused paths); tag blank-hint-unreferenced.
func refCaseRandom(r *rand.Rand, maxPaths int, o SetupOpts, hiddenRate int) *Case {
	paths := somePaths(r, maxPaths)
	// ---- cgo shape
	nPre, anonC, qualC, hintC := 0, false, false, false
	cgoShape := !o.NoCgo && r.Intn(5) == 0
	if cgoShape {
		switch r.Intn(7) {
		case 0, 1:
			nPre = 1 + r.Intn(2)
		case 2:
			nPre, anonC = 1+r.Intn(2), true
		case 3:
			anonC = true
		case 4, 5:
			nPre, qualC = r.Intn(3), true
		default:
			nPre, qualC, anonC = r.Intn(3), true, true
		}
		hintC = qualC && r.Intn(4) == 0
		if r.Intn(2) == 0 { // few other paths: 0, 1, 2
			k := r.Intn(3)
			if len(paths) > k {
				paths = paths[:k]
			}
		}
	} else if len(paths) == 0 {
		paths = []string{pick(r, PathPool)}
	}
	idx := func(p string) int {
		for i, q := range paths {
			if q == p {
				return i
			}
		}
		return -1
	}
	// ---- a keyword path in a file without prefix
	forced := map[int]bool{} // indices that are referenced whatever the draw below says
	noPrefix := false
	if r.Intn(10) == 0 {
		kp := pick(r, KeywordPaths)
		if idx(kp) < 0 {
			paths = append(paths, kp)
		}
		forced[idx(kp)] = true
		noPrefix = true
	}
	// ---- a trailing-slash pair
	pairA, pairB := -1, -1
	if r.Intn(12) == 0 {
		base := pick(r, slashPairBases)
		for _, p := range []string{base, base + "/"} {
			if idx(p) < 0 {
				paths = append(paths, p)
			}
		}
		pairA, pairB = idx(base), idx(base+"/")
		if r.Intn(2) == 0 {
			pairA, pairB = pairB, pairA
		}
		forced[pairA] = true // pairB: referenced or not, by the draw below
	}

	o.Paths = paths
	fo := o
	fo.NoCgo = true
	setup, local := FileSetup(r, 0, fo)
	if noPrefix {
		var s2 hist.History
		for _, op := range setup {
			if op.Kind != "prefix" {
				s2 = append(s2, op)
			}
		}
		setup = s2
	}
	if qualC {
		paths = append(paths, "C")
	}

	// ---- which paths are referenced, hidden, or named by hints / Anon only
	var refs, hidden []int
	unref := []string{}
	for i := range paths {
		switch {
		case forced[i]:
			for k := 0; k < 1+r.Intn(3); k++ {
				refs = append(refs, i)
			}
		case hiddenRate > 0 && r.Intn(hiddenRate) == 0:
			hidden = append(hidden, i)
		case hiddenRate > 0 && r.Intn(6) == 0, i == pairB && r.Intn(3) == 0:
			// named by hints / Anon only, referenced nowhere
			if paths[i] != "C" {
				unref = append(unref, paths[i])
			}
		default:
			for k := 0; k < 1+r.Intn(3); k++ {
				refs = append(refs, i)
			}
		}
	}
	r.Shuffle(len(refs), func(a, b int) { refs[a], refs[b] = refs[b], refs[a] })

	// ---- further setup operations, inserted at random positions behind the constructor
	var extra hist.History
	for i := 0; i < nPre; i++ {
		extra = append(extra, hist.Op{Kind: "cgo", F: 0, A: pick(r, cgoPreamblePool)})
	}
	if anonC {
		strs := []string{"C"}
		if r.Intn(3) == 0 { // Anon("C") shares its call with another path
			if p := pick(r, PathPool); p != local {
				strs = append(strs, p)
				r.Shuffle(len(strs), func(a, b int) { strs[a], strs[b] = strs[b], strs[a] })
			}
		}
		k := r.Intn(len(extra) + 1) // before, between or behind the preambles
		extra = append(extra[:k:k], append(hist.History{{Kind: "anon", F: 0, Strs: strs}}, extra[k:]...)...)
	}
	setup = insertOps(r, setup, extra)
	if hintC {
		var op hist.Op
		switch r.Intn(3) {
		case 0:
			op = hist.Op{Kind: "importname", F: 0, A: "C", B: pick(r, namePool)}
		case 1:
			op = hist.Op{Kind: "importalias", F: 0, A: "C", B: pick(r, namePool)}
		default:
			op = hist.Op{Kind: "importalias", F: 0, A: "C", B: "."}
			if o.NoDot {
				op.B = "cc"
			}
		}
		setup = insertOps(r, setup, hist.History{op})
	}
	if pairA >= 0 {
		n := pick(r, namePool)
		a, b := [2]string{paths[pairA], n}, [2]string{paths[pairB], n + "v2"}
		var ops hist.History
		switch r.Intn(3) {
		case 0:
			pairs := [][2]string{a, b}
			if r.Intn(2) == 0 {
				pairs = [][2]string{b, a}
			}
			ops = hist.History{{Kind: "importnames", F: 0, Pairs: pairs}}
		case 1:
			ops = hist.History{{Kind: "importname", F: 0, A: a[0], B: a[1]}, {Kind: "importname", F: 0, A: b[0], B: b[1]}}
		default:
			ops = hist.History{{Kind: "importnames", F: 0, Pairs: [][2]string{a}}, {Kind: "importname", F: 0, A: b[0], B: b[1]}}
		}
		setup = insertOps(r, setup, ops)
	}
	if o.BlankHints && r.Intn(3) == 0 {
		var ops hist.History
		for k := 1 + r.Intn(3); k > 0; k-- {
			p := fmt.Sprintf("unused.host/b%d", r.Intn(5))
			if len(unref) > 0 && r.Intn(2) == 0 {
				p = pick(r, unref)
			}
			ops = append(ops, hist.Op{Kind: pick(r, []string{"importname", "importalias"}), F: 0, A: p, B: "_"})
		}
		setup = insertOps(r, setup, ops)
	}

	rc, h := BuildRefCase(r, paths, setup, local, refs, hidden)
	h = append(h, hist.Op{Kind: "noformat", F: 0, Flag: r.Intn(2) == 0})
	h = append(h, hist.Op{Kind: "render", F: 0})
	h = append(h, hist.Op{Kind: "imports", F: 0})
	tags := []string{fmt.Sprintf("paths=%d", len(paths)), fmt.Sprintf("prefix=%v", rc.Prefix != ""), fmt.Sprintf("local=%v", local != "")}
	tags = append(tags, refAnonTags(rc, setup)...)
	tags = append(tags, SetupTags(setup)...)
	tags = append(tags, refShapeTags(rc, setup, pairA >= 0)...)
	for _, i := range refs {
		if SymbolThenDigit(paths[i]) {
			// a referenced path whose last element is symbol(s)+digit...: _3rd, .2fa, -9lives, é9x
			tags = append(tags, "path=symbol-then-digit")
			break
		}
	}
	// NonTrivial: at least two paths (so that names can collide and references can be
	// confused), or a cgo shape (the "C" import is subject to rules of its own)
	return &Case{Hist: h, Stream: "random", NonTrivial: len(paths) > 1 || rc.Cgo || rc.Anon["C"],
		Meta: map[string]interface{}{"rc": rc},
		Tags: tags}
}

// refShapeTags: the tags of the cgo shapes, of keyword paths referenced without prefix, of
// trailing-slash pairs and of blank hints, computed from the bookkeeping of the case (not
// from what the generator intended).
func refShapeTags(rc *RefCase, setup hist.History, pair bool) []string {
	var tags []string
	hasC := false
	for _, p := range rc.Paths {
		if p == "C" {
			hasC = true
		}
	}
	anonC, qualC := rc.Anon["C"], rc.Referenced("C")
	if rc.Cgo || anonC || hasC {
		if rc.Cgo {
			tags = append(tags, fmt.Sprintf("cgo-preambles=%d", len(rc.Preambles)))
		}
		switch {
		case rc.Cgo && !anonC && !hasC:
			tags = append(tags, "cgo-preamble-only")
		}
		if anonC {
			tags = append(tags, "cgo-anon")
			if rc.Cgo {
				tags = append(tags, "cgo-anon+preamble")
			} else {
				tags = append(tags, "cgo-anon-no-preamble")
			}
		}
		if qualC {
			tags = append(tags, "cgo-qual")
			if rc.Cgo {
				tags = append(tags, "cgo-qual+preamble")
			} else {
				tags = append(tags, "cgo-qual-no-preamble")
			}
		} else if hasC {
			tags = append(tags, "cgo-qual-hidden") // Qual("C", ..) only at positions that render nothing
		}
		if _, ok := rc.Hints["C"]; ok {
			tags = append(tags, "cgo-hint-on-C")
		}
		others := map[string]bool{}
		for i, p := range rc.Paths {
			if rc.Rendered[i] && p != "C" && p != rc.Local {
				others[p] = true
			}
		}
		for p := range rc.Anon {
			if p != "C" && p != rc.Local {
				others[p] = true
			}
		}
		n := fmt.Sprint(len(others))
		if len(others) >= 3 {
			n = "3+"
		}
		tags = append(tags, "other-imports="+n)
		if rc.Cgo && !anonC && !hasC {
			tags = append(tags, "cgo-preamble-only+other-imports="+n)
		}
	}
	if rc.Prefix == "" {
		for i, p := range rc.Paths {
			if _, hinted := rc.Hints[p]; rc.Rendered[i] && IsKeywordPath(p) && p != rc.Local && !hinted {
				tags = append(tags, "keyword-path-no-prefix")
				break
			}
		}
	}
	if pair {
		tags = append(tags, "trailing-slash-pair")
		n := 0
		for i, p := range rc.Paths {
			if rc.Rendered[i] && (has(rc.Paths, p+"/") || (len(p) > 0 && p[len(p)-1] == '/' && has(rc.Paths, p[:len(p)-1]))) {
				n++
			}
		}
		if n >= 2 {
			tags = append(tags, "trailing-slash-pair-both-referenced")
		}
	}
	blank := false
	for _, op := range setup {
		var ps [][2]string
		switch op.Kind {
		case "importname", "importalias":
			ps = [][2]string{{op.A, op.B}}
		case "importnames":
			ps = op.Pairs
		}
		for _, p := range ps {
			if p[1] != "_" {
				continue
			}
			blank = true
			for i, q := range rc.Paths {
				if q == p[0] && (rc.Rendered[i] || rc.Hidden[i]) {
					// outside the domain: a `_` hint for a referenced path (the generator never does that)
					panic("harness: blank hint for the referenced path " + q)
				}
			}
		}
	}
	if blank {
		tags = append(tags, "blank-hint-unreferenced")
	}
	return tags
}

func has(l []string, s string) bool {
	for _, x := range l {
		if x == s {
			return true
		}
	}
	return false
}

// refAnonTags: anon-then-hint (an Anon of a path is followed by a hint for the same path),
// anon-then-hint-unreferenced (... and that path is referenced nowhere at a rendered
// position, so `_ "path"` must survive the hint), anon-referenced (an Anon path is also
// referenced: the reference replaces the anonymous import), two-anon (two Anon operations).
func refAnonTags(rc *RefCase, setup hist.History) []string {
	var tags []string
	if len(rc.AnonThenHint) > 0 {
		tags = append(tags, "anon-then-hint")
		for p := range rc.AnonThenHint {
			if !rc.Referenced(p) {
				tags = append(tags, "anon-then-hint-unreferenced")
				break
			}
		}
	}
	for p := range rc.Anon {
		if rc.Referenced(p) {
			tags = append(tags, "anon-referenced")
			break
		}
	}
	n := 0
	for _, op := range setup {
		if op.Kind == "anon" {
			n++
		}
	}
	if n >= 2 {
		tags = append(tags, "two-anon")
	}
	return tags
}

func (c03) Generate(r *rand.Rand, t string) []*Case {
	var out []*Case
	n := tier(t, 3000, 200000)
	for i := 0; i < n; i++ {
		max := 6
		if i%10 == 0 {
			max = 40
		}
		out = append(out, refCaseRandom(r, max, SetupOpts{}, 0))
	}
	for i, n := 0, tier(t, 800, 80000); i < n; i++ {
		out = append(out, c03CollisionCase(r, i))
	}
	// round 6 (c03_insert.go), drawn after everything older
	for i, n := 0, tier(t, 700, 12000); i < n; i++ {
		out = append(out, c03InsertCase(r, i))
	}
	// round 7 (c03_dictkey.go), drawn after everything older
	out = append(out, c03DictKeyCases(r, t)...)
	out = append(out, c03UnicodeCases(r, t)...)
	return out
}

// ---- stream "collision-structure" --------------------------------------------------------
//
// The STRUCTURE of a name collision, which the random stream (a handful of paths drawn from a
// fixed pool) never builds:
//
//	colliders   3..7 (1 case in 8: 11..14, so that two-digit numbers are handed out) distinct
//	            paths whose name is the same base: plain (h3.io/store), other spellings that
//	            guess to the same name (Store, -store-, store/, 9store, st.ore), standard-library
//	            paths whose declared name is the base (math/rand + crypto/rand), and paths given
//	            the base as ImportName / ImportAlias hint;
//	numbered    1..3 paths whose OWN name is base+number - guessed (kv.io/store2, kv.io/Store-10)
//	            or hinted (ImportName / ImportAlias "store2") - with numbers around those the
//	            colliders are about to be given (1, 2, 3, k-1, k, k+1, 10, 11, 01);
//	prefixed    with PackagePrefix P: hints named P_base and P_base+number (the name that ends up
//	            in the import block after the prefix is added must be unique too);
//	order       the numbered paths are referenced before all colliders, after all of them, after
//	            the j-th collider for every j, or everything is shuffled;
//	file        package name p, the base itself or base+number; NewFilePathName with one of the
//	            colliders (or numbered paths) as the local path, which is then written bare.
//
// Oracle (refOracle): all import names of the rendered file are pairwise distinct legal
// identifiers and each traced qualifier resolves to the path it was built with.
var c03Bases = []string{"store", "d", "rand", "x", "pkg", "x1", "fmt", "template", "type", "len", "a0", "v2"}

var c03StdByName = map[string][]string{"rand": {"math/rand", "crypto/rand"}, "fmt": {"fmt"}, "template": {"text/template", "html/template"}}

func c03CollisionCase(r *rand.Rand, i int) *Case {
	base := c03Bases[i%len(c03Bases)]
	k := 3 + r.Intn(5)
	if i%8 == 7 {
		k = 11 + r.Intn(4)
	}
	prefix := ""
	if r.Intn(3) == 0 {
		prefix = pick(r, prefixPool)
	}
	var paths []string
	seen := map[string]bool{}
	var hints hist.History
	tagset := map[string]bool{}
	add := func(p string) int {
		if seen[p] {
			return -1
		}
		seen[p] = true
		paths = append(paths, p)
		return len(paths) - 1
	}
	hint := func(p, name string) {
		kind := pick(r, []string{"importname", "importalias"})
		hints = append(hints, hist.Op{Kind: kind, F: 0, A: p, B: name})
	}
	// ---- colliders
	var colliders []int
	std := append([]string{}, c03StdByName[base]...)
	for tries := 0; len(colliders) < k && tries < 200; tries++ {
		h := r.Intn(60)
		var p string
		switch r.Intn(12) {
		case 0:
			p = fmt.Sprintf("h%d.io/%s%s", h, strings.ToUpper(base[:1]), base[1:])
		case 1:
			p = fmt.Sprintf("h%d.io/-%s-", h, base)
		case 2:
			p = fmt.Sprintf("h%d.io/%s/", h, base)
		case 3:
			p = fmt.Sprintf("h%d.io/9%s", h, base)
		case 4:
			p = fmt.Sprintf("h%d.io/%s.%s", h, base[:1], base[1:])
		case 5:
			if len(std) > 0 {
				p, std = std[0], std[1:]
				tagset["collider=std-name"] = true
				break
			}
			fallthrough
		case 6:
			// a path with an unrelated element that is GIVEN the base as its name
			p = fmt.Sprintf("z%d.io/other%d", h, r.Intn(9))
			if seen[p] {
				continue
			}
			hint(p, base)
			tagset["collider=hinted"] = true
		default:
			p = fmt.Sprintf("h%d.io/%s", h, base)
		}
		if j := add(p); j >= 0 {
			colliders = append(colliders, j)
		}
	}
	// ---- numbered paths
	nums := []string{"1", "2", "3", fmt.Sprint(k - 1), fmt.Sprint(k), fmt.Sprint(k + 1), "10", "11", "01"}
	var numbered []int
	for m := 1 + r.Intn(3); m > 0; m-- {
		d := pick(r, nums)
		var p string
		switch r.Intn(6) {
		case 0:
			p = fmt.Sprintf("kv%d.io/%s%s%s", r.Intn(9), strings.ToUpper(base[:1]), base[1:], "-"+d)
			tagset["numbered=guessed"] = true
		case 1:
			p = fmt.Sprintf("z%d.io/num%d", r.Intn(60), r.Intn(9))
			if seen[p] {
				continue
			}
			hint(p, base+d)
			tagset["numbered=hinted"] = true
		case 2:
			if prefix == "" {
				continue
			}
			p = fmt.Sprintf("z%d.io/pre%d", r.Intn(60), r.Intn(9))
			if seen[p] {
				continue
			}
			n := prefix + "_" + base
			if r.Intn(3) > 0 {
				n += d
			}
			hint(p, n)
			tagset["numbered=hinted-prefix_base"] = true
		default:
			p = fmt.Sprintf("kv%d.io/%s%s", r.Intn(9), base, d)
			tagset["numbered=guessed"] = true
		}
		if j := add(p); j >= 0 {
			numbered = append(numbered, j)
		}
	}
	// ---- the file
	setup := hist.History{}
	local := ""
	switch r.Intn(6) {
	case 0:
		setup = append(setup, hist.Op{Kind: "newfile", F: 0, A: base + pick(r, []string{"", "1", "2"})})
		if IsKeywordPath("a.b/"+base) || base == "type" {
			setup[0].A = "p" // `package type` is not a file
		} else {
			tagset["package-name=base(+number)"] = true
		}
	case 1:
		all := append(append([]int{}, colliders...), numbered...)
		local = paths[all[r.Intn(len(all))]]
		name := pick(r, []string{"q", base + "2", "p"})
		if base == "type" && name != "q" {
			name = "q"
		}
		setup = append(setup, hist.Op{Kind: "newfilepathname", F: 0, A: local, B: name})
		tagset["local=one-of-the-paths"] = true
	default:
		setup = append(setup, hist.Op{Kind: "newfile", F: 0, A: "p"})
	}
	if prefix != "" {
		setup = append(setup, hist.Op{Kind: "prefix", F: 0, A: prefix})
	}
	r.Shuffle(len(hints), func(a, b int) { hints[a], hints[b] = hints[b], hints[a] })
	setup = append(setup, hints...)
	// ---- order of the references (= order of registration, up to the key order of a Dict)
	var refs []int
	rep := func(j int) {
		for n := 1 + r.Intn(2); n > 0; n-- {
			refs = append(refs, j)
		}
	}
	order := ""
	mode := r.Intn(4)
	if len(colliders) < 2 {
		mode = 3
	}
	switch mode {
	case 0:
		order = "numbered-first"
		for _, j := range numbered {
			rep(j)
		}
		for _, j := range colliders {
			rep(j)
		}
	case 1:
		order = "numbered-last"
		for _, j := range colliders {
			rep(j)
		}
		for _, j := range numbered {
			rep(j)
		}
	case 2:
		at := 1 + r.Intn(len(colliders)-1) // after the at-th collider
		order = "numbered-after-collider-" + c03Small(at)
		for n, j := range colliders {
			if n == at {
				for _, m := range numbered {
					rep(m)
				}
			}
			rep(j)
		}
	default:
		order = "shuffled"
		for j := range paths {
			rep(j)
		}
		r.Shuffle(len(refs), func(a, b int) { refs[a], refs[b] = refs[b], refs[a] })
	}
	rc, h := BuildRefCase(r, paths, setup, local, refs, nil)
	h = append(h, hist.Op{Kind: "noformat", F: 0, Flag: r.Intn(2) == 0}, hist.Op{Kind: "render", F: 0}, hist.Op{Kind: "imports", F: 0})
	tags := []string{"colliders=" + c03Small(len(colliders)), fmt.Sprintf("numbered=%d", len(numbered)), "order=" + order,
		fmt.Sprintf("prefix=%v", prefix != ""), "base=" + base}
	tags = append(tags, sortedKeys(tagset)...)
	// NonTrivial: at least three paths compete for one name and at least one more path is
	// itself named base+number
	return &Case{Hist: h, Stream: "collision-structure", NonTrivial: len(colliders) >= 3 && len(numbered) >= 1,
		Meta: map[string]interface{}{"rc": rc}, Tags: tags}
}

func c03Small(n int) string {
	switch {
	case n <= 4:
		return fmt.Sprint(n)
	case n <= 7:
		return "5-7"
	}
	return "8+"
}

func (c03) Compare(c *Case, exp, got []hist.Obs) string {
	if m, ok := c.Meta["c03i"].(*c03iMeta); ok {
		return c08fCompare(m.F.Views, exp, got) // stream insert-between-renders: the replayed renders are left out
	}
	if c.Meta["weak"] == true {
		return weakOrderCompare(exp, got) // stream dict-key, recorded finding dict-keys-register-in-map-order only
	}
	return CompareAll(exp, got)
}

func refOracle(c *Case, got []hist.Obs) string {
	rc := c.Meta["rc"].(*RefCase)
	o, ok := lastWrite(got)
	if !ok {
		return "no render observation"
	}
	if o.Kind != "write" {
		return "render of a valid file failed: " + o.String()
	}
	return rc.Resolve(o.Out)
}

func (c03) Oracle(c *Case, got []hist.Obs) string {
	if m, ok := c.Meta["c03i"].(*c03iMeta); ok {
		return c03InsertOracle(m, got)
	}
	return refOracle(c, got)
}
