package props

import (
	"math/rand"
	"reflect"
	"strings"
	"testing"

	"github.com/dave/jennifer/jen"

	"verifharness/hist"
	"verifharness/term"
)

// The C14 oracle must be able to fail. The implementation cannot be changed from a test, so
// the defects are injected where the oracle looks: the registry of package functions (a
// "function form" that misbehaves), hand-made results of the three render entry points, a
// hand-made log of the form-choosing builder.

func TestC14EntryPoints(t *testing.T) {
	ok := c14Res{"ok", "x\n"}
	er := c14Res{"err", "Error 1:1: expected x while formatting source:\nraw"}
	good := [][3]c14Res{
		{ok, ok, ok},
		{{"panic", er.Out}, er, er}, // GoString panics with the error
		{{"panic", "boom"}, {"panic", "boom"}, {"panic", "boom"}}, // a render panic shows in all three
	}
	for _, g := range good {
		if e := c14EntryPoints(g[0], g[1], g[2]); e != "" {
			t.Errorf("good triple rejected: %v: %s", g, e)
		}
	}
	bad := [][3]c14Res{
		{ok, ok, {"ok", "y\n"}},      // RenderWithFile(fresh) differs
		{{"ok", "y\n"}, ok, ok},      // GoString differs
		{ok, er, er},                 // GoString swallows the error
		{{"panic", "other"}, er, er}, // GoString panics with something else
		{ok, ok, er},                 // only RenderWithFile fails
		{{"panic", "boom"}, ok, ok},  // only GoString panics
	}
	for _, b := range bad {
		if e := c14EntryPoints(b[0], b[1], b[2]); e == "" {
			t.Errorf("bad triple accepted: %v", b)
		}
	}
}

func TestC14SameAsObs(t *testing.T) {
	if !c14SameAsObs(c14Res{"ok", "a"}, hist.Obs{Kind: "write", Out: "a"}) {
		t.Error("equal write rejected")
	}
	if c14SameAsObs(c14Res{"ok", "a"}, hist.Obs{Kind: "write", Out: "b"}) {
		t.Error("different bytes accepted")
	}
	if c14SameAsObs(c14Res{"ok", "a"}, hist.Obs{Kind: "fmterr", Out: "a"}) {
		t.Error("ok vs format error accepted")
	}
	if !c14SameAsObs(c14Res{"err", "Error e while formatting source:\nraw"}, hist.Obs{Kind: "fmterr", Out: "raw"}) {
		t.Error("equal format error rejected")
	}
}

// every construct passes on the unchanged tree, on a few argument lists
func TestC14UnchangedTree(t *testing.T) {
	if e := c14EnumOracle(); e != "" {
		t.Fatalf("enumeration: %s", e)
	}
	r := rand.New(rand.NewSource(3))
	for _, n := range c14ConstructNames() {
		for i := 0; i < 3; i++ {
			c := c14ApiCase(n, r.Int63())
			got := hist.NewWorld().Exec(c.Hist)
			if e := (c14{}).Oracle(c, got); e != "" {
				t.Errorf("%s: %s", n, e)
			}
		}
	}
}

// swap one registry entry for a defective "function form" and expect a verdict
func withFunc(name string, f interface{}, body func()) {
	old := c14Funcs[name]
	c14Funcs[name] = f
	defer func() { c14Funcs[name] = old }()
	body()
}

func c14Verdict(name string, seeds int) string {
	for s := int64(1); s <= int64(seeds); s++ {
		c := c14ApiCase(name, s)
		got := hist.NewWorld().Exec(c.Hist)
		if e := (c14{}).Oracle(c, got); e != "" {
			return e
		}
	}
	return ""
}

func TestC14DefectiveForms(t *testing.T) {
	// a function form that renders differently
	withFunc("Id", func(name string) *jen.Statement { return jen.Id(name + "x") }, func() {
		if e := c14Verdict("Id", 3); !strings.Contains(e, "render differently") {
			t.Errorf("different function form not caught: %q", e)
		}
	})
	// a function form that drops an argument
	withFunc("Call", func(params ...jen.Code) *jen.Statement {
		if len(params) > 0 {
			params = params[1:]
		}
		return jen.Call(params...)
	}, func() {
		if e := c14Verdict("Call", 20); !strings.Contains(e, "render differently") {
			t.Errorf("dropped argument not caught: %q", e)
		}
	})
	// a ...Func form that runs its callback twice
	withFunc("BlockFunc", func(f func(*jen.Group)) *jen.Statement {
		return jen.BlockFunc(func(g *jen.Group) { f(g); f(g) })
	}, func() {
		if e := c14Verdict("BlockFunc", 3); !strings.Contains(e, "ran 2 times") {
			t.Errorf("callback run twice not caught: %q", e)
		}
	})
	// a ...Func form that never runs its callback
	withFunc("ListFunc", func(f func(*jen.Group)) *jen.Statement { return jen.List() }, func() {
		if e := c14Verdict("ListFunc", 3); !strings.Contains(e, "ran 0 times") {
			t.Errorf("callback not run not caught: %q", e)
		}
	})
	// LitFunc evaluating its function twice
	withFunc("LitFunc", func(f func() interface{}) *jen.Statement { f(); return jen.LitFunc(f) }, func() {
		if e := c14Verdict("LitFunc", 3); !strings.Contains(e, "ran 2 times") {
			t.Errorf("LitFunc run twice not caught: %q", e)
		}
	})
	// a function form with a different separator (what a changed Group field looks like)
	withFunc("ParamsFunc", func(f func(*jen.Group)) *jen.Statement {
		return jen.CustomFunc(jen.Options{Open: "(", Close: ")", Separator: ";"}, f)
	}, func() {
		if e := c14Verdict("ParamsFunc", 20); !strings.Contains(e, "render differently") {
			t.Errorf("changed separator not caught: %q", e)
		}
	})
	// missing function form / stray function
	old := c14Funcs["Id"]
	delete(c14Funcs, "Id")
	if e := c14EnumOracle(); !strings.Contains(e, "Id: no package function") {
		t.Errorf("missing function form not caught: %q", e)
	}
	if e := c14Verdict("Id", 1); !strings.Contains(e, "no package function") {
		t.Errorf("missing function form not caught by the api case: %q", e)
	}
	c14Funcs["Id"] = old
	c14Funcs["Bogus"] = func() *jen.Statement { return jen.Null() }
	if e := c14EnumOracle(); !strings.Contains(e, "Bogus") {
		t.Errorf("function that is no form of a construct not caught: %q", e)
	}
	delete(c14Funcs, "Bogus")
	withFunc("Id", func(name string, extra int) *jen.Statement { return jen.Id(name) }, func() {
		if e := c14EnumOracle(); !strings.Contains(e, "Id: package function has type") {
			t.Errorf("different signature not caught: %q", e)
		}
	})
	if e := c14EnumOracle(); e != "" {
		t.Errorf("registry not restored: %s", e)
	}
}

func TestC14FormsOracle(t *testing.T) {
	st := term.S(term.Id("a"), term.G("Call", term.S(term.Lit(1))))
	h := hist.History{{Kind: "rplain", Code: st}}
	run := func(seed int64) (*Case, []hist.Obs) {
		c := c14FormsCase(h, seed)
		w := hist.NewWorld()
		c.Meta["world"].(func(*hist.World))(w)
		return c, w.Exec(h)
	}
	used := map[string]bool{}
	for seed := int64(0); seed < 40; seed++ {
		c, got := run(seed)
		if e := c14FormsOracle(c, got); e != "" {
			t.Fatalf("seed %d: %s", seed, e)
		}
		if got[0].Kind != "write" || got[0].Out != "a(1)" {
			t.Fatalf("seed %d: forms built %v", seed, got[0])
		}
		for k := range c.Meta["log"].(*term.FormLog).Forms {
			used[k] = true
		}
	}
	for _, k := range []string{"function", "method", "group", "XFunc", "LitFunc", "method:Do"} {
		if !used[k] {
			t.Errorf("form %s never chosen in 40 seeds", k)
		}
	}
	// a recorded violation, a callback that ran again while rendering
	c, got := run(1)
	log := c.Meta["log"].(*term.FormLog)
	log.Violations = append(log.Violations, "Group form of X: the last item of the group is not the returned statement")
	if e := c14FormsOracle(c, got); !strings.Contains(e, "last item") {
		t.Errorf("violation not reported: %q", e)
	}
	c, got = run(2)
	log = c.Meta["log"].(*term.FormLog)
	n := 2
	log.Counters = append(log.Counters, &n)
	log.What = append(log.What, "CallFunc")
	if e := c14FormsOracle(c, got); !strings.Contains(e, "ran 2 times") {
		t.Errorf("callback count not checked: %q", e)
	}
}

func TestC14GroupItems(t *testing.T) {
	var g *jen.Group
	jen.BlockFunc(func(x *jen.Group) { g = x })
	n, _, ok := term.GroupItems(g)
	if !ok || n != 0 {
		t.Fatalf("GroupItems on an empty group: %d %v", n, ok)
	}
	s := g.Id("a")
	n, last, _ := term.GroupItems(g)
	if n != 1 || last == 0 {
		t.Fatalf("after g.Id: %d items, last %x", n, last)
	}
	s.Op("+") // the group holds the pointer: visible through the group
	if r := c14Render(g); !strings.Contains(r.Out, "+") {
		t.Errorf("group does not see a later append to the returned statement: %v", r)
	}
}

// ---- c14_extra.go: callbacks that add to the enclosing group, shared argument slices

func withGroupForm(name string, mk func(g *jen.Group) interface{}, body func()) {
	old := c14GroupForm
	c14GroupForm = func(g *jen.Group, n string) reflect.Value {
		if n == name {
			return reflect.ValueOf(mk(g))
		}
		return old(g, n)
	}
	defer func() { c14GroupForm = old }()
	body()
}

func TestC14EnclosingGroup(t *testing.T) {
	if bad := c14EnclosingEnum(); len(bad) > 0 {
		t.Fatalf("unchanged tree: %v", bad)
	}
	if n := len(c14CallbackConstructs()); n < 20 {
		t.Fatalf("only %d constructs with callbacks found", n)
	}
	// a Group form of Do that appends a fresh statement to the group FIRST and then runs the
	// callback on it (g.Add() returns the statement it appended): equivalent for callbacks
	// that only touch their own statement, wrong for one that hoists something into g
	lateDo := func(g *jen.Group) interface{} {
		return func(f func(*jen.Statement)) *jen.Statement { s := g.Add(); return s.Do(f) }
	}
	withGroupForm("Do", lateDo, func() {
		e := strings.Join(c14EnclosingEnum(), "; ")
		if !strings.Contains(e, "Do:") || !strings.Contains(e, "before running the callback") {
			t.Errorf("Group.Do appending before the callback not caught by the enumeration: %q", e)
		}
		if e := c14Verdict("Do", 3); !strings.Contains(e, "before running the callback") {
			t.Errorf("Group.Do appending before the callback not caught by the api case: %q", e)
		}
	})
	// the same defect seen through rendering only (as if Group.items could not be read)
	withGroupForm("CallFunc", func(g *jen.Group) interface{} {
		return func(f func(*jen.Group)) *jen.Statement {
			s := jen.Null() // the new statement is put into the group before the callback runs
			g.Add(s)
			return s.CallFunc(f)
		}
	}, func() {
		e := strings.Join(c14EnclosingEnum(), "; ")
		if !strings.Contains(e, "CallFunc") {
			t.Errorf("Group.CallFunc appending before the callback not caught: %q", e)
		}
	})
	withGroupForm("LitFunc", func(g *jen.Group) interface{} {
		return func(f func() interface{}) *jen.Statement { s := g.Add(); return s.LitFunc(f) }
	}, func() {
		if e := c14Verdict("LitFunc", 3); e == "" {
			t.Errorf("Group.LitFunc appending before the callback not caught")
		}
	})
	// a Group form that is correct must pass through the hook
	withGroupForm("Do", func(g *jen.Group) interface{} {
		return func(f func(*jen.Statement)) *jen.Statement { return g.Do(f) }
	}, func() {
		if e := c14Verdict("Do", 3); e != "" {
			t.Errorf("correct Group.Do rejected: %s", e)
		}
	})
	// Values(DictFunc(f)): a function form of Values that loses the Dict
	withFunc("Values", func(values ...jen.Code) *jen.Statement { return jen.Values() }, func() {
		if e := c14EnclosingDict(); !strings.Contains(e, "function form") {
			t.Errorf("Values(DictFunc) difference not caught: %q", e)
		}
	})
}

func TestC14SharedArgumentSlice(t *testing.T) {
	if bad := c14AliasEnum(); len(bad) > 0 {
		t.Fatalf("unchanged tree: %v", bad)
	}
	vs := c14VariadicConstructs()
	if len(vs) < 20 || vs[0] != "Add" {
		t.Fatalf("variadic constructs: %v", vs)
	}
	// the function form of Add wraps the caller's slice instead of copying it
	withFunc("Add", func(code ...jen.Code) *jen.Statement { s := jen.Statement(code); return &s }, func() {
		e := strings.Join(c14AliasEnum(), "; ")
		if !strings.Contains(e, "Add(args...)") || !strings.Contains(e, "leaked into the other") || !strings.Contains(e, "function form") {
			t.Errorf("Add wrapping the caller's slice not caught by the enumeration: %q", e)
		}
		if e := c14Verdict("Add", 20); !strings.Contains(e, "leaked into the other") {
			t.Errorf("Add wrapping the caller's slice not caught by the api cases: %q", e)
		}
	})
	// the same in the Group form only
	withGroupForm("Add", func(g *jen.Group) interface{} {
		return func(code ...jen.Code) *jen.Statement {
			s := g.Add()
			*s = jen.Statement(code)
			return s
		}
	}, func() {
		e := strings.Join(c14AliasEnum(), "; ")
		if !strings.Contains(e, "Group form") || !strings.Contains(e, "leaked into the other") {
			t.Errorf("Group.Add wrapping the caller's slice not caught: %q", e)
		}
	})
	// a List whose function form appends its Group to the caller's slice: the chained token
	// of the first statement is overwritten only when the caller appends (step C)
	withFunc("List", func(items ...jen.Code) *jen.Statement {
		s := jen.Statement(append(items[:len(items):len(items)], jen.List(items...)))
		s = s[len(items):]
		return &s
	}, func() {
		if e := strings.Join(c14AliasEnum(), "; "); e != "" {
			t.Errorf("harmless function form rejected: %s", e)
		}
	})
	withFunc("List", func(items ...jen.Code) *jen.Statement {
		s := jen.Statement(append(items, jen.List(items...))) // uses the caller's spare capacity
		s = s[len(items):]
		return &s
	}, func() {
		e := strings.Join(c14AliasEnum(), "; ")
		if !strings.Contains(e, "List(args...)") {
			t.Errorf("List statement living in the caller's spare capacity not caught: %q", e)
		}
	})
	// forms that treat the caller's later writes differently: the function form of Call copies
	// its arguments while the other two keep the slice
	withFunc("Call", func(params ...jen.Code) *jen.Statement {
		return jen.Call(append([]jen.Code{}, params...)...)
	}, func() {
		e := strings.Join(c14AliasEnum(), "; ")
		if !strings.Contains(e, "Call(args...)") || !strings.Contains(e, "not equivalent under the same caller actions") {
			t.Errorf("forms differing in what they show of the caller's writes not caught: %q", e)
		}
	})
}
