package props

import (
	"fmt"
	"math/rand"
	"strings"
	"testing"

	"github.com/dave/jennifer/jen"

	"verifharness/hist"
)

// Stream generated-pkgname: files named like an import path they import exist, are opened with
// NewFile as well as NewFilePathName, render to themselves on the implementation under test -
// and the oracle rejects the output of a File that took its name for its path (the import and
// the qualifier are gone).
func TestC01PkgNameStream(t *testing.T) {
	p := &c01{sum: map[string]*c01Sum{}}
	cases := p.pkgNameStream(rand.New(rand.NewSource(2)), "quick")
	byPath, newfile, rejected := 0, 0, 0
	for _, c := range cases {
		if c.Meta["skip"] != nil {
			continue
		}
		w := hist.NewWorld()
		if cfg, ok := c.Meta["world"].(func(*hist.World)); ok {
			cfg(w)
		}
		got := w.Exec(c.Hist)
		if m := p.Oracle(c, got); m != "" {
			t.Fatalf("oracle rejects %v: %s", c.Tags, m)
		}
		tags := strings.Join(c.Tags, " ")
		if !strings.Contains(tags, "name=import-path") {
			continue
		}
		byPath++
		if c.Hist[0].Kind != "newfile" {
			continue
		}
		newfile++
		name := c.Hist[0].A
		if strings.Contains(tags, "import-aliased") || !strings.Contains(got[0].Out, name+".") {
			continue
		}
		// what such a File writes: no import of the path, bare identifiers
		lines := strings.Split(got[0].Out, "\n")
		var keep []string
		for _, ln := range lines {
			if strings.TrimSpace(ln) == `"`+name+`"` || strings.TrimSpace(ln) == `import "`+name+`"` {
				continue
			}
			keep = append(keep, strings.ReplaceAll(ln, name+".", ""))
		}
		bad := []hist.Obs{{Kind: "write", Out: strings.Join(keep, "\n")}}
		if m := p.Oracle(c, bad); m == "" {
			t.Errorf("package %s without its import %q is accepted", name, name)
		} else {
			rejected++
		}
	}
	if byPath < 100 || newfile < 50 || rejected < 20 {
		t.Errorf("%d files named like an imported path, %d of them opened with NewFile, %d damaged outputs rejected", byPath, newfile, rejected)
	}
}

// The building style "caller reuses its slices" shows a statement that keeps the slice it was
// handed: an adopted slice is overwritten by the caller, the marker reaches the output.
func TestC01ReuseSlicesShowsAdoptedSlice(t *testing.T) {
	text := func(s *jen.Statement) (out string) {
		defer func() {
			if r := recover(); r != nil {
				out = fmt.Sprint(r) // GoString panics with the format error, which quotes the text
			}
		}()
		return s.GoString()
	}
	buf := make([]jen.Code, 0, 8)
	pre := append(buf[:0], jen.Id("p"), jen.Op("="))
	adopted := jen.Statement(pre) // what Add would build if it kept its argument
	s := &adopted
	s.Lit(1)
	full := pre[:cap(pre)]
	for i := range full {
		full[i] = jen.Id(c01Marker)
	}
	if out := text(s); !strings.Contains(out, c01Marker) {
		t.Errorf("the marker does not show in a statement that shares the caller's slice: %s", out)
	}
	copied := jen.Add(append(buf[:0], jen.Id("p"), jen.Op("="))...).Lit(1)
	for i := range full {
		full[i] = jen.Id(c01Marker)
	}
	if out := text(copied); out != "p = 1" {
		t.Errorf("Add of the implementation under test does not copy: %s", out)
	}
}
