package props

import (
	"errors"
	"fmt"
	"go/format"
	"math/rand"
	"os"
	"path/filepath"
	"sort"
	"strings"
	"time"

	"github.com/dave/jennifer/jen"

	"verifharness/hist"
	"verifharness/term"
)

// C10: failure atomicity and error propagation for File.Render, File.Save,
// Statement/Group.Render and Statement/Group.RenderWithFile.
//
// A case is a history with ONE operation under test (the last render/rcode/rplain/save of
// the history, sometimes preceded by a warm-up File.Render) over a tree of known kind:
//
//	valid      every statement is a well-formed declaration (or, for a fragment, statement)
//	invalid    a well-formed tree with one broken statement inserted (gofmt must reject it)
//	badlit     a well-formed tree with one Lit(<unsupported type>) inserted (documented panic)
//	niltarget  rcode/rplain on a typed-nil *Statement / *Group (nil dereference panic)
//	random     a tree of the shared random generator (validity unknown, mostly not Go)
//	damaged    well-formed declarations, one of them perhaps damaged (validity unknown, mostly Go)
//
// crossed with the entry point, a writer fault (the first Write fails), NoFormat, and for
// Save the kind of target.  Every save case owns a private directory below one temp root
// (os.MkdirTemp, TMPDIR honoured) whose fixtures are made in Generate; the oracle compares
// a snapshot taken there (content, mtime, mode of every entry) with one taken after the run.
type c10 struct {
	roots      []string // temp roots made by Generate and not yet removed
	pending    int      // save cases whose post-state has not been read yet
	ncase      int
	roProbed   bool
	roWritable bool // a directory chmod-ed to 0555 is still writable for this process (root)
	wfProbed   bool
	wfOK       map[string]bool // write-failing target kind -> the device behaves as needed here
}

func init() { Register(&c10{}) }

func (*c10) ID() string { return "C10" }

// ---- file-system fixtures ----

type fsEntry struct {
	Dir   bool
	Perm  os.FileMode
	Data  string    // regular files
	MTime time.Time // regular files (a directory's mtime changes legitimately when an entry is added)
}

type fsSnap map[string]fsEntry // path relative to the case directory -> entry

func c10Snap(dir string) (fsSnap, error) {
	out := fsSnap{}
	err := filepath.Walk(dir, func(path string, fi os.FileInfo, err error) error {
		if err != nil {
			return err
		}
		rel, rerr := filepath.Rel(dir, path)
		if rerr != nil {
			return rerr
		}
		if rel == "." {
			return nil
		}
		e := fsEntry{Dir: fi.IsDir(), Perm: fi.Mode().Perm()}
		if fi.Mode().IsRegular() {
			b, err := os.ReadFile(path)
			if err != nil {
				return err
			}
			e.Data, e.MTime = string(b), fi.ModTime()
		}
		out[rel] = e
		return nil
	})
	return out, err
}

func (e fsEntry) String() string {
	if e.Dir {
		return fmt.Sprintf("dir(%v)", e.Perm)
	}
	return fmt.Sprintf("file(%v mtime=%s %q)", e.Perm, e.MTime.UTC().Format(time.RFC3339Nano), e.Data)
}

// c10Diff describes the first difference between two snapshots, ignoring path except.
func c10Diff(pre, post fsSnap, except string) string {
	keys := map[string]bool{}
	for k := range pre {
		keys[k] = true
	}
	for k := range post {
		keys[k] = true
	}
	var ks []string
	for k := range keys {
		ks = append(ks, k)
	}
	sort.Strings(ks)
	for _, k := range ks {
		if k == except {
			continue
		}
		a, inA := pre[k]
		b, inB := post[k]
		switch {
		case !inA:
			return fmt.Sprintf("%s was created: %s", k, b)
		case !inB:
			return fmt.Sprintf("%s was removed (was %s)", k, a)
		case a.Dir != b.Dir || a.Perm != b.Perm || a.Data != b.Data || !a.MTime.Equal(b.MTime):
			return fmt.Sprintf("%s changed:\n   before %s\n   after  %s", k, a, b)
		}
	}
	return ""
}

// Save targets: symbolic path (what the model sees) per kind.
var c10Targets = []struct{ Kind, Sym string }{
	{"new", "new.go"},                    // new file in an existing directory
	{"existing", "existing.go"},          // existing file with previous content
	{"missingdir", "missing/out.go"},     // directory does not exist
	{"rodir", "ro/out.go"},               // directory without write permission
	{"isdir", "dir"},                     // the target path is a directory
	{"parentfile", "existing.go/out.go"}, // a path component is a regular file
}

// Save targets that can be OPENED for writing but whose WRITE fails (stream save-write-fails):
// the error does not come from os.OpenFile but from the write itself, after the target has
// been opened (and, for a regular file, truncated).  Three devices with three different
// errors; every one is probed in Generate (c10.writeFailKinds) and left out where it does not
// exist or does not behave like this.  Except for the -direct kind the path given to Save is
// a symbolic link inside the case's private directory, so that the snapshot comparison sees
// the neighbourhood of the target.
var c10WriteFailTargets = []struct{ Kind, Sym, Device, Errno string }{
	{"wfull", "full.go", "/dev/full", "ENOSPC"},              // no space left on device
	{"wfull-direct", "dev-full", "/dev/full", "ENOSPC"},      // the same, Save("/dev/full") itself
	{"wmem", "mem.go", "/proc/self/mem", "EIO"},              // address 0 is not mapped: input/output error
	{"wrefs", "refs.go", "/proc/self/clear_refs", "EINVAL"}, // accepts the digits 1..5 only: invalid argument
}

func c10TargetKind(sym string) string {
	for _, t := range c10Targets {
		if t.Sym == sym {
			return t.Kind
		}
	}
	for _, t := range c10WriteFailTargets {
		if t.Sym == sym {
			return t.Kind
		}
	}
	return ""
}

func c10TargetSym(kind string) string {
	for _, t := range c10Targets {
		if t.Kind == kind {
			return t.Sym
		}
	}
	for _, t := range c10WriteFailTargets {
		if t.Kind == kind {
			return t.Sym
		}
	}
	panic("C10: unknown target kind " + kind)
}

func c10WriteFailDevice(kind string) string {
	for _, t := range c10WriteFailTargets {
		if t.Kind == kind {
			return t.Device
		}
	}
	return ""
}

// c10ProbeWriteFail: os.WriteFile to the device opens it and fails in the write (an
// *os.PathError whose Op is "write").  The probe text is no input any of the devices accepts.
func c10ProbeWriteFail(device string) bool {
	err := os.WriteFile(device, []byte("// verif probe\n"), 0644)
	var pe *os.PathError
	return err != nil && errors.As(err, &pe) && pe.Op == "write"
}

// writeFailKinds: the write-failing target kinds usable in this environment.
func (p *c10) writeFailKinds() []string {
	if !p.wfProbed {
		p.wfProbed = true
		p.wfOK = map[string]bool{}
		dev := map[string]bool{}
		for _, t := range c10WriteFailTargets {
			ok, seen := dev[t.Device]
			if !seen {
				ok = c10ProbeWriteFail(t.Device)
				dev[t.Device] = ok
				if !ok {
					fmt.Fprintf(os.Stderr, "C10: %s cannot be opened for writing with a failing write here: no save target of that kind\n", t.Device)
				}
			}
			p.wfOK[t.Kind] = ok
		}
	}
	var out []string
	for _, t := range c10WriteFailTargets {
		if p.wfOK[t.Kind] {
			out = append(out, t.Kind)
		}
	}
	return out
}

var c10OldTime = time.Date(2001, 2, 3, 4, 5, 6, 0, time.UTC)

// c10info is what the oracle needs to know about a case (Meta["c10"]).
type c10info struct {
	tree       string // kind of the tree under test, see above
	badlit     bool   // some rendered tree contains an unsupported literal
	dir        string // private directory of the case ("" without save)
	pre, post  fsSnap
	roWritable bool
	snapErr    string
	// oldContent: content of the pre-existing target (kind existing) when it is not the default
	// text; the streams save-over-related make it from the output the File is going to have
	oldContent string
	// skip (stream after-failed-render; nil elsewhere): index of every operation that FAILS by
	// construction -> how the reference run replaces it: "drop" (the call never happened; the
	// generator guarantees that the failed call cannot have registered an import) or "raw" (a
	// File.Render that fails in go/format is replaced by the same render under NoFormat,
	// which registers the same imports and does not fail).  Every other observing operation
	// must show exactly what it shows in that reference run.
	skip map[int]string
}

func (p *c10) root() string {
	if len(p.roots) == 0 {
		d, err := os.MkdirTemp("", "verif-c10-")
		if err != nil {
			panic("C10: cannot create the temp directory: " + err.Error())
		}
		p.roots = append(p.roots, d)
		// is a read-only directory really read-only for this process?
		probe := filepath.Join(d, "probe")
		os.Mkdir(probe, 0755)
		os.Chmod(probe, 0555)
		p.roWritable = os.WriteFile(filepath.Join(probe, "x"), []byte("x"), 0644) == nil
		p.roProbed = true
		os.Chmod(probe, 0755)
		os.RemoveAll(probe)
	}
	return p.roots[len(p.roots)-1]
}

// Close removes what Generate created (also done as soon as the last save case is judged).
func (p *c10) Close() {
	for _, d := range p.roots {
		filepath.Walk(d, func(path string, fi os.FileInfo, err error) error {
			if err == nil && fi.IsDir() {
				os.Chmod(path, 0755)
			}
			return nil
		})
		os.RemoveAll(d)
	}
	p.roots = nil
	p.pending = 0
}

// fixtures creates the private directory of a save case with the pre-state for the target kind.
func (p *c10) fixtures(kind string, info *c10info) {
	must := func(err error) {
		if err != nil {
			panic("C10: cannot create save fixtures: " + err.Error())
		}
	}
	p.ncase++
	dir := filepath.Join(p.root(), fmt.Sprintf("c%06d", p.ncase))
	must(os.Mkdir(dir, 0755))
	old := func(rel, content string) {
		must(os.WriteFile(filepath.Join(dir, rel), []byte(content), 0644))
		must(os.Chtimes(filepath.Join(dir, rel), c10OldTime, c10OldTime))
	}
	old("bystander.txt", "not a target\n")
	switch kind {
	case "existing", "parentfile":
		if info.oldContent != "" {
			old("existing.go", info.oldContent)
		} else {
			old("existing.go", fmt.Sprintf("// Code generated by run %d. DO NOT EDIT.\n\npackage previous\n\nvar Good = %d\n", p.ncase, p.ncase))
		}
	case "rodir":
		must(os.Mkdir(filepath.Join(dir, "ro"), 0755))
		must(os.Chmod(filepath.Join(dir, "ro"), 0555))
	case "isdir":
		must(os.Mkdir(filepath.Join(dir, "dir"), 0755))
		old(filepath.Join("dir", "keep.txt"), "inside the directory that is the target\n")
	case "wfull", "wmem", "wrefs":
		must(os.Symlink(c10WriteFailDevice(kind), filepath.Join(dir, c10TargetSym(kind))))
	}
	info.dir = dir
	info.roWritable = p.roWritable
	pre, err := c10Snap(dir)
	must(err)
	info.pre = pre
	p.pending++
}

// c10FsFails: os.WriteFile must fail for this target kind (the model's fs fault flag).
func c10FsFails(kind string, roWritable bool) bool {
	switch kind {
	case "missingdir", "isdir", "parentfile":
		return true
	case "wfull", "wfull-direct", "wmem", "wrefs": // (only generated where the probe succeeded)
		return true
	case "rodir":
		return !roWritable
	}
	return false
}

// ---- trees ----

var c10BadValues = []interface{}{struct{}{}, []int{1}, nil, map[string]int{"a": 1}}

// broken statements: gofmt rejects them as part of a file and as part of a fragment
func c10Broken(r *rand.Rand) *term.Stmt {
	switch r.Intn(7) {
	case 0:
		return term.S(term.Op(")"))
	case 1:
		return term.S(term.Named("Var"), term.Lit(1))
	case 2:
		return term.S(term.Named("Var"), term.Id("x"), term.Op("="), term.Op("="))
	case 3:
		return term.S(term.Named("Func"), term.Id("f"), term.Op("{"))
	case 4:
		return term.S(term.Id("x"), term.G("Call", term.S(term.Id("a"))), term.Op("}"))
	case 5:
		return term.S(term.Named("Var"), term.Op("="), term.Id("f"), term.G("Call"))
	default:
		return term.S(term.G("If"), term.G("Block"))
	}
}

// statements that are fine in a fragment but not at file level
func c10FileOnlyBroken(r *rand.Rand) *term.Stmt {
	if r.Intn(2) == 0 {
		return term.S(term.Id("x"), term.Op(":="), term.Lit(1))
	}
	return term.S(term.Id("f"), term.G("Call"))
}

func c10BadLitStmt(r *rand.Rand) *term.Stmt {
	bad := term.Lit(c10BadValues[r.Intn(len(c10BadValues))])
	switch r.Intn(4) {
	case 0:
		return term.S(term.Named("Var"), term.Id("x"), term.Op("="), bad)
	case 1:
		return term.S(term.Named("Var"), term.Id("x"), term.Op("="), term.Id("f"), term.G("Call", term.S(term.Lit(1)), term.S(bad)))
	case 2:
		return term.S(term.Named("Var"), term.Id("x"), term.Op("="), term.Id("T"),
			term.G("Values", &term.Dict{Pairs: [][2]term.Node{{term.S(term.Id("k")), term.S(bad)}}}))
	default:
		return term.S(term.Named("Func"), term.Id("f"), term.G("Params"), term.G("Block", term.S(term.Id("g"), term.G("Call", term.S(bad)))))
	}
}

// c10Stmts: a list of statements of the given kind. Declarations only, so that the list is
// valid both as the body of a file and (joined) as a fragment.
func c10Stmts(r *rand.Rand, g *Gen, kind string, fileLevel, funcs bool) []*term.Stmt {
	n := 1 + r.Intn(4)
	var out []*term.Stmt
	for j := 0; j < n; j++ {
		if funcs && r.Intn(5) == 0 {
			out = append(out, term.S(term.Named("Func"), term.Id(fmt.Sprintf("fn%d", j)), term.G("Params"),
				term.G("Block", term.S(term.G("Return")))))
		} else {
			out = append(out, g.SimpleDecl(j))
		}
	}
	var ins *term.Stmt
	switch kind {
	case "invalid":
		ins = c10Broken(r)
		if fileLevel && r.Intn(4) == 0 {
			ins = c10FileOnlyBroken(r)
		}
	case "badlit":
		ins = c10BadLitStmt(r)
	}
	if ins != nil {
		// mostly after some good statements: an implementation that streamed its output would
		// have written them before it met the bad one
		k := len(out)
		if r.Intn(3) == 0 {
			k = r.Intn(len(out) + 1)
		}
		out = append(out[:k:k], append([]*term.Stmt{ins}, out[k:]...)...)
	}
	return out
}

// c10Join makes one statement out of several (separated by Line tokens).
func c10Join(sts []*term.Stmt) *term.Stmt {
	out := &term.Stmt{}
	for i, st := range sts {
		if i > 0 {
			out.Items = append(out.Items, term.Line())
		}
		out.Items = append(out.Items, st.Items...)
	}
	return out
}

// c10GroupTarget wraps statements into a group that is rendered directly. Valid trees use
// a block (a block statement is a fragment gofmt accepts); invalid ones sometimes use a
// form in which declarations cannot stand.
func c10GroupTarget(r *rand.Rand, kind string, sts []*term.Stmt) *term.Group {
	items := make([]term.Node, len(sts))
	for i, st := range sts {
		items[i] = st
	}
	if kind == "invalid" && r.Intn(3) == 0 {
		return term.G(pick(r, []string{"Call", "Params", "Index", "Values", "List"}), items...)
	}
	if r.Intn(4) == 0 {
		return term.Custom(jen.Options{Open: "{", Close: "}", Separator: ";", Multi: true}, items...)
	}
	return term.G("Block", items...)
}

var c10Entries = []string{"render", "rcode-stmt", "rcode-group", "rplain-stmt", "rplain-group", "save"}

// c10spec is one point of the case matrix.
type c10spec struct {
	tree   string // valid | invalid | badlit | niltarget | random | damaged
	entry  string // one of c10Entries
	wfault bool   // writer entries: the first Write fails
	nf     bool   // File.NoFormat
	target string // save: target kind
	warmup bool   // a File.Render (no fault) before the operation under test
	wshape string // writer entries: the writer's behaviour (hist.Op.WFault, c10_rich.go); "" = wfault alone decides
	large  bool   // tree rich: 400..1600 declarations
	big    int    // tree big: the rendered output has at least this many bytes (c10_rich.go, large-writer-faults)
}

func (p *c10) build(r *rand.Rand, s c10spec, stream string) *Case {
	paths := somePaths(r, 4)
	g := &Gen{R: r, Paths: paths, MaxDepth: 2 + r.Intn(2), NilRate: 8, NoBad: s.tree != "random" && s.tree != "random-rich"}
	h, _ := FileSetup(r, 0, SetupOpts{Paths: paths})
	info := &c10info{tree: s.tree}
	var moreTags []string
	if strings.Contains(s.tree, "rich") {
		var hs hist.History
		hs, moreTags = c10RichSettings(r, 0)
		h = append(h, hs...)
		if s.large {
			moreTags = append(moreTags, "size=large")
		}
	}
	fileRole := s.entry == "render" || s.entry == "save"

	// the tree under test
	var sts []*term.Stmt
	switch s.tree {
	case "random":
		for j := 0; j < 1+r.Intn(3); j++ {
			sts = append(sts, g.Stmt(0))
		}
	case "damaged":
		// well-formed declarations, one of them perhaps damaged (drop / duplicate / swap an
		// item): mostly still valid, so that the later failure causes are reached
		sts = c10Stmts(r, g, "valid", fileRole, !strings.HasSuffix(s.entry, "-group"))
		if r.Intn(3) == 0 {
			st := sts[r.Intn(len(sts))]
			k := r.Intn(len(st.Items))
			switch r.Intn(3) {
			case 0:
				st.Items = append(st.Items[:k:k], st.Items[k+1:]...)
			case 1:
				st.Items = append(st.Items, st.Items[k])
			default:
				st.Items[0], st.Items[k] = st.Items[k], st.Items[0]
			}
		}
	case "niltarget":
	case "empty": // a fragment that renders to nothing: the one Write carries no byte
		sts = []*term.Stmt{term.S()}
	case "rich", "rich-invalid":
		sts = c10RichStmts(r, g, !strings.HasSuffix(s.entry, "-group"), s.large)
		if s.tree == "rich-invalid" {
			ins := c10Broken(r)
			if fileRole && r.Intn(4) == 0 {
				ins = c10FileOnlyBroken(r)
			}
			k := len(sts)
			if r.Intn(3) == 0 {
				k = r.Intn(len(sts) + 1)
			}
			sts = append(sts[:k:k], append([]*term.Stmt{ins}, sts[k:]...)...)
		}
	case "big":
		var by string
		sts, by = c10BigStmts(r, g, s.big, !strings.HasSuffix(s.entry, "-group"))
		moreTags = append(moreTags, c10SizeTag(s.big), "size-by="+by)
	case "random-rich":
		for j := 0; j < 1+r.Intn(3); j++ {
			sts = append(sts, g.Stmt(0))
		}
		seen := map[*term.Stmt]bool{}
		for _, st := range sts {
			c10Sprinkle(r, st, seen)
		}
	default:
		sts = c10Stmts(r, g, s.tree, fileRole, !strings.HasSuffix(s.entry, "-group")) // no func declaration inside a block
	}
	for _, st := range sts {
		info.badlit = info.badlit || hasBadLit(st)
	}
	// the body of the file: the tree itself, or (fragment entries) some unrelated valid declarations
	body := sts
	if !fileRole {
		body = nil
		for j := 0; j < r.Intn(3); j++ {
			body = append(body, g.SimpleDecl(20+j))
		}
	}
	for _, st := range body {
		h = append(h, hist.Op{Kind: "fadd", F: 0, Code: st})
	}
	h = append(h, hist.Op{Kind: "noformat", F: 0, Flag: s.nf})
	if s.warmup {
		h = append(h, hist.Op{Kind: "render", F: 0})
	}

	tags := append([]string{"entry=" + s.entry, "tree=" + s.tree, fmt.Sprintf("noformat=%v", s.nf)}, moreTags...)
	var causes []string
	formats := !fileRole || !s.nf // the entry point runs gofmt on the tree under test
	if (s.tree == "invalid" || s.tree == "rich-invalid") && formats {
		causes = append(causes, "fmterr")
	}
	if info.badlit || s.tree == "niltarget" {
		causes = append(causes, "panic")
	}
	meta := map[string]interface{}{"c10": info}
	switch s.entry {
	case "render":
		h = append(h, hist.Op{Kind: "render", F: 0, Flag: s.wfault || c10ShapeFails(s.wshape), WFault: s.wshape})
	case "save":
		p.fixtures(s.target, info)
		sym := c10TargetSym(s.target)
		fails := c10FsFails(s.target, p.roWritable)
		h = append(h, hist.Op{Kind: "save", F: 0, A: sym, Flag: fails})
		dir := info.dir
		meta["savepath"] = func(sym string) string { return filepath.Join(dir, filepath.FromSlash(sym)) }
		if s.target == "wfull-direct" {
			dev := c10WriteFailDevice(s.target)
			meta["savepath"] = func(string) string { return dev }
		}
		tk := s.target
		if tk == "rodir" && p.roWritable {
			tk = "rodir-writable-for-this-user" // root: the chmod does not bite; a plain success target
		}
		tags = append(tags, "target="+tk)
		if fails {
			causes = append(causes, "target:"+s.target)
		}
	default:
		kind := "rcode"
		if strings.HasPrefix(s.entry, "rplain") {
			kind = "rplain"
		}
		var code term.Node
		switch {
		case s.tree == "niltarget" && strings.HasSuffix(s.entry, "-stmt"):
			code = term.NilStmt{}
		case s.tree == "niltarget":
			code = term.NilGroup{}
		case strings.HasSuffix(s.entry, "-stmt"):
			code = c10Join(sts)
		default:
			code = c10GroupTarget(r, s.tree, sts)
		}
		h = append(h, hist.Op{Kind: kind, F: 0, Code: code, Flag: s.wfault || c10ShapeFails(s.wshape), WFault: s.wshape})
	}
	if s.entry != "save" {
		if s.wshape != "" {
			tags = append(tags, "wfault="+s.wshape)
		} else {
			tags = append(tags, fmt.Sprintf("wfault=%v", s.wfault))
		}
		if s.wfault || c10ShapeFails(s.wshape) {
			causes = append(causes, "wfault")
		}
	}
	if s.warmup {
		tags = append(tags, "warmup-render")
	}
	if len(causes) == 0 {
		tags = append(tags, "cause=none")
	}
	for _, c := range causes {
		tags = append(tags, "cause="+c)
	}
	if len(causes) > 1 {
		tags = append(tags, "causes>=2")
	}
	// NonTrivial: the case contains, by construction, at least one failure cause: a broken
	// statement in a tree that the entry point formats, an unsupported literal / nil
	// receiver, a failing writer, or a save target that cannot be written.  (A random or
	// damaged tree counts only through the last three; c10_test.go measures that the construction is sound.)
	return &Case{Hist: h, Stream: stream, Tags: tags, Meta: meta, NonTrivial: len(causes) > 0}
}

func (p *c10) Generate(r *rand.Rand, t string) []*Case {
	var out []*Case
	// matrix: every tree kind x entry point x NoFormat x (writer fault | save target), reps times
	reps := tier(t, 8, 100)
	for rep := 0; rep < reps; rep++ {
		for _, tree := range []string{"valid", "invalid", "badlit"} {
			for _, entry := range c10Entries {
				for _, nf := range []bool{false, true} {
					if entry == "save" {
						for _, tg := range c10Targets {
							out = append(out, p.build(r, c10spec{tree: tree, entry: entry, nf: nf, target: tg.Kind,
								warmup: tree != "badlit" && r.Intn(4) == 0}, "matrix"))
						}
						continue
					}
					for _, wf := range []bool{false, true} {
						out = append(out, p.build(r, c10spec{tree: tree, entry: entry, nf: nf, wfault: wf,
							warmup: tree != "badlit" && r.Intn(4) == 0}, "matrix"))
					}
				}
			}
		}
	}
	// random: trees of the shared generator (and a few typed-nil receivers), everything else drawn
	n := tier(t, 730, 50400)
	for i := 0; i < n; i++ {
		s := c10spec{tree: pick(r, []string{"random", "damaged"}), entry: pick(r, c10Entries), nf: r.Intn(2) == 0, wfault: r.Intn(2) == 0,
			warmup: r.Intn(6) == 0}
		if s.entry == "save" {
			s.target = c10Targets[r.Intn(len(c10Targets))].Kind
		}
		if s.entry != "render" && s.entry != "save" && r.Intn(12) == 0 {
			s.tree = "niltarget"
		}
		out = append(out, p.build(r, s, "random"))
	}
	// added after the older streams so that their draws (and fixture numbers) are unchanged
	n = tier(t, 240, 12000)
	for i := 0; i < n; i++ {
		out = append(out, p.afterFailed(r))
	}
	reps = tier(t, 12, 600)
	for rep := 0; rep < reps; rep++ {
		for _, rel := range c10Relations {
			for _, nf := range []bool{false, true} {
				out = append(out, p.saveOver(r, rel, nf))
			}
		}
	}
	out = append(out, p.saveWriteFails(r, t)...)
	// c10_rich.go
	out = append(out, p.richContent(r, t)...)
	out = append(out, p.writerShapes(r, t)...)
	out = append(out, p.largeWriterFaults(r, t)...)
	return out
}

// ---- stream save-write-fails: the target opens, the write fails ----

// saveWriteFails: File.Save onto the targets of c10WriteFailTargets, every tree kind x NoFormat
// x target kind (reps times), and random / damaged trees.  The model's Save with the
// file-system fault flag set is exactly this situation (rendering and formatting happen
// first; a tree that does not render or format fails for that reason and the target is never
// opened).  One case in three renders the File afterwards (then=render): a failed Save leaves
// the File as it was.  NonTrivial as in build: the case holds a failure cause by
// construction - here always the target.
func (p *c10) saveWriteFails(r *rand.Rand, t string) []*Case {
	kinds := p.writeFailKinds()
	var out []*Case
	one := func(s c10spec) {
		c := p.build(r, s, "save-write-fails")
		c.Tags = append(c.Tags, "open-succeeds-write-fails", "errno="+c10WriteFailErrno(s.target))
		if r.Intn(3) == 0 {
			c.Hist = append(c.Hist, hist.Op{Kind: "render", F: 0})
			c.Tags = append(c.Tags, "then=render")
		}
		out = append(out, c)
	}
	reps := tier(t, 6, 300)
	for rep := 0; rep < reps; rep++ {
		for _, tree := range []string{"valid", "valid", "invalid", "badlit"} {
			for _, nf := range []bool{false, true} {
				for _, k := range kinds {
					one(c10spec{tree: tree, entry: "save", nf: nf, target: k, warmup: tree != "badlit" && r.Intn(4) == 0})
				}
			}
		}
	}
	if len(kinds) > 0 {
		for i := tier(t, 60, 6000); i > 0; i-- {
			one(c10spec{tree: pick(r, []string{"random", "damaged"}), entry: "save", nf: r.Intn(2) == 0, target: pick(r, kinds), warmup: r.Intn(6) == 0})
		}
	}
	return out
}

func c10WriteFailErrno(kind string) string {
	for _, t := range c10WriteFailTargets {
		if t.Kind == kind {
			return t.Errno
		}
	}
	return ""
}

// ---- stream after-failed-render: what a failed call leaves behind ----

// c10QualPaths: the paths of all Quals below n.
func c10QualPaths(n term.Node, into map[string]bool) {
	switch x := n.(type) {
	case *term.Group:
		if x.Method == "Qual" {
			into[x.Path] = true
		}
		for _, it := range x.Items {
			c10QualPaths(it, into)
		}
	case *term.Stmt:
		if x == nil {
			return
		}
		for _, it := range x.Items {
			c10QualPaths(it, into)
		}
	case *term.Dict:
		for _, p := range x.Pairs {
			c10QualPaths(p[0], into)
			c10QualPaths(p[1], into)
		}
	}
}

// c10BrokenFragment: a statement that go/format rejects inside a fragment (no Quals).
func c10BrokenFragment(r *rand.Rand) *term.Stmt {
	switch r.Intn(4) {
	case 0:
		return term.S(term.Id("x"), term.Op(":="))
	case 1:
		return term.S(term.Id("x"), term.Op("="), term.Op(")"))
	}
	return c10Broken(r)
}

// afterFailed builds one sequence on ONE File in which a call FAILS and later calls on the
// same File must write exactly their own output:
//
//	rcode-fmterr      Statement/Group.RenderWithFile of a fragment go/format rejects
//	rcode-panic       ... of a fragment holding a Lit of an unsupported type
//	                  (either of them sometimes twice), then RenderWithFile of a VALID
//	                  fragment with the same File, then File.Render or File.Save
//	filerender-fmterr File.Render of a File whose body holds a broken statement, then (nothing
//	                  added) RenderWithFile of a valid fragment, sometimes a second one,
//	                  sometimes File.Render again under NoFormat (succeeds: the raw text)
//	filerender-panic  File.Render of a File to which a statement with a bad literal was added,
//	                  then RenderWithFile of a valid fragment (sometimes two)
//
// A failing call that the reference run DROPS must not be able to register an import (a
// failed render legitimately keeps the imports it registered: the model says so too): its
// tree either holds no Qual at all, or only Quals of paths that a successful warm-up
// File.Render of a body referencing them has registered before (tag failing-quals=).  A
// File.Render that fails in go/format over a body with Quals is replaced, in the reference
// run, by the same render under NoFormat.
//
// NonTrivial: by construction the case holds a failing call followed by a call that succeeds
// (c10_test.go measures both on a whole quick run).
func (p *c10) afterFailed(r *rand.Rand) *Case {
	shape := pick(r, []string{"rcode-fmterr", "rcode-panic", "filerender-fmterr", "filerender-panic"})
	withQuals := r.Intn(2) == 0
	var paths []string
	if withQuals {
		paths = somePaths(r, 4)
		for len(paths) == 0 {
			paths = somePaths(r, 4)
		}
	}
	g := &Gen{R: r, Paths: paths, NoBad: true}
	h, _ := FileSetup(r, 0, SetupOpts{Paths: paths})
	info := &c10info{tree: "after-failed", skip: map[int]string{}}
	meta := map[string]interface{}{"c10": info}
	tags := []string{"after-failed-render", "failed=" + shape}
	nf := r.Intn(3) == 0

	body := c10Stmts(r, g, "valid", true, true)
	registered := map[string]bool{}
	for _, st := range body {
		h = append(h, hist.Op{Kind: "fadd", F: 0, Code: st})
		c10QualPaths(st, registered)
	}
	var regPaths []string
	for _, q := range sortedKeys(registered) {
		regPaths = append(regPaths, q)
	}
	fragment := func(kind string, gg *Gen) term.Node {
		group := r.Intn(2) == 0
		sts := c10Stmts(r, gg, kind, false, !group)
		if kind == "invalid" && r.Intn(2) == 0 {
			// the broken statement of this stream instead of the one c10Stmts inserted
			for i, st := range sts {
				q := map[string]bool{}
				c10QualPaths(st, q)
				if len(st.Items) > 0 && !c10HasNamed(st) && len(q) == 0 {
					sts[i] = c10BrokenFragment(r)
					break
				}
			}
		}
		if group {
			return c10GroupTarget(r, kind, sts)
		}
		return c10Join(sts)
	}
	validFragment := func() hist.Op {
		return hist.Op{Kind: "rcode", F: 0, Code: fragment("valid", g)}
	}
	fail := func(op hist.Op, how string) {
		info.skip[len(h)] = how
		h = append(h, op)
	}

	switch shape {
	case "rcode-fmterr", "rcode-panic":
		// Quals of the failing fragment: only paths the warm-up render has registered
		gf := &Gen{R: r, NoBad: true}
		if withQuals && len(regPaths) > 0 {
			h = append(h, hist.Op{Kind: "noformat", F: 0, Flag: r.Intn(3) == 0}, hist.Op{Kind: "render", F: 0})
			gf.Paths = regPaths
			tags = append(tags, "failing-quals=registered-by-warmup-render")
		} else {
			tags = append(tags, "failing-quals=none")
		}
		kind := "invalid"
		if shape == "rcode-panic" {
			kind = "badlit"
			info.badlit = true
		}
		fail(hist.Op{Kind: "rcode", F: 0, Code: fragment(kind, gf)}, "drop")
		if r.Intn(4) == 0 {
			fail(hist.Op{Kind: "rcode", F: 0, Code: fragment(kind, gf)}, "drop")
			tags = append(tags, "failed-twice")
		}
		h = append(h, validFragment())
		h = append(h, hist.Op{Kind: "noformat", F: 0, Flag: nf})
		if r.Intn(2) == 0 {
			h = append(h, hist.Op{Kind: "render", F: 0})
			tags = append(tags, "then=rcode+filerender")
		} else {
			tk := pick(r, []string{"new", "existing"})
			p.fixtures(tk, info)
			dir := info.dir
			meta["savepath"] = func(sym string) string { return filepath.Join(dir, filepath.FromSlash(sym)) }
			h = append(h, hist.Op{Kind: "save", F: 0, A: tk + ".go"})
			tags = append(tags, "then=rcode+save", "target="+tk)
		}
	case "filerender-fmterr":
		broken := c10Broken(r)
		if r.Intn(4) == 0 {
			broken = c10FileOnlyBroken(r)
		}
		h = append(h, hist.Op{Kind: "fadd", F: 0, Code: broken})
		if r.Intn(3) == 0 {
			h = append(h, hist.Op{Kind: "fadd", F: 0, Code: g.SimpleDecl(30)})
		}
		h = append(h, hist.Op{Kind: "noformat", F: 0, Flag: false})
		how := "raw"
		if !withQuals {
			how = "drop"
		}
		tags = append(tags, "reference="+how)
		fail(hist.Op{Kind: "render", F: 0}, how)
		if r.Intn(4) == 0 {
			fail(hist.Op{Kind: "render", F: 0}, how)
			tags = append(tags, "failed-twice")
		}
		h = append(h, validFragment())
		if r.Intn(2) == 0 {
			h = append(h, validFragment())
		}
		if r.Intn(3) == 0 {
			h = append(h, hist.Op{Kind: "noformat", F: 0, Flag: true}, hist.Op{Kind: "render", F: 0})
			tags = append(tags, "then=rcode+noformat-filerender")
		} else {
			tags = append(tags, "then=rcode")
		}
	default: // filerender-panic
		info.badlit = true
		if len(regPaths) > 0 {
			h = append(h, hist.Op{Kind: "noformat", F: 0, Flag: r.Intn(3) == 0}, hist.Op{Kind: "render", F: 0})
			tags = append(tags, "failing-quals=registered-by-warmup-render")
		} else {
			tags = append(tags, "failing-quals=none")
		}
		h = append(h, hist.Op{Kind: "fadd", F: 0, Code: c10BadLitStmt(r)})
		h = append(h, hist.Op{Kind: "noformat", F: 0, Flag: nf})
		fail(hist.Op{Kind: "render", F: 0}, "drop")
		if r.Intn(4) == 0 {
			fail(hist.Op{Kind: "render", F: 0}, "drop")
			tags = append(tags, "failed-twice")
		}
		h = append(h, validFragment())
		if r.Intn(2) == 0 {
			h = append(h, validFragment())
		}
		tags = append(tags, "then=rcode")
	}
	return &Case{Hist: h, Stream: "after-failed-render", Tags: tags, Meta: meta, NonTrivial: true}
}

func c10HasNamed(st *term.Stmt) bool {
	for _, it := range st.Items {
		if t, ok := it.(term.Tok); ok && t.Kind == "named" {
			return true
		}
	}
	return false
}

// ---- stream save-over-related: Save onto a file whose content is related to the output ----

var c10Relations = []string{"existing-equal", "existing-extends-output", "existing-prefix-of-output", "existing-same-length"}

// c10RenderNow renders File 0 of h with the implementation into a buffer (Generate time).
func c10RenderNow(h hist.History) (out string, ok bool) {
	defer func() {
		if recover() != nil {
			ok = false
		}
	}()
	var h2 hist.History
	for _, op := range h {
		switch op.Kind {
		case "render", "rcode", "rplain", "save", "imports":
			continue
		}
		h2 = append(h2, op)
	}
	h2 = append(h2, hist.Op{Kind: "render", F: 0})
	obs := hist.NewWorld().Exec(h2)
	if len(obs) != 1 || obs[0].Kind != "write" || obs[0].Failed || obs[0].Out == "" {
		return "", false
	}
	return obs[0].Out, true
}

// saveOver: File.Save of a valid File onto an EXISTING file whose content stands in the
// relation rel to the output the Save must produce.  The output is not predicted: the File
// (and a variant with one declaration more / less) is rendered with the implementation at
// Generate time, when the fixtures are made:
//
//	existing-equal             the old file holds exactly the new output
//	existing-extends-output    the new output is a proper prefix of the old file: the old file
//	                           is the output of the same File with one more declaration
//	                           (old-file=one-more-declaration) or the output followed by text
//	existing-prefix-of-output  the old file is a proper prefix of the new output: the output
//	                           of the same File without its last declaration, or a cut
//	existing-same-length       as long as the output, 1..3 bytes (or all letters) differ
//
// After the Save the target must hold exactly the rendered output (oracle: the Save branch
// of c10Judge).  NonTrivial: the relation holds between the fixture and what the File
// renders (measured at Generate time; the tag is only given when it does).
func (p *c10) saveOver(r *rand.Rand, rel string, nf bool) *Case {
	paths := somePaths(r, 4)
	g := &Gen{R: r, Paths: paths, NoBad: true}
	h, _ := FileSetup(r, 0, SetupOpts{Paths: paths})
	info := &c10info{tree: "valid"}
	body := c10Stmts(r, g, "valid", true, true)
	mk := func(sts []*term.Stmt) hist.History {
		out := append(hist.History{}, h...)
		for _, st := range sts {
			out = append(out, hist.Op{Kind: "fadd", F: 0, Code: st})
		}
		return append(out, hist.Op{Kind: "noformat", F: 0, Flag: nf})
	}
	full := mk(body)
	tags := []string{"entry=save", "tree=valid", fmt.Sprintf("noformat=%v", nf)}
	out, ok := c10RenderNow(full)
	how := ""
	holds := false
	if ok {
		switch rel {
		case "existing-equal":
			info.oldContent, holds = out, true
		case "existing-extends-output":
			// a declaration without Quals: the import block stays as it is
			more := append(append([]*term.Stmt{}, body...), term.S(term.Named("Var"), term.Id("ZLater"), term.Op("="), term.Lit(r.Intn(1000))))
			if old, ok2 := c10RenderNow(mk(more)); ok2 && r.Intn(3) != 0 && strings.HasPrefix(old, out) && len(old) > len(out) {
				info.oldContent, how = old, "one-more-declaration"
			} else {
				info.oldContent, how = out+pick(r, []string{"// trailing text of the previous generation\n", "var Old = 1\n", "}", "\x00", "\n"}), "output+text"
			}
			holds = true
		case "existing-prefix-of-output":
			if len(body) > 1 {
				if old, ok2 := c10RenderNow(mk(body[:len(body)-1])); ok2 && r.Intn(3) != 0 && strings.HasPrefix(out, old) && len(old) < len(out) {
					info.oldContent, how = old, "one-declaration-less"
				}
			}
			if how == "" && len(out) > 1 {
				info.oldContent, how = out[:1+r.Intn(len(out)-1)], "cut"
			}
			holds = how != ""
		case "existing-same-length":
			b := []byte(out)
			flip := func(i int) {
				switch c := b[i]; {
				case c >= 'a' && c < 'z' || c >= 'A' && c < 'Z' || c >= '0' && c < '9':
					b[i] = c + 1
				default:
					b[i] = 'z'
				}
			}
			if r.Intn(4) == 0 {
				for i := range b {
					if b[i] >= 'a' && b[i] <= 'z' {
						flip(i)
					}
				}
				how = "all-letters"
			} else {
				k := 1 + r.Intn(3)
				for j := 0; j < k; j++ {
					switch r.Intn(3) {
					case 0:
						flip(len(b) - 1 - r.Intn(c10Min(len(b), 3))) // at the very end
					case 1:
						flip(r.Intn(c10Min(len(b), 10))) // at the very beginning
					default:
						flip(r.Intn(len(b)))
					}
				}
				how = "few-bytes"
			}
			info.oldContent = string(b)
			holds = len(info.oldContent) == len(out) && info.oldContent != out
		}
	}
	if r.Intn(5) == 0 {
		full = append(full, hist.Op{Kind: "render", F: 0})
		tags = append(tags, "warmup-render")
	}
	p.fixtures("existing", info)
	dir := info.dir
	meta := map[string]interface{}{"c10": info, "savepath": func(sym string) string { return filepath.Join(dir, filepath.FromSlash(sym)) }}
	full = append(full, hist.Op{Kind: "save", F: 0, A: "existing.go"})
	if holds {
		tags = append(tags, "target="+rel)
		if how != "" {
			tags = append(tags, "old-file="+how)
		}
	} else {
		tags = append(tags, "target=existing") // the File did not render at Generate time: ordinary existing target
	}
	tags = append(tags, "cause=none")
	return &Case{Hist: full, Stream: "save-over-related", Tags: tags, Meta: meta, NonTrivial: holds}
}

func c10Min(a, b int) int {
	if a < b {
		return a
	}
	return b
}

// Compare: the full projection (error class and bytes of every observation), plus the number
// of Write calls the model's outcome stands for: OWrite is exactly one call, OPanic and
// OFormatErr are none (coq/Model/FileRender.v).  Nothing is projected away.
func (p *c10) Compare(c *Case, exp, got []hist.Obs) string {
	got = c10ShortNil(c.Hist, got)
	if d := CompareAll(exp, got); d != "" {
		return d
	}
	for i := range exp {
		want := -1
		switch exp[i].Kind {
		case "write":
			want = 1
		case "fmterr", "panic":
			want = 0 // (World.save does not count: Writes is 0 there anyway)
		}
		if want >= 0 && got[i].Writes != want {
			return fmt.Sprintf("observation %d: the model's outcome %s means %d Write call(s), the implementation made %d", i, exp[i].Kind, want, got[i].Writes)
		}
		if exp[i].Kind == "panic" {
			break
		}
	}
	return ""
}

// c10ShortNil: the model knows writers that fail or do not fail.  For a writer of shape short-nil
// (it takes less than it is given and reports no error) the model's answer is the one for a
// writer that does not fail; it is compared with what the writer was OFFERED in the first call,
// whether the implementation then returned nil or io.ErrShortWrite (the oracle decides the rest).
func c10ShortNil(h hist.History, got []hist.Obs) []hist.Obs {
	var out []hist.Obs
	oi := 0
	for _, op := range h {
		switch op.Kind {
		case "render", "rcode", "rplain", "save", "imports":
		default:
			continue
		}
		if oi >= len(got) {
			break
		}
		if op.WFault == "short-nil" && got[oi].Kind == "write" && !got[oi].Failed && len(got[oi].Offered) > 0 {
			if out == nil {
				out = append([]hist.Obs{}, got...)
			}
			out[oi].Out = got[oi].Offered[0]
			out[oi].Writes = 1
		}
		oi++
	}
	if out == nil {
		return got
	}
	return out
}

// c10Twin re-executes h[:i] and then operation i with a writer that does not fail, in a
// fresh World that never touches the file system (every save becomes a File.Render into a
// buffer).  forceRaw switches NoFormat on just before operation i.
//
// skip (may be nil) names earlier operations that failed by construction (c10info.skip): the
// reference run leaves them out ("drop") or replaces them by a render that cannot fail
// ("raw"), so that it shows what operation i writes when the failure never happened.
func c10Twin(h hist.History, i int, forceRaw bool, skip map[int]string) (o hist.Obs, ok bool) {
	mode := ""
	if forceRaw {
		mode = "raw"
	}
	return c10TwinMode(h, i, mode, skip)
}

// c10TwinMode: mode "raw" switches NoFormat on just before operation i, "fmt" switches it off.
func c10TwinMode(h hist.History, i int, mode string, skip map[int]string) (o hist.Obs, ok bool) {
	var h2 hist.History
	conv := func(op hist.Op) hist.Op {
		switch op.Kind {
		case "render", "rcode", "rplain":
			op.Flag, op.WFault = false, ""
		case "save":
			op = hist.Op{Kind: "render", F: op.F}
		}
		return op
	}
	for k, op := range h[:i] {
		if op.Kind == "imports" {
			continue
		}
		switch skip[k] {
		case "drop":
			continue
		case "raw":
			h2 = append(h2, hist.Op{Kind: "noformat", F: op.F, Flag: true}, hist.Op{Kind: "render", F: op.F},
				hist.Op{Kind: "noformat", F: op.F, Flag: noformatAt(h, k, op.F)})
			continue
		}
		h2 = append(h2, conv(op))
	}
	last := conv(h[i])
	switch mode {
	case "raw":
		h2 = append(h2, hist.Op{Kind: "noformat", F: last.F, Flag: true})
	case "fmt":
		h2 = append(h2, hist.Op{Kind: "noformat", F: last.F, Flag: false})
	}
	h2 = append(h2, last)
	defer func() {
		if recover() != nil {
			ok = false
		}
	}()
	obs := hist.NewWorld().Exec(h2)
	if len(obs) == 0 {
		return hist.Obs{}, false
	}
	return obs[len(obs)-1], true
}

func c10PanicAllowed(info *c10info, msg string) bool {
	if info.badlit && strings.HasPrefix(msg, "unsupported type for literal") {
		return true
	}
	return info.tree == "niltarget" && strings.Contains(msg, "nil pointer dereference")
}

// Oracle decides C10 on what the implementation did, with the instrumented writer's
// counters, go/format and the file system as ground truth (the model is not consulted).
func (p *c10) Oracle(c *Case, got []hist.Obs) string {
	info, _ := c.Meta["c10"].(*c10info)
	if info == nil {
		return "C10: case without c10 info"
	}
	if info.dir != "" && info.post == nil {
		post, err := c10Snap(info.dir)
		if err != nil {
			info.snapErr = err.Error()
			post = fsSnap{}
		}
		info.post = post
		p.pending--
		if p.pending == 0 && len(p.roots) > 0 {
			p.Close() // every save case has been read: nothing below the temp root is needed any more
		}
	}
	return c10Judge(c.Hist, info, got)
}

func c10Judge(h hist.History, info *c10info, got []hist.Obs) string {
	if info.snapErr != "" {
		return "cannot read the case directory after the run: " + info.snapErr
	}
	nobs, nsave := 0, 0
	for _, op := range h {
		switch op.Kind {
		case "render", "rcode", "rplain", "imports":
			nobs++
		case "save":
			nobs++
			nsave++
		}
	}
	if nobs != len(got) {
		return fmt.Sprintf("%d observations for %d observing operations", len(got), nobs)
	}
	if nsave > 1 {
		return "C10: a case must not contain more than one save (the post-state is read once)"
	}
	oi := 0
	for i, op := range h {
		switch op.Kind {
		case "imports":
			oi++
			continue
		case "render", "rcode", "rplain", "save":
		default:
			continue
		}
		o := got[oi]
		oi++
		what := fmt.Sprintf("op %d (%s): ", i, op.Kind)
		isSave := op.Kind == "save"
		unchanged := func(why string) string {
			if !isSave {
				return ""
			}
			if d := c10Diff(info.pre, info.post, ""); d != "" {
				return what + "the file system changed although " + why + ": " + d
			}
			return ""
		}
		designedFailure := info.skip != nil && info.skip[i] != ""
		if info.skip != nil && !designedFailure && (o.Kind == "panic" || o.Kind == "fmterr") {
			// stream after-failed-render: this operation succeeds when the earlier failed call(s)
			// never happened; whatever makes it fail now was left behind by the failure
			if tw, ok := c10Twin(h, i, false, info.skip); ok && tw.Kind == "write" {
				return fmt.Sprintf("%sfails after an earlier call failed, but succeeds when that call never happened (leftovers of the failed call):\n   now   %s\n   alone %s", what, o, tw)
			}
		}
		switch o.Kind {
		case "panic":
			if !c10PanicAllowed(info, o.Msg) {
				return what + "unexpected panic: " + o.Msg
			}
			if o.Writes != 0 || o.Out != "" {
				return fmt.Sprintf("%spanicked after %d Write call(s) carrying %d byte(s): nothing may reach the writer when rendering fails", what, o.Writes, len(o.Out))
			}
			if designedFailure {
				// the generator guarantees that the panicking call could not register an import:
				// the later operations are judged against the run in which it never happened
				if d := unchanged("rendering panicked"); d != "" {
					return d
				}
				continue
			}
			return unchanged("rendering panicked") // the rest of the history is not meaningful

		case "fmterr":
			if o.Writes != 0 {
				return fmt.Sprintf("%sa format error was returned after %d Write call(s): nothing may reach the writer when formatting fails", what, o.Writes)
			}
			if _, err := format.Source([]byte(o.Out)); err == nil {
				return what + "a format error was returned for text that go/format accepts"
			}
			if (op.Kind == "render" || isSave) && info.skip == nil {
				// the text the error quotes is the unformatted source: what an identically built
				// File writes under NoFormat
				if raw, ok := c10TwinMode(h, i, "raw", nil); ok && raw.Kind == "write" && !raw.Failed && raw.Out != o.Out {
					return fmt.Sprintf("%sthe source quoted by the format error is not what an identically built File renders under NoFormat:\n   quoted   %q\n   NoFormat %q", what, o.Out, raw.Out)
				}
			}
			if d := unchanged("rendering failed (format error)"); d != "" {
				return d
			}

		case "write":
			if isSave {
				return what + "unexpected observation " + o.String()
			}
			shape := op.WFault
			if shape == "" && op.Flag {
				shape = "zero-err"
			}
			mustFail := c10ShapeFails(shape) // the first Write reports an error
			if o.Failed {
				if (shape == "second-err" || shape == "third-err") && o.Writes >= 2 {
					// a later call failed and the error came back - but nothing makes a second call necessary
					return fmt.Sprintf("%sthe output was handed over in %d Write calls (the last one failed): exactly one Write must carry the whole output", what, o.Writes)
				}
				if !mustFail {
					return what + "a writer error was returned although no fault was injected"
				}
				if o.Writes != 1 {
					return fmt.Sprintf("%sthe first Write failed but Write was called %d times", what, o.Writes)
				}
				continue
			}
			if mustFail {
				return fmt.Sprintf("%sthe writer's error was swallowed: the writer (shape %s) returned its error (Write was called %d time(s); it took %d byte(s)) and nil was returned", what, shape, o.Writes, len(o.Out))
			}
			if shape == "short-nil" && len(o.Offered) > 0 {
				// the writer took only a part of the first call and reported no error (it breaks the
				// io.Writer contract): nil and io.ErrShortWrite are both acceptable answers; the first
				// call must have carried the whole output; further calls are allowed only to offer the rest
				if d := c10Whole(h, i, op, o.Offered[0], info.skip); d != "" {
					return what + "short write without error: the first Write call: " + d
				}
				if o.Writes > 1 && o.Out != o.Offered[0] {
					return fmt.Sprintf("%sshort write without error: %d Write calls, and what the writer took in them is not the output:\n   took %q\n   want %q", what, o.Writes, o.Out, o.Offered[0])
				}
				continue
			}
			if o.Writes != 1 {
				return fmt.Sprintf("%ssuccess with %d Write calls: exactly one Write must carry the whole output", what, o.Writes)
			}
			if d := c10Whole(h, i, op, o.Out, info.skip); d != "" {
				return what + d
			}

		case "save":
			if !isSave {
				return what + "unexpected observation " + o.String()
			}
			kind := c10TargetKind(op.A)
			mustFail := c10FsFails(kind, info.roWritable)
			if o.Failed {
				if !mustFail {
					return what + "Save returned a file-system error for a writable target (" + kind + ")"
				}
				// for these target kinds the open itself fails, or the target is a device reached
				// through a symbolic link: nothing in the directory may have changed
				if d := unchanged("the target cannot be written (" + kind + ")"); d != "" {
					return d
				}
				continue
			}
			if mustFail {
				return what + "the file system's error was swallowed: Save returned nil although the target (" + kind + ") cannot be written"
			}
			if d := c10Whole(h, i, op, o.Out, info.skip); d != "" {
				return what + "content read back after Save: " + d
			}
			rel := filepath.FromSlash(op.A)
			e, ok := info.post[rel]
			if !ok || e.Dir {
				return what + "Save returned nil but the target is not a regular file afterwards"
			}
			if e.Data != o.Out {
				return fmt.Sprintf("%sthe target's content changed after Save returned:\n   then %q\n   now  %q", what, o.Out, e.Data)
			}
			if d := c10Diff(info.pre, info.post, rel); d != "" {
				return what + "Save touched something else than its target: " + d
			}

		default: // bad: World.guard / World.save could not classify the error
			if isSave && c10FsFails(c10TargetKind(op.A), info.roWritable) && strings.HasPrefix(o.Msg, "saved file unreadable") {
				return what + "the file system's error was swallowed: Save returned nil although the target (" + c10TargetKind(op.A) + ") cannot be written (" + o.Msg + ")"
			}
			return what + "error of an unexpected class (neither the writer's own error, nor a format error, nor an *os.PathError; or nil without a readable file): " + o.Msg
		}
	}
	return ""
}

// c10Whole: out is the whole rendered output. Ground truth: (1) the same history rendered
// again, in a fresh World, by the same kind of operation into a buffer (for a save: by
// File.Render); (2) for File.Render/Save with formatting: go/format applied to what an
// identically built File renders with NoFormat; (3) for File.Render/Save with NoFormat: the
// same File rendered with formatting (its output, or the source its format error quotes).
func c10Whole(h hist.History, i int, op hist.Op, out string, skip map[int]string) string {
	tw, ok := c10Twin(h, i, false, skip)
	if !ok || tw.Kind != "write" || tw.Failed {
		return fmt.Sprintf("the same history does not render with a non-failing writer: %s", tw)
	}
	if tw.Out != out {
		return fmt.Sprintf("not the rendered output:\n   got  %q\n   want %q", out, tw.Out)
	}
	if (op.Kind == "render" || op.Kind == "save") && !noformatAt(h, i, op.F) {
		raw, ok := c10Twin(h, i, true, skip)
		if !ok || raw.Kind != "write" {
			return fmt.Sprintf("an identically built File with NoFormat does not render: %s", raw)
		}
		b, err := format.Source([]byte(raw.Out))
		if err != nil {
			return "go/format rejects the NoFormat rendering of a File whose formatted render succeeded: " + err.Error()
		}
		if string(b) != out {
			return fmt.Sprintf("not go/format of the unformatted rendering:\n   got  %q\n   want %q", out, string(b))
		}
	}
	if (op.Kind == "render" || op.Kind == "save") && noformatAt(h, i, op.F) {
		return c10RawAgainstFormatted(h, i, out, skip)
	}
	return ""
}

// c10RawAgainstFormatted is ground truth (3) of c10Whole: out is what operation i (File.Render /
// File.Save of a File with NoFormat) wrote.  The same File rendered WITH formatting does not go
// through the NoFormat branch.  If it formats, go/format of out is what it writes; if it does
// not, its format error quotes the unformatted source, which is out byte for byte.
func c10RawAgainstFormatted(h hist.History, i int, out string, skip map[int]string) string {
	ft, ok := c10TwinMode(h, i, "fmt", skip)
	switch {
	case !ok:
	case ft.Kind == "write" && !ft.Failed:
		b, err := format.Source([]byte(out))
		if err != nil {
			return fmt.Sprintf("go/format rejects the NoFormat output of a File that renders with formatting (%v):\n   NoFormat output %q\n   formatted       %q", err, out, ft.Out)
		}
		if string(b) != ft.Out {
			return fmt.Sprintf("go/format of the NoFormat output is not what the same File renders with formatting:\n   NoFormat output %q\n   its go/format   %q\n   formatted       %q", out, string(b), ft.Out)
		}
	case ft.Kind == "fmterr":
		if ft.Out != out {
			return fmt.Sprintf("the NoFormat output is not the unformatted source that the format error of the same File, rendered with formatting, quotes:\n   NoFormat output %q\n   quoted source   %q", out, ft.Out)
		}
	}
	return ""
}

// noformatAt: File f's NoFormat setting just before operation upto.
func noformatAt(h hist.History, upto int, f int) bool {
	nf := false
	for _, op := range h[:upto] {
		if op.F != f {
			continue
		}
		switch op.Kind {
		case "noformat":
			nf = op.Flag
		case "newfile", "newfilepath", "newfilepathname":
			nf = false
		}
	}
	return nf
}
