package props

import (
	"fmt"
	"math/rand"

	"github.com/dave/jennifer/jen"

	"verifharness/hist"
	"verifharness/term"
)

// Stream "nullish-items" of C02: things that render NOTHING, of every kind, at every item
// position of every kind of group.
//
// The random trees of gen.go put a nullish item into a group now and then (1 item in 8, 7
// kinds) and a Dict only as the sole item of Values.  Here the product is enumerated:
//
//	group kind   every variadic group method of the API (enumerated by reflection: Append Block
//	             Call Case Defs For If Index Interface List Make Max Min Params Print Println
//	             Return Struct Switch Types Union Values), every one-argument group (Assert Cap
//	             Clear Close Imag Len Map New Panic Parens Real), the two-argument groups
//	             (Complex Copy Delete), Custom with five option sets, the pairs of a Dict (as
//	             key and as value) and the chain of a Statement (Add);
//	nullish kind nil, (*Statement)(nil), (*Group)(nil), Null(), an empty Statement, an empty
//	             Tag, nested empty statements, an empty List / Custom without delimiters, a List /
//	             Custom of nulls, Dict{}, a Dict whose every pair has a null / nil key or value (one
//	             pair, several pairs), the same Dicts wrapped by Add; and - for contrast - three
//	             things that render nothing WITHOUT being null (Empty(), Op(""), Types()): they
//	             still get their separator;
//	position     before, between and after 0..2 real items (exhaustive; 3..5 real items and
//	             two or three nullish items at once are sampled), the real items being of the
//	             sort the group expects, inside a declaration that is valid Go for that group (tag
//	             ctx=valid) so that a successful render is compared with gofmt of its NoFormat twin;
//	form         a third of the cases are built through a random FORM of every construct
//	             (ValuesFunc, CallFunc, ..., DictFunc, package functions, Do), the others by chained
//	             methods.
//
// A null Dict next to other items of Values is VALID input (it is skipped like any null item):
// tag dict-null-beside-items.  A Dict that is NOT null next to a second item of Values is the
// recorded finding values-dict-plus-item-panics (regression case of c02.go) and is never
// generated here: c02CheckDomain panics (a harness defect, not a failure of jennifer) if a
// Values group with more than one item holds a Dict that termNull does not prove null.

// termNull mirrors isNull of the implementation on a term (no file: a Qual is never null).
func termNull(n term.Node) bool {
	switch x := n.(type) {
	case nil, term.Nil, term.NilStmt, term.NilGroup:
		return true
	case term.Tok:
		return x.Kind == "null"
	case term.Tag:
		return len(x.KV) == 0
	case term.Comment:
		return false
	case *term.Stmt:
		for _, it := range x.Items {
			if !termNull(it) {
				return false
			}
		}
		return true
	case *term.Dict:
		for _, p := range x.Pairs {
			if !termNull(p[0]) && !termNull(p[1]) {
				return false
			}
		}
		return true
	case *term.Group:
		switch {
		case x.Method == "List":
		case x.Method == "Custom" && x.Opts.Open == "" && x.Opts.Close == "":
		default:
			return false
		}
		for _, it := range x.Items {
			if !termNull(it) {
				return false
			}
		}
		return true
	}
	return false
}

// c02CheckDomain: no Values group with more than one item holds a Dict that is not null.
func c02CheckDomain(n term.Node) {
	switch x := n.(type) {
	case *term.Stmt:
		for _, it := range x.Items {
			c02CheckDomain(it)
		}
	case *term.Dict:
		for _, p := range x.Pairs {
			c02CheckDomain(p[0])
			c02CheckDomain(p[1])
		}
	case *term.Group:
		for _, it := range x.Items {
			if d, ok := it.(*term.Dict); ok && x.Method == "Values" && len(x.Items) > 1 && !termNull(d) {
				panic("harness: C02 nullish stream built Values(Dict, item) with a Dict that is not null (recorded finding values-dict-plus-item-panics)")
			}
			c02CheckDomain(it)
		}
	}
}

type c02Nullish struct {
	name string
	mk   func() term.Node
	dict bool // a Dict given directly as an item
	null bool // null for rendering (false: renders nothing but still gets a separator)
}

func c02Id(s string) *term.Stmt    { return term.S(term.Id(s)) }
func c02Lit(i int) *term.Stmt      { return term.S(term.Lit(i)) }
func c02Null() *term.Stmt          { return term.S(term.Null()) }
func c02Named(m string) *term.Stmt { return term.S(term.Named(m)) }

var c02Nullishes = []c02Nullish{
	{"nil", func() term.Node { return term.Nil{} }, false, true},
	{"nil-statement", func() term.Node { return term.NilStmt{} }, false, true},
	{"nil-group", func() term.Node { return term.NilGroup{} }, false, true},
	{"Null()", func() term.Node { return c02Null() }, false, true},
	{"empty-statement", func() term.Node { return term.S() }, false, true},
	{"empty-tag", func() term.Node { return term.S(term.Tag{}) }, false, true},
	{"nested-empty-statements", func() term.Node { return term.S(term.S(), c02Null(), term.Nil{}, term.S(term.NilGroup{})) }, false, true},
	{"List()", func() term.Node { return term.S(term.G("List")) }, false, true},
	{"List(nulls)", func() term.Node { return term.S(term.G("List", c02Null(), term.Nil{}, term.NilStmt{})) }, false, true},
	{"Custom{}()", func() term.Node { return term.S(term.Custom(jen.Options{})) }, false, true},
	{"Custom{sep}(nulls)", func() term.Node {
		return term.S(term.Custom(jen.Options{Separator: ",", Multi: true}, c02Null(), &term.Dict{}, term.S()))
	}, false, true},
	{"Dict{}", func() term.Node { return &term.Dict{} }, true, true},
	{"Dict{k:Null()}", func() term.Node { return &term.Dict{Pairs: [][2]term.Node{{c02Id("k"), c02Null()}}} }, true, true},
	{"Dict{Null():v}", func() term.Node { return &term.Dict{Pairs: [][2]term.Node{{c02Null(), c02Lit(1)}}} }, true, true},
	{"Dict{nil:v}", func() term.Node { return &term.Dict{Pairs: [][2]term.Node{{term.Nil{}, c02Lit(1)}}} }, true, true},
	{"Dict{k:nil}", func() term.Node { return &term.Dict{Pairs: [][2]term.Node{{c02Id("k"), term.Nil{}}}} }, true, true},
	{"Dict{null-pairs}", func() term.Node {
		return &term.Dict{Pairs: [][2]term.Node{{c02Id("k1"), term.NilStmt{}}, {term.NilGroup{}, c02Lit(2)}, {term.S(), c02Lit(3)},
			{c02Id("k4"), term.S(term.G("List"))}, {c02Lit(5), term.S(term.Tag{})}, {term.S(&term.Dict{}), c02Id("v6")}}}
	}, true, true},
	{"Add(Dict{})", func() term.Node { return term.S(&term.Dict{}) }, false, true},
	{"Add(Dict{k:Null()})", func() term.Node {
		return term.S(&term.Dict{Pairs: [][2]term.Node{{c02Id("k"), c02Null()}, {term.Nil{}, c02Id("v")}}})
	}, false, true},
	// render nothing, are not null: the separator is written
	{"Empty()", func() term.Node { return c02Named("Empty") }, false, false},
	{`Op("")`, func() term.Node { return term.S(term.Op("")) }, false, false},
	{"Types()", func() term.Node { return term.S(term.G("Types")) }, false, false},
}

// c02GroupCtx describes one kind of group: the real items it expects and a declaration that
// is valid Go around it.
type c02GroupCtx struct {
	kind  string
	fixed int                                   // > 0: the method takes exactly this many arguments
	items func(n int) []term.Node               // n real items
	build func(items []term.Node) *term.Group   // the group
	wrap  func(g *term.Group, n int) *term.Stmt // the declaration (n = number of real items)
	valid func(n int) bool                      // the declaration is valid Go with n real items (and any number of nullish ones)
}

func c02Lits(n int) []term.Node {
	var out []term.Node
	for i := 0; i < n; i++ {
		out = append(out, c02Lit(i))
	}
	return out
}

func c02TypeItems(n int) []term.Node {
	names := []string{"Int", "String", "Bool", "Byte", "Error", "Rune"}
	var out []term.Node
	for i := 0; i < n; i++ {
		out = append(out, c02Named(names[i%len(names)]))
	}
	return out
}

func c02Assigns(n int) []term.Node {
	var out []term.Node
	for i := 0; i < n; i++ {
		out = append(out, term.S(term.Id("_"), term.Op("="), term.Lit(i)))
	}
	return out
}

func c02VarExpr(e ...term.Node) *term.Stmt {
	return term.S(append([]term.Node{term.Named("Var"), term.Id("_"), term.Op("=")}, e...)...)
}

func c02FuncBody(stmts ...term.Node) *term.Stmt {
	return term.S(term.Named("Func"), term.Id("_"), term.G("Params"), term.G("Block", stmts...))
}

func c02Any(int) bool { return true }

func c02GroupCtxs() []*c02GroupCtx {
	meth := func(m string) func([]term.Node) *term.Group {
		return func(items []term.Node) *term.Group { return term.G(m, items...) }
	}
	header := func(m string, real func(n int) []term.Node, ok func(int) bool) *c02GroupCtx {
		// if / for / switch header followed by a block, inside a function
		return &c02GroupCtx{kind: m, items: real, build: meth(m), valid: ok,
			wrap: func(g *term.Group, n int) *term.Stmt { return c02FuncBody(term.S(g, term.G("Block"))) }}
	}
	a0 := func() *term.Stmt { return term.S(term.Id("a"), term.Op(":="), term.Lit(0)) }
	out := []*c02GroupCtx{
		{kind: "Values", items: c02Lits, build: meth("Values"), valid: c02Any,
			wrap: func(g *term.Group, n int) *term.Stmt { return c02VarExpr(term.G("Index"), term.Named("Int"), g) }},
		{kind: "Call", items: c02Lits, build: meth("Call"), valid: c02Any,
			wrap: func(g *term.Group, n int) *term.Stmt { return c02VarExpr(term.Id("f"), g) }},
		{kind: "Params", build: meth("Params"), valid: c02Any,
			items: func(n int) []term.Node {
				var out []term.Node
				for i := 0; i < n; i++ {
					out = append(out, term.S(term.Id(fmt.Sprintf("a%d", i)), term.Named("Int")))
				}
				return out
			},
			wrap: func(g *term.Group, n int) *term.Stmt {
				return term.S(term.Named("Func"), term.Id("_"), g, term.G("Block"))
			}},
		{kind: "List", build: meth("List"), valid: func(n int) bool { return n > 0 },
			items: func(n int) []term.Node {
				var out []term.Node
				for i := 0; i < n; i++ {
					out = append(out, c02Id(fmt.Sprintf("a%d", i)))
				}
				return out
			},
			wrap: func(g *term.Group, n int) *term.Stmt {
				return term.S(term.Named("Var"), g, term.Op("="), term.G("List", c02Lits(n)...))
			}},
		{kind: "Index", items: c02Lits, build: meth("Index"), valid: func(n int) bool { return n >= 1 && n <= 3 }, // x[0] x[0:1] x[0:1:2]
			wrap: func(g *term.Group, n int) *term.Stmt { return c02VarExpr(term.Id("x"), g) }},
		{kind: "Types", build: meth("Types"), valid: c02Any, // without items the brackets are omitted: type _ int
			items: func(n int) []term.Node {
				var out []term.Node
				for i := 0; i < n; i++ {
					out = append(out, term.S(term.Id(fmt.Sprintf("T%d", i)), term.Named("Any")))
				}
				return out
			},
			wrap: func(g *term.Group, n int) *term.Stmt {
				return term.S(term.Named("Type"), term.Id("_"), g, term.Named("Int"))
			}},
		{kind: "Block", items: c02Assigns, build: meth("Block"), valid: c02Any,
			wrap: func(g *term.Group, n int) *term.Stmt {
				return term.S(term.Named("Func"), term.Id("_"), term.G("Params"), g)
			}},
		{kind: "Defs", items: c02Assigns, build: meth("Defs"), valid: c02Any,
			wrap: func(g *term.Group, n int) *term.Stmt { return term.S(term.Named("Var"), g) }},
		{kind: "Case", items: c02Lits, build: meth("Case"), valid: func(n int) bool { return n > 0 },
			wrap: func(g *term.Group, n int) *term.Stmt {
				return c02FuncBody(term.S(term.G("Switch", c02Id("x")), term.G("Block",
					term.S(g, term.G("Block", c02Assigns(1)...)))))
			}},
		{kind: "Struct", build: meth("Struct"), valid: c02Any,
			items: func(n int) []term.Node {
				var out []term.Node
				for i := 0; i < n; i++ {
					out = append(out, term.S(term.Id(fmt.Sprintf("F%d", i)), term.Named("Int")))
				}
				return out
			},
			wrap: func(g *term.Group, n int) *term.Stmt { return term.S(term.Named("Type"), term.Id("_"), g) }},
		{kind: "Interface", build: meth("Interface"), valid: c02Any,
			items: func(n int) []term.Node {
				var out []term.Node
				for i := 0; i < n; i++ {
					out = append(out, term.S(term.Id(fmt.Sprintf("M%d", i)), term.G("Params")))
				}
				return out
			},
			wrap: func(g *term.Group, n int) *term.Stmt { return term.S(term.Named("Type"), term.Id("_"), g) }},
		{kind: "Return", items: c02Lits, build: meth("Return"), valid: c02Any,
			wrap: func(g *term.Group, n int) *term.Stmt { return c02FuncBody(term.S(g)) }},
		header("If", func(n int) []term.Node {
			switch n {
			case 0:
				return nil
			case 1:
				return []term.Node{term.S(term.Id("a"), term.Op(">"), term.Lit(0))}
			}
			out := []term.Node{a0(), term.S(term.Id("a"), term.Op(">"), term.Lit(0))}
			for i := 2; i < n; i++ {
				out = append(out, term.S(term.Id("a"), term.Op("++")))
			}
			return out
		}, func(n int) bool { return n == 1 || n == 2 }),
		header("For", func(n int) []term.Node {
			switch n {
			case 0:
				return nil
			case 1:
				return []term.Node{term.S(term.Id("a"), term.Op("<"), term.Lit(9))}
			case 2:
				return []term.Node{a0(), term.S(term.Id("a"), term.Op("<"), term.Lit(9))}
			}
			out := []term.Node{a0(), term.S(term.Id("a"), term.Op("<"), term.Lit(9))}
			for i := 2; i < n; i++ {
				out = append(out, term.S(term.Id("a"), term.Op("++")))
			}
			return out
		}, func(n int) bool { return n == 0 || n == 1 || n == 3 }),
		header("Switch", func(n int) []term.Node {
			switch n {
			case 0:
				return nil
			case 1:
				return []term.Node{c02Id("a")}
			}
			out := []term.Node{a0(), c02Id("a")}
			for i := 2; i < n; i++ {
				out = append(out, c02Id("a"))
			}
			return out
		}, func(n int) bool { return n <= 2 }),
		{kind: "Union", items: c02TypeItems, build: meth("Union"), valid: c02Any,
			wrap: func(g *term.Group, n int) *term.Stmt {
				return term.S(term.Named("Type"), term.Id("_"), term.G("Interface", term.S(g)))
			}},
		{kind: "Append", build: meth("Append"), valid: c02Any, // append() parses
			items: func(n int) []term.Node {
				if n == 0 {
					return nil
				}
				return append([]term.Node{c02Id("xs")}, c02Lits(n-1)...)
			},
			wrap: func(g *term.Group, n int) *term.Stmt { return c02VarExpr(g) }},
		{kind: "Make", build: meth("Make"), valid: c02Any,
			items: func(n int) []term.Node {
				if n == 0 {
					return nil
				}
				return append([]term.Node{term.S(term.G("Index"), term.Named("Int"))}, c02Lits(n-1)...)
			},
			wrap: func(g *term.Group, n int) *term.Stmt { return c02VarExpr(g) }},
	}
	for _, m := range []string{"Min", "Max"} {
		out = append(out, &c02GroupCtx{kind: m, items: c02Lits, build: meth(m), valid: c02Any,
			wrap: func(g *term.Group, n int) *term.Stmt { return c02VarExpr(g) }})
	}
	for _, m := range []string{"Print", "Println"} {
		out = append(out, &c02GroupCtx{kind: m, items: c02Lits, build: meth(m), valid: c02Any,
			wrap: func(g *term.Group, n int) *term.Stmt { return c02FuncBody(term.S(g)) }})
	}
	// variadic group methods this table does not know (a newer API): raw context
	known := map[string]bool{}
	for _, c := range out {
		known[c.kind] = true
	}
	for _, m := range VariadicGroups {
		if !known[m] {
			out = append(out, &c02GroupCtx{kind: m, items: c02Lits, build: meth(m), valid: func(int) bool { return false },
				wrap: func(g *term.Group, n int) *term.Stmt { return c02VarExpr(g) }})
		}
	}
	// one- and two-argument groups
	exprArg := func(n int) []term.Node {
		return []term.Node{c02Id("x"), c02Id("y")}[:n]
	}
	fixed := func(m string, k int, items func(int) []term.Node, stmt bool, ok func(int) bool) *c02GroupCtx {
		c := &c02GroupCtx{kind: m, fixed: k, items: items, build: meth(m), valid: ok}
		if stmt {
			c.wrap = func(g *term.Group, n int) *term.Stmt { return c02FuncBody(term.S(g)) }
		} else {
			c.wrap = func(g *term.Group, n int) *term.Stmt { return c02VarExpr(g) }
		}
		return c
	}
	for _, m := range FixedGroups {
		switch m {
		case "Assert":
			out = append(out, &c02GroupCtx{kind: m, fixed: 1, items: c02TypeItems, build: meth(m), valid: func(n int) bool { return n == 1 },
				wrap: func(g *term.Group, n int) *term.Stmt { return c02VarExpr(term.Id("x"), g) }})
		case "Map":
			out = append(out, &c02GroupCtx{kind: m, fixed: 1, items: c02TypeItems, build: meth(m), valid: func(n int) bool { return n == 1 },
				wrap: func(g *term.Group, n int) *term.Stmt {
					return term.S(term.Named("Var"), term.Id("_"), g, term.Named("Int"))
				}})
		case "New":
			out = append(out, fixed(m, 1, c02TypeItems, false, c02Any))
		case "Parens":
			out = append(out, fixed(m, 1, exprArg, false, func(n int) bool { return n == 1 }))
		case "Panic", "Close", "Clear":
			out = append(out, fixed(m, 1, exprArg, true, c02Any))
		default: // Cap Imag Len Real, and whatever a newer API adds
			out = append(out, fixed(m, 1, exprArg, false, c02Any))
		}
	}
	for _, m := range []string{"Complex", "Copy", "Delete"} {
		if _, ok := stmtMethod(m); ok {
			out = append(out, fixed(m, 2, exprArg, m != "Complex", c02Any))
		}
	}
	// Custom
	for _, o := range []struct {
		name string
		o    jen.Options
		ctx  string
	}{
		{"Custom(call)", jen.Options{Open: "(", Close: ")", Separator: ","}, "call"},
		{"Custom(call,multi)", jen.Options{Open: "(", Close: ")", Separator: ",", Multi: true}, "call"},
		{"Custom(values,multi)", jen.Options{Open: "[]int{", Close: "}", Separator: ",", Multi: true}, "expr"},
		{"Custom(block)", jen.Options{Open: "{", Close: "}", Separator: ";"}, "block"},
		{"Custom(bare)", jen.Options{Separator: ","}, "call-inner"},
	} {
		o := o
		c := &c02GroupCtx{kind: o.name, build: func(items []term.Node) *term.Group { return term.Custom(o.o, items...) }, valid: c02Any, items: c02Lits}
		switch o.ctx {
		case "call":
			c.wrap = func(g *term.Group, n int) *term.Stmt { return c02VarExpr(term.Id("f"), g) }
		case "expr":
			c.wrap = func(g *term.Group, n int) *term.Stmt { return c02VarExpr(g) }
		case "block":
			c.items = c02Assigns
			c.wrap = func(g *term.Group, n int) *term.Stmt {
				return term.S(term.Named("Func"), term.Id("_"), term.G("Params"), g)
			}
		default: // a group without delimiters as the only argument of a call: f(0,1)
			c.wrap = func(g *term.Group, n int) *term.Stmt { return c02VarExpr(term.Id("f"), term.G("Call", term.S(g))) }
		}
		out = append(out, c)
	}
	return out
}

func stmtMethod(name string) (struct{}, bool) {
	for _, l := range [][]string{VariadicGroups, FixedGroups, NamedTokens, ZeroGroups} {
		for _, m := range l {
			if m == name {
				return struct{}{}, true
			}
		}
	}
	_, ok := c14Funcs[name]
	return struct{}{}, ok
}

// c02NullishCase builds one file: the declaration around the group, optionally between two
// ordinary declarations, rendered (formatted or not), then optionally rendered as a fragment.
func c02NullishCase(r *rand.Rand, i int, ctx *c02GroupCtx, n int, ins []int, zs []*c02Nullish) *Case {
	// ins[k] = index (0..n) of the real item BEFORE which zs[k] is inserted (n = at the end);
	// for a method with a fixed number of arguments the nullish item REPLACES the argument
	real := ctx.items(n)
	var items []term.Node
	nreal := n
	if ctx.fixed > 0 {
		items = append(items, ctx.items(ctx.fixed)...)
		replaced := map[int]bool{}
		for k, at := range ins {
			items[at%ctx.fixed] = zs[k].mk()
			replaced[at%ctx.fixed] = true
		}
		nreal = ctx.fixed - len(replaced)
	} else {
		for j := 0; j <= n; j++ {
			for k, at := range ins {
				if at == j {
					items = append(items, zs[k].mk())
				}
			}
			if j < n {
				items = append(items, real[j])
			}
		}
	}
	g := ctx.build(items)
	decl := ctx.wrap(g, nreal)
	c02CheckDomain(decl)
	h := hist.History{{Kind: "newfile", F: 0, A: "p"}}
	gen := &Gen{R: r}
	if i%3 == 1 {
		h = append(h, hist.Op{Kind: "fadd", F: 0, Code: gen.SimpleDecl(0)})
	}
	h = append(h, hist.Op{Kind: "fadd", F: 0, Code: decl})
	if i%3 == 2 {
		h = append(h, hist.Op{Kind: "fadd", F: 0, Code: gen.SimpleDecl(1)})
	}
	nf := i%4 == 3
	h = append(h, hist.Op{Kind: "noformat", F: 0, Flag: nf}, hist.Op{Kind: "render", F: 0})
	if i%5 == 0 {
		h = append(h, hist.Op{Kind: "rcode", F: 0, Code: decl}) // Statement.RenderWithFile of the same tree
	}
	allNull, contrast, dictBeside := true, false, false
	for _, it := range items {
		if !termNull(it) {
			allNull = false
		}
	}
	valid := ctx.valid(nreal)
	for _, z := range zs {
		if !z.null {
			contrast = true
			valid = false // the stray separator usually (not always) makes the text invalid: not claimed
		}
		if z.dict && ctx.kind == "Values" && len(items) > 1 {
			dictBeside = true
		}
	}
	pos := "middle"
	switch {
	case ctx.fixed > 0:
		pos = fmt.Sprintf("argument-%d", ins[0]%ctx.fixed)
	case n == 0:
		pos = "only"
	case ins[0] == 0:
		pos = "first"
	case ins[0] == n:
		pos = "last"
	}
	tags := []string{"group=" + ctx.kind, fmt.Sprintf("real-items=%d", c01Min(nreal, 3)), "pos=" + pos, fmt.Sprintf("noformat=%v", nf)}
	for _, z := range zs {
		tags = append(tags, "nullish="+z.name)
	}
	if len(zs) > 1 {
		tags = append(tags, "several-nullish-items")
	}
	if allNull {
		tags = append(tags, "all-items-null")
	}
	if contrast {
		tags = append(tags, "renders-nothing-but-not-null")
	} else if valid {
		tags = append(tags, "ctx=valid")
	}
	if dictBeside {
		tags = append(tags, "dict-null-beside-items")
	}
	c := &Case{Hist: h, Stream: "nullish-items", NonTrivial: true, Tags: tags,
		Meta: map[string]interface{}{"badlit": false, "expect-valid": valid && !contrast}}
	if i%3 == 0 {
		seed := r.Int63()
		c.Tags = append(c.Tags, "forms=random")
		c.Meta["world"] = func(w *hist.World) {
			fb := term.NewFormBuilder(rand.New(rand.NewSource(seed)), c14Funcs, term.NewFormLog())
			w.B.StmtHook = fb.Stmt
		}
	} else {
		c.Tags = append(c.Tags, "forms=chained")
	}
	return c
}

func c02NullishStream(r *rand.Rand, t string) []*Case {
	var out []*Case
	ctxs := c02GroupCtxs()
	i := 0
	maxN := tier(t, 2, 3)
	for _, ctx := range ctxs {
		for zi := range c02Nullishes {
			z := &c02Nullishes[zi]
			if ctx.fixed > 0 {
				for at := 0; at < ctx.fixed; at++ {
					out = append(out, c02NullishCase(r, i, ctx, ctx.fixed, []int{at}, []*c02Nullish{z}))
					i++
				}
				continue
			}
			for n := 0; n <= maxN; n++ {
				for at := 0; at <= n; at++ {
					out = append(out, c02NullishCase(r, i, ctx, n, []int{at}, []*c02Nullish{z}))
					i++
				}
			}
		}
	}
	// sampled: 3..5 real items, two or three nullish items at once (also all arguments of a
	// two-argument group)
	for k := tier(t, 1500, 100000); k > 0; k-- {
		ctx := ctxs[r.Intn(len(ctxs))]
		n := r.Intn(6)
		m := 1 + r.Intn(3)
		var ins []int
		var zs []*c02Nullish
		for j := 0; j < m; j++ {
			ins = append(ins, r.Intn(n+1))
			zs = append(zs, &c02Nullishes[r.Intn(len(c02Nullishes))])
		}
		if ctx.fixed > 0 {
			n = ctx.fixed
		}
		out = append(out, c02NullishCase(r, i, ctx, n, ins, zs))
		i++
	}
	// the pairs of a Dict (the sole item of Values) and the chain of a statement
	for zi := range c02Nullishes {
		z := &c02Nullishes[zi]
		for side := 0; side < 2; side++ {
			for n := 0; n <= 2; n++ {
				d := &term.Dict{}
				for j := 0; j < n; j++ {
					d.Pairs = append(d.Pairs, [2]term.Node{c02Id(fmt.Sprintf("K%d", j)), c02Lit(j)})
				}
				zn := z.mk()
				if _, isDict := zn.(*term.Dict); isDict {
					zn = term.S(zn) // a Dict as key or value of a Dict: through Add
				}
				pair := [2]term.Node{c02Id("Kz"), zn}
				if side == 0 {
					pair = [2]term.Node{zn, c02Lit(7)}
				}
				d.Pairs = append(d.Pairs, pair)
				decl := c02VarExpr(term.Id("T"), term.G("Values", d))
				h := hist.History{{Kind: "newfile", F: 0, A: "p"}, {Kind: "fadd", F: 0, Code: decl},
					{Kind: "noformat", F: 0, Flag: i%4 == 3}, {Kind: "render", F: 0}}
				tags := []string{"group=Dict", []string{"pos=key", "pos=value"}[side], "nullish=" + z.name, fmt.Sprintf("real-items=%d", n)}
				if z.null {
					tags = append(tags, "ctx=valid")
				}
				out = append(out, &Case{Hist: h, Stream: "nullish-items", NonTrivial: true, Tags: tags,
					Meta: map[string]interface{}{"badlit": false, "expect-valid": z.null}})
				i++
			}
		}
		// var _ = f ( 0 ) with Add(z) before every item of the chain and at its end
		chain := func() []term.Node {
			return []term.Node{term.Named("Var"), term.Id("_"), term.Op("="), term.Id("f"), term.G("Call", c02Lit(0))}
		}
		for at := 0; at <= len(chain()); at++ {
			its := chain()
			its = append(its[:at:at], append([]term.Node{z.mk()}, its[at:]...)...)
			decl := term.S(its...)
			h := hist.History{{Kind: "newfile", F: 0, A: "p"}, {Kind: "fadd", F: 0, Code: decl},
				{Kind: "noformat", F: 0, Flag: i%4 == 3}, {Kind: "render", F: 0}, {Kind: "rcode", F: 0, Code: decl}}
			tags := []string{"group=Statement", fmt.Sprintf("pos=chain-%d", at), "nullish=" + z.name}
			if z.null {
				tags = append(tags, "ctx=valid")
			}
			out = append(out, &Case{Hist: h, Stream: "nullish-items", NonTrivial: true, Tags: tags,
				Meta: map[string]interface{}{"badlit": false, "expect-valid": z.null}})
			i++
		}
	}
	return out
}
