package props

import (
	"fmt"
	"math/rand"
	"os"
	"sort"
	"strings"
)

// Stream "wide" of C01: the ARITY dimension.  The generated programs of c01gen.go have
// lists of 0..8 items (count) and GOROOT files rarely hold long lists of most kinds.  Here
// every file holds ONE list of a chosen kind with a chosen width (17, 18..40, 64..257 in the
// quick tier; up to 1000 in the thorough tier), for every kind of comma / semicolon / newline
// separated list of the grammar - and, because a Statement is a list of tokens too, for the
// chains that make one statement long (binary operators, selectors, calls, indices, unary
// operators, nesting).  The list sits in a context that is valid Go (the case list inside a
// switch inside a function, the parameter list in a function declaration ...), between 0..2
// ordinary random declarations; its elements are small random expressions / types /
// statements of the same grammar-directed generator.  The original of the case is whatever
// the text parses to; the oracle is the one of every C01 stream (the rendered file re-parses
// to the original tree).

type c01WideKind struct {
	name string
	nest bool // the width is a nesting depth (kept <= 200)
	w    func(g *srcGen, n int)
}

// seq writes n elements separated by sep.
func (g *srcGen) seq(n int, sep string, f func(i int)) {
	for i := 0; i < n; i++ {
		if i > 0 {
			g.w(sep)
		}
		f(i)
	}
}

// wExpr / wType / wStmt write one small random element of a wide list.
func (g *srcGen) wExpr() {
	g.budget = 3
	g.exprIn(g.r.Intn(3))
}

func (g *srcGen) wType() {
	g.budget = 2
	g.typ(g.r.Intn(2))
}

func (g *srcGen) wStmt() {
	g.budget = 4
	switch g.r.Intn(3) {
	case 0:
		g.w(g.ref(), " = ")
		g.wExpr()
	case 1:
		g.w(g.ref(), "(")
		g.wExpr()
		g.w(")")
	default:
		g.stmt(g.r.Intn(3))
	}
}

func (g *srcGen) inFunc(body func()) {
	g.fresh++
	g.w(fmt.Sprintf("func W%d() {\n", g.fresh))
	saveL := g.labels
	g.labels = nil
	body()
	g.labels = saveL
	g.w("\n}\n")
}

func c01WideKinds() []c01WideKind {
	lit := func(i int) string { return fmt.Sprint(i) }
	return []c01WideKind{
		// ---- expression lists
		{"call-args", false, func(g *srcGen, n int) {
			g.w("var _ = f(")
			g.seq(n, ", ", func(int) { g.wExpr() })
			g.w(")\n")
		}},
		{"call-args-statement", false, func(g *srcGen, n int) {
			g.inFunc(func() {
				g.w(pick(g.r, []string{"", "go ", "defer "}), "x.m(")
				g.seq(n, ", ", func(int) { g.wExpr() })
				g.w(pick(g.r, []string{"", "", " ...", ","}), ")")
			})
		}},
		{"builtin-args", false, func(g *srcGen, n int) {
			b := pick(g.r, []string{"append", "min", "max", "print", "println"})
			if b == "print" || b == "println" {
				g.inFunc(func() {
					g.w(b, "(")
					g.seq(n, ", ", func(int) { g.wExpr() })
					g.w(")")
				})
				return
			}
			g.w("var _ = ", b, "(")
			g.seq(n, ", ", func(int) { g.wExpr() })
			g.w(")\n")
		}},
		{"case-exprs", false, func(g *srcGen, n int) {
			g.inFunc(func() {
				g.w("switch x {\ncase 'a':\ncase ")
				g.seq(n, ", ", func(int) { g.wExpr() })
				g.w(":\n")
				g.wStmt()
				g.w("\ndefault:\n}")
			})
		}},
		{"case-exprs-empty-body", false, func(g *srcGen, n int) {
			g.inFunc(func() {
				g.w("switch {\ncase ")
				g.seq(n, ", ", func(i int) { g.w("x == ", lit(i)) })
				g.w(":\n}")
			})
		}},
		{"case-types", false, func(g *srcGen, n int) {
			g.inFunc(func() {
				g.w("switch v := x.(type) {\ncase ")
				g.seq(n, ", ", func(int) { g.wType() })
				g.w(":\n_ = v\n}")
			})
		}},
		{"return-values", false, func(g *srcGen, n int) {
			g.inFunc(func() {
				g.w("return ")
				g.seq(n, ", ", func(int) { g.wExpr() })
			})
		}},
		{"assign-lists", false, func(g *srcGen, n int) {
			g.inFunc(func() {
				g.seq(n, ", ", func(i int) { g.w(fmt.Sprintf("a[%d]", i)) })
				g.w(" = ")
				g.seq(n, ", ", func(int) { g.wExpr() })
			})
		}},
		{"define-lists", false, func(g *srcGen, n int) {
			g.inFunc(func() {
				g.seq(n, ", ", func(i int) { g.w(fmt.Sprintf("w%d", i)) })
				g.w(" := ")
				g.seq(n, ", ", func(int) { g.wExpr() })
			})
		}},
		{"valuespec-names-values", false, func(g *srcGen, n int) {
			g.w(pick(g.r, []string{"var ", "const "}))
			g.seq(n, ", ", func(i int) { g.w(fmt.Sprintf("W%d", i)) })
			g.w(" = ")
			g.seq(n, ", ", func(int) { g.wExpr() })
			g.w("\n")
		}},
		{"valuespec-names-typed", false, func(g *srcGen, n int) {
			g.w("var ")
			g.seq(n, ", ", func(i int) { g.w(fmt.Sprintf("W%d", i)) })
			g.w(" ")
			g.wType()
			g.w("\n")
		}},
		// ---- composite literals
		{"slice-elements", false, func(g *srcGen, n int) {
			g.w("var _ = []")
			g.wType()
			g.w("{")
			g.seq(n, ", ", func(int) { g.wExpr() })
			g.w(pick(g.r, []string{"", ",\n"}), "}\n")
		}},
		{"struct-keyed-elements", false, func(g *srcGen, n int) {
			var keys []string
			for i := 0; i < n; i++ {
				keys = append(keys, fmt.Sprintf("%c%d", 'A'+g.r.Intn(26), i))
			}
			if g.r.Intn(2) == 0 {
				sort.Strings(keys) // ascending key texts: the rebuilder may use a Dict
			}
			g.w("var _ = ", pick(g.r, []string{"T0", "&T0", "bar.T"}), "{")
			g.seq(n, ", ", func(i int) {
				g.w(keys[i], ": ")
				g.wExpr()
			})
			g.w("}\n")
		}},
		{"map-keyed-elements", false, func(g *srcGen, n int) {
			g.w("var _ = map[string]int{")
			g.seq(n, ", ", func(i int) {
				g.w(fmt.Sprintf("%q: ", fmt.Sprintf("k%04d", i)))
				g.wExpr()
			})
			g.w("}\n")
		}},
		{"array-indexed-elements", false, func(g *srcGen, n int) {
			g.w("var _ = [...]string{")
			g.seq(n, ", ", func(i int) {
				g.w(fmt.Sprint(i*3), ": ")
				g.wExpr()
			})
			g.w("}\n")
		}},
		{"elided-literal-elements", false, func(g *srcGen, n int) {
			g.w("var _ = [][]int{")
			g.seq(n, ", ", func(i int) { g.w("{", lit(i), ", ", lit(i+1), "}") })
			g.w("}\n")
		}},
		// ---- parameters, results, type parameters, type arguments
		{"params-unnamed", false, func(g *srcGen, n int) {
			g.fresh++
			g.w(fmt.Sprintf("func W%d(", g.fresh))
			g.seq(n, ", ", func(int) { g.wType() })
			g.w(") {}\n")
		}},
		{"params-named", false, func(g *srcGen, n int) {
			g.fresh++
			g.w(fmt.Sprintf("func W%d(", g.fresh))
			g.seq(n, ", ", func(i int) {
				g.w(fmt.Sprintf("w%d ", i))
				if i == n-1 && g.r.Intn(2) == 0 {
					g.w("...")
				}
				g.wType()
			})
			g.w(") {}\n")
		}},
		{"params-grouped-names", false, func(g *srcGen, n int) {
			g.fresh++
			g.w(fmt.Sprintf("func W%d(", g.fresh))
			g.seq(n, ", ", func(i int) { g.w(fmt.Sprintf("w%d", i)) })
			g.w(" int, last string) {}\n")
		}},
		{"results-unnamed", false, func(g *srcGen, n int) {
			g.fresh++
			g.w(fmt.Sprintf("func W%d() (", g.fresh))
			g.seq(n, ", ", func(int) { g.wType() })
			g.w(")\n")
		}},
		{"results-named", false, func(g *srcGen, n int) {
			g.fresh++
			g.w(fmt.Sprintf("func (T0) W%d(x int) (", g.fresh))
			g.seq(n, ", ", func(i int) {
				g.w(fmt.Sprintf("r%d ", i))
				g.wType()
			})
			g.w(") { return }\n")
		}},
		{"functype-params-results", false, func(g *srcGen, n int) {
			g.fresh++
			g.w(fmt.Sprintf("type W%d func(", g.fresh))
			g.seq(n, ", ", func(int) { g.wType() })
			g.w(") (")
			g.seq(n, ", ", func(int) { g.wType() })
			g.w(")\n")
		}},
		{"funclit-params", false, func(g *srcGen, n int) {
			g.w("var _ = func(")
			g.seq(n, ", ", func(i int) {
				g.w(fmt.Sprintf("w%d ", i))
				g.wType()
			})
			g.w(") {}\n")
		}},
		{"type-params", false, func(g *srcGen, n int) {
			g.fresh++
			g.w(fmt.Sprintf("func W%d[", g.fresh))
			g.seq(n, ", ", func(i int) {
				g.w(fmt.Sprintf("P%d ", i), pick(g.r, []string{"any", "comparable", "~int | ~string", "fmtStringer"}))
			})
			g.w("]() {}\n")
		}},
		{"type-params-grouped-names", false, func(g *srcGen, n int) {
			g.fresh++
			g.w(fmt.Sprintf("type W%d[", g.fresh))
			g.seq(n, ", ", func(i int) { g.w(fmt.Sprintf("P%d", i)) })
			g.w(" any] struct{}\n")
		}},
		{"type-args", false, func(g *srcGen, n int) {
			g.w("var _ G[")
			g.seq(n, ", ", func(int) { g.wType() })
			g.w("]\n")
		}},
		{"instantiation-args", false, func(g *srcGen, n int) {
			g.w("var _ = f[")
			g.seq(n, ", ", func(int) { g.wType() })
			g.w("](x)\n")
		}},
		{"receiver-type-params", false, func(g *srcGen, n int) {
			g.fresh++
			g.w("func (r *T0[")
			g.seq(n, ", ", func(i int) { g.w(fmt.Sprintf("P%d", i)) })
			g.w(fmt.Sprintf("]) W%d() {}\n", g.fresh))
		}},
		{"union-terms", false, func(g *srcGen, n int) {
			g.fresh++
			g.w(fmt.Sprintf("type W%d interface {\n", g.fresh))
			g.seq(n, " | ", func(i int) {
				if g.r.Intn(2) == 0 {
					g.w("~")
				}
				g.w(fmt.Sprintf("U%d", i))
			})
			g.w("\n}\n")
		}},
		{"union-terms-constraint", false, func(g *srcGen, n int) {
			g.fresh++
			g.w(fmt.Sprintf("func W%d[P ", g.fresh))
			g.seq(n, " | ", func(i int) { g.w(fmt.Sprintf("~U%d", i)) })
			g.w("]() {}\n")
		}},
		// ---- fields, methods, specs, statements, clauses
		{"struct-fields", false, func(g *srcGen, n int) {
			g.fresh++
			g.w(fmt.Sprintf("type W%d struct {\n", g.fresh))
			g.seq(n, "\n", func(i int) {
				switch g.r.Intn(5) {
				case 0:
					g.w(fmt.Sprintf("E%d", i)) // embedded
				default:
					g.w(fmt.Sprintf("F%d ", i))
					g.wType()
				}
				if g.r.Intn(4) == 0 {
					g.w(" ", pick(g.r, c01TagPool))
				}
			})
			g.w("\n}\n")
		}},
		{"struct-field-names", false, func(g *srcGen, n int) {
			g.fresh++
			g.w(fmt.Sprintf("type W%d struct {\n", g.fresh))
			g.seq(n, ", ", func(i int) { g.w(fmt.Sprintf("f%d", i)) })
			g.w(" int\n}\n")
		}},
		{"struct-tag-keys", false, func(g *srcGen, n int) {
			g.fresh++
			g.w(fmt.Sprintf("type W%d struct {\nF int `", g.fresh))
			g.seq(n, " ", func(i int) { g.w(fmt.Sprintf("k%04d:\"v%d\"", i, i)) })
			g.w("`\n}\n")
		}},
		{"interface-methods", false, func(g *srcGen, n int) {
			g.fresh++
			g.w(fmt.Sprintf("type W%d interface {\n", g.fresh))
			g.seq(n, "\n", func(i int) {
				if g.r.Intn(6) == 0 {
					g.w(fmt.Sprintf("E%d", i))
					return
				}
				g.w(fmt.Sprintf("M%d(", i))
				g.wType()
				g.w(")")
			})
			g.w("\n}\n")
		}},
		{"var-group-specs", false, func(g *srcGen, n int) {
			g.w("var (\n")
			g.seq(n, "\n", func(i int) {
				g.w(fmt.Sprintf("W%d = ", i))
				g.wExpr()
			})
			g.w("\n)\n")
		}},
		{"const-group-iota", false, func(g *srcGen, n int) {
			g.w("const (\nW0 = iota")
			for i := 1; i < n; i++ {
				g.w(fmt.Sprintf("\nW%d", i))
			}
			g.w("\n)\n")
		}},
		{"type-group-specs", false, func(g *srcGen, n int) {
			g.w("type (\n")
			g.seq(n, "\n", func(i int) {
				g.w(fmt.Sprintf("W%d ", i))
				g.wType()
			})
			g.w("\n)\n")
		}},
		{"local-var-group", false, func(g *srcGen, n int) {
			g.inFunc(func() {
				g.w("var (\n")
				g.seq(n, "\n", func(i int) { g.w(fmt.Sprintf("w%d = %d", i, i)) })
				g.w("\n)")
			})
		}},
		{"block-statements", false, func(g *srcGen, n int) {
			g.inFunc(func() { g.seq(n, "\n", func(int) { g.wStmt() }) })
		}},
		{"nested-block-statements", false, func(g *srcGen, n int) {
			g.inFunc(func() {
				g.w("for {\nif x {\n")
				g.seq(n, "\n", func(int) { g.wStmt() })
				g.w("\n}\n}")
			})
		}},
		{"case-body-statements", false, func(g *srcGen, n int) {
			g.inFunc(func() {
				g.w("switch x {\ncase 1:\n")
				g.seq(n, "\n", func(int) { g.wStmt() })
				g.w("\n}")
			})
		}},
		{"funclit-body-statements", false, func(g *srcGen, n int) {
			g.w("var _ = func() {\n")
			saveL := g.labels
			g.labels = nil
			g.seq(n, "\n", func(int) { g.wStmt() })
			g.labels = saveL
			g.w("\n}\n")
		}},
		{"switch-clauses", false, func(g *srcGen, n int) {
			g.inFunc(func() {
				g.w("switch x {")
				def := g.r.Intn(n)
				for i := 0; i < n; i++ {
					if i == def {
						g.w("\ndefault:")
					} else {
						g.w("\ncase ", lit(i), ":")
					}
					if g.r.Intn(2) == 0 {
						g.w("\n")
						g.wStmt()
					}
				}
				g.w("\n}")
			})
		}},
		{"typeswitch-clauses", false, func(g *srcGen, n int) {
			g.inFunc(func() {
				g.w("switch x.(type) {")
				for i := 0; i < n; i++ {
					g.w(fmt.Sprintf("\ncase U%d:", i))
				}
				g.w("\n}")
			})
		}},
		{"select-clauses", false, func(g *srcGen, n int) {
			g.inFunc(func() {
				g.w("select {")
				for i := 0; i < n; i++ {
					switch g.r.Intn(3) {
					case 0:
						g.w(fmt.Sprintf("\ncase <-c%d:", i))
					case 1:
						g.w(fmt.Sprintf("\ncase c%d <- %d:", i, i))
					default:
						g.w(fmt.Sprintf("\ncase w%d, ok := <-c%d:\n_, _ = w%d, ok", i, i, i))
					}
				}
				g.w("\n}")
			})
		}},
		{"labels", false, func(g *srcGen, n int) {
			g.inFunc(func() {
				for i := 0; i < n; i++ {
					g.w(fmt.Sprintf("WL%d:\n", i))
					if i%3 == 0 {
						g.w(fmt.Sprintf("goto WL%d\n", (i+1)%n))
					}
				}
				g.w("return")
			})
		}},
		{"top-level-declarations", false, func(g *srcGen, n int) {
			for i := 0; i < n; i++ {
				switch g.r.Intn(3) {
				case 0:
					g.w(fmt.Sprintf("var W%d = ", i))
					g.wExpr()
					g.w("\n")
				case 1:
					g.w(fmt.Sprintf("func W%d() {}\n", i))
				default:
					g.w(fmt.Sprintf("type W%d ", i))
					g.wType()
					g.w("\n")
				}
			}
		}},
		{"imports", false, func(g *srcGen, n int) {
			// a second import declaration (the file header wrote the first): n specs, aliased
			// synthetic paths and standard-library paths under their own names; fileEnd references them
			std := append([]string{}, c01WideStd...)
			g.r.Shuffle(len(std), func(a, b int) { std[a], std[b] = std[b], std[a] })
			g.w("import (\n")
			for i := 0; i < n; i++ {
				if i%4 == 3 && len(std) > 0 {
					p := std[0]
					std = std[1:]
					name := p[strings.LastIndex(p, "/")+1:]
					g.imports = append(g.imports, &genImport{path: p, name: name})
					g.w(fmt.Sprintf("\t%q\n", p))
					continue
				}
				im := &genImport{path: fmt.Sprintf("example.com/w%d/p%d", i%7, i), name: fmt.Sprintf("p%d", i), alias: fmt.Sprintf("wi%d", i)}
				g.imports = append(g.imports, im)
				g.w(fmt.Sprintf("\t%s %q\n", im.alias, im.path))
			}
			g.w(")\n")
		}},
		// ---- one long statement / deep nesting
		{"binary-chain", false, func(g *srcGen, n int) {
			g.w("var _ = ")
			op := pick(g.r, []string{"+", "*", "||", "&&", "|", "-", "mixed"})
			for i := 0; i < n; i++ {
				if i > 0 {
					o := op
					if o == "mixed" {
						o = pick(g.r, c01BinOps)
					}
					g.w(" ", o, " ")
				}
				g.w(fmt.Sprintf("x%d", i))
			}
			g.w("\n")
		}},
		{"string-concat-chain", false, func(g *srcGen, n int) {
			g.w("const _ = ")
			g.seq(n, " +\n", func(i int) { g.w(fmt.Sprintf("%q", fmt.Sprintf("part %d\n", i))) })
			g.w("\n")
		}},
		{"selector-chain", false, func(g *srcGen, n int) {
			g.w("var _ = x")
			for i := 0; i < n; i++ {
				g.w(fmt.Sprintf(".f%d", i%7))
			}
			g.w("\n")
		}},
		{"call-chain", false, func(g *srcGen, n int) {
			g.w("var _ = f")
			for i := 0; i < n; i++ {
				g.w("(", lit(i), ")")
			}
			g.w("\n")
		}},
		{"method-chain", false, func(g *srcGen, n int) {
			g.inFunc(func() {
				g.w("b")
				for i := 0; i < n; i++ {
					g.w(fmt.Sprintf(".\nSet%d(%d)", i%5, i))
				}
			})
		}},
		{"index-chain", false, func(g *srcGen, n int) {
			g.w("var _ = x")
			for i := 0; i < n; i++ {
				g.w("[", lit(i), "]")
			}
			g.w("\n")
		}},
		{"unary-chain", true, func(g *srcGen, n int) {
			g.w("var _ = ")
			for i := 0; i < n; i++ {
				g.w(pick(g.r, []string{"!", "- ", "^", "*", "& ", "<-", "+ "}))
			}
			g.w("x\n")
		}},
		{"paren-nesting", true, func(g *srcGen, n int) {
			g.w("var _ = ", strings.Repeat("(", n), "x", strings.Repeat(")", n), "\n")
		}},
		{"call-nesting", true, func(g *srcGen, n int) {
			g.w("var _ = ", strings.Repeat("f(", n), "x", strings.Repeat(")", n), "\n")
		}},
		{"composite-nesting", true, func(g *srcGen, n int) {
			g.w("var _ = ", strings.Repeat("[]T0{", n), "x", strings.Repeat("}", n), "\n")
		}},
		{"pointer-type-chain", true, func(g *srcGen, n int) {
			g.w("var _ ", strings.Repeat("*", n), "int\n")
		}},
		{"array-type-chain", true, func(g *srcGen, n int) {
			g.w("var _ ")
			for i := 0; i < n; i++ {
				g.w(pick(g.r, []string{"[]", "[2]", "[N]", "map[int]", "chan ", "<-chan ", "*"}))
			}
			g.w("int\n")
		}},
		{"functype-result-chain", true, func(g *srcGen, n int) {
			g.w("var _ ", strings.Repeat("func() ", n), "int\n")
		}},
		{"block-nesting", true, c01WriteBlockNesting},
		{"else-if-chain", true, func(g *srcGen, n int) {
			g.inFunc(func() {
				for i := 0; i < n; i++ {
					g.w(fmt.Sprintf("if x == %d {\nf(%d)\n} else ", i, i))
				}
				g.w("{\n}")
			})
		}},
	}
}

// standard-library paths (declared name = last element) that the generator's own import pool
// does not use
var c01WideStd = []string{"sort", "strconv", "errors", "time", "sync", "bufio", "context", "flag", "log", "math", "regexp", "unicode",
	"reflect", "runtime", "hash/fnv", "io/fs", "net/url", "os/exec", "path", "text/tabwriter", "encoding/hex", "go/token", "html", "image/color"}

// GenWideSource writes one file holding one list of the given kind and width.
func GenWideSource(r *rand.Rand, kind c01WideKind, n int) (src string, tags []string) {
	g := &srcGen{r: r, budget: 40, tags: map[string]bool{}}
	g.fileHeader()
	before, after := r.Intn(3), r.Intn(2)
	decl := func() {
		g.w("\n")
		g.declared = g.declared[:0]
		g.budget = 40
		if r.Intn(2) == 0 {
			g.funcDecl(3)
		} else {
			g.genDecl(3)
		}
		g.w("\n")
	}
	if kind.name == "imports" {
		before, after = 0, after+1 // import declarations precede every other declaration
	}
	for i := 0; i < before; i++ {
		decl()
	}
	g.w("\n")
	g.declared = g.declared[:0]
	kind.w(g, n)
	for i := 0; i < after; i++ {
		decl()
	}
	src, tags = g.fileEnd()
	return src, tags
}

// c01WriteBlockNesting: n nested blocks of mixed kinds around one statement.
func c01WriteBlockNesting(g *srcGen, n int) {
	g.fresh++
	g.w(fmt.Sprintf("func W%d() {\n", g.fresh))
	var closers []string
	for i := 0; i < n; i++ {
		switch g.r.Intn(5) {
		case 0:
			g.w("{\n")
			closers = append(closers, "}\n")
		case 1:
			g.w("for {\n")
			closers = append(closers, "}\n")
		case 2:
			g.w("if x {\n")
			closers = append(closers, "}\n")
		case 3:
			g.w("switch {\ndefault:\n")
			closers = append(closers, "}\n")
		default:
			g.w("func() {\n")
			closers = append(closers, "}()\n")
		}
	}
	g.w("x++\n")
	for i := len(closers) - 1; i >= 0; i-- {
		g.w(closers[i])
	}
	g.w("}\n")
}

func c01WidthBucket(n int) string {
	switch {
	case n <= 16:
		return "<=16"
	case n == 17:
		return "17"
	case n <= 32:
		return "18-32"
	case n <= 64:
		return "33-64"
	case n <= 128:
		return "65-128"
	case n <= 257:
		return "129-257"
	}
	return ">257"
}

// c01WideWidths: the widths of one kind in one run.
func c01WideWidths(r *rand.Rand, t string, nest bool) []int {
	var ws []int
	if t == "thorough" {
		ws = []int{9, 15, 16, 17, 18, 31, 32, 33, 63, 64, 65, 100, 127, 128, 129, 255, 256, 257, 500, 1000}
		for i := 0; i < 12; i++ {
			ws = append(ws, 17+r.Intn(300))
		}
	} else {
		ws = []int{17, 18 + r.Intn(23), c01PickInt(r, 64, 100, 128, 129, 257)}
	}
	if nest {
		for i, w := range ws {
			if w > 200 {
				ws[i] = 100 + w%100
			}
		}
	}
	return ws
}

func (p *c01) wideStream(r *rand.Rand, t string) []*Case {
	var out []*Case
	i := 0
	for _, k := range c01WideKinds() {
		for _, n := range c01WideWidths(r, t, k.nest) {
			src, tags := GenWideSource(r, k, n)
			c := p.c01Case("wide", fmt.Sprintf("wide%d.go", i), []byte(src), rand.New(rand.NewSource(r.Int63())), "", genPkgNameOrStd, false)
			if c.Meta["skip"] == "parse-error" {
				fmt.Fprintf(os.Stderr, "C01: the wide generator produced a program that does not parse (generator defect, kind %s width %d):\n%s\n", k.name, n, src)
			}
			c.Tags = append(c.Tags, tags...)
			c.Tags = append(c.Tags, "wide:"+k.name, "width:"+c01WidthBucket(n))
			out = append(out, c)
			i++
		}
	}
	p.totals("wide", out)
	return out
}
