package props

import (
	"bytes"
	"io"
	"strings"
	"testing"

	"github.com/dave/jennifer/jen"
)

// a renderer that, like a defective RenderWithFile, reformats the whole *bytes.Buffer
type c14BadRenderer struct{ *jen.Statement }

func (b c14BadRenderer) Render(w io.Writer) error {
	if buf, ok := w.(*bytes.Buffer); ok {
		old := strings.TrimSpace(buf.String())
		buf.Reset()
		buf.WriteString(old + "\n" + b.Statement.GoString())
		return nil
	}
	return b.Statement.Render(w)
}

func TestC14WriterVerdict(t *testing.T) {
	gs := c14Res{"ok", "x := 1"}
	ok := c14Res{"ok", ""}
	if e := c14SinkVerdict("t", gs, ok, "banner\n", "banner\nx := 1"); e != "" {
		t.Errorf("good write rejected: %s", e)
	}
	for _, got := range []string{"x := 1", "banner\n", "banner\n\nx := 1", "banner\nx := 1\n", "Banner\nx := 1"} {
		if e := c14SinkVerdict("t", gs, ok, "banner\n", got); e == "" {
			t.Errorf("bad content %q accepted", got)
		}
	}
	if e := c14SinkVerdict("t", gs, c14Res{"err", "boom"}, "", ""); e == "" {
		t.Errorf("an error where GoString succeeds accepted")
	}
	bad := c14Res{"panic", "Error 1:1"}
	if e := c14SinkVerdict("t", bad, c14Res{"err", "Error 1:1"}, "pre", "pre"); e != "" {
		t.Errorf("failed render that leaves the writer alone rejected: %s", e)
	}
	if e := c14SinkVerdict("t", bad, c14Res{"err", "Error 1:1"}, "pre", "pre+ +"); e == "" {
		t.Errorf("failed render that wrote raw text accepted")
	}
	if e := c14SinkVerdict("t", bad, ok, "pre", "pre"); e == "" {
		t.Errorf("success where GoString panics accepted")
	}
}

func TestC14SinksSeeADefectiveRenderer(t *testing.T) {
	s := jen.Id("a").Op("=").Lit(1).Comment("first")
	good := c14GoString(s)
	for _, sink := range c14SinkKinds {
		for _, pre := range c14PreKinds {
			if e := c14IntoSink(s, good, 0, sink, pre, t.TempDir()); e != "" {
				t.Errorf("%s/%s: %s", sink, pre, e)
			}
		}
	}
	x := c14BadRenderer{s}
	if e := c14IntoSink(x, good, 0, "bytes.Buffer", "blank-lines", ""); e == "" {
		t.Errorf("a renderer that rewrites the caller's buffer was accepted")
	}
	if e := c14IntoSink(x, good, 0, "strings.Builder", "blank-lines", ""); e != "" {
		t.Errorf("unexpected: %s", e)
	}
}
