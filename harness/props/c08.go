package props

import (
	"fmt"
	"go/parser"
	"go/token"
	"math/rand"
	"sort"
	"strings"

	"verifharness/hist"
	"verifharness/term"
)

// C08: rendering is repeatable and import names are stable across renders.
//
// Stream "histories": one File, 2..12 operations after the constructor, mixing the three
// render entry points (render = File.Render, rcode = Statement.RenderWithFile or
// Group.RenderWithFile with the File, rplain = Statement.Render or Group.Render), further
// File.Add calls, and ImportName / ImportAlias /
// ImportNames / PackagePrefix / NoFormat / Anon changes BETWEEN renders.  Anon is only
// applied to a path that no output produced with the File has written yet (the property
// excludes Anon of an already referenced path; Anon-then-reference is inside).  Every
// reference is a Qual(path_i, "V<i>_<n>") with a unique identifier, so that each reference
// in an output can be traced back to the path it was built with.  Bodies contain
// case-blocks (Case(..).Block(..), Block(), Block(nil), Default().Block(..)), Dicts and
// nested groups; fragments rendered with the File are either new statements or statements
// that were also added to the File (the *Group objects are then shared).
//
// Oracle (go/parser on the implementation's bytes, independent of the model):
//  1. a render operation repeated immediately gives identical bytes (the generator emits
//     explicit doubled renders of all three kinds);
//  2. path -> qualifier maps extracted from the successive outputs produced with the File
//     extend one another (once p was written as q, every later output writes q for p; no
//     qualifier ever stands for two paths), and the import block of every later File.Render
//     declares p under q (`q "p"`, `. "p"` for a bare reference, or a plain `"p"` when the
//     name is the package's own according to the caller's ImportName or the toolchain).
type c08 struct{}

func init() { Register(c08{}) }

func (c08) ID() string { return "C08" }

type c08info struct {
	Paths      []string
	Local      string
	Unparsable bool // literal exemplars whose output is not a Go file: only check 1 applies
}

type c08gen struct {
	r           *rand.Rand
	paths       []string
	local       string
	ctr         int
	h           hist.History
	fileStmts   []*term.Stmt
	stmtPaths   map[*term.Stmt][]int
	filePaths   map[int]bool // referenced by a statement added to the File
	firstWrite  map[int]int  // path -> index of the first operation that wrote it with the File
	anoned      map[int]bool // Anon was called for the path (before it was written)
	dotHint     map[int]bool // the current hint of the path is a dot-import
	lastChange  int          // index of the last operation that is not a render
	fileRenders int          // File.Render operations so far
	tags        map[string]bool
	interleaved bool // some path is written by two renders with a state change in between
	doubled     bool // some render is immediately repeated
}

func (g *c08gen) tag(s string) { g.tags[s] = true }

func (g *c08gen) q(i int) *term.Stmt {
	g.ctr++
	return term.S(term.Qual(g.paths[i], fmt.Sprintf("V%d_%d", i, g.ctr)))
}

func (g *c08gen) pi() int { return g.r.Intn(len(g.paths)) }

// stmt draws a statement referencing 1..3 paths. decl: it must be a declaration (usable in
// a File body); otherwise it may also be a plain statement (fragments only).
func (g *c08gen) stmt(decl bool, first int) *term.Stmt {
	r := g.r
	i, j := first, g.pi()
	used := []int{i}
	use := func(k int) int { used = append(used, k); return k }
	n := 7
	if !decl {
		n = 9
	}
	var st *term.Stmt
	fn := func(body ...term.Node) *term.Stmt {
		return term.S(term.Named("Func"), term.Id("_"), term.G("Params"), term.G("Block", body...))
	}
	switch r.Intn(n) {
	case 0:
		st = term.S(term.Named("Var"), term.Id("_"), term.Op("="), g.q(i))
	case 1:
		st = term.S(term.Named("Var"), term.Id("_"), term.Op("="), term.Id("f"), term.G("Call", g.q(i), term.S(term.Null()), g.q(use(j))))
	case 2:
		cs := term.S(term.G("Case", term.S(g.q(i), term.Op("=="), term.Lit(1))), term.G("Block", term.S(term.Id("_"), term.Op("="), g.q(use(j)))))
		st = fn(term.S(term.G("Switch"), term.G("Block", cs)))
		g.tag("case-block")
	case 3:
		// case-blocks without items: Block(), Block(nil), and a default block
		c1 := term.S(term.G("Case", term.S(term.Lit(1))), term.G("Block"))
		c2 := term.S(term.G("Case", term.S(term.Lit(2))), term.G("Block", term.Nil{}))
		c3 := term.S(term.Named("Default"), term.G("Block", term.S(term.Id("_"), term.Op("="), g.q(use(j)))))
		cases := []term.Node{c1, c2, c3}
		r.Shuffle(3, func(a, b int) { cases[a], cases[b] = cases[b], cases[a] })
		st = fn(term.S(term.G("Switch", g.q(i)), term.G("Block", cases...)))
		g.tag("case-block")
		g.tag("case-block-nil")
	case 4:
		st = term.S(term.Named("Type"), term.Id("_"), term.G("Struct", term.S(term.Id("F"), g.q(i))))
	case 5:
		d := &term.Dict{Pairs: [][2]term.Node{{term.S(term.Lit(1)), g.q(i)}, {term.S(term.Lit(2)), g.q(use(j))}}}
		st = term.S(term.Named("Var"), term.Id("_"), term.Op("="), term.G("Map", term.S(term.Named("Int"))), term.G("Interface"), term.G("Values", d))
		g.tag("dict")
	case 6:
		st = fn(term.S(term.Id("_"), term.Op("="), term.Id("g"), term.G("Call", term.S(term.Id("h"), term.G("Call", g.q(i)))), term.G("Index", g.q(i))),
			term.S(term.G("Block", term.S(term.Id("_"), term.Op("="), g.q(use(j))))))
	case 7:
		st = term.S(term.Id("_"), term.Op("="), g.q(i))
	default:
		cs := term.S(term.G("Case", term.S(g.q(i), term.Op("=="), term.Lit(1))), term.G("Block", term.Nil{}))
		st = term.S(term.G("Switch"), term.G("Block", cs))
		g.tag("case-block")
		g.tag("case-block-nil")
	}
	g.stmtPaths[st] = used
	return st
}

// c08GroupTargets: the op language can render a real *jen.Group (hist/grouptarget.go builds
// it through the ...Func form).  Probed once, so that this file also works with a hist
// package that only renders Statements.
var c08GroupTargets = func() bool {
	obs := ExecFresh(hist.History{{Kind: "newfile", F: 0, A: "p"}, {Kind: "rcode", F: 0, Code: term.G("Block", term.S(term.Id("_"), term.Op("="), term.Lit(1)))}})
	return len(obs) == 1 && obs[0].Kind == "write"
}()

// group draws a Block group of 1..2 plain statements: the target of Group.RenderWithFile /
// Group.Render.
func (g *c08gen) group() (*term.Group, []int) {
	var items []term.Node
	var used []int
	for n := 1 + g.r.Intn(2); n > 0; n-- {
		i := g.pi()
		used = append(used, i)
		if g.r.Intn(3) == 0 {
			cs := term.S(term.G("Case", term.S(g.q(i), term.Op("=="), term.Lit(1))), term.G("Block", term.Nil{}))
			items = append(items, term.S(term.G("Switch"), term.G("Block", cs)))
			g.tag("case-block")
			g.tag("case-block-nil")
		} else {
			items = append(items, term.S(term.Id("_"), term.Op("="), g.q(i)))
		}
	}
	return term.G("Block", items...), used
}

func (g *c08gen) add(op hist.Op) int {
	g.h = append(g.h, op)
	k := len(g.h) - 1
	switch op.Kind {
	case "render", "rcode", "rplain":
	default:
		g.lastChange = k
	}
	return k
}

// wrote records that operation k wrote the paths ps into an output produced with the File.
func (g *c08gen) wrote(k int, ps []int) {
	for _, p := range ps {
		if fw, ok := g.firstWrite[p]; !ok {
			g.firstWrite[p] = k
			if g.anoned[p] {
				g.tag("anon-then-reference")
			}
		} else if g.lastChange > fw {
			g.interleaved = true
		}
	}
}

func (g *c08gen) renderOp(op hist.Op, ps []int, room int, tagName string) int {
	n := 1
	if room >= 2 && g.r.Intn(2) == 0 {
		n = 2
		g.doubled = true
		g.tag(tagName + "-twice")
	}
	for i := 0; i < n; i++ {
		k := g.add(op)
		if op.Kind != "rplain" {
			g.wrote(k, ps)
		}
	}
	return n
}

func (g *c08gen) filePathList() []int {
	var ps []int
	for p := range g.filePaths {
		ps = append(ps, p)
	}
	sort.Ints(ps)
	return ps
}

func (g *c08gen) fadd() {
	p := g.pi()
	st := g.stmt(true, p)
	if g.fileRenders > 0 {
		g.tag("add-after-render")
		for _, u := range g.stmtPaths[st] {
			if _, w := g.firstWrite[u]; !w && !g.filePaths[u] {
				g.tag("new-path-after-render")
			}
		}
	}
	g.add(hist.Op{Kind: "fadd", F: 0, Code: st})
	g.fileStmts = append(g.fileStmts, st)
	for _, u := range g.stmtPaths[st] {
		g.filePaths[u] = true
	}
}

func (g *c08gen) hint(p int) {
	r := g.r
	path := g.paths[p]
	_, written := g.firstWrite[p]
	name := pick(r, namePool)
	var op hist.Op
	if written && r.Intn(5) == 0 {
		// a hint that uses the blank identifier, given AFTER the path was written: the path
		// keeps its registered name (a blank hint before the first rendering makes `_.X`
		// references and is outside the domain: never generated)
		switch r.Intn(3) {
		case 0:
			op = hist.Op{Kind: "importalias", F: 0, A: path, B: "_"}
		case 1:
			op = hist.Op{Kind: "importname", F: 0, A: path, B: "_"}
		default:
			op = hist.Op{Kind: "importnames", F: 0, Pairs: [][2]string{{path, "_"}}}
		}
		g.tag("hint-after-render")
		g.tag("blank-hint-after-render")
		if g.dotHint[p] {
			g.tag("dot-hint-removed-after-render")
		}
		g.dotHint[p] = false
		g.add(op)
		return
	}
	switch r.Intn(6) {
	case 0, 1:
		op = hist.Op{Kind: "importname", F: 0, A: path, B: name}
	case 2:
		op = hist.Op{Kind: "importnames", F: 0, Pairs: [][2]string{{path, name}, {"unused.host/u", pick(r, namePool)}}}
	case 3:
		op = hist.Op{Kind: "importalias", F: 0, A: path, B: name}
	default:
		op = hist.Op{Kind: "importalias", F: 0, A: path, B: "."}
	}
	dot := op.Kind == "importalias" && op.B == "."
	if written {
		g.tag("hint-after-render")
		if dot {
			g.tag("dot-hint-after-render")
		}
		if g.dotHint[p] && !dot {
			g.tag("dot-hint-removed-after-render")
		}
	}
	g.dotHint[p] = dot
	g.add(op)
}

func c08History(r *rand.Rand) *Case {
	g := &c08gen{r: r, tags: map[string]bool{}, stmtPaths: map[*term.Stmt][]int{}, filePaths: map[int]bool{},
		firstWrite: map[int]int{}, anoned: map[int]bool{}, dotHint: map[int]bool{}}
	g.paths = somePaths(r, 6)
	for len(g.paths) < 2 {
		g.paths = somePaths(r, 6)
	}
	if r.Intn(3) == 0 {
		g.local = g.paths[0]
		g.add(hist.Op{Kind: "newfilepathname", F: 0, A: g.local, B: "q"})
		g.tag("local")
	} else {
		g.add(hist.Op{Kind: "newfile", F: 0, A: "p"})
	}
	nops := 2 + r.Intn(11) // operations after the constructor, the final File.Render included
	room := func() int { return nops - (len(g.h) - 1) - 1 }
	nf := false
	for room() > 0 {
		roll := r.Intn(21)
		if len(g.h) == 1 && r.Intn(5) > 0 {
			roll = 9
		}
		switch {
		case roll < 5:
			g.renderOp(hist.Op{Kind: "render", F: 0}, g.filePathList(), room(), "render")
			g.fileRenders++
		case roll < 8:
			if c08GroupTargets && r.Intn(4) == 0 {
				grp, used := g.group() // Group.RenderWithFile
				g.tag("rcode-group")
				g.renderOp(hist.Op{Kind: "rcode", F: 0, Code: grp}, used, room(), "rcode")
				break
			}
			var st *term.Stmt
			if len(g.fileStmts) > 0 && r.Intn(3) == 0 {
				st = g.fileStmts[r.Intn(len(g.fileStmts))] // the same objects are in the File body
				g.tag("rcode-shared-with-file")
			} else {
				st = g.stmt(false, g.pi())
			}
			g.renderOp(hist.Op{Kind: "rcode", F: 0, Code: st}, g.stmtPaths[st], room(), "rcode")
		case roll < 9:
			if c08GroupTargets && r.Intn(3) == 0 {
				grp, _ := g.group() // Group.Render
				g.tag("rplain-group")
				g.renderOp(hist.Op{Kind: "rplain", Code: grp}, nil, room(), "rplain")
				break
			}
			g.renderOp(hist.Op{Kind: "rplain", Code: g.stmt(false, g.pi())}, nil, room(), "rplain")
		case roll < 13:
			g.fadd()
		case roll < 16:
			g.hint(g.pi())
		case roll < 17:
			// a hint for a path that has already been written, if there is one
			var ws []int
			for p := range g.paths {
				if _, w := g.firstWrite[p]; w {
					ws = append(ws, p)
				}
			}
			if len(ws) > 0 {
				g.hint(ws[r.Intn(len(ws))])
			} else {
				g.hint(g.pi())
			}
		case roll < 18:
			px := pick(r, prefixPool)
			if r.Intn(4) == 0 {
				px = ""
			}
			if len(g.firstWrite) > 0 {
				g.tag("prefix-after-render")
			}
			g.add(hist.Op{Kind: "prefix", F: 0, A: px})
		case roll < 19:
			nf = !nf
			g.add(hist.Op{Kind: "noformat", F: 0, Flag: nf})
			g.tag("noformat")
		default:
			// Anon: only paths that no output produced with the File has written yet
			var cand []string
			for p, path := range g.paths {
				if _, w := g.firstWrite[p]; !w && path != g.local {
					cand = append(cand, path)
				}
			}
			ps := []string{"anon.host/a"}
			if len(cand) > 0 && r.Intn(4) > 0 {
				ps = []string{pick(r, cand)}
				if r.Intn(3) == 0 {
					ps = append(ps, "anon.host/b")
				}
			}
			for _, a := range ps {
				for p, path := range g.paths {
					if path == a {
						g.anoned[p] = true
					}
				}
			}
			if len(g.firstWrite) > 0 {
				g.tag("anon-after-render")
			}
			g.add(hist.Op{Kind: "anon", F: 0, Strs: ps})
		}
	}
	k := g.add(hist.Op{Kind: "render", F: 0})
	g.wrote(k, g.filePathList())
	g.h = append(g.h, hist.Op{Kind: "imports", F: 0})

	g.tag("ops=" + c07Bucket(nops, 2, 5, 9))
	var tags []string
	for t := range g.tags {
		tags = append(tags, t)
	}
	sort.Strings(tags)
	// NonTrivial: both halves of the oracle have something to decide - some render is
	// repeated immediately, and some path is written by two renders with the File between
	// which the state was changed (Add, hint, prefix, NoFormat or Anon).  Counted by the
	// generator while it builds the history.
	return &Case{Hist: g.h, Stream: "histories", Tags: tags, NonTrivial: g.doubled && g.interleaved,
		Meta: map[string]interface{}{"c08": &c08info{Paths: g.paths, Local: g.local}}}
}

func (c08) Generate(r *rand.Rand, t string) []*Case {
	n := tier(t, 2000, 100000)
	out := make([]*Case, 0, n)
	for i := 0; i < n; i++ {
		out = append(out, c08History(r))
	}
	nl := tier(t, 900, 45000)
	for i := 0; i < nl; i++ {
		out = append(out, c08LateHints(r, i%3))
	}
	// stream nested-fill (c08_fill.go): render / extend a nested placeholder through its retained
	// pointer / render again, over all group kinds and Dict pairs
	nn := tier(t, 1500, 40000)
	for i := 0; i < nn; i++ {
		out = append(out, c08FillCase(r, i%2))
	}
	return out
}

// ---- stream late-hints: structured histories around two (or three) File.Renders ----
//
// family 0, blank-hint-after-render: a path is written under a name (std name, ImportName,
//
//	ImportAlias, guessed alias, or bare through a dot hint); afterwards 1..3 further hints
//	are given for it, at least one of them with the blank identifier - ImportAlias(p, "_"),
//	ImportName(p, "_"), ImportNames{p: "_"} - mixed with ImportName(p, "kv") /
//	ImportAlias(p, "kv") / a dot hint in any order; then a fragment and/or a new reference
//	and further File.Renders: the registered name must stay.
//
// family 1, anon-upgraded-between-renders: Anon(p) plus references to 1..2 other paths; the
//
//	first File.Render imports `_ "p"`; then p is referenced (File.Add, optionally a fragment
//	before) and the second File.Render must show p under a real name while every other
//	import line stays as it was; the number of imports does not change.
//
// family 2, preamble-added-between-renders: between two File.Renders a CgoPreamble is added
//
//	together with exactly one new import (a reference to a new path / Anon of a new path /
//	Qual("C", ..) / nothing but "C" itself); "C" may already have been in the block (Qual or
//	Anon before the first render) and then has to move below the preamble.
func c08LateHints(r *rand.Rand, family int) *Case {
	tags := map[string]bool{}
	std := []string{"fmt", "strings", "math/rand", "text/template", "os"}
	user := []string{"a.b/d", "c.b/d", "a.b/rand", "x.y/rand", "a.b/x", "c.d/x", "x.y/pkg", "a.b/fmt", "x.y/os", "gopkg.in/yaml.v3"}
	seen := map[string]bool{}
	var paths []string
	take := func(pool []string) int {
		for {
			p := pick(r, pool)
			if !seen[p] {
				seen[p] = true
				paths = append(paths, p)
				return len(paths) - 1
			}
		}
	}
	ctr := 0
	ref := func(i int) *term.Stmt {
		q := func() *term.Stmt {
			ctr++
			return term.S(term.Qual(paths[i], fmt.Sprintf("V%d_%d", i, ctr)))
		}
		switch r.Intn(4) {
		case 0:
			return term.S(term.Named("Var"), term.Id("_"), term.Op("="), q())
		case 1:
			return term.S(term.Named("Type"), term.Id("_"), term.G("Struct", term.S(term.Id("F"), q())))
		case 2:
			tags["case-block"] = true
			cs := term.S(term.G("Case", term.S(q(), term.Op("=="), term.Lit(1))), term.G("Block", term.S(term.Id("_"), term.Op("="), q())))
			return term.S(term.Named("Func"), term.Id("_"), term.G("Params"), term.G("Block", term.S(term.G("Switch"), term.G("Block", cs))))
		default:
			return term.S(term.Named("Var"), term.Id("_"), term.Op("="), term.Id("f"), term.G("Call", q(), term.S(term.Null()), q()))
		}
	}
	var h hist.History
	info := &c08info{}
	tgt := -1
	if family == 0 && r.Intn(3) == 0 {
		tgt = take(std)
	} else {
		tgt = take(user)
	}
	var others []int
	for k := 1 + r.Intn(2); k > 0; k-- {
		if r.Intn(4) == 0 {
			others = append(others, take(std))
		} else {
			others = append(others, take(user))
		}
	}
	p := paths[tgt]
	if r.Intn(3) == 0 {
		info.Local = paths[others[0]]
		h = append(h, hist.Op{Kind: "newfilepathname", F: 0, A: info.Local, B: "q"})
		tags["local"] = true
	} else {
		h = append(h, hist.Op{Kind: "newfile", F: 0, A: "p"})
	}
	if r.Intn(3) == 0 {
		h = append(h, hist.Op{Kind: "prefix", F: 0, A: pick(r, prefixPool)})
	}
	if r.Intn(4) == 0 {
		h = append(h, hist.Op{Kind: "noformat", F: 0, Flag: true})
		tags["noformat"] = true
	}
	add := func(ops ...hist.Op) { h = append(h, ops...) }
	render := hist.Op{Kind: "render", F: 0}
	dbl := r.Intn(2) // which of the first two File.Renders is emitted twice
	nrender := 0
	doRender := func() {
		add(render)
		if nrender == dbl {
			add(render)
			tags["render-twice"] = true
		}
		nrender++
	}
	fragment := func(i int) {
		add(hist.Op{Kind: "rcode", F: 0, Code: ref(i)})
		tags["fragment-between-renders"] = true
	}
	addRefs := func(is ...int) {
		r.Shuffle(len(is), func(a, b int) { is[a], is[b] = is[b], is[a] })
		for _, i := range is {
			add(hist.Op{Kind: "fadd", F: 0, Code: ref(i)})
		}
	}
	switch family {
	case 0:
		switch r.Intn(5) {
		case 0:
			add(hist.Op{Kind: "importname", F: 0, A: p, B: pick(r, namePool)})
		case 1:
			add(hist.Op{Kind: "importalias", F: 0, A: p, B: pick(r, namePool)})
		case 2:
			add(hist.Op{Kind: "importalias", F: 0, A: p, B: "."})
			tags["written-bare"] = true
		}
		if r.Intn(4) == 0 {
			add(hist.Op{Kind: "importname", F: 0, A: paths[others[0]], B: pick(r, namePool)})
		}
		addRefs(append([]int{tgt}, others...)...)
		doRender()
		blanks := []hist.Op{
			{Kind: "importalias", F: 0, A: p, B: "_"},
			{Kind: "importname", F: 0, A: p, B: "_"},
			{Kind: "importnames", F: 0, Pairs: [][2]string{{p, "_"}}},
		}
		named := []hist.Op{
			{Kind: "importname", F: 0, A: p, B: "kv"},
			{Kind: "importalias", F: 0, A: p, B: "kv"},
			{Kind: "importalias", F: 0, A: p, B: "."},
			{Kind: "importname", F: 0, A: p, B: pick(r, namePool)},
		}
		later := func() {
			hs := []hist.Op{blanks[r.Intn(len(blanks))]}
			for k := r.Intn(3); k > 0; k-- {
				if r.Intn(3) == 0 {
					hs = append(hs, blanks[r.Intn(len(blanks))])
				} else {
					hs = append(hs, named[r.Intn(len(named))])
					tags["blank-hint+other-later-hint"] = true
				}
			}
			r.Shuffle(len(hs), func(a, b int) { hs[a], hs[b] = hs[b], hs[a] })
			// a fragment and a new reference at random positions between the hints
			extra := []func(){}
			if r.Intn(2) == 0 {
				extra = append(extra, func() { fragment(tgt) })
			}
			if r.Intn(2) == 0 {
				extra = append(extra, func() { addRefs(tgt) })
			}
			acts := []func(){}
			for _, op := range hs {
				op := op
				acts = append(acts, func() { add(op) })
			}
			for _, f := range extra {
				k := r.Intn(len(acts) + 1)
				acts = append(acts[:k:k], append([]func(){f}, acts[k:]...)...)
			}
			for _, f := range acts {
				f()
			}
		}
		later()
		doRender()
		if r.Intn(2) == 0 {
			later()
			doRender()
		}
		tags["blank-hint-after-render"] = true
	case 1:
		hintP := hist.Op{Kind: pick(r, []string{"importname", "importalias"}), F: 0, A: p, B: pick(r, append([]string{"kv"}, namePool...))}
		when := r.Intn(5) // 0: hint before Anon, 1: after Anon, 2: between the renders, else: none
		if when == 0 {
			add(hintP)
		}
		an := []string{p}
		if r.Intn(3) == 0 {
			an = append(an, "anon.host/a")
			r.Shuffle(2, func(a, b int) { an[a], an[b] = an[b], an[a] })
		}
		add(hist.Op{Kind: "anon", F: 0, Strs: an})
		if when == 1 {
			add(hintP)
		}
		// at least one other path is imported by the first render (the File's own path is not)
		var imp []int
		for _, o := range others {
			if paths[o] != info.Local {
				imp = append(imp, o)
			}
		}
		if len(imp) == 0 {
			imp = append(imp, take(user))
		}
		addRefs(append(append([]int{}, others...), imp...)...)
		doRender()
		if when == 2 {
			add(hintP)
		}
		if r.Intn(3) == 0 {
			fragment(tgt) // the fragment registers p; the File.Render after it shows the upgrade
		}
		addRefs(tgt)
		if r.Intn(3) == 0 {
			addRefs(imp[0]) // one more reference to a path that is imported already
		}
		doRender()
		tags["anon-upgraded-between-renders"] = true
		tags["anon-then-reference"] = true
	default:
		cref := term.S(term.Named("Var"), term.Id("_"), term.Op("="), term.Qual("C", c19Ref))
		cBefore := r.Intn(4)
		switch cBefore {
		case 0:
			add(hist.Op{Kind: "fadd", F: 0, Code: cref})
			tags["C-in-block-before-preamble"] = true
		case 1:
			add(hist.Op{Kind: "anon", F: 0, Strs: []string{"C"}})
			tags["C-in-block-before-preamble"] = true
		}
		addRefs(append([]int{}, others...)...)
		if r.Intn(2) == 0 {
			addRefs(tgt)
		}
		doRender()
		block := func(i int) hist.Op {
			return hist.Op{Kind: "cgo", F: 0, A: c19Block("omnr"[r.Intn(4)], i, r.Intn(2) == 0)}
		}
		acts := []func(){func() { add(block(0)) }}
		if r.Intn(3) == 0 {
			acts = append(acts, func() { add(block(1)) })
			tags["preamble-blocks=2"] = true
		}
		var one func()
		switch k := r.Intn(4); {
		case k == 0:
			ni := take(user)
			one = func() { addRefs(ni) }
			tags["new-import=reference"] = true
		case k == 1:
			one = func() { add(hist.Op{Kind: "anon", F: 0, Strs: []string{"anon.host/a"}}) }
			tags["new-import=anon"] = true
		case k == 2 && cBefore != 0:
			one = func() { add(hist.Op{Kind: "fadd", F: 0, Code: cref}) }
			tags["new-import=Qual-C"] = true
		default:
			if cBefore <= 1 { // "C" is imported already: the preamble alone would add nothing
				ni := take(user)
				one = func() { addRefs(ni) }
				tags["new-import=reference"] = true
			} else {
				one = func() {}
				tags["new-import=C-by-preamble-only"] = true
			}
		}
		k := r.Intn(len(acts) + 1)
		acts = append(acts[:k:k], append([]func(){one}, acts[k:]...)...)
		for _, f := range acts {
			f()
		}
		doRender()
		if r.Intn(3) == 0 {
			add(block(2))
			tags["preamble-extended-after-render"] = true
			doRender()
		}
		tags["preamble-added-between-renders"] = true
	}
	add(hist.Op{Kind: "imports", F: 0})
	info.Paths = paths
	var tl []string
	for t := range tags {
		tl = append(tl, t)
	}
	tl = append(tl, fmt.Sprintf("renders=%d", nrender))
	sort.Strings(tl)
	// NonTrivial as in stream histories; true by construction here: one of the first two
	// File.Renders is doubled, and the paths of the File body are written by two File.Renders
	// with a state change (hint, Add, Anon, CgoPreamble) in between.
	return &Case{Hist: h, Stream: "late-hints", Tags: tl, NonTrivial: true, Meta: map[string]interface{}{"c08": info}}
}

// Regressions: exemplars of the two defects fixed in /repo (they must pass now), and one
// variant of each.
func (c08) Regressions() []*Case {
	mk := func(name string, info *c08info, ops ...hist.Op) *Case {
		h := append(hist.History{{Kind: "newfile", F: 0, A: "p"}}, ops...)
		return &Case{Name: name, Hist: h, Stream: "regression", NonTrivial: true, Meta: map[string]interface{}{"c08": info}}
	}
	render := hist.Op{Kind: "render", F: 0}
	// NewFile(p); NoFormat; Add(Switch().Block(Case(Lit(1)).Block())); Render; Render
	sw := term.S(term.G("Switch"), term.G("Block", term.S(term.G("Case", term.S(term.Lit(1))), term.G("Block"))))
	// func _() { switch { case x: <Block(nil)>; default: <Block()> } }: the second render used to panic
	sw2 := term.S(term.Named("Func"), term.Id("_"), term.G("Params"), term.G("Block", term.S(term.G("Switch"), term.G("Block",
		term.S(term.G("Case", term.S(term.Id("x"))), term.G("Block", term.Nil{})),
		term.S(term.Named("Default"), term.G("Block"))))))
	d := []string{"a.b/d"}
	ref := func(n int) *term.Stmt {
		return term.S(term.Named("Var"), term.Id("_"), term.Op("="), term.Qual("a.b/d", fmt.Sprintf("V0_%d", n)))
	}
	return []*Case{
		mk("case-block-mutation", &c08info{Unparsable: true},
			hist.Op{Kind: "noformat", F: 0, Flag: true}, hist.Op{Kind: "fadd", F: 0, Code: sw}, render, render),
		mk("case-block-mutation-nil-block", &c08info{},
			hist.Op{Kind: "fadd", F: 0, Code: sw2}, render, render, hist.Op{Kind: "noformat", F: 0, Flag: true}, render, render,
			hist.Op{Kind: "rcode", F: 0, Code: sw2}, hist.Op{Kind: "rcode", F: 0, Code: sw2}, render),
		// NewFile(p); Add(Qual("a.b/d", ..)); Render; ImportAlias("a.b/d", "."); Render
		mk("dot-hint-after-render", &c08info{Paths: d},
			hist.Op{Kind: "fadd", F: 0, Code: ref(1)}, render, hist.Op{Kind: "importalias", F: 0, A: "a.b/d", B: "."}, render,
			hist.Op{Kind: "fadd", F: 0, Code: ref(2)}, render),
		// a dot hint replaced after the path was written bare
		mk("dot-hint-removed-after-render", &c08info{Paths: d},
			hist.Op{Kind: "importalias", F: 0, A: "a.b/d", B: "."}, hist.Op{Kind: "fadd", F: 0, Code: ref(1)}, render,
			hist.Op{Kind: "importalias", F: 0, A: "a.b/d", B: "x"}, render,
			hist.Op{Kind: "importname", F: 0, A: "a.b/d", B: "y"}, hist.Op{Kind: "fadd", F: 0, Code: ref(2)}, render),
	}
}

func (c08) Compare(c *Case, exp, got []hist.Obs) string {
	if m, ok := c.Meta["c08f"].(*c08fMeta); ok {
		return c08fCompare(m.Views, exp, got) // stream nested-fill: the replayed renders are left out
	}
	return CompareAll(exp, got)
}

func c08IsRender(op hist.Op) bool {
	return op.Kind == "render" || op.Kind == "rcode" || op.Kind == "rplain"
}

// c08SameRender: b repeats a (same entry point, same File, same object).
func c08SameRender(a, b hist.Op) bool {
	return c08IsRender(a) && a.Kind == b.Kind && a.F == b.F && a.Flag == b.Flag && !a.Flag && a.Code == b.Code
}

// c08Wrap makes a fragment (declarations or statements, as format.Source accepts them) a
// parsable file.
func c08Wrap(out string) (string, error) {
	fset := token.NewFileSet()
	src := "package p\n" + out
	_, err := parser.ParseFile(fset, "x.go", src, 0)
	if err == nil {
		return src, nil
	}
	src = "package p\nfunc _() {\n" + out + "\n}"
	if _, err2 := parser.ParseFile(fset, "x.go", src, 0); err2 != nil {
		return "", err
	}
	return src, nil
}

// c08NameHinted: the caller has told the File the package's own name (ImportName/ImportNames)
// at some point before operation i.
func c08NameHinted(h hist.History, i int, path string) bool {
	for _, op := range h[:i] {
		switch op.Kind {
		case "importname":
			if op.A == path {
				return true
			}
		case "importnames":
			for _, p := range op.Pairs {
				if p[0] == path {
					return true
				}
			}
		}
	}
	return false
}

func (c08) Oracle(c *Case, got []hist.Obs) string {
	if m, ok := c.Meta["c08f"].(*c08fMeta); ok {
		return c08fTwinOracle(m.Spec, m.Views, got, m.MustWrite)
	}
	info := c.Meta["c08"].(*c08info)
	rc := &RefCase{Paths: info.Paths}
	known := map[int]map[string]string{} // file -> path -> qualifier ("" = bare) as first written
	when := map[int]map[string]int{}     // file -> path -> operation that wrote it first
	prevSpecs := map[int][]impSpec{}     // file -> import specs of its last File.Render
	prevAt := map[int]int{}
	var pre []string // CgoPreamble blocks so far (single-File histories)
	anonC, qualC := false, false
	oi := 0
	for i, op := range c.Hist {
		if op.Kind == "save" || op.Kind == "imports" {
			oi++
			continue
		}
		if op.Kind == "cgo" {
			pre = append(pre, op.A)
		}
		if op.Kind == "anon" {
			for _, a := range op.Strs {
				anonC = anonC || a == "C"
			}
		}
		if op.Kind == "fadd" && strings.Contains(term.NewSer().Sexp(op.Code), term.X(c19Ref)) {
			qualC = true // the statement `var _ = Qual("C", c19Ref)` of stream late-hints
		}
		if !c08IsRender(op) {
			continue
		}
		if oi >= len(got) {
			return fmt.Sprintf("operation %d (%s) has no observation", i, op.Kind)
		}
		o := got[oi]
		oi++
		if o.Kind != "write" || o.Failed {
			return fmt.Sprintf("operation %d (%s) did not render: %s", i, op.Kind, o)
		}
		// 1. an immediately repeated render gives identical bytes
		if i > 0 && c08SameRender(c.Hist[i-1], op) {
			if prev := got[oi-2]; prev.Kind == "write" && prev.Out != o.Out {
				return fmt.Sprintf("operation %d repeats operation %d (%s) but the bytes differ:\n first:  %q\n second: %q", i, i-1, op.Kind, prev.Out, o.Out)
			}
		}
		if op.Kind == "rplain" || info.Unparsable {
			continue // Statement.Render uses a File of its own
		}
		// 2. names are stable
		src := o.Out
		if op.Kind == "rcode" {
			var err error
			if src, err = c08Wrap(o.Out); err != nil {
				return fmt.Sprintf("operation %d (rcode): output does not parse: %v\n%q", i, err, o.Out)
			}
		}
		qm, err := rc.QualifierMap(src)
		if qm == nil && err != nil {
			return fmt.Sprintf("operation %d (%s): output does not parse: %v\n%q", i, op.Kind, err, o.Out)
		}
		if err != nil { // one output writes a path in two ways
			return fmt.Sprintf("operation %d (%s): %v\n%q", i, op.Kind, err, o.Out)
		}
		if known[op.F] == nil {
			known[op.F], when[op.F] = map[string]string{}, map[string]int{}
		}
		kn, wh := known[op.F], when[op.F]
		for _, p := range sortedKeys(c08Keys(qm)) {
			q := qm[p]
			if k, ok := kn[p]; ok {
				if k != q {
					return fmt.Sprintf("path %q was written as %s by operation %d and is written as %s by operation %d (%s):\n%q", p, c08ShowQ(k), wh[p], c08ShowQ(q), i, op.Kind, o.Out)
				}
				continue
			}
			kn[p], wh[p] = q, i
		}
		byQ := map[string]string{}
		for _, p := range sortedKeys(c08Keys(kn)) {
			if q := kn[p]; q != "" {
				if other, dup := byQ[q]; dup {
					return fmt.Sprintf("qualifier %s has been written for two paths, %q and %q (operation %d)", q, other, p, i)
				}
				byQ[q] = p
			}
		}
		if op.Kind != "render" {
			continue
		}
		fset := token.NewFileSet()
		f, err := parser.ParseFile(fset, "x.go", o.Out, parser.ImportsOnly)
		if err != nil {
			return fmt.Sprintf("operation %d (render): output does not parse: %v", i, err)
		}
		specs, err := parseImports(f)
		if err != nil {
			return err.Error()
		}
		for _, p := range sortedKeys(c08Keys(kn)) {
			q := kn[p]
			if p == info.Local && info.Local != "" {
				continue // never imported; C06 decides how it is written
			}
			var spec *impSpec
			for k := range specs {
				if specs[k].path == p {
					spec = &specs[k]
				}
			}
			what := fmt.Sprintf("path %q was written as %s by operation %d, but the import block of operation %d (File.Render)", p, c08ShowQ(q), wh[p], i)
			switch {
			case spec == nil:
				return fmt.Sprintf("%s does not import it:\n%q", what, o.Out)
			case q == "":
				if spec.name != "." {
					return fmt.Sprintf("%s does not dot-import it:\n%q", what, o.Out)
				}
			case spec.name != "":
				if spec.name != q {
					return fmt.Sprintf("%s declares it as %s:\n%q", what, spec.name, o.Out)
				}
			default:
				// no alias written: q has to be the package's own name
				if std, ok := StdNames[p]; ok && std != q && !c08NameHinted(c.Hist, i, p) {
					return fmt.Sprintf("%s imports it without alias although its name is %s:\n%q", what, std, o.Out)
				}
			}
		}
		// 3. the import lines of successive File.Renders extend one another: a line with a name
		// (or without alias) is repeated as it was; a `_` line stays, or becomes a named line
		// once the path has been written; no line disappears
		for _, old := range prevSpecs[op.F] {
			var now *impSpec
			for k := range specs {
				if specs[k].path == old.path {
					now = &specs[k]
				}
			}
			what := fmt.Sprintf("operation %d (File.Render) imported %s; the import block of operation %d (File.Render)", prevAt[op.F], c08ShowSpec(old), i)
			_, written := kn[old.path]
			switch {
			case now == nil:
				return fmt.Sprintf("%s no longer imports that path:\n%q", what, o.Out)
			case old.name == "_" && now.name != "_" && !written:
				return fmt.Sprintf("%s has %s although no output has written the path:\n%q", what, c08ShowSpec(*now), o.Out)
			case old.name != "_" && now.name != old.name:
				return fmt.Sprintf("%s has %s:\n%q", what, c08ShowSpec(*now), o.Out)
			}
		}
		prevSpecs[op.F], prevAt[op.F] = specs, i
		// 4. a preamble added at any point of the history sits directly above `import "C"` in
		// every later File.Render, and the other imports are all still there (C19's oracle)
		if len(pre) > 0 {
			var others []string
			for _, p := range sortedKeys(c08Keys(kn)) {
				if !(p == info.Local && info.Local != "") {
					others = append(others, p)
				}
			}
			for _, old := range specs {
				if old.name == "_" && old.path != "C" {
					others = append(others, old.path)
				}
			}
			if m := C19Check(qualC, anonC, pre, others, o.Out); m != "" {
				return fmt.Sprintf("operation %d (File.Render after CgoPreamble): %s\n%q", i, m, o.Out)
			}
		}
	}
	return ""
}

func c08ShowSpec(s impSpec) string {
	if s.name == "" {
		return fmt.Sprintf("`%q`", s.path)
	}
	return fmt.Sprintf("`%s %q`", s.name, s.path)
}

func c08ShowQ(q string) string {
	if q == "" {
		return "a bare identifier"
	}
	return q + ".X"
}

func c08Keys(m map[string]string) map[string]bool {
	out := map[string]bool{}
	for k := range m {
		out[k] = true
	}
	return out
}

// Shrink: drop one operation (never the constructor).
func (c08) Shrink(c *Case) []*Case {
	if _, ok := c.Meta["c08f"]; ok {
		return nil // the operations of stream nested-fill refer to one another (retained pointers, replayed renders)
	}
	var out []*Case
	for i := len(c.Hist) - 1; i >= 1; i-- {
		h := append(append(hist.History{}, c.Hist[:i]...), c.Hist[i+1:]...)
		out = append(out, &Case{Hist: h, Stream: "shrunk", Meta: c.Meta})
	}
	return out
}
