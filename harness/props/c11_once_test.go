package props

import (
	"math/rand"
	"strings"
	"testing"

	"verifharness/hist"
)

// The streams func-once and complex-boundary on the unchanged implementation, and their tags.
func TestC11OnceAndBoundaryStreams(t *testing.T) {
	r := rand.New(rand.NewSource(3))
	cases := append(c11ComplexBoundaryCases(r, "quick"), c11OnceCases(r, "quick")...)
	n := map[string]int{}
	for _, c := range cases {
		got := hist.NewWorld().Exec(c.Hist)
		if d := (c11{}).Oracle(c, got); d != "" {
			t.Fatalf("oracle rejects the unchanged implementation: %s\n%s", d, c.Hist.Sexp())
		}
		n["stream="+c.Stream]++
		if c.NonTrivial {
			n["nontrivial:"+c.Stream]++
		}
		for _, tg := range c.Tags {
			if strings.HasPrefix(tg, "complex:") || strings.HasPrefix(tg, "second-value=") || strings.HasPrefix(tg, "skeleton=") || strings.HasPrefix(tg, "render=") {
				n[tg]++
			}
		}
	}
	for _, k := range []string{"complex:boundary-parts", "complex:modulus-overflows", "complex:part-subnormal", "complex:negzero", "second-value=other-type", "second-value=same-type",
		"second-value=unsupported-type", "skeleton=decl", "skeleton=list", "skeleton=values", "skeleton=append", "skeleton=eq", "render=plain-statement"} {
		if n[k] < 5 {
			t.Errorf("%s only %d times: %v", k, n[k], n)
		}
	}
	if n["nontrivial:func-once"] < n["stream=func-once"]*9/10 {
		t.Errorf("func-once: %d of %d non-trivial", n["nontrivial:func-once"], n["stream=func-once"])
	}
	// MaxFloat64 in both parts, with every sign combination, is there on purpose
	want := map[string]bool{"(1.7976931348623157e+308+1.7976931348623157e+308i)": false, "(1.7976931348623157e+308-1.7976931348623157e+308i)": false,
		"(-1.7976931348623157e+308+1.7976931348623157e+308i)": false, "(-1.7976931348623157e+308-1.7976931348623157e+308i)": false, "(5e-324-5e-324i)": false, "(-0-0i)": false}
	for _, c := range cases {
		for k := range want {
			if strings.Contains(c.Hist.Sexp(), "(lc128 x"+hexOf(k)+")") {
				want[k] = true
			}
		}
	}
	for k, ok := range want {
		if !ok {
			t.Errorf("complex128 %s is not generated", k)
		}
	}
}

func hexOf(s string) string {
	const d = "0123456789abcdef"
	out := make([]byte, 0, 2*len(s))
	for i := 0; i < len(s); i++ {
		out = append(out, d[s[i]>>4], d[s[i]&15])
	}
	return string(out)
}

// c11OnceJudge on hand-made runs of a library that calls the function twice, that calls it when
// rendering, or that renders a later value.
func TestC11OnceJudgeVerdicts(t *testing.T) {
	lits := []c1xLit{c11L(int8(-128)), c11L(7)}
	later := [][]c1xLit{{c11L(2.0)}, {c11L(float32(0.1)), c11L("x")}}
	src := "package p\n\nvar _, _ = int8(-128), 7\n"
	all := func(int) bool { return true }
	only1 := func(i int) bool { return i == 1 }
	check := func(name string, used func(int) bool, afterBuild, final []int, outs []string, buildMsg, sub string) {
		t.Helper()
		d := c11OnceJudge("form", lits, later, used, afterBuild, final, outs, buildMsg, src)
		switch {
		case sub == "" && d != "":
			t.Errorf("%s: rejected: %s", name, d)
		case sub != "" && d == "":
			t.Errorf("%s: accepted", name)
		case sub != "" && !strings.Contains(d, sub):
			t.Errorf("%s: rejected for another reason (want %q): %s", name, sub, d)
		}
	}
	check("once each", all, []int{1, 1}, []int{1, 1}, []string{src, src}, "", "")
	check("Lit form is not counted", only1, []int{0, 1}, []int{0, 1}, []string{src, src}, "", "")
	second := "package p\n\nvar _, _ = 2.0, float32(0.1)\n"
	check("called twice, second value rendered", all, []int{2, 2}, []int{2, 2}, []string{second, second}, "", "occurrence 0 returns int8 -128 on its first call, float64 2 on call 2; it was called 2 times while the statement was built")
	check("called twice, first value rendered", all, []int{1, 2}, []int{1, 2}, []string{src, src}, "", "occurrence 1 returns int 7 on its first call, float32 0.1 on call 2, string \"x\" on call 3; it was called 2 times")
	check("never called", all, []int{0, 0}, []int{0, 0}, []string{src, src}, "", "called 0 times")
	check("called once, another value rendered", all, []int{1, 1}, []int{1, 1}, []string{second, second}, "", "not the render of Lit(first value)")
	check("called again by the renders", all, []int{1, 1}, []int{3, 1}, []string{src, src}, "", "2 more time(s) by the two renders")
	check("second render differs", all, []int{1, 1}, []int{1, 1}, []string{src, second}, "", "second render of the same object differs")
	check("panic while building (second value of an unsupported type)", all, nil, []int{2, 0}, nil, "panic in the direct build: unsupported type for literal: struct {}", "called 2 times while the statement was built")
	check("error in the build", all, []int{1, 1}, []int{1, 1}, nil, "error in the direct build: boom", "boom")
}
