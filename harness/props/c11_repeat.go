package props

import (
	"bytes"
	"fmt"
	"go/ast"
	"go/parser"
	"go/token"
	"go/types"
	"math"
	"math/rand"
	"reflect"
	"strings"

	"github.com/dave/jennifer/jen"

	"verifharness/hist"
	"verifharness/term"
)

// Stream "repeat" of C11: REPETITION of a literal value under one render.
//
// Every other stream of C11 renders a value once per File (the dense batches hold pairwise
// different values).  Here one render - one File, or one plain Statement, which the library
// renders against one fresh File - holds the SAME value 2..5 times (thorough: up to 9), so
// that whatever the renderer remembers about a literal between two occurrences is observable:
//
//   - layouts: all occurrences in one Statement (`var _, _ = @, @`, `[]interface{}{@, @}`,
//     `append([]interface{}{}, @, @)`, `@ == @`), every occurrence in a declaration of its own
//     (two or more declarations of one File), or a random partition into such statements;
//   - the repeated value comes from every kind of literal (float64 whole / fractional /
//     exponent form, float32, every integer type, complex128, complex64, bool; and as
//     bystanders of the numeric property string, rune and byte literals);
//   - companions: besides the repeated value the render may hold its TWINS - values that
//     compare equal (or print equal with %v) but must render differently: 0.0 and -0.0,
//     float64(1) / float32(1) / 1 / int8(1) / int16(1) / uint(1) / (1+0i) / '\x01' / "1",
//     true and "true" - and unrelated values, themselves possibly repeated;
//   - forms: the history builds every occurrence with Lit (LitRune, LitByte); the oracle
//     rebuilds the same render directly on the implementation with a random subset of the
//     occurrences (and with all, and with every second one) going through LitFunc
//     (LitRuneFunc, LitByteFunc), as package-level function, *Statement method or *Group method
//     inside a ...Func callback, and requires the same bytes.
//
// Oracle: the output parses to exactly the planned statements, the whole render type-checks
// (go/types), and EVERY occurrence - located in the syntax tree by the statement skeleton -
// is, taken on its own (types.Eval of its source text), a constant expression of exactly the
// type and value that was handed to Lit.  Where the context does not unify operand types (all
// skeletons but `==`) the type go/types recorded for the occurrence inside the file is
// checked too.

// c11RepGroup is one Statement of the render.
type c11RepGroup struct {
	Skel string // decl | list | values | append | eq
	Occ  []int  // indices into the case's literal list, in order of appearance
}

const (
	c11SkDecl   = "decl"   // var _ = @
	c11SkList   = "list"   // var _, _, _ = @, @, @
	c11SkValues = "values" // var _ = []interface{}{@, @, @}
	c11SkAppend = "append" // var _ = append([]interface{}{}, @, @, @)
	c11SkEq     = "eq"     // var _ = @ == @      (both operands are the same value)
)

func c11RepStmt(g c11RepGroup, lits []c1xLit) *term.Stmt {
	var items []term.Node
	for _, i := range g.Occ {
		items = append(items, term.S(lits[i].tok()))
	}
	head := []term.Node{term.Named("Var"), term.Id("_"), term.Op("=")}
	switch g.Skel {
	case c11SkDecl:
		return term.S(append(head, lits[g.Occ[0]].tok())...)
	case c11SkList:
		var ids []term.Node
		for range g.Occ {
			ids = append(ids, term.S(term.Id("_")))
		}
		return term.S(term.Named("Var"), term.G("List", ids...), term.Op("="), term.G("List", items...))
	case c11SkValues:
		return term.S(append(head, term.G("Index"), term.G("Interface"), term.G("Values", items...))...)
	case c11SkAppend:
		first := term.S(term.G("Index"), term.G("Interface"), term.G("Values"))
		return term.S(append(head, term.G("Append", append([]term.Node{first}, items...)...))...)
	case c11SkEq:
		return term.S(append(head, lits[g.Occ[0]].tok(), term.Op("=="), lits[g.Occ[1]].tok())...)
	}
	panic("c11: bad skeleton " + g.Skel)
}

func c11RepHistory(groups []c11RepGroup, lits []c1xLit, plain, noformat bool) hist.History {
	if plain {
		return hist.History{{Kind: "rplain", Code: c11RepStmt(groups[0], lits)}}
	}
	h := hist.History{{Kind: "newfile", F: 0, A: "p"}, {Kind: "noformat", F: 0, Flag: noformat}}
	for _, g := range groups {
		h = append(h, hist.Op{Kind: "fadd", F: 0, Code: c11RepStmt(g, lits)})
	}
	return append(h, hist.Op{Kind: "render", F: 0})
}

// c11RepKey identifies a literal the way a Go map keyed by interface{} would (dynamic type
// and ==), except that LitRune / LitByte literals are kept apart from Lit literals of the same
// type: 0.0 and -0.0 are ONE key, float64(1) and float32(1) are two.
type c11RepKeyT struct {
	kind string
	v    interface{}
}

func c11RepKey(l c1xLit) c11RepKeyT { return c11RepKeyT{l.Kind, l.V} }

// c11RepMaxCount: how often the most frequent value occurs.
func c11RepMaxCount(lits []c1xLit) int {
	n := map[c11RepKeyT]int{}
	max := 0
	for _, l := range lits {
		n[c11RepKey(l)]++
		if n[c11RepKey(l)] > max {
			max = n[c11RepKey(l)]
		}
	}
	return max
}

// c11RepCaseOf assembles a case.  NonTrivial (measured on the literal list): some value occurs
// at least twice under the one render (values compared as a Go map with interface{} keys
// would: dynamic type and ==).
func c11RepCaseOf(groups []c11RepGroup, lits []c1xLit, plain, noformat bool, tags []string) *Case {
	if plain {
		noformat = false
	}
	tagset := map[string]bool{}
	for _, t := range tags {
		tagset[t] = true
	}
	for _, l := range lits {
		switch l.Kind {
		case "rune":
			tagset["type=rune-literal"] = true
		case "byte":
			tagset["type=byte-literal"] = true
		default:
			if _, ok := l.V.(string); ok {
				tagset["type=string"] = true
			} else {
				for _, t := range c11ValueTags(l.V) {
					tagset[t] = true
				}
			}
		}
	}
	layout := "partition"
	switch {
	case len(groups) == 1:
		layout = "one-statement"
	case len(groups) == len(lits):
		layout = "one-declaration-each"
	}
	tagset["layout="+layout] = true
	for _, g := range groups {
		tagset["skeleton="+g.Skel] = true
	}
	max := c11RepMaxCount(lits)
	tagset["same-value-times="+c07Bucket(max, 2, 3, 4, 6)] = true
	tagset["occurrences="+c07Bucket(len(lits), 3, 5, 9)] = true
	if plain {
		tagset["render=plain-statement"] = true
	} else {
		tagset[fmt.Sprintf("render=file noformat=%v", noformat)] = true
	}
	return &Case{Hist: c11RepHistory(groups, lits, plain, noformat), Stream: "repeat", Tags: sortedKeys(tagset), NonTrivial: max >= 2,
		Meta: map[string]interface{}{"lits": lits, "rep": groups, "plain": plain, "noformat": noformat, "func": false, "shape": "repeat"}}
}

// ---------------------------------------------------------------------------------------
// Values: kinds, samples, twins.

func c11L(v interface{}) c1xLit { return c1xLit{Kind: "lit", V: v} }

// c11RepKinds: the kinds of the repeated value and a drawing function for each.
var c11RepKinds = []struct {
	name string
	draw func(r *rand.Rand) c1xLit
}{
	{"float64-whole", func(r *rand.Rand) c1xLit {
		// the branch that appends ".0": integral values whose text has neither dot nor exponent
		switch r.Intn(4) {
		case 0:
			return c11L(pickF(r, []float64{0, math.Copysign(0, -1), 1, -1, 2, -3, 3, 10, 100, 999999, -999999, 123456, 1 << 20}))
		case 1:
			return c11L(float64(r.Intn(1000000)))
		case 2:
			return c11L(-float64(r.Intn(2000)))
		}
		return c11L(float64(r.Intn(200)))
	}},
	{"float64-fraction", func(r *rand.Rand) c1xLit {
		if r.Intn(2) == 0 {
			return c11L(pickF(r, []float64{0.5, -0.5, 0.1, 0.25, 1.5, -2.5, 3.14159, 99999.5, 0.0001, 0.3333333333333333}))
		}
		return c11L(float64(r.Intn(2000000)-1000000) / 64)
	}},
	{"float64-exponent", func(r *rand.Rand) c1xLit {
		if r.Intn(2) == 0 {
			return c11L(pickF(r, []float64{1e6, -1e6, 1e21, 1e-7, 1e100, -1e-100, 1.5e300, 5e-324, math.MaxFloat64, 1e7, 2.5e-9}))
		}
		for {
			if f := c11Random64(r); strings.Contains(fmt.Sprintf("%#v", f), "e") {
				return c11L(f)
			}
		}
	}},
	{"float32", func(r *rand.Rand) c1xLit {
		switch r.Intn(3) {
		case 0:
			return c11L(float32(r.Intn(300) - 100))
		case 1:
			return c11L([]float32{0, float32(math.Copysign(0, -1)), 0.5, 0.1, 1e10, 1e-10, 16777216, math.MaxFloat32}[r.Intn(8)])
		}
		return c11L(c11Random32(r))
	}},
	{"int", func(r *rand.Rand) c1xLit {
		return c11L([]int{0, 1, -1, 2, 3, -3, 7, 10, 100, 255, -128, 65536, math.MaxInt64, math.MinInt64, r.Intn(1000), -r.Intn(1000)}[r.Intn(16)])
	}},
	{"sized-int", func(r *rand.Rand) c1xLit {
		t := c11IntTypes[1+r.Intn(len(c11IntTypes)-1)]
		switch r.Intn(3) {
		case 0:
			return c11L(c11Int(t, uint64(r.Intn(4))))
		case 1:
			b := c11Bounds(t)
			return c11L(b[r.Intn(len(b))])
		}
		return c11L(c11Int(t, uint64(r.Intn(128))))
	}},
	{"complex128", func(r *rand.Rand) c1xLit {
		negz := math.Copysign(0, -1)
		if r.Intn(2) == 0 {
			return c11L([]complex128{0, 1, 1i, complex(negz, negz), complex(1, -1), complex(2, 0), complex(0.5, 100), complex(1e21, -1e-7)}[r.Intn(8)])
		}
		return c11L(complex(float64(r.Intn(20)-10), float64(r.Intn(20)-10)/4))
	}},
	{"complex64", func(r *rand.Rand) c1xLit {
		if r.Intn(2) == 0 {
			return c11L([]complex64{0, 1, 1i, complex(1, -1), complex(2, 0), complex(0.1, 100)}[r.Intn(6)])
		}
		return c11L(complex64(complex(float64(r.Intn(20)-10), float64(r.Intn(20)-10)/4)))
	}},
	{"bool", func(r *rand.Rand) c1xLit { return c11L(r.Intn(2) == 0) }},
	// bystanders of the numeric property (their own property is C12): a renderer that treats
	// literals uniformly treats these like the numbers
	{"string", func(r *rand.Rand) c1xLit {
		return c11L(pick(r, []string{"", "a", "1", "2.0", "true", "0", "-3", "a\"b", "x\ny", "(1+0i)", "int8(1)"}))
	}},
	{"rune-literal", func(r *rand.Rand) c1xLit {
		return c1xLit{Kind: "rune", V: []rune{0, 1, 'a', '1', '\'', '\n', 0xe9, 0x4e16, 0x10ffff}[r.Intn(9)]}
	}},
	{"byte-literal", func(r *rand.Rand) c1xLit {
		return c1xLit{Kind: "byte", V: []byte{0, 1, 'a', '1', 127, 128, 255}[r.Intn(7)]}
	}},
}

func pickF(r *rand.Rand, l []float64) float64 { return l[r.Intn(len(l))] }

// c11Twins: values that compare or print equal to l but must render differently.
func c11Twins(l c1xLit) []c1xLit {
	var out []c1xLit
	add := func(v interface{}) {
		if reflect.TypeOf(v) != reflect.TypeOf(l.V) || l.Kind != "lit" {
			out = append(out, c11L(v))
		}
	}
	num := func(f float64) { // every spelling of the number f that is exact
		add(f)
		add(float32(f))
		add(complex(f, 0))
		add(complex64(complex(f, 0)))
		if f == math.Trunc(f) && math.Abs(f) < 1<<31 {
			z := int64(f)
			add(int(z))
			add(int64(z))
			add(int32(z))
			if z >= -128 && z <= 127 {
				add(int8(z))
			}
			if z >= -32768 && z <= 32767 {
				add(int16(z))
			}
			if z >= 0 {
				add(uint(z))
				add(uint64(z))
				add(uint32(z))
				add(uintptr(z))
				if z <= 255 {
					add(uint8(z))
					out = append(out, c1xLit{Kind: "byte", V: byte(z)})
				}
				if z <= 65535 {
					add(uint16(z))
				}
				if c12ValidRune(rune(z)) {
					out = append(out, c1xLit{Kind: "rune", V: rune(z)})
				}
			}
		}
		add(fmt.Sprint(f))
		add(fmt.Sprintf("%#v", l.V))
	}
	rv := reflect.ValueOf(l.V)
	switch rv.Kind() {
	case reflect.Bool:
		add(fmt.Sprint(l.V))
		add(!rv.Bool())
		if rv.Bool() {
			add(1)
		} else {
			add(0)
			add(0.0)
		}
	case reflect.String:
		switch rv.String() {
		case "1":
			num(1)
		case "2.0":
			num(2)
		case "0", "":
			num(0)
		case "-3":
			num(-3)
		case "true":
			add(true)
		default:
			add(rv.String() + " ")
		}
	case reflect.Float32, reflect.Float64:
		f := rv.Float()
		if l.Kind == "lit" && float64(float32(f)) != f && rv.Kind() == reflect.Float64 {
			// not exact as float32: only the float64 spellings are twins
			add(complex(f, 0))
			add(fmt.Sprint(f))
			add(fmt.Sprintf("%#v", l.V))
		} else {
			num(f)
		}
		if f == 0 { // 0.0 and -0.0 are == (one key of a map) and render differently
			z := math.Copysign(0, -1)
			if math.Signbit(f) {
				z = 0
			}
			if rv.Kind() == reflect.Float64 {
				out = append(out, c11L(z))
			} else {
				out = append(out, c11L(float32(z)))
			}
			out = append(out, c11L(complex(z, 0)), c11L(complex(0, z)))
		} else {
			if rv.Kind() == reflect.Float64 {
				out = append(out, c11L(-f))
			} else {
				out = append(out, c11L(float32(-f)))
			}
		}
	case reflect.Complex64, reflect.Complex128:
		c := rv.Complex()
		if imag(c) == 0 && float64(float32(real(c))) == real(c) {
			num(real(c))
		}
		add(complex(real(c), -imag(c)))
		add(complex64(complex(imag(c), real(c))))
		add(complex(math.Copysign(real(c), -1), imag(c)))
	case reflect.Int, reflect.Int8, reflect.Int16, reflect.Int32, reflect.Int64:
		z := rv.Int()
		if float64(int64(float64(z))) == float64(z) && int64(float64(z)) == z && z > -(1<<31) && z < 1<<31 {
			num(float64(z))
		} else {
			add(fmt.Sprint(z))
			add(z)
			add(int(z))
		}
		if l.Kind == "rune" {
			out = append(out, c11L(int32(z)), c11L(int(z)))
		}
	default: // unsigned
		n := rv.Uint()
		if n < 1<<31 {
			num(float64(n))
		} else {
			add(fmt.Sprint(n))
			add(n)
			add(uint(n))
		}
		if l.Kind == "byte" {
			out = append(out, c11L(uint8(n)), c11L(int(n)))
		}
	}
	// drop non-finite conversions and copies of l itself
	var ok []c1xLit
	for _, t := range out {
		fin := true
		switch x := t.V.(type) {
		case float32:
			fin = c11Finite(float64(x))
		case float64:
			fin = c11Finite(x)
		case complex64:
			fin = c11Finite(float64(real(x))) && c11Finite(float64(imag(x)))
		case complex128:
			fin = c11Finite(real(x)) && c11Finite(imag(x))
		}
		same := t.Kind == l.Kind && reflect.TypeOf(t.V) == reflect.TypeOf(l.V) && fmt.Sprintf("%#v", t.V) == fmt.Sprintf("%#v", l.V)
		if fin && !same {
			ok = append(ok, t)
		}
	}
	return ok
}

// c11RepPartition cuts the occurrence indices 0..n-1 (in order) into statements.
func c11RepPartition(r *rand.Rand, lits []c1xLit, layout int) []c11RepGroup {
	n := len(lits)
	all := make([]int, n)
	for i := range all {
		all[i] = i
	}
	multi := func(idx []int) string {
		if len(idx) == 1 {
			return c11SkDecl
		}
		if len(idx) == 2 && c11RepKey(lits[idx[0]]) == c11RepKey(lits[idx[1]]) && r.Intn(2) == 0 {
			// both operands are the same value: `v == v` type-checks for every kind
			if fmt.Sprintf("%#v", lits[idx[0]].V) == fmt.Sprintf("%#v", lits[idx[1]].V) {
				return c11SkEq
			}
		}
		return []string{c11SkList, c11SkValues, c11SkAppend}[r.Intn(3)]
	}
	switch layout {
	case 0: // one statement
		return []c11RepGroup{{multi(all), all}}
	case 1: // one declaration per occurrence
		var gs []c11RepGroup
		for _, i := range all {
			gs = append(gs, c11RepGroup{c11SkDecl, []int{i}})
		}
		return gs
	}
	var gs []c11RepGroup
	for at := 0; at < n; {
		k := 1 + r.Intn(3)
		if at+k > n {
			k = n - at
		}
		gs = append(gs, c11RepGroup{multi(all[at : at+k]), all[at : at+k]})
		at += k
	}
	return gs
}

// c11RepDraw draws one case whose repeated value is of the given kind.
func c11RepDraw(r *rand.Rand, kind int, maxTimes int) *Case {
	k := c11RepKinds[kind]
	base := k.draw(r)
	times := 2 + r.Intn(maxTimes-1)
	lits := make([]c1xLit, 0, times+4)
	for i := 0; i < times; i++ {
		lits = append(lits, base)
	}
	tags := []string{"repeated-kind=" + k.name}
	switch r.Intn(5) {
	case 0, 1: // the repeated value only
		tags = append(tags, "companions=none")
	case 2, 3: // with its twins
		tw := c11Twins(base)
		if len(tw) == 0 {
			tags = append(tags, "companions=none")
			break
		}
		tags = append(tags, "companions=twins")
		for i := 1 + r.Intn(3); i > 0; i-- {
			t := tw[r.Intn(len(tw))]
			lits = append(lits, t)
			if r.Intn(3) == 0 { // the twin is repeated as well
				lits = append(lits, t)
				tags = append(tags, "twin-repeated")
			}
			if f, ok := t.V.(float64); ok && f == 0 {
				if b, ok := base.V.(float64); ok && b == 0 {
					tags = append(tags, "twins=zero-and-negative-zero")
				}
			}
		}
	default: // with unrelated values of other kinds
		tags = append(tags, "companions=other-kinds")
		for i := 1 + r.Intn(3); i > 0; i-- {
			o := c11RepKinds[r.Intn(len(c11RepKinds))].draw(r)
			lits = append(lits, o)
			if r.Intn(3) == 0 {
				lits = append(lits, o)
			}
		}
	}
	// order: the first occurrence of the repeated value stays in front in half of the cases
	if r.Intn(2) == 0 {
		r.Shuffle(len(lits), func(a, b int) { lits[a], lits[b] = lits[b], lits[a] })
	} else {
		rest := lits[1:]
		r.Shuffle(len(rest), func(a, b int) { rest[a], rest[b] = rest[b], rest[a] })
	}
	groups := c11RepPartition(r, lits, r.Intn(3))
	plain := len(groups) == 1 && r.Intn(2) == 0
	return c11RepCaseOf(groups, lits, plain, r.Intn(2) == 0, tags)
}

// c11TwinSets: values that are == (or print alike) and must render differently; every set is
// rendered as a, b, a, b (and a, b, .., a, b, .. for larger sets) in every layout.
func c11TwinSets() [][]c1xLit {
	negz := math.Copysign(0, -1)
	return [][]c1xLit{
		{c11L(0.0), c11L(negz)},
		{c11L(negz), c11L(0.0)},
		{c11L(float32(0)), c11L(float32(negz))},
		{c11L(complex(0, 0)), c11L(complex(negz, negz)), c11L(complex(0, negz))},
		{c11L(complex64(complex(negz, 0))), c11L(complex64(0))},
		{c11L(1.0), c11L(float32(1))},
		{c11L(float32(2)), c11L(2.0), c11L(2)},
		{c11L(int8(1)), c11L(int16(1))},
		{c11L(1), c11L(1.0), c11L(int64(1)), c11L(uint(1))},
		{c11L(uint8(97)), {Kind: "byte", V: byte(97)}, {Kind: "rune", V: 'a'}, c11L(int32(97)), c11L(97)},
		{c11L(true), c11L("true")},
		{c11L(2.0), c11L("2.0"), c11L("2")},
		{c11L(complex(1, 0)), c11L(complex64(complex(1, 0))), c11L(1.0)},
		{c11L(-3.0), c11L(-3), c11L(float32(-3))},
		{c11L(0.5), c11L(float32(0.5)), c11L(complex(0.5, 0))},
		{c11L(uintptr(10)), c11L(uint(10)), c11L(10), c11L(10.0)},
	}
}

// c11RepCases: the stream.  A systematic part - every kind, 6 drawn values each, the value
// twice: in one statement (each multi-literal skeleton), in two declarations of one File, as a
// plain `v == v`; every twin set in every layout - and a random part (quick 60 per kind,
// thorough 2500 per kind).
func c11RepCases(r *rand.Rand, t string) []*Case {
	out := c11RepOnlyCases(r, t)
	// c11_once.go: drawn after the repetition stream (c11.Generate appends what this function
	// returns as the last of its streams)
	out = append(out, c11ComplexBoundaryCases(r, t)...)
	out = append(out, c11OnceCases(r, t)...)
	return out
}

// c11RepOnlyCases: the cases of stream "repeat".
func c11RepOnlyCases(r *rand.Rand, t string) []*Case {
	var out []*Case
	for _, set := range c11TwinSets() {
		lits := append(append([]c1xLit{}, set...), set...)
		tags := []string{"companions=twins", "twin-repeated", "systematic"}
		if f, ok := set[0].V.(float64); ok && f == 0 {
			tags = append(tags, "twins=zero-and-negative-zero")
		}
		for layout := 0; layout < 3; layout++ {
			gs := c11RepPartition(r, lits, layout)
			out = append(out, c11RepCaseOf(gs, lits, len(gs) == 1 && r.Intn(2) == 0, layout == 1, tags))
			out = append(out, c11RepCaseOf(gs, lits, false, layout != 1, tags))
		}
	}
	for kind := range c11RepKinds {
		name := "repeated-kind=" + c11RepKinds[kind].name
		for i := 0; i < 6; i++ {
			v := c11RepKinds[kind].draw(r)
			two := []c1xLit{v, v}
			for _, sk := range []string{c11SkList, c11SkValues, c11SkAppend, c11SkEq} {
				out = append(out, c11RepCaseOf([]c11RepGroup{{sk, []int{0, 1}}}, two, i%2 == 0, i%3 == 0, []string{name, "companions=none", "systematic"}))
			}
			out = append(out, c11RepCaseOf([]c11RepGroup{{c11SkDecl, []int{0}}, {c11SkDecl, []int{1}}}, two, false, i%2 == 0, []string{name, "companions=none", "systematic"}))
		}
		n := tier(t, 60, 2500)
		max := tier(t, 5, 9)
		for i := 0; i < n; i++ {
			out = append(out, c11RepDraw(r, kind, max))
		}
	}
	return out
}

// ---------------------------------------------------------------------------------------
// Oracle.

// c11RepOccurrences parses src and returns, per planned statement, the expressions standing
// at the literal positions (source text and node), in order.
func c11RepOccurrences(src string, plain bool, groups []c11RepGroup) (fset *token.FileSet, f *ast.File, exprs []ast.Expr, text func(ast.Expr) string, msg string) {
	if plain {
		src = "package p\n" + src
	}
	fset = token.NewFileSet()
	f, err := parser.ParseFile(fset, "x.go", src, 0)
	if err != nil {
		return nil, nil, nil, nil, "output does not parse: " + err.Error()
	}
	text = func(e ast.Expr) string { return src[fset.Position(e.Pos()).Offset:fset.Position(e.End()).Offset] }
	if f.Name.Name != "p" {
		return nil, nil, nil, nil, "package clause changed: " + f.Name.Name
	}
	if len(f.Decls) != len(groups) {
		return nil, nil, nil, nil, fmt.Sprintf("%d declarations in the output, want %d", len(f.Decls), len(groups))
	}
	isEmptyIfaceSlice := func(e ast.Expr) bool {
		at, ok := e.(*ast.ArrayType)
		if !ok || at.Len != nil {
			return false
		}
		it, ok := at.Elt.(*ast.InterfaceType)
		return ok && (it.Methods == nil || len(it.Methods.List) == 0)
	}
	for i, d := range f.Decls {
		g := groups[i]
		bad := func(why string) string {
			return fmt.Sprintf("declaration %d is not of the planned form (%s with %d literals): %s", i, g.Skel, len(g.Occ), why)
		}
		gd, ok := d.(*ast.GenDecl)
		if !ok || gd.Tok != token.VAR || len(gd.Specs) != 1 {
			return nil, nil, nil, nil, bad("not a single var declaration")
		}
		vs := gd.Specs[0].(*ast.ValueSpec)
		if vs.Type != nil {
			return nil, nil, nil, nil, bad("has a type")
		}
		for _, n := range vs.Names {
			if n.Name != "_" {
				return nil, nil, nil, nil, bad("declares " + n.Name)
			}
		}
		var got []ast.Expr
		switch g.Skel {
		case c11SkDecl, c11SkList:
			if len(vs.Names) != len(g.Occ) {
				return nil, nil, nil, nil, bad(fmt.Sprintf("%d names", len(vs.Names)))
			}
			got = vs.Values
		case c11SkValues, c11SkAppend, c11SkEq:
			if len(vs.Names) != 1 || len(vs.Values) != 1 {
				return nil, nil, nil, nil, bad("not `var _ = expr`")
			}
			switch g.Skel {
			case c11SkValues:
				cl, ok := vs.Values[0].(*ast.CompositeLit)
				if !ok || !isEmptyIfaceSlice(cl.Type) {
					return nil, nil, nil, nil, bad("not a []interface{} literal")
				}
				for _, e := range cl.Elts {
					if _, kv := e.(*ast.KeyValueExpr); kv {
						return nil, nil, nil, nil, bad("keyed element")
					}
				}
				got = cl.Elts
			case c11SkAppend:
				call, ok := vs.Values[0].(*ast.CallExpr)
				if !ok || len(call.Args) < 1 || call.Ellipsis != token.NoPos {
					return nil, nil, nil, nil, bad("not a call")
				}
				if id, ok := call.Fun.(*ast.Ident); !ok || id.Name != "append" {
					return nil, nil, nil, nil, bad("not a call of append")
				}
				if cl, ok := call.Args[0].(*ast.CompositeLit); !ok || !isEmptyIfaceSlice(cl.Type) || len(cl.Elts) != 0 {
					return nil, nil, nil, nil, bad("first argument is not []interface{}{}")
				}
				got = call.Args[1:]
			default:
				be, ok := vs.Values[0].(*ast.BinaryExpr)
				if !ok || be.Op != token.EQL {
					return nil, nil, nil, nil, bad("not a comparison")
				}
				got = []ast.Expr{be.X, be.Y}
			}
		}
		if len(got) != len(g.Occ) {
			return nil, nil, nil, nil, bad(fmt.Sprintf("%d expressions at the literal positions", len(got)))
		}
		exprs = append(exprs, got...)
	}
	return fset, f, exprs, text, ""
}

// c11RepCheck decides the property on the output of a repetition case.
func c11RepCheck(src string, plain bool, groups []c11RepGroup, lits []c1xLit) string {
	fset, f, exprs, text, msg := c11RepOccurrences(src, plain, groups)
	if msg != "" {
		return msg
	}
	info := &types.Info{Types: map[ast.Expr]types.TypeAndValue{}}
	if _, err := (&types.Config{}).Check("p", fset, []*ast.File{f}, info); err != nil {
		return "output does not type-check: " + err.Error()
	}
	k := 0
	for _, g := range groups {
		for j, idx := range g.Occ {
			e, l := exprs[k], lits[idx]
			k++
			where := fmt.Sprintf("occurrence %d of statement `%s` (literal %d of the render: %s %T %#v, which occurs %d times) rendered as `%s`",
				j+1, g.Skel, idx, l.Kind, l.V, l.V, c11RepCount(lits, l), text(e))
			// on its own
			if m := c1xCheckExpr(text(e), l.V); m != "" {
				return where + ": " + m
			}
			// inside the file (the comparison unifies the types of its operands: skipped there)
			if g.Skel != c11SkEq {
				tv, ok := info.Types[e]
				if !ok {
					return where + ": no type recorded"
				}
				if b, ok := tv.Type.(*types.Basic); ok && b.Info()&types.IsUntyped != 0 {
					tv.Type = types.Default(tv.Type)
				}
				if m := c1xCheckValue(tv, l.V); m != "" {
					return where + " (type inside the file): " + m
				}
			}
		}
	}
	return ""
}

func c11RepCount(lits []c1xLit, l c1xLit) int {
	n := 0
	for _, x := range lits {
		if c11RepKey(x) == c11RepKey(l) {
			n++
		}
	}
	return n
}

// c11RepCallbacks makes the function handed to the ...Func form of occurrence i.
type c11RepCallbacks struct {
	Lit  func(i int) func() interface{}
	Rune func(i int) func() rune
	Byte func(i int) func() byte
}

// c11RepDirect builds the render directly on the implementation; occurrence i goes through
// the ...Func form when fn(i).  Occurrences of `list` / `values` / `append` statements are
// added as *Group methods inside a ...Func callback when viaGroup, as package-level functions
// otherwise; those of `decl` and `eq` as *Statement methods (the first operand of `eq` through
// Add of a package-level function).  It returns the bytes and the number of callbacks called.
func c11RepDirect(groups []c11RepGroup, lits []c1xLit, plain, noformat, viaGroup bool, fn func(i int) bool) (out string, calls int, msg string) {
	cb := c11RepCallbacks{
		Lit:  func(i int) func() interface{} { return func() interface{} { calls++; return lits[i].V } },
		Rune: func(i int) func() rune { return func() rune { calls++; return lits[i].V.(rune) } },
		Byte: func(i int) func() byte { return func() byte { calls++; return lits[i].V.(byte) } },
	}
	outs, msg := c11RepBuild(groups, lits, plain, noformat, viaGroup, fn, cb, 1, nil)
	if msg != "" {
		return "", calls, msg
	}
	return outs[0], calls, ""
}

// c11RepBuild is c11RepDirect with the callbacks of the ...Func forms supplied by the caller
// (cb) and the finished object rendered `renders` times (one output each); built (may be nil)
// is called once between building and the first render.
func c11RepBuild(groups []c11RepGroup, lits []c1xLit, plain, noformat, viaGroup bool, fn func(i int) bool, cb c11RepCallbacks, renders int, built func()) (outs []string, msg string) {
	defer func() {
		if r := recover(); r != nil {
			msg = fmt.Sprintf("panic in the direct build: %v", r)
		}
	}()
	pkg := func(i int) *jen.Statement {
		l := lits[i]
		switch l.Kind {
		case "rune":
			if fn(i) {
				return jen.LitRuneFunc(cb.Rune(i))
			}
			return jen.LitRune(l.V.(rune))
		case "byte":
			if fn(i) {
				return jen.LitByteFunc(cb.Byte(i))
			}
			return jen.LitByte(l.V.(byte))
		}
		if fn(i) {
			return jen.LitFunc(cb.Lit(i))
		}
		return jen.Lit(l.V)
	}
	onStmt := func(s *jen.Statement, i int) *jen.Statement {
		l := lits[i]
		switch l.Kind {
		case "rune":
			if fn(i) {
				return s.LitRuneFunc(cb.Rune(i))
			}
			return s.LitRune(l.V.(rune))
		case "byte":
			if fn(i) {
				return s.LitByteFunc(cb.Byte(i))
			}
			return s.LitByte(l.V.(byte))
		}
		if fn(i) {
			return s.LitFunc(cb.Lit(i))
		}
		return s.Lit(l.V)
	}
	onGroup := func(g *jen.Group, i int) {
		l := lits[i]
		switch l.Kind {
		case "rune":
			if fn(i) {
				g.LitRuneFunc(cb.Rune(i))
			} else {
				g.LitRune(l.V.(rune))
			}
		case "byte":
			if fn(i) {
				g.LitByteFunc(cb.Byte(i))
			} else {
				g.LitByte(l.V.(byte))
			}
		default:
			if fn(i) {
				g.LitFunc(cb.Lit(i))
			} else {
				g.Lit(l.V)
			}
		}
	}
	items := func(occ []int) []jen.Code {
		var cs []jen.Code
		for _, i := range occ {
			cs = append(cs, pkg(i))
		}
		return cs
	}
	fill := func(occ []int) func(*jen.Group) {
		return func(g *jen.Group) {
			for _, i := range occ {
				onGroup(g, i)
			}
		}
	}
	stmt := func(g c11RepGroup) *jen.Statement {
		switch g.Skel {
		case c11SkDecl:
			return onStmt(jen.Var().Id("_").Op("="), g.Occ[0])
		case c11SkList:
			var ids []jen.Code
			for range g.Occ {
				ids = append(ids, jen.Id("_"))
			}
			if viaGroup {
				return jen.Var().List(ids...).Op("=").ListFunc(fill(g.Occ))
			}
			return jen.Var().List(ids...).Op("=").List(items(g.Occ)...)
		case c11SkValues:
			if viaGroup {
				return jen.Var().Id("_").Op("=").Index().Interface().ValuesFunc(fill(g.Occ))
			}
			return jen.Var().Id("_").Op("=").Index().Interface().Values(items(g.Occ)...)
		case c11SkAppend:
			first := jen.Index().Interface().Values()
			if viaGroup {
				return jen.Var().Id("_").Op("=").AppendFunc(func(gr *jen.Group) {
					gr.Add(first)
					fill(g.Occ)(gr)
				})
			}
			return jen.Var().Id("_").Op("=").Append(append([]jen.Code{first}, items(g.Occ)...)...)
		case c11SkEq:
			return onStmt(jen.Var().Id("_").Op("=").Add(pkg(g.Occ[0])).Op("=="), g.Occ[1])
		}
		panic("c11: bad skeleton " + g.Skel)
	}
	var render func(buf *bytes.Buffer) error
	if plain {
		s := stmt(groups[0])
		render = func(buf *bytes.Buffer) error { return s.Render(buf) }
	} else {
		f := jen.NewFile("p")
		f.NoFormat = noformat
		for _, g := range groups {
			f.Add(stmt(g))
		}
		render = func(buf *bytes.Buffer) error { return f.Render(buf) }
	}
	if built != nil {
		built()
	}
	for k := 0; k < renders; k++ {
		buf := &bytes.Buffer{}
		if err := render(buf); err != nil {
			return outs, "error in the direct build: " + err.Error()
		}
		outs = append(outs, buf.String())
	}
	return outs, ""
}

func c11RepOracle(c *Case, got []hist.Obs) string {
	lits := c.Meta["lits"].([]c1xLit)
	groups := c.Meta["rep"].([]c11RepGroup)
	if _, once := c.Meta["once"]; once {
		return c11OnceOracle(c, got) // c11_once.go
	}
	plain, _ := c.Meta["plain"].(bool)
	noformat, _ := c.Meta["noformat"].(bool)
	src, msg := c1xOutput(got)
	if msg != "" {
		return msg
	}
	if m := c11RepCheck(src, plain, groups, lits); m != "" {
		return m
	}
	// Lit and LitFunc mixed: the same bytes whichever occurrences go through the Func form
	seed := int64(len(src))
	for _, l := range lits {
		seed = seed*31 + int64(len(fmt.Sprintf("%#v", l.V)))
	}
	r := rand.New(rand.NewSource(seed))
	mask := r.Uint64() | 1<<uint(r.Intn(len(lits))) // at least one Func form
	forms := []struct {
		name     string
		viaGroup bool
		fn       func(i int) bool
	}{
		{"no occurrence through the Func form (package-level functions and *Statement methods)", false, func(int) bool { return false }},
		{"every occurrence through the Func form", r.Intn(2) == 0, func(int) bool { return true }},
		{"every second occurrence through the Func form", true, func(i int) bool { return i%2 == 1 }},
		{fmt.Sprintf("occurrences of mask %#x through the Func form", mask&(1<<uint(len(lits))-1)), r.Intn(2) == 0, func(i int) bool { return mask>>uint(i%64)&1 == 1 }},
	}
	for _, fm := range forms {
		want := 0
		for i := range lits {
			if fm.fn(i) {
				want++
			}
		}
		out, calls, msg := c11RepDirect(groups, lits, plain, noformat, fm.viaGroup, fm.fn)
		if msg != "" {
			return fm.name + ": " + msg
		}
		if want > 0 && calls == 0 {
			return fm.name + ": the Func forms never called their callbacks"
		}
		if out != src {
			return fmt.Sprintf("the same render built with %s (group methods: %v) differs:\n all Lit    %q\n this build %q", fm.name, fm.viaGroup, src, out)
		}
	}
	return ""
}

// c11RepShrink: drop one occurrence (keeping at least two literals), or keep one statement.
func c11RepShrink(c *Case) []*Case {
	if _, once := c.Meta["once"]; once {
		return nil
	}
	lits := c.Meta["lits"].([]c1xLit)
	groups := c.Meta["rep"].([]c11RepGroup)
	plain, _ := c.Meta["plain"].(bool)
	noformat, _ := c.Meta["noformat"].(bool)
	var out []*Case
	rebuild := func(keep func(i int) bool) {
		var nl []c1xLit
		var ng []c11RepGroup
		for _, g := range groups {
			var occ []int
			for _, i := range g.Occ {
				if keep(i) {
					occ = append(occ, len(nl))
					nl = append(nl, lits[i])
				}
			}
			if len(occ) == 0 {
				continue
			}
			sk := g.Skel
			if len(occ) != len(g.Occ) {
				switch {
				case sk == c11SkDecl || (sk == c11SkEq && len(occ) < 2):
					sk = c11SkDecl
				case sk == c11SkEq:
					sk = c11SkList
				}
				if len(occ) == 1 && sk == c11SkList {
					sk = c11SkDecl
				}
			}
			ng = append(ng, c11RepGroup{sk, occ})
		}
		if len(nl) < 2 || len(nl) == len(lits) {
			return
		}
		cc := c11RepCaseOf(ng, nl, plain && len(ng) == 1, noformat, nil)
		cc.Stream = "shrunk"
		out = append(out, cc)
	}
	if len(groups) > 1 {
		for gi := range groups {
			in := map[int]bool{}
			for _, i := range groups[gi].Occ {
				in[i] = true
			}
			rebuild(func(i int) bool { return in[i] })
			rebuild(func(i int) bool { return !in[i] })
		}
	}
	for d := range lits {
		rebuild(func(i int) bool { return i != d })
	}
	return out
}
