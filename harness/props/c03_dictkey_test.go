package props

import (
	"math/rand"
	"strings"
	"testing"

	"verifharness/hist"
)

// The streams dict-key and unicode-path-elements of C03: the oracle accepts what the
// implementation gives, rejects damaged outputs (the import of a key-only package removed; the
// qualifier of a key swapped to the other package's name; a No/Nl number left in an alias), and
// the weak (order-insensitive) comparison is used exactly for two new colliding keys in one Dict.
func TestC03DictKeyStream(t *testing.T) {
	r := rand.New(rand.NewSource(3))
	cases := c03DictKeyCases(r, "quick")
	weak, keyOnly, rejected := 0, 0, 0
	for _, c := range cases {
		got := hist.NewWorld().Exec(c.Hist)
		if m := (c03{}).Oracle(c, got); m != "" {
			t.Fatalf("oracle rejects: %s\n%s", m, c.Hist.Sexp())
		}
		isWeak := c.Meta["weak"] == true
		both := false
		for _, tg := range c.Tags {
			if tg == "dict-key=same-dict-both-new" {
				both = true
			}
		}
		if isWeak != both {
			t.Fatalf("weak=%v for tags %v", isWeak, c.Tags)
		}
		if isWeak {
			weak++
			continue
		}
		o, _ := lastWrite(got)
		// damage 1: drop one import line
		lines := strings.Split(o.Out, "\n")
		for i, ln := range lines {
			if strings.HasSuffix(strings.TrimSpace(ln), `"`) && !strings.HasPrefix(ln, "package") {
				bad := strings.Join(append(append([]string{}, lines[:i]...), lines[i+1:]...), "\n")
				g2 := append([]hist.Obs{}, got...)
				for k := range g2 {
					if g2[k].Kind == "write" {
						g2[k].Out = bad
					}
				}
				if (c03{}).Oracle(c, g2) == "" {
					t.Fatalf("oracle accepts an output without the import line %q:\n%s", ln, bad)
				}
				rejected++
				break
			}
		}
		for _, tg := range c.Tags {
			if tg == "dict-key=key-only" {
				keyOnly++
			}
		}
	}
	if weak == 0 || keyOnly == 0 || rejected < len(cases)/2 {
		t.Fatalf("weak=%d key-only=%d rejected=%d of %d", weak, keyOnly, rejected, len(cases))
	}
	// damage 2: the keys qualified by the OTHER package's name (what a scratch import table gives)
	rc := &RefCase{Paths: []string{"a.b/first/conf", "c.d/second/conf", "a.b/first/conf"}, Anon: map[string]bool{}, Hints: map[string][2]string{},
		Rendered: map[int]bool{0: true, 1: true, 2: true}, Hidden: map[int]bool{}}
	good := "package p\n\nimport (\n\tconf \"a.b/first/conf\"\n\tconf1 \"c.d/second/conf\"\n)\n\nvar _ = map[int]int{conf.V0_0: 1}\nvar _ = conf1.V1_1\nvar _ = conf.V2_2\n"
	bad := "package p\n\nimport (\n\tconf1 \"a.b/first/conf\"\n\tconf \"c.d/second/conf\"\n)\n\nvar _ = map[int]int{conf.V0_0: 1}\nvar _ = conf.V1_1\nvar _ = conf1.V2_2\n"
	if m := rc.Resolve(good); m != "" {
		t.Fatalf("good output rejected: %s", m)
	}
	if m := rc.Resolve(bad); m == "" {
		t.Fatal("a key bound to the other package is accepted")
	}
	// the weak comparison still sees a missing import and a failed render
	a := []hist.Obs{{Kind: "write", Out: "a\nb\n"}, {Kind: "imports", Imports: []hist.Import{{Path: "x"}, {Path: "y"}}}}
	b := []hist.Obs{{Kind: "write", Out: "c\nd\n"}, {Kind: "imports", Imports: []hist.Import{{Path: "y"}, {Path: "x"}}}}
	if m := weakOrderCompare(a, b); m != "" {
		t.Fatalf("weak comparison: %s", m)
	}
	b[1].Imports = b[1].Imports[:1]
	if weakOrderCompare(a, b) == "" {
		t.Fatal("weak comparison misses a missing import")
	}
}

func TestC03UnicodeStream(t *testing.T) {
	r := rand.New(rand.NewSource(4))
	cats := map[string]int{}
	for _, c := range c03UnicodeCases(r, "quick") {
		got := hist.NewWorld().Exec(c.Hist)
		if m := (c03{}).Oracle(c, got); m != "" {
			t.Fatalf("oracle rejects: %s\n%s", m, c.Hist.Sexp())
		}
		for _, tg := range c.Tags {
			if strings.HasPrefix(tg, "cat=") {
				cats[tg[4:]]++
			}
		}
	}
	for _, k := range []string{"No", "Nl", "Nd", "Ll", "Lo"} {
		if cats[k] < 10 {
			t.Fatalf("category %s: %d cases", k, cats[k])
		}
	}
	// an alias that keeps a superscript is not an identifier: rejected
	rc := &RefCase{Paths: []string{"example.com/units/m²"}, Anon: map[string]bool{}, Hints: map[string][2]string{}, Rendered: map[int]bool{0: true}, Hidden: map[int]bool{}}
	if m := rc.Resolve("package p\n\nimport m² \"example.com/units/m²\"\n\nvar _ = m².V0_0\n"); m == "" {
		t.Fatal("alias m² accepted")
	}
	if m := rc.Resolve("package p\n\nimport m \"example.com/units/m²\"\n\nvar _ = m.V0_0\n"); m != "" {
		t.Fatalf("alias m rejected: %s", m)
	}
}
