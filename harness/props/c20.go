package props

import (
	"bytes"
	"fmt"
	"go/format"
	"math/rand"
	"strconv"
	"strings"

	"github.com/dave/jennifer/jen"

	"verifharness/hist"
	"verifharness/term"
)

// C20: Clone isolation - clones and originals never corrupt each other.
//
// A case is a history over statement variables 0, 1, 2, ... (numbered in creation order):
// new statement, ONE append of k items to a variable (one Add(c1..ck) call, or k chained
// method calls = k appends of one item), clone of any variable (clones of clones included),
// render of a variable.  It is written for the model as a line of kind (heap)
// (coq/Model/HeapExec.v) through the generic "ext" ops of package hist, and executed on the
// implementation by the small executor below.
type c20 struct{}

func init() { Register(c20{}) }

func (c20) ID() string { return "C20" }

// c20Item is one appended item: the term that builds it and - ground truth written by
// hand here, independent of the model - the text it renders as.
type c20Item struct {
	Node term.Node
	Text string
	Null bool // renders nothing and takes no separator (Null(), nil, an all-null statement)
}

type c20Op struct {
	Kind    string // new | append | clone | render
	V       int    // the variable created / appended to / rendered
	From    int    // clone: the original
	Items   []c20Item
	Chained bool // append: k chained method calls (k appends of one item) instead of one Add(c1..ck)
}

// ---- serialisation for the model ----

func c20Line(ops []c20Op, z *term.Ser, i int) string {
	op := ops[i]
	switch op.Kind {
	case "new":
		return fmt.Sprintf("(snew %d)", op.V)
	case "clone":
		return fmt.Sprintf("(sclone %d %d)", op.V, op.From)
	case "render":
		return fmt.Sprintf("(srender %d)", op.V)
	case "append":
		var parts []string
		if op.Chained {
			for _, it := range op.Items {
				parts = append(parts, fmt.Sprintf("(sappend %d %s)", op.V, z.Sexp(it.Node)))
			}
			return strings.Join(parts, " ")
		}
		parts = append(parts, fmt.Sprintf("(sappend %d", op.V))
		for _, it := range op.Items {
			parts = append(parts, z.Sexp(it.Node))
		}
		return strings.Join(parts, " ") + ")"
	}
	panic("c20: bad op " + op.Kind)
}

// ---- execution on the implementation ----

type c20Exec struct {
	ops  []c20Op
	last int // index of the last render
	pos  int
	vars []*jen.Statement
	bd   *term.Builder
}

func (ex *c20Exec) reset() {
	ex.pos, ex.vars, ex.bd = 0, nil, term.NewBuilder()
}

// upto executes the operations before index i that have not been executed yet.
func (ex *c20Exec) upto(i int) {
	if ex.bd == nil || i < ex.pos {
		ex.reset()
	}
	for ; ex.pos < i; ex.pos++ {
		op := ex.ops[ex.pos]
		switch op.Kind {
		case "new":
			ex.vars = append(ex.vars, jen.Add()) // newStatement().Add() with no items
		case "clone":
			ex.vars = append(ex.vars, ex.vars[op.From].Clone())
		case "append":
			s := ex.vars[op.V]
			if op.Chained {
				for _, it := range op.Items {
					ex.bd.Append(s, it.Node) // s.Id(..), s.Op(..), s.Call(..), s.Add(code) ...
				}
			} else {
				codes := make([]jen.Code, len(op.Items))
				for j, it := range op.Items {
					codes[j] = ex.bd.Code(it.Node)
				}
				s.Add(codes...)
			}
		}
	}
}

const c20FmtMarker = " while formatting source:\n"

// render is Statement.Render classified like hist.World does for rplain.
func (ex *c20Exec) render(i int) (o hist.Obs) {
	ex.upto(i)
	ex.pos = i + 1
	s := ex.vars[ex.ops[i].V]
	var buf bytes.Buffer
	defer func() {
		if r := recover(); r != nil {
			o = hist.Obs{Kind: "panic", Msg: fmt.Sprint(r)}
		}
		if i == ex.last {
			ex.vars, ex.bd = nil, nil // the history is over: release the jen values
		}
	}()
	err := s.Render(&buf)
	if err == nil {
		return hist.Obs{Kind: "write", Out: buf.String(), Writes: 1}
	}
	msg := err.Error()
	if k := strings.Index(msg, c20FmtMarker); k >= 0 && strings.HasPrefix(msg, "Error ") {
		return hist.Obs{Kind: "fmterr", Out: msg[k+len(c20FmtMarker):], Msg: msg[:k]}
	}
	return hist.Obs{Kind: "bad", Msg: "unexpected error: " + msg}
}

// c20Case wraps a list of operations into a Case of "ext" ops.
func c20Case(ops []c20Op, stream, name string) *Case {
	ex := &c20Exec{ops: ops}
	z := term.NewSer()
	h := hist.History{{Kind: "ext", A: "(heap)"}}
	for i := range ops {
		op := hist.Op{Kind: "ext", A: c20Line(ops, z, i)}
		if ops[i].Kind == "append" && len(ops[i].Items) == 0 && ops[i].Chained {
			continue // zero chained calls: nothing happens, nothing to print
		}
		if ops[i].Kind == "render" {
			idx := i
			ex.last = i
			op.Run = func() hist.Obs { return ex.render(idx) }
		}
		h = append(h, op)
	}
	tags, nontrivial := c20Measure(ops)
	return &Case{Name: name, Hist: h, Stream: stream, Tags: tags, NonTrivial: nontrivial,
		Meta: map[string]interface{}{"ops": ops}}
}

// ---- the list model (the oracle's notion of what a statement is) ----

// A statement is a pointer to its parent (when it is a clone) and the items appended to it.
type c20Abs struct {
	parent *c20Abs
	own    []c20Item
	ver    int // number of non-empty appends to this statement
}

// stamp: the number of non-empty appends to the statement and to everything it was cloned
// from.  The counters only grow, so two stamps of one variable are equal exactly when nothing
// was appended to it or to one of its originals in between (this replaces marking every
// dependent variable at every append, which is cubic in the depth of a chain of clones).
func (a *c20Abs) stamp() int {
	n := 0
	for x := a; x != nil; x = x.parent {
		n += x.ver
	}
	return n
}

// text is what the statement renders as before formatting: the non-null items joined by
// single spaces, the parent (as it is now) counting as one item.
func (a *c20Abs) text() (txt string, null bool) {
	// the chain of originals, outermost first (a loop: chains are thousands of levels deep in
	// the stream sizes, and every level's text starts with the text of the level above)
	var chain []*c20Abs
	for x := a; x != nil; x = x.parent {
		chain = append(chain, x)
	}
	for i := len(chain) - 1; i >= 0; i-- {
		var parts []string
		if i < len(chain)-1 && !null {
			parts = append(parts, txt)
		}
		for _, it := range chain[i].own {
			if !it.Null {
				parts = append(parts, it.Text)
			}
		}
		txt, null = strings.Join(parts, " "), len(parts) == 0
	}
	return txt, null
}

type c20Fmt struct {
	out string
	ok  bool
}

var c20FmtCache = map[string]c20Fmt{}

func c20Format(raw string) c20Fmt {
	if r, ok := c20FmtCache[raw]; ok {
		return r
	}
	b, err := format.Source([]byte(raw))
	r := c20Fmt{string(b), err == nil}
	if len(c20FmtCache) > 200000 {
		c20FmtCache = map[string]c20Fmt{}
	}
	c20FmtCache[raw] = r
	return r
}

// Oracle decides the property on the implementation's outputs with the list model: after
// every step each rendered variable shows its abstract value (so nothing appended to a
// clone is lost, altered or reordered, and an unmodified clone renders like its original);
// and, independently of the text table, a variable's output never changes between two
// renders unless something was appended to it or to a statement it was cloned from.
func (c20) Oracle(c *Case, got []hist.Obs) string {
	if c.Meta["kind"] == "snap" {
		return c20sOracle(c, got) // c20_snap.go
	}
	if c.Meta["kind"] == "ctx" {
		return c20xOracle(c, got) // c20_ctx.go
	}
	ops := c.Meta["ops"].([]c20Op)
	var vars []*c20Abs
	type seen struct {
		obs   hist.Obs
		set   bool
		stamp int
	}
	var last []seen
	var from []int // the variable a clone was made from (-1: not a clone)
	valid := func(j int) bool { return last[j].set && last[j].stamp == vars[j].stamp() }
	k := 0
	for i, op := range ops {
		switch op.Kind {
		case "new":
			vars = append(vars, &c20Abs{})
			last = append(last, seen{})
			from = append(from, -1)
		case "clone":
			vars = append(vars, &c20Abs{parent: vars[op.From]})
			last = append(last, seen{})
			from = append(from, op.From)
		case "append":
			vars[op.V].own = append(vars[op.V].own, op.Items...)
			if len(op.Items) > 0 {
				vars[op.V].ver++ // every variable cloned (directly or not) from this one has a new stamp
			}
		case "render":
			if k >= len(got) {
				return fmt.Sprintf("step %d: render of variable %d produced no observation", i, op.V)
			}
			g := got[k]
			k++
			raw, _ := vars[op.V].text()
			f := c20Format(raw)
			switch {
			case g.Kind == "write" && f.ok:
				if g.Out != f.out {
					return fmt.Sprintf("step %d: variable %d renders %q, its list-model value is %q", i, op.V, c20Short(g.Out), c20Short(f.out))
				}
			case g.Kind == "fmterr" && !f.ok:
				if g.Out != raw {
					return fmt.Sprintf("step %d: variable %d renders (unformattable) %q, its list-model value is %q", i, op.V, c20Short(g.Out), c20Short(raw))
				}
			default:
				return fmt.Sprintf("step %d: variable %d: got %s, list-model value %q (formats: %v)", i, op.V, c20Short(g.String()), c20Short(raw), f.ok)
			}
			if valid(op.V) && !hist.SameObs(last[op.V].obs, g) {
				return fmt.Sprintf("step %d: output of variable %d changed from %s to %s although nothing was appended to it or to its originals", i, op.V, c20Short(last[op.V].obs.String()), c20Short(g.String()))
			}
			if p := vars[op.V].parent; p != nil && len(vars[op.V].own) == 0 {
				// an unmodified clone renders exactly like its original (rendered before in this batch?)
				if j := from[op.V]; vars[j] == p && valid(j) && !hist.SameObs(last[j].obs, g) {
					return fmt.Sprintf("step %d: unmodified clone %d renders %s, its original %d renders %s", i, op.V, c20Short(g.String()), j, c20Short(last[j].obs.String()))
				}
			}
			last[op.V] = seen{g, true, vars[op.V].stamp()}
		}
	}
	if k != len(got) {
		return fmt.Sprintf("%d observations for %d renders", len(got), k)
	}
	return ""
}

func (c20) Compare(c *Case, exp, got []hist.Obs) string {
	if c.Meta["kind"] == "ctx" {
		return c20xCompare(exp, got) // the replayed renders of a kept File are not compared
	}
	return CompareAll(exp, got)
}

// ---- measuring a history (tags, non-triviality) ----

// c20Measure replays the history on shadow Go slices of 16-byte elements (same growth as
// []jen.Code) to see where capacity is and is not exhausted, and on the header-copying
// mutant of Clone (`c := *s; return &c`) compared with a plain value-copy list model to see
// whether the history is one in which that mutant's shared backing array corrupts an item.
//
// NonTrivial: the history contains a clone, at least one non-empty append after it to a
// statement that is a clone or has been cloned, and a render after that append.
func c20Measure(ops []c20Op) (tags []string, nontrivial bool) {
	type shadow struct {
		s      []interface{}
		parent int
		depth  int
	}
	var sh []shadow
	var mutant [][]interface{} // header-copy semantics
	var value [][]interface{}  // value-copy semantics
	set := map[string]bool{}
	next := 0
	hasClone, pending, observed := false, false, false
	same := func(a, b []interface{}) bool {
		if len(a) != len(b) {
			return false
		}
		for i := range a {
			if a[i] != b[i] {
				return false
			}
		}
		return true
	}
	maxDepth := 0
	for _, op := range ops {
		switch op.Kind {
		case "new":
			sh = append(sh, shadow{s: []interface{}{}, parent: -1})
			mutant = append(mutant, []interface{}{})
			value = append(value, []interface{}{})
		case "clone":
			o := sh[op.From]
			if cap(o.s) > len(o.s) {
				set["spare-at-clone"] = true
			}
			if len(o.s) == 0 {
				set["clone-of-empty"] = true
			}
			d := o.depth + 1
			if d > maxDepth {
				maxDepth = d
			}
			if d >= 2 {
				set["clone-of-clone"] = true
			}
			sh = append(sh, shadow{s: []interface{}{op.From}, parent: op.From, depth: d})
			mutant = append(mutant, mutant[op.From])
			value = append(value, append([]interface{}(nil), value[op.From]...))
			hasClone = true
		case "append":
			k := len(op.Items)
			if k == 0 {
				set["empty-append"] = true
			}
			rounds := [][]c20Item{op.Items}
			if op.Chained {
				rounds = nil
				for j := range op.Items {
					rounds = append(rounds, op.Items[j:j+1])
				}
				set["chained"] = true
			} else {
				set[fmt.Sprintf("add-k=%d", k)] = true
			}
			for _, its := range rounds {
				xs := make([]interface{}, len(its))
				for j := range its {
					xs[j] = next
					next++
					if its[j].Null {
						set["null-item"] = true
					}
				}
				before := cap(sh[op.V].s)
				sh[op.V].s = append(sh[op.V].s, xs...)
				if len(xs) > 0 {
					if cap(sh[op.V].s) == before {
						set["append-in-place"] = true
						if hasClone {
							set["in-place-after-clone"] = true
						}
					} else {
						set["append-reallocates"] = true
					}
				}
				mutant[op.V] = append(mutant[op.V], xs...)
				value[op.V] = append(value[op.V], xs...)
			}
			if hasClone && k > 0 && (sh[op.V].parent >= 0 || c20HasClone(ops, op.V)) {
				pending = true
			}
		case "render":
			if pending {
				observed = true
			}
			if sh[op.V].parent >= 0 && len(sh[op.V].s) == 1 {
				set["unmodified-clone-rendered"] = true
				// depth of the chain of unmodified clones above the rendered one
				d := 0
				for v := op.V; sh[v].parent >= 0 && len(sh[v].s) == 1; v = sh[v].parent {
					d++
				}
				set[fmt.Sprintf("unmodified-clone-depth=%d", d)] = true
			}
			if !same(mutant[op.V], value[op.V]) {
				set["aliasing-hazard-observed"] = true
			}
		}
	}
	set[fmt.Sprintf("vars=%d", len(sh))] = true
	set[fmt.Sprintf("clone-depth=%d", maxDepth)] = true
	for t := range set {
		tags = append(tags, t)
	}
	return tags, hasClone && observed
}

func c20HasClone(ops []c20Op, v int) bool {
	for _, op := range ops {
		if op.Kind == "clone" && op.From == v {
			return true
		}
	}
	return false
}

// ---- generation ----

var c20Ids = []string{"a", "b", "c", "x", "y", "z", "foo", "bar", "i", "n", "err0", "v1"}
var c20Ops = []string{"+", "-", "*", "/", "=", ":=", "==", ",", ".", "&&", "<-", "!"}
var c20Named = map[string]string{"Nil": "nil", "Int": "int", "String": "string", "Err": "err", "Break": "break", "Var": "var", "Func": "func", "True": "true", "Range": "range"}
var c20NamedKeys = []string{"Nil", "Int", "String", "Err", "Break", "Var", "Func", "True", "Range"}

// hand-written: open, close, separator of the few groups used here
var c20Groups = map[string][3]string{"Call": {"(", ")", ","}, "Index": {"[", "]", ":"}, "Values": {"{", "}", ","}, "Params": {"(", ")", ","}}
var c20GroupKeys = []string{"Call", "Index", "Values", "Params"}

// c20Tok is an item appended by a chained method (a token or a group).
func c20Tok(r *rand.Rand, depth int) c20Item {
	switch n := r.Intn(100); {
	case n < 40:
		s := pick(r, c20Ids)
		return c20Item{Node: term.Id(s), Text: s}
	case n < 58:
		s := pick(r, c20Ops)
		return c20Item{Node: term.Op(s), Text: s}
	case n < 66:
		v := r.Intn(2000) - 100
		return c20Item{Node: term.Lit(v), Text: strconv.Itoa(v)}
	case n < 70:
		s := pick(r, []string{"", "s", "two words", "q\"uote", "tab\t"})
		return c20Item{Node: term.Lit(s), Text: strconv.Quote(s)}
	case n < 78:
		m := pick(r, c20NamedKeys)
		return c20Item{Node: term.Named(m), Text: c20Named[m]}
	case n < 83:
		return c20Item{Node: term.Null(), Null: true}
	case n < 86:
		return c20Item{Node: term.Op(""), Text: ""} // Empty(): no text but a separator
	case n < 96 && depth < 2:
		m := pick(r, c20GroupKeys)
		g := c20Groups[m]
		var args []term.Node
		var texts []string
		for j := r.Intn(4); j > 0; j-- {
			a := c20Stmt(r, depth+1, 1+r.Intn(2))
			if a.Null {
				continue // keep group arguments visible: nulls inside groups are C-other territory
			}
			args = append(args, a.Node)
			texts = append(texts, a.Text)
		}
		return c20Item{Node: term.G(m, args...), Text: g[0] + strings.Join(texts, g[2]) + g[1]}
	default:
		s := pick(r, c20Ids)
		return c20Item{Node: term.Id(s), Text: s}
	}
}

// c20Stmt is an item that is itself a statement value (what Add takes): its text is its
// non-null items joined by spaces; it is null when all of them are.
func c20Stmt(r *rand.Rand, depth, n int) c20Item {
	var nodes []term.Node
	var parts []string
	for j := 0; j < n; j++ {
		it := c20Tok(r, depth)
		nodes = append(nodes, it.Node)
		if !it.Null {
			parts = append(parts, it.Text)
		}
	}
	return c20Item{Node: term.S(nodes...), Text: strings.Join(parts, " "), Null: len(parts) == 0}
}

// c20Code is an item handed to Add: a statement value, sometimes nil, a typed nil
// *Statement or an empty statement (all three render nothing).
func c20Code(r *rand.Rand) c20Item {
	switch n := r.Intn(100); {
	case n < 3:
		return c20Item{Node: term.Nil{}, Null: true}
	case n < 5:
		return c20Item{Node: term.NilStmt{}, Null: true}
	case n < 7:
		return c20Item{Node: term.S(), Null: true}
	case n < 80:
		return c20Stmt(r, 0, 1)
	default:
		return c20Stmt(r, 0, 2+r.Intn(2))
	}
}

// c20Random makes one history: steps operations (not counting renders) over at most
// maxVars variables.  renderAll: every variable is rendered after every step; otherwise
// about one variable per step, and all of them at the end.
func c20Random(r *rand.Rand, steps, maxVars int, renderAll bool) []c20Op {
	var ops []c20Op
	nv := 0
	isClone := []bool{}
	renderEvery := func() {
		for v := 0; v < nv; v++ {
			ops = append(ops, c20Op{Kind: "render", V: v})
		}
	}
	for st := 0; st < steps; st++ {
		n := r.Intn(100)
		switch {
		case nv == 0 || (n < 8 && nv < maxVars):
			ops = append(ops, c20Op{Kind: "new", V: nv})
			nv++
			isClone = append(isClone, false)
		case n < 30 && nv < maxVars:
			from := r.Intn(nv)
			if r.Intn(2) == 0 { // prefer cloning a clone: nesting
				for tries := 0; tries < 4 && !isClone[from]; tries++ {
					from = r.Intn(nv)
				}
			}
			ops = append(ops, c20Op{Kind: "clone", V: nv, From: from})
			nv++
			isClone = append(isClone, true)
		default:
			k := 1 + r.Intn(9)
			switch r.Intn(20) {
			case 0:
				k = 0
			case 1, 2, 3, 4, 5:
				k = 1
			}
			op := c20Op{Kind: "append", V: r.Intn(nv), Chained: r.Intn(2) == 0}
			for j := 0; j < k; j++ {
				if op.Chained {
					if r.Intn(6) == 0 {
						op.Items = append(op.Items, c20Code(r)) // chained s.Add(code)
					} else {
						op.Items = append(op.Items, c20Tok(r, 0))
					}
				} else {
					op.Items = append(op.Items, c20Code(r))
				}
			}
			ops = append(ops, op)
		}
		if renderAll {
			renderEvery()
		} else if r.Intn(2) == 0 {
			ops = append(ops, c20Op{Kind: "render", V: r.Intn(nv)})
		}
	}
	if !renderAll {
		renderEvery()
	}
	return ops
}

func (c20) Generate(r *rand.Rand, t string) []*Case {
	var out []*Case
	// Sizes: quick about 3k histories; thorough 100k.  (200k - 60k + 140k - was run once when
	// this was written: no failure, 11m40s, but 25 GB peak RSS because main.go keeps every case,
	// line and observation alive until the report is written; 100k needs about half of both.)
	// every variable rendered after every step
	n := tier(t, 1200, 30000)
	for i := 0; i < n; i++ {
		out = append(out, c20Case(c20Random(r, 5+r.Intn(26), 1+r.Intn(6), true), "render-all", ""))
	}
	// longer histories rendered at random points and completely at the end
	n = tier(t, 1800, 70000)
	for i := 0; i < n; i++ {
		out = append(out, c20Case(c20Random(r, 5+r.Intn(56), 1+r.Intn(6), false), "render-some", ""))
	}
	// sweep: original with len L and every small capacity situation, cloned, then k1 items
	// to one and k2 to the other in both orders (the mutant's overwrite window)
	for L := 0; L <= 9; L++ {
		for k1 := 1; k1 <= 3; k1++ {
			for k2 := 1; k2 <= 3; k2++ {
				for order := 0; order < 2; order++ {
					out = append(out, c20Case(c20Window(L, k1, k2, order == 0), "window-sweep", ""))
				}
			}
		}
	}
	// originals whose top level holds a case clause with chains of unmodified clones; clones as
	// items inside groups of sibling clones (c20_snap.go)
	out = append(out, c20sGenerate(r, t)...)
	// large histories (c20_sizes.go): generated last (the draws of the older streams are
	// unchanged), evaluated first (the model needs seconds for the largest ones: its co-processes
	// take the lines in order, so they overlap with everything else)
	sizes := c20SizesGenerate(r, t)
	// how the variables are rendered (kept Files) and where the clones are taken (callbacks): c20_ctx.go
	return append(append(sizes, out...), c20xGenerate(r, t)...)
}

func c20Letters(prefix string, n int, chained bool) []c20Item {
	var its []c20Item
	for j := 0; j < n; j++ {
		s := fmt.Sprintf("%s%d", prefix, j)
		if chained {
			its = append(its, c20Item{Node: term.Id(s), Text: s})
		} else {
			its = append(its, c20Item{Node: term.S(term.Id(s)), Text: s})
		}
	}
	return its
}

// c20Window: original built by L single appends (so cap > len for most L), clone, then
// interleaved appends to both and to a clone of the clone, everything rendered after each.
func c20Window(L, k1, k2 int, originalFirst bool) []c20Op {
	ops := []c20Op{{Kind: "new", V: 0}}
	ops = append(ops, c20Op{Kind: "append", V: 0, Items: c20Letters("o", L, true), Chained: true})
	ops = append(ops, c20Op{Kind: "clone", V: 1, From: 0}, c20Op{Kind: "clone", V: 2, From: 1}, c20Op{Kind: "clone", V: 3, From: 0})
	all := func() {
		for v := 0; v < 4; v++ {
			ops = append(ops, c20Op{Kind: "render", V: v})
		}
	}
	all()
	a := c20Op{Kind: "append", V: 0, Items: c20Letters("p", k1, false)}
	b := c20Op{Kind: "append", V: 1, Items: c20Letters("q", k2, false)}
	if !originalFirst {
		a, b = b, a
	}
	ops = append(ops, a)
	all()
	ops = append(ops, b)
	all()
	ops = append(ops, c20Op{Kind: "append", V: 3, Items: c20Letters("r", k1, true), Chained: true})
	all()
	ops = append(ops, c20Op{Kind: "append", V: 2, Items: c20Letters("s", k2, true), Chained: true})
	all()
	ops = append(ops, c20Op{Kind: "append", V: 0, Items: c20Letters("t", 1, true), Chained: true})
	all()
	return ops
}

func (c20) Regressions() []*Case {
	id := func(s string) c20Item { return c20Item{Node: term.Id(s), Text: s} }
	r := func(v int) c20Op { return c20Op{Kind: "render", V: v} }
	ch := func(v int, its ...c20Item) c20Op { return c20Op{Kind: "append", V: v, Items: its, Chained: true} }
	// the example of the library's test suite: a one-token statement cloned twice
	twice := []c20Op{{Kind: "new", V: 0}, ch(0, id("a")), {Kind: "clone", V: 1, From: 0}, ch(1, id("b")),
		{Kind: "clone", V: 2, From: 0}, ch(2, id("c")), r(0), r(1), r(2)}
	// the witness of C20_header_copy_refuted (Props/C20.v): a b c | d leaves spare capacity,
	// clone, x to the clone, y to the original
	add3 := c20Op{Kind: "append", V: 0, Items: []c20Item{
		{Node: term.S(term.Id("a")), Text: "a"}, {Node: term.S(term.Id("b")), Text: "b"}, {Node: term.S(term.Id("c")), Text: "c"}}}
	witness := []c20Op{{Kind: "new", V: 0}, add3, ch(0, id("d")), {Kind: "clone", V: 1, From: 0}, r(0), r(1),
		ch(1, id("x")), r(0), r(1), ch(0, id("y")), r(0), r(1), {Kind: "clone", V: 2, From: 1}, ch(2, id("z")), r(0), r(1), r(2)}
	// outside the property, kept as a correspondence check of the model: a Block appended to a
	// clone of `case a:` sees the whole original as its previous item and keeps its braces
	caseItem := c20Item{Node: term.G("Case", term.S(term.Id("a"))), Text: "case a:"}
	blockBare := c20Item{Node: term.G("Block", term.S(term.Id("b"))), Text: "\nb"}
	blockBraces := c20Item{Node: term.G("Block", term.S(term.Id("b"))), Text: "{\nb\n}"}
	caseBlock := []c20Op{{Kind: "new", V: 0}, ch(0, caseItem), {Kind: "clone", V: 1, From: 0}, ch(1, blockBraces), r(1),
		{Kind: "new", V: 2}, ch(2, caseItem, blockBare), r(2)}
	return []*Case{
		c20Case(twice, "regression", "one-token-cloned-twice"),
		c20Case(witness, "regression", "header-copy-witness"),
		c20Case(caseBlock, "regression", "block-after-cloned-case"),
	}
}

// Shrink: drop an append or a render, drop items of an append, cut the tail.
func (c20) Shrink(c *Case) []*Case {
	if c.Meta["kind"] == "snap" {
		return c20sShrink(c)
	}
	if c.Meta["kind"] == "ctx" {
		return c20xShrink(c)
	}
	if _, ok := c.Meta["size"].(c20Size); ok {
		return c20SizesShrink(c) // one candidate per operation would be thousands of large histories
	}
	ops := c.Meta["ops"].([]c20Op)
	var out []*Case
	without := func(i int) []c20Op {
		o := append([]c20Op{}, ops[:i]...)
		return append(o, ops[i+1:]...)
	}
	for i := len(ops) - 1; i > 0; i-- {
		if ops[i].Kind == "render" || ops[i].Kind == "append" {
			out = append(out, c20Case(ops[:i], "shrunk", ""))
			break
		}
	}
	for i := range ops {
		switch ops[i].Kind {
		case "render":
			out = append(out, c20Case(without(i), "shrunk", ""))
		case "append":
			out = append(out, c20Case(without(i), "shrunk", ""))
			if len(ops[i].Items) > 1 {
				o := append([]c20Op{}, ops...)
				o[i].Items = ops[i].Items[:len(ops[i].Items)-1]
				out = append(out, c20Case(o, "shrunk", ""))
			}
		}
	}
	return out
}
