package props

import (
	"bytes"
	"fmt"
	"math/rand"
	"reflect"
	"sort"
	"strings"

	"github.com/dave/jennifer/jen"

	"verifharness/hist"
	"verifharness/term"
)

// C13, dimension ZERO-LENGTH VARIADIC CALLS FOLLOWED BY CHAINING.  "The rendered list contains
// exactly the remaining items, in order, for every arity": a variadic method called with no
// argument at all (a literal M(), a nil slice..., an empty slice...) contributes no item of its
// own, but the statement it returns is a real member of the list it was called on, and whatever
// is chained onto it must show up at that position.
//
// Stream `zero-variadic`: a list of n marker items (identifiers zq<i>x) is built inside a
// ...Func callback of every list construct (CustomFunc with several option sets too), or
// directly on a *File, or on a group nested in one of these; every item is put there in one of
// the ways of c13zWays:
//
//	direct              g.Id(n)
//	add()               g.Add().Id(n)                       literal zero-length call
//	add(nil...)         g.Add(p...).Id(n), p a nil []Code
//	add(empty...)       g.Add(p...).Id(n), p = []Code{} / a slice cut to length 0 with capacity
//	add().add()         g.Add().Add().Id(n)                 (Group form, then Statement form)
//	add(x)              g.Add(Id(n))
//	group.M().Id        g.M().Id(n)        for EVERY variadic method M of *Group (enumerated
//	                                       by reflection: Call, Params, List, ..., Custom,
//	                                       Commentf ...), zero variadic arguments
//	group.Id.M()        g.Id(n).M()        the *Statement form of the same
//	add(pkg.M().Id)     g.Add(jen.M().Id(n))   the package-level form
//	add(stmt.M().Id)    g.Add(new(Statement).M().Id(n))
//
// The list lives in a NoFormat File (raw bytes, any token sequence renders).  The Oracle
// decides, on the implementation alone: (1) every marker occurs exactly once and the markers are
// in order; (2) the bytes equal those of the REFERENCE build of the same list, in which no
// Group-form zero-length call occurs (each item is built as a detached statement by the
// *Statement form and handed over by a one-argument g.Add(item)).  Where the list is expressible
// as a term (M a list construct) the history renders the term (chained-method builder and
// model), and the bytes must equal that as well.
//
// NonTrivial: at least one item is built by a way with a zero-length call.

var c13zWays = []string{"direct", "add()", "add(nil...)", "add(empty...)", "add().add()", "add(x)",
	"group.M().Id", "group.Id.M()", "add(pkg.M().Id)", "add(stmt.M().Id)"}

type c13zItem struct {
	Way  string
	M    string      // for the M ways
	Opts jen.Options // M == Custom
	Name string
}

type c13zSpec struct {
	Ctx     string // "File" or a list construct that has a ...Func form / "Custom"
	CtxOpts jen.Options
	Nest    string // "" or a second list construct: the list is built in File > Ctx > Nest
	Items   []c13zItem
}

// c13zVariadic: the variadic methods of *Group returning *Statement whose leading parameters
// the harness can fill (Options, string), by reflection on the package the harness is built
// against.
func c13zVariadic() []string {
	t := reflect.TypeOf(&jen.Group{})
	st := reflect.TypeOf(&jen.Statement{})
	var out []string
	for i := 0; i < t.NumMethod(); i++ {
		m := t.Method(i)
		mt := m.Type
		if !mt.IsVariadic() || mt.NumOut() != 1 || mt.Out(0) != st {
			continue
		}
		ok := true
		for k := 1; k < mt.NumIn()-1; k++ {
			switch mt.In(k) {
			case reflect.TypeOf(jen.Options{}), reflect.TypeOf(""):
			default:
				ok = false
			}
		}
		if ok {
			out = append(out, m.Name)
		}
	}
	sort.Strings(out)
	return out
}

// c13zCallZero calls the variadic function / method f with no variadic argument.
func c13zCallZero(f reflect.Value, opts jen.Options) *jen.Statement {
	ft := f.Type()
	var in []reflect.Value
	for k := 0; k < ft.NumIn()-1; k++ {
		switch ft.In(k) {
		case reflect.TypeOf(jen.Options{}):
			in = append(in, reflect.ValueOf(opts))
		default:
			in = append(in, reflect.ValueOf("/*z*/"))
		}
	}
	return f.Call(in)[0].Interface().(*jen.Statement)
}

// put adds item it to g; reference: without any Group-form zero-length call.
func c13zPut(g *jen.Group, it c13zItem, reference bool, variant int) {
	stmtForm := func() *jen.Statement {
		return c13zCallZero(reflect.ValueOf(new(jen.Statement)).MethodByName(it.M), it.Opts).Id(it.Name)
	}
	switch it.Way {
	case "direct":
		g.Id(it.Name)
	case "add(x)":
		g.Add(jen.Id(it.Name))
	case "add()", "add(nil...)", "add(empty...)", "add().add()":
		if reference {
			g.Add(jen.Id(it.Name))
			return
		}
		switch it.Way {
		case "add()":
			g.Add().Id(it.Name)
		case "add(nil...)":
			var p []jen.Code
			g.Add(p...).Id(it.Name)
		case "add(empty...)":
			p := []jen.Code{}
			if variant%2 == 1 {
				p = []jen.Code{jen.Id("zqNEVER"), jen.Id("zqNEVER")}[:0]
			}
			g.Add(p...).Id(it.Name)
		default:
			g.Add().Add().Id(it.Name)
		}
	case "group.M().Id":
		if reference {
			g.Add(stmtForm())
			return
		}
		c13zCallZero(reflect.ValueOf(g).MethodByName(it.M), it.Opts).Id(it.Name)
	case "group.Id.M()":
		if reference {
			s := jen.Id(it.Name)
			c13zCallZero(reflect.ValueOf(s).MethodByName(it.M), it.Opts)
			g.Add(s)
			return
		}
		c13zCallZero(reflect.ValueOf(g.Id(it.Name)).MethodByName(it.M), it.Opts)
	case "add(pkg.M().Id)":
		if f, ok := c14Funcs[it.M]; ok && !reference {
			g.Add(c13zCallZero(reflect.ValueOf(f), it.Opts).Id(it.Name))
			return
		}
		g.Add(stmtForm())
	case "add(stmt.M().Id)":
		g.Add(stmtForm())
	default:
		panic("c13z: unknown way " + it.Way)
	}
}

func (sp *c13zSpec) build(reference bool) *jen.File {
	f := jen.NewFile("p")
	f.NoFormat = true
	fill := func(g *jen.Group) {
		for i, it := range sp.Items {
			c13zPut(g, it, reference, i)
		}
	}
	if sp.Ctx == "File" {
		fill(f.Group)
		return f
	}
	inner := fill
	if sp.Nest != "" {
		inner = func(g *jen.Group) {
			// the nested list is itself put there by a zero-length Add followed by chaining
			var s *jen.Statement
			if reference {
				s = g.Id("zqhead")
			} else {
				s = g.Add().Id("zqhead")
			}
			c13gFuncForm(s, sp.Nest, jen.Options{}, fill)
		}
	}
	// the top-level statement too
	s := f.Id("zqtop")
	c13gFuncForm(s, sp.Ctx, sp.CtxOpts, inner)
	return f
}

// term of the list (what the chained-method builder and the model render); ok false when a
// method is not a list construct of the term language.
func (sp *c13zSpec) hist() (hist.History, bool) {
	isList := map[string]bool{"Custom": true}
	for _, m := range VariadicGroups {
		isList[m] = true
	}
	var items []term.Node
	for _, it := range sp.Items {
		zero := func() term.Node {
			if it.M == "Custom" {
				return term.Custom(it.Opts)
			}
			return term.G(it.M)
		}
		switch it.Way {
		case "group.M().Id", "add(pkg.M().Id)", "add(stmt.M().Id)":
			if !isList[it.M] && it.M != "Add" {
				return nil, false
			}
			if it.M == "Add" {
				items = append(items, term.S(term.Id(it.Name)))
			} else {
				items = append(items, term.S(zero(), term.Id(it.Name)))
			}
		case "group.Id.M()":
			if !isList[it.M] && it.M != "Add" {
				return nil, false
			}
			if it.M == "Add" {
				items = append(items, term.S(term.Id(it.Name)))
			} else {
				items = append(items, term.S(term.Id(it.Name), zero()))
			}
		default:
			items = append(items, term.S(term.Id(it.Name)))
		}
	}
	grp := func(m string, o jen.Options, items ...term.Node) term.Node {
		if m == "Custom" {
			return term.Custom(o, items...)
		}
		return term.G(m, items...)
	}
	h := hist.History{{Kind: "newfile", F: 0, A: "p"}, {Kind: "noformat", F: 0, Flag: true}}
	switch {
	case sp.Ctx == "File":
		for _, it := range items {
			h = append(h, hist.Op{Kind: "fadd", F: 0, Code: it})
		}
	case sp.Nest != "":
		h = append(h, hist.Op{Kind: "fadd", F: 0, Code: term.S(term.Id("zqtop"), grp(sp.Ctx, sp.CtxOpts, term.S(term.Id("zqhead"), grp(sp.Nest, jen.Options{}, items...))))})
	default:
		h = append(h, hist.Op{Kind: "fadd", F: 0, Code: term.S(term.Id("zqtop"), grp(sp.Ctx, sp.CtxOpts, items...))})
	}
	h = append(h, hist.Op{Kind: "render", F: 0})
	return h, true
}

func c13zCase(sp *c13zSpec, stream string) *Case {
	c := &Case{Stream: stream, Meta: map[string]interface{}{"kind": "zero", "spec": sp}}
	tags := []string{"zero-ctx=" + sp.Ctx, fmt.Sprintf("zero-n=%d", min3(len(sp.Items), 6))}
	if sp.Nest != "" {
		tags = append(tags, "zero-nested="+sp.Nest)
	}
	for i, it := range sp.Items {
		tags = append(tags, "zero-way="+it.Way)
		if it.M != "" {
			tags = append(tags, "zero-M="+it.M)
		}
		if it.Way != "direct" && it.Way != "add(x)" {
			c.NonTrivial = true
			pos := "middle"
			switch {
			case len(sp.Items) == 1:
				pos = "only"
			case i == 0:
				pos = "first"
			case i == len(sp.Items)-1:
				pos = "last"
			}
			tags = append(tags, "zero-pos="+pos)
		}
	}
	if h, ok := sp.hist(); ok {
		c.Hist = h
		tags = append(tags, "zero-model=compared")
	} else {
		tags = append(tags, "zero-model=no-term")
	}
	c.Tags = uniqStrings(tags)
	return c
}

func c13zContexts() []string {
	return append([]string{"File", "Custom"}, c13gHasFunc()...)
}

func c13zItem1(r *rand.Rand, ms []string, i int, way string) c13zItem {
	it := c13zItem{Way: way, Name: fmt.Sprintf("zq%dx", i)}
	if strings.Contains(way, "M()") {
		it.M = ms[r.Intn(len(ms))]
		if it.M == "Custom" {
			it.Opts = c13Custom[r.Intn(len(c13Custom))]
		}
	}
	return it
}

// c13zGenerate: (a) sweep: every context x every way (x every variadic method for the M ways)
// as the only zero-length item at a rotating position of a list of 1..4; (b) random mixtures.
func c13zGenerate(r *rand.Rand, t string) []*Case {
	var out []*Case
	ms := c13zVariadic()
	ctxs := c13zContexts()
	rot := 0
	mk := func(ctx string, way, m string) {
		n := 1 + rot%4
		pos := (rot / 4) % n
		rot++
		sp := &c13zSpec{Ctx: ctx}
		if ctx == "Custom" {
			sp.CtxOpts = c13Custom[rot%len(c13Custom)]
		}
		for i := 0; i < n; i++ {
			w := "direct"
			if i == pos {
				w = way
			}
			it := c13zItem1(r, ms, i, w)
			if i == pos && m != "" {
				it.M = m
				if m == "Custom" {
					it.Opts = c13Custom[rot%len(c13Custom)]
				}
			}
			sp.Items = append(sp.Items, it)
		}
		out = append(out, c13zCase(sp, "zero-variadic"))
	}
	for _, ctx := range ctxs {
		for _, way := range c13zWays {
			if strings.Contains(way, "M()") {
				for _, m := range ms {
					mk(ctx, way, m)
				}
			} else {
				mk(ctx, way, "")
			}
		}
	}
	nested := c13gHasFunc()
	for i, n := 0, tier(t, 1500, 60000); i < n; i++ {
		sp := &c13zSpec{Ctx: ctxs[r.Intn(len(ctxs))]}
		if sp.Ctx == "Custom" {
			sp.CtxOpts = c13Custom[r.Intn(len(c13Custom))]
		}
		if sp.Ctx != "File" && r.Intn(3) == 0 {
			sp.Nest = nested[r.Intn(len(nested))]
		}
		k := r.Intn(6)
		if r.Intn(8) == 0 {
			k = 6 + r.Intn(6)
		}
		for j := 0; j < k; j++ {
			sp.Items = append(sp.Items, c13zItem1(r, ms, j, c13zWays[r.Intn(len(c13zWays))]))
		}
		out = append(out, c13zCase(sp, "zero-variadic"))
	}
	return out
}

func c13zRender(f *jen.File) (o hist.Obs) {
	defer func() {
		if p := recover(); p != nil {
			o = hist.Obs{Kind: "panic", Out: fmt.Sprint(p)}
		}
	}()
	var b bytes.Buffer
	if err := f.Render(&b); err != nil {
		return hist.Obs{Kind: "fmterr", Out: err.Error()}
	}
	return hist.Obs{Kind: "write", Out: b.String()}
}

// C13ZeroMarkers decides (1) on a rendered text: the markers, once each, in order.
func C13ZeroMarkers(out string, names []string) string {
	at := -1
	for _, n := range names {
		occ := c13Occurrences(out, n)
		if len(occ) != 1 {
			return fmt.Sprintf("item %s occurs %d times in %q (must be exactly once)", n, len(occ), out)
		}
		if occ[0] < at {
			return fmt.Sprintf("item %s is out of order in %q", n, out)
		}
		at = occ[0]
	}
	return ""
}

func c13zOracle(c *Case, got []hist.Obs) string {
	sp := c.Meta["spec"].(*c13zSpec)
	var a, ref hist.Obs
	func() {
		defer func() {
			if p := recover(); p != nil {
				a = hist.Obs{Kind: "panic", Out: "while building: " + fmt.Sprint(p)}
			}
		}()
		a = c13zRender(sp.build(false))
	}()
	if a.Kind != "write" {
		return "the list with zero-length variadic calls does not render: " + a.String()
	}
	var names []string
	for _, it := range sp.Items {
		names = append(names, it.Name)
	}
	if e := C13ZeroMarkers(a.Out, names); e != "" {
		return e
	}
	ref = c13zRender(sp.build(true))
	if ref.Kind != a.Kind || ref.Out != a.Out {
		return fmt.Sprintf("built with zero-length variadic calls on the group the list renders %s, built from detached statements handed to Add %s", a, ref)
	}
	if len(c.Hist) > 0 {
		if len(got) != 1 || got[0].Kind != a.Kind || got[0].Out != a.Out {
			return fmt.Sprintf("built with zero-length variadic calls the list renders %s, the chained build of the term %v", a, got)
		}
	}
	return ""
}
