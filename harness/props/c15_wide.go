package props

import (
	"errors"
	"fmt"
	"go/ast"
	"go/token"
	"math/rand"
	"strings"
	"unicode/utf8"

	"verifharness/term"
)

// C15, the wider streams (round 5).  Three dimensions the first streams did not have:
//
//	ctl       comment texts with control characters and line-break-like bytes: carriage return
//	          alone / before / after a line feed / at either end, VT, FF, NUL, ESC, BS, SUB, DEL,
//	          U+2028, U+2029, U+0085, a BOM, invalid UTF-8; at every kind of site, in headers and
//	          package comments
//	commentf  Commentf with its ORIGINAL format and operands through the three entry points
//	          (Statement.Commentf, the function Commentf, Group.Commentf): 0..3 operands against
//	          0..3 verbs (`%%`, missing and extra operands, bad verbs, `%*`), operands whose text has
//	          newlines, `*/`, `%`; the expected text is fmt.Sprintf(format, operands...)
//	cgo       1..5 CgoPreamble blocks of mixed form (plain one-line, plain multi-line, raw `// x`,
//	          raw `/* x */`, raw multi-line block) in every order: one comment per block, in
//	          order, the doc comment of the declaration `import "C"`
//
// What is decided for the texts outside the first domain (DESIGN.md section 5, domain decisions):
//   - carriage return: go/scanner deletes it from every comment (except inside `*\r/`), so the
//     formatted output has the CR-less text.  Decided: the NoFormat output has the text byte
//     for byte inside one comment token; the render with formatting does not fail; code tokens
//     are the same with and without the comments in both outputs; the formatted comment is the
//     raw one up to white space (CR counts as white space).
//   - NUL, BOM, invalid UTF-8: not Go source; go/format refuses the file (so does the model's
//     prediction, compared byte for byte).  Decided on the NoFormat output alone, with the
//     scanner's complaints about exactly these bytes ignored.
//   - a Commentf result that contains `*/` or starts with a comment marker: outside the
//     property; the oracle is silent, the bytes are compared with the model's.

func nocr(s string) string { return strings.ReplaceAll(s, "\r", "") }

// c15InWideDomain: the property's own restriction only (no comment marker at the start, no
// block-comment closer).
func c15InWideDomain(t string) bool {
	return !strings.HasPrefix(t, "//") && !strings.HasPrefix(t, "/*") && !strings.Contains(t, "*/")
}

// c15Unrep: the text cannot occur in Go source at all.
func c15Unrep(t string) bool {
	return !utf8.ValidString(t) || strings.ContainsAny(t, "\x00\ufeff")
}

func c15IsRaw(t string) bool { return strings.HasPrefix(t, "//") || strings.HasPrefix(t, "/*") }

func (sp *c15Spec) texts() []string {
	var out []string
	out = append(out, sp.Headers...)
	out = append(out, sp.Pkg...)
	out = append(out, sp.Cgo...)
	for _, p := range sp.Places {
		out = append(out, p.Text)
	}
	return out
}

func (sp *c15Spec) hasUnrep() bool {
	for _, t := range sp.texts() {
		if c15Unrep(t) {
			return true
		}
	}
	return false
}

func c15DropUnrepErrs(errs []string) []string {
	var out []string
	for _, e := range errs {
		if strings.Contains(e, "illegal character NUL") || strings.Contains(e, "illegal byte order mark") || strings.Contains(e, "illegal UTF-8 encoding") {
			continue
		}
		out = append(out, e)
	}
	return out
}

// c15LitEq: the comment token tok of src is the comment exp.  go/scanner removes carriage
// returns from the literal it hands out; for an expected comment with a CR the literal is
// compared without them and the bytes of src at the token are compared with exp itself.
func c15LitEq(src string, tok c15Tok, exp string) bool {
	if !strings.Contains(exp, "\r") {
		return tok.lit == exp
	}
	return nocr(tok.lit) == nocr(exp) && tok.off >= 0 && tok.off <= len(src) && strings.HasPrefix(src[tok.off:], exp)
}

func c15CRef() *term.Stmt {
	return term.S(term.Named("Var"), term.Id("_"), term.Op("="), term.Qual("C", c19Ref))
}

// c15CgoDoc: the preamble blocks are the doc comment of the one declaration `import "C"`,
// ending on the line above it; exact: one comment per block with exactly its text (the
// NoFormat output; for the formatted output the comment groups were compared one by one).
func c15CgoDoc(sp *c15Spec, fset *token.FileSet, f *ast.File, src string, exact bool) string {
	name := fset.Position(f.Package).Filename
	var cDecl *ast.GenDecl
	n := 0
	for _, d := range f.Decls {
		gd, ok := d.(*ast.GenDecl)
		if !ok || gd.Tok != token.IMPORT {
			continue
		}
		for _, s := range gd.Specs {
			if s.(*ast.ImportSpec).Path.Value == `"C"` {
				n++
				cDecl = gd
			}
		}
	}
	if n != 1 {
		return fmt.Sprintf("%s: \"C\" is imported %d times", name, n)
	}
	if len(cDecl.Specs) != 1 {
		return name + ": import \"C\" shares its declaration with other imports"
	}
	doc := cDecl.Doc
	if doc == nil {
		return name + ": the cgo preamble is not the doc comment of import \"C\""
	}
	if fset.Position(doc.End()).Line+1 != fset.Position(cDecl.Pos()).Line {
		return name + ": the cgo preamble does not end on the line above import \"C\""
	}
	if !exact {
		return ""
	}
	if len(doc.List) != len(sp.Cgo) {
		return fmt.Sprintf("%s: the doc comment of import \"C\" has %d comments, %d preamble blocks were given", name, len(doc.List), len(sp.Cgo))
	}
	for i, c := range doc.List {
		exp := c15CommentLit(c15Want{Text: sp.Cgo[i], Raw: c15IsRaw(sp.Cgo[i])})
		if !c15LitEq(src, c15Tok{lit: c.Text, off: fset.Position(c.Pos()).Offset}, exp) {
			return fmt.Sprintf("%s: preamble comment %d is %q, want %q", name, i, c.Text, exp)
		}
	}
	return ""
}

// ---- tags ----

func c15CtlTags(t string) []string {
	var tags []string
	if strings.Contains(t, "\r") {
		if !strings.Contains(t, "\n") {
			tags = append(tags, "text=cr-without-lf")
		} else {
			tags = append(tags, "text=cr-and-lf")
		}
		if strings.Contains(t, "\r\n") {
			tags = append(tags, "text=crlf")
		}
		if strings.HasPrefix(t, "\r") {
			tags = append(tags, "text=cr-at-start")
		}
		if strings.HasSuffix(t, "\r") {
			tags = append(tags, "text=cr-at-end")
		}
		if strings.Contains(t, "*\r/") || strings.Contains(t, "/\r/") || strings.Contains(t, "/\r*") {
			tags = append(tags, "text=cr-inside-a-comment-marker")
		}
	}
	if strings.Contains(t, "\x00") {
		tags = append(tags, "text=nul")
	}
	if strings.Contains(t, "\ufeff") {
		tags = append(tags, "text=bom")
	}
	if !utf8.ValidString(t) {
		tags = append(tags, "text=invalid-utf8")
	}
	if strings.ContainsAny(t, "\v\f") {
		tags = append(tags, "text=vt-or-ff")
	}
	if strings.ContainsAny(t, "\u2028\u2029\u0085") {
		tags = append(tags, "text=unicode-line-break")
	}
	if strings.ContainsAny(t, "\x1b\x08\x1a\x7f\x01") {
		tags = append(tags, "text=other-control")
	}
	return tags
}

func c15CgoForm(t string) string {
	switch {
	case strings.HasPrefix(t, "//"):
		return "raw-line"
	case strings.HasPrefix(t, "/*") && strings.Contains(t, "\n"):
		return "raw-block-multi-line"
	case strings.HasPrefix(t, "/*"):
		return "raw-block"
	case strings.Contains(t, "\n"):
		return "plain-multi-line"
	}
	return "plain-one-line"
}

func c15WideTags(sp *c15Spec, tagset map[string]bool) {
	for _, t := range sp.texts() {
		for _, tg := range c15CtlTags(t) {
			tagset[tg] = true
		}
	}
	if sp.OutOfDomain {
		tagset["text=outside-the-domain(compared-with-the-model-only)"] = true
	}
	for _, p := range sp.Places {
		if p.Cm == nil || p.Cm.Fmt == nil {
			continue
		}
		f := p.Cm.Fmt
		tagset[fmt.Sprintf("commentf=operands:%d", len(f.Args))] = true
		via := f.Via
		if via == "" {
			via = "method"
		}
		if p.Nest {
			via = "Add(" + via + ")"
		}
		tagset["commentf=via:"+via] = true
		if strings.Contains(f.Format, "%%") {
			tagset["commentf=percent-percent"] = true
		}
		if len(f.Args) == 0 && strings.Contains(f.Format, "%") {
			tagset["commentf=no-operands+percent-in-format"] = true
		}
		for sub, tg := range map[string]string{"(MISSING)": "missing-operand", "%!(EXTRA": "extra-operand", "(BADWIDTH)": "bad-width", "(BADPREC)": "bad-precision",
			"(BADINDEX)": "bad-index", "%!(NOVERB)": "no-verb", "(PANIC=": "operand-panics"} {
			if strings.Contains(p.Text, sub) {
				tagset["commentf="+tg] = true
			}
		}
		if strings.Contains(f.Format, "*") && strings.Contains(f.Format, "%") {
			tagset["commentf=star-in-format"] = true
		}
		for _, a := range f.Args {
			s := fmt.Sprint(a)
			if strings.Contains(s, "\n") {
				tagset["commentf=operand-with-newline"] = true
			}
			if strings.Contains(s, "*/") {
				tagset["commentf=operand-with-closer"] = true
			}
			if strings.Contains(s, "%") {
				tagset["commentf=operand-with-percent"] = true
			}
		}
	}
	if len(sp.Cgo) > 0 {
		tagset[fmt.Sprintf("cgo-blocks=%d", len(sp.Cgo))] = true
		forms := map[string]bool{}
		raw, plain := false, false
		for _, t := range sp.Cgo {
			forms[c15CgoForm(t)] = true
			tagset["cgo-form="+c15CgoForm(t)] = true
			if c15IsRaw(t) {
				raw = true
			} else {
				plain = true
			}
		}
		if raw && plain {
			tagset["cgo=raw-and-plain-blocks"] = true
		}
		if len(forms) > 1 {
			tagset["cgo=mixed-forms"] = true
		}
	}
}

// ---- ctl: texts with control characters ----

var c15CtlPool = []string{
	"a\rb", "a\r", "\ra", "\r", "\r\r", "one two\rthree", "a\r\nb", "a\n\rb", "a\r\n", "\r\na", "\n\r", "a\rb\nc", "a\nb\rc", "a\nb\r", "\ra\nb",
	"*\r/", "a *\r/ b\nc", "/\r/ x", "/\r* x", "a*\r", "x\ny*\r", "}\r{", "\"\r", "`\r\n`", "x := 1\r\ty := 2",
	"a\x00b", "\x00", "a\x00\nb", "a\ufeffb", "\ufeff", "a\xffb", "\xc0\xaf", "a\xed\xa0\x80\nb",
	"a\vb\rc", "a\fb\rc", "\v\ra", "a\u2028b\rc", "a\u2029b", "\u0085\r", "a\x1bb", "a\x08b", "a\x1ab", "\x7f\r",
}

var c15CtlFrag = []string{
	"\r", "\r", "\r", "\r\n", "\n\r", "\r\r", "\v", "\f", "\x00", "\u2028", "\u2029", "\u0085", "\x1b", "\x08", "\x1a", "\x7f", "\ufeff", "\xff", "\xc0\xaf",
	"*\r/", "/\r/", "/\r*", "*\r", "\r/", "\r*",
}

// c15CtlText draws a text of the wide domain with at least one control character / line-break-
// like byte, at a random position (start, middle, end), among ordinary fragments.
func c15CtlText(r *rand.Rand, noFF bool) string {
	for {
		var t string
		if r.Intn(3) == 0 {
			t = pick(r, c15CtlPool)
		} else {
			n := 1 + r.Intn(5)
			at := r.Intn(n)
			var sb strings.Builder
			for i := 0; i < n; i++ {
				if i == at || r.Intn(4) == 0 {
					sb.WriteString(pick(r, c15CtlFrag))
				} else {
					sb.WriteString(pick(r, c15Frag))
				}
			}
			t = sb.String()
		}
		if noFF && strings.Contains(t, "\f") {
			continue
		}
		// the recorded findings (blank text, +build line) apply to what gofmt reads: the CR-less text
		if c15InWideDomain(t) && c15InWideDomain(nocr(t)) && !c15GofmtMoves(t) && !c15GofmtMoves(nocr(t)) {
			return t
		}
	}
}

// ---- commentf: formats and operands ----

type c15Stringer string

func (s c15Stringer) String() string { return "S<" + string(s) + ">" }

type c15Panicker struct{}

func (c15Panicker) String() string { panic("no text") }

type c15Pair struct {
	A int
	B string
}

var c15Formats = []string{
	"plain text", "", "100%%", "%%", "%", "%d", "%d items", "%s", "%v", "%+v", "%#v", "%q", "%x", "% x", "%T", "%c", "%U", "%t",
	"%5d|%-5s|", "%05d", "%.2f", "%8.3f", "%e", "%*d", "%-*d", "%.*f", "%*/", "%*", "%.*", "%!", "%z", "%!d", "trailing %", "%% %s %%", "%d%%", "%%d",
	"%[2]s %[1]s", "%[1]d %[1]d", "%[3]d", "%[0]d", "%[x]d", "%s\n%s", "a\n%v\nb", "%v\n", "\n%v", "line one\nline two", "width %*/ here\nnext",
	"half %% done\nrest", "{%v}", "} %s {", "\"%s", "`%s`", "'%c'", "* %s", "%s *", "/ %s", "%s /", "x := %d // %s", "case %d:\n\treturn %q",
	"%s%s", "%s%s%s", "%v %v %v", "%d %s", "%s*%s", "%s/%s",
}

var c15FormatFrag = []string{
	"%", "%%", "%d", "%s", "%v", "%q", "%*", "%*/", "%*d", "%.*f", "%[1]", "%[2]v", "%!", "%z", " ", "a", "b", "\n", "*", "/", "{", "}", "x := ", "%-8s|", "%+v", "%#v", "%T", "%x", "%c", "%U", "%08b", "%e", "%5", "%.", "%-",
}

func c15Operand(r *rand.Rand) interface{} {
	switch r.Intn(30) {
	case 0:
		return 0
	case 1:
		return -1
	case 2:
		return 42
	case 3:
		return 3.5
	case 4:
		return "str"
	case 5:
		return ""
	case 6:
		return "multi\nline"
	case 7:
		return "*/"
	case 8:
		return "a */ b"
	case 9:
		return "%d"
	case 10:
		return "100%"
	case 11:
		return "%%"
	case 12:
		return true
	case 13:
		return nil
	case 14:
		return []int{1, 2}
	case 15:
		return []string{"a\nb", "c"}
	case 16:
		return map[string]int{"b": 2, "a": 1}
	case 17:
		return c15Pair{1, "x\ny"}
	case 18:
		return errors.New("boom\nbang")
	case 19:
		return 'x'
	case 20:
		return byte(7)
	case 21:
		return []byte("hi")
	case 22:
		return c15Stringer("t\nu")
	case 23:
		return c15Panicker{}
	case 24:
		return "\u4e16\u754c"
	case 25:
		return pick(r, []string{"}", "{", "\"", "`", "'", "\\", "*", "/", "// x", "/* y", "\n", "a\n"})
	case 26:
		return uint8(200)
	case 27:
		return 1e100
	case 28:
		return &c15Pair{2, "p"} // prints as &{2 p}: no address
	default:
		return pick(r, c15Pool)
	}
}

func c15Format(r *rand.Rand) string {
	if r.Intn(5) < 3 {
		return pick(r, c15Formats)
	}
	n := 1 + r.Intn(5)
	var sb strings.Builder
	for i := 0; i < n; i++ {
		sb.WriteString(pick(r, c15FormatFrag))
	}
	return sb.String()
}

// c15CommentfPlace draws one Commentf call for a site.  ok = false: the resulting text is one
// of the recorded gofmt findings (blank, +build), draw again.  outside: the text is outside the
// property's domain.
func c15CommentfPlace(r *rand.Rand, site int, own bool) (p c15Place, outside, ok bool) {
	format := c15Format(r)
	var args []interface{}
	switch k := r.Intn(10); {
	case k < 4: // no operands
	case k < 7:
		args = []interface{}{c15Operand(r)}
	case k < 9:
		args = []interface{}{c15Operand(r), c15Operand(r)}
	default:
		args = []interface{}{c15Operand(r), c15Operand(r), c15Operand(r)}
	}
	via := pick(r, []string{"", "func", "group"})
	nest := false
	if !own {
		// at the end of an item: the item's own method, or Add(<statement made by the other two>)
		if via != "" && r.Intn(2) == 0 {
			nest = true
		} else {
			via = ""
		}
	}
	cm := term.Commentf(via, format, args...)
	p = c15Place{Site: site, Text: cm.Text, F: true, Cm: &cm, Nest: nest}
	if c15GofmtMoves(cm.Text) || c15GofmtMoves(nocr(cm.Text)) {
		return p, false, false
	}
	outside = !c15InWideDomain(cm.Text) || !c15InWideDomain(nocr(cm.Text))
	return p, outside, true
}

// ---- cgo: preamble blocks of mixed form ----

var c15CText = []string{"#include <stdio.h>", "#cgo LDFLAGS: -lm", "int f(void);", "static int g() { return 1; }", "#define X \"s\"", "typedef struct { int a; } t;", "#include \"x.h\""}

func c15OneLine(r *rand.Rand) string {
	if r.Intn(2) == 0 {
		return pick(r, c15CText)
	}
	for {
		if t := c15Text(r); !strings.Contains(t, "\n") {
			return t
		}
	}
}

func c15MultiLine(r *rand.Rand) string {
	if r.Intn(2) == 0 {
		n := 2 + r.Intn(3)
		var ls []string
		for i := 0; i < n; i++ {
			ls = append(ls, pick(r, c15CText))
		}
		t := strings.Join(ls, "\n")
		if r.Intn(3) == 0 {
			t += "\n"
		}
		return t
	}
	for {
		if t := c15Text(r); strings.Contains(t, "\n") {
			return t
		}
	}
}

const c15CgoForms = 5

// c15CgoBlock draws a block of the given form.  Raw forms are single comments without a
// trailing newline (DESIGN.md, domain decisions), with a space after the opening marker (no
// directive is formed).
//
// A form feed is kept out of the blocks.  FINDING (unchanged tree, go1.23 gofmt; reported, same
// family as gofmt-formfeed-header-becomes-doc): a preamble block that is written as a block
// comment (a multi-line text, or the raw form `/* .. */`) and contains a form feed is joined by
// gofmt with the declaration - `/* a\fb */import "C"` on one line - so the preamble is no longer
// the doc comment of import "C" (go/parser: GenDecl.Doc == nil) and cgo ignores it.  Exemplar:
// f.CgoPreamble("#include <a.h>\f\nint f(void);"); f.Var().Id("_").Op("=").Qual("C", "f").
func c15CgoBlock(r *rand.Rand, form int) string {
	for {
		if b := c15CgoBlock1(r, form); !strings.Contains(b, "\f") {
			return b
		}
	}
}

func c15CgoBlock1(r *rand.Rand, form int) string {
	switch form {
	case 0:
		return c15OneLine(r)
	case 1:
		return c15MultiLine(r)
	case 2:
		return "// " + c15OneLine(r)
	case 3:
		return "/* " + c15OneLine(r) + " */"
	}
	return "/*\n" + strings.TrimSuffix(c15MultiLine(r), "\n") + "\n*/"
}

func c15CgoTemplates() []int {
	var out []int
	for i, tm := range c15Templates {
		if tm.name != "interface" { // it refers to io: "C" would share the import block of the file without preamble
			out = append(out, i)
		}
	}
	return out
}

// ---- the streams ----

func c15WideStreams(r *rand.Rand, t string) []*Case {
	var out []*Case
	nsites := make([]int, len(c15Templates))
	for ti := range c15Templates {
		probe := c15Templates[ti].build()
		nsites[ti] = len(c15Sites(&probe))
	}
	siteOf := func(ti, s int) c15Site {
		probe := c15Templates[ti].build()
		return c15Sites(&probe)[s]
	}

	// ctl (a): every site of every template, the pool rotating, then drawn texts
	k := tier(t, 3, 10)
	pi := r.Intn(len(c15CtlPool))
	for ti := range c15Templates {
		for s := 0; s < nsites[ti]; s++ {
			for j := 0; j < k; j++ {
				text := ""
				if j == 0 {
					text = c15CtlPool[pi%len(c15CtlPool)]
					pi++
					if c15GofmtMoves(text) || c15GofmtMoves(nocr(text)) {
						text = ""
					}
				}
				if text == "" {
					text = c15CtlText(r, false)
				}
				out = append(out, c15Case(&c15Spec{Tmpl: ti, Places: []c15Place{{Site: s, Text: text, F: r.Intn(6) == 0}}}, "ctl"))
			}
		}
	}
	// ctl (b): several comments, control texts among ordinary ones; header and package comments
	for i, n := 0, tier(t, 700, 12000); i < n; i++ {
		ti := r.Intn(len(c15Templates))
		sp := &c15Spec{Tmpl: ti}
		text := func(noFF bool) string {
			if r.Intn(3) == 0 {
				for {
					if x := c15Text(r); !noFF || !strings.Contains(x, "\f") {
						return x
					}
				}
			}
			return c15CtlText(r, noFF)
		}
		probe := c15Templates[ti].build()
		sites := c15Sites(&probe)
		chosen := map[int]bool{}
		for _, s := range sortedSample(r, nsites[ti], 1+r.Intn(4)) {
			clash := false
			for _, o := range sites[s].conflicts { // one comment per line
				clash = clash || chosen[o]
			}
			if clash {
				continue
			}
			chosen[s] = true
			sp.Places = append(sp.Places, c15Place{Site: s, Text: text(false), F: r.Intn(6) == 0})
		}
		if r.Intn(3) == 0 {
			for j := r.Intn(3); j > 0; j-- {
				sp.Headers = append(sp.Headers, text(true)) // form feed in a header: recorded finding
			}
			for j := r.Intn(3); j > 0; j-- {
				sp.Pkg = append(sp.Pkg, text(false))
			}
		}
		out = append(out, c15Case(sp, "ctl"))
	}

	// commentf
	for i, n := 0, tier(t, 1500, 25000); i < n; i++ {
		ti := r.Intn(len(c15Templates))
		sp := &c15Spec{Tmpl: ti}
		probe := c15Templates[ti].build()
		sites := c15Sites(&probe)
		chosen := map[int]bool{}
		for _, s := range sortedSample(r, nsites[ti], 1+r.Intn(3)) {
			clash := false
			for _, o := range sites[s].conflicts {
				clash = clash || chosen[o]
			}
			if clash {
				continue
			}
			var p c15Place
			var outside, ok bool
			for !ok {
				p, outside, ok = c15CommentfPlace(r, s, siteOf(ti, s).own)
			}
			chosen[s] = true
			sp.OutOfDomain = sp.OutOfDomain || outside
			sp.Places = append(sp.Places, p)
		}
		out = append(out, c15Case(sp, "commentf"))
	}

	// cgo: every order of forms up to a length, then drawn longer sequences
	tmpls := c15CgoTemplates()
	var seqs [][]int
	var rec func(prefix []int, n int)
	rec = func(prefix []int, n int) {
		if n == 0 {
			seqs = append(seqs, append([]int{}, prefix...))
			return
		}
		for f := 0; f < c15CgoForms; f++ {
			rec(append(prefix, f), n-1)
		}
	}
	for n := 1; n <= tier(t, 3, 4); n++ {
		rec(nil, n)
	}
	for i, n := 0, tier(t, 250, 4000); i < n; i++ {
		l := tier(t, 4, 5) + r.Intn(tier(t, 2, 1))
		var s []int
		for j := 0; j < l; j++ {
			s = append(s, r.Intn(c15CgoForms))
		}
		seqs = append(seqs, s)
	}
	for _, seq := range seqs {
		sp := &c15Spec{Tmpl: tmpls[r.Intn(len(tmpls))]}
		for _, f := range seq {
			sp.Cgo = append(sp.Cgo, c15CgoBlock(r, f))
		}
		if r.Intn(4) == 0 {
			h := c15OneLine(r)
			for strings.Contains(h, "\f") { // form feed in a header: recorded finding
				h = c15OneLine(r)
			}
			sp.Headers = []string{h}
		}
		if r.Intn(4) == 0 {
			sp.Pkg = []string{c15OneLine(r)}
		}
		if r.Intn(4) == 0 {
			sp.Canonical = "example.com/p"
		}
		if r.Intn(3) == 0 { // a comment as first item of the body: right after the import
			sp.Places = []c15Place{{Site: 0, Text: c15Text(r)}}
		}
		out = append(out, c15Case(sp, "cgo"))
	}
	return out
}

// sortedSample: n distinct numbers below max (or all of them), ascending.
func sortedSample(r *rand.Rand, max, n int) []int {
	if n > max {
		n = max
	}
	perm := r.Perm(max)[:n]
	for i := range perm { // insertion sort: n is small
		for j := i; j > 0 && perm[j] < perm[j-1]; j-- {
			perm[j], perm[j-1] = perm[j-1], perm[j]
		}
	}
	return perm
}
