package props

import (
	"bytes"
	"encoding/hex"
	"math/rand"
	"os"
	"os/exec"
	"path/filepath"
	"strings"
	"sync"
	"sync/atomic"
	"testing"
	"time"

	"github.com/dave/jennifer/jen"

	"verifharness/hist"
	"verifharness/term"
)

func c09w(s string) hist.Obs { return hist.Obs{Kind: "write", Out: s, Writes: 1} }

// The decision proper: hand-made observations that differ between orders are rejected,
// identical ones accepted.
func TestC09AgreeHandMade(t *testing.T) {
	files := []int{0, 1, 2}
	base := map[int][]hist.Obs{
		0: {c09w("package a\n\nimport rand \"a.b/rand\"\n\nvar _ = rand.V\n")},
		1: {c09w("package b\n\nimport rand \"x.y/rand\"\n\nvar _ = rand.V\n")},
		2: {c09w("package c\n"), {Kind: "imports"}},
	}
	same := func() map[int][]hist.Obs {
		m := map[int][]hist.Obs{}
		for k, v := range base {
			m[k] = append([]hist.Obs{}, v...)
		}
		return m
	}
	if d := C09Agree(files, base, []C09Run{{"reverse order", same()}, {"goroutines", same()}}); d != "" {
		t.Fatalf("identical runs rejected: %s", d)
	}
	// the alias counter leaked: run in reverse order, file 1 comes first and file 0 gets rand1
	bad := same()
	bad[0] = []hist.Obs{c09w("package a\n\nimport rand1 \"a.b/rand\"\n\nvar _ = rand1.V\n")}
	d := C09Agree(files, base, []C09Run{{"every job alone", same()}, {"reverse order", bad}})
	if !strings.Contains(d, "file 0") || !strings.Contains(d, "reverse order") || !strings.Contains(d, "rand1") {
		t.Fatalf("differing order not rejected properly: %q", d)
	}
	// an observation more, an observation of another kind, a different import table, a
	// different number of Write calls, a missing job
	for name, mut := range map[string]func(m map[int][]hist.Obs){
		"extra": func(m map[int][]hist.Obs) { m[1] = append(m[1], c09w("x")) },
		"kind":  func(m map[int][]hist.Obs) { m[1][0] = hist.Obs{Kind: "fmterr", Out: m[1][0].Out} },
		"imports": func(m map[int][]hist.Obs) {
			m[2][1] = hist.Obs{Kind: "imports", Imports: []hist.Import{{Path: "a.b/rand", Name: "rand", Alias: true}}}
		},
		"writes":  func(m map[int][]hist.Obs) { m[2][0].Writes = 2 },
		"missing": func(m map[int][]hist.Obs) { delete(m, 2) },
	} {
		m := same()
		mut(m)
		if d := C09Agree(files, base, []C09Run{{"goroutines", m}}); d == "" {
			t.Errorf("%s: differing run accepted", name)
		}
	}
}

func c09TestSets(t *testing.T) []*Case {
	sets := C09JobSets(3, "quick")
	if len(sets) < 6 {
		t.Fatal("no job sets")
	}
	return sets[:6]
}

// On the real implementation the oracle accepts; after tampering with one job's bytes in
// the observations it is given, it rejects.
func TestC09OracleRealAndTampered(t *testing.T) {
	p := c09{}
	for _, c := range c09TestSets(t) {
		got := hist.NewWorld().Exec(c.Hist)
		if d := p.Oracle(c, got); d != "" {
			t.Fatalf("oracle rejects the unchanged implementation: %s", d)
		}
		if d := p.Compare(c, got, got); d != "" {
			t.Fatalf("compare rejects identical observations: %s", d)
		}
		// tamper: as if the third job had seen the second job's imports
		bad := append([]hist.Obs{}, got...)
		per, _ := c09Split(c.Hist, got)
		idx := len(per[0]) + len(per[1])
		bad[idx].Out += "// leaked\n"
		d := p.Oracle(c, bad)
		if !strings.Contains(d, "file 2 differs") {
			t.Fatalf("tampered observations accepted: %q", d)
		}
		if d := p.Compare(c, got, bad); !strings.Contains(d, "file 2") {
			t.Fatalf("compare accepts tampered observations: %q", d)
		}
		if d := p.Oracle(c, got[:len(got)-1]); d == "" {
			t.Fatal("truncated observations accepted")
		}
	}
	r := rand.New(rand.NewSource(4))
	for i := 0; i < 40; i++ {
		c := c09SharedCase(r, "quick")
		got := hist.NewWorld().Exec(c.Hist)
		if d := p.Oracle(c, got); d != "" {
			t.Fatalf("shared: oracle rejects the unchanged implementation: %s\n%s", d, c.Hist.Sexp())
		}
		bad := append([]hist.Obs{}, got...)
		bad[0].Out += " "
		if d := p.Oracle(c, bad); !strings.Contains(d, "built alone") {
			t.Fatalf("shared: tampered observations accepted: %q", d)
		}
	}
}

// Implementations with hidden global state, substituted for the real one: each kind of
// leak is caught, and by the kind of run that is meant to catch it.
func TestC09OracleCatchesLeaks(t *testing.T) {
	defer func(old func(hist.History) []hist.Obs) { c09Exec = old }(c09Exec)
	real := c09Exec
	sets := c09TestSets(t)
	p := c09{}
	suffix := func(obs []hist.Obs, i int, s string) {
		if obs[i].Kind == "write" || obs[i].Kind == "fmterr" {
			obs[i].Out += s
		}
	}

	// (1) a package-level counter (alias counter): every render shows how many renders
	// happened before it in the process
	var counter int64
	c09Exec = func(h hist.History) []hist.Obs {
		obs := real(h)
		for i := range obs {
			suffix(obs, i, "// n="+string(rune('0'+atomic.AddInt64(&counter, 1)%10))+"\n")
		}
		return obs
	}
	for _, c := range sets {
		if d := p.Oracle(c, c09Exec(c.Hist)); d == "" {
			t.Fatal("global counter not detected")
		}
	}

	// (2) a package-level "current file" set by the constructors: a render goes wrong only
	// when another File was created since this one, which never happens when whole jobs
	// follow one another in whatever order - only the interleaved runs can see it
	c09Exec = func(h hist.History) []hist.Obs {
		obs := real(h)
		last, k := -1, 0
		for _, op := range h {
			if strings.HasPrefix(op.Kind, "newfile") {
				last = op.F
			}
			if c09Observes(op.Kind) {
				if op.F != last {
					suffix(obs, k, "// other file current\n")
				}
				k++
			}
		}
		return obs
	}
	for _, c := range sets {
		d := p.Oracle(c, c09Exec(c.Hist))
		if !strings.Contains(d, "interleaving") {
			t.Fatalf("interleaving-only leak: want a failure in an interleaved run, got %q", d)
		}
	}

	// (3) a package-level scratch variable written at the start of a build and read back at
	// its end: wrong only when two builds overlap in time - only the goroutine runs see it
	var scratch atomic.Value
	var mu sync.Mutex
	id := 0
	c09Exec = func(h hist.History) []hist.Obs {
		mu.Lock()
		id++
		me := id
		mu.Unlock()
		scratch.Store(me)
		obs := real(h)
		time.Sleep(2 * time.Millisecond)
		if scratch.Load().(int) != me && len(obs) > 0 {
			suffix(obs, 0, "// clobbered\n")
		}
		return obs
	}
	for _, c := range sets[:3] {
		d := p.Oracle(c, c09Exec(c.Hist))
		if !strings.Contains(d, "goroutines") {
			t.Fatalf("concurrency-only leak: want a failure in a goroutine run, got %q", d)
		}
		if C09ConcurrentCheck(c.Hist, 2) == "" {
			t.Fatal("concurrency-only leak not detected by the check racejob uses")
		}
	}

	// (4) sharing clause: a cache of rendered text keyed by the statement without the File:
	// every File shows the first File's text
	c09Exec = func(h hist.History) []hist.Obs {
		obs := real(h)
		first := -1
		for i := range obs {
			if obs[i].Kind == "write" {
				if first < 0 {
					first = i
				} else {
					obs[i].Out = obs[first].Out
				}
			}
		}
		return obs
	}
	r := rand.New(rand.NewSource(5))
	caught := 0
	for i := 0; i < 40; i++ {
		c := c09SharedCase(r, "quick")
		leaky := c09Exec(c.Hist)
		d := p.Oracle(c, leaky)
		// the simulated defect is visible only when at least two renders succeed and show
		// different texts (a File whose renders are all format errors has nothing cached):
		// whenever it changes anything at all, the oracle must notice
		visible := c09SameJob(real(c.Hist), leaky) != ""
		if d != "" {
			caught++
			if !visible {
				t.Fatalf("shared: oracle fails although the simulated defect changed nothing: %s", d)
			}
		} else if visible {
			t.Fatalf("shared: File-less cache not detected although it changed an output\n%s", c.Hist.Sexp())
		}
	}
	if caught < 30 {
		t.Fatalf("shared: File-less cache detected in only %d of 40 cases", caught)
	}
}

// The race case's oracle on hand-made results of the race-detector run.
func TestC09RaceOracleHandMade(t *testing.T) {
	report := "digest abc\n==================\nWARNING: DATA RACE\nWrite at 0x00c000123456 by goroutine 9:\n  github.com/dave/jennifer/jen.(*File).register()\n      /repo/jen/file.go:219 +0x123\n\nPrevious write at 0x00c000123456 by goroutine 8:\n  github.com/dave/jennifer/jen.(*File).register()\n==================\n"
	control := "==================\nWARNING: DATA RACE\nRead at ...\n"
	mk := func(res *C09RaceResult) *Case {
		return &Case{Stream: "race", Meta: map[string]interface{}{"race": res}}
	}
	good := &C09RaceResult{Built: true, ControlExit: 66, ControlOut: control, Exit: 0, Out: "digest abc\nok sets=40\n", WantDigest: "abc"}
	if d := (c09{}).Oracle(mk(good), nil); d != "" {
		t.Fatalf("clean race run rejected: %s", d)
	}
	raced := *good
	raced.Exit, raced.Out = 66, report
	d := (c09{}).Oracle(mk(&raced), nil)
	if !strings.Contains(d, "data race") || !strings.Contains(d, "jen.(*File).register") || strings.Contains(d, "digest abc") {
		t.Fatalf("race report not turned into a failure quoting the report: %q", d)
	}
	silent := *good
	silent.ControlExit, silent.ControlOut = 0, "control finished without a report"
	if d := (c09{}).Oracle(mk(&silent), nil); !strings.Contains(d, "positive control") {
		t.Fatalf("silent control accepted: %q", d)
	}
	differ := *good
	differ.Exit, differ.Out = 3, "digest abc\njob set 3: file 2 differs ...\n"
	if d := (c09{}).Oracle(mk(&differ), nil); !strings.Contains(d, "racejob failed (exit 3)") {
		t.Fatalf("differing outputs under the detector accepted: %q", d)
	}
	other := *good
	other.WantDigest = "def"
	if d := (c09{}).Oracle(mk(&other), nil); !strings.Contains(d, "did not run the job sets") {
		t.Fatalf("wrong job sets accepted: %q", d)
	}
	if d := (c09{}).Oracle(&Case{Stream: "race", Meta: map[string]interface{}{}}, nil); d == "" {
		t.Fatal("missing result accepted")
	}
}

// End to end: build racejob with -race, control fires, the job sets are clean.
func TestC09RaceBinary(t *testing.T) {
	if testing.Short() {
		t.Skip("builds a -race binary")
	}
	if _, err := exec.LookPath("gcc"); err != nil {
		t.Skip("no gcc: -race needs cgo")
	}
	sets := C09JobSets(7, "quick")
	res := c09RaceRun(7, "quick", C09Digest(sets))
	if !res.Built {
		t.Fatalf("cannot build: %s", res.BuildErr)
	}
	t.Logf("build %.1fs run %.1fs, first use (build, control, %d processes) %.1fs", res.BuildS, res.RunS, len(res.First), res.FirstS)
	if res.FirstWanted != 5 || len(res.First) != 5 || res.FirstControlExit != c09RaceExit {
		t.Fatalf("first-use runs: wanted %d, ran %d, control exit %d, build error %q", res.FirstWanted, len(res.First), res.FirstControlExit, res.FirstBuildErr)
	}
	c := &Case{Stream: "race", Meta: map[string]interface{}{"race": res}}
	if d := (c09{}).Oracle(c, nil); d != "" {
		t.Fatalf("race oracle fails on the unchanged tree: %s", d)
	}
	res2 := *res
	res2.WantDigest = "0000"
	c.Meta["race"] = &res2
	if d := (c09{}).Oracle(c, nil); d == "" {
		t.Fatal("digest mismatch accepted")
	}
}

// The first-use branch of the race oracle (racefirst) on fabricated process results.
func TestC09FirstUseOracleHandMade(t *testing.T) {
	control := "==================\nWARNING: DATA RACE\nRead at 0x00c000296088 by goroutine 17:\n  main.lazyLookup()\n"
	okLine := "ok racefirst goroutines=16 procs=4 bytes=218258\n"
	mk := func(mod func(*C09RaceResult)) *Case {
		res := &C09RaceResult{Built: true, ControlExit: 66, ControlOut: control, Exit: 0, Out: "digest abc\nok sets=40\n", WantDigest: "abc",
			FirstWanted: 5, FirstControlExit: 66, FirstControlOut: control}
		for i := 0; i < 5; i++ {
			res.First = append(res.First, C09FirstRun{Procs: c09FirstProcs(i), Exit: 0, Out: okLine})
		}
		mod(res)
		return &Case{Stream: "race", Meta: map[string]interface{}{"race": res}}
	}
	if d := (c09{}).Oracle(mk(func(*C09RaceResult) {}), nil); d != "" {
		t.Fatalf("clean first-use runs rejected: %s", d)
	}
	report := "==================\nWARNING: DATA RACE\nWrite at 0x0000007b68c0 by goroutine 17:\n  github.com/dave/jennifer/jen.IsReservedWord()\n      /repo/jen/reserved.go:19 +0x4f8\n  github.com/dave/jennifer/jen.(*File).isValidAlias()\n\nPrevious read at 0x0000007b68c0 by goroutine 9:\n  github.com/dave/jennifer/jen.IsReservedWord()\n==================\n"
	d := (c09{}).Oracle(mk(func(r *C09RaceResult) { r.First[3] = C09FirstRun{Procs: 8, Exit: 66, Out: report} }), nil)
	if !strings.Contains(d, "data race") || !strings.Contains(d, "jen.IsReservedWord") || !strings.Contains(d, "process 4 of 5") || !strings.Contains(d, "GOMAXPROCS 8") {
		t.Fatalf("race on first use not turned into a failure quoting the report: %q", d)
	}
	if !strings.Contains(d, "Previous read at") || strings.Contains(d, "==========") {
		t.Fatalf("condensed report lost the second access or kept the frame: %q", d)
	}
	// a report with another exit code still counts
	d = (c09{}).Oracle(mk(func(r *C09RaceResult) { r.First[0].Out = report + okLine }), nil)
	if !strings.Contains(d, "data race") {
		t.Fatalf("race report with exit 0 accepted: %q", d)
	}
	crash := "fatal error: concurrent map writes\n\ngoroutine 21 [running]:\ngithub.com/dave/jennifer/jen.IsReservedWord(...)\n\t/repo/jen/reserved.go:21\n"
	d = (c09{}).Oracle(mk(func(r *C09RaceResult) { r.First[1] = C09FirstRun{Procs: 16, Exit: 2, Out: crash} }), nil)
	if !strings.Contains(d, "crashed (exit 2)") || !strings.Contains(d, "concurrent map writes") || !strings.Contains(d, "reserved.go:21") {
		t.Fatalf("runtime crash not reported: %q", d)
	}
	differ := "job 7: the output of the concurrent first use differs from the same build run afterwards on one goroutine\n first differing line 12:\n  concurrent: \"\\terr \\\"a.b/err\\\"\"\n  sequential: \"\\terr1 \\\"a.b/err\\\"\"\n"
	d = (c09{}).Oracle(mk(func(r *C09RaceResult) { r.First[4] = C09FirstRun{Procs: 3, Exit: 3, Out: differ} }), nil)
	if !strings.Contains(d, "outputs differ") || !strings.Contains(d, "err1") {
		t.Fatalf("differing outputs not reported: %q", d)
	}
	d = (c09{}).Oracle(mk(func(r *C09RaceResult) { r.First[2] = C09FirstRun{Procs: 4, Exit: -1, Out: "signal: killed"} }), nil)
	if !strings.Contains(d, "racefirst failed (exit -1)") {
		t.Fatalf("killed process accepted: %q", d)
	}
	d = (c09{}).Oracle(mk(func(r *C09RaceResult) { r.First[2].Out = "" }), nil)
	if !strings.Contains(d, "without its ok line") {
		t.Fatalf("silent process accepted: %q", d)
	}
	d = (c09{}).Oracle(mk(func(r *C09RaceResult) { r.First = r.First[:3] }), nil)
	if !strings.Contains(d, "only 3 of 5") {
		t.Fatalf("missing runs accepted: %q", d)
	}
	d = (c09{}).Oracle(mk(func(r *C09RaceResult) {
		r.FirstControlExit, r.FirstControlOut = 0, "control finished without a report\n"
	}), nil)
	if !strings.Contains(d, "first use, positive control") {
		t.Fatalf("silent first-use control accepted: %q", d)
	}
	d = (c09{}).Oracle(mk(func(r *C09RaceResult) {
		r.FirstBuildErr = "go build -race ./racefirst failed (exit 1): undefined: jen.Foo"
	}), nil)
	if !strings.Contains(d, "cannot be built") || !strings.Contains(d, "jen.Foo") {
		t.Fatalf("unbuildable racefirst accepted: %q", d)
	}
	// a race found by racejob itself is still reported first
	d = (c09{}).Oracle(mk(func(r *C09RaceResult) { r.Exit, r.Out = 66, "digest abc\n"+report }), nil)
	if !strings.Contains(d, "data race") || strings.Contains(d, "first use") {
		t.Fatalf("racejob's own report lost: %q", d)
	}
	for i := 0; i < 40; i++ {
		if p := c09FirstProcs(i); p < 2 || p > 16 {
			t.Fatalf("GOMAXPROCS %d for process %d", p, i)
		}
	}
}

// c09Aliasing simulates, at the level of histories, a File that KEEPS the caller's map as
// its hint table: every later ImportName / ImportAlias / ImportNames on such a File is then
// seen by every other File holding the same object.
func c09Aliasing(h hist.History) hist.History {
	owner := map[int]string{}
	holders := map[string][]int{}
	extras := map[string]hist.History{}
	var out hist.History
	for _, op := range h {
		out = append(out, op)
		switch op.Kind {
		case "importname", "importalias", "importnames":
			if _, holds := owner[op.F]; !holds && op.Kind == "importnames" && op.MapKey != "" {
				owner[op.F] = op.MapKey
				holders[op.MapKey] = append(holders[op.MapKey], op.F)
				for _, e := range extras[op.MapKey] { // what others wrote into the object before
					e.F, e.MapKey = op.F, ""
					out = append(out, e)
				}
			} else if k, ok := owner[op.F]; ok {
				extras[k] = append(extras[k], op)
				for _, g := range holders[k] {
					if g != op.F {
						e := op
						e.F, e.MapKey = g, ""
						out = append(out, e)
					}
				}
			}
		}
	}
	return out
}

// Stream shared-hint-map: accepted on the real implementation; a File that keeps the
// caller's map (writes of one File show in the others) and an ImportNames that writes to
// the caller's map are rejected; Files really receive ONE object.
func TestC09SharedHintMap(t *testing.T) {
	defer func(old func(hist.History) []hist.Obs) { c09Exec = old }(c09Exec)
	real := c09Exec
	p := c09{}
	r := rand.New(rand.NewSource(6))
	var cases []*Case
	nontrivial := 0
	for i := 0; i < 60; i++ {
		c := c09SharedMapCase(r, "quick")
		c09Measure(c)
		cases = append(cases, c)
		if c.NonTrivial {
			nontrivial++
		}
		// one object: the World's table holds exactly the keys "shared" and "second"
		w := hist.NewWorld()
		got := w.Exec(c.Hist)
		if w.Maps.Lookup("shared") == nil || w.Maps.Lookup("second") == nil {
			t.Fatal("the shared objects were not created")
		}
		if d := c09MapsIntact(c.Hist, w.Maps); d != "" {
			t.Fatalf("unchanged implementation modifies the caller's map: %s", d)
		}
		if d := p.Oracle(c, got); d != "" {
			t.Fatalf("oracle rejects the unchanged implementation: %s\n%s", d, c.Hist.Sexp())
		}
		if d := p.Compare(c, got, got); d != "" {
			t.Fatalf("compare rejects identical observations: %s", d)
		}
		if strings.Contains(c.Hist.Sexp(), "shared") {
			t.Fatal("the MapKey must not reach the model")
		}
	}
	if nontrivial < 45 {
		t.Fatalf("only %d of 60 cases are non-trivial", nontrivial)
	}

	// (1) the File keeps the caller's map: the extra hint of File A shows in File B
	c09Exec = func(h hist.History) []hist.Obs { return real(c09Aliasing(h)) }
	for _, c := range cases {
		leaky := c09Exec(c.Hist)
		d := p.Oracle(c, leaky)
		visible := c09SameJob(real(c.Hist), leaky) != ""
		if c.NonTrivial && !visible {
			t.Fatalf("a non-trivial case does not show the aliasing defect\n%s", c.Hist.Sexp())
		}
		if visible && !strings.Contains(d, "built alone") {
			t.Fatalf("aliasing defect not detected by the alone runs: %q\n%s", d, c.Hist.Sexp())
		}
		if !visible && d != "" {
			t.Fatalf("oracle fails although the simulated defect changed nothing: %s", d)
		}
	}

	// (2) the defect is invisible in the run the oracle is given (e.g. it only bites in
	// another order): still caught, by the shared-object runs
	c09Exec = func(h hist.History) []hist.Obs {
		if c09Maps == nil {
			return real(h)
		}
		return real(c09Aliasing(h))
	}
	caught := 0
	for _, c := range cases {
		if d := p.Oracle(c, real(c.Hist)); strings.Contains(d, "one map object for all Files") {
			caught++
		} else if c.NonTrivial {
			t.Fatalf("aliasing in the shared-object runs only: not detected (%q)", d)
		}
	}
	if caught < 45 {
		t.Fatalf("aliasing in the shared-object runs detected in only %d of 60 cases", caught)
	}

	// (3) ImportNames (or a later call) writes to the caller's map, outputs unaffected
	c09Exec = func(h hist.History) []hist.Obs {
		obs := real(h)
		if c09Maps != nil {
			if m := c09Maps.Lookup("shared"); m != nil {
				m["verif/written"] = "w"
			}
		}
		return obs
	}
	for _, c := range cases[:10] {
		if d := p.Oracle(c, real(c.Hist)); !strings.Contains(d, "caller's map \"shared\" was modified") {
			t.Fatalf("write to the caller's map not detected: %q", d)
		}
	}
	// ... or deletes an entry / changes a value
	c09Exec = func(h hist.History) []hist.Obs {
		obs := real(h)
		if c09Maps != nil {
			if m := c09Maps.Lookup("second"); m != nil {
				for k := range m {
					m[k] += "1"
				}
			}
		}
		return obs
	}
	for _, c := range cases[:10] {
		if d := p.Oracle(c, real(c.Hist)); !strings.Contains(d, "caller's map \"second\" was modified") {
			t.Fatalf("changed value in the caller's map not detected: %q", d)
		}
	}
	c09Exec = real

	// the generic shrinker keeps the sharing (MapKey travels with the operation)
	for _, cand := range p.Shrink(cases[0]) {
		n := 0
		for _, op := range cand.Hist {
			if op.MapKey == "shared" {
				n++
			}
		}
		if n < 2 {
			t.Fatalf("shrunk candidate lost the shared map: %s", cand.Hist.Sexp())
		}
		if d := p.Oracle(cand, hist.NewWorld().Exec(cand.Hist)); d != "" {
			t.Fatalf("oracle rejects a shrunk candidate on the unchanged implementation: %s", d)
		}
	}
}

// hist: operations with one MapKey hand ONE object to ImportNames, in one World and across
// Worlds that share a table; without a key every operation makes its own map.
func TestC09MapKeyObjectIdentity(t *testing.T) {
	h := hist.History{
		{Kind: "newfile", F: 0, A: "p"}, {Kind: "newfile", F: 1, A: "p"},
		{Kind: "importnames", F: 0, Pairs: [][2]string{{"a.b/c", "x"}}, MapKey: "k"},
		{Kind: "importnames", F: 1, Pairs: [][2]string{{"ignored/later", "y"}}, MapKey: "k"},
		{Kind: "fadd", F: 1, Code: term.S(term.Named("Var"), term.Id("_"), term.Op("="), term.Qual("a.b/c", "V"))},
		{Kind: "noformat", F: 1, Flag: true},
		{Kind: "render", F: 1},
	}
	if got, want := h.Sexp(), (hist.History{h[0], h[1], {Kind: "importnames", F: 0, Pairs: h[2].Pairs}, {Kind: "importnames", F: 1, Pairs: h[3].Pairs}, h[4], h[5], h[6]}).Sexp(); got != want {
		t.Fatalf("Sexp differs from the plain importnames:\n%s\n%s", got, want)
	}
	w := hist.NewWorld()
	obs := w.Exec(h)
	if len(obs) != 1 || !strings.Contains(obs[0].Out, `import "a.b/c"`) || !strings.Contains(obs[0].Out, "x.V") {
		t.Fatalf("File 1 did not receive the object made by the first operation: %v", obs)
	}
	m := w.Maps.Lookup("k")
	if len(m) != 1 || m["a.b/c"] != "x" {
		t.Fatalf("object: %v", m)
	}
	w2 := hist.NewWorld()
	w2.Maps = w.Maps
	m["a.b/c"] = "z" // the caller changes his map between two uses: visible through the same object
	obs = w2.Exec(h)
	if !strings.Contains(obs[0].Out, "z.V") {
		t.Fatalf("a World sharing the table did not use the same object: %v", obs)
	}
}

// Stream spellings: generation is reproducible, executes nothing, and the children's job lists
// are the stream's jobs in other orders.
func TestC09SpellSetsArePure(t *testing.T) {
	defer func(f func(hist.History) []hist.Obs) { c09Exec = f }(c09Exec)
	c09Exec = func(h hist.History) []hist.Obs {
		t.Fatal("the generator of the spellings stream executed a history")
		return nil
	}
	a, b := C09SpellSets(77, "quick"), C09SpellSets(77, "quick/fresh=2")
	if len(a) != 120 || len(b) != len(a) {
		t.Fatalf("%d and %d job sets", len(a), len(b))
	}
	njobs := 0
	variants := map[string]bool{}
	for i := range a {
		if a[i].Hist.Sexp() != b[i].Hist.Sexp() {
			t.Fatalf("set %d differs between two generations", i)
		}
		files, _ := C09Jobs(a[i].Hist)
		if len(files) < 2 || len(files) > 6 {
			t.Fatalf("set %d has %d files", i, len(files))
		}
		njobs += len(files)
		for _, tg := range a[i].Tags {
			if strings.HasPrefix(tg, "spelling=") {
				variants[tg] = true
			}
		}
	}
	if len(variants) != len(c09SpellVariants) {
		t.Errorf("only %d of %d spelling variants generated", len(variants), len(c09SpellVariants))
	}
	all := (c09{}).ChildCases("quick/fresh=1", 77)
	rev := (c09{}).ChildCases("quick/fresh=0", 77)
	half := (c09{}).ChildCases("quick/fresh=2", 77)
	if len(all) != njobs || len(rev) != njobs || len(half) != (njobs+1)/2 {
		t.Fatalf("children build %d, %d, %d of %d jobs", len(all), len(rev), len(half), njobs)
	}
	key := func(c *Case) string { return c.Meta["xkey"].(string) }
	if key(rev[0]) != c09SpellKey(119, len(mustFiles(a[119]))-1) || key(rev[njobs-1]) != "s0.0" {
		t.Errorf("child 0 does not build the jobs in reverse order: first %s, last %s", key(rev[0]), key(rev[njobs-1]))
	}
	seen := map[string]bool{}
	same := 0
	for i, c := range all {
		if seen[key(c)] || c.Meta["xtext"] != true {
			t.Fatalf("bad child case %s", key(c))
		}
		seen[key(c)] = true
		if key(c) == key(rev[njobs-1-i]) {
			same++
		}
	}
	if same > njobs/4 {
		t.Errorf("child 1 builds %d of %d jobs at the place of the generation order", same, njobs)
	}
}

func mustFiles(c *Case) []int { f, _ := C09Jobs(c.Hist); return f }

// The fresh-process decision on hand-made results, and the parsing of a child's output.
func TestC09FreshAgreeHandMade(t *testing.T) {
	mine := map[string]string{"s0.0": "write(a)\n", "s0.1": "write(import alpha \"x/alpha/\")\n"}
	keys := []string{"s0.0", "s0.1"}
	same := &C09FreshRun{K: 0, Order: []string{"s0.1", "s0.0"}, Jobs: map[string]C09FreshJob{"s0.0": {Text: "write(a)\n", Pos: 1}, "s0.1": {Text: mine["s0.1"], Pos: 0}}}
	halfRun := &C09FreshRun{K: 2, Order: []string{"s0.0"}, Jobs: map[string]C09FreshJob{"s0.0": {Text: "write(a)\n", Pos: 0}}}
	if d := C09FreshAgree(keys, mine, []*C09FreshRun{same, halfRun}); d != "" {
		t.Fatalf("agreeing fresh processes rejected: %s", d)
	}
	// the File was named after whatever the process had built first
	leak := &C09FreshRun{K: 1, Order: []string{"s3.2", "s0.1"}, Jobs: map[string]C09FreshJob{"s0.1": {Text: "write(import beta \"x/alpha/\")\n", Pos: 1}}}
	d := C09FreshAgree(keys, mine, []*C09FreshRun{same, leak})
	if !strings.Contains(d, "s0.1") || !strings.Contains(d, "fresh process #1") || !strings.Contains(d, "after s3.2") || !strings.Contains(d, "import beta") || !strings.Contains(d, "import alpha") {
		t.Fatalf("leak not reported with both outputs: %q", d)
	}
	first := &C09FreshRun{K: 0, Order: []string{"s0.0"}, Jobs: map[string]C09FreshJob{"s0.0": {Text: "write(b)\n", Pos: 0}}}
	if d := C09FreshAgree(keys, mine, []*C09FreshRun{first}); !strings.Contains(d, "FIRST File") {
		t.Fatalf("difference of a first File not reported: %q", d)
	}
	out := "s0.1 h1 d1 " + hex.EncodeToString([]byte("write(x)\n")) + "\nnoise\ns0.0 h0 d0 " + hex.EncodeToString([]byte("write(y)\n")) + "\nend\n"
	jobs, order, err := c09ParseFresh(out)
	if err != nil || len(jobs) != 2 || order[0] != "s0.1" || jobs["s0.0"].Text != "write(y)\n" || jobs["s0.0"].Pos != 1 || jobs["s0.1"].HistSum != "h1" {
		t.Fatalf("parsed %v %v %v", jobs, order, err)
	}
	if _, _, err := c09ParseFresh(strings.TrimSuffix(out, "end\n")); err == nil {
		t.Fatal("incomplete child output accepted")
	}
}

// The in-process half of the spellings oracle on the implementation, and on an implementation
// with a memo keyed by the text after the last slash that is filled by whichever File comes
// first in a run (visible here because the memo is reset per run; in a real process only a
// fresh process can show it).
func TestC09SpellOracle(t *testing.T) {
	sets := C09SpellSets(5, "quick")[:40]
	nt := 0
	for i, c := range sets {
		c09SpellMeasure(c)
		if c.NonTrivial {
			nt++
		}
		got := c09Exec(c.Hist)
		if d := (c09{}).Oracle(c, got); d != "" {
			t.Fatalf("set %d rejected: %s\n%s", i, d, c.Hist.Sexp())
		}
		if d := (c09{}).Compare(c, got, got); d != "" {
			t.Fatal(d)
		}
	}
	if nt < 30 {
		t.Errorf("only %d of 40 sets are non-trivial", nt)
	}
	defer func(f func(hist.History) []hist.Obs) { c09Exec = f }(c09Exec)
	real := c09Exec
	c09Exec = func(h hist.History) []hist.Obs {
		obs := real(h)
		memo := "" // alias of the first trailing-slash path of this run
		for _, op := range h {
			if op.Kind != "fadd" {
				continue
			}
			var walk func(n term.Node)
			walk = func(n term.Node) {
				switch x := n.(type) {
				case *term.Stmt:
					for _, it := range x.Items {
						walk(it)
					}
				case *term.Group:
					if x.Method == "Qual" && strings.HasSuffix(x.Path, "/") && memo == "" {
						p := strings.TrimRight(x.Path, "/")
						memo = p[strings.LastIndex(p, "/")+1:]
					}
					for _, it := range x.Items {
						walk(it)
					}
				}
			}
			walk(op.Code)
		}
		if memo != "" {
			for i := range obs {
				obs[i].Out = strings.ReplaceAll(obs[i].Out, "beta", memo)
			}
		}
		return obs
	}
	caught := 0
	for _, c := range sets {
		if (c09{}).Oracle(c, c09Exec(c.Hist)) != "" {
			caught++
		}
	}
	if caught == 0 {
		t.Errorf("a memo shared between the Files of one run is never caught")
	}
}

// ---- stream concurrent-save (c09_save.go) ----

func c09SaveRunMain(c *Case) []hist.Obs {
	w := hist.NewWorld()
	w.SavePath = c.Meta["savepath"].(func(string) string)
	return w.Exec(c.Hist)
}

// The oracle accepts the unchanged Save on a whole quick stream (and removes its directories),
// and rejects a Save that goes through a temporary file shared by the Saves of one directory:
// no data race in Go's sense, contents exchanged or rename failing.
func TestC09ConcurrentSave(t *testing.T) {
	cases := c09SaveCases(rand.New(rand.NewSource(5)), "quick")
	layouts := map[string]int{}
	var sameDir *Case
	for _, c := range cases {
		got := c09SaveRunMain(c)
		info := c.Meta["c09save"].(*c09SaveInfo)
		root := info.root
		if root == "" {
			t.Fatalf("the main run saved nothing: %s", c.Hist.Sexp())
		}
		if d := (c09{}).Oracle(c, got); d != "" {
			t.Fatalf("oracle rejects the unchanged implementation: %s\n%s", d, c.Hist.Sexp())
		}
		if _, err := os.Stat(root); !os.IsNotExist(err) {
			t.Errorf("%s still exists after the oracle", root)
		}
		if !c.NonTrivial {
			t.Errorf("trivial job set: %v", c.Tags)
		}
		for _, tg := range c.Tags {
			if strings.HasPrefix(tg, "layout=") || strings.HasPrefix(tg, "names=") {
				layouts[tg]++
			}
			if tg == "layout=same-pkg-same-dir" && len(c09SaveJobs(c.Hist)) >= 4 && sameDir == nil {
				sameDir = c
			}
		}
	}
	for _, k := range []string{"layout=same-pkg-same-dir", "layout=diff-pkg-same-dir", "layout=same-pkg-diff-dirs", "layout=mixed", "names=plain", "names=tempish"} {
		if layouts[k] < 2 {
			t.Errorf("%s only %d times: %v", k, layouts[k], layouts)
		}
	}
	if sameDir == nil {
		t.Fatal("no job set with four Files in one directory")
	}
	// a Save whose temporary file is shared by all Saves into one directory
	old := c09SaveFile
	defer func() { c09SaveFile = old }()
	c09SaveFile = func(f *jen.File, path string) error {
		buf := &bytes.Buffer{}
		if err := f.Render(buf); err != nil {
			return err
		}
		tmp := filepath.Join(filepath.Dir(path), ".save.tmp")
		if err := os.WriteFile(tmp, buf.Bytes(), 0644); err != nil {
			return err
		}
		time.Sleep(200 * time.Microsecond)
		return os.Rename(tmp, path)
	}
	got := c09SaveRunMain(sameDir)
	d := (c09{}).Oracle(sameDir, got)
	if d == "" {
		t.Fatalf("the oracle accepts Saves that share a temporary file: %v", sameDir.Tags)
	}
	if !strings.Contains(d, "goroutines at the same time") || !(strings.Contains(d, "does not hold the source of its own File") || strings.Contains(d, "Save failed although")) {
		t.Errorf("rejected, but for another reason: %s", d)
	}
	t.Logf("shared temporary file: %s", c09Clip(d))
}

func TestC09SaveJudgeHandMade(t *testing.T) {
	jobs := []c09SaveJob{{F: 0, Sym: "d0/a.go"}, {F: 1, Sym: "d0/b.go"}, {F: 2, Sym: "d0/c.go"}}
	want := []hist.Obs{{Kind: "write", Out: "package p\n\nvar A = 1\n"}, {Kind: "write", Out: "package p\n\nvar B = 2\n"}, {Kind: "fmterr", Out: "package p\n\n)"}}
	okOuts := []c09SaveOutcome{{}, {}, {Err: "fmterr"}}
	tree := func(a, b string, extra ...string) map[string]string {
		m := map[string]string{"d0": "<dir>"}
		if a != "" {
			m["d0/a.go"] = a
		}
		if b != "" {
			m["d0/b.go"] = b
		}
		for i := 0; i+1 < len(extra); i += 2 {
			m[extra[i]] = extra[i+1]
		}
		return m
	}
	seq := tree(want[0].Out, want[1].Out)
	check := func(name string, outs []c09SaveOutcome, tr map[string]string, sub string) {
		t.Helper()
		d := c09SaveJudge(jobs, want, outs, tr, seq)
		switch {
		case sub == "" && d != "":
			t.Errorf("%s: rejected: %s", name, d)
		case sub != "" && d == "":
			t.Errorf("%s: accepted", name)
		case sub != "" && !strings.Contains(d, sub):
			t.Errorf("%s: rejected for another reason (want %q): %s", name, sub, d)
		}
	}
	check("clean", okOuts, tree(want[0].Out, want[1].Out), "")
	check("contents exchanged", okOuts, tree(want[1].Out, want[1].Out), "that is the source of the File of job 1")
	check("rename failed", []c09SaveOutcome{{}, {Err: "rename d0/.p.go.tmp d0/b.go: no such file or directory"}, {Err: "fmterr"}}, tree(want[0].Out, ""), "Save failed although")
	check("file missing", okOuts, tree(want[0].Out, ""), "does not exist after all jobs are done")
	check("truncated", okOuts, tree(want[0].Out[:5], want[1].Out), "does not hold the source of its own File")
	check("temporary left behind", okOuts, tree(want[0].Out, want[1].Out, "d0/.p.go.tmp", want[1].Out), "does not exist when the same Files are saved one after another")
	check("format error swallowed", []c09SaveOutcome{{}, {}, {}}, tree(want[0].Out, want[1].Out), "Save returned \"\"")
	check("file written despite the format error", okOuts, tree(want[0].Out, want[1].Out, "d0/c.go", "x"), "the target exists")
	check("panic in a job", []c09SaveOutcome{{Builder: "boom"}, {}, {Err: "fmterr"}}, tree(want[0].Out, want[1].Out), "panic: boom")
}
