package props

import (
	"math/rand"
	"strings"
	"testing"

	"verifharness/hist"
	"verifharness/term"
)

func mkRC(paths []string, rendered ...int) *RefCase {
	rc := &RefCase{Paths: paths, Anon: map[string]bool{}, Hints: map[string][2]string{}, Rendered: map[int]bool{}, Hidden: map[int]bool{}, AnonThenHint: map[string]bool{}}
	for _, i := range rendered {
		rc.Rendered[i] = true
	}
	return rc
}

func wantAll(t *testing.T, rc *RefCase, good []string, bad map[string]string) {
	t.Helper()
	for _, src := range good {
		if m := rc.Resolve(src); m != "" {
			t.Errorf("good output rejected: %s\n%s", m, src)
		}
	}
	for src, want := range bad {
		if m := rc.Resolve(src); !strings.Contains(m, want) {
			t.Errorf("want %q, got %q for\n%s", want, m, src)
		}
	}
}

// The cgo rule of Resolve: with a preamble `import "C"` appears exactly once, in its own
// declaration, unnamed, directly below the preamble comments - also when C is otherwise unused.
func TestResolveCgoPreambleOnly(t *testing.T) {
	// preamble only, no other import
	rc := mkRC(nil)
	rc.Cgo, rc.Preambles = true, []string{"#include <stdio.h>"}
	wantAll(t, rc,
		[]string{"package p\n\n// #include <stdio.h>\nimport \"C\"\n"},
		map[string]string{
			"package p\n": "0 imports of \"C\"",
			"package p\n\n// #include <stdio.h>\n\nimport \"C\"\n":                         "comments directly above",
			"package p\n\nimport \"C\"\n":                                                  "comments directly above",
			"package p\n\n// #include <stdio.h>\nimport _ \"C\"\n":                         "under the name _",
			"package p\n\n// #include <stdio.h>\nimport \"C\"\n\nimport \"C\"\n":           "2 imports of \"C\"",
			"package p\n\n// #include <other.h>\nimport \"C\"\n":                           "comments directly above",
			"package p\n\n// #include <stdio.h>\nimport \"C\"\n\nimport \"fmt\"\n":         "is unused",
			"package p\n\n// #include <stdio.h>\nimport (\n\t\"C\"\n)\n\nimport \"fmt\"\n": "is unused",
			"package p\n\n// #include <stdio.h>\nimport C \"C\"\n":                         "under the name C",
			"package p\n\n// #include <stdio.h>\nimport (\n\t\"C\"\n\t\"fmt\"\n)\n":        "shares its declaration",
		})

	// two preambles, one other import (single form), C not referenced
	rc = mkRC([]string{"a.b/d"}, 0)
	rc.Cgo, rc.Preambles = true, []string{"#include <a.h>\n#include <b.h>", "// raw form"}
	wantAll(t, rc,
		[]string{"package p\n\nimport d \"a.b/d\"\n\n/*\n#include <a.h>\n#include <b.h>\n*/\n// raw form\nimport \"C\"\n\nvar _ = d.V0_1\n"},
		map[string]string{
			// C inside the block, preamble lost its place
			"package p\n\nimport (\n\t\"C\"\n\td \"a.b/d\"\n)\n\nvar _ = d.V0_1\n": "shares its declaration",
			// preambles in the wrong order
			"package p\n\nimport d \"a.b/d\"\n\n// raw form\n/*\n#include <a.h>\n#include <b.h>\n*/\nimport \"C\"\n\nvar _ = d.V0_1\n": "comments directly above",
			// only the last preamble
			"package p\n\nimport d \"a.b/d\"\n\n// raw form\nimport \"C\"\n\nvar _ = d.V0_1\n": "comments directly above",
			// no C at all
			"package p\n\nimport d \"a.b/d\"\n\nvar _ = d.V0_1\n": "0 imports of \"C\"",
			// the other import dropped
			"package p\n\n/*\n#include <a.h>\n#include <b.h>\n*/\n// raw form\nimport \"C\"\n\nvar _ = d.V0_1\n": "no import provides the name d",
		})
}

func TestResolveCgoAnonAndQual(t *testing.T) {
	// Anon("C") without preamble: plain member of the block, never `_`
	rc := mkRC([]string{"a.b/d"}, 0)
	rc.Anon["C"] = true
	wantAll(t, rc,
		[]string{"package p\n\nimport (\n\t\"C\"\n\td \"a.b/d\"\n)\n\nvar _ = d.V0_1\n"},
		map[string]string{
			"package p\n\nimport (\n\t_ \"C\"\n\td \"a.b/d\"\n)\n\nvar _ = d.V0_1\n": "under the name _",
			"package p\n\nimport d \"a.b/d\"\n\nvar _ = d.V0_1\n":                    "anonymous import \"C\" is missing",
		})
	// Qual("C", ..) with a hint on the path "C": still C, unnamed
	rc = mkRC([]string{"x.y/z", "C"}, 0, 1)
	rc.Hints["C"] = [2]string{"foo", "name"}
	wantAll(t, rc,
		[]string{"package p\n\nimport (\n\t\"C\"\n\tz \"x.y/z\"\n)\n\nvar _ = z.V0_1\nvar _ = C.V1_2\n"},
		map[string]string{
			"package p\n\nimport (\n\tfoo \"C\"\n\tz \"x.y/z\"\n)\n\nvar _ = z.V0_1\nvar _ = foo.V1_2\n": "under the name foo",
			"package p\n\nimport (\n\t\"C\"\n\tz \"x.y/z\"\n)\n\nvar _ = z.V0_1\nvar _ = foo.V1_2\n":     "no import provides the name foo",
			"package p\n\nimport z \"x.y/z\"\n\nvar _ = z.V0_1\nvar _ = C.V1_2\n":                        "no import provides the name C",
			"package p\n\nimport (\n\t\"C\"\n\tz \"x.y/z\"\n)\n\nvar _ = z.V0_1\nvar _ = V1_2\n":         "bare reference",
		})
	// no preamble, nothing names C: an import of "C" is unused
	rc = mkRC([]string{"x.y/z"}, 0)
	wantAll(t, rc, []string{"package p\n\nimport z \"x.y/z\"\n\nvar _ = z.V0_1\n"},
		map[string]string{"package p\n\nimport (\n\t\"C\"\n\tz \"x.y/z\"\n)\n\nvar _ = z.V0_1\n": "is unused"})
}

// A hint named "_" for a path nothing references must not produce an import.
func TestResolveBlankHintUnreferenced(t *testing.T) {
	rc := mkRC([]string{"x.y/z", "a.b/d"}, 0)
	rc.Hints["a.b/d"] = [2]string{"_", "alias"}
	rc.Hints["unused.host/b1"] = [2]string{"_", "name"}
	wantAll(t, rc, []string{"package p\n\nimport z \"x.y/z\"\n\nvar _ = z.V0_1\n"},
		map[string]string{
			"package p\n\nimport (\n\t_ \"a.b/d\"\n\tz \"x.y/z\"\n)\n\nvar _ = z.V0_1\n":          "never requested",
			"package p\n\nimport (\n\t_ \"unused.host/b1\"\n\tz \"x.y/z\"\n)\n\nvar _ = z.V0_1\n": "never requested",
			"package p\n\nimport (\n\t\"unused.host/b1\"\n\tz \"x.y/z\"\n)\n\nvar _ = z.V0_1\n":   "is unused",
		})
}

// The same package spelled with and without a trailing slash: two paths, two hints.
func TestResolveTrailingSlashPair(t *testing.T) {
	rc := mkRC([]string{"a.b/yaml", "a.b/yaml/"}, 0, 1)
	rc.Hints["a.b/yaml"] = [2]string{"yaml", "name"}
	rc.Hints["a.b/yaml/"] = [2]string{"yamlv2", "name"}
	wantAll(t, rc, []string{"package p\n\nimport (\n\t\"a.b/yaml\"\n\t\"a.b/yaml/\"\n)\n\nvar _ = yaml.V0_1\nvar _ = yamlv2.V1_2\n"},
		map[string]string{
			// the two spellings merged into one import
			"package p\n\nimport \"a.b/yaml\"\n\nvar _ = yaml.V0_1\nvar _ = yaml.V1_2\n": "was built with path \"a.b/yaml/\"",
			// the hints exchanged
			"package p\n\nimport (\n\t\"a.b/yaml\"\n\t\"a.b/yaml/\"\n)\n\nvar _ = yamlv2.V0_1\nvar _ = yaml.V1_2\n": "was built with path",
			// the second spelling's reference is left without import
			"package p\n\nimport \"a.b/yaml\"\n\nvar _ = yaml.V0_1\nvar _ = yamlv2.V1_2\n": "no import provides the name yamlv2",
		})
}

// The C02 oracle sees a formatter that does not normalise number tokens.
func TestC02OracleNonCanonicalNumber(t *testing.T) {
	h := hist.History{{Kind: "newfile", F: 0, A: "p"},
		{Kind: "fadd", F: 0, Code: term.S(term.Named("Var"), term.Id("Ax"), term.Op("="), term.Id("f"), term.G("Call", term.S(term.Op("0X0F")), term.S(term.Id("0O755"))))},
		{Kind: "noformat", F: 0, Flag: false}, {Kind: "render", F: 0}, {Kind: "imports", F: 0}}
	c := &Case{Hist: h, Meta: map[string]interface{}{"badlit": false}}
	got := hist.NewWorld().Exec(h)
	if m := (c02{}).Oracle(c, got); m != "" {
		t.Fatalf("real output rejected: %s", m)
	}
	if !strings.Contains(got[0].Out, "f(0x0F, 0o755)") {
		t.Fatalf("gofmt did not rewrite the tokens: %q", got[0].Out)
	}
	bad := append([]hist.Obs{}, got...)
	bad[0].Out = "package p\n\nvar Ax = f(0X0F, 0O755)\n" // printed without number normalisation
	if m := (c02{}).Oracle(c, bad); !strings.Contains(m, "not gofmt of the raw rendering") {
		t.Fatalf("un-normalised numbers accepted: %q", m)
	}
}

// The generators produce the shapes (and their bookkeeping is consistent with the tags).
func TestRefCaseShapesAreGenerated(t *testing.T) {
	r := rand.New(rand.NewSource(7))
	count := map[string]int{}
	for i := 0; i < 3000; i++ {
		c := refCaseRandom(r, 8, SetupOpts{BlankHints: true}, 4)
		for _, tg := range c.Tags {
			count[tg]++
		}
		for _, op := range c.Hist {
			if (op.Kind == "importname" || op.Kind == "importalias") && op.B == "C" {
				t.Fatalf("a hint NAMED C was generated (recorded finding hint-named-C)")
			}
		}
	}
	for _, tg := range []string{"cgo-preamble-only", "cgo-preamble-only+other-imports=0", "cgo-preamble-only+other-imports=1", "cgo-preamble-only+other-imports=2",
		"cgo-anon+preamble", "cgo-anon-no-preamble", "cgo-qual+preamble", "cgo-qual-no-preamble", "cgo-preambles=2",
		"blank-hint-unreferenced", "keyword-path-no-prefix", "trailing-slash-pair", "trailing-slash-pair-both-referenced", "hint-repeated", "hint-repeated=dot",
		"header=plus-build", "header=trailing-blank", "header=ends-in-newline", "header=raw-block", "header=multi-line"} {
		if count[tg] < 10 {
			t.Errorf("tag %s only %d times in 3000 cases", tg, count[tg])
		}
	}
}
