package props

import (
	"math/rand"
	"strings"
	"testing"

	"verifharness/hist"
)

// Stream large-writer-faults: the outputs really are as large as tagged, the unchanged
// implementation passes, and an implementation that writes large outputs in 64 KiB blocks and
// drops the writer's error (or merely needs several calls) is rejected for every shape.
func TestC10LargeWriterFaults(t *testing.T) {
	p := &c10{}
	defer p.Close()
	r := rand.New(rand.NewSource(11))
	shapes := []string{"zero-err", "part-err", "full-err", "second-err", "third-err", "short-nil", "off-err:1", "off-err:65536", "off-err:65537", ""}
	for i, shape := range shapes {
		size := c10BigSizes[i%2]
		entry := c10Entries[i%5]
		c := p.build(r, c10spec{tree: "big", entry: entry, nf: i%3 == 0, wshape: shape, big: size}, "large-writer-faults")
		got := hist.NewWorld().Exec(c.Hist)
		if d := p.Oracle(c, got); d != "" {
			t.Fatalf("%s %s: oracle rejects the unchanged implementation: %s", entry, shape, d)
		}
		o := got[len(got)-1]
		if o.Kind != "write" {
			t.Fatalf("%s %s: not a write: %s", entry, shape, o.String()[:200])
		}
		if !c10ShapeFails(shape) && shape != "short-nil" && len(o.Out) < size {
			t.Fatalf("%s %s: output of %d bytes, tagged >= %d", entry, shape, len(o.Out), size)
		}
		if c10ShapeFails(shape) != o.Failed || o.Writes != 1 {
			t.Fatalf("%s %s: failed=%v writes=%d", entry, shape, o.Failed, o.Writes)
		}
		// what a block-wise implementation with a swallowed error would show
		bad := append([]hist.Obs{}, got...)
		switch {
		case c10ShapeFails(shape):
			bad[len(bad)-1] = hist.Obs{Kind: "write", Out: o.Out, Writes: 1, Offered: o.Offered}
		case shape == "second-err" || shape == "third-err":
			bad[len(bad)-1] = hist.Obs{Kind: "write", Out: o.Out[:1<<16], Writes: 2, Offered: o.Offered}
		case shape == "":
			bad[len(bad)-1] = hist.Obs{Kind: "write", Out: o.Out, Writes: 2}
		default:
			continue
		}
		if d := p.Oracle(c, bad); d == "" {
			t.Fatalf("%s %s: swallowed error / several Write calls accepted", entry, shape)
		} else if !strings.Contains(d, "swallowed") && !strings.Contains(d, "Write call") {
			t.Fatalf("%s %s: rejected for another reason: %s", entry, shape, d)
		}
	}
}
