package props

import (
	"fmt"
	"math"
	"math/rand"
	"strings"

	"verifharness/term"
)

// C20, stream "sizes": the SIZE dimension of clone histories.
//
// The random streams of c20.go stay below 6 variables and 60 steps, so a clone is never more
// than 5 Clone calls away from a fresh statement and a statement never holds more than a few
// dozen items.  The property quantifies over all sizes (every Clone adds one level of nesting:
// the clone is a new statement whose first item is its original), so this stream builds a
// few LARGE histories per run, each from a (shape, N, seed) triple:
//
//	chain       v0, then N nested clones v1 = v0.Clone(), v2 = v1.Clone(), ...; about 3 levels in
//	            4 get one `op id` pair appended (chained calls or one Add), the others stay
//	            unmodified, the last one always (so the deepest original and its unmodified
//	            clone are both rendered); renders of the three deepest levels and of a sample
//	            of levels; then a pair is appended to v0 (shows through all N levels) and to the
//	            middle level (shows below it, not above it) and the sample is rendered again
//	bare-chain  N nested clones, none of them modified
//	fan         one original and N sibling clones, every clone extended by 1..3 pairs, the
//	            original extended half-way and at the end; the original, the first, the last
//	            and a sample of clones rendered
//	long        one statement of N tokens (id op id op ... id) built by chained calls and
//	            Add(...) calls of random chunk sizes, cloned twice (clone and clone of the
//	            clone), each of the three extended (the last by N/10 more tokens), all rendered
//	comb        a chain of N clones in which every level also has a leaf clone that is
//	            extended (or left unmodified): 2N+1 variables, depth N+1
//
// Every appended item keeps the text an expression (a + b1 - b2 ...), so that go/format accepts
// what Statement.Render hands it at every size.  N is drawn from a list of boundary values
// (100, 255..257, 999..1001, 1023..1025, 1500, 2000; thorough also 3000, 4095..4097) and
// log-uniformly at random.
//
// What the sizes cost (measured, one process each, this machine, partly under load).  The
// model (ocaml/model_driver) is quadratic in N in time and space, it does not overflow its
// stack when started as modelproc does (ulimit -s unlimited; with the default 8 MB stack it
// answers (stackoverflow) for a statement of 10^5 tokens):
//
//	chain       N=1000 0.9 s / 0.2 GB   1500 3 s / 0.5 GB   2000 5 s / 0.9 GB   3000 22 s / 2.3 GB
//	bare-chain  N=1024 0.4 s            3000 3.7 s / 0.5 GB  4096 7 s / 0.9 GB
//	fan         N=1000 2 s / 0.5 GB     2000 16 s / 1.9 GB   3000 42 s / 4.2 GB
//	comb        N=1000 3 s / 0.7 GB     1500 11.5 s / 1.4 GB
//	long        N=10^4 about 1 s        3*10^4 7 s / 1.1 GB   10^5 71 s / 12.8 GB (one Add of 10^5
//	            items: 9 s / 0.3 GB: it is the number of separate appends that costs)
//
// The implementation needs milliseconds for all of them except long (go/format is quadratic
// in the length of a left-nested expression: 8 renders of 3*10^4 tokens take 2.3 s).  Hence:
// the quick tier stops at 1500 for extended chains (2000 for unmodified ones), 1200 for fans
// and 10^4 tokens; the thorough tier at 3000 / 4097 / 2000 / 3*10^4.
//
// NonTrivial is measured by c20Measure as for every other C20 history (a clone, an append
// after it to a clone or a cloned statement, a render after that).  Tags: size:shape=...,
// size:depth=N / size:fanout=N / size:tokens=N for the boundary values, and the buckets
// size:depth>=100, >=1000, >=3000 (same for fanout; tokens >=1000, >=10000, >=100000).

type c20Size struct {
	Shape string
	N     int
	Seed  int64
}

func c20SizeId(s string) c20Item { return c20Item{Node: term.Id(s), Text: s} }

var c20SizeOpsList = []string{"+", "-", "*", "/", "&&", "||", "==", "<<", "&^", "%"}

// c20SizePair appends `op name` to variable v: two chained calls, one Add of a two-token
// statement, or one Add of two one-token statements (sometimes with a Null() in between).
func c20SizePair(r *rand.Rand, v int, name string) c20Op {
	op := pick(r, c20SizeOpsList)
	switch r.Intn(4) {
	case 0:
		return c20Op{Kind: "append", V: v, Items: []c20Item{{Node: term.S(term.Op(op), term.Id(name)), Text: op + " " + name}}}
	case 1:
		return c20Op{Kind: "append", V: v, Items: []c20Item{{Node: term.S(term.Op(op)), Text: op}, {Node: term.S(term.Id(name)), Text: name}}}
	case 2:
		return c20Op{Kind: "append", V: v, Chained: true, Items: []c20Item{{Node: term.Op(op), Text: op}, {Node: term.Null(), Null: true}, c20SizeId(name)}}
	}
	return c20Op{Kind: "append", V: v, Chained: true, Items: []c20Item{{Node: term.Op(op), Text: op}, c20SizeId(name)}}
}

func c20SizeSample(r *rand.Rand, lo, hi, k int) []int {
	var out []int
	for j := 0; j < k && hi >= lo; j++ {
		out = append(out, lo+r.Intn(hi-lo+1))
	}
	return out
}

func c20SizeOps(sp c20Size) []c20Op {
	r := rand.New(rand.NewSource(sp.Seed))
	n := sp.N
	if n < 1 {
		n = 1
	}
	var ops []c20Op
	render := func(vs ...int) {
		for _, v := range vs {
			ops = append(ops, c20Op{Kind: "render", V: v})
		}
	}
	ops = append(ops, c20Op{Kind: "new", V: 0})
	switch sp.Shape {
	case "chain", "bare-chain":
		ops = append(ops, c20Op{Kind: "append", V: 0, Chained: true, Items: []c20Item{c20SizeId("a0")}})
		for i := 1; i <= n; i++ {
			ops = append(ops, c20Op{Kind: "clone", V: i, From: i - 1})
			if sp.Shape == "chain" && i < n && r.Intn(4) != 0 {
				ops = append(ops, c20SizePair(r, i, fmt.Sprintf("b%d", i)))
			}
		}
		// (every render of a deep level costs the model tenths of a second: a small sample)
		sample := c20SizeSample(r, 0, n, 3)
		render(0)
		render(sample...)
		if n >= 2 {
			render(n - 2) // with the next two: three consecutive depths (a chain of 1001 shows 999, 1000, 1001)
		}
		render(n-1, n) // the deepest original, then its unmodified clone
		ops = append(ops, c20SizePair(r, 0, "r"))
		render(n)
		render(sample...)
		if mid := n / 2; mid >= 1 {
			ops = append(ops, c20SizePair(r, mid, "m"))
			render(mid-1, n)
		}
	case "fan":
		ops = append(ops, c20Op{Kind: "append", V: 0, Chained: true, Items: []c20Item{c20SizeId("a0"), {Node: term.Op("+"), Text: "+"}, c20SizeId("a1")}})
		for i := 1; i <= n; i++ {
			ops = append(ops, c20Op{Kind: "clone", V: i, From: 0})
			for k := 1 + r.Intn(3); k > 0; k-- {
				ops = append(ops, c20SizePair(r, i, fmt.Sprintf("c%dx%d", i, k)))
			}
			if i == n/2 {
				ops = append(ops, c20SizePair(r, 0, "h"))
				render(0, 1, i)
			}
		}
		sample := c20SizeSample(r, 1, n, 4)
		render(0, 1, n)
		render(sample...)
		ops = append(ops, c20SizePair(r, 0, "r"))
		render(0, n)
		render(sample...)
	case "long":
		// n tokens: id (op id)*, in chunks
		tok := func(k int) c20Item {
			if k%2 == 0 {
				return c20SizeId(fmt.Sprintf("a%d", k/2))
			}
			op := pick(r, c20SizeOpsList)
			return c20Item{Node: term.Op(op), Text: op}
		}
		fill := func(v, from, to int) { // tokens from..to-1
			for k := from; k < to; {
				// one Add of up to 800 items, or up to 40 chained calls (every single append
				// costs the model time proportional to the length reached so far)
				op := c20Op{Kind: "append", V: v, Chained: r.Intn(2) == 0}
				m := 1 + r.Intn(800)
				if op.Chained {
					m = 1 + r.Intn(40)
				}
				if r.Intn(4) == 0 {
					m = 1 + r.Intn(4)
				}
				if k+m > to {
					m = to - k
				}
				for j := k; j < k+m; j++ {
					it := tok(j)
					if !op.Chained {
						it = c20Item{Node: term.S(it.Node), Text: it.Text}
					}
					op.Items = append(op.Items, it)
				}
				ops = append(ops, op)
				k += m
			}
		}
		if n%2 == 0 {
			n++ // end on an identifier
		}
		fill(0, 0, n)
		ops = append(ops, c20Op{Kind: "clone", V: 1, From: 0}, c20Op{Kind: "clone", V: 2, From: 1})
		render(1, 2)
		ops = append(ops, c20SizePair(r, 1, "q"))
		render(0, 1, 2)
		ops = append(ops, c20SizePair(r, 0, "p"))
		render(2)
		extra := n / 10
		if extra%2 == 1 {
			extra++
		}
		fill(2, n, n+extra) // starts with an operator (n is odd), ends on an identifier
		render(2, 0)
	case "comb":
		ops = append(ops, c20Op{Kind: "append", V: 0, Chained: true, Items: []c20Item{c20SizeId("a0")}})
		spine := 0
		nv := 1
		var leaves []int
		for i := 1; i <= n; i++ {
			ops = append(ops, c20Op{Kind: "clone", V: nv, From: spine})
			spine = nv
			nv++
			if r.Intn(3) != 0 {
				ops = append(ops, c20SizePair(r, spine, fmt.Sprintf("s%d", i)))
			}
			ops = append(ops, c20Op{Kind: "clone", V: nv, From: spine})
			if r.Intn(3) != 0 {
				ops = append(ops, c20SizePair(r, nv, fmt.Sprintf("l%d", i)))
			}
			leaves = append(leaves, nv)
			nv++
		}
		var sample []int
		for _, k := range c20SizeSample(r, 0, len(leaves)-1, 3) {
			sample = append(sample, leaves[k])
		}
		render(spine, leaves[len(leaves)-1])
		render(sample...)
		ops = append(ops, c20SizePair(r, 0, "r"))
		render(spine, leaves[len(leaves)-1])
		render(sample...)
	default:
		panic("c20: bad size shape " + sp.Shape)
	}
	return ops
}

var c20SizeBoundary = map[int]bool{100: true, 255: true, 256: true, 257: true, 999: true, 1000: true, 1001: true, 1023: true, 1024: true, 1025: true,
	1500: true, 2000: true, 3000: true, 4095: true, 4096: true, 4097: true, 10000: true, 100000: true}

func c20SizeCase(sp c20Size, stream string) *Case {
	c := c20Case(c20SizeOps(sp), stream, "")
	// the exact numbers of variables / levels would make one tag per case: keep the feature tags
	// of c20Measure, replace the counting ones by buckets
	var tags []string
	for _, t := range c.Tags {
		if strings.HasPrefix(t, "vars=") || strings.HasPrefix(t, "clone-depth=") || strings.HasPrefix(t, "unmodified-clone-depth=") || strings.HasPrefix(t, "add-k=") {
			continue
		}
		tags = append(tags, t)
	}
	what, steps := "depth", []int{100, 1000, 3000}
	switch sp.Shape {
	case "fan":
		what = "fanout"
	case "long":
		what, steps = "tokens", []int{1000, 10000, 100000}
	}
	tags = append(tags, "size:shape="+sp.Shape)
	if c20SizeBoundary[sp.N] {
		tags = append(tags, fmt.Sprintf("size:%s=%d", what, sp.N))
	}
	for _, s := range steps {
		if sp.N >= s {
			tags = append(tags, fmt.Sprintf("size:%s>=%d", what, s))
		}
	}
	c.Tags = tags
	c.Meta["size"] = sp
	return c
}

func c20LogUniform(r *rand.Rand, lo, hi int) int {
	return int(math.Round(float64(lo) * math.Pow(float64(hi)/float64(lo), r.Float64())))
}

// c20SizesGenerate: quick 13 histories, thorough 68.
func c20SizesGenerate(r *rand.Rand, t string) []*Case {
	var out []*Case
	add := func(shape string, n int) {
		out = append(out, c20SizeCase(c20Size{Shape: shape, N: n, Seed: r.Int63()}, "sizes"))
	}
	// the heaviest first: the model co-processes take the lines in order
	if t == "thorough" {
		for _, n := range []int{3000, 2999, 3001} {
			add("chain", n)
		}
		add("bare-chain", 3000)
		add("fan", 2000)
		add("comb", 1500)
		add("long", 30000)
		for _, n := range []int{4095, 4096, 4097} {
			add("bare-chain", n)
		}
	}
	if t == "thorough" {
		for _, n := range []int{2000, 1000, 999, 1025, 257} {
			add("chain", n)
		}
	}
	for _, n := range []int{1500, 1001, 100} { // (the three deepest levels are rendered: 1001 covers 999 and 1000)
		add("chain", n)
	}
	add("chain", c20LogUniform(r, 64, 1500))
	add("chain", c20LogUniform(r, 64, 1500))
	add("bare-chain", c20PickInt(r, []int{1000, 1001, 1024, 1025, 2000}))
	add("bare-chain", c20LogUniform(r, 64, 2500))
	add("fan", 1000)
	add("fan", c20LogUniform(r, 100, 1200))
	add("long", 10000)
	add("long", c20LogUniform(r, 1000, 8000))
	add("comb", c20PickInt(r, []int{255, 256, 257, 999, 1000, 1001}))
	add("comb", c20LogUniform(r, 50, 500))
	if t == "thorough" {
		shapes := []string{"chain", "chain", "bare-chain", "fan", "long", "comb"}
		bnd := []int{255, 256, 257, 999, 1000, 1001, 1023, 1024, 1025, 1500, 2000}
		for i := 0; i < 40; i++ {
			sh := shapes[i%len(shapes)]
			var n int
			switch {
			case sh == "long":
				n = c20LogUniform(r, 1000, 30000)
			case sh == "fan" || sh == "comb":
				n = c20LogUniform(r, 64, 1500)
			case r.Intn(2) == 0:
				n = bnd[r.Intn(len(bnd))]
			default:
				n = c20LogUniform(r, 64, 2500)
			}
			add(sh, n)
		}
	}
	return out
}

func c20PickInt(r *rand.Rand, xs []int) int { return xs[r.Intn(len(xs))] }

// c20SizesShrink: the same history at smaller sizes (same inner seed), towards the boundary.
// At most c20SizeShrinkMax candidates per run: every one is a large history (about a second
// on the model).
func c20SizesShrink(c *Case) []*Case {
	sp := c.Meta["size"].(c20Size)
	var out []*Case
	if c20SizeShrunk >= c20SizeShrinkMax {
		return nil
	}
	seen := map[int]bool{sp.N: true}
	for _, n := range []int{sp.N / 2, sp.N * 3 / 4, sp.N * 9 / 10, sp.N - 100, sp.N - 10, sp.N - 1} {
		if n >= 1 && !seen[n] {
			seen[n] = true
			out = append(out, c20SizeCase(c20Size{Shape: sp.Shape, N: n, Seed: sp.Seed}, "shrunk"))
			c20SizeShrunk++
		}
	}
	return out
}

const c20SizeShrinkMax = 40

var c20SizeShrunk int

// c20Short abbreviates long texts in failure messages.
func c20Short(s string) string {
	if len(s) <= 400 {
		return s
	}
	return fmt.Sprintf("%s ...[%d bytes]... %s", s[:180], len(s)-360, s[len(s)-180:])
}
