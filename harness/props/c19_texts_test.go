package props

import (
	"math/rand"
	"strings"
	"testing"
)

// Round 6 of C19: what the blocks say (characters special to formatting functions, repeated texts).

func TestC19OracleTextsVerbatimAndRepeated(t *testing.T) {
	ref := "var _ = C." + c19Ref + "\n"
	pre := []string{"#ifdef A", "/*\nprintf(\"%d%%\\n\", n);\n*/", "#endif", "#ifdef B", "#define P \"C:\\\\x\" // ${SRCDIR} `q`", "#endif"}
	good := "package p\n\n// #ifdef A\n/*\nprintf(\"%d%%\\n\", n);\n*/\n// #endif\n// #ifdef B\n// #define P \"C:\\\\x\" // ${SRCDIR} `q`\n// #endif\nimport \"C\"\n\n" + ref
	if v := C19Check(true, false, pre, nil, good); v != "" {
		t.Fatalf("good output rejected: %s", v)
	}
	if v := c19ExactDoc(pre, good); v != "" {
		t.Fatalf("good output rejected by the exact check: %s", v)
	}
	bad := map[string]string{
		"text used as a format":            strings.Replace(good, "%d%%", "%!d(MISSING)%", 1),
		"second #endif dropped":            strings.Replace(good, "// #endif\nimport", "import", 1),
		"first #endif dropped":             strings.Replace(good, "// #endif\n// #ifdef B", "// #ifdef B", 1),
		"backslashes unescaped":            strings.Replace(good, `C:\\x`, `C:\x`, 1),
		"variable expanded":                strings.Replace(good, "${SRCDIR}", "/src", 1),
		"repeated block moved to the end":  strings.Replace(strings.Replace(good, "// #endif\n// #ifdef B", "// #ifdef B", 1), "import \"C\"", "// #endif\nimport \"C\"", 1),
		"repeated blocks merged elsewhere": strings.Replace(strings.Replace(good, "// #endif\nimport", "import", 1), "// #endif\n", "// #endif\n// #endif\n", 1),
	}
	for name, src := range bad {
		if v := C19Check(true, false, pre, nil, src); v == "" {
			t.Errorf("%s: accepted by C19Check", name)
		}
		if v := c19ExactDoc(pre, src); v == "" {
			t.Errorf("%s: accepted by the exact check", name)
		}
	}
	// the exact check alone sees a change of white space and of form
	for name, src := range map[string]string{
		"block written as line comments": strings.Replace(good, "/*\nprintf(\"%d%%\\n\", n);\n*/", "// printf(\"%d%%\\n\", n);", 1),
		"blank after the marker lost":    strings.Replace(good, "// #ifdef A", "//#ifdef A", 1),
	} {
		if v := c19ExactDoc(pre, src); v == "" {
			t.Errorf("%s: accepted by the exact check", name)
		}
	}
	// raw forms ending in newlines are written without them
	pre2 := []string{"// #cgo LDFLAGS: -lm\n", "/* x */\n\n"}
	if v := c19ExactDoc(pre2, "package p\n\n// #cgo LDFLAGS: -lm\n/* x */\nimport \"C\"\n"); v != "" {
		t.Errorf("raw forms with trailing newlines: %s", v)
	}
}

func TestC19TextsStream(t *testing.T) {
	r := rand.New(rand.NewSource(4))
	tags := map[string]int{}
	repeated := 0
	for _, c := range c19Texts(r, "quick") {
		cfg := c.Meta["cfg"].(c19Cfg)
		seen := map[string]bool{}
		rep := false
		for _, b := range cfg.Pre {
			if strings.Contains(b, "\f") || strings.Contains(b, "+build") || strings.Contains(b, "go:build") {
				t.Fatalf("recorded finding generated: %q", b)
			}
			if !strings.HasPrefix(b, "/*") && strings.Contains(b, "*/") {
				t.Fatalf("block-comment closer in a plain text: %q", b)
			}
			rep = rep || seen[b]
			seen[b] = true
		}
		if rep != hasTag(c, "repeated-text") {
			t.Fatalf("tag repeated-text wrong for %q", cfg.Pre)
		}
		if rep {
			repeated++
		}
		for _, tg := range c.Tags {
			tags[tg]++
		}
	}
	if repeated < 500 {
		t.Errorf("only %d cases with a repeated text", repeated)
	}
	for _, f := range c19TextFormNames {
		if tags["form="+f] < 200 || tags["repeated-text="+f] < 30 {
			t.Errorf("form %s: %d cases, %d repeated", f, tags["form="+f], tags["repeated-text="+f])
		}
	}
	for _, want := range []string{"text=percent@raw", "text=percent@plain", "text=backslash@raw", "text=dollar@raw", "text=backquote@raw", "repeated-text=adjacent", "repeated-text=apart", "repeated-text=three-times", "noformat"} {
		if tags[want] < 100 {
			t.Errorf("tag %s: %d cases", want, tags[want])
		}
	}
}
