package props

import (
	"math/rand"
	"strings"

	"verifharness/hist"
)

// C06, round 7.  Stream path-shapes: the SHAPE of the path strings themselves.  jennifer decides
// "local" and "dot-imported" by comparing path strings byte for byte; nothing in a path has a
// meaning to it (no major-version suffix, no vendor directory, no internal element, no .git
// suffix, no letter case, no gopkg.in version).  A change that starts to interpret one of those
// in one place only (constructor, register, isDotImport ...) makes the own path or a dot-imported
// path qualified, or a DIFFERENT path (prefix / extension / unvendored form / other version of
// it) bare.  Enumerated:
//
//	(shape of the File's own path: c06PathShapes) x (NewFilePath, NewFilePathName, NewFile - the
//	last one has no local path and every path is foreign) x variants of what else is there:
//	  - body references: the own path, and RELATIVES of it (c06Relatives: its parent, extensions by
//	    /v2 /v3 /sub /vendor/.. /internal/.., the path without its version suffix / vendor part /
//	    .git suffix, the other letter case, vendor/ in front, ...), referenced as ordinary paths;
//	  - dot-imports: none; another shaped path; a RELATIVE of the own path declared a dot-import
//	    (so own path a.b/c/v2 bare-because-local next to a.b/c bare-because-dot next to a.b/c/v3
//	    imported);  a shaped path dot-imported whose relatives are referenced as ordinary paths.
//
// Oracle: the one of the first stream (RefCase.Resolve + bare-iff-local-or-dot + dot-import present
// in the import block).
type c06PathShape struct{ path, class string }

var c06PathShapes = []c06PathShape{
	{"a.b/c/v2", "major-version"}, {"a.b/c/v3", "major-version"}, {"a.b/c/v10", "major-version"}, {"example.com/mod/v2", "major-version"},
	{"a.b/c/v1", "near-major-version"}, {"a.b/c/v0", "near-major-version"}, {"a.b/c/v02", "near-major-version"}, {"a.b/c/v2x", "near-major-version"}, {"a.b/v2/c", "major-version-inside"}, {"v2", "major-version-alone"}, {"x/v2", "major-version"},
	{"a.b/c/vendor/d.e/f", "vendor-inside"}, {"vendor/d.e/f", "vendor-leading"}, {"a.b/c/vendor/x/vendor/y.z/w", "vendor-twice"}, {"a.b/c/vendor", "vendor-last"}, {"a.b/c/vendored/d.e/f", "near-vendor"}, {"vendor/golang.org/x/net/idna", "vendor-leading"},
	{"a.b/c/internal/d", "internal"}, {"internal/x", "internal"}, {"a.b/c/internal", "internal"},
	{"a.b/c.git", "dot-git"}, {"a.b/c.git/sub", "dot-git"},
	{"A.B/C", "uppercase"}, {"a.b/C", "uppercase"}, {"GitHub.com/User/Repo", "uppercase"},
	{"gopkg.in/yaml.v3", "gopkg.in"}, {"gopkg.in/user/pkg.v2", "gopkg.in"}, {"gopkg.in/check.v1", "gopkg.in"},
	{"a.b/go-c", "hyphen"}, {"a.b/c-go", "hyphen"}, {"a.b/c", "plain"}, {"q", "plain"}, {"a.b/c/d/e/f/g", "deep"},
}

type c06Rel struct{ path, rel string }

// c06Relatives returns paths that are DIFFERENT strings from p but related to it in ways a path
// interpreting change could confuse with it.
func c06Relatives(p string) []c06Rel {
	var out []c06Rel
	// "C" (last element of a.b/C) is left out: it is the cgo pseudo-package, by design always
	// written `C.x` and never aliased, also when a caller declares it a dot-import (file.go:
	// "the C pseudo-package is always referenced as C") - outside the domain of C06.
	seen := map[string]bool{p: true, "": true, "C": true}
	add := func(q, rel string) {
		if !seen[q] {
			seen[q] = true
			out = append(out, c06Rel{q, rel})
		}
	}
	if i := strings.LastIndex(p, "/"); i > 0 {
		add(p[:i], "prefix-of")
		add(p[i+1:], "last-element-of")
	}
	if i := strings.Index(p, "/"); i > 0 {
		add(p[:i], "prefix-of")
		add(p[i+1:], "suffix-of")
	}
	for _, e := range []string{"/v2", "/v3", "/sub", "/vendor/d.e/f", "/internal/x"} {
		add(p+e, "extension-of")
	}
	add(p+".git", "with-.git")
	add(p+".v2", "with-.vN")
	add("vendor/"+p, "vendor-in-front")
	if i := strings.LastIndex(p, "/vendor/"); i >= 0 {
		add(p[i+len("/vendor/"):], "unvendored")
		add(p[:i], "prefix-of")
	}
	if strings.HasPrefix(p, "vendor/") {
		add(strings.TrimPrefix(p, "vendor/"), "unvendored")
	}
	if i := strings.LastIndex(p, "/v"); i > 0 && i+2 < len(p) && strings.Trim(p[i+2:], "0123456789") == "" {
		add(p[:i]+"/v"+p[i+2:]+"0", "other-version")
		add(p[:i]+"/v3", "other-version")
	}
	if i := strings.LastIndex(p, ".v"); i > 0 {
		add(p[:i], "without-.vN")
	}
	add(strings.TrimSuffix(p, ".git"), "without-.git")
	add(strings.ToUpper(p), "other-case")
	add(strings.ToLower(p), "other-case")
	if i := strings.Index(p, "/internal"); i > 0 {
		add(p[:i], "prefix-of")
	}
	return out
}

func c06PathShapeCases(r *rand.Rand, t string) []*Case {
	var out []*Case
	renders := map[string]bool{}
	for _, s := range c06PathShapes {
		obs := hist.NewWorld().Exec(hist.History{{Kind: "newfilepath", F: 0, A: s.path}, {Kind: "render", F: 0}})
		renders[s.path] = len(obs) == 1 && obs[0].Kind == "write"
	}
	n := 0
	variants := tier(t, 8, 40)
	for _, s := range c06PathShapes {
		rels := c06Relatives(s.path)
		for ci := 0; ci < 3; ci++ {
			var ctor hist.Op
			local := s.path
			switch ci {
			case 0:
				if !renders[s.path] {
					continue // the derived package name is the caller's business (keyword ...)
				}
				ctor = hist.Op{Kind: "newfilepath", F: 0, A: s.path}
			case 1:
				ctor = hist.Op{Kind: "newfilepathname", F: 0, A: s.path, B: pick(r, []string{"c", "v2", "f", "main"})}
			default:
				ctor = hist.Op{Kind: "newfile", F: 0, A: "p"}
				local = ""
			}
			for v := 0; v < variants; v++ {
				l := &c06Layout{Ctor: ctor, Local: local, NoFormat: n%4 == 3, Tags: []string{"own-path-shape=" + s.class}}
				if n%2 == 1 {
					l.Prefix = pick(r, prefixPool)
				}
				n++
				seen := map[string]bool{s.path: true}
				dot := func(p, tag string) {
					if !seen[p] {
						seen[p] = true
						l.Imps = append(l.Imps, c06Imp{Kind: "dot", Path: p})
						l.Tags = append(l.Tags, tag)
					}
				}
				extra := func(p, tag string) {
					if !seen[p] {
						seen[p] = true
						l.Extra = append(l.Extra, p)
						l.Tags = append(l.Tags, tag)
					}
				}
				if local == "" {
					// no local path: the shaped path itself is foreign; it is dot-imported in
					// half of the variants and an ordinary import otherwise
					if v%2 == 0 {
						dot(s.path, "dot-shape="+s.class)
					} else {
						extra(s.path, "ref-shape="+s.class)
					}
				}
				perm := r.Perm(len(rels))
				switch v % 4 {
				case 0: // relatives as ordinary references only
				case 1: // another shaped path dot-imported
					o := c06PathShapes[r.Intn(len(c06PathShapes))]
					dot(o.path, "dot-shape="+o.class)
					or := c06Relatives(o.path)
					for _, k := range r.Perm(len(or))[:2] {
						extra(or[k].path, "ref="+or[k].rel+"-a-dot-import")
					}
				case 2: // a relative of the own path declared a dot-import
					k := perm[0]
					perm = perm[1:]
					dot(rels[k].path, "dot="+rels[k].rel+"-the-own-path")
				case 3: // two shaped dot-imports, one of them possibly a relative of the other
					o := c06PathShapes[r.Intn(len(c06PathShapes))]
					dot(o.path, "dot-shape="+o.class)
					or := c06Relatives(o.path)
					k := r.Intn(len(or))
					dot(or[k].path, "dot="+or[k].rel+"-a-dot-import")
				}
				for _, k := range perm[:2+r.Intn(2)] {
					extra(rels[k].path, "ref="+rels[k].rel+"-the-own-path")
				}
				if v%3 == 2 {
					l.Imps = append(l.Imps, c06MkImp(pick(r, []string{"std", "alias", "name"}), 0))
				}
				if v%5 == 4 {
					l.Pre = c06Preambles[1]
					l.CQual = true
				}
				out = append(out, c06LayoutCase(r, l, "path-shapes"))
			}
		}
	}
	return out
}
