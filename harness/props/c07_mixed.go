package props

import (
	"fmt"
	"go/ast"
	"go/parser"
	"go/token"
	"math/rand"
	"sort"
	"strconv"
	"strings"

	"verifharness/hist"
	"verifharness/term"
)

// Stream "mixed-keys" of C07: ONE Dict whose keys are of DIFFERENT KINDS, rendered many times.
//
// The recipes stream gives every Dict keys drawn independently (a counter, K-names); there the
// textual order of the integer keys nearly always agrees with their numeric order and no key
// text lies between two integer texts.  Here a Dict of 3..14 pairs mixes
//
//   - integer literals of different widths and signs whose numeric and textual orders DISAGREE
//     (9 and 10, 2 and 10, 99 and 100, -3 and -5, 100 and 20 ...),
//   - keys of other kinds whose text lies BETWEEN two such integer texts (`2 * n`, `1e3`,
//     `5 + k`, `1.5`, `-4.5`, `0x10` ...), so that an order that treats some kinds specially has
//     no consistent answer,
//   - typed literals (int8(3), uint(0xa), int64(-3), float32(2)), floats, strings that look like
//     numbers ("10", "9", "-3"), rune literals, identifiers, unary and binary expressions, calls,
//     index expressions, parenthesised numbers, composite literals (whose own fields are an
//     inner Dict), Quals of reserved paths (c07FreshPaths: their names cannot compete),
//
// all with pairwise different texts (equal key texts and Qual keys competing for a name are
// the two recorded findings and stay out).  The Dict sits in a map, array or slice literal of
// a File (1..3 such statements), or in a bare Statement.
//
// One construction is rendered R = 4..8 times per build (alternating NoFormat on and off; Go
// starts every `range` over a map at a random position, so every render collects the pairs in
// another order) and is built 6 times in this process and once in each of 3 child processes:
// 30..50 renders of the same Dict.  The model sorts the key texts bytewise and predicts every
// render (Compare = everything).
//
// Oracle (c07MixedCheck, then the repetition of c07.Oracle):
//   - in every unformatted render, the key texts of every composite literal are in strictly
//     ascending bytewise order (go/parser gives the key expressions, the text is the source
//     between their positions) - the one order that does not depend on the traversal;
//   - every formatted render has the same keys in the same order as the unformatted ones
//     (blanks aside), and all renders of one kind inside a build are byte-identical;
//   - all builds, here and in the child processes, give identical observations.

// c07Key is one key of the catalogue: the term and the text the unformatted render writes.
type c07Key struct {
	Kind string
	Node term.Node
	Text string
	Int  *int64 // value, for plain integer literals
}

func c07IntKey(z int64) c07Key {
	return c07Key{Kind: "int", Node: term.S(term.Lit(int(z))), Text: strconv.FormatInt(z, 10), Int: &z}
}

// c07DisagreeingPairs: a < b numerically, text(a) > text(b).
var c07DisagreeingPairs = [][2]int64{{9, 10}, {2, 10}, {99, 100}, {3, 20}, {20, 100}, {5, 1000}, {-5, -3}, {-9, -10 + 2}, {-20, -100 + 90}, {7, 65536}, {19, 2 + 0}, {9, 19}}

func init() {
	// keep only genuine disagreements (the table is written for readability, not by hand-sorting)
	var ok [][2]int64
	for _, p := range c07DisagreeingPairs {
		a, b := p[0], p[1]
		if a > b {
			a, b = b, a
		}
		if strconv.FormatInt(a, 10) > strconv.FormatInt(b, 10) {
			ok = append(ok, [2]int64{a, b})
		}
	}
	c07DisagreeingPairs = ok
}

type c07mix struct {
	r     *rand.Rand
	fresh []string // reserved paths usable as qualifiers
	tags  map[string]bool
	ctr   int
}

// between draws a key that is not a plain integer literal and whose text t satisfies lo < t < hi.
func (m *c07mix) between(lo, hi string) (c07Key, bool) {
	for try := 0; try < 40; try++ {
		k := m.other(true)
		if lo < k.Text && k.Text < hi {
			return k, true
		}
	}
	return c07Key{}, false
}

// other draws a key that is not a plain integer literal.  digitLed: prefer the kinds whose text
// begins with a digit or a minus sign (the ones that can fall between integer texts).
func (m *c07mix) other(digitLed bool) c07Key {
	r := m.r
	m.ctr++
	n := []int{0, 1, 2, 3, 4, 5, 7, 9, 10, 11, 19, 20, 99, 100, 1000}[r.Intn(15)]
	id := pick(r, []string{"n", "k", "x", "K9", "K10", "_x", "idx"})
	kinds := 16
	if digitLed {
		kinds = 6
	}
	switch r.Intn(kinds) {
	case 0: // binary expression led by a number
		op := pick(r, []string{"*", "+", "-", "%", "<<", "|"})
		return c07Key{Kind: "expr", Node: term.S(term.Lit(n), term.Op(op), term.Id(id)), Text: fmt.Sprintf("%d %s %s", n, op, id)}
	case 1: // a number token written by the caller
		t := pick(r, []string{"1e3", "1e2", "2e1", "0x10", "0x9", "1_000", "9_9", "0b11", "0o17", "1.5e2", "5e0"})
		return c07Key{Kind: "raw-number", Node: term.S(term.Op(t)), Text: t}
	case 2: // float64 literal
		f := []float64{1.5, 2.5, 9.5, 10.5, 0.5, 19.25, 100.125, -4.5, -3.5, -10.5, 1000, 10, 9, 2, -3, 1e21, 1e-7}[r.Intn(17)]
		t := fmt.Sprintf("%#v", f)
		if !strings.ContainsAny(t, ".e") {
			t += ".0"
		}
		return c07Key{Kind: "float", Node: term.S(term.Lit(f)), Text: t}
	case 3: // unary minus on a name or a negative number in an expression
		if r.Intn(2) == 0 {
			return c07Key{Kind: "expr", Node: term.S(term.Op("-"), term.Id(id)), Text: "- " + id} // unformatted: one blank between tokens
		}
		op := pick(r, []string{"+", "*", "-"})
		return c07Key{Kind: "expr", Node: term.S(term.Lit(-n-1), term.Op(op), term.Id(id)), Text: fmt.Sprintf("%d %s %s", -n-1, op, id)}
	case 4: // two numbers
		op := pick(r, []string{"+", "-", "*"})
		b := 1 + r.Intn(12)
		return c07Key{Kind: "expr", Node: term.S(term.Lit(n), term.Op(op), term.Lit(b)), Text: fmt.Sprintf("%d %s %d", n, op, b)}
	case 5: // complex and imaginary tokens
		t := pick(r, []string{"2i", "10i", "9i", "1.5i"})
		return c07Key{Kind: "raw-number", Node: term.S(term.Op(t)), Text: t}
	case 6: // typed integer literal
		switch r.Intn(5) {
		case 0:
			return c07Key{Kind: "typed-literal", Node: term.S(term.Lit(int8(n % 128))), Text: fmt.Sprintf("int8(%d)", n%128)}
		case 1:
			return c07Key{Kind: "typed-literal", Node: term.S(term.Lit(int64(-n))), Text: fmt.Sprintf("int64(%d)", -n)}
		case 2:
			return c07Key{Kind: "typed-literal", Node: term.S(term.Lit(uint(n))), Text: fmt.Sprintf("uint(%#x)", n)}
		case 3:
			return c07Key{Kind: "typed-literal", Node: term.S(term.Lit(float32(n))), Text: fmt.Sprintf("float32(%d)", n)}
		}
		return c07Key{Kind: "typed-literal", Node: term.S(term.Lit(int16(n))), Text: fmt.Sprintf("int16(%d)", n)}
	case 7: // string that looks like a number, or not
		s := pick(r, []string{"10", "9", "2", "-3", "100", "a", "", "K9", "2 * n", " 9"})
		return c07Key{Kind: "string", Node: term.S(term.Lit(s)), Text: strconv.Quote(s)}
	case 8:
		c := []rune{'9', '1', 'a', '-', ' '}[r.Intn(5)]
		return c07Key{Kind: "rune", Node: term.S(term.LitRune(c)), Text: strconv.QuoteRune(c)}
	case 9:
		return c07Key{Kind: "ident", Node: term.S(term.Id(id)), Text: id}
	case 10:
		return c07Key{Kind: "call", Node: term.S(term.Id("f"), term.G("Call", term.S(term.Lit(n)))), Text: fmt.Sprintf("f (%d)", n)} // unformatted: a blank before the group
	case 11:
		return c07Key{Kind: "index", Node: term.S(term.Id("a"), term.G("Index", term.S(term.Lit(n)))), Text: fmt.Sprintf("a [%d]", n)}
	case 12:
		return c07Key{Kind: "parens", Node: term.S(term.G("Parens", term.S(term.Lit(n)))), Text: fmt.Sprintf("(%d)", n)}
	case 13:
		if len(m.fresh) > 0 {
			p := pick(r, m.fresh)
			name := fmt.Sprintf("K%d", n)
			// the text begins with the package name of a reserved path: a letter word, then a dot
			return c07Key{Kind: "qual", Node: term.S(term.Qual(p, name)), Text: "\x00qual " + p + "." + name}
		}
		return c07Key{Kind: "ident", Node: term.S(term.Id(id + "2")), Text: id + "2"}
	case 14: // composite literal whose fields are an inner Dict (2..4 fields, inserted in random order)
		fields := []string{"X", "Y", "Z", "W"}
		inner := &term.Dict{}
		var parts []string
		for _, j := range r.Perm(4)[:2+r.Intn(3)] {
			v := r.Intn(3)*10 + n
			inner.Pairs = append(inner.Pairs, [2]term.Node{term.S(term.Id(fields[j])), term.S(term.Lit(v))})
			parts = append(parts, fmt.Sprintf("%s:%d", fields[j], v))
		}
		sort.Strings(parts) // the signature of the key (its text depends on the formatting)
		m.tags["dict-key-contains-dict"] = true
		return c07Key{Kind: "composite", Node: term.S(term.Id("Point"), term.G("Values", inner)), Text: "\x00composite Point{" + strings.Join(parts, ",") + "}"}
	default: // selector and pointer expressions
		if r.Intn(2) == 0 {
			return c07Key{Kind: "expr", Node: term.S(term.Op("*"), term.Id(id)), Text: "* " + id}
		}
		return c07Key{Kind: "expr", Node: term.S(term.Id(id), term.Dot("F")), Text: id + " . F"}
	}
}

// dict draws one mixed Dict.  It returns the Dict, whether it holds an integer pair whose
// orders disagree, and whether a key of another kind lies between such a pair (by the texts of
// the catalogue; texts that start with NUL stand for keys whose text depends on the file).
func (m *c07mix) dict(depth int) (d *term.Dict, disagree, cycle bool, kinds map[string]bool) {
	r := m.r
	kinds = map[string]bool{}
	seen := map[string]bool{}
	var keys []c07Key
	add := func(k c07Key) bool {
		if seen[k.Text] {
			return false
		}
		seen[k.Text] = true
		keys = append(keys, k)
		kinds[k.Kind] = true
		return true
	}
	if r.Intn(6) > 0 {
		p := c07DisagreeingPairs[r.Intn(len(c07DisagreeingPairs))]
		add(c07IntKey(p[0]))
		add(c07IntKey(p[1]))
		if r.Intn(4) > 0 {
			if k, ok := m.between(strconv.FormatInt(p[1], 10), strconv.FormatInt(p[0], 10)); ok {
				add(k)
			}
		}
	}
	for i := r.Intn(4); i > 0; i-- {
		z := []int64{0, 1, 2, 3, 9, 10, 11, 19, 20, 99, 100, 101, 1000, -1, -3, -5, -10, -20, -100, 65535}[r.Intn(20)]
		add(c07IntKey(z))
	}
	want := len(keys) + 1 + r.Intn(6)
	if want < 3 {
		want = 3
	}
	for try := 0; len(keys) < want && try < 60; try++ {
		add(m.other(r.Intn(3) == 0))
	}
	// measured on the catalogue texts
	for _, a := range keys {
		for _, b := range keys {
			if a.Int == nil || b.Int == nil || !(*a.Int < *b.Int && a.Text > b.Text) {
				continue
			}
			disagree = true
			for _, t := range keys {
				if t.Int == nil && t.Text[0] != 0 && b.Text < t.Text && t.Text < a.Text {
					cycle = true
				}
			}
		}
	}
	r.Shuffle(len(keys), func(a, b int) { keys[a], keys[b] = keys[b], keys[a] })
	d = &term.Dict{}
	for i, k := range keys {
		var v term.Node
		switch r.Intn(8) {
		case 0:
			if depth == 0 {
				inner, _, _, _ := m.dict(1)
				v = term.S(term.G("Map", term.S(term.G("Interface"))), term.G("Interface"), term.G("Values", inner))
				m.tags["dict-nested"] = true
			} else {
				v = term.S(term.Lit(i))
			}
		case 1, 2:
			v = term.S(term.Lit(i))
		case 3:
			v = term.S(term.Id("v"))
		default:
			v = term.S(term.Lit(fmt.Sprintf("s%d", i)))
		}
		d.Pairs = append(d.Pairs, [2]term.Node{k.Node, v})
	}
	return d, disagree, cycle, kinds
}

// c07MixedCase draws one case of the stream.
//
// NonTrivial (counted on the recipe, texts of the key catalogue): some Dict of the case holds
// two integer-literal keys whose numeric and textual orders disagree together with a key of
// another kind.
func c07MixedCase(r *rand.Rand) *Case {
	m := &c07mix{r: r, tags: map[string]bool{}}
	for _, i := range r.Perm(len(c07FreshPaths))[:r.Intn(4)] {
		m.fresh = append(m.fresh, c07FreshPaths[i])
	}
	nt := false
	var stmts []*term.Stmt
	maxKeys := 0
	one := func(stringValues bool) *term.Stmt {
		d, dis, cyc, kinds := m.dict(0)
		if len(d.Pairs) > maxKeys {
			maxKeys = len(d.Pairs)
		}
		m.tags["dict-pairs="+c07Bucket(len(d.Pairs), 3, 5, 9)] = true
		m.tags[fmt.Sprintf("key-kinds=%s", c07Bucket(len(kinds), 2, 3, 5))] = true
		for k := range kinds {
			m.tags["key-kind="+k] = true
		}
		if dis {
			m.tags["int-keys-numeric-and-text-order-disagree"] = true
		}
		if cyc {
			m.tags["other-kind-key-between-two-int-keys"] = true
		}
		if dis && len(kinds) >= 2 {
			nt = true
		}
		head := []term.Node{term.Named("Var"), term.Id("_"), term.Op("=")}
		switch r.Intn(3) {
		case 0:
			m.tags["container=map"] = true
			return term.S(append(head, term.G("Map", term.S(term.G("Interface"))), term.G("Interface"), term.G("Values", d))...)
		case 1:
			m.tags["container=array"] = true
			return term.S(append(head, term.G("Index", term.S(term.Op("..."))), term.G("Interface"), term.G("Values", d))...)
		}
		m.tags["container=slice"] = true
		return term.S(append(head, term.G("Index"), term.G("Interface"), term.G("Values", d))...)
	}
	renders := 4 + r.Intn(5)
	var h hist.History
	if r.Intn(4) == 0 {
		// a bare Statement: every render has a File of its own
		m.tags["render=plain-statement"] = true
		st := one(false)
		for i := 0; i < renders; i++ {
			h = append(h, hist.Op{Kind: "rplain", Code: st})
		}
	} else {
		m.tags["render=file"] = true
		h = append(h, hist.Op{Kind: "newfile", F: 0, A: "p"})
		if len(m.fresh) > 0 && r.Intn(2) == 0 {
			var pairs [][2]string
			for _, p := range m.fresh {
				if r.Intn(2) == 0 {
					pairs = append(pairs, [2]string{p, c07FreshHint(p)})
				}
			}
			if len(pairs) > 0 {
				h = append(h, hist.Op{Kind: "importnames", F: 0, Pairs: pairs})
				m.tags["hints"] = true
			}
		}
		for i := 1 + r.Intn(3); i > 0; i-- {
			stmts = append(stmts, one(false))
		}
		for _, st := range stmts {
			h = append(h, hist.Op{Kind: "fadd", F: 0, Code: st})
		}
		nf := r.Intn(2) == 0
		for i := 0; i < renders; i++ {
			h = append(h, hist.Op{Kind: "noformat", F: 0, Flag: nf}, hist.Op{Kind: "render", F: 0})
			nf = !nf
		}
		h = append(h, hist.Op{Kind: "imports", F: 0})
	}
	m.tags[fmt.Sprintf("renders-per-build=%s", c07Bucket(renders, 4, 6, 8))] = true
	m.tags["builds=6+3 child processes"] = true
	return &Case{Hist: h, Stream: "mixed-keys", Tags: sortedKeys(m.tags), NonTrivial: nt,
		Meta: map[string]interface{}{"builds": 6, "mixed": true}}
}

// ---------------------------------------------------------------------------------------
// Oracle part.

// c07LiteralKeys parses src (a file, or a declaration when !isFile) and returns, for every
// composite literal that has keyed elements (in source order), the source texts of its keys.
func c07LiteralKeys(src string, isFile bool) ([][]string, error) {
	if !isFile {
		src = "package p\n" + src
	}
	fset := token.NewFileSet()
	f, err := parser.ParseFile(fset, "x.go", src, 0)
	if err != nil {
		return nil, err
	}
	var out [][]string
	ast.Inspect(f, func(n ast.Node) bool {
		cl, ok := n.(*ast.CompositeLit)
		if !ok {
			return true
		}
		var keys []string
		for _, e := range cl.Elts {
			if kv, ok := e.(*ast.KeyValueExpr); ok {
				keys = append(keys, src[fset.Position(kv.Key.Pos()).Offset:fset.Position(kv.Key.End()).Offset])
			}
		}
		if len(keys) > 0 {
			out = append(out, keys)
		}
		return true
	})
	return out, nil
}

func c07NoBlanks(s string) string {
	return strings.Map(func(r rune) rune {
		if r == ' ' || r == '\t' || r == '\n' {
			return -1
		}
		return r
	}, s)
}

// c07KeysAscending: every literal's key texts are strictly ascending, bytewise.
func c07KeysAscending(lits [][]string) string {
	for i, keys := range lits {
		for j := 0; j+1 < len(keys); j++ {
			if !(keys[j] < keys[j+1]) {
				return fmt.Sprintf("literal %d: key `%s` is rendered before key `%s`: the keys %q are not in ascending order of their texts", i, keys[j], keys[j+1], keys)
			}
		}
	}
	return ""
}

// c07MixedCheck decides, on the observations of ONE build, what does not need a second build.
func c07MixedCheck(c *Case, got []hist.Obs) string {
	// which renders are unformatted
	var raw []bool
	isFile := true
	nf := false
	for _, op := range c.Hist {
		switch op.Kind {
		case "noformat":
			nf = op.Flag
		case "render":
			raw = append(raw, nf)
		case "rplain":
			raw = append(raw, false)
			isFile = false
		}
	}
	var writes []hist.Obs
	for _, o := range got {
		if o.Kind == "write" || o.Kind == "fmterr" || o.Kind == "panic" {
			writes = append(writes, o)
		}
	}
	if len(writes) != len(raw) {
		return fmt.Sprintf("%d renders planned, %d observed: %v", len(raw), len(writes), got)
	}
	first := map[bool]string{}
	firstAt := map[bool]int{}
	var rawKeys, fmtKeys [][]string
	for i, o := range writes {
		if o.Kind != "write" || o.Failed {
			return fmt.Sprintf("render %d did not succeed: %s", i, o)
		}
		if prev, ok := first[raw[i]]; ok {
			if prev != o.Out {
				return fmt.Sprintf("render %d of the same object differs from render %d (NoFormat %v both):\n  render %d: %q\n  render %d: %q", i, firstAt[raw[i]], raw[i], firstAt[raw[i]], prev, i, o.Out)
			}
			continue
		}
		first[raw[i]], firstAt[raw[i]] = o.Out, i
		keys, err := c07LiteralKeys(o.Out, isFile)
		if err != nil {
			return fmt.Sprintf("render %d does not parse: %v", i, err)
		}
		if len(keys) == 0 {
			return fmt.Sprintf("harness: render %d holds no keyed literal", i)
		}
		if raw[i] {
			// jennifer's own text: the order it sorts by
			if m := c07KeysAscending(keys); m != "" {
				return fmt.Sprintf("render %d (NoFormat): %s", i, m)
			}
			rawKeys = keys
		} else {
			fmtKeys = keys
		}
	}
	if !isFile {
		// a bare Statement only has formatted renders, and gofmt respaces key texts (`- k` becomes
		// `-k`, which sorts elsewhere): the order jennifer sorts by is read off an UNFORMATTED
		// render of the same statement in a File of its own, built here
		var st term.Node
		for _, op := range c.Hist {
			if op.Kind == "rplain" {
				st = op.Code
			}
		}
		obs := c07Exec(hist.History{{Kind: "newfile", F: 0, A: "p"}, {Kind: "noformat", F: 0, Flag: true}, {Kind: "fadd", F: 0, Code: st}, {Kind: "render", F: 0}})
		if len(obs) != 1 || obs[0].Kind != "write" {
			return fmt.Sprintf("the statement of the plain renders does not render unformatted in a File: %v", obs)
		}
		keys, err := c07LiteralKeys(obs[0].Out, true)
		if err != nil {
			return fmt.Sprintf("the unformatted render of the statement in a File does not parse: %v", err)
		}
		if m := c07KeysAscending(keys); m != "" {
			return "the statement rendered unformatted in a File: " + m
		}
		rawKeys = keys
	}
	if rawKeys != nil && fmtKeys != nil {
		if len(rawKeys) != len(fmtKeys) {
			return fmt.Sprintf("the formatted render holds %d keyed literals, the unformatted one %d", len(fmtKeys), len(rawKeys))
		}
		for i := range rawKeys {
			a, b := rawKeys[i], fmtKeys[i]
			same := len(a) == len(b)
			for j := 0; same && j < len(a); j++ {
				same = c07NoBlanks(a[j]) == c07NoBlanks(b[j])
			}
			if !same {
				return fmt.Sprintf("literal %d: the formatted render has the keys %q, the unformatted render of the same object %q", i, b, a)
			}
		}
	}
	return ""
}
