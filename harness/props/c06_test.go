package props

import (
	"strings"
	"testing"

	"verifharness/hist"
)

// The C06 oracle on hand-made outputs: the File's own path declared a dot-import.
func TestC06OracleLocalDotHint(t *testing.T) {
	rc := &RefCase{Paths: []string{"a.b/c", "x.y/c"}, Local: "a.b/c", Anon: map[string]bool{},
		Hints:    map[string][2]string{"a.b/c": {".", "alias"}},
		Rendered: map[int]bool{0: true, 1: true}, Hidden: map[int]bool{}}
	c := &Case{Meta: map[string]interface{}{"rc": rc}}
	run := func(src string) string {
		return c06{}.Oracle(c, []hist.Obs{{Kind: "write", Out: src}})
	}
	good := "package c\n\nimport c1 \"x.y/c\"\n\nvar _ = V0_1\nvar _ = c1.V1_2\n"
	if m := run(good); m != "" {
		t.Fatalf("good output rejected: %s", m)
	}
	bad := map[string]string{
		// the mutant's output: the own path is dot-imported
		"package c\n\nimport (\n\t. \"a.b/c\"\n\tc1 \"x.y/c\"\n)\n\nvar _ = V0_1\nvar _ = c1.V1_2\n": "local package",
		// the own path imported under a name and the reference qualified
		"package c\n\nimport (\n\tc \"a.b/c\"\n\tc1 \"x.y/c\"\n)\n\nvar _ = c.V0_1\nvar _ = c1.V1_2\n": "local package",
		// the other path written bare
		"package c\n\nvar _ = V0_1\nvar _ = V1_2\n": "neither local nor dot-imported",
	}
	for src, want := range bad {
		if m := run(src); !strings.Contains(m, want) {
			t.Errorf("bad output not rejected as expected (%q): got %q\n%s", want, m, src)
		}
	}
}

// The stricter import-set rule of Resolve: an Anon path that is never referenced stays `_`.
func TestResolveAnonThenHint(t *testing.T) {
	rc := &RefCase{Paths: []string{"a.b/d", "x.y/z"}, Anon: map[string]bool{"a.b/d": true, "q.r/s": true},
		Hints:    map[string][2]string{"a.b/d": {"foo", "alias"}, "q.r/s": {"bar", "name"}},
		Rendered: map[int]bool{1: true}, Hidden: map[int]bool{0: true}}
	good := "package p\n\nimport (\n\t_ \"a.b/d\"\n\t_ \"q.r/s\"\n\tz \"x.y/z\"\n)\n\nvar _ = z.V1_1\n"
	if m := rc.Resolve(good); m != "" {
		t.Fatalf("good output rejected: %s", m)
	}
	for src, want := range map[string]string{
		"package p\n\nimport (\n\t_ \"q.r/s\"\n\tz \"x.y/z\"\n)\n\nvar _ = z.V1_1\n":                  "anonymous import \"a.b/d\" is missing",
		"package p\n\nimport (\n\tfoo \"a.b/d\"\n\t_ \"q.r/s\"\n\tz \"x.y/z\"\n)\n\nvar _ = z.V1_1\n": "instead of _",
		"package p\n\nimport (\n\t_ \"a.b/d\"\n\t\"q.r/s\"\n\tz \"x.y/z\"\n)\n\nvar _ = z.V1_1\n":     "instead of _",
		"package p\n\nimport (\n\t_ \"a.b/d\"\n\t_ \"q.r/s\"\n\t_ \"x.y/z\"\n)\n\nvar _ = z.V1_1\n":   "no import provides the name z",
	} {
		if m := rc.Resolve(src); !strings.Contains(m, want) {
			t.Errorf("want %q, got %q for\n%s", want, m, src)
		}
	}
}
