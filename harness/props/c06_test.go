package props

import (
	"go/parser"
	"go/token"
	"math/rand"
	"strings"
	"testing"

	"verifharness/hist"
)

// The C06 oracle on hand-made outputs: the File's own path declared a dot-import.
func TestC06OracleLocalDotHint(t *testing.T) {
	rc := &RefCase{Paths: []string{"a.b/c", "x.y/c"}, Local: "a.b/c", Anon: map[string]bool{},
		Hints:    map[string][2]string{"a.b/c": {".", "alias"}},
		Rendered: map[int]bool{0: true, 1: true}, Hidden: map[int]bool{}}
	c := &Case{Meta: map[string]interface{}{"rc": rc}}
	run := func(src string) string {
		return c06{}.Oracle(c, []hist.Obs{{Kind: "write", Out: src}})
	}
	good := "package c\n\nimport c1 \"x.y/c\"\n\nvar _ = V0_1\nvar _ = c1.V1_2\n"
	if m := run(good); m != "" {
		t.Fatalf("good output rejected: %s", m)
	}
	bad := map[string]string{
		// the mutant's output: the own path is dot-imported
		"package c\n\nimport (\n\t. \"a.b/c\"\n\tc1 \"x.y/c\"\n)\n\nvar _ = V0_1\nvar _ = c1.V1_2\n": "local package",
		// the own path imported under a name and the reference qualified
		"package c\n\nimport (\n\tc \"a.b/c\"\n\tc1 \"x.y/c\"\n)\n\nvar _ = c.V0_1\nvar _ = c1.V1_2\n": "local package",
		// the other path written bare
		"package c\n\nvar _ = V0_1\nvar _ = V1_2\n": "neither local nor dot-imported",
	}
	for src, want := range bad {
		if m := run(src); !strings.Contains(m, want) {
			t.Errorf("bad output not rejected as expected (%q): got %q\n%s", want, m, src)
		}
	}
}

// The stricter import-set rule of Resolve: an Anon path that is never referenced stays `_`.
func TestResolveAnonThenHint(t *testing.T) {
	rc := &RefCase{Paths: []string{"a.b/d", "x.y/z"}, Anon: map[string]bool{"a.b/d": true, "q.r/s": true},
		Hints:    map[string][2]string{"a.b/d": {"foo", "alias"}, "q.r/s": {"bar", "name"}},
		Rendered: map[int]bool{1: true}, Hidden: map[int]bool{0: true}}
	good := "package p\n\nimport (\n\t_ \"a.b/d\"\n\t_ \"q.r/s\"\n\tz \"x.y/z\"\n)\n\nvar _ = z.V1_1\n"
	if m := rc.Resolve(good); m != "" {
		t.Fatalf("good output rejected: %s", m)
	}
	for src, want := range map[string]string{
		"package p\n\nimport (\n\t_ \"q.r/s\"\n\tz \"x.y/z\"\n)\n\nvar _ = z.V1_1\n":                  "anonymous import \"a.b/d\" is missing",
		"package p\n\nimport (\n\tfoo \"a.b/d\"\n\t_ \"q.r/s\"\n\tz \"x.y/z\"\n)\n\nvar _ = z.V1_1\n": "instead of _",
		"package p\n\nimport (\n\t_ \"a.b/d\"\n\t\"q.r/s\"\n\tz \"x.y/z\"\n)\n\nvar _ = z.V1_1\n":     "instead of _",
		"package p\n\nimport (\n\t_ \"a.b/d\"\n\t_ \"q.r/s\"\n\t_ \"x.y/z\"\n)\n\nvar _ = z.V1_1\n":   "no import provides the name z",
	} {
		if m := rc.Resolve(src); !strings.Contains(m, want) {
			t.Errorf("want %q, got %q for\n%s", want, m, src)
		}
	}
}

// The multi-render oracle on hand-made outputs: NewFilePathName("a.b/c", "q"); references to
// a.b/c (local), fmt (U: unaliased first, dot hint later) and x.y/d (D: dot first, ordinary
// hint later); File.Render, ImportAlias("fmt", "."), ImportAlias("x.y/d", "foo"), a fragment,
// File.Render.
func TestC06MultiRenderOracle(t *testing.T) {
	info := &c06multi{Paths: []string{"a.b/c", "fmt", "x.y/d"}, Local: "a.b/c"}
	h := hist.History{
		{Kind: "newfilepathname", F: 0, A: "a.b/c", B: "q"},
		{Kind: "importalias", F: 0, A: "x.y/d", B: "."},
		{Kind: "render", F: 0}, {Kind: "imports", F: 0},
		{Kind: "importalias", F: 0, A: "fmt", B: "."},
		{Kind: "importalias", F: 0, A: "x.y/d", B: "foo"},
		{Kind: "rcode", F: 0}, {Kind: "imports", F: 0},
		{Kind: "render", F: 0}, {Kind: "imports", F: 0},
	}
	c := &Case{Hist: h, Meta: map[string]interface{}{"c06multi": info}}
	w := func(s string) hist.Obs { return hist.Obs{Kind: "write", Out: s} }
	tab := hist.Obs{Kind: "imports", Imports: []hist.Import{{Path: "fmt", Name: "fmt"}, {Path: "x.y/d", Name: ".", Alias: true}}}
	file := "package q\n\nimport (\n\t\"fmt\"\n\t. \"x.y/d\"\n)\n\nvar _ = V0_1\nvar _ = fmt.V1_2\nvar _ = V2_3\n"
	frag := "var _ = f(fmt.V1_4, V2_5, V0_6)"
	good := []hist.Obs{w(file), tab, w(frag), tab, w(file), tab}
	if m := (c06{}).Oracle(c, good); m != "" {
		t.Fatalf("good history rejected: %s", m)
	}
	with := func(k int, o hist.Obs) []hist.Obs {
		out := append([]hist.Obs{}, good...)
		out[k] = o
		return out
	}
	for name, b := range map[string]struct {
		obs  []hist.Obs
		want string
	}{
		// the later dot hint is applied to the references only
		"second render writes fmt bare, block unchanged": {with(4, w("package q\n\nimport (\n\t\"fmt\"\n\t. \"x.y/d\"\n)\n\nvar _ = V0_1\nvar _ = V1_2\nvar _ = V2_3\n")), "keeps the form of its first rendering"},
		// ... to the block only
		"second render dot-imports fmt, references qualified": {with(4, w("package q\n\nimport (\n\t. \"fmt\"\n\t. \"x.y/d\"\n)\n\nvar _ = V0_1\nvar _ = fmt.V1_2\nvar _ = V2_3\n")), "dot-imports \"fmt\", but the path is written as fmt.X"},
		// ... to both: consistent Go, but the path changes its form
		"second render switches fmt to a dot-import":            {with(4, w("package q\n\nimport (\n\t. \"fmt\"\n\t. \"x.y/d\"\n)\n\nvar _ = V0_1\nvar _ = V1_2\nvar _ = V2_3\n")), "keeps the form of its first rendering"},
		"second render applies the ordinary alias to the block": {with(4, w("package q\n\nimport (\n\t\"fmt\"\n\tfoo \"x.y/d\"\n)\n\nvar _ = V0_1\nvar _ = fmt.V1_2\nvar _ = V2_3\n")), "does not dot-import \"x.y/d\""},
		"second render qualifies the former dot-import":         {with(4, w("package q\n\nimport (\n\t\"fmt\"\n\tfoo \"x.y/d\"\n)\n\nvar _ = V0_1\nvar _ = fmt.V1_2\nvar _ = foo.V2_3\n")), "keeps the form of its first rendering"},
		"fragment follows the later dot hint":                   {with(2, w("var _ = f(V1_4, V2_5, V0_6)")), "keeps the form of its first rendering"},
		"fragment qualifies the local path":                     {with(2, w("var _ = f(fmt.V1_4, V2_5, c.V0_6)")), "keeps the form of its first rendering"},
		"table disagrees with the fragment":                     {with(3, hist.Obs{Kind: "imports", Imports: []hist.Import{{Path: "fmt", Name: ".", Alias: true}, {Path: "x.y/d", Name: ".", Alias: true}}}), "registers it as \".\""},
		"table loses the dot-import":                            {with(3, hist.Obs{Kind: "imports", Imports: []hist.Import{{Path: "fmt", Name: "fmt"}, {Path: "x.y/d", Name: "foo", Alias: true}}}), "not as a dot-import"},
		"table holds the own path":                              {with(1, hist.Obs{Kind: "imports", Imports: append([]hist.Import{{Path: "a.b/c", Name: "c", Alias: true}}, tab.Imports...)}), "holds the File's own path"},
		"first render qualifies the dot-import":                 {with(0, w("package q\n\nimport (\n\t\"fmt\"\n\td \"x.y/d\"\n)\n\nvar _ = V0_1\nvar _ = fmt.V1_2\nvar _ = d.V2_3\n")), "declared a dot-import at its first rendering but is qualified"},
		"first render writes fmt bare":                          {with(0, w("package q\n\nimport (\n\t. \"fmt\"\n\t. \"x.y/d\"\n)\n\nvar _ = V0_1\nvar _ = V1_2\nvar _ = V2_3\n")), "written bare at its first rendering"},
		"own path imported":                                     {with(4, w("package q\n\nimport (\n\t. \"a.b/c\"\n\t\"fmt\"\n\t. \"x.y/d\"\n)\n\nvar _ = V0_1\nvar _ = fmt.V1_2\nvar _ = V2_3\n")), "imports the File's own path"},
		"import dropped by the second render":                   {with(4, w("package q\n\nimport . \"x.y/d\"\n\nvar _ = V0_1\nvar _ = fmt.V1_2\nvar _ = V2_3\n")), "does not import it"},
		"alias nobody declared":                                 {with(4, w("package q\n\nimport (\n\t\"fmt\"\n\t. \"x.y/d\"\n)\n\nvar _ = V0_1\nvar _ = fmt1.V1_2\nvar _ = V2_3\n")), "keeps the form of its first rendering"},
		"second render fails":                                   {with(4, hist.Obs{Kind: "fmterr", Out: "x"}), "did not render"},
	} {
		if m := (c06{}).Oracle(c, b.obs); !strings.Contains(m, b.want) {
			t.Errorf("%s: want %q, got %q", name, b.want, m)
		}
	}
	// unaliased import whose qualifier nothing declares
	c2 := &Case{Hist: hist.History{{Kind: "newfile", F: 0, A: "p"}, {Kind: "render", F: 0}}, Meta: map[string]interface{}{"c06multi": &c06multi{Paths: []string{"x.y/d"}}}}
	if m := (c06{}).Oracle(c2, []hist.Obs{w("package p\n\nimport \"x.y/d\"\n\nvar _ = d.V0_1\n")}); !strings.Contains(m, "nothing declares that name") {
		t.Errorf("undeclared name accepted: %q", m)
	}
}

// The stream holds on the unchanged tree, and its tags are honest: a case tagged
// dot-hint-after-unaliased-render really has a path that the first File.Render imports
// WITHOUT alias, that is declared a dot-import afterwards, and that a later File.Render
// writes again.
func TestC06MultiRenderGenerate(t *testing.T) {
	r := rand.New(rand.NewSource(3))
	tagged := 0
	for n := 0; n < 600; n++ {
		c := c06MultiCase(r)
		got := hist.NewWorld().Exec(c.Hist)
		if m := (c06{}).Oracle(c, got); m != "" {
			t.Fatalf("oracle fails on the unchanged tree: %s\n%s", m, c.Hist.Sexp())
		}
		if !hasTag(c, "dot-hint-after-unaliased-render") {
			continue
		}
		tagged++
		oi, renders := 0, 0
		unaliased := map[string]bool{}
		dotted := map[string]bool{}
		ok := false
		for _, op := range c.Hist {
			switch op.Kind {
			case "importalias":
				if op.B == "." && unaliased[op.A] {
					dotted[op.A] = true
				}
			case "imports", "rcode":
				oi++
			case "render":
				renders++
				src := got[oi].Out
				oi++
				pf, err := parser.ParseFile(token.NewFileSet(), "x.go", src, parser.ImportsOnly)
				if err != nil {
					t.Fatal(err)
				}
				specs, _ := parseImports(pf)
				for _, sp := range specs {
					if renders == 1 && sp.name == "" {
						unaliased[sp.path] = true
					}
					if renders > 1 && dotted[sp.path] && sp.name == "" {
						ok = true
					}
				}
			}
		}
		if !ok {
			t.Fatalf("tag dot-hint-after-unaliased-render is not honest for %s", c.Hist.Sexp())
		}
	}
	if tagged < 300 {
		t.Errorf("only %d of 600 cases tagged", tagged)
	}
}
